package main

// A database/sql driver ("detfakepg") that plays a PostgreSQL / CockroachDB server for postgres.Open and the
// differ / planner it returns (C20 round 5, stage history; after harness/cmd/diff/fakepg.go). It answers the
// parameters query of postgres.Open (server_version_num, default_table_access_method, crdb_version) and the
// `SELECT <x> = <y>` with which the differ compares two default expressions (always false: the expressions of
// the sample are different texts); no rows otherwise. The DSN is the name of a flavour.

import (
	"context"
	"database/sql"
	"database/sql/driver"
	"fmt"
	"strings"
	"sync/atomic"

	"ariga.io/atlas/sql/postgres"
)

var pgFlavours = []*myFlavour{
	// postgres.DefaultDiff / DefaultPlan: no connection
	{name: "pgdefault", pg: true},
	{name: "pg15", pg: true, version: "150004"},
	{name: "pg10", pg: true, version: "100023"},
	{name: "crdb", pg: true, version: "130000", crdb: "CockroachDB CCL v23.1.11"},
}

type (
	detFakePG     struct{}
	detFakePGConn struct{ f *myFlavour }
	detFakePGStmt struct {
		c detFakePGConn
		q string
	}
)

func init() { sql.Register("detfakepg", detFakePG{}) }

func (detFakePG) Open(dsn string) (driver.Conn, error) {
	f := myFlavourByName(dsn)
	if f == nil || !f.pg || f.version == "" {
		return nil, fmt.Errorf("detfakepg: unknown flavour %q", dsn)
	}
	return detFakePGConn{f}, nil
}
func (c detFakePGConn) Prepare(q string) (driver.Stmt, error)     { return detFakePGStmt{c, q}, nil }
func (detFakePGConn) Close() error                                { return nil }
func (detFakePGConn) Begin() (driver.Tx, error)                   { return nil, fmt.Errorf("detfakepg: no transactions") }
func (detFakePGStmt) Close() error                                { return nil }
func (detFakePGStmt) NumInput() int                               { return -1 }
func (detFakePGStmt) Exec([]driver.Value) (driver.Result, error)  { return driver.RowsAffected(0), nil }
func (s detFakePGStmt) Query([]driver.Value) (driver.Rows, error) { return s.c.answer(s.q), nil }
func (c detFakePGConn) QueryContext(_ context.Context, q string, _ []driver.NamedValue) (driver.Rows, error) {
	return c.answer(q), nil
}

func (c detFakePGConn) answer(q string) driver.Rows {
	atomic.AddInt64(&detMyQueries, 1)
	switch {
	case strings.Contains(q, "server_version_num"):
		var crdb driver.Value
		if c.f.crdb != "" {
			crdb = c.f.crdb
		}
		return &detFakeRows{cols: []string{"a", "b", "c"}, rows: [][]driver.Value{{c.f.version, "heap", crdb}}}
	case strings.HasPrefix(q, "SELECT ") && strings.Contains(q, " = "):
		return &detFakeRows{cols: []string{"eq"}, rows: [][]driver.Value{{false}}}
	}
	return &detFakeRows{cols: []string{"x"}}
}

func openPGWorker(f *myFlavour) (*myWorker, error) {
	if f.version == "" {
		return &myWorker{f, postgres.DefaultDiff, postgres.DefaultPlan, postgres.MarshalHCL, postgres.FormatType}, nil
	}
	db, err := sql.Open("detfakepg", f.name)
	if err != nil {
		return nil, err
	}
	drv, err := postgres.Open(db)
	if err != nil {
		return nil, err
	}
	return &myWorker{f, drv, drv, postgres.MarshalHCL, postgres.FormatType}, nil
}
