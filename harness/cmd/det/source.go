package main

// Declaration-order oracle of C20: the HCL source of a schema with its top-level blocks permuted
// and spread over several files must give (1) the same statements (as a multiset: content never
// changes), (2) an order that differs from the unpermuted plan only between independent
// statements, (3) on SQLite, executed on the real engine, the same resulting schema.

import (
	"context"
	"database/sql"
	"fmt"
	"sort"
	"strings"

	"ariga.io/atlas/sql/migrate"
	"ariga.io/atlas/sql/schema"
	"ariga.io/atlas/sql/sqlite"
	"github.com/hashicorp/hcl/v2/hclparse"
	_ "github.com/mattn/go-sqlite3"

	"verifharness/internal/out"
	"verifharness/internal/rng"
)

// splitBlocks cuts marshalled HCL into its top-level blocks (a block ends with "}" in column 0).
func splitBlocks(src string) []string {
	var blocks []string
	var cur []string
	for _, l := range strings.Split(src, "\n") {
		cur = append(cur, l)
		if l == "}" {
			blocks = append(blocks, strings.Join(cur, "\n")+"\n")
			cur = nil
		}
	}
	return blocks
}

func evalFiles(d *dialect, files map[string]string) (*schema.Schema, error) {
	p := hclparse.NewParser()
	for n, s := range files {
		if _, diag := p.ParseHCL([]byte(s), n); diag.HasErrors() {
			return nil, diag
		}
	}
	var r schema.Realm
	if err := d.eval.Eval(p, &r, nil); err != nil {
		return nil, err
	}
	if len(r.Schemas) != 1 {
		return nil, fmt.Errorf("expected one schema, got %d", len(r.Schemas))
	}
	return r.Schemas[0], nil
}

type stmt struct {
	cmd  string
	kind string // A add table, M modify, D drop, O other
	tab  string
	refs []string // tables that must be handled before (A, M: created; D: dropped)
}

func planStmts(p *migrate.Plan) []stmt {
	var out []stmt
	dropped := map[string]*schema.Table{}
	for _, c := range p.Changes {
		if d, ok := c.Source.(*schema.DropTable); ok {
			dropped[d.T.Name] = d.T
		}
	}
	for _, c := range p.Changes {
		s := stmt{cmd: c.Cmd, kind: "O"}
		switch src := c.Source.(type) {
		case *schema.AddTable:
			s.kind, s.tab = "A", src.T.Name
			for _, fk := range src.T.ForeignKeys {
				if fk.RefTable != nil && fk.RefTable.Name != src.T.Name {
					s.refs = append(s.refs, fk.RefTable.Name)
				}
			}
		case *schema.ModifyTable:
			s.kind, s.tab = "M", src.T.Name
			s.refs = append(s.refs, src.T.Name)
			for _, mc := range src.Changes {
				if a, ok := mc.(*schema.AddForeignKey); ok && a.F.RefTable != nil {
					s.refs = append(s.refs, a.F.RefTable.Name)
				}
			}
		case *schema.DropTable:
			s.kind, s.tab = "D", src.T.Name
			// every dropped table that references this one goes first
			for n, t := range dropped {
				if n == src.T.Name {
					continue
				}
				for _, fk := range t.ForeignKeys {
					if fk.RefTable != nil && fk.RefTable.Name == src.T.Name {
						s.refs = append(s.refs, n)
					}
				}
			}
		}
		out = append(out, s)
	}
	return out
}

// dependent: must a stay on the same side of b?
func dependent(a, b stmt) bool {
	dep := func(x, y stmt) bool { // x needs y first
		for _, r := range x.refs {
			switch {
			case x.kind == "D" && y.kind == "D" && y.tab == r:
				return true
			case x.kind != "D" && y.kind == "A" && y.tab == r:
				return true
			}
		}
		return false
	}
	return dep(a, b) || dep(b, a)
}

func multiset(ss []stmt) string {
	var cs []string
	for _, s := range ss {
		cs = append(cs, s.cmd)
	}
	sort.Strings(cs)
	return strings.Join(cs, "\n")
}

// sqliteApply executes the plan on a fresh in-memory database and returns a canonical dump of
// what the real engine then contains.
func sqliteApply(name string, p *migrate.Plan) (string, error) {
	db, err := sql.Open("sqlite3", "file:"+name+"?mode=memory&cache=shared&_fk=1")
	if err != nil {
		return "", err
	}
	defer db.Close()
	db.SetMaxOpenConns(1)
	for _, c := range p.Changes {
		if _, err := db.Exec(c.Cmd, c.Args...); err != nil {
			return "", fmt.Errorf("exec %q: %w", trunc(c.Cmd, 80), err)
		}
	}
	drv, err := sqlite.Open(db)
	if err != nil {
		return "", err
	}
	s, err := drv.InspectSchema(context.Background(), "main", nil)
	if err != nil {
		return "", err
	}
	return dumpSchema(s), nil
}

func dumpSchema(s *schema.Schema) string {
	var ts []string
	for _, t := range s.Tables {
		var b strings.Builder
		fmt.Fprintf(&b, "table %s\n", t.Name)
		for _, c := range t.Columns {
			fmt.Fprintf(&b, "  col %s %s null=%v\n", c.Name, c.Type.Raw, c.Type.Null)
		}
		if t.PrimaryKey != nil {
			fmt.Fprintf(&b, "  pk")
			for _, p := range t.PrimaryKey.Parts {
				fmt.Fprintf(&b, " %s", p.C.Name)
			}
			b.WriteString("\n")
		}
		var xs []string
		for _, i := range t.Indexes {
			x := fmt.Sprintf("  index %s unique=%v", i.Name, i.Unique)
			for _, p := range i.Parts {
				if p.C != nil {
					x += " " + p.C.Name
				}
			}
			xs = append(xs, x)
		}
		for _, f := range t.ForeignKeys {
			x := fmt.Sprintf("  fk %s ->%s", f.Symbol, f.RefTable.Name)
			for _, c := range f.Columns {
				x += " " + c.Name
			}
			xs = append(xs, x)
		}
		sort.Strings(xs)
		b.WriteString(strings.Join(xs, "\n"))
		ts = append(ts, b.String())
	}
	sort.Strings(ts)
	return strings.Join(ts, "\n")
}

func sourceMain(w *out.W, tier string) {
	perms := 6
	if tier == "thorough" {
		perms = 40
	}
	w.Rule = "a case is non-trivial when the permuted source differs from the base source and the plan has >= 4 statements"
	r := rng.FromEnv(0xC20)
	dbn := 0
	for _, d := range dialects {
		for v := 0; v < nVariants; v++ {
			src, err := d.marshal.MarshalSpec(mkSchema(d, v, nil))
			if err != nil {
				w.Violation(fmt.Sprintf("%s/%d", d.name, v), "source-setup", "MarshalSpec failed: "+err.Error())
				continue
			}
			blocks := splitBlocks(string(src))
			plan := func(files map[string]string, scenario string) (*migrate.Plan, error) {
				to, err := evalFiles(d, files)
				if err != nil {
					return nil, fmt.Errorf("eval: %w", err)
				}
				from := schema.New(d.schema)
				if scenario == "drop" {
					from, to = to, from
				}
				changes, err := d.differ.SchemaDiff(from, to)
				if err != nil {
					return nil, fmt.Errorf("diff: %w", err)
				}
				return d.planner.PlanChanges(context.Background(), "p", changes)
			}
			for _, scenario := range []string{"create", "drop"} {
				base, err := plan(map[string]string{"schema.hcl": strings.Join(blocks, "")}, scenario)
				id0 := fmt.Sprintf("%s/%d/%s", d.name, v, scenario)
				if err != nil {
					w.Count("base-rejected")
					w.ImplOnly(id0, "base plan rejected: "+errClass(err))
					continue
				}
				bs := planStmts(base)
				pos := map[string]int{}
				for i, s := range bs {
					pos[s.cmd] = i
				}
				var baseDump string
				if d.name == "sqlite" && scenario == "create" {
					dbn++
					baseDump, err = sqliteApply(fmt.Sprintf("det%d", dbn), base)
					if err != nil {
						w.Violation(id0, "source-apply", "base plan does not apply on SQLite: "+err.Error())
					}
				}
				for k := 0; k < perms; k++ {
					id := fmt.Sprintf("%s/p%d", id0, k)
					// permute the blocks, then cut into 1..3 files
					pb := append([]string(nil), blocks...)
					for i := len(pb) - 1; i > 0; i-- {
						j := r.Intn(i + 1)
						pb[i], pb[j] = pb[j], pb[i]
					}
					nf := 1 + k%3
					files := map[string]string{}
					for i, b := range pb {
						n := fmt.Sprintf("f%d.hcl", (i*nf)/len(pb))
						files[n] += b
					}
					w.Count(fmt.Sprintf("files:%d", len(files)))
					pp, err := plan(files, scenario)
					if err != nil {
						w.Violation(id, "source-perm-rejected", fmt.Sprintf("%s: the permuted source (%d files) is rejected although the base source plans: %s", id, len(files), trunc(err.Error(), 200)))
						continue
					}
					ps := planStmts(pp)
					w.ImplOnly(id, fmt.Sprintf("%d statements", len(ps)))
					if strings.Join(pb, "") != strings.Join(blocks, "") && len(ps) >= 4 {
						w.NonTrivial(id)
					}
					if multiset(ps) != multiset(bs) {
						w.Violation(id, "source-content", fmt.Sprintf("%s: permuting the declaration order changes the statements themselves: %s", id, firstDiff([]byte(multiset(bs)), []byte(multiset(ps)))))
						continue
					}
					// pairs whose relative order changed must be independent. SQLite's planner does not
					// order table statements by foreign keys (the engine accepts a child before its
					// parent): there every pair is independent and the engine below is the judge.
					bad := ""
					for i := 0; d.name != "sqlite" && i < len(ps) && bad == ""; i++ {
						for j := i + 1; j < len(ps); j++ {
							if pos[ps[i].cmd] > pos[ps[j].cmd] && dependent(ps[i], ps[j]) {
								bad = fmt.Sprintf("%q and %q", trunc(ps[i].cmd, 70), trunc(ps[j].cmd, 70))
								break
							}
						}
					}
					if bad != "" {
						w.Violation(id, "source-order", fmt.Sprintf("%s: dependent statements exchanged their order: %s", id, bad))
					}
					if baseDump != "" {
						dbn++
						dump, err := sqliteApply(fmt.Sprintf("det%d", dbn), pp)
						if err != nil {
							w.Violation(id, "source-apply", "permuted plan does not apply on SQLite: "+err.Error())
						} else if dump != baseDump {
							w.Violation(id, "source-schema", fmt.Sprintf("%s: resulting SQLite schema differs: %s", id, firstDiff([]byte(baseDump), []byte(dump))))
						} else {
							w.Count("sqlite-schema-equal")
						}
					}
				}
			}
		}
	}
}
