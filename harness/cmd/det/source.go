package main

// Declaration-order oracle of C20: the HCL source of a schema with its top-level blocks permuted
// and spread over several files must give (1) the same statements (as a multiset: content never
// changes), (2) an order that differs from the unpermuted plan only between independent
// statements, (3) on SQLite, executed on the real engine, the same resulting schema.

import (
	"context"
	"database/sql"
	"fmt"
	"sort"
	"strings"

	"ariga.io/atlas/sql/migrate"
	"ariga.io/atlas/sql/schema"
	"ariga.io/atlas/sql/sqlite"
	"github.com/hashicorp/hcl/v2/hclparse"
	_ "github.com/mattn/go-sqlite3"

	"verifharness/internal/out"
	"verifharness/internal/rng"
)

// splitBlocks cuts marshalled HCL into its top-level blocks (a block ends with "}" in column 0).
func splitBlocks(src string) []string {
	var blocks []string
	var cur []string
	for _, l := range strings.Split(src, "\n") {
		cur = append(cur, l)
		if l == "}" {
			blocks = append(blocks, strings.Join(cur, "\n")+"\n")
			cur = nil
		}
	}
	return blocks
}

func evalFiles(d *dialect, files map[string]string) (*schema.Schema, error) {
	p := hclparse.NewParser()
	for n, s := range files {
		if _, diag := p.ParseHCL([]byte(s), n); diag.HasErrors() {
			return nil, diag
		}
	}
	var r schema.Realm
	if err := d.eval.Eval(p, &r, nil); err != nil {
		return nil, err
	}
	if len(r.Schemas) != 1 {
		return nil, fmt.Errorf("expected one schema, got %d", len(r.Schemas))
	}
	return r.Schemas[0], nil
}

type stmt struct {
	cmd  string
	kind string // A add table, M modify, D drop, O other
	tab  string
	refs []string // tables that must be handled before (A, M: created; D: dropped)
}

func planStmts(p *migrate.Plan) []stmt {
	var out []stmt
	dropped := map[string]*schema.Table{}
	for _, c := range p.Changes {
		if d, ok := c.Source.(*schema.DropTable); ok {
			dropped[d.T.Name] = d.T
		}
	}
	for _, c := range p.Changes {
		s := stmt{cmd: c.Cmd, kind: "O"}
		switch src := c.Source.(type) {
		case *schema.AddTable:
			s.kind, s.tab = "A", src.T.Name
			for _, fk := range src.T.ForeignKeys {
				if fk.RefTable != nil && fk.RefTable.Name != src.T.Name {
					s.refs = append(s.refs, fk.RefTable.Name)
				}
			}
		case *schema.ModifyTable:
			s.kind, s.tab = "M", src.T.Name
			s.refs = append(s.refs, src.T.Name)
			for _, mc := range src.Changes {
				if a, ok := mc.(*schema.AddForeignKey); ok && a.F.RefTable != nil {
					s.refs = append(s.refs, a.F.RefTable.Name)
				}
				if a, ok := mc.(*schema.ModifyForeignKey); ok && a.To.RefTable != nil {
					s.refs = append(s.refs, a.To.RefTable.Name)
				}
			}
		case *schema.DropTable:
			s.kind, s.tab = "D", src.T.Name
			// every dropped table that references this one goes first
			for n, t := range dropped {
				if n == src.T.Name {
					continue
				}
				for _, fk := range t.ForeignKeys {
					if fk.RefTable != nil && fk.RefTable.Name == src.T.Name {
						s.refs = append(s.refs, n)
					}
				}
			}
		}
		out = append(out, s)
	}
	return out
}

// dependent: must a stay on the same side of b?
func dependent(a, b stmt) bool {
	dep := func(x, y stmt) bool { // x needs y first
		for _, r := range x.refs {
			switch {
			case x.kind == "D" && y.kind == "D" && y.tab == r:
				return true
			case x.kind != "D" && y.kind == "A" && y.tab == r:
				return true
			}
		}
		return false
	}
	return dep(a, b) || dep(b, a)
}

func multiset(ss []stmt) string {
	var cs []string
	for _, s := range ss {
		cs = append(cs, s.cmd)
	}
	sort.Strings(cs)
	return strings.Join(cs, "\n")
}

// sqliteApply executes the plan on a fresh in-memory database and returns a canonical dump of
// what the real engine then contains.
func sqliteApply(name string, p *migrate.Plan) (string, error) {
	db, err := sql.Open("sqlite3", "file:"+name+"?mode=memory&cache=shared&_fk=1")
	if err != nil {
		return "", err
	}
	defer db.Close()
	db.SetMaxOpenConns(1)
	for _, c := range p.Changes {
		if _, err := db.Exec(c.Cmd, c.Args...); err != nil {
			return "", fmt.Errorf("exec %q: %w", trunc(c.Cmd, 80), err)
		}
	}
	drv, err := sqlite.Open(db)
	if err != nil {
		return "", err
	}
	s, err := drv.InspectSchema(context.Background(), "main", nil)
	if err != nil {
		return "", err
	}
	return dumpSchema(s), nil
}

func dumpSchema(s *schema.Schema) string {
	var ts []string
	for _, t := range s.Tables {
		var b strings.Builder
		fmt.Fprintf(&b, "table %s\n", t.Name)
		for _, c := range t.Columns {
			fmt.Fprintf(&b, "  col %s %s null=%v\n", c.Name, c.Type.Raw, c.Type.Null)
		}
		if t.PrimaryKey != nil {
			fmt.Fprintf(&b, "  pk")
			for _, p := range t.PrimaryKey.Parts {
				fmt.Fprintf(&b, " %s", p.C.Name)
			}
			b.WriteString("\n")
		}
		var xs []string
		for _, i := range t.Indexes {
			x := fmt.Sprintf("  index %s unique=%v", i.Name, i.Unique)
			for _, p := range i.Parts {
				if p.C != nil {
					x += " " + p.C.Name
				}
			}
			xs = append(xs, x)
		}
		for _, f := range t.ForeignKeys {
			x := fmt.Sprintf("  fk %s ->%s", f.Symbol, f.RefTable.Name)
			for _, c := range f.Columns {
				x += " " + c.Name
			}
			xs = append(xs, x)
		}
		sort.Strings(xs)
		b.WriteString(strings.Join(xs, "\n"))
		ts = append(ts, b.String())
	}
	sort.Strings(ts)
	return strings.Join(ts, "\n")
}

// invalidOrder: the first statement of the plan that comes before something it needs (absolute, not relative
// to another plan): a table created / altered with a key to a table that the plan creates later, a table
// dropped while a table that the plan drops later still references it.
func invalidOrder(ps []stmt) string {
	done := map[string]bool{} // tab+kind already executed
	adds, drops := map[string]bool{}, map[string]bool{}
	for _, s := range ps {
		switch s.kind {
		case "A":
			adds[s.tab] = true
		case "D":
			drops[s.tab] = true
		}
	}
	for _, s := range ps {
		for _, r := range s.refs {
			switch {
			case s.kind == "D" && drops[r] && !done["D"+r]:
				return fmt.Sprintf("%q runs while table %s, dropped later by the same plan, still references %s", trunc(s.cmd, 70), r, s.tab)
			case s.kind != "D" && r != s.tab && adds[r] && !done["A"+r]:
				return fmt.Sprintf("%q references table %s, which the same plan creates later", trunc(s.cmd, 90), r)
			case s.kind == "M" && r == s.tab && adds[r] && !done["A"+r]:
				return fmt.Sprintf("%q alters table %s before the same plan creates it", trunc(s.cmd, 70), r)
			}
		}
		done[s.kind+s.tab] = true
	}
	return ""
}

func allPerms(n int) [][]int {
	if n == 0 {
		return [][]int{{}}
	}
	var res [][]int
	for _, p := range allPerms(n - 1) {
		for i := 0; i <= len(p); i++ {
			q := append(append(append([]int{}, p[:i]...), n-1), p[i:]...)
			res = append(res, q)
		}
	}
	return res
}

// shapeSchema: small schemas for the exhaustive declaration orders -- tables "child" -> "parent" (and
// "grandchild" -> "child") next to unrelated tables without any key (names chosen so that neither the
// alphabetical nor the declaration order happens to be the dependency order); big: 10..14 unrelated tables around
// a chain of four (a plan of more than 12 statements).
func shapeSchema(d *dialect, shape int) *schema.Schema {
	s := schema.New(d.schema)
	tab := func(name string) *schema.Table {
		t := schema.NewTable(name)
		id := schema.NewIntColumn("id", d.intT)
		ref := schema.NewIntColumn("ref", d.intT)
		t.AddColumns(id, ref)
		t.SetPrimaryKey(schema.NewPrimaryKey(id))
		s.AddTables(t)
		return t
	}
	fk := func(c, p *schema.Table) {
		c.AddForeignKeys(schema.NewForeignKey("fk_" + c.Name + "_" + p.Name).SetTable(c).AddColumns(c.Columns[1]).SetRefTable(p).AddRefColumns(p.Columns[0]))
	}
	switch shape {
	case 0: // child, unrelated, parent
		c, _, p := tab("b_child"), tab("m_unrelated"), tab("z_parent")
		fk(c, p)
	case 1: // the same with the names the other way round
		c, _, p := tab("z_child"), tab("m_unrelated"), tab("b_parent")
		fk(c, p)
	case 2: // grandchild -> child -> parent + one unrelated
		g, c, _, p := tab("a_grandchild"), tab("k_child"), tab("m_unrelated"), tab("z_parent")
		fk(g, c)
		fk(c, p)
	case 3: // two children of one parent + one unrelated
		c1, c2, _, p := tab("a_child"), tab("z_child"), tab("m_unrelated"), tab("k_parent")
		fk(c1, p)
		fk(c2, p)
	default: // big: 16..30 tables, three chains of 3..5 tables spread between unrelated ones (a plan of > 12 statements)
		n := 16 + 7*(shape-6)
		var chains [3][]*schema.Table
		for i := 0; i < n; i++ {
			if c := i % 5; c < 3 && len(chains[c]) < 3+c && i%2 == c%2 {
				chains[c] = append(chains[c], tab(fmt.Sprintf("%c%d_link%02d", 'y'-rune(len(chains[c])*4+c), c, i)))
			} else {
				tab(fmt.Sprintf("%c%02d_unrelated", 'a'+rune((i*7)%26), i))
			}
		}
		for _, ch := range chains {
			for i := 0; i+1 < len(ch); i++ {
				fk(ch[i], ch[i+1])
			}
		}
	}
	return s
}

// declOrders: every declaration order of the table blocks of the small shapes (and seeded orders + "children
// first" of the big ones), on every dialect, create and drop: the plan must be valid as it stands.
func declOrders(w *out.W, tier string) {
	r := rng.FromEnv(0xC20D)
	for _, d := range dialects {
		for shape := 0; shape <= 8; shape++ {
			if shape > 3 && shape < 6 {
				continue // big shapes: 6, 7, 8 = 16, 17, 18 tables
			}
			src, err := d.marshal.MarshalSpec(shapeSchema(d, shape))
			if err != nil {
				w.Violation(fmt.Sprintf("decl-%s/%d", d.name, shape), "source-setup", "MarshalSpec failed: "+err.Error())
				continue
			}
			var head string
			var tabs []string
			for _, b := range splitBlocks(string(src)) {
				if strings.HasPrefix(b, "table ") {
					tabs = append(tabs, b)
				} else {
					head += b
				}
			}
			var orders [][]int
			if shape <= 3 {
				orders = allPerms(len(tabs))
			} else {
				n := 20
				if tier == "thorough" {
					n = 120
				}
				id := make([]int, len(tabs))
				for i := range id {
					id[i] = i
				}
				rev := make([]int, len(tabs))
				for i := range rev {
					rev[i] = len(tabs) - 1 - i
				}
				orders = append(orders, id, rev)
				for k := 0; k < n; k++ {
					p := append([]int(nil), id...)
					for i := len(p) - 1; i > 0; i-- {
						j := r.Intn(i + 1)
						p[i], p[j] = p[j], p[i]
					}
					orders = append(orders, p)
				}
			}
			for oi, ord := range orders {
				var b strings.Builder
				b.WriteString(head)
				var names []string
				for _, i := range ord {
					b.WriteString(tabs[i])
					names = append(names, strings.Fields(tabs[i])[1])
				}
				to, err := evalFiles(d, map[string]string{"schema.hcl": b.String()})
				for _, scenario := range []string{"create", "drop"} {
					id := fmt.Sprintf("decl-%s/%d/%s/o%d", d.name, shape, scenario, oi)
					what := fmt.Sprintf("%s %s, tables declared in the order %s", d.name, scenario, strings.Join(names, " "))
					if err != nil {
						w.Violation(id, "source-perm-rejected", what+": eval: "+trunc(err.Error(), 200))
						continue
					}
					from, to2 := schema.New(d.schema), to
					if scenario == "drop" {
						from, to2 = to, schema.New(d.schema)
					}
					changes, err2 := d.differ.SchemaDiff(from, to2)
					if err2 != nil {
						w.Violation(id, "source-perm-rejected", what+": diff: "+trunc(err2.Error(), 200))
						continue
					}
					p, err2 := d.planner.PlanChanges(context.Background(), "p", changes)
					if err2 != nil {
						w.Violation(id, "source-perm-rejected", what+": plan: "+trunc(err2.Error(), 200))
						continue
					}
					ps := planStmts(p)
					w.ImplOnly(id, fmt.Sprintf("%d statements", len(ps)))
					w.Count("decl-order:" + d.name)
					if len(ps) >= 3 {
						w.NonTrivial(id)
					}
					nt := 0
					for _, st := range ps {
						if st.kind == "A" || st.kind == "D" {
							nt++
						}
					}
					if nt != len(tabs) {
						w.Violation(id, "source-content", fmt.Sprintf("%s: %d CREATE / DROP TABLE statements for %d tables", what, nt, len(tabs)))
					}
					if d.name == "sqlite" {
						continue // SQLite's planner does not order by foreign keys (the engine accepts a child before its parent)
					}
					if bad := invalidOrder(ps); bad != "" {
						w.Violation(id, "source-invalid-order", fmt.Sprintf("%s: %s", what, bad))
					}
				}
			}
		}
	}
}

// declModify: a kept table whose key is re-pointed to a table the same change set creates, which references
// the kept table back (a cycle through a ModifyForeignKey: DetachCycles detaches, only SortChanges can put
// CREATE TABLE in front of the ALTER), plus an unrelated kept and an unrelated created table -- every declaration order of the current and
// of the desired schema.
func declModify(w *out.W) {
	for _, d := range dialects {
		if d.name == "sqlite" {
			continue
		}
		build := func(desired bool, order []int) *schema.Schema {
			s := schema.New(d.schema)
			mk := func(name string) *schema.Table {
				t := schema.NewTable(name)
				id := schema.NewIntColumn("id", d.intT)
				t.AddColumns(id, schema.NewIntColumn("ref", d.intT))
				t.SetPrimaryKey(schema.NewPrimaryKey(id))
				return t
			}
			kept, old, unrel, created := mk("k_kept"), mk("z_old_parent"), mk("m_unrelated"), mk("b_new_parent")
			link := func(sym string, c, p *schema.Table) {
				c.AddForeignKeys(schema.NewForeignKey(sym).SetTable(c).AddColumns(c.Columns[1]).SetRefTable(p).AddRefColumns(p.Columns[0]))
			}
			ts := []*schema.Table{kept, old, unrel}
			if desired {
				link("fk_kept", kept, created)
				link("fk_back", created, kept)
				ts = append(ts, created, mk("r_unrelated_new"))
			} else {
				link("fk_kept", kept, old)
			}
			for _, i := range order {
				if i < len(ts) {
					s.AddTables(ts[i])
				}
			}
			return s
		}
		for fi, fo := range allPerms(3) {
			for ti, to := range allPerms(5) {
				id := fmt.Sprintf("decl-modify-%s/f%d/t%d", d.name, fi, ti)
				from, want := build(false, fo), build(true, to)
				what := fmt.Sprintf("%s: key of k_kept re-pointed from z_old_parent to the created b_new_parent (which references k_kept); current tables declared in order %v, desired in order %v", d.name, fo, to)
				changes, err := d.differ.SchemaDiff(from, want)
				if err != nil {
					w.Violation(id, "source-perm-rejected", what+": diff: "+trunc(err.Error(), 200))
					continue
				}
				p, err := d.planner.PlanChanges(context.Background(), "p", changes)
				if err != nil {
					w.Violation(id, "source-perm-rejected", what+": plan: "+trunc(err.Error(), 200))
					continue
				}
				ps := planStmts(p)
				w.ImplOnly(id, fmt.Sprintf("%d statements", len(ps)))
				w.Count("decl-modify:" + d.name)
				w.NonTrivial(id)
				if bad := invalidOrder(ps); bad != "" {
					w.Violation(id, "source-invalid-order", fmt.Sprintf("%s: %s", what, bad))
				}
			}
		}
	}
}

func sourceMain(w *out.W, tier string) {
	declOrders(w, tier)
	declModify(w)
	qualifySource(w, tier)
	perms := 6
	if tier == "thorough" {
		perms = 40
	}
	w.Rule = "a case is non-trivial when the permuted source differs from the base source and the plan has >= 4 statements"
	r := rng.FromEnv(0xC20)
	dbn := 0
	for _, d := range dialects {
		for v := 0; v < nVariants; v++ {
			src, err := d.marshal.MarshalSpec(mkSchema(d, v, nil))
			if err != nil {
				w.Violation(fmt.Sprintf("%s/%d", d.name, v), "source-setup", "MarshalSpec failed: "+err.Error())
				continue
			}
			blocks := splitBlocks(string(src))
			plan := func(files map[string]string, scenario string) (*migrate.Plan, error) {
				to, err := evalFiles(d, files)
				if err != nil {
					return nil, fmt.Errorf("eval: %w", err)
				}
				from := schema.New(d.schema)
				if scenario == "drop" {
					from, to = to, from
				}
				changes, err := d.differ.SchemaDiff(from, to)
				if err != nil {
					return nil, fmt.Errorf("diff: %w", err)
				}
				return d.planner.PlanChanges(context.Background(), "p", changes)
			}
			for _, scenario := range []string{"create", "drop"} {
				base, err := plan(map[string]string{"schema.hcl": strings.Join(blocks, "")}, scenario)
				id0 := fmt.Sprintf("%s/%d/%s", d.name, v, scenario)
				if err != nil {
					w.Count("base-rejected")
					w.ImplOnly(id0, "base plan rejected: "+errClass(err))
					continue
				}
				bs := planStmts(base)
				pos := map[string]int{}
				for i, s := range bs {
					pos[s.cmd] = i
				}
				var baseDump string
				if d.name == "sqlite" && scenario == "create" {
					dbn++
					baseDump, err = sqliteApply(fmt.Sprintf("det%d", dbn), base)
					if err != nil {
						w.Violation(id0, "source-apply", "base plan does not apply on SQLite: "+err.Error())
					}
				}
				for k := 0; k < perms; k++ {
					id := fmt.Sprintf("%s/p%d", id0, k)
					// permute the blocks, then cut into 1..3 files
					pb := append([]string(nil), blocks...)
					for i := len(pb) - 1; i > 0; i-- {
						j := r.Intn(i + 1)
						pb[i], pb[j] = pb[j], pb[i]
					}
					nf := 1 + k%3
					files := map[string]string{}
					for i, b := range pb {
						n := fmt.Sprintf("f%d.hcl", (i*nf)/len(pb))
						files[n] += b
					}
					w.Count(fmt.Sprintf("files:%d", len(files)))
					pp, err := plan(files, scenario)
					if err != nil {
						w.Violation(id, "source-perm-rejected", fmt.Sprintf("%s: the permuted source (%d files) is rejected although the base source plans: %s", id, len(files), trunc(err.Error(), 200)))
						continue
					}
					ps := planStmts(pp)
					w.ImplOnly(id, fmt.Sprintf("%d statements", len(ps)))
					if strings.Join(pb, "") != strings.Join(blocks, "") && len(ps) >= 4 {
						w.NonTrivial(id)
					}
					if multiset(ps) != multiset(bs) {
						w.Violation(id, "source-content", fmt.Sprintf("%s: permuting the declaration order changes the statements themselves: %s", id, firstDiff([]byte(multiset(bs)), []byte(multiset(ps)))))
						continue
					}
					// pairs whose relative order changed must be independent. SQLite's planner does not
					// order table statements by foreign keys (the engine accepts a child before its
					// parent): there every pair is independent and the engine below is the judge.
					bad := ""
					for i := 0; d.name != "sqlite" && i < len(ps) && bad == ""; i++ {
						for j := i + 1; j < len(ps); j++ {
							if pos[ps[i].cmd] > pos[ps[j].cmd] && dependent(ps[i], ps[j]) {
								bad = fmt.Sprintf("%q and %q", trunc(ps[i].cmd, 70), trunc(ps[j].cmd, 70))
								break
							}
						}
					}
					if bad != "" {
						w.Violation(id, "source-order", fmt.Sprintf("%s: dependent statements exchanged their order: %s", id, bad))
					}
					if baseDump != "" {
						dbn++
						dump, err := sqliteApply(fmt.Sprintf("det%d", dbn), pp)
						if err != nil {
							w.Violation(id, "source-apply", "permuted plan does not apply on SQLite: "+err.Error())
						} else if dump != baseDump {
							w.Violation(id, "source-schema", fmt.Sprintf("%s: resulting SQLite schema differs: %s", id, firstDiff([]byte(baseDump), []byte(dump))))
						} else {
							w.Count("sqlite-schema-equal")
						}
					}
				}
			}
		}
	}
}
