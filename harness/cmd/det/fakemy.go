package main

// A database/sql driver ("detfakemy") that plays a MySQL / MariaDB / TiDB server for mysql.Open and for the
// differ / planner it returns (C20 round 5, stage history; after harness/cmd/diff/fakemy.go). It answers
//
//   - variablesQuery of mysql.Open (sql/mysql/driver_oss.go): @@version, @@collation_server,
//     @@character_set_server, @@lower_case_table_names;
//   - the two INFORMATION_SCHEMA queries of mysqlversion.mayExtend (CHARACTER_SETS: charset -> default
//     collation; COLLATIONS: collation -> charset) with which a differ extends the embedded tables;
//
// and returns no rows otherwise. The DSN is the name of a flavour.

import (
	"context"
	"database/sql"
	"database/sql/driver"
	"fmt"
	"io"
	"strings"
	"sync/atomic"

	"ariga.io/atlas/schemahcl"
	"ariga.io/atlas/sql/migrate"
	"ariga.io/atlas/sql/mysql"
	"ariga.io/atlas/sql/schema"
)

type myFlavour struct {
	name    string
	version string // "" = no connection: mysql.DefaultDiff / mysql.DefaultPlan
	lcnames int
	srvCS   string // @@character_set_server
	srvCO   string // @@collation_server
	csRows  [][2]string
	coRows  [][2]string
	// PostgreSQL flavours (fakepg.go): version = server_version_num, crdb = crdb_version
	pg   bool
	crdb string
}

var (
	coCommon = [][2]string{{"utf8mb4_general_ci", "utf8mb4"}, {"utf8mb4_bin", "utf8mb4"}, {"utf8mb4_unicode_ci", "utf8mb4"},
		{"latin1_swedish_ci", "latin1"}, {"latin1_bin", "latin1"}, {"ascii_general_ci", "ascii"}, {"ascii_bin", "ascii"}, {"utf8_general_ci", "utf8"}}
	myFlavours = []*myFlavour{
		// mysql.DefaultDiff / DefaultPlan: no connection, version 8.0.31 of noConn, embedded tables only
		{name: "default"},
		{name: "my80", version: "8.0.36", srvCS: "utf8mb4", srvCO: "utf8mb4_0900_ai_ci",
			csRows: [][2]string{{"utf8mb4", "utf8mb4_0900_ai_ci"}, {"latin1", "latin1_swedish_ci"}, {"ascii", "ascii_general_ci"}, {"utf8", "utf8_general_ci"}},
			coRows: append([][2]string{{"utf8mb4_0900_ai_ci", "utf8mb4"}, {"utf8mb4_0900_as_cs", "utf8mb4"}}, coCommon...)},
		// 5.7: utf8mb4 defaults to utf8mb4_general_ci, no 0900 collations, no CHECKs, no functional indexes
		{name: "my57", version: "5.7.44-log", srvCS: "latin1", srvCO: "latin1_swedish_ci",
			csRows: [][2]string{{"utf8mb4", "utf8mb4_general_ci"}, {"latin1", "latin1_swedish_ci"}, {"ascii", "ascii_general_ci"}, {"utf8", "utf8_general_ci"}},
			coRows: coCommon},
		// MariaDB 10.11: utf8mb4_general_ci, and a collation family the embedded table does not know
		{name: "maria", version: "10.11.6-MariaDB-1:10.11.6+maria~ubu2204", srvCS: "utf8mb4", srvCO: "utf8mb4_general_ci",
			csRows: [][2]string{{"utf8mb4", "utf8mb4_general_ci"}, {"latin1", "latin1_swedish_ci"}, {"ascii", "ascii_general_ci"}, {"utf8", "utf8_general_ci"}},
			coRows: append([][2]string{{"utf8mb4_uca1400_ai_ci", "utf8mb4"}}, coCommon...)},
		// TiDB 6.1 (reports a 5.7 version): the default collation of every charset is its _bin collation
		{name: "tidb", version: "5.7.25-TiDB-v6.1.0", lcnames: 2, srvCS: "utf8mb4", srvCO: "utf8mb4_bin",
			csRows: [][2]string{{"utf8mb4", "utf8mb4_bin"}, {"latin1", "latin1_bin"}, {"ascii", "ascii_bin"}, {"utf8", "utf8_bin"}},
			coRows: [][2]string{{"utf8mb4_bin", "utf8mb4"}, {"utf8mb4_general_ci", "utf8mb4"}, {"utf8mb4_unicode_ci", "utf8mb4"}, {"latin1_bin", "latin1"}, {"ascii_bin", "ascii"}, {"utf8_bin", "utf8"}, {"utf8_general_ci", "utf8"}}},
	}
)

func myFlavourByName(n string) *myFlavour {
	for _, f := range append(append([]*myFlavour(nil), myFlavours...), pgFlavours...) {
		if f.name == n {
			return f
		}
	}
	return nil
}

// detMyQueries counts the queries the fake servers answered.
var detMyQueries int64

type (
	detFakeMy     struct{}
	detFakeMyConn struct{ f *myFlavour }
	detFakeMyStmt struct {
		c detFakeMyConn
		q string
	}
	detFakeRows struct {
		cols []string
		rows [][]driver.Value
	}
)

func init() { sql.Register("detfakemy", detFakeMy{}) }

func (detFakeMy) Open(dsn string) (driver.Conn, error) {
	f := myFlavourByName(dsn)
	if f == nil || f.version == "" {
		return nil, fmt.Errorf("detfakemy: unknown flavour %q", dsn)
	}
	return detFakeMyConn{f}, nil
}
func (c detFakeMyConn) Prepare(q string) (driver.Stmt, error)     { return detFakeMyStmt{c, q}, nil }
func (detFakeMyConn) Close() error                                { return nil }
func (detFakeMyConn) Begin() (driver.Tx, error)                   { return nil, fmt.Errorf("detfakemy: no transactions") }
func (detFakeMyStmt) Close() error                                { return nil }
func (detFakeMyStmt) NumInput() int                               { return -1 }
func (detFakeMyStmt) Exec([]driver.Value) (driver.Result, error)  { return driver.RowsAffected(0), nil }
func (s detFakeMyStmt) Query([]driver.Value) (driver.Rows, error) { return s.c.answer(s.q), nil }
func (c detFakeMyConn) QueryContext(_ context.Context, q string, _ []driver.NamedValue) (driver.Rows, error) {
	return c.answer(q), nil
}

func (r *detFakeRows) Columns() []string { return r.cols }
func (r *detFakeRows) Close() error      { return nil }
func (r *detFakeRows) Next(dest []driver.Value) error {
	if len(r.rows) == 0 {
		return io.EOF
	}
	copy(dest, r.rows[0])
	r.rows = r.rows[1:]
	return nil
}

func (c detFakeMyConn) answer(q string) driver.Rows {
	atomic.AddInt64(&detMyQueries, 1)
	pairs := func(cols [2]string, rows [][2]string) driver.Rows {
		r := &detFakeRows{cols: cols[:]}
		for _, x := range rows {
			r.rows = append(r.rows, []driver.Value{x[0], x[1]})
		}
		return r
	}
	switch {
	case strings.Contains(q, "@@version"):
		return &detFakeRows{cols: []string{"v", "co", "cs", "lc"}, rows: [][]driver.Value{{c.f.version, c.f.srvCO, c.f.srvCS, int64(c.f.lcnames)}}}
	case strings.Contains(q, "INFORMATION_SCHEMA.CHARACTER_SETS"):
		return pairs([2]string{"CHARACTER_SET_NAME", "DEFAULT_COLLATE_NAME"}, c.f.csRows)
	case strings.Contains(q, "INFORMATION_SCHEMA.COLLATIONS"):
		return pairs([2]string{"COLLATION_NAME", "CHARACTER_SET_NAME"}, c.f.coRows)
	}
	return &detFakeRows{cols: []string{"x"}}
}

// myWorker is the differ + planner of one flavour: those of a new driver that the real mysql.Open built
// over a new fake connection, or the package-level mysql.DefaultDiff / mysql.DefaultPlan.
type myWorker struct {
	f       *myFlavour
	differ  schema.Differ
	planner migrate.PlanApplier
	marshal schemahcl.Marshaler
	fmtType func(schema.Type) (string, error)
}

func openMyWorker(f *myFlavour) (*myWorker, error) {
	if f.pg {
		return openPGWorker(f)
	}
	if f.version == "" {
		return &myWorker{f, mysql.DefaultDiff, mysql.DefaultPlan, mysql.MarshalHCL, mysql.FormatType}, nil
	}
	db, err := sql.Open("detfakemy", f.name)
	if err != nil {
		return nil, err
	}
	drv, err := mysql.Open(db)
	if err != nil {
		return nil, err
	}
	return &myWorker{f, drv, drv, mysql.MarshalHCL, mysql.FormatType}, nil
}
