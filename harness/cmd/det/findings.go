package main

// The three sites that depended on the map iteration order before the fixes
// notes/fixes/C20-hcl-{multifile-locals,remain-order,scan-type}.diff, run on the real code.
// The known findings are recorded as fixed (known_findings.d/C20.json), so on a tree without the
// fixes these oracle lines raise again.

import (
	"fmt"
	"os"
	"path/filepath"
	"sort"
	"strings"

	"ariga.io/atlas/schemahcl"
	"ariga.io/atlas/sql/migrate"
	"ariga.io/atlas/sql/schema"
	"ariga.io/atlas/sql/sqlite"
	"ariga.io/atlas/sql/sqlspec"
	"github.com/hashicorp/hcl/v2/hclparse"

	"verifharness/internal/out"
)

type remThing struct {
	Name string `spec:",name"`
	schemahcl.DefaultExtension
}
type remDoc struct {
	Things []*remThing `spec:"thing"`
}

const remSrc = "thing \"a\" {\n  a1 = 1\n  b2 = 2\n  c3 = 3\n  d4 = 4\n  e5 = 5\n  f6 = 6\n  g7 = 7\n  h8 = 8\n  k \"x\" {}\n  l \"y\" {}\n  m \"z\" {}\n  n \"w\" {}\n  o \"v\" {}\n  p \"u\" {}\n  q \"t\" {}\n  r \"s\" {}\n}\n"

func findingsMain(w *out.W, tier string) {
	runs := 60
	if tier == "thorough" {
		runs = 400
	}
	w.Rule = "every case is non-trivial: each iterates a Go map with >= 2 entries on the real code"
	// 1. State.EvalOptions #1: locals referring to locals of another file
	dir, _ := os.MkdirTemp("", "detf")
	defer os.RemoveAll(dir)
	os.WriteFile(filepath.Join(dir, "a.hcl"), []byte("locals {\n  x = \"s1\"\n}\n"), 0o644)
	os.WriteFile(filepath.Join(dir, "b.hcl"), []byte("locals {\n  y = local.x\n}\nschema \"main\" {\n  comment = local.y\n}\n"), 0o644)
	res := map[string]int{}
	for i := 0; i < runs*4; i++ {
		p := hclparse.NewParser()
		for _, f := range []string{"a.hcl", "b.hcl"} {
			if _, d := p.ParseHCLFile(filepath.Join(dir, f)); d.HasErrors() {
				panic(d)
			}
		}
		var r schema.Realm
		if err := sqlite.EvalHCL.Eval(p, &r, nil); err != nil {
			res["error"]++
		} else {
			res["ok"]++
		}
	}
	w.NonTrivial("multifile-locals")
	w.ImplOnly("multifile-locals", fmt.Sprintf("%d evaluations of {a.hcl: locals{x}, b.hcl: locals{y = local.x}}: %v", runs*4, res))
	if len(res) > 1 {
		w.Violation("multifile-locals", "hcl-multifile-locals", fmt.Sprintf("evaluating the same two HCL files (b.hcl: locals { y = local.x }, x defined in a.hcl) %d times: %d succeed, %d fail with Unknown variable \"local\" (file iteration order, schemahcl.State.EvalOptions)", runs*4, res["ok"], res["error"]))
	}
	// reversed names: the defining file now sorts after the using one -> always the same error
	os.WriteFile(filepath.Join(dir, "c.hcl"), []byte("locals {\n  z = local.w\n}\n"), 0o644)
	os.WriteFile(filepath.Join(dir, "d.hcl"), []byte("locals {\n  w = \"s3\"\n}\nschema \"main\" {\n  comment = local.z\n}\n"), 0o644)
	res2 := map[string]int{}
	for i := 0; i < runs*4; i++ {
		p := hclparse.NewParser()
		for _, f := range []string{"c.hcl", "d.hcl"} {
			p.ParseHCLFile(filepath.Join(dir, f))
		}
		var r schema.Realm
		if err := sqlite.EvalHCL.Eval(p, &r, nil); err != nil {
			res2["error"]++
		} else {
			res2["ok"]++
		}
	}
	w.NonTrivial("multifile-locals-rev")
	w.ImplOnly("multifile-locals-rev", fmt.Sprintf("%d evaluations of {c.hcl: locals{z = local.w}, d.hcl: locals{w}}: %v", runs*4, res2))
	if len(res2) > 1 {
		w.Violation("multifile-locals-rev", "hcl-multifile-locals", fmt.Sprintf("evaluating the same two HCL files (c.hcl: locals { z = local.w }, w defined in d.hcl) %d times: %d succeed, %d fail", runs*4, res2["ok"], res2["error"]))
	}
	os.Remove(filepath.Join(dir, "c.hcl"))
	os.Remove(filepath.Join(dir, "d.hcl"))
	// no cross-file reference -> always ok
	os.WriteFile(filepath.Join(dir, "b.hcl"), []byte("locals {\n  y = \"s2\"\n}\nschema \"main\" {\n  comment = local.y\n}\n"), 0o644)
	okAll := true
	for i := 0; i < runs; i++ {
		p := hclparse.NewParser()
		for _, f := range []string{"a.hcl", "b.hcl"} {
			p.ParseHCLFile(filepath.Join(dir, f))
		}
		var r schema.Realm
		if err := sqlite.EvalHCL.Eval(p, &r, nil); err != nil {
			okAll = false
			w.Violation("multifile-noref", "hcl-multifile-noref", "files without cross-file locals fail to evaluate: "+err.Error())
			break
		}
	}
	w.NonTrivial("multifile-noref")
	w.ImplOnly("multifile-noref", fmt.Sprintf("%d evaluations without cross-file references: all ok = %v", runs, okAll))

	// 2. Resource.as #1/#2: the remainder of a decoded block
	outs := map[string]int{}
	sorted := map[string]int{}
	for i := 0; i < runs; i++ {
		var d remDoc
		if err := schemahcl.New().EvalBytes([]byte(remSrc), &d, nil); err != nil {
			panic(err)
		}
		b, err := schemahcl.Marshal.MarshalSpec(&d)
		if err != nil {
			panic(err)
		}
		outs[string(b)]++
		var ks, cs []string
		for _, a := range d.Things[0].Extra.Attrs {
			ks = append(ks, a.K)
		}
		for _, c := range d.Things[0].Extra.Children {
			cs = append(cs, c.Type+":"+c.Name)
		}
		sort.Strings(ks)
		sort.Strings(cs)
		sorted[strings.Join(ks, ",")+"|"+strings.Join(cs, ",")]++
	}
	w.NonTrivial("remain-order")
	w.ImplOnly("remain-order", fmt.Sprintf("%d x EvalBytes+MarshalSpec of a block with 8 unknown attributes and 8 unknown child types: %d distinct outputs, %d distinct sorted remainders", runs, len(outs), len(sorted)))
	if len(outs) > 1 {
		w.Violation("remain-order", "hcl-remain-order", fmt.Sprintf("EvalBytes of the same HCL bytes into a struct with DefaultExtension followed by MarshalSpec gives %d different outputs in %d runs (remainder attributes/blocks follow map order, schemahcl Resource.as)", len(outs), runs))
	}
	if len(sorted) != 1 {
		w.Violation("remain-set", "hcl-remain-set", fmt.Sprintf("the remainder is not the same SET of attributes/blocks in every run: %v", sorted))
	}

	// 3. registry.lookup: two names registered for one Go type
	types := map[string]int{}
	tbl := map[string]int{}
	for i := 0; i < runs*4; i++ {
		r := &schemahcl.Resource{}
		if err := r.Scan(&sqlspec.View{Name: "v"}); err != nil {
			panic(err)
		}
		types[r.Type]++
		r2 := &schemahcl.Resource{}
		if err := r2.Scan(&sqlspec.Table{Name: "t"}); err != nil {
			panic(err)
		}
		tbl[r2.Type]++
	}
	w.NonTrivial("scan-type")
	w.ImplOnly("scan-type", fmt.Sprintf("Resource.Scan(&sqlspec.View{}) x%d: %v; Scan(&sqlspec.Table{}): %v", runs*4, types, tbl))
	if len(types) > 1 {
		w.Violation("scan-type", "hcl-scan-type", fmt.Sprintf("Resource.Scan(&sqlspec.View{}) sets Type to %v in %d runs (\"view\" and \"materialized\" are registered for the same Go type; registry.lookup returns the first in map order)", types, runs*4))
	}
	if len(tbl) != 1 {
		w.Violation("scan-type-table", "hcl-scan-type-unique", fmt.Sprintf("Scan of a type registered once is not deterministic: %v", tbl))
	}
	_ = migrate.DefaultFormatter
}

// unrelated: background work for the concurrent schedule.
func unrelated(g, i int) {
	defer func() { recover() }()
	switch g {
	case 0:
		var d remDoc
		schemahcl.New().EvalBytes([]byte(remSrc), &d, nil)
	case 1:
		d := &migrate.MemDir{}
		for _, f := range dirFiles(i % 3) {
			d.WriteFile(f[0], []byte(f[1]))
		}
		if h, err := d.Checksum(); err == nil {
			migrate.WriteSumFile(d, h)
			migrate.Validate(d)
		}
	default:
		var r schema.Realm
		src := fmt.Sprintf("schema \"main\" {}\ntable \"u%d\" {\n  schema = schema.main\n  column \"id\" {\n    type = integer\n  }\n}\n", i%7)
		if err := sqlite.EvalHCLBytes([]byte(src), &r, nil); err == nil && len(r.Schemas) > 0 {
			sqlite.MarshalHCL.MarshalSpec(r.Schemas[0])
		}
	}
}
