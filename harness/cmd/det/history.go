package main

// History independence across server flavours (C20, round 5; stage `history`).
//
// In ONE process a differ / planner of server flavour A works first, then one of flavour B, on inputs whose
// answer needs the server's defaults (a column with a charset and no collation, a collation and no charset, a
// table charset without collation, the server's default collation spelled out, CHECK constraints, functional
// indexes, AddTable / ModifyTable / DropTable). Everything B produces -- the changes of SchemaDiff rendered
// canonically, the statements of PlanChanges, the migration directory the default formatter writes into a
// named in-memory directory (migrate.OpenMemDir) with its atlas.sum, and MarshalHCL of the desired schema --
// must be byte-identical to what a FRESH process that only ever did B prints for the same input
// (`h_det -mode histchild -flavour B`, one child per flavour, run through os.Executable() like stage cold).
//
// Flavours (fakemy.go): mysql.DefaultDiff/DefaultPlan (no connection), MySQL 8.0.36, MySQL 5.7.44, MariaDB
// 10.11, TiDB 6.1 -- the last four through the real mysql.Open over the fake database/sql driver "detfakemy";
// (fakepg.go): postgres.DefaultDiff/DefaultPlan, PostgreSQL 15 and 10, CockroachDB through the real
// postgres.Open over "detfakepg". A flavour answers the sample of its dialect; the pairs mix the dialects too.
//
// Scenarios: every ordered pair (A, B), A's whole sample then B's on new workers ("seq"); A and B used
// alternately input by input ("alt"); per flavour: the same worker asked the whole sample twice, then a second
// worker of the same flavour ("twice"). Every output of every worker (A's too) is compared with the child's.

import (
	"bytes"
	"context"
	"fmt"
	"os"
	"os/exec"
	"path/filepath"
	"reflect"
	"sort"
	"strings"
	"time"

	"ariga.io/atlas/sql/migrate"
	"ariga.io/atlas/sql/postgres"
	"ariga.io/atlas/sql/schema"

	"verifharness/internal/out"
)

type histInput struct {
	name  string
	build func() (from, to *schema.Schema)
}

// one table `users` in schema app; mk adds what the input is about
func histSchema(tblCS, tblCO string, mk func(t *schema.Table)) *schema.Schema {
	s := schema.New("app").SetCharset("utf8mb4").SetCollation("utf8mb4_general_ci")
	t := schema.NewTable("users")
	if tblCS != "" {
		t.SetCharset(tblCS)
	}
	if tblCO != "" {
		t.SetCollation(tblCO)
	}
	id := schema.NewIntColumn("id", "bigint")
	t.AddColumns(id, schema.NewIntColumn("age", "int"))
	t.SetPrimaryKey(schema.NewPrimaryKey(id))
	if mk != nil {
		mk(t)
	}
	s.AddTables(t)
	return s
}

func strCol(name, cs, co string) *schema.Column {
	c := schema.NewStringColumn(name, "varchar", schema.StringSize(255))
	if cs != "" {
		c.SetCharset(cs)
	}
	if co != "" {
		c.SetCollation(co)
	}
	return c
}

func histInputsMy() []histInput {
	const u8, c0900, cgen = "utf8mb4", "utf8mb4_0900_ai_ci", "utf8mb4_general_ci"
	col := func(tcs, tco, cs, co string) *schema.Schema {
		return histSchema(tcs, tco, func(t *schema.Table) { t.AddColumns(strCol("name", cs, co)) })
	}
	return []histInput{
		// desired column: charset, no collation; current column has the 8.0 default collation
		{"col-charset-only/cur-0900", func() (*schema.Schema, *schema.Schema) { return col(u8, c0900, u8, c0900), col(u8, c0900, u8, "") }},
		// ... current column has the MariaDB / 5.7 default
		{"col-charset-only/cur-general", func() (*schema.Schema, *schema.Schema) { return col(u8, cgen, u8, cgen), col(u8, cgen, u8, "") }},
		// desired column: collation, no charset (the charset comes from the collation table)
		{"col-collation-only/latin1-to-general", func() (*schema.Schema, *schema.Schema) {
			return col(u8, cgen, "latin1", "latin1_swedish_ci"), col(u8, cgen, "", cgen)
		}},
		// ... a collation only some servers know
		{"col-collation-only/0900", func() (*schema.Schema, *schema.Schema) { return col(u8, cgen, u8, cgen), col(u8, cgen, "", c0900) }},
		{"col-collation-only/uca1400", func() (*schema.Schema, *schema.Schema) {
			return col(u8, cgen, u8, cgen), col(u8, cgen, "", "utf8mb4_uca1400_ai_ci")
		}},
		// ... the current column (and table) is latin1: whether the charset changes too depends on the server knowing the collation
		{"col-collation-only/latin1-to-0900", func() (*schema.Schema, *schema.Schema) {
			return col("latin1", "latin1_swedish_ci", "latin1", "latin1_swedish_ci"), col("latin1", "latin1_swedish_ci", "", c0900)
		}},
		{"col-collation-only/latin1-to-uca1400", func() (*schema.Schema, *schema.Schema) {
			return col("latin1", "latin1_swedish_ci", "latin1", "latin1_swedish_ci"), col("latin1", "latin1_swedish_ci", "", "utf8mb4_uca1400_ai_ci")
		}},
		// desired table: collation, no charset (the differ completes the desired table's attributes)
		{"table-collation-only/latin1-to-0900", func() (*schema.Schema, *schema.Schema) {
			return col("latin1", "latin1_swedish_ci", "", ""), col("", c0900, "", "")
		}},
		{"table-collation-only/latin1-to-uca1400", func() (*schema.Schema, *schema.Schema) {
			return col("latin1", "latin1_swedish_ci", "", ""), col("", "utf8mb4_uca1400_ai_ci", "", "")
		}},
		// desired column spells out the default collation of one server family
		{"col-default-collation/0900", func() (*schema.Schema, *schema.Schema) { return col(u8, "", u8, ""), col(u8, "", u8, c0900) }},
		{"col-default-collation/general", func() (*schema.Schema, *schema.Schema) { return col(u8, "", u8, ""), col(u8, "", u8, cgen) }},
		{"col-default-collation/bin", func() (*schema.Schema, *schema.Schema) { return col(u8, "", "", ""), col(u8, "", u8, "utf8mb4_bin") }},
		// table-level charset without collation, both directions
		{"table-charset-only/cur-0900", func() (*schema.Schema, *schema.Schema) { return col(u8, c0900, "", ""), col(u8, "", "", "") }},
		{"table-charset-only/cur-general", func() (*schema.Schema, *schema.Schema) { return col(u8, cgen, "", ""), col(u8, "", "", "") }},
		{"table-charset-change/latin1-to-utf8mb4", func() (*schema.Schema, *schema.Schema) {
			return col("latin1", "latin1_swedish_ci", "", ""), col(u8, "", "", "")
		}},
		{"table-collation-only/ascii-bin", func() (*schema.Schema, *schema.Schema) {
			return col("ascii", "ascii_general_ci", "", ""), col("", "ascii_bin", "", "")
		}},
		// a CHECK constraint added / dropped
		{"check-add", func() (*schema.Schema, *schema.Schema) {
			return col(u8, "", "", ""), histSchema(u8, "", func(t *schema.Table) {
				t.AddColumns(strCol("name", "", ""))
				t.AddChecks(schema.NewCheck().SetName("age_pos").SetExpr("(`age` > 0)"))
			})
		}},
		{"check-drop", func() (*schema.Schema, *schema.Schema) {
			return histSchema(u8, "", func(t *schema.Table) {
				t.AddColumns(strCol("name", "", ""))
				t.AddChecks(schema.NewCheck().SetName("age_pos").SetExpr("(`age` > 0)"))
			}), col(u8, "", "", "")
		}},
		// an index with a functional key part next to a column part
		{"index-expr-add", func() (*schema.Schema, *schema.Schema) {
			return col(u8, "", u8, ""), histSchema(u8, "", func(t *schema.Table) {
				c := strCol("name", u8, "")
				t.AddColumns(c)
				t.AddIndexes(schema.NewIndex("users_lower_name").AddParts(schema.NewExprPart(&schema.RawExpr{X: "(lower(`name`))"}), schema.NewColumnPart(t.Columns[1])))
			})
		}},
		// AddTable / DropTable: the whole table goes through the planner (charset without collation inside)
		{"add-table", func() (*schema.Schema, *schema.Schema) {
			return schema.New("app").SetCharset(u8).SetCollation(cgen), histSchema(u8, "", func(t *schema.Table) {
				c := strCol("name", u8, "")
				t.AddColumns(c, strCol("nick", "", "latin1_bin"), strCol("plain", "", ""))
				t.AddIndexes(schema.NewUniqueIndex("users_name").AddColumns(c))
				t.AddChecks(schema.NewCheck().SetName("age_pos").SetExpr("(`age` > 0)"))
			})
		}},
		{"drop-table", func() (*schema.Schema, *schema.Schema) {
			return col(u8, c0900, u8, c0900), schema.New("app").SetCharset(u8).SetCollation(cgen)
		}},
		// ModifyTable with several kinds of change at once
		{"modify-mixed", func() (*schema.Schema, *schema.Schema) {
			from := histSchema(u8, cgen, func(t *schema.Table) {
				t.AddColumns(strCol("name", u8, cgen), schema.NewIntColumn("old", "int"))
			})
			to := histSchema(u8, "", func(t *schema.Table) {
				n := schema.NewStringColumn("name", "text").SetCharset(u8)
				t.AddColumns(n, strCol("email", "", cgen).SetNull(true), schema.NewBoolColumn("active", "bool").SetDefault(&schema.RawExpr{X: "1"}))
				t.AddIndexes(schema.NewIndex("users_age").AddColumns(t.Columns[1]))
				t.SetComment("people")
			})
			return from, to
		}},
		// the schema's own charset / collation
		{"schema-charset-only", func() (*schema.Schema, *schema.Schema) {
			return col(u8, cgen, "", ""), func() *schema.Schema { s := col(u8, cgen, "", ""); s.UnsetCollation(); return s }()
		}},
	}
}

func histInputsOf(f *myFlavour) []histInput {
	if f.pg {
		return histInputsPG()
	}
	return histInputsMy()
}

// PostgreSQL sample: table `users` in schema public. What depends on the server: the comparison of default
// expressions (asked from the connection; the differs without one compare the texts), CockroachDB's differ
// and planner; what depends on process state: the default operator classes (postgres.defaultOps, built on first use).
func histInputsPG() []histInput {
	tab := func(mk func(t *schema.Table)) *schema.Schema {
		s := schema.New("public")
		t := schema.NewTable("users")
		id := schema.NewIntColumn("id", "bigint")
		t.AddColumns(id, schema.NewIntColumn("age", "integer"), schema.NewStringColumn("name", "text"), schema.NewStringColumn("email", "character varying", schema.StringSize(255)))
		t.SetPrimaryKey(schema.NewPrimaryKey(id))
		if mk != nil {
			mk(t)
		}
		s.AddTables(t)
		return s
	}
	idx := func(name string, mk func(t *schema.Table, i *schema.Index)) func(t *schema.Table) {
		return func(t *schema.Table) {
			i := schema.NewIndex(name)
			mk(t, i)
			t.AddIndexes(i)
		}
	}
	part := func(c *schema.Column, attrs ...schema.Attr) *schema.IndexPart {
		return schema.NewColumnPart(c).AddAttrs(attrs...)
	}
	plainIdx := idx("users_name", func(t *schema.Table, i *schema.Index) { i.AddParts(part(t.Columns[2])) })
	return []histInput{
		// the default operator class of text spelled out: no change (postgres.defaultOps is consulted)
		{"pg/index-opclass-default", func() (*schema.Schema, *schema.Schema) {
			return tab(plainIdx), tab(idx("users_name", func(t *schema.Table, i *schema.Index) {
				i.AddParts(part(t.Columns[2], &postgres.IndexOpClass{Name: "text_ops"}))
			}))
		}},
		{"pg/index-opclass-pattern", func() (*schema.Schema, *schema.Schema) {
			return tab(plainIdx), tab(idx("users_name", func(t *schema.Table, i *schema.Index) {
				i.AddParts(part(t.Columns[2], &postgres.IndexOpClass{Name: "text_pattern_ops"}))
			}))
		}},
		{"pg/index-opclass-varchar", func() (*schema.Schema, *schema.Schema) {
			return tab(idx("users_email", func(t *schema.Table, i *schema.Index) {
					i.AddParts(part(t.Columns[3], &postgres.IndexOpClass{Name: "varchar_pattern_ops"}))
				})),
				tab(idx("users_email", func(t *schema.Table, i *schema.Index) {
					i.AddParts(part(t.Columns[3], &postgres.IndexOpClass{Name: "varchar_ops"}))
				}))
		}},
		{"pg/index-include-nulls", func() (*schema.Schema, *schema.Schema) {
			return tab(plainIdx), tab(func(t *schema.Table) {
				plainIdx(t)
				t.AddIndexes(schema.NewUniqueIndex("users_email").AddParts(part(t.Columns[3])).AddAttrs(&postgres.IndexInclude{Columns: []*schema.Column{t.Columns[1]}}, &postgres.IndexNullsDistinct{V: false}))
			})
		}},
		{"pg/index-expr-add", func() (*schema.Schema, *schema.Schema) {
			return tab(nil), tab(idx("users_lower_name", func(t *schema.Table, i *schema.Index) {
				i.AddParts(schema.NewExprPart(&schema.RawExpr{X: "lower(name)"}), part(t.Columns[1]))
			}))
		}},
		// two spellings of a default: the connected differs ask the server, the others compare texts
		{"pg/default-expr", func() (*schema.Schema, *schema.Schema) {
			return tab(func(t *schema.Table) { t.Columns[2].SetDefault(&schema.RawExpr{X: "'a'::text"}) }),
				tab(func(t *schema.Table) { t.Columns[2].SetDefault(&schema.RawExpr{X: "('a')"}) })
		}},
		{"pg/check-add", func() (*schema.Schema, *schema.Schema) {
			return tab(nil), tab(func(t *schema.Table) { t.AddChecks(schema.NewCheck().SetName("age_pos").SetExpr("(age > 0)")) })
		}},
		{"pg/identity", func() (*schema.Schema, *schema.Schema) {
			return tab(nil), tab(func(t *schema.Table) {
				t.Columns[0].AddAttrs(&postgres.Identity{Generation: "BY DEFAULT", Sequence: &postgres.Sequence{Start: 100, Increment: 1}})
			})
		}},
		{"pg/add-table", func() (*schema.Schema, *schema.Schema) {
			return schema.New("public"), tab(func(t *schema.Table) {
				plainIdx(t)
				t.AddColumns(schema.NewEnumColumn("state", schema.EnumName("state"), schema.EnumValues("on", "off")), schema.NewTimeColumn("created", "timestamp with time zone").SetDefault(&schema.RawExpr{X: "now()"}))
				t.AddChecks(schema.NewCheck().SetName("age_pos").SetExpr("(age > 0)"))
			})
		}},
		{"pg/drop-table", func() (*schema.Schema, *schema.Schema) { return tab(plainIdx), schema.New("public") }},
		{"pg/modify-mixed", func() (*schema.Schema, *schema.Schema) {
			return tab(func(t *schema.Table) { plainIdx(t); t.AddColumns(schema.NewIntColumn("old", "integer")) }),
				tab(func(t *schema.Table) {
					t.Columns[1].Type.Type = &schema.IntegerType{T: "bigint"}
					t.Columns[3].SetNull(true)
					t.AddColumns(schema.NewBoolColumn("active", "boolean").SetDefault(&schema.RawExpr{X: "true"}))
					t.SetComment("people")
				})
		}},
	}
}

// set by histRun: the type formatter of the worker's dialect (the stage is sequential)
var histFmtType func(schema.Type) (string, error)

// ---------------------------------------------------------------- canonical text

func showAttr(a schema.Attr) string {
	switch a := a.(type) {
	case *schema.Charset:
		return "charset=" + a.V
	case *schema.Collation:
		return "collation=" + a.V
	case *schema.Comment:
		return "comment=" + a.Text
	case *schema.Check:
		return fmt.Sprintf("check(%s %s %s)", a.Name, a.Expr, showAttrs(a.Attrs))
	case *postgres.IndexInclude:
		var ns []string
		for _, c := range a.Columns {
			ns = append(ns, c.Name)
		}
		return fmt.Sprintf("include%v", ns)
	case *postgres.Identity:
		if a.Sequence == nil {
			return "identity(" + a.Generation + ")"
		}
		return fmt.Sprintf("identity(%s %+v)", a.Generation, *a.Sequence)
	}
	v := reflect.ValueOf(a)
	if v.Kind() == reflect.Pointer && !v.IsNil() {
		return fmt.Sprintf("%T%+v", a, v.Elem().Interface())
	}
	return fmt.Sprintf("%T%+v", a, a)
}

func showAttrs(as []schema.Attr) string {
	var out []string
	for _, a := range as {
		out = append(out, showAttr(a))
	}
	return "[" + strings.Join(out, ", ") + "]"
}

func showExpr(x schema.Expr) string {
	switch x := x.(type) {
	case nil:
		return "-"
	case *schema.RawExpr:
		return "raw:" + x.X
	case *schema.Literal:
		return "lit:" + x.V
	}
	return fmt.Sprintf("%T", x)
}

func showColumn(c *schema.Column) string {
	if c == nil {
		return "<nil>"
	}
	ft := ""
	if c.Type != nil && c.Type.Type != nil {
		ft, _ = histFmtType(c.Type.Type)
	}
	raw, null := "", false
	if c.Type != nil {
		raw, null = c.Type.Raw, c.Type.Null
	}
	return fmt.Sprintf("col(%s %s raw=%q null=%v default=%s %s)", c.Name, ft, raw, null, showExpr(c.Default), showAttrs(c.Attrs))
}

func showIndex(i *schema.Index) string {
	if i == nil {
		return "<nil>"
	}
	var ps []string
	for _, p := range i.Parts {
		switch {
		case p.C != nil:
			ps = append(ps, fmt.Sprintf("%d:%s desc=%v %s", p.SeqNo, p.C.Name, p.Desc, showAttrs(p.Attrs)))
		default:
			ps = append(ps, fmt.Sprintf("%d:%s desc=%v %s", p.SeqNo, showExpr(p.X), p.Desc, showAttrs(p.Attrs)))
		}
	}
	return fmt.Sprintf("index(%s unique=%v parts=%v %s)", i.Name, i.Unique, ps, showAttrs(i.Attrs))
}

func showTable(t *schema.Table) string {
	var b strings.Builder
	fmt.Fprintf(&b, "table(%s %s", t.Name, showAttrs(t.Attrs))
	for _, c := range t.Columns {
		b.WriteString(" " + showColumn(c))
	}
	if t.PrimaryKey != nil {
		b.WriteString(" pk:" + showIndex(t.PrimaryKey))
	}
	for _, i := range t.Indexes {
		b.WriteString(" " + showIndex(i))
	}
	b.WriteString(")")
	return b.String()
}

func showChanges(cs []schema.Change, ind string) string {
	var b strings.Builder
	for _, c := range cs {
		b.WriteString(ind)
		switch c := c.(type) {
		case *schema.AddTable:
			fmt.Fprintf(&b, "AddTable %s extra=%d\n", showTable(c.T), len(c.Extra))
		case *schema.DropTable:
			fmt.Fprintf(&b, "DropTable %s\n", showTable(c.T))
		case *schema.ModifyTable:
			fmt.Fprintf(&b, "ModifyTable %s\n%s", c.T.Name, showChanges(c.Changes, ind+"  "))
		case *schema.ModifySchema:
			fmt.Fprintf(&b, "ModifySchema %s\n%s", c.S.Name, showChanges(c.Changes, ind+"  "))
		case *schema.AddColumn:
			fmt.Fprintf(&b, "AddColumn %s\n", showColumn(c.C))
		case *schema.DropColumn:
			fmt.Fprintf(&b, "DropColumn %s\n", showColumn(c.C))
		case *schema.ModifyColumn:
			fmt.Fprintf(&b, "ModifyColumn kind=%b from=%s to=%s\n", uint(c.Change), showColumn(c.From), showColumn(c.To))
		case *schema.AddIndex:
			fmt.Fprintf(&b, "AddIndex %s\n", showIndex(c.I))
		case *schema.DropIndex:
			fmt.Fprintf(&b, "DropIndex %s\n", showIndex(c.I))
		case *schema.ModifyIndex:
			fmt.Fprintf(&b, "ModifyIndex kind=%b from=%s to=%s\n", uint(c.Change), showIndex(c.From), showIndex(c.To))
		case *schema.AddCheck:
			fmt.Fprintf(&b, "AddCheck %s\n", showAttr(c.C))
		case *schema.DropCheck:
			fmt.Fprintf(&b, "DropCheck %s\n", showAttr(c.C))
		case *schema.ModifyCheck:
			fmt.Fprintf(&b, "ModifyCheck kind=%b from=%s to=%s\n", uint(c.Change), showAttr(c.From), showAttr(c.To))
		case *schema.AddAttr:
			fmt.Fprintf(&b, "AddAttr %s\n", showAttr(c.A))
		case *schema.DropAttr:
			fmt.Fprintf(&b, "DropAttr %s\n", showAttr(c.A))
		case *schema.ModifyAttr:
			fmt.Fprintf(&b, "ModifyAttr from=%s to=%s\n", showAttr(c.From), showAttr(c.To))
		default:
			fmt.Fprintf(&b, "%T\n", c)
		}
	}
	return b.String()
}

// histRun: everything worker k produces for one input, as text. Inputs are rebuilt for every call.
func histRun(k *myWorker, in histInput) (text string, nchanges int) {
	var b strings.Builder
	defer func() {
		if r := recover(); r != nil {
			fmt.Fprintf(&b, "PANIC %v\n", r)
			text = b.String()
		}
	}()
	histFmtType = k.fmtType
	from, to := in.build()
	changes, err := k.differ.SchemaDiff(from, to)
	if err != nil {
		fmt.Fprintf(&b, "DIFF ERR %v\n", err)
		return b.String(), 1
	}
	b.WriteString("DIFF\n" + showChanges(changes, "  "))
	// the desired graph after the differ saw it (defaults the differ filled in)
	for _, t := range to.Tables {
		b.WriteString("DESIRED-AFTER " + showTable(t) + "\n")
	}
	plan, err := k.planner.PlanChanges(context.Background(), "hist", changes)
	if err != nil {
		fmt.Fprintf(&b, "PLAN ERR %v\n", err)
	} else {
		b.WriteString("PLAN\n")
		b.Write(planBytes(plan))
		// the migration directory: a named in-memory directory (package-level registry migrate.memDirs), the
		// same name for every flavour and scenario, closed after use
		if len(plan.Changes) > 0 {
			plan.Version = "20240102030405"
			dir := migrate.OpenMemDir("hist/" + in.name)
			if fs, _ := dir.Files(); len(fs) != 0 {
				fmt.Fprintf(&b, "DIR not empty on open: %d files\n", len(fs))
			}
			if err := migrate.NewPlanner(nil, dir).WritePlan(plan); err != nil {
				fmt.Fprintf(&b, "DIR ERR %v\n", err)
			} else if fs, err := dir.Files(); err != nil {
				fmt.Fprintf(&b, "DIR ERR %v\n", err)
			} else {
				b.WriteString("DIR\n")
				b.Write(filesBytes(fs))
				if sum, err := dir.Open(migrate.HashFileName); err == nil {
					var sb bytes.Buffer
					sb.ReadFrom(sum)
					sum.Close()
					b.WriteString("SUM\n" + sb.String())
				}
			}
			dir.Close()
		}
	}
	_, to2 := in.build()
	if src, err := k.marshal.MarshalSpec(to2); err != nil {
		fmt.Fprintf(&b, "HCL ERR %v\n", err)
	} else {
		b.WriteString("HCL\n" + string(src))
	}
	return b.String(), len(changes)
}

func histFile(name string) string { return strings.ReplaceAll(name, "/", "__") + ".txt" }

// histChildMain: `-mode histchild -flavour B -out DIR`: the only thing this process does is B's sample.
func histChildMain(flavour, dir string) int {
	f := myFlavourByName(flavour)
	if f == nil {
		fmt.Fprintln(os.Stderr, "histchild: unknown -flavour")
		return 2
	}
	k, err := openMyWorker(f)
	if err != nil {
		fmt.Fprintln(os.Stderr, "histchild:", err)
		return 1
	}
	if err := os.MkdirAll(dir, 0o755); err != nil {
		fmt.Fprintln(os.Stderr, "histchild:", err)
		return 1
	}
	for _, in := range histInputsOf(f) {
		txt, _ := histRun(k, in)
		if err := os.WriteFile(filepath.Join(dir, histFile(in.name)), []byte(txt), 0o644); err != nil {
			fmt.Fprintln(os.Stderr, "histchild:", err)
			return 1
		}
		fmt.Printf("%s %s\n", in.name, sha(txt))
	}
	return 0
}

func histChild(self, flavour, dir string, ins []histInput) (map[string]string, error) {
	cmd := exec.Command(self, "-mode", "histchild", "-flavour", flavour, "-out", dir)
	var se bytes.Buffer
	cmd.Stderr = &se
	if err := cmd.Start(); err != nil {
		return nil, err
	}
	done := make(chan error, 1)
	go func() { done <- cmd.Wait() }()
	select {
	case err := <-done:
		if err != nil {
			return nil, fmt.Errorf("%v: %s", err, trunc(strings.Join(strings.Fields(se.String()), " "), 300))
		}
	case <-time.After(2 * time.Minute):
		cmd.Process.Kill()
		return nil, fmt.Errorf("timeout")
	}
	res := map[string]string{}
	for _, in := range ins {
		b, err := os.ReadFile(filepath.Join(dir, histFile(in.name)))
		if err != nil {
			return nil, err
		}
		res[in.name] = string(b)
	}
	return res, nil
}

func historyMain(w *out.W, tier string) {
	w.Rule = "a case is one (scenario, flavour pair, input): the text a worker of flavour B produces in this process (SchemaDiff changes, desired graph afterwards, PlanChanges statements, formatted directory + atlas.sum in a named MemDir, MarshalHCL) against the text of a fresh process that only did B; non-trivial when the differ returned at least one change or an error; key = flavour, input and the sha of the text"
	all := append(append([]*myFlavour(nil), myFlavours...), pgFlavours...)
	insOf := map[string][]histInput{}
	dir, err := os.MkdirTemp("", "dethist")
	if err != nil {
		w.Violation("history", "history-setup", err.Error())
		return
	}
	defer os.RemoveAll(dir)
	self, _ := os.Executable()
	fresh := map[string]map[string]string{}
	var names []string
	for _, f := range all {
		names = append(names, f.name)
		insOf[f.name] = histInputsOf(f)
		r, err := histChild(self, f.name, filepath.Join(dir, f.name), insOf[f.name])
		if err != nil {
			w.Violation("history/child/"+f.name, "history-setup", "fresh process for flavour "+f.name+" failed: "+err.Error())
			return
		}
		fresh[f.name] = r
		w.Count("history-child")
	}
	// inputs whose fresh outputs differ between the flavours of their dialect: the sample does need the server
	distinct, total := 0, 0
	for _, first := range []string{myFlavours[0].name, pgFlavours[0].name} {
		for _, in := range insOf[first] {
			total++
			seen := map[string]bool{}
			for _, f := range all {
				if f.pg == myFlavourByName(first).pg {
					seen[fresh[f.name][in.name]] = true
				}
			}
			if len(seen) > 1 {
				distinct++
			}
		}
	}
	w.Set("history_inputs", total)
	w.Set("history_inputs_flavour_dependent", distinct)
	open := func(n string) *myWorker {
		k, err := openMyWorker(myFlavourByName(n))
		if err != nil {
			panic(err)
		}
		return k
	}
	seq := 0
	// ask: worker k answers input i of its dialect's sample in scenario sc (other = the flavour used next to it)
	ask := func(sc, other string, k *myWorker, i int) {
		if i >= len(insOf[k.f.name]) {
			return
		}
		seq++
		in := insOf[k.f.name][i]
		got, n := histRun(k, in)
		want := fresh[k.f.name][in.name]
		id := fmt.Sprintf("history/%s/%s+%s/%s#%d", sc, other, k.f.name, in.name, seq)
		w.Case(id, fmt.Sprintf("history scenario=%s other=%s flavour=%s input=%s", sc, other, k.f.name, in.name), []string{"sha=" + sha(got)[:16]})
		w.Count("history:" + sc)
		if n > 0 {
			w.NonTrivial(k.f.name + "|" + in.name + "|" + sha(got)[:16])
		}
		if got != want {
			w.Violation(id, "history-dependent", fmt.Sprintf("scenario %s, flavours A=%s B=%s, input %s: the %s worker's output differs from that of a fresh process that only did %s: %s",
				sc, other, k.f.name, in.name, k.f.name, k.f.name, firstDiff([]byte(want), []byte(got))))
		}
	}
	pairs := [][2]string{}
	for _, a := range names {
		for _, b := range names {
			if a != b {
				pairs = append(pairs, [2]string{a, b})
			}
		}
	}
	maxIns := 0
	for _, is := range insOf {
		maxIns = max(maxIns, len(is))
	}
	rounds := 1
	if tier == "thorough" {
		rounds = 5
	}
	for r := 0; r < rounds; r++ {
		for _, p := range pairs {
			ka, kb := open(p[0]), open(p[1])
			for i := 0; i < maxIns; i++ {
				ask("seq-first", p[1], ka, i)
			}
			for i := 0; i < maxIns; i++ {
				ask("seq", p[0], kb, i)
			}
		}
		for _, p := range pairs {
			ka, kb := open(p[0]), open(p[1])
			for i := 0; i < maxIns; i++ {
				ask("alt-first", p[1], ka, i)
				ask("alt", p[0], kb, i)
			}
		}
		for _, n := range names {
			k := open(n)
			for i := 0; i < maxIns; i++ {
				ask("twice-1", n, k, i)
			}
			for i := 0; i < maxIns; i++ {
				ask("twice-2", n, k, i)
			}
			k2 := open(n)
			for i := 0; i < maxIns; i++ {
				ask("twice-new-worker", n, k2, i)
			}
		}
	}
	w.Set("history_fake_server_queries", detMyQueries)
	ks := make([]string, 0, len(fresh))
	for k := range fresh {
		ks = append(ks, k)
	}
	sort.Strings(ks)
	w.Set("history_flavours", strings.Join(ks, ","))
}
