// Round 5 (a): the declaration order of the SCHEMAS of a multi-schema realm (and of the tables inside
// a schema) when marshalling to HCL -- specutil.QualifyObjects / QualifyReferences behind
// mysql.MarshalHCL and postgres.MarshalHCL (no server needed).
//
//   - qualifySites (stage `sites`, kind `qo`): tie of Det/QualifyModel.v.  Every realm of 3 schemas
//     whose table lists are drawn from a pool of label sets (objects of the same name in two schemas,
//     objects named like a schema) is marshalled by the real code; the (schema, label, qualifier)
//     triples parsed from the document are compared with the extracted QualifyObjects_over, which
//     is given the byLabel map in an explicit order (a permutation of the labels, inner maps
//     reversed or not) -- the Go run uses whatever order its maps deliver.  PostgreSQL enums go
//     through the same generic function and are tied as a second object kind.
//   - qualifySource (stage `source`): oracle.  All 6 schema orders x table order (as declared /
//     reversed) of every realm with at least one conflict: the sorted top-level blocks of the
//     document must be the same bytes (`qualify-order-dependent`); in every document no two blocks
//     of one kind may carry the same labels (`qualify-ambiguous`), and evaluating the document
//     must give back the realm's tables and foreign-key targets (`qualify-roundtrip`).
package main

import (
	"fmt"
	"regexp"
	"sort"
	"strings"

	"ariga.io/atlas/sql/schema"
	"github.com/hashicorp/hcl/v2/hclparse"

	"verifharness/internal/out"
)

var (
	qSchemas = []string{"s1", "s2", "s3"}
	// label sets a schema can hold: `users` is the same-named table, `s1`/`s2` are objects named like a schema
	qPool = [][]string{
		{},
		{"users"},
		{"users", "tags"},
		{"s1", "users"},
		{"tags", "s2"},
		{"s1", "s2", "tags"},
		{"s3", "users", "s1"},
	}
	qIntern = map[string]int{"s1": 1, "s2": 2, "s3": 3, "users": 10, "tags": 11, "status": 12, "kind": 13}
)

type qRealm struct {
	tables [3][]string // per schema (index into qSchemas), in declaration order
	enums  [3][]string // postgres only
}

func (q qRealm) String() string {
	var b []string
	for i, s := range qSchemas {
		x := s + "{" + strings.Join(q.tables[i], ",")
		if len(q.enums[i]) > 0 {
			x += ";enum " + strings.Join(q.enums[i], ",")
		}
		b = append(b, x+"}")
	}
	return strings.Join(b, " ")
}

// build makes the realm with the schemas in the order `order` and, if rev, the tables (and enums)
// of every schema in reverse order.  The content of a table (columns, keys; keys in the order of
// the schema NAMES) does not depend on order / rev.
func (q qRealm) build(d *dialect, order []int, rev bool) *schema.Realm {
	ss := make([]*schema.Schema, 3)
	byName := map[string]*schema.Table{}
	for i, sn := range qSchemas {
		ss[i] = schema.New(sn)
		for _, tn := range q.tables[i] {
			t := schema.NewTable(tn)
			t.AddColumns(schema.NewIntColumn("id", d.intT))
			t.SetPrimaryKey(schema.NewPrimaryKey(t.Columns[0]))
			t.Schema = ss[i]
			byName[sn+"."+tn] = t
		}
	}
	for i, sn := range qSchemas {
		var es []*schema.EnumType
		if d.name == "postgres" {
			for _, en := range q.enums[i] {
				es = append(es, &schema.EnumType{T: en, Values: []string{"a", "b"}, Schema: ss[i]})
			}
		}
		for _, tn := range q.tables[i] {
			t := byName[sn+"."+tn]
			// a key to every `users` table and to every table named `s1` of the realm (across schemas)
			for _, target := range []string{"users", "s1"} {
				if tn == target {
					continue
				}
				for _, un := range qSchemas {
					if u := byName[un+"."+target]; u != nil {
						c := schema.NewIntColumn("r_"+target+"_"+un, d.intT)
						t.AddColumns(c)
						t.AddForeignKeys(schema.NewForeignKey(fmt.Sprintf("fk_%s_%s_%s_%s", sn, tn, target, un)).SetTable(t).AddColumns(c).SetRefTable(u).AddRefColumns(u.Columns[0]))
					}
				}
			}
			for _, e := range es {
				t.AddColumns(schema.NewEnumColumn("e_"+e.T, schema.EnumName(e.T), schema.EnumValues(e.Values...)))
				t.Columns[len(t.Columns)-1].Type.Type = e
			}
		}
		ts := append([]string(nil), q.tables[i]...)
		if rev {
			for a, b := 0, len(ts)-1; a < b; a, b = a+1, b-1 {
				ts[a], ts[b] = ts[b], ts[a]
			}
			for a, b := 0, len(es)-1; a < b; a, b = a+1, b-1 {
				es[a], es[b] = es[b], es[a]
			}
		}
		for _, tn := range ts {
			ss[i].Tables = append(ss[i].Tables, byName[sn+"."+tn])
		}
		for _, e := range es {
			ss[i].Objects = append(ss[i].Objects, e)
		}
	}
	r := schema.NewRealm()
	for _, i := range order {
		r.AddSchemas(ss[i])
	}
	return r
}

// specs: the slice QualifyObjects receives for one kind, in realm order
func (q qRealm) specs(kind string, order []int, rev bool) [][2]string {
	var res [][2]string
	for _, i := range order {
		l := q.tables[i]
		if kind == "enum" {
			l = q.enums[i]
		}
		l = append([]string(nil), l...)
		if rev {
			for a, b := 0, len(l)-1; a < b; a, b = a+1, b-1 {
				l[a], l[b] = l[b], l[a]
			}
		}
		for _, n := range l {
			res = append(res, [2]string{qSchemas[i], n})
		}
	}
	return res
}

type qBlock struct {
	kind, schema, label, qual string
	text                      string
}

var (
	reQHead   = regexp.MustCompile(`^(table|view|enum|materialized|schema) "([^"]+)"(?: "([^"]+)")? \{$`)
	reQSchema = regexp.MustCompile(`^  schema\s*= schema\.(\w+)$`)
)

// qBlocks cuts a marshalled document into its top-level blocks.
func qBlocks(doc string) []qBlock {
	var res []qBlock
	var cur *qBlock
	for _, ln := range strings.Split(doc, "\n") {
		if cur == nil {
			if m := reQHead.FindStringSubmatch(ln); m != nil {
				cur = &qBlock{kind: m[1], label: m[2], text: ln + "\n"}
				if m[3] != "" {
					cur.qual, cur.label = m[2], m[3]
				}
			}
			continue
		}
		cur.text += ln + "\n"
		if m := reQSchema.FindStringSubmatch(ln); m != nil && cur.schema == "" {
			cur.schema = m[1]
		}
		if ln == "}" {
			res = append(res, *cur)
			cur = nil
		}
	}
	return res
}

func qObs(blocks []qBlock, kind string) string {
	var l []string
	for _, b := range blocks {
		if b.kind == kind {
			qn := "-"
			if b.qual != "" {
				qn = fmt.Sprint(qIntern[b.qual])
			}
			l = append(l, fmt.Sprintf("%d.%d=%s", qIntern[b.schema], qIntern[b.label], qn))
		}
	}
	sort.Strings(l)
	return "qo " + strings.Join(l, ",")
}

var reQFK = regexp.MustCompile(`foreign_key "fk_[a-z0-9]+_[a-z0-9]+_([a-z0-9]+)_([a-z0-9]+)" \{\n\s+columns\s*= \[[^\]]*\]\n\s+ref_columns\s*= \[table\.([\w.]+)\.column\.id\]`)

// qRefObs: for every referenced table (schema.label, from the key's symbol) the set of ways the document refers
// to it: `q.l` (table.<q>.<l>.column.id) or `l`.
func qRefObs(blocks []qBlock) (targets [][2]string, obs string) {
	seen := map[string]bool{}
	var l []string
	for _, b := range blocks {
		if b.kind != "table" {
			continue
		}
		for _, m := range reQFK.FindAllStringSubmatch(b.text, -1) {
			ref := m[3]
			if parts := strings.Split(ref, "."); len(parts) == 2 {
				ref = fmt.Sprintf("%d.%d", qIntern[parts[0]], qIntern[parts[1]])
			} else {
				ref = fmt.Sprint(qIntern[ref])
			}
			k := fmt.Sprintf("%d.%d=>%s", qIntern[m[2]], qIntern[m[1]], ref)
			if !seen[k] {
				seen[k] = true
				l = append(l, k)
			}
			if tk := m[2] + "." + m[1]; !seen[tk] {
				seen[tk] = true
				targets = append(targets, [2]string{m[2], m[1]})
			}
		}
	}
	sort.Strings(l)
	return targets, "qr " + strings.Join(l, ",")
}

func qRealms() []qRealm {
	var res []qRealm
	for a := range qPool {
		for b := range qPool {
			for c := range qPool {
				res = append(res, qRealm{tables: [3][]string{qPool[a], qPool[b], qPool[c]}})
			}
		}
	}
	// enums (postgres): same name in two schemas, an enum named like a schema, next to tables of the same names
	res = append(res,
		qRealm{tables: [3][]string{{"users"}, {"users"}, {"tags"}}, enums: [3][]string{{"status"}, {"status", "kind"}, {"s1"}}},
		qRealm{tables: [3][]string{{"status"}, {"tags"}, {"s2"}}, enums: [3][]string{{"status", "s2"}, {"kind"}, {"kind", "users"}}},
		qRealm{tables: [3][]string{{"tags"}, {"tags"}, {"tags"}}, enums: [3][]string{{"s3", "status"}, {"status"}, {"status", "s1"}}},
		// pass 3 is not a closure: s2.s1 is qualified by it (s1 is a qualifier), which makes s2 a
		// qualifier too, but s2.s2 stays `table "s2"` next to `table "s2" "s1"` (found by the thorough tier)
		qRealm{tables: [3][]string{{"users"}, {"s1", "s2", "tags"}, {"users"}}},
	)
	return res
}

func (q qRealm) hasConflict() bool {
	for _, lists := range [][3][]string{q.tables, q.enums} {
		seen := map[string]int{}
		for i := range lists {
			for _, n := range lists[i] {
				seen[n]++
			}
		}
		for _, c := range seen {
			if c > 1 {
				return true
			}
		}
	}
	return false
}

// table.[s.]t.column.c / enum.[s.]e (the latter only as a column type)
var (
	reQTabRef  = regexp.MustCompile(`\b(table)\.(\w+(?:\.\w+)?)\.column\.`)
	reQEnumRef = regexp.MustCompile(`(?m)type\s*= (enum)\.(\w+(?:\.\w+)?)$`)
)

func (q qRealm) enumConflict() bool {
	seen := map[string]bool{}
	for i := range q.enums {
		for _, n := range q.enums[i] {
			if seen[n] {
				return true
			}
		}
		for _, n := range q.enums[i] {
			seen[n] = true
		}
	}
	return false
}

var qOrders = [][]int{{0, 1, 2}, {0, 2, 1}, {1, 0, 2}, {1, 2, 0}, {2, 0, 1}, {2, 1, 0}}

func qualifySites(w *out.W) {
	for ri, q := range qRealms() {
		for _, d := range dialects {
			if d.name == "sqlite" {
				continue
			}
			order := qOrders[ri%6]
			rev := ri%2 == 1
			doc, err := d.marshal.MarshalSpec(q.build(d, order, rev))
			if err != nil {
				w.Violation(fmt.Sprintf("qo/%s/%d", d.name, ri), "qualify-setup", q.String()+": MarshalSpec: "+err.Error())
				continue
			}
			blocks := qBlocks(string(doc))
			for _, kind := range []string{"table", "enum"} {
				specs := q.specs(kind, order, rev)
				if len(specs) == 0 || (kind == "enum" && d.name != "postgres") {
					continue
				}
				labels := map[string]bool{}
				var nl int
				var b strings.Builder
				fmt.Fprintf(&b, "qo %d", len(specs))
				for _, s := range specs {
					fmt.Fprintf(&b, " %d %d", qIntern[s[0]], qIntern[s[1]])
					if !labels[s[1]] {
						labels[s[1]] = true
						nl++
					}
				}
				// the order in which the model is given byLabel: a rotation + optional reversal of the
				// labels, inner maps reversed for every second case
				fmt.Fprintf(&b, " %d", nl)
				p := make([]int, nl)
				for i := range p {
					p[i] = (i + ri) % nl
					if (ri/3)%2 == 1 {
						p[i] = nl - 1 - p[i]
					}
				}
				for _, x := range p {
					fmt.Fprintf(&b, " %d", x)
				}
				fmt.Fprintf(&b, " %d", (ri/2)%2)
				id := fmt.Sprintf("qo/%s/%s/%d", d.name, kind, ri)
				w.Case(id, b.String(), []string{qObs(blocks, kind)})
				w.Count("qo:" + kind)
				if q.hasConflict() {
					w.NonTrivial(id)
				}
				// qr: QualifyReferences -- how the keys of the document refer to their target tables
				if targets, obs := qRefObs(blocks); kind == "table" && len(targets) > 0 {
					line := "qr" + strings.TrimPrefix(b.String(), "qo") + fmt.Sprintf(" %d", len(targets))
					for _, t := range targets {
						line += fmt.Sprintf(" %d %d", qIntern[t[0]], qIntern[t[1]])
					}
					rid := fmt.Sprintf("qr/%s/%d", d.name, ri)
					w.Case(rid, line, []string{obs})
					w.Count("qr")
					if q.hasConflict() {
						w.NonTrivial(rid)
					}
				}
			}
		}
	}
}

func qSorted(blocks []qBlock) string {
	var l []string
	for _, b := range blocks {
		l = append(l, b.text)
	}
	sort.Strings(l)
	return strings.Join(l, "")
}

// qTargets: "schema.table" -> sorted "fk symbol -> schema.table" of a realm
func qTargets(r *schema.Realm) string {
	var l []string
	for _, s := range r.Schemas {
		for _, t := range s.Tables {
			x := s.Name + "." + t.Name + ":"
			var fks []string
			for _, fk := range t.ForeignKeys {
				rs := "?"
				if fk.RefTable != nil && fk.RefTable.Schema != nil {
					rs = fk.RefTable.Schema.Name
				}
				rt := "?"
				if fk.RefTable != nil {
					rt = fk.RefTable.Name
				}
				fks = append(fks, fk.Symbol+">"+rs+"."+rt)
			}
			sort.Strings(fks)
			l = append(l, x+strings.Join(fks, ","))
		}
	}
	sort.Strings(l)
	return strings.Join(l, " ")
}

func qualifySource(w *out.W, tier string) {
	for ri, q := range qRealms() {
		if !q.hasConflict() {
			continue
		}
		// quick: every fourth pool realm (a marshal costs 2.4 ms), all hand-written ones
		if tier != "thorough" && ri%4 != 0 && ri < len(qPool)*len(qPool)*len(qPool) {
			continue
		}
		for _, d := range dialects {
			if d.name == "sqlite" {
				continue
			}
			var base string
			for oi, order := range qOrders {
				for _, rev := range []bool{false, true} {
					if rev && tier != "thorough" && oi != 0 && oi != 5 {
						continue
					}
					id := fmt.Sprintf("qsrc/%s/%d/%d/%v", d.name, ri, oi, rev)
					desc := fmt.Sprintf("%s realm %s, schemas in order %v, tables reversed=%v", d.name, q, order, rev)
					realm := q.build(d, order, rev)
					doc, err := d.marshal.MarshalSpec(realm)
					if err != nil {
						w.Violation(id, "qualify-setup", desc+": MarshalSpec: "+err.Error())
						continue
					}
					blocks := qBlocks(string(doc))
					w.ImplOnly(id, desc)
					w.Count("qualify-orders")
					if oi > 0 || rev {
						w.NonTrivial(id)
					}
					// absolute: no two blocks of one kind with the same labels
					seen := map[string]bool{}
					for _, b := range blocks {
						k := b.kind + " " + b.qual + " " + b.label
						if seen[k] && b.kind != "schema" {
							w.Violation(id, "qualify-ambiguous", desc+": two blocks `"+strings.TrimSpace(k)+"` in the document")
						}
						seen[k] = true
					}
					// absolute: every reference of the document (column type enum.[s.]e, ref_columns
					// table.[s.]t.column.c) names a block of the document
					for _, m := range append(reQTabRef.FindAllStringSubmatch(string(doc), -1), reQEnumRef.FindAllStringSubmatch(string(doc), -1)...) {
						parts := strings.Split(m[2], ".")
						k := m[1] + "  " + parts[0]
						if len(parts) == 2 {
							k = m[1] + " " + parts[0] + " " + parts[1]
						}
						if !seen[k] {
							w.Violation(id, "qualify-dangling-ref", desc+": the document refers to `"+m[1]+"."+m[2]+"` but has no block `"+strings.Join(strings.Fields(k), " ")+"`")
						}
					}
					// absolute: the document evaluates back to the same tables and key targets.  The OSS
					// postgres.EvalHCL rejects two enums of the same name in different schemas
					// (convertTypes: "duplicate enum"), so realms with such enums are not evaluated.
					if ((oi == 0 || oi == 3) && !rev || tier == "thorough") && !q.enumConflict() {
						p := hclparse.NewParser()
						if _, diag := p.ParseHCL(doc, "schema.hcl"); diag.HasErrors() {
							w.Violation(id, "qualify-roundtrip", desc+": the document does not parse: "+diag.Error())
						} else {
							var back schema.Realm
							if err := d.eval.Eval(p, &back, nil); err != nil {
								w.Violation(id, "qualify-roundtrip", desc+": the document does not evaluate: "+err.Error())
							} else if a, b := qTargets(realm), qTargets(&back); a != b {
								w.Violation(id, "qualify-roundtrip", desc+": marshalled "+a+" but the document evaluates to "+b)
							}
						}
						w.Count("qualify-roundtrip")
					}
					// relative: same blocks whatever the order
					s := qSorted(blocks)
					if base == "" {
						base = s
					} else if s != base {
						w.Violation(id, "qualify-order-dependent", desc+": the sorted blocks differ from those of the declaration order [0 1 2]: "+qFirstDiff(base, s))
					}
				}
			}
		}
	}
}

func qFirstDiff(a, b string) string {
	la, lb := strings.Split(a, "\n"), strings.Split(b, "\n")
	for i := 0; i < len(la) && i < len(lb); i++ {
		if la[i] != lb[i] {
			return fmt.Sprintf("line %d: %q vs %q", i+1, la[i], lb[i])
		}
	}
	return fmt.Sprintf("%d vs %d lines", len(la), len(lb))
}
