// Command det is the harness of property C20 (deterministic outputs).
//
//	-mode census   translator: lists every range over a map in the anchored packages of
//	               $VERIF_REPO and writes coq/theories/gen/Gen_MapRanges.v (-out = that directory)
package main

import (
	"flag"
	"fmt"
	"os"
)

func main() {
	mode := flag.String("mode", "", "census|...")
	tier := flag.String("tier", "quick", "quick|thorough")
	outDir := flag.String("out", "", "output directory")
	verbose := flag.Bool("v", false, "verbose")
	flag.Parse()
	_ = tier
	if *outDir == "" {
		fmt.Fprintln(os.Stderr, "missing -out")
		os.Exit(2)
	}
	switch *mode {
	case "census":
		os.Exit(censusMain(*outDir, *verbose))
	default:
		fmt.Fprintln(os.Stderr, "unknown mode")
		os.Exit(2)
	}
}
