// Command det is the harness of property C20 (deterministic outputs).
//
//	-mode census    translator: lists every range over a map in the anchored packages of
//	                $VERIF_REPO and writes coq/theories/gen/Gen_MapRanges.v (-out = that directory)
//	-mode sites     model tie: the modelled map-iteration sites run on the real code; the extracted
//	                models (build/model_det) are run on the same inputs under several permutations
//	-mode repeat    oracle: plan / MarshalHCL / Format / hash, 20x in-process, 4 fresh processes,
//	                goroutines next to unrelated operations, and the same under a -race build
//	-mode source    oracle: permuted HCL sources (table blocks, files) -> same statements, same
//	                schema on the real SQLite engine; dependent statements keep their order
//	-mode history   oracle: a differ/planner of server flavour B (MySQL 8.0 / 5.7, MariaDB, TiDB, PostgreSQL 15 / 10,
//	                CockroachDB over fake drivers, the DefaultDiff values) after one of flavour A in the same
//	                process = B in a fresh process
//	-mode findings  oracle: the order-dependent sites the theorems refute, on the real code
//	-mode child / concchild / coldchild / histchild   internal (fresh process / -race binary)
package main

import (
	"flag"
	"fmt"
	"os"

	"verifharness/internal/out"
)

func main() {
	mode := flag.String("mode", "", "census|sites|repeat|source|findings|cold|history|child|concchild|coldchild|histchild")
	flavour := flag.String("flavour", "", "histchild: the server flavour (fakemy.go, fakepg.go)")
	pair := flag.String("pair", "", "coldchild: the two kinds of operation, A,B")
	rot := flag.Int("rot", 0, "coldchild: rotation of the dialect order")
	tier := flag.String("tier", "quick", "quick|thorough")
	outDir := flag.String("out", "", "output directory")
	verbose := flag.Bool("v", false, "verbose")
	flag.Parse()
	if *outDir == "" {
		fmt.Fprintln(os.Stderr, "missing -out")
		os.Exit(2)
	}
	switch *mode {
	case "census":
		os.Exit(censusMain(*outDir, *verbose))
	case "child":
		os.Exit(childMain())
	case "concchild":
		os.Exit(concChildMain())
	case "coldchild":
		os.Exit(coldChildMain(*pair, *rot, *outDir))
	case "histchild":
		os.Exit(histChildMain(*flavour, *outDir))
	}
	w := out.New(*outDir)
	switch *mode {
	case "sites":
		sitesMain(w, *tier)
	case "repeat":
		repeatMain(w, *tier)
	case "source":
		sourceMain(w, *tier)
	case "cold":
		coldMain(w, *tier)
	case "history":
		historyMain(w, *tier)
	case "persite":
		persiteMain(w, *tier)
	case "findings":
		findingsMain(w, *tier)
	default:
		fmt.Fprintln(os.Stderr, "unknown mode")
		os.Exit(2)
	}
	w.Close()
}
