package main

// Model tie of C20: the modelled map-iteration sites on the real code. Go cannot be told in
// which order to iterate a map, so each base input is run several times on the real code (fresh
// maps, fresh random order) and the extracted model is given the entries under explicit
// permutations; all must print the same observation.

import (
	"encoding/hex"
	"fmt"
	"os"
	"path/filepath"
	"regexp"
	"sort"
	"strings"

	"ariga.io/atlas/schemahcl"
	"ariga.io/atlas/sql/migrate"
	"ariga.io/atlas/sql/schema"
	"ariga.io/atlas/sql/sqlspec"
	"ariga.io/atlas/sql/verifx"

	"verifharness/internal/out"
	"verifharness/internal/rng"
)

func hx(s string) string {
	if s == "" {
		return "-"
	}
	return hex.EncodeToString([]byte(s))
}

func permsOf(r *rng.R, n, k int) [][]int {
	id := make([]int, n)
	for i := range id {
		id[i] = i
	}
	if n <= 4 { // exhaustive
		var res [][]int
		var rec func(cur []int, used []bool)
		rec = func(cur []int, used []bool) {
			if len(cur) == n {
				res = append(res, append([]int(nil), cur...))
				return
			}
			for i := 0; i < n; i++ {
				if !used[i] {
					used[i] = true
					rec(append(cur, i), used)
					used[i] = false
				}
			}
		}
		rec(nil, make([]bool, n))
		return res
	}
	rev := make([]int, n)
	for i := range rev {
		rev[i] = n - 1 - i
	}
	res := [][]int{id, rev}
	for len(res) < k {
		p := append([]int(nil), id...)
		for i := n - 1; i > 0; i-- {
			j := r.Intn(i + 1)
			p[i], p[j] = p[j], p[i]
		}
		res = append(res, p)
	}
	return res
}

var reScope = regexp.MustCompile(`scoped to one: \[(.*)\]$`)

func sitesMain(w *out.W, tier string) {
	nb, k := 40, 4
	if tier == "thorough" {
		nb, k = 400, 8
	}
	w.Rule = "a case is non-trivial when the iterated map of the real code has >= 2 entries and the permutation given to the model is not the identity"
	r := rng.FromEnv(0x517E5)
	nt := func(id string, n int, p []int) {
		ident := true
		for i, x := range p {
			ident = ident && i == x
		}
		if n >= 2 && !ident {
			w.NonTrivial(id)
		}
	}

	// ---- sm: sortMap/byKeys through verifx.DetachCycles
	for b := 0; b < nb; b++ {
		n := 2 + r.Intn(9) // <= 10 tables: sort.Slice is insertion sort (stable) up to 12
		if b < 6 {
			n = 2 + b%3
		}
		names := r2perm(r, n) // table i has name names[i] (1-based ranks), so map keys are shuffled
		refs := make([][]int, n)
		for i := 0; i < n; i++ {
			nf := r.Intn(3)
			for f := 0; f < nf; f++ {
				j := r.Intn(n)
				if b%4 != 3 && j >= i { // mostly acyclic
					if i == 0 {
						continue
					}
					j = r.Intn(i)
				}
				refs[i] = append(refs[i], j)
			}
		}
		nkeys := 0
		for i := range refs {
			ext := false
			for _, j := range refs[i] {
				ext = ext || j != i
			}
			if ext {
				nkeys++
			}
		}
		var sb strings.Builder
		fmt.Fprintf(&sb, "sm %d", n)
		for i := 0; i < n; i++ {
			fmt.Fprintf(&sb, " %d %d", names[i], len(refs[i]))
			for _, j := range refs[i] {
				fmt.Fprintf(&sb, " %d", names[j])
			}
		}
		build := func() []schema.Change {
			ts := make([]*schema.Table, n)
			for i := range ts {
				ts[i] = schema.NewTable(fmt.Sprintf("t%03d", names[i])).AddColumns(schema.NewIntColumn("id", "int"), schema.NewIntColumn("r", "int"))
			}
			var cs []schema.Change
			for i := range ts {
				for f, j := range refs[i] {
					ts[i].AddForeignKeys(schema.NewForeignKey(fmt.Sprintf("fk%d", 100*names[i]+f)).SetTable(ts[i]).AddColumns(ts[i].Columns[1]).SetRefTable(ts[j]).AddRefColumns(ts[j].Columns[0]))
				}
				cs = append(cs, &schema.AddTable{T: ts[i]})
			}
			return cs
		}
		for pi, p := range permsOf(r, nkeys, k) {
			id := fmt.Sprintf("sm%d.%d", b, pi)
			obs := "sm"
			res, err := verifx.DetachCycles(build())
			if err != nil {
				obs = "sm error"
			}
			for _, c := range res {
				switch c := c.(type) {
				case *schema.AddTable:
					obs += " A" + strings.TrimLeft(c.T.Name[1:], "0")
				case *schema.ModifyTable:
					obs += " M" + strings.TrimLeft(c.T.Name[1:], "0")
				case *schema.DropTable:
					obs += " D" + strings.TrimLeft(c.T.Name[1:], "0")
				}
			}
			line := sb.String() + fmt.Sprintf(" %d", nkeys)
			for _, x := range p {
				line += fmt.Sprintf(" %d", x)
			}
			w.Case(id, line, []string{obs})
			w.Count("site:sortMap")
			nt(fmt.Sprintf("sm%d/%v", b, p), nkeys, p)
		}
	}

	// ---- sc: CheckChangesScope
	for b := 0; b < nb; b++ {
		n := 1 + r.Intn(8)
		if b < 8 {
			n = 1 + b%4
		}
		seen := map[string]bool{}
		var names []string
		for len(names) < n {
			s := fmt.Sprintf("%c%c%d", 'a'+rune(r.Intn(4)), 'a'+rune(r.Intn(26)), r.Intn(20))
			if !seen[s] {
				seen[s] = true
				names = append(names, s)
			}
		}
		for pi, p := range permsOf(r, n, k) {
			id := fmt.Sprintf("sc%d.%d", b, pi)
			var cs []schema.Change
			for i, s := range names {
				t := schema.NewTable(fmt.Sprintf("t%d", i)).SetSchema(schema.New(s)).AddColumns(schema.NewIntColumn("id", "int"))
				cs = append(cs, &schema.AddTable{T: t})
				if i%2 == 0 { // the same schema twice: still one key
					cs = append(cs, &schema.ModifyTable{T: t})
				}
			}
			err := verifx.CheckChangesScope(migrate.PlanOptions{}, cs)
			obs := "sc ok"
			if err != nil {
				m := reScope.FindStringSubmatch(err.Error())
				if m == nil {
					obs = "sc other-error"
				} else {
					var hs []string
					for _, q := range strings.Fields(m[1]) {
						hs = append(hs, hx(strings.Trim(q, `"`)))
					}
					obs = "sc err " + strings.Join(hs, ",")
				}
			}
			line := fmt.Sprintf("sc %d", n)
			for _, x := range p {
				line += " " + hx(names[x])
			}
			w.Case(id, line, []string{obs})
			w.Count("site:CheckChangesScope")
			nt(fmt.Sprintf("sc%d/%v", b, p), n, p)
		}
	}

	// ---- fs: MemDir.Files / LocalDir.Files / NewHashFile / MarshalText
	for b := 0; b < nb; b++ {
		n := r.Intn(10)
		if b < 8 {
			n = b % 5
		}
		seen := map[string]bool{}
		var files [][2]string
		for len(files) < n {
			name := fmt.Sprintf("%d%c.sql", r.Intn(40), 'a'+rune(r.Intn(3)))
			switch r.Intn(6) {
			case 0:
				name = fmt.Sprintf("n%d.txt", r.Intn(9))
			case 1:
				name = fmt.Sprintf("%d.sql.bak", r.Intn(9))
			}
			if seen[name] {
				continue
			}
			seen[name] = true
			body := fmt.Sprintf("CREATE TABLE t%d (c int);\n", r.Intn(100))
			if r.Intn(5) == 0 {
				body = "-- atlas:sum ignore\n" + body
			}
			if r.Intn(7) == 0 {
				body = ""
			}
			files = append(files, [2]string{name, body})
		}
		for pi, p := range permsOf(r, n, k) {
			id := fmt.Sprintf("fs%d.%d", b, pi)
			md := &migrate.MemDir{}
			tmp, _ := os.MkdirTemp("", "detfs")
			for _, x := range p { // write order = the permutation
				md.WriteFile(files[x][0], []byte(files[x][1]))
				os.WriteFile(filepath.Join(tmp, files[x][0]), []byte(files[x][1]), 0o644)
			}
			ld, _ := migrate.NewLocalDir(tmp)
			obsOf := func(d migrate.Dir) string {
				fs, err := d.Files()
				if err != nil {
					return "fs error"
				}
				var ns []string
				for _, f := range fs {
					ns = append(ns, hx(f.Name()))
				}
				h, err := d.Checksum()
				if err != nil {
					return "fs error"
				}
				txt, _ := h.MarshalText()
				return "fs " + strings.Join(ns, ",") + " " + hx(string(txt))
			}
			o1, o2 := obsOf(md), obsOf(ld)
			os.RemoveAll(tmp)
			if o1 != o2 {
				w.Violation(id, "memdir-localdir-differ", fmt.Sprintf("MemDir and LocalDir with the same files give different Files()/checksum: %s vs %s", trunc(o1, 200), trunc(o2, 200)))
			}
			line := fmt.Sprintf("fs %d", n)
			for _, x := range p {
				line += " " + hx(files[x][0]) + " " + hx(files[x][1])
			}
			w.Case(id, line, []string{o1})
			w.Count("site:Files+NewHashFile")
			nt(fmt.Sprintf("fs%d/%v", b, p), n, p)
		}
	}

	// ---- lk: registry.lookup through Resource.Scan, for the types registered once
	reg := []struct {
		name string
		ty   int
	}{{"view", 1}, {"materialized", 1}, {"table", 2}, {"function", 3}, {"procedure", 3}, {"trigger", 4}, {"sequence", 5}, {"schema", 6},
		{"enum", 7}, {"domain", 8}, {"policy", 9}, {"composite", 10}, {"aggregate", 11}, {"extension", 12}, {"event_trigger", 13}}
	probes := []struct {
		ty  int
		ext any
	}{{2, &sqlspec.Table{Name: "t"}}, {4, &sqlspec.Trigger{Name: "t"}}, {5, &sqlspec.Sequence{Name: "s"}}, {6, &sqlspec.Schema{Name: "s"}},
		// two names per type: the one registered first (fix C20-hcl-scan-type)
		{1, &sqlspec.View{Name: "v"}}, {3, &sqlspec.Func{Name: "f"}}}
	for b, pr := range probes {
		for pi, p := range permsOf(r, len(reg), 3*k) {
			id := fmt.Sprintf("lk%d.%d", b, pi)
			res := &schemahcl.Resource{}
			obs := "lk none"
			if err := res.Scan(pr.ext); err == nil && res.Type != "" {
				obs = "lk " + hx(res.Type)
			}
			line := fmt.Sprintf("lk %d %d", pr.ty, len(reg))
			for _, e := range reg { // registration order: sqlspec's init, then postgres'
				line += " " + hx(e.name)
			}
			for _, x := range p {
				line += fmt.Sprintf(" %s %d", hx(reg[x].name), reg[x].ty)
			}
			w.Case(id, line, []string{obs})
			w.Count("site:registry.lookup")
			nt(fmt.Sprintf("lk%d/%v", b, p), len(reg), p)
		}
	}
	// ---- ta: State.toAttrs, observed through the remainder of the document: an unknown top-level
	// block is kept as the *Resource that State.resource built (its Attrs = toAttrs' result)
	type taDoc struct {
		schemahcl.DefaultExtension
	}
	for b := 0; b < nb; b++ {
		n := 1 + r.Intn(10)
		if b < 8 {
			n = 1 + b%4
		}
		seen := map[string]bool{}
		var names []string
		var vals []int
		for len(names) < n {
			s := fmt.Sprintf("%c%c%d", 'a'+rune(r.Intn(26)), 'a'+rune(r.Intn(26)), r.Intn(10))
			if !seen[s] {
				seen[s] = true
				names = append(names, s)
				vals = append(vals, r.Intn(5)) // 0 = null
			}
		}
		for pi, p := range permsOf(r, n, k) {
			id := fmt.Sprintf("ta%d.%d", b, pi)
			var src strings.Builder
			src.WriteString("thing \"x\" {\n")
			for _, x := range p { // source order = the permutation (hclsyntax keeps attributes in a map anyway)
				if vals[x] == 0 {
					fmt.Fprintf(&src, "  %s = null\n", names[x])
				} else {
					fmt.Fprintf(&src, "  %s = %d\n", names[x], vals[x])
				}
			}
			src.WriteString("}\n")
			var d taDoc
			obs := "ta error"
			if err := schemahcl.New().EvalBytes([]byte(src.String()), &d, nil); err == nil && len(d.Extra.Children) == 1 {
				var xs []string
				for _, a := range d.Extra.Children[0].Attrs {
					v, err := a.Int()
					if err != nil {
						xs = append(xs, hx(a.K)+"=?")
						continue
					}
					xs = append(xs, fmt.Sprintf("%s=%d", hx(a.K), v))
				}
				obs = "ta " + strings.Join(xs, ",")
			}
			line := fmt.Sprintf("ta %d", n)
			for _, x := range p {
				line += fmt.Sprintf(" %s %d", hx(names[x]), vals[x])
			}
			w.Case(id, line, []string{obs})
			w.Count("site:toAttrs")
			nt(fmt.Sprintf("ta%d/%v", b, p), n, p)
		}
	}
	// ---- ef: State.EvalOptions over several files (locals that refer to locals of other files)
	for b := 0; b < nb; b++ {
		n := 2 + r.Intn(3)
		fnames := tableNames(r, n)
		type hf struct {
			name  string
			defs  []string
			needs []string
		}
		fs := make([]hf, n)
		for i := range fs {
			fs[i].name = fnames[i] + ".hcl"
			fs[i].defs = []string{fmt.Sprintf("l%d", i)}
		}
		for i := range fs {
			if r.Intn(2) == 0 {
				j := r.Intn(n)
				if j != i {
					fs[i].needs = append(fs[i].needs, fs[j].defs[0])
				}
			}
		}
		for pi, p := range permsOf(r, n, k) {
			id := fmt.Sprintf("ef%d.%d", b, pi)
			files := map[string]string{}
			for i, f := range fs {
				val := fmt.Sprintf("\"v%d\"", i)
				if len(f.needs) > 0 {
					val = "local." + f.needs[0]
				}
				files[f.name] = fmt.Sprintf("locals {\n  %s = %s\n}\n", f.defs[0], val)
			}
			files[fs[0].name] += "schema \"main\" {\n}\n"
			obs := "ef error"
			if _, err := evalFiles(dialectByName("sqlite"), files); err == nil {
				var ns []string
				for _, f := range fs {
					ns = append(ns, f.name)
				}
				sort.Strings(ns)
				for i := range ns {
					ns[i] = hx(ns[i])
				}
				obs = "ef ok " + strings.Join(ns, ",")
			}
			line := fmt.Sprintf("ef %d", n)
			for _, x := range p {
				f := fs[x]
				line += fmt.Sprintf(" %s %d", hx(f.name), len(f.defs))
				for _, d := range f.defs {
					line += " " + hx(d)
				}
				line += fmt.Sprintf(" %d", len(f.needs))
				for _, d := range f.needs {
					line += " " + hx(d)
				}
			}
			w.Case(id, line, []string{obs})
			w.Count("site:EvalOptions.files")
			if obs == "ef error" {
				w.Count("ef:error")
			}
			nt(fmt.Sprintf("ef%d/%v", b, p), n, p)
		}
	}

	// ---- ra: the remainder of Resource.as (fix C20-hcl-remain-order): r.Attrs / r.Children order
	for b := 0; b < nb; b++ {
		na, nc := 1+r.Intn(8), r.Intn(7)
		anames := tableNames(r, na)
		sort.Strings(anames) // r.Attrs is what toAttrs returned: sorted by name
		ctypes := []string{"k", "l", "m", "n"}
		type ch struct{ t, n string }
		var chs []ch
		for i := 0; i < nc; i++ {
			chs = append(chs, ch{ctypes[r.Intn(len(ctypes))], fmt.Sprintf("c%d", i)})
		}
		var src strings.Builder
		src.WriteString("thing \"a\" {\n")
		for i, a := range anames {
			fmt.Fprintf(&src, "  %s = %d\n", a, i+1)
		}
		for _, c := range chs {
			fmt.Fprintf(&src, "  %s \"%s\" {}\n", c.t, c.n)
		}
		src.WriteString("}\n")
		tset := map[string]bool{}
		var tkeys []string
		for _, c := range chs {
			if !tset[c.t] {
				tset[c.t] = true
				tkeys = append(tkeys, c.t)
			}
		}
		for pi, p := range permsOf(r, na, k) {
			id := fmt.Sprintf("ra%d.%d", b, pi)
			var d remDoc
			obs := "ra error"
			if err := schemahcl.New().EvalBytes([]byte(src.String()), &d, nil); err == nil && len(d.Things) == 1 {
				var xs, cs []string
				for _, a := range d.Things[0].Extra.Attrs {
					v, _ := a.Int()
					xs = append(xs, fmt.Sprintf("%s=%d", hx(a.K), v))
				}
				for _, c := range d.Things[0].Extra.Children {
					cs = append(cs, hx(c.Type)+":"+hx(c.Name))
				}
				obs = "ra " + strings.Join(xs, ",") + " | " + strings.Join(cs, ",")
			}
			line := fmt.Sprintf("ra %d", na)
			for i, a := range anames {
				line += fmt.Sprintf(" %s %d", hx(a), i+1)
			}
			line += fmt.Sprintf(" %d", len(chs))
			for _, c := range chs {
				line += " " + hx(c.t) + " " + hx(c.n)
			}
			line += fmt.Sprintf(" %d", na)
			for _, x := range p {
				line += " " + hx(anames[x])
			}
			line += fmt.Sprintf(" %d", len(tkeys))
			for i := range tkeys { // rotate the type keys with the permutation index
				line += " " + hx(tkeys[(i+pi)%len(tkeys)])
			}
			w.Case(id, line, []string{obs})
			w.Count("site:Resource.as")
			nt(fmt.Sprintf("ra%d/%v", b, p), na, p)
		}
	}

	// ---- qo: specutil.QualifyObjects through MarshalHCL of multi-schema realms (qualify.go)
	qualifySites(w)
}

// r2perm: a random permutation of 1..n.
func r2perm(r *rng.R, n int) []int {
	p := make([]int, n)
	for i := range p {
		p[i] = i + 1
	}
	for i := n - 1; i > 0; i-- {
		j := r.Intn(i + 1)
		p[i], p[j] = p[j], p[i]
	}
	return p
}
