package main

// The operations whose output C20 requires to be byte-identical: plan (diff + DefaultPlan of the
// three dialects), MarshalHCL, Formatter.Format (all formatters), NewHashFile. Every operation
// rebuilds its input from (name, variant) alone, so "the same input" is literal.

import (
	"bytes"
	"context"
	"crypto/sha256"
	"encoding/hex"
	"fmt"
	"os"
	"path/filepath"
	"regexp"
	"sort"

	"ariga.io/atlas/schemahcl"
	"ariga.io/atlas/sql/migrate"
	"ariga.io/atlas/sql/mysql"
	"ariga.io/atlas/sql/postgres"
	"ariga.io/atlas/sql/schema"
	"ariga.io/atlas/sql/sqlite"
	"ariga.io/atlas/sql/sqltool"

	"verifharness/internal/rng"
)

const nVariants = 3

type dialect struct {
	name    string
	schema  string
	intT    string
	strT    string
	differ  schema.Differ
	planner migrate.PlanApplier
	marshal schemahcl.Marshaler
	eval    schemahcl.Evaluator
}

var dialects = []*dialect{
	{name: "sqlite", schema: "main", intT: "integer", strT: "text", differ: sqlite.DefaultDiff, planner: sqlite.DefaultPlan, marshal: sqlite.MarshalHCL, eval: sqlite.EvalHCL},
	{name: "mysql", schema: "app", intT: "int", strT: "varchar(255)", differ: mysql.DefaultDiff, planner: mysql.DefaultPlan, marshal: mysql.MarshalHCL, eval: mysql.EvalHCL},
	{name: "postgres", schema: "public", intT: "integer", strT: "text", differ: postgres.DefaultDiff, planner: postgres.DefaultPlan, marshal: postgres.MarshalHCL, eval: postgres.EvalHCL},
}

func dialectByName(n string) *dialect {
	for _, d := range dialects {
		if d.name == n {
			return d
		}
	}
	panic("dialect " + n)
}

// tableNames: n distinct names whose string order is unrelated to their index.
func tableNames(r *rng.R, n int) []string {
	seen := map[string]bool{}
	var out []string
	for len(out) < n {
		s := fmt.Sprintf("%c%c_%d", 'a'+rune(r.Intn(26)), 'a'+rune(r.Intn(26)), r.Intn(90)+10)
		if !seen[s] {
			seen[s] = true
			out = append(out, s)
		}
	}
	return out
}

// mkSchema builds the desired schema of variant v: 9..11 tables, each with a primary key, three
// more columns, an index, and foreign keys. variant 0: forest (j < i), 1: chain + extra edges,
// 2: contains a cycle (mysql/postgres detach it; sqlite inlines FKs anyway).
func mkSchema(d *dialect, v int, keep func(i int) bool) *schema.Schema {
	r := rng.New(uint64(1000 + v))
	n := 9 + v
	names := tableNames(r, n)
	s := schema.New(d.schema)
	ts := make([]*schema.Table, n)
	for i := 0; i < n; i++ {
		t := schema.NewTable(names[i])
		id := schema.NewIntColumn("id", d.intT)
		t.AddColumns(id)
		for c := 0; c < 3; c++ {
			if c%2 == 0 {
				t.AddColumns(schema.NewIntColumn(fmt.Sprintf("c%d_%c", c, 'a'+rune(r.Intn(26))), d.intT))
			} else {
				col := schema.NewStringColumn(fmt.Sprintf("c%d_%c", c, 'a'+rune(r.Intn(26))), d.strT)
				if d.name == "mysql" {
					col.Type.Type = &schema.StringType{T: "varchar", Size: 255}
				}
				col.Type.Null = true
				t.AddColumns(col)
			}
		}
		t.SetPrimaryKey(schema.NewPrimaryKey(id))
		t.AddIndexes(schema.NewIndex("idx_" + names[i]).AddColumns(t.Columns[1]))
		ts[i] = t
	}
	addFK := func(i, j int) {
		sym := fmt.Sprintf("fk_%s_%s", names[i], names[j])
		col := ts[i].Columns[1]
		if len(ts[i].ForeignKeys)%2 == 1 {
			col = ts[i].Columns[3]
		}
		ts[i].AddForeignKeys(schema.NewForeignKey(sym).SetTable(ts[i]).AddColumns(col).SetRefTable(ts[j]).AddRefColumns(ts[j].Columns[0]))
	}
	for i := 1; i < n; i++ {
		switch v {
		case 0:
			addFK(i, r.Intn(i))
		case 1:
			addFK(i, i-1)
			if i > 2 && r.Bool() {
				addFK(i, r.Intn(i-1))
			}
		default:
			addFK(i, (i+1)%n)
			if i > 3 {
				addFK(i, r.Intn(i))
			}
		}
	}
	if v >= 2 {
		addFK(0, 1)
	}
	for i, t := range ts {
		if keep == nil || keep(i) {
			s.AddTables(t)
		}
	}
	return s
}

// fromSchema: the current state of the "modify" scenario: every third table missing, one column
// missing and one index missing in the others; one table that the desired schema does not have.
func fromSchema(d *dialect, v int) *schema.Schema {
	s := mkSchema(d, v, func(i int) bool { return i%3 != 0 })
	for i, t := range s.Tables {
		if i%2 == 0 {
			t.Columns = t.Columns[:3]
		} else {
			t.Indexes = nil
		}
		// foreign keys to tables that are absent here would dangle: keep only resolvable ones
		var fks []*schema.ForeignKey
		for _, fk := range t.ForeignKeys {
			if _, ok := s.Table(fk.RefTable.Name); ok && fk.Columns[0] != nil && hasCol(t, fk.Columns[0].Name) {
				fks = append(fks, fk)
			}
		}
		t.ForeignKeys = fks
	}
	old := schema.NewTable("zz_old").AddColumns(schema.NewIntColumn("id", d.intT))
	s.AddTables(old)
	return s
}

func hasCol(t *schema.Table, n string) bool {
	_, ok := t.Column(n)
	return ok
}

func mkChanges(d *dialect, v int, scenario string) ([]schema.Change, error) {
	var from *schema.Schema
	to := mkSchema(d, v, nil)
	switch scenario {
	case "create":
		from = schema.New(d.schema)
	case "modify":
		from = fromSchema(d, v)
	case "drop":
		from, to = to, schema.New(d.schema)
	}
	changes, err := d.differ.SchemaDiff(from, to)
	if err != nil {
		return nil, fmt.Errorf("diff: %w", err)
	}
	return changes, nil
}

func mkPlan(d *dialect, v int, scenario string) (*migrate.Plan, error) {
	changes, err := mkChanges(d, v, scenario)
	if err != nil {
		return nil, err
	}
	plan, err := d.planner.PlanChanges(context.Background(), "det_plan", changes)
	if err != nil {
		return nil, fmt.Errorf("plan: %w", err)
	}
	plan.Version = "20240102030405"
	return plan, nil
}

func planBytes(p *migrate.Plan) []byte {
	var b bytes.Buffer
	fmt.Fprintf(&b, "reversible=%v transactional=%v\n", p.Reversible, p.Transactional)
	for _, c := range p.Changes {
		fmt.Fprintf(&b, "CMD %s\nARGS %v\nCOMMENT %s\nREVERSE %v\n", c.Cmd, c.Args, c.Comment, c.Reverse)
	}
	return b.Bytes()
}

// the sqltool templates name files by {{ now }} (wall clock, 14 digits): canonicalised away
var reNow = regexp.MustCompile(`20[0-9]{12}`)

func filesBytes(fs []migrate.File) []byte {
	var b bytes.Buffer
	for _, f := range fs {
		fmt.Fprintf(&b, "== %s (%d)\n", f.Name(), len(f.Bytes()))
		b.Write(f.Bytes())
	}
	return reNow.ReplaceAll(b.Bytes(), []byte("<now>"))
}

var formatters = []struct {
	name string
	f    migrate.Formatter
}{
	{"default", migrate.DefaultFormatter},
	{"golang-migrate", sqltool.GolangMigrateFormatter},
	{"goose", sqltool.GooseFormatter},
	{"flyway", sqltool.FlywayFormatter},
	{"liquibase", sqltool.LiquibaseFormatter},
	{"dbmate", sqltool.DBMateFormatter},
}

// dirFiles: the files of the directory of variant v (11.. files, some not *.sql).
func dirFiles(v int) [][2]string {
	r := rng.New(uint64(7000 + v))
	var out [][2]string
	n := 11 + 2*v
	for i := 0; i < n; i++ {
		name := fmt.Sprintf("%d%02d_%c%c.sql", 2000+r.Intn(30), r.Intn(99), 'a'+rune(r.Intn(26)), 'a'+rune(r.Intn(26)))
		if i%5 == 4 {
			name = fmt.Sprintf("note_%d.txt", i)
		}
		dup := false
		for _, o := range out {
			dup = dup || o[0] == name
		}
		if dup {
			continue
		}
		body := fmt.Sprintf("-- file %d\nCREATE TABLE t%d_%d (id int);\n", i, i, r.Intn(1000))
		if i == 3 {
			body = "-- atlas:sum ignore\n" + body
		}
		out = append(out, [2]string{name, body})
	}
	return out
}

type op struct {
	name string
	run  func(v int) ([]byte, error)
}

func allOps() []op {
	var ops []op
	for _, d := range dialects {
		d := d
		for _, sc := range []string{"create", "modify", "drop"} {
			sc := sc
			ops = append(ops, op{"plan-" + d.name + "-" + sc, func(v int) ([]byte, error) {
				p, err := mkPlan(d, v, sc)
				if err != nil {
					return nil, err
				}
				return planBytes(p), nil
			}})
		}
		ops = append(ops, op{"marshal-" + d.name, func(v int) ([]byte, error) {
			return d.marshal.MarshalSpec(mkSchema(d, v, nil))
		}})
	}
	for _, f := range formatters {
		f := f
		ops = append(ops, op{"format-" + f.name, func(v int) ([]byte, error) {
			p, err := mkPlan(dialects[1+v%2], v, []string{"create", "modify", "drop"}[v%3])
			if err != nil {
				return nil, err
			}
			fs, err := f.f.Format(p)
			if err != nil {
				return nil, err
			}
			return filesBytes(fs), nil
		}})
	}
	// a schema split over files that share their base name (modules: billing/schema.hcl, accounts/schema.hcl, ...)
	// and over files whose names differ only in letter case / extension part: evaluated, then marshalled and planned
	for _, d := range dialects {
		d := d
		ops = append(ops, op{"evalfiles-" + d.name, func(v int) ([]byte, error) {
			src, err := d.marshal.MarshalSpec(mkSchema(d, v, nil))
			if err != nil {
				return nil, err
			}
			blocks := splitBlocks(string(src))
			dirs := []string{"billing", "accounts", "zeta", "alpha", "core"}
			files := map[string]string{}
			for i, b := range blocks {
				n := filepath.Join("/src", dirs[i%len(dirs)], "schema.hcl")
				if v == 2 && i%2 == 0 {
					n = filepath.Join("/src", dirs[i%len(dirs)], "schema.pg.hcl")
				}
				files[n] += b
			}
			s, err := evalFiles(d, files)
			if err != nil {
				return nil, fmt.Errorf("eval: %w", err)
			}
			out, err := d.marshal.MarshalSpec(s)
			if err != nil {
				return nil, err
			}
			changes, err := d.differ.SchemaDiff(schema.New(d.schema), s)
			if err != nil {
				return nil, fmt.Errorf("diff: %w", err)
			}
			p, err := d.planner.PlanChanges(context.Background(), "det_plan", changes)
			if err != nil {
				return nil, fmt.Errorf("plan: %w", err)
			}
			return append(out, planBytes(p)...), nil
		}})
	}
	ops = append(ops, op{"hash-memdir", func(v int) ([]byte, error) {
		d := &migrate.MemDir{}
		for _, f := range dirFiles(v) {
			if err := d.WriteFile(f[0], []byte(f[1])); err != nil {
				return nil, err
			}
		}
		h, err := d.Checksum()
		if err != nil {
			return nil, err
		}
		return h.MarshalText()
	}})
	ops = append(ops, op{"hash-localdir", func(v int) ([]byte, error) {
		tmp, err := os.MkdirTemp("", "detdir")
		if err != nil {
			return nil, err
		}
		defer os.RemoveAll(tmp)
		fs := dirFiles(v)
		// creation order is varied too (directory order is the file system's business)
		sort.Slice(fs, func(i, j int) bool { return sha(fs[i][0]) < sha(fs[j][0]) })
		for _, f := range fs {
			if err := os.WriteFile(filepath.Join(tmp, f[0]), []byte(f[1]), 0o644); err != nil {
				return nil, err
			}
		}
		d, err := migrate.NewLocalDir(tmp)
		if err != nil {
			return nil, err
		}
		h, err := d.Checksum()
		if err != nil {
			return nil, err
		}
		return h.MarshalText()
	}})
	return ops
}

func sha(s string) string {
	h := sha256.Sum256([]byte(s))
	return hex.EncodeToString(h[:])
}

// runOp never panics: a panic is an observation ("panic: ...").
func runOp(o op, v int) (out []byte, err error) {
	defer func() {
		if r := recover(); r != nil {
			err = fmt.Errorf("panic: %v", r)
		}
	}()
	return o.run(v)
}
