package main

import (
	"fmt"

	"ariga.io/atlas/schemahcl"
	"ariga.io/atlas/sql/mysql"
	"ariga.io/atlas/sql/postgres"
	"ariga.io/atlas/sql/schema"
	"ariga.io/atlas/sql/sqlspec"
)

type Doc struct {
	Views []*sqlspec.View `spec:"view"`
	Funcs []*sqlspec.Func `spec:"function"`
}

func main() {
	out := map[string]int{}
	for i := 0; i < 200; i++ {
		d := &Doc{Views: []*sqlspec.View{{Name: "v"}}, Funcs: []*sqlspec.Func{{Name: "f"}}}
		b, err := schemahcl.Marshal.MarshalSpec(d)
		if err != nil {
			panic(err)
		}
		out[string(b)]++
	}
	for k, n := range out {
		fmt.Printf("--- %d times:\n%s", n, k)
	}
	s := schema.New("public")
	v := schema.NewView("v", "select 1").AddColumns(schema.NewIntColumn("a", "int"))
	s.AddViews(v)
	s.AddTables(schema.NewTable("t").AddColumns(schema.NewIntColumn("a", "int")))
	out2 := map[string]int{}
	for i := 0; i < 100; i++ {
		b, err := mysql.MarshalHCL(s)
		if err != nil {
			out2["err "+err.Error()]++
			continue
		}
		out2[string(b)]++
	}
	for k, n := range out2 {
		fmt.Printf("=== mysql %d times:\n%s", n, k)
	}
	out3 := map[string]int{}
	for i := 0; i < 100; i++ {
		b, err := postgres.MarshalHCL(s)
		if err != nil {
			out3["err "+err.Error()]++
			continue
		}
		out3[string(b)]++
	}
	for k, n := range out3 {
		fmt.Printf("=== pg %d times:\n%s", n, k)
	}
}
