package main

import (
	"fmt"
	"strings"

	"verifharness/internal/execrun"
	"verifharness/internal/out"
)

// genC12Double: the same file fails partially twice before it is edited. Attempt 1 stops at
// statement k+1 (k >= 1); the file becomes mid (unchanged, or the failing statement replaced, or
// a statement inserted before it); attempt 2 applies statements k+1..k2 of mid and stops at
// k2+1; then every edit of mid, two more runs. The partial hashes stored after the second failure
// must be those of the statements really applied (by both attempts): a tail-only edit resumes and
// completes, an edit of a statement applied by either attempt is refused, attributed to the
// first edited statement.
func genC12Double(w *out.W, tier string, id *int) {
	maxLen := 3
	if tier == "thorough" {
		maxLen = 4
	}
	for n := 3; n <= maxLen; n++ {
		for _, old := range lists(n) {
			for k := 1; k+1 < n; k++ {
				mids := [][]string{old}
				for _, a := range alphabet {
					if a != old[k] {
						l := append([]string{}, old...)
						l[k] = a
						mids = append(mids, l)
					}
				}
				mids = append(mids, append(append(append([]string{}, old[:k]...), alphabet[(n+k)%len(alphabet)]), old[k:]...))
				for _, mid := range mids {
					for k2 := k + 1; k2 < len(mid); k2++ {
						for _, e := range edits(mid) {
							*id++
							cid := fmt.Sprintf("c12-%d", *id)
							mk := func(stmts []string) []execrun.FileSpec {
								return []execrun.FileSpec{{Name: "1_a.sql", Stmts: stmts}}
							}
							runs := []execrun.Run{
								{Order: "linear", Faults: faultsStopAt(k), Files: mk(old)},
								{Order: "linear", Faults: faultsStopAt(k2 - k), Files: mk(mid)},
								{Order: "linear", Files: mk(e.res)},
								{Order: "linear", Files: mk(e.res)},
							}
							line, obs, res, err := execrun.History(runs)
							if err != nil {
								w.Violation(cid, "harness", "harness error: "+err.Error())
								continue
							}
							w.Case(cid, line, obs)
							w.Count("double:edit:" + e.kind)
							w.Count("double:run2:" + strings.SplitN(res[2].Outcome, ":", 2)[0])
							if !eq(mid, e.res) {
								w.NonTrivial(fmt.Sprintf("double|%v|%d|%v|%d|%v", old, k, mid, k2, e.res))
							}
							desc := fmt.Sprintf("double failure: old=%v fails-at=%d, second attempt on %v fails-at=%d", old, k+1, mid, k2+1)
							if res[0].Outcome != "stmterr" {
								w.Violation(cid, "setup", "first attempt did not stop with a statement error: "+res[0].Outcome+": "+desc)
								continue
							}
							wantRev := fmt.Sprintf("%s:%d:%d:", execrun.Hex("1"), k2, len(mid))
							if got := execEvents(res[1].Events); res[1].Outcome != "stmterr" || len(got) != k2-k+1 || !strings.HasPrefix(res[1].Table, wantRev) {
								w.Violation(cid, "second-failure-not-recorded", fmt.Sprintf("second attempt: outcome=%s events=%v table=[%s], want stmterr after %d statements and revision %s…: %s", res[1].Outcome, got, res[1].Table, k2-k, wantRev, desc))
								continue
							}
							oracleC12(w, cid, mid, e.res, k2, false, res[1:])
						}
					}
				}
			}
		}
	}
}

// firstDiff is the index of the first statement of old[:k] that new does not have at the same place.
func firstDiff(old, new []string, k int) int {
	i := 0
	for i < k && i < len(new) && new[i] == old[i] {
		i++
	}
	return i
}
