// Command exec generates histories for the executor properties (C09, C11,
// C12), runs them on the real sql/migrate package, writes the model's input
// and the implementation's observations, and evaluates each property's
// oracle directly on what the real code did.
package main

import (
	"flag"
	"fmt"
	"os"
	"strings"

	"verifharness/internal/execrun"
	"verifharness/internal/out"
)

var alphabet = []string{"A;", "B;", "C;"}

func main() {
	mode := flag.String("mode", "c12", "c12|c09|c11")
	tier := flag.String("tier", "quick", "quick|thorough")
	outDir := flag.String("out", "", "output directory")
	replay := flag.String("replay", "", "replay one case line (id + tokens) instead of generating")
	flag.Parse()
	if *outDir == "" {
		fmt.Fprintln(os.Stderr, "missing -out")
		os.Exit(2)
	}
	w := out.New(*outDir)
	defer w.Close()
	_ = replay
	switch *mode {
	case "c12":
		genC12(w, *tier)
	case "c09":
		genC09(w, *tier)
	case "c09reuse":
		genC09Reuse(w, *tier) // c09reuse.go
	case "c11":
		genC11(w, *tier)
	default:
		fmt.Fprintln(os.Stderr, "unknown mode")
		os.Exit(2)
	}
}

// all statement lists of length n over the alphabet
func lists(n int) [][]string {
	if n == 0 {
		return [][]string{{}}
	}
	var outl [][]string
	for _, l := range lists(n - 1) {
		for _, a := range alphabet {
			outl = append(outl, append(append([]string{}, l...), a))
		}
	}
	return outl
}

func eq(a, b []string) bool {
	if len(a) != len(b) {
		return false
	}
	for i := range a {
		if a[i] != b[i] {
			return false
		}
	}
	return true
}

func prefix(a []string, k int) []string {
	if k > len(a) {
		return a
	}
	return a[:k]
}

type edit struct {
	kind string
	res  []string
}

// edits enumerates change/insert/delete/swap at every index and truncation to every length.
func edits(old []string) []edit {
	var es []edit
	seen := map[string]bool{}
	add := func(kind string, l []string) {
		k := strings.Join(l, "|")
		if seen[k] {
			return
		}
		seen[k] = true
		es = append(es, edit{kind, append([]string{}, l...)})
	}
	add("same", old)
	for i := range old {
		for _, a := range alphabet {
			if a != old[i] {
				l := append([]string{}, old...)
				l[i] = a
				add("change", l)
			}
		}
	}
	for i := 0; i <= len(old); i++ {
		for _, a := range alphabet {
			l := append(append(append([]string{}, old[:i]...), a), old[i:]...)
			add("insert", l)
		}
	}
	for i := range old {
		l := append(append([]string{}, old[:i]...), old[i+1:]...)
		add("delete", l)
	}
	for i := 0; i+1 < len(old); i++ {
		l := append([]string{}, old...)
		l[i], l[i+1] = l[i+1], l[i]
		add("swap", l)
	}
	for n := 0; n < len(old); n++ {
		add("truncate", old[:n])
	}
	return es
}

// faultsStopAt returns the fault stream that lets a fresh single file apply
// exactly k statements and fails the (k+1)-th ExecContext call.
// Call sequence for a fresh file: write, exec1, write, exec2, write, ...
func faultsStopAt(k int) []bool {
	f := make([]bool, 2*k+2)
	f[2*k+1] = true
	return f
}

func genC12(w *out.W, tier string) {
	maxLen := 4
	if tier == "thorough" {
		maxLen = 5
	}
	w.Exhaust = true
	w.Rule = fmt.Sprintf("exhaustive: every file of 1..%d statements over a 3-statement alphabet x every partial progress k (stop by failing statement k+1) x every edit (same/change/insert/delete/swap at every index, truncate to every length) x {no,one} following file; history = apply (fails at k+1), edit+rehash, apply, apply; + double failure (n=3: fails at k+1, file unchanged / failing statement replaced / statement inserted, fails again at k2+1, then every edit). Non-trivial = the edited file differs from the original and k>=1 (the hash comparison loop runs); distinct by (old,k,new,second)", maxLen)
	id := 0
	for n := 1; n <= maxLen; n++ {
		for _, old := range lists(n) {
			for k := 0; k < n; k++ {
				for _, e := range edits(old) {
					for second := 0; second < 2; second++ {
						if second == 1 && (n > 3 || k == 0) {
							continue
						}
						id++
						cid := fmt.Sprintf("c12-%d", id)
						mk := func(stmts []string) []execrun.FileSpec {
							fs := []execrun.FileSpec{{Name: "1_a.sql", Stmts: stmts}}
							if second == 1 {
								fs = append(fs, execrun.FileSpec{Name: "2_b.sql", Stmts: []string{"Z;"}})
							}
							return fs
						}
						runs := []execrun.Run{
							{Order: "linear", Faults: faultsStopAt(k), Files: mk(old)},
							{Order: "linear", Files: mk(e.res)},
							{Order: "linear", Files: mk(e.res)},
						}
						line, obs, res, err := execrun.History(runs)
						if err != nil {
							w.Violation(cid, "harness", "harness error: "+err.Error())
							continue
						}
						w.Case(cid, line, obs)
						w.Count("edit:" + e.kind)
						w.Count(fmt.Sprintf("k:%d", k))
						w.Count("run1:" + strings.SplitN(res[1].Outcome, ":", 2)[0])
						if k >= 1 && !eq(old, e.res) {
							w.NonTrivial(fmt.Sprintf("%v|%d|%v|%d", old, k, e.res, second))
						}
						oracleC12(w, cid, old, e.res, k, second == 1, res)
					}
				}
			}
		}
	}
	genC12Double(w, tier, &id)
}

func execEvents(evs []string) []string {
	var x []string
	for _, e := range evs {
		if strings.HasPrefix(e, "x:") {
			x = append(x, e)
		}
	}
	return x
}

// oracleC12 states property C12 on the observations of the real code.
func oracleC12(w *out.W, id string, old, new []string, k int, second bool, res []execrun.Result) {
	desc := fmt.Sprintf("old=%v k=%d new=%v second=%v", old, k, new, second)
	for i, r := range res {
		if r.Outcome == "panic" {
			w.Violation(id, "panic", fmt.Sprintf("run %d panicked: %s", i, desc))
			return
		}
	}
	if res[0].Outcome != "stmterr" {
		w.Violation(id, "setup", "first run did not stop with a statement error: "+res[0].Outcome)
		return
	}
	changed := len(new) < k || !eq(prefix(new, k), prefix(old, k))
	if changed {
		// refused, nothing executed, history untouched
		if !strings.HasPrefix(res[1].Outcome, "history:") {
			w.Violation(id, "not-refused", fmt.Sprintf("applied prefix changed but run returned %s: %s", res[1].Outcome, desc))
			return
		}
		// the error names the first edited applied statement (cumulative hashes differ from there on)
		if want := fmt.Sprintf("history:%d", firstDiff(old, new, k)+1); res[1].Outcome != want {
			w.Violation(id, "wrong-attribution", fmt.Sprintf("refused with %s, the first edited applied statement is %s: %s", res[1].Outcome, want, desc))
		}
		if len(execEvents(res[1].Events)) != 0 {
			w.Violation(id, "executed-on-refuse", "statements executed although history changed: "+desc)
		}
		if res[1].Table != res[0].Table {
			w.Violation(id, "history-touched", fmt.Sprintf("revision table changed on refusal: %s -> %s: %s", res[0].Table, res[1].Table, desc))
		}
		return
	}
	// tail edit (or no edit): resumes with the new tail
	if res[1].Outcome != "done" {
		w.Violation(id, "not-resumed", fmt.Sprintf("unchanged applied prefix but run returned %s: %s", res[1].Outcome, desc))
		return
	}
	want := append([]string{}, new[k:]...)
	if second {
		want = append(want, "Z;")
	}
	got := execEvents(res[1].Events)
	ok := len(got) == len(want)
	for i := 0; ok && i < len(want); i++ {
		ok = got[i] == "x:"+execrun.Hex(want[i])+":1"
	}
	if !ok {
		w.Violation(id, "wrong-tail", fmt.Sprintf("resumed run executed %v, want %v: %s", got, want, desc))
	}
	wantRev := fmt.Sprintf("%s:%d:%d:-:", execrun.Hex("1"), len(new), len(new))
	if !strings.HasPrefix(res[1].Table, wantRev) {
		w.Violation(id, "rev-incomplete", fmt.Sprintf("after resume the revision is %q, want applied=total=%d: %s", res[1].Table, len(new), desc))
	}
	if res[2].Outcome != "nopending" || len(execEvents(res[2].Events)) != 0 {
		w.Violation(id, "not-settled", fmt.Sprintf("run after a completed resume returned %s with %d statements: %s", res[2].Outcome, len(execEvents(res[2].Events)), desc))
	}
}
