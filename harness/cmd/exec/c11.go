package main

import (
	"context"
	"fmt"
	"sort"
	"strings"

	"ariga.io/atlas/sql/migrate"

	"verifharness/internal/execrun"
	"verifharness/internal/out"
)

// ---- C11: Pending decision, exhaustive over small histories ---------------

type fstate int // per version: absent / plain file / checkpoint file
type rstate int // per version: no revision / applied / partial

type c11cfg struct {
	order      string
	baseline   string
	allowDirty bool
	dirty      bool
}

func pendingObs(files []migrate.File, err error) string {
	if err != nil {
		return "pending=" + execrun.Classify(err)
	}
	vs := make([]string, len(files))
	for i, f := range files {
		vs[i] = execrun.Hex(f.Version())
	}
	return "pending=files:" + strings.Join(vs, ",")
}

func genC11(w *out.W, tier string) {
	universe := []string{"1", "2", "3", "4"}
	if tier == "thorough" {
		universe = []string{"1", "2", "3", "4", "5"}
	}
	n := len(universe)
	w.Exhaust = true
	w.Rule = fmt.Sprintf("exhaustive: every assignment of {absent, file, checkpoint file} to %d versions x every assignment of {no revision, applied, partially applied} to the same versions (including revisions of deleted files and several partial ones) x exec-order {linear, linear-skip, non-linear} x {clean, dirty, dirty+allow-dirty, baseline=2}; Executor.Pending on MemDir + in-memory revision store. Non-trivial = at least one file and one revision (the history branches of Pending run); distinct by the whole tuple", n)
	cfgs := []c11cfg{}
	for _, o := range []string{"linear", "linear-skip", "non-linear"} {
		cfgs = append(cfgs, c11cfg{order: o}, c11cfg{order: o, dirty: true}, c11cfg{order: o, dirty: true, allowDirty: true}, c11cfg{order: o, baseline: "2", dirty: true})
	}
	pow3 := 1
	for i := 0; i < n; i++ {
		pow3 *= 3
	}
	id := 0
	for fd := 0; fd < pow3; fd++ {
		fst := make([]fstate, n)
		x := fd
		var specs []execrun.FileSpec
		for i := 0; i < n; i++ {
			fst[i] = fstate(x % 3)
			x /= 3
			if fst[i] != 0 {
				specs = append(specs, execrun.FileSpec{Name: universe[i] + "_f.sql", Stmts: []string{"A;", "B;"}, Ckpt: fst[i] == 2})
			}
		}
		dir, err := execrun.BuildDir(specs)
		if err != nil {
			panic(err)
		}
		for rd := 0; rd < pow3; rd++ {
			rst := make([]rstate, n)
			y := rd
			nrev := 0
			for i := 0; i < n; i++ {
				rst[i] = rstate(y % 3)
				y /= 3
				if rst[i] != 0 {
					nrev++
				}
			}
			for _, c := range cfgs {
				if nrev > 0 && (c.dirty || c.baseline != "") && c.order != "linear" {
					continue // first-run options are irrelevant once revisions exist; keep one order
				}
				id++
				cid := fmt.Sprintf("c11-%d", id)
				st := execrun.NewStore()
				var revToks []string
				for i := 0; i < n; i++ {
					if rst[i] == 0 {
						continue
					}
					r := &migrate.Revision{Version: universe[i], Type: migrate.RevisionTypeExecute, Total: 2, Applied: 2}
					if rst[i] == 2 {
						r.Applied = 1
					}
					st.Put(r)
					revToks = append(revToks, execrun.Hex(r.Version), fmt.Sprint(r.Applied), fmt.Sprint(r.Total), "2")
				}
				run := execrun.Run{Order: c.order, Baseline: c.baseline, AllowDirty: c.allowDirty, Dirty: c.dirty, Files: specs}
				toks, err := run.CaseTokens(dir)
				if err != nil {
					panic(err)
				}
				line := strings.Join(toks, " ") + " " + fmt.Sprint(nrev) + " " + strings.Join(revToks, " ")
				files, perr, baselineW := callPending(run, dir, st)
				obs := pendingObs(files, perr) + " baseline=" + baselineW
				w.Case(cid, line, []string{obs})
				w.Count("result:" + strings.SplitN(strings.TrimPrefix(strings.SplitN(obs, " ", 2)[0], "pending="), ":", 2)[0])
				w.Count("order:" + c.order)
				if len(specs) > 0 && nrev > 0 {
					w.NonTrivial(fmt.Sprintf("%d|%d|%v", fd, rd, c))
				}
				oracleC11(w, cid, universe, fst, rst, c, files, perr)
				// the decision does not depend on what the Executor value did before
				if len(specs) > 0 && npartialOf(rst) <= 1 {
					for k, op := range reuseOps(universe, fst) {
						reused, fresh, rerr, ferr, oo := run.Reuse(dir, st, op.to, op.n)
						w.Count("reuse-op-outcome:" + strings.SplitN(oo, ":", 2)[0])
						if a, b := pendingObs(reused, rerr), pendingObs(fresh, ferr); a != b {
							w.Violation(cid, "executor-reuse", fmt.Sprintf("after %s (outcome %s) the same Executor decides %s, a new Executor over the same directory and history decides %s: %s op#%d", op.desc, oo, a, b, line, k))
							break
						}
					}
				}
			}
		}
	}
}

type reuseOp struct {
	to   string
	n    int
	desc string
}

// reuseOps: ExecuteTo every version of the directory and one absent version, ExecuteN(1).
func reuseOps(universe []string, fst []fstate) []reuseOp {
	ops := []reuseOp{{n: 1, desc: "ExecuteN(1)"}}
	for i, v := range universe {
		if fst[i] != 0 {
			ops = append(ops, reuseOp{to: v, desc: "ExecuteTo(" + v + ")"})
		}
	}
	return append(ops, reuseOp{to: "9", desc: "ExecuteTo(9) (no such version)"})
}

func npartialOf(rst []rstate) int {
	n := 0
	for _, r := range rst {
		if r == 2 {
			n++
		}
	}
	return n
}

// callPending runs the real Executor.Pending; returns the baseline revision written (version hex or "-").
func callPending(r execrun.Run, dir migrate.Dir, st *execrun.Store) (files []migrate.File, err error, baseline string) {
	before := map[string]bool{}
	for _, rv := range st.Sorted() {
		before[rv.Version] = true
	}
	drv := &execrun.Driver{}
	drv.SetDirty(r.Dirty)
	opts := []migrate.ExecutorOption{migrate.WithExecOrder(execrun.OrderOf(r.Order)), migrate.WithAllowDirty(r.AllowDirty)}
	if r.Baseline != "" {
		opts = append(opts, migrate.WithBaselineVersion(r.Baseline))
	}
	ex, e := migrate.NewExecutor(drv, dir, st, opts...)
	if e != nil {
		return nil, e, "-"
	}
	defer func() {
		if p := recover(); p != nil {
			err = fmt.Errorf("panic: %v", p)
		}
	}()
	files, err = ex.Pending(context.Background())
	baseline = "-"
	for _, rv := range st.Sorted() {
		if !before[rv.Version] {
			baseline = execrun.Hex(rv.Version)
		}
	}
	return files, err, baseline
}

// oracleC11 states the documented semantics on well-formed histories
// (revisions only of existing or deleted files; at most one partial revision).
func oracleC11(w *out.W, id string, universe []string, fst []fstate, rst []rstate, c c11cfg, files []migrate.File, err error) {
	n := len(universe)
	desc := func() string {
		var fs, rs []string
		for i := 0; i < n; i++ {
			if fst[i] != 0 {
				s := universe[i]
				if fst[i] == 2 {
					s += "(ckpt)"
				}
				fs = append(fs, s)
			}
			if rst[i] == 1 {
				rs = append(rs, universe[i]+":applied")
			} else if rst[i] == 2 {
				rs = append(rs, universe[i]+":partial")
			}
		}
		return fmt.Sprintf("files=%v revs=%v order=%s baseline=%q dirty=%v allow=%v -> %s", fs, rs, c.order, c.baseline, c.dirty, c.allowDirty, pendingObs(files, err))
	}
	if err != nil && strings.HasPrefix(err.Error(), "panic:") {
		w.Violation(id, "panic", "Pending panicked: "+desc())
		return
	}
	got := map[string]int{}
	var gotList []string
	for i, f := range files {
		got[f.Version()] = i + 1
		gotList = append(gotList, f.Version())
	}
	var npartial, nrev, last, firstRev int = 0, 0, -1, -1
	partialIdx := -1
	for i := 0; i < n; i++ {
		if rst[i] != 0 {
			nrev++
			last = i
			if firstRev < 0 {
				firstRev = i
			}
		}
		if rst[i] == 2 {
			npartial++
			partialIdx = i
		}
	}
	if npartial > 1 {
		return // not a history the executor can produce
	}
	for i := 0; i < n; i++ {
		// a checkpoint is only ever executed as the first file of a first run
		if rst[i] != 0 && fst[i] == 2 && i != firstRev {
			return
		}
	}
	lastCkpt := -1
	for i := 0; i < n; i++ {
		if fst[i] == 2 {
			lastCkpt = i
		}
	}
	isErr := err != nil
	outcome := execrun.Classify(err)
	// (A) never a fully applied version again
	for i := 0; i < n; i++ {
		if rst[i] == 1 && got[universe[i]] > 0 {
			w.Violation(id, "applied-again", "fully applied version returned as pending: "+desc())
			return
		}
	}
	if nrev == 0 {
		// first run
		switch {
		case c.dirty && !c.allowDirty && c.baseline == "":
			if outcome != "notclean" {
				w.Violation(id, "dirty-not-refused", "first run on a non-clean database without baseline/allow-dirty was not refused: "+desc())
			}
			return
		case c.baseline != "":
			bi := -1
			for i := 0; i < n; i++ {
				if universe[i] == c.baseline && fst[i] == 1 {
					bi = i
				}
			}
			if bi < 0 {
				if outcome != "baselinenotfound" {
					w.Violation(id, "baseline", "missing baseline version not reported: "+desc())
				}
				return
			}
			var want []string
			for i := bi + 1; i < n; i++ {
				if fst[i] == 1 {
					want = append(want, universe[i])
				}
			}
			checkExact(w, id, "baseline", want, gotList, isErr, outcome, desc)
			return
		default:
			var want []string
			start := 0
			if lastCkpt >= 0 {
				start = lastCkpt
			}
			for i := start; i < n; i++ {
				if fst[i] != 0 {
					want = append(want, universe[i])
				}
			}
			checkExact(w, id, "first-run-checkpoint", want, gotList, isErr, outcome, desc)
			return
		}
	}
	// revisions exist
	lastPartial := rst[last] == 2
	if npartial == 1 && !lastPartial {
		// the partially applied file is not the greatest recorded version (possible with
		// non-linear execution): documented semantics = resume it first.
		if c.order == "non-linear" && fst[partialIdx] == 1 && partialIdx > firstRev {
			// it is itself an out-of-order file: only never-applied out-of-order files of a smaller
			// version may run before it (out-of-order files run first, in version order)
			pos := got[universe[partialIdx]] - 1
			ok := pos >= 0
			for k := 0; ok && k < pos; k++ {
				okk := false
				for j := firstRev; j < partialIdx; j++ {
					if universe[j] == gotList[k] && rst[j] == 0 && fst[j] == 1 {
						okk = true
					}
				}
				ok = okk
			}
			if !ok {
				w.Violation(id, "nonlinear-partial-not-resumed", "partially applied out-of-order file is not resumed first: "+desc())
			}
		}
		return
	}
	var newer, ooo []string
	for i := 0; i < n; i++ {
		if fst[i] == 1 && i > last {
			newer = append(newer, universe[i])
		}
		if fst[i] == 1 && i < last && i >= firstRev && rst[i] == 0 {
			ooo = append(ooo, universe[i])
		}
	}
	var head []string
	if lastPartial {
		if fst[last] == 0 {
			// file of the partial revision was deleted
			anyMig := false
			for i := 0; i < n; i++ {
				anyMig = anyMig || fst[i] == 1
			}
			if anyMig && outcome != "missing:"+execrun.Hex(universe[last]) {
				w.Violation(id, "missing-not-reported", "partially applied file is gone but no MissingMigrationError: "+desc())
			}
			return
		}
		head = []string{universe[last]}
	}
	want := append(append([]string{}, head...), newer...)
	switch c.order {
	case "linear":
		if len(ooo) > 0 {
			if !strings.HasPrefix(outcome, "nonlinear:") {
				w.Violation(id, "out-of-order-not-rejected", "out-of-order files not rejected in linear mode: "+desc())
			}
			return
		}
	case "non-linear":
		want = append(append([]string{}, ooo...), want...)
	}
	checkExact(w, id, "history", want, gotList, isErr, outcome, desc)
}

func checkExact(w *out.W, id, class string, want, got []string, isErr bool, outcome string, desc func() string) {
	if len(want) == 0 {
		if outcome != "nopending" {
			w.Violation(id, class+"-expected-nothing", fmt.Sprintf("want no pending files: %s", desc()))
		}
		return
	}
	if isErr || strings.Join(want, ",") != strings.Join(got, ",") {
		w.Violation(id, class+"-wrong-set", fmt.Sprintf("want %v: %s", want, desc()))
	}
}

var _ = sort.Strings
