package main

import (
	"fmt"
	"strings"

	"verifharness/internal/execrun"
	"verifharness/internal/out"
)

// ---- C09 stage "reuse": method calls on ONE Executor value --------------------------------------
//
// Session = [ExecuteN(0) in which one call fails]? ; ExecuteTo(v) [one call fails]? ; ExecuteN(0) ; Pending
// on the same Executor. v ranges over every version of the directory (also versions BEFORE a checkpoint
// file: ExecuteTo then swaps e.dir for a truncated in-memory directory around an inner e.Pending call that
// may fail) and one version that does not exist. Oracle, on the real observations: every call on the reused
// Executor makes exactly the ExecContext / WriteRevision calls, returns the outcome and leaves the revision
// table that the same call on a NEW Executor over the same directory and the same table makes; plus the
// C09 clauses over the whole journal of the session.

func genC09Reuse(w *out.W, tier string) {
	maxF2 := 4
	if tier == "thorough" {
		maxF2 = 8
	}
	w.Exhaust = true
	w.Rule = fmt.Sprintf("exhaustive: every directory of 1..3 files x 1..2 statements x every set of checkpoint files (0..3 checkpoints) x {no first call; ExecuteN(0) with a fault at every call position} x ExecuteTo(v) for every version v of the directory (before / at / after the last checkpoint) and one absent version x {no fault, a fault at each of the first %d call positions} x then ExecuteN(0), Pending -- all on ONE Executor value, each call compared with the same call on a new Executor over the same directory and a copy of the revision table. Non-trivial = v lies before a checkpoint file (ExecuteTo swaps e.dir); distinct by the whole session", maxF2)
	id := 0
	for _, sh := range shapes(3, 2) {
		zero := false
		for _, n := range sh {
			zero = zero || n == 0
		}
		if zero {
			continue
		}
		for mask := 0; mask < 1<<len(sh); mask++ {
			files, _, first := shapeFilesCk(sh, mask)
			dir, err := execrun.BuildDir(files)
			if err != nil {
				panic(err)
			}
			run := execrun.Run{Order: "linear", Files: files}
			dirToks, err := run.CaseTokens(dir)
			if err != nil {
				panic(err)
			}
			total := 0
			for _, n := range sh[first:] {
				total += 2*n + 2
			}
			var firsts [][]execrun.Op
			firsts = append(firsts, nil)
			for p := 0; p < total; p++ {
				firsts = append(firsts, []execrun.Op{{Kind: "N", Faults: faultAt(p)}})
			}
			var vs []string
			for i := range sh {
				vs = append(vs, fmt.Sprint(i+1))
			}
			vs = append(vs, "9")
			for _, pre := range firsts {
				for vi, v := range vs {
					beforeCk := vi < len(sh) && mask>>(vi+1) != 0
					for f2 := -1; f2 < maxF2; f2++ {
						id++
						cid := fmt.Sprintf("c09r-%d", id)
						ops := append(append([]execrun.Op{}, pre...),
							execrun.Op{Kind: "T", To: v, Faults: faultAt(f2)},
							execrun.Op{Kind: "N"}, execrun.Op{Kind: "P"})
						reused, fresh, err := run.Session(dir, ops)
						if err != nil {
							w.Violation(cid, "harness", err.Error())
							continue
						}
						toks := append(append([]string{}, dirToks...), fmt.Sprint(len(ops)))
						var descs []string
						for _, op := range ops {
							toks = append(toks, op.Tokens()...)
							descs = append(descs, op.Desc())
						}
						var obs []string
						for i, r := range reused {
							obs = append(obs, r.Show(i, ops[i].Kind))
						}
						w.Case(cid, strings.Join(toks, " "), obs)
						ti := len(pre)
						w.Count("execute-to:" + strings.SplitN(reused[ti].Outcome, ":", 2)[0])
						if beforeCk {
							w.Count("version-before-checkpoint")
							w.NonTrivial(fmt.Sprintf("%v|%d|%v", sh, mask, toks[len(dirToks):]))
							if o := reused[ti].Outcome; len(reused[ti].Events) == 0 && o != "done" {
								w.Count("inner-pending-failed:" + strings.SplitN(o, ":", 2)[0])
							}
						}
						desc := fmt.Sprintf("shape=%v checkpoint-files(bitmask)=%d calls on one Executor: %s", sh, mask, strings.Join(descs, "; "))
						oracleReuse(w, cid, desc, ops, reused, fresh)
					}
				}
			}
		}
	}
}

func oracleReuse(w *out.W, id, desc string, ops []execrun.Op, reused, fresh []execrun.OpResult) {
	for i := range ops {
		if reused[i].Outcome == "panic" {
			w.Violation(id, "panic", fmt.Sprintf("call %d (%s) panicked: %s", i+1, ops[i].Desc(), desc))
			return
		}
		a, b := reused[i].Show(i, ops[i].Kind), fresh[i].Show(i, ops[i].Kind)
		if a != b {
			w.Violation(id, "executor-reuse", fmt.Sprintf("call %d (%s) on the reused Executor: %s; the same call on a new Executor over the same directory and revision table: %s: %s", i+1, ops[i].Desc(), a, b, desc))
			return
		}
	}
	// C09 over the whole session: in file order inside a file, never twice unless the statement's own
	// bookkeeping write failed, nothing after a failure, never over-claims.
	done := map[string]int{} // version -> distinct statements executed
	repeatOK := ""
	lastVer := ""
	for i, r := range reused {
		failed := false
		pendingWrite := ""
		for _, e := range r.Events {
			parts := strings.Split(e, ":")
			ok := parts[len(parts)-1] == "1"
			switch parts[0] {
			case "x":
				if failed {
					w.Violation(id, "continued-after-fault", fmt.Sprintf("call %d executed a statement after a failure: %s", i+1, desc))
					return
				}
				if !ok {
					failed = true
					continue
				}
				s := unhex(parts[1]) // F<file>S<stmt>;
				var fi, si int
				fmt.Sscanf(s, "F%dS%d;", &fi, &si)
				ver := fmt.Sprint(fi)
				switch {
				case si == done[ver]+1 && ver >= lastVer:
					done[ver]++
				case si == done[ver] && s == repeatOK:
					repeatOK = ""
				default:
					w.Violation(id, "skip-or-reorder", fmt.Sprintf("call %d executed %q after %d statement(s) of that file (last file touched: %q): %s", i+1, s, done[ver], lastVer, desc))
					return
				}
				lastVer = ver
				pendingWrite = s
			case "w":
				ver := unhex(parts[1])
				var applied int
				fmt.Sscan(parts[2], &applied)
				if !ok {
					failed = true
					if pendingWrite != "" {
						repeatOK = pendingWrite
					}
				} else if applied > done[ver] {
					w.Violation(id, "overclaim", fmt.Sprintf("call %d stored Applied=%d for version %s but only %d of its statements ran: %s", i+1, applied, ver, done[ver], desc))
					return
				}
				pendingWrite = ""
			}
		}
	}
	// the last two calls are ExecuteN(0) without faults and Pending: after a successful run nothing is pending
	n := len(reused)
	if o := reused[n-2].Outcome; (o == "done" || o == "nopending") && reused[n-1].Outcome != "nopending" {
		w.Violation(id, "not-completed", fmt.Sprintf("ExecuteN(0) returned %s but Pending then answers %s: %s", o, reused[n-1].Outcome, desc))
	}
}
