package main

import (
	"fmt"
	"strings"

	"verifharness/internal/execrun"
	"verifharness/internal/out"
)

// ---- C09: every fault position / pair of fault positions, then a clean run ----

func shapeFiles(shape []int) ([]execrun.FileSpec, []string) {
	fs, flat, _ := shapeFilesCk(shape, 0)
	return fs, flat
}

// shapeFilesCk: bit i of mask makes file i a checkpoint. On a database without history the executor starts
// at the latest checkpoint (Executor.Pending: FilesFromLastCheckpoint), so flat holds the statements of the
// files from there on; first is the index of that file.
func shapeFilesCk(shape []int, mask int) (fs []execrun.FileSpec, flat []string, first int) {
	for i := range shape {
		if mask&(1<<i) != 0 {
			first = i
		}
	}
	for i, n := range shape {
		f := execrun.FileSpec{Name: fmt.Sprintf("%d_f.sql", i+1), Ckpt: mask&(1<<i) != 0}
		for j := 0; j < n; j++ {
			s := fmt.Sprintf("F%dS%d;", i+1, j+1)
			f.Stmts = append(f.Stmts, s)
			if i >= first {
				flat = append(flat, s)
			}
		}
		fs = append(fs, f)
	}
	return fs, flat, first
}

func shapes(maxFiles, maxStmts int) [][]int {
	var res [][]int
	var rec func(cur []int)
	rec = func(cur []int) {
		if len(cur) > 0 {
			res = append(res, append([]int{}, cur...))
		}
		if len(cur) == maxFiles {
			return
		}
		for n := 0; n <= maxStmts; n++ {
			rec(append(cur, n))
		}
	}
	rec(nil)
	return res
}

func faultAt(i int) []bool {
	if i < 0 {
		return nil
	}
	f := make([]bool, i+1)
	f[i] = true
	return f
}

func genC09(w *out.W, tier string) {
	maxFiles, maxStmts, triples := 3, 3, false
	if tier == "thorough" {
		maxFiles, maxStmts, triples = 3, 4, true
	}
	w.Exhaust = true
	w.Rule = fmt.Sprintf("exhaustive: every directory shape of 1..%d files x 0..%d statements x every fault position (each ExecContext and each WriteRevision call of the run) in a first run x every fault position or none in a second run (thorough: also a third) x a final clean run; plus the same for every directory of 1..%d files x 1..2 statements x every non-empty set of checkpoint files (the run starts at the latest checkpoint); plus non-linear histories: versions 1 and 3 applied, version 2 added, --exec-order non-linear with every fault position / pair inside the out-of-order file; ExecuteN(0) each time on a recording driver/store. Non-trivial = at least one fault hit a call that was actually made; distinct by (shape, checkpoint set, fault positions)", maxFiles, maxStmts, maxFiles)
	id := 0
	type shm struct {
		sh   []int
		mask int
	}
	var all []shm
	for _, sh := range shapes(maxFiles, maxStmts) {
		all = append(all, shm{sh, 0})
	}
	// directories with checkpoint files (every non-empty set of checkpoint positions), files of 1..2 statements
	for _, sh := range shapes(maxFiles, 2) {
		zero := false
		for _, n := range sh {
			zero = zero || n == 0
		}
		if zero {
			continue
		}
		for mask := 1; mask < 1<<len(sh); mask++ {
			all = append(all, shm{sh, mask})
		}
	}
	for _, sm := range all {
		sh := sm.sh
		files, flat, first := shapeFilesCk(sh, sm.mask)
		total := 0
		for _, n := range sh[first:] {
			total += 2*n + 2
		}
		var seqs [][]int
		for i := 0; i < total; i++ {
			seqs = append(seqs, []int{i})
			for j := -1; j < total; j++ {
				if j >= 0 {
					seqs = append(seqs, []int{i, j})
				}
				if triples && j >= 0 && len(sh) <= 2 {
					for k := 0; k < total; k++ {
						seqs = append(seqs, []int{i, j, k})
					}
				}
			}
		}
		seqs = append(seqs, []int{})
		for _, sq := range seqs {
			id++
			cid := fmt.Sprintf("c09-%d", id)
			var runs []execrun.Run
			for _, fi := range sq {
				runs = append(runs, execrun.Run{Order: "linear", Faults: faultAt(fi), Files: files})
			}
			runs = append(runs, execrun.Run{Order: "linear", Files: files}, execrun.Run{Order: "linear", Files: files})
			line, obs, res, err := execrun.History(runs)
			if err != nil {
				w.Violation(cid, "harness", err.Error())
				continue
			}
			w.Case(cid, line, obs)
			w.Count(fmt.Sprintf("faults:%d", len(sq)))
			hit := false
			for i := range sq {
				for _, e := range res[i].Events {
					if strings.HasSuffix(e, ":0") {
						hit = true
					}
				}
				w.Count("run-outcome:" + strings.SplitN(res[i].Outcome, ":", 2)[0])
			}
			if hit {
				w.NonTrivial(fmt.Sprintf("%v|%d|%v", sh, sm.mask, sq))
			}
			if sm.mask != 0 {
				w.Count("checkpoint-dirs")
			}
			oracleC09(w, cid, sh, sm.mask, first, flat, sq, res)
		}
	}
	genC09NonLinear(w, &id)
}

// genC09NonLinear: versions 1 and 3 are applied cleanly, then version 2 is added and the directory is run with
// --exec-order non-linear: every fault position / pair of fault positions inside the out-of-order file, then
// clean runs. The documented order is 1, 3, then 2 (an out-of-order file runs when it shows up), and a later
// run continues the out-of-order file at its first unrecorded statement like any other file.
func genC09NonLinear(w *out.W, id *int) {
	for _, sh := range [][]int{{1, 1, 1}, {1, 2, 1}, {2, 3, 1}, {1, 3, 2}, {2, 2, 2}} {
		files, _ := shapeFiles(sh)
		var flat []string
		for _, i := range []int{0, 2, 1} {
			flat = append(flat, files[i].Stmts...)
		}
		base := []execrun.FileSpec{files[0], files[2]}
		total := 2*sh[1] + 2
		var seqs [][]int
		for i := 0; i < total; i++ {
			seqs = append(seqs, []int{i})
			for j := 0; j < total; j++ {
				seqs = append(seqs, []int{i, j})
			}
		}
		seqs = append(seqs, []int{})
		for _, sq := range seqs {
			*id++
			cid := fmt.Sprintf("c09-%d", *id)
			runs := []execrun.Run{{Order: "non-linear", Files: base}}
			for _, fi := range sq {
				runs = append(runs, execrun.Run{Order: "non-linear", Faults: faultAt(fi), Files: files})
			}
			runs = append(runs, execrun.Run{Order: "non-linear", Files: files}, execrun.Run{Order: "non-linear", Files: files})
			line, obs, res, err := execrun.History(runs)
			if err != nil {
				w.Violation(cid, "harness", err.Error())
				continue
			}
			w.Case(cid, line, obs)
			w.Count("non-linear-histories")
			w.NonTrivial(fmt.Sprintf("nl|%v|%v", sh, sq))
			oracleC09(w, cid, sh, 0, 0, flat, append([]int{-1}, sq...), res)
		}
	}
}

// oracleC09 states property C09 on the recorded events of the real executor.
func oracleC09(w *out.W, id string, shape []int, mask, first int, flat []string, faults []int, res []execrun.Result) {
	desc := fmt.Sprintf("shape=%v faults-at-call=%v", shape, faults)
	if mask != 0 {
		desc = fmt.Sprintf("shape=%v checkpoint-files(bitmask)=%d start-at-file=%d faults-at-call=%v", shape, mask, first+1, faults)
	}
	p := 0                          // next expected statement of flat
	repeatOK := map[string]bool{}   // statements whose own bookkeeping write failed
	execOK := map[string]int{}      // successful executions per file version
	stmtFile := func(s string) string { return strings.SplitN(strings.TrimPrefix(s, "F"), "S", 2)[0] }
	onlyStmtFaults := true
	repeats := 0
	for ri, r := range res {
		if r.Outcome == "panic" {
			w.Violation(id, "panic", fmt.Sprintf("run %d panicked: %s", ri, desc))
			return
		}
		failed := false
		var lastExec string
		lastExecPendingWrite := false
		for _, e := range r.Events {
			parts := strings.Split(e, ":")
			switch parts[0] {
			case "x":
				if failed {
					w.Violation(id, "continued-after-fault", fmt.Sprintf("run %d executed a statement after a failure: %s", ri, desc))
					return
				}
				ok := parts[len(parts)-1] == "1"
				s := unhex(parts[1])
				if !ok {
					failed = true
					continue
				}
				switch {
				case p < len(flat) && s == flat[p]:
					p++
				case p > 0 && s == flat[p-1] && repeatOK[s]:
					repeatOK[s] = false
					repeats++
				default:
					w.Violation(id, "skip-or-reorder", fmt.Sprintf("run %d executed %q, expected %q (or an allowed repeat): %s", ri, s, at(flat, p), desc))
					return
				}
				execOK[stmtFile(s)]++
				lastExec, lastExecPendingWrite = s, true
			case "w":
				ok := parts[len(parts)-1] == "1"
				ver := unhex(parts[1])
				var applied int
				fmt.Sscan(parts[2], &applied)
				if !ok {
					failed = true
					onlyStmtFaults = false
					if lastExecPendingWrite {
						repeatOK[lastExec] = true
					}
				} else if applied > distinctExecuted(execOK, ver, repeats, flat, p) {
					w.Violation(id, "overclaim", fmt.Sprintf("run %d stored Applied=%d for version %s but only %d of its statements ran: %s", ri, applied, ver, distinctExecuted(execOK, ver, repeats, flat, p), desc))
					return
				}
				lastExecPendingWrite = false
			}
		}
	}
	if p != len(flat) {
		w.Violation(id, "not-completed", fmt.Sprintf("after the clean runs only %d of %d statements ran: %s", p, len(flat), desc))
		return
	}
	if onlyStmtFaults && repeats != 0 {
		w.Violation(id, "not-exactly-once", fmt.Sprintf("only statements failed but %d statement(s) ran twice: %s", repeats, desc))
	}
	last := res[len(res)-1]
	if last.Outcome != "nopending" {
		w.Violation(id, "not-settled", fmt.Sprintf("run after completion returned %s: %s", last.Outcome, desc))
	}
	// final table: every file complete
	for i, n := range shape {
		if i < first {
			continue // files before the latest checkpoint are not part of a run on a fresh database
		}
		// (the partial hashes may remain when the final clean-up write failed; that is harmless)
		want := fmt.Sprintf("%s:%d:%d:", execrun.Hex(fmt.Sprint(i+1)), n, n)
		if !strings.Contains(" "+last.Table, " "+want) {
			w.Violation(id, "final-table", fmt.Sprintf("final revision of file %d is not %s: table=%s: %s", i+1, want, last.Table, desc))
			return
		}
	}
}

// distinctExecuted = number of distinct statements of the version that ran successfully.
func distinctExecuted(execOK map[string]int, ver string, repeats int, flat []string, p int) int {
	n := 0
	for _, s := range flat[:p] {
		if strings.HasPrefix(s, "F"+ver+"S") {
			n++
		}
	}
	return n
}

func at(l []string, i int) string {
	if i < len(l) {
		return l[i]
	}
	return "<nothing>"
}

func unhex(h string) string {
	if h == "-" {
		return ""
	}
	b := make([]byte, len(h)/2)
	for i := range b {
		fmt.Sscanf(h[2*i:2*i+2], "%02x", &b[i])
	}
	return string(b)
}
