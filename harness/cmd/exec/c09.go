package main

import "verifharness/internal/out"

func genC09(w *out.W, tier string) {}
