package main

import "verifharness/internal/out"

func genC09(w *out.W, tier string) {}
func genC11(w *out.W, tier string) {}
