package main

import "verifharness/internal/out"

func serverMain(mode string, w *out.W, tier string) int { return 2 }
