package main

// Stages mysql / pg (round 5): the real mysql.Driver / postgres.Driver
// (Snapshot, SchemaRestoreFunc, RealmRestoreFunc, the inspectors, differs and
// planners behind them, sqlx.DevDriver.NormalizeSchema/NormalizeRealm through
// Driver.NormalizeSchema/NormalizeRealm) run against a scripted fake server:
// a database/sql driver whose every query is answered from a catalogue
// (schemas, their tables, the schema the connection is bound to), whose every
// Exec is recorded and applied to the catalogue, and which fails the calls
// (queries and execs alike) whose number is in the case's fault list.
// Model: coq/theories/Dev/DevServer.v.

import (
	"context"
	"database/sql"
	"database/sql/driver"
	"errors"
	"fmt"
	"io"
	"os"
	"reflect"
	"regexp"
	"sort"
	"strings"
	"sync"
	"unsafe"

	"ariga.io/atlas/sql/migrate"
	"ariga.io/atlas/sql/mysql"
	"ariga.io/atlas/sql/postgres"
	"ariga.io/atlas/sql/schema"

	"verifharness/internal/out"
)

// ---------------------------------------------------------------- the fake server

type fsch struct {
	id   int
	tabs []int
}

type fakeServer struct {
	mu      sync.Mutex
	pg      bool
	schemas []*fsch
	cur     int // schema the connection is bound to (-1: none)
	calls   int
	faults  map[int]bool
	armed   bool // faults and the trace are active (after Open)
	trace   []string
	unknown []string
	views   map[int][]int  // schema id -> views: never asked for by the OSS inspectors, not part of the model's case line
	other   map[string]int // catalogue queries answered with no rows
	spPrev  bool
}

func sname(pg bool, id int) string {
	if pg && id == 0 {
		return "public"
	}
	return fmt.Sprintf("s%d", id)
}
func sid(name string) int {
	if name == "public" {
		return 0
	}
	var k int
	if _, err := fmt.Sscanf(name, "s%d", &k); err != nil {
		return -2
	}
	return k
}
func tid(name string) int {
	var k int
	if _, err := fmt.Sscanf(name, "t%d", &k); err != nil {
		return -2
	}
	return k
}

func (f *fakeServer) find(id int) *fsch {
	for _, s := range f.schemas {
		if s.id == id {
			return s
		}
	}
	return nil
}

func (f *fakeServer) sorted() []*fsch {
	l := append([]*fsch(nil), f.schemas...)
	sort.Slice(l, func(i, j int) bool { return sname(f.pg, l[i].id) < sname(f.pg, l[j].id) })
	return l
}

func (f *fakeServer) final() string {
	l := append([]*fsch(nil), f.schemas...)
	sort.Slice(l, func(i, j int) bool { return l[i].id < l[j].id })
	var ps []string
	for _, s := range l {
		ts := append([]int(nil), s.tabs...)
		sort.Ints(ts)
		var tt []string
		for _, t := range ts {
			tt = append(tt, fmt.Sprint(t))
		}
		ps = append(ps, fmt.Sprintf("%d:%s", s.id, strings.Join(tt, ",")))
	}
	if len(ps) == 0 {
		return "-"
	}
	return strings.Join(ps, ";")
}

// viewsText: the views on the server, canonical ("-" if none)
func (f *fakeServer) viewsText() string {
	var ps []string
	for _, s := range f.schemas {
		for _, v := range f.views[s.id] {
			ps = append(ps, fmt.Sprintf("%d.v%d", s.id, v))
		}
	}
	if len(ps) == 0 {
		return "-"
	}
	sort.Strings(ps)
	return strings.Join(ps, ",")
}

var errFault = errors.New("VERIF-FAULT")

// tick numbers the call and tells whether it has to fail
func (f *fakeServer) tick() bool {
	if !f.armed {
		return false
	}
	f.calls++
	return f.faults[f.calls]
}

type frows struct {
	cols []string
	data [][]driver.Value
	i    int
}

func (r *frows) Columns() []string { return r.cols }
func (r *frows) Close() error      { return nil }
func (r *frows) Next(dest []driver.Value) error {
	if r.i >= len(r.data) {
		return io.EOF
	}
	copy(dest, r.data[r.i])
	r.i++
	return nil
}

func ncols(n int) []string {
	l := make([]string, n)
	for i := range l {
		l[i] = fmt.Sprintf("c%d", i)
	}
	return l
}

func strArgs(args []driver.NamedValue) []string {
	var l []string
	for _, a := range args {
		l = append(l, fmt.Sprint(a.Value))
	}
	return l
}

func (f *fakeServer) query(q string, args []driver.NamedValue) (driver.Rows, error) {
	f.mu.Lock()
	defer f.mu.Unlock()
	if f.tick() {
		return nil, errFault
	}
	if f.pg {
		return f.queryPG(q, strArgs(args))
	}
	return f.queryMy(q, strArgs(args))
}

func (f *fakeServer) schemaRows(q string, a []string, mk func(s *fsch) []driver.Value, n int, curMarker string) driver.Rows {
	r := &frows{cols: ncols(n)}
	want := func(s *fsch) bool { return true }
	switch {
	case strings.Contains(q, curMarker):
		want = func(s *fsch) bool { return s.id == f.cur }
	case len(a) > 0:
		want = func(s *fsch) bool {
			for _, x := range a {
				if sid(x) == s.id {
					return true
				}
			}
			return false
		}
	}
	for _, s := range f.sorted() {
		if want(s) {
			r.data = append(r.data, mk(s))
		}
	}
	return r
}

func (f *fakeServer) queryMy(q string, a []string) (driver.Rows, error) {
	switch {
	case strings.Contains(q, "@@version"):
		return &frows{cols: ncols(4), data: [][]driver.Value{{"8.0.19", "utf8mb4_0900_ai_ci", "utf8mb4", int64(0)}}}, nil
	case strings.Contains(q, "`INFORMATION_SCHEMA`.`SCHEMATA`"):
		return f.schemaRows(q, a, func(s *fsch) []driver.Value {
			return []driver.Value{sname(false, s.id), "utf8mb4", "utf8mb4_0900_ai_ci"}
		}, 3, "= SCHEMA()"), nil
	case strings.Contains(q, "INFORMATION_SCHEMA.TABLES AS t1"):
		r := &frows{cols: ncols(10)}
		for _, s := range f.sorted() {
			for _, x := range a {
				if sid(x) == s.id {
					ts := append([]int(nil), s.tabs...)
					sort.Ints(ts)
					for _, t := range ts {
						r.data = append(r.data, []driver.Value{sname(false, s.id), fmt.Sprintf("t%d", t), "utf8mb4", "utf8mb4_0900_ai_ci", nil, "", "", "InnoDB", int64(1), "BASE TABLE"})
					}
				}
			}
		}
		return r, nil
	case strings.Contains(q, "`INFORMATION_SCHEMA`.`COLUMNS`"):
		r := &frows{cols: ncols(11)}
		for _, t := range a[1:] {
			r.data = append(r.data, []driver.Value{t, "id", "int", "", "NO", "", nil, "", nil, nil, nil})
		}
		return r, nil
	case strings.Contains(q, "`INFORMATION_SCHEMA`.`STATISTICS`"), strings.Contains(q, "KEY_COLUMN_USAGE"), strings.Contains(q, "CHECK_CONSTRAINTS"):
		return &frows{cols: ncols(12)}, nil
	}
	f.unknown = append(f.unknown, q)
	return nil, fmt.Errorf("fake: unexpected query %q", q)
}

func (f *fakeServer) queryPG(q string, a []string) (driver.Rows, error) {
	switch {
	case strings.Contains(q, "server_version_num"):
		return &frows{cols: ncols(3), data: [][]driver.Value{{"150000", "heap", nil}}}, nil
	case strings.Contains(q, "current_setting('search_path'), set_config"):
		return &frows{cols: ncols(2), data: [][]driver.Value{{"public", ""}}}, nil
	case strings.Contains(q, "set_config('search_path', $1"):
		return &frows{cols: ncols(1), data: [][]driver.Value{{"public"}}}, nil
	case strings.Contains(q, "pg_catalog.pg_namespace ns"):
		return f.schemaRows(q, a, func(s *fsch) []driver.Value {
			return []driver.Value{sname(true, s.id), nil}
		}, 2, "CURRENT_SCHEMA()"), nil
	case strings.Contains(q, "INFORMATION_SCHEMA.TABLES AS t1") && strings.Contains(q, "t3.oid"):
		r := &frows{cols: ncols(8)}
		for _, s := range f.sorted() {
			for _, x := range a {
				if sid(x) == s.id {
					ts := append([]int(nil), s.tabs...)
					sort.Ints(ts)
					for _, t := range ts {
						r.data = append(r.data, []driver.Value{int64(1000 + 10*s.id + t), sname(true, s.id), fmt.Sprintf("t%d", t), nil, nil, nil, nil, "{}"})
					}
				}
			}
		}
		return r, nil
	case strings.Contains(q, "t1.column_name") && strings.Contains(q, "format_type"):
		r := &frows{cols: ncols(24)}
		for _, t := range a[1:] {
			row := make([]driver.Value, 24)
			row[0], row[1], row[2], row[3], row[4] = t, "id", "integer", "integer", "NO"
			row[20], row[23] = "b", int64(1)
			r.data = append(r.data, row)
		}
		return r, nil
	}
	// every other catalogue query (enums, indexes, fks, checks, ...): no rows
	up := strings.TrimSpace(strings.ToUpper(q))
	if strings.HasPrefix(up, "SELECT") || strings.HasPrefix(up, "WITH") {
		f.other[strings.Join(strings.Fields(q), " ")]++
		return &frows{cols: ncols(24)}, nil
	}
	f.unknown = append(f.unknown, q)
	return nil, fmt.Errorf("fake: unexpected query %q", q)
}

var stmtRe = regexp.MustCompile("(?i)^\\s*(CREATE|DROP)\\s+(TABLE|DATABASE|SCHEMA|VIEW)(\\s+IF\\s+NOT\\s+EXISTS|\\s+IF\\s+EXISTS)?\\s+[`\"](\\w+)[`\"](?:\\.[`\"](\\w+)[`\"])?")

func (f *fakeServer) exec(q string) (driver.Result, error) {
	f.mu.Lock()
	defer f.mu.Unlock()
	if f.tick() {
		return nil, errFault
	}
	if strings.Contains(q, "nosuch") {
		return nil, errors.New("fake: table nosuch does not exist")
	}
	m := stmtRe.FindStringSubmatch(q)
	if m == nil {
		f.trace = append(f.trace, "other")
		return driver.ResultNoRows, nil
	}
	verb, kind, cond := strings.ToUpper(m[1]), strings.ToUpper(m[2]), strings.TrimSpace(m[3]) != ""
	if kind == "VIEW" {
		// (only the harness' own set-up and the oracle look at views)
		f.trace = append(f.trace, "other")
		return driver.ResultNoRows, nil
	}
	if kind == "TABLE" {
		sc, tn := f.cur, m[4]
		if m[5] != "" {
			sc, tn = sid(m[4]), m[5]
		}
		t := tid(tn)
		s := f.find(sc)
		if s == nil {
			return nil, errors.New("fake: no such schema / no database selected")
		}
		has := -1
		for i, x := range s.tabs {
			if x == t {
				has = i
			}
		}
		if verb == "CREATE" {
			if has >= 0 {
				if cond {
					f.trace = append(f.trace, fmt.Sprintf("ct:%d.%d", sc, t))
					return driver.ResultNoRows, nil
				}
				return nil, errors.New("fake: table exists")
			}
			s.tabs = append(s.tabs, t)
			f.trace = append(f.trace, fmt.Sprintf("ct:%d.%d", sc, t))
			return driver.ResultNoRows, nil
		}
		if has < 0 {
			if cond {
				f.trace = append(f.trace, fmt.Sprintf("dt:%d.%d", sc, t))
				return driver.ResultNoRows, nil
			}
			return nil, errors.New("fake: unknown table")
		}
		s.tabs = append(s.tabs[:has], s.tabs[has+1:]...)
		f.trace = append(f.trace, fmt.Sprintf("dt:%d.%d", sc, t))
		return driver.ResultNoRows, nil
	}
	sc := sid(m[4])
	s := f.find(sc)
	if verb == "CREATE" {
		if s != nil {
			if cond {
				f.trace = append(f.trace, fmt.Sprintf("cs:%d", sc))
				return driver.ResultNoRows, nil
			}
			return nil, errors.New("fake: schema exists")
		}
		f.schemas = append(f.schemas, &fsch{id: sc})
		f.trace = append(f.trace, fmt.Sprintf("cs:%d", sc))
		return driver.ResultNoRows, nil
	}
	if s == nil {
		if cond {
			f.trace = append(f.trace, fmt.Sprintf("ds:%d", sc))
			return driver.ResultNoRows, nil
		}
		return nil, errors.New("fake: unknown schema")
	}
	var l []*fsch
	for _, x := range f.schemas {
		if x != s {
			l = append(l, x)
		}
	}
	f.schemas = l
	delete(f.views, sc)
	f.trace = append(f.trace, fmt.Sprintf("ds:%d", sc))
	return driver.ResultNoRows, nil
}

// database/sql plumbing
type fakeDrv struct{}
type fakeConn struct{ s *fakeServer }

var fakeServers sync.Map

func (fakeDrv) Open(name string) (driver.Conn, error) {
	s, ok := fakeServers.Load(name)
	if !ok {
		return nil, errors.New("fake: no such server")
	}
	return &fakeConn{s.(*fakeServer)}, nil
}
func (c *fakeConn) Prepare(string) (driver.Stmt, error) { return nil, errors.New("fake: no prepare") }
func (c *fakeConn) Close() error                        { return nil }
func (c *fakeConn) Begin() (driver.Tx, error)           { return nil, errors.New("fake: no tx") }
func (c *fakeConn) QueryContext(_ context.Context, q string, args []driver.NamedValue) (driver.Rows, error) {
	return c.s.query(q, args)
}
func (c *fakeConn) ExecContext(_ context.Context, q string, args []driver.NamedValue) (driver.Result, error) {
	return c.s.exec(q)
}

func init() { sql.Register("verif-fake", fakeDrv{}) }

// ---------------------------------------------------------------- cases

type srvStmt struct {
	op   string // ct dt cs ds bad
	s, t int    // s = -1: unqualified
}

type srvCase struct {
	id      string
	pg      bool
	bound   int // -1: realm connection
	schemas []fsch
	scen    string // sess norms normr
	body    []srvStmt
	body2   []srvStmt // twice: the script of the second session on the same driver
	desired []fsch    // norms: one entry (id ignored); normr: the realm
	faults  []int
	views   [][2]int // (schema id, view id) present at the start; invisible to the model
	label   string
}

func (c *srvCase) line() string {
	var b strings.Builder
	d := "m"
	if c.pg {
		d = "p"
	}
	fmt.Fprintf(&b, "%s %d %d", d, c.bound, len(c.schemas))
	wr := func(l []fsch) {
		for _, s := range l {
			fmt.Fprintf(&b, " %d %d", s.id, len(s.tabs))
			for _, t := range s.tabs {
				fmt.Fprintf(&b, " %d", t)
			}
		}
	}
	wr(c.schemas)
	fmt.Fprintf(&b, " %s", c.scen)
	switch c.scen {
	case "sess", "twice":
		fmt.Fprintf(&b, " %d", len(c.body))
		for _, s := range c.body {
			fmt.Fprintf(&b, " %s %d %d", s.op, s.s, s.t)
		}
		if c.scen == "twice" {
			fmt.Fprintf(&b, " %d", len(c.body2))
			for _, s := range c.body2 {
				fmt.Fprintf(&b, " %s %d %d", s.op, s.s, s.t)
			}
		}
	default:
		fmt.Fprintf(&b, " %d", len(c.desired))
		wr(c.desired)
	}
	fmt.Fprintf(&b, " %d", len(c.faults))
	for _, k := range c.faults {
		fmt.Fprintf(&b, " %d", k)
	}
	return b.String()
}

func (c *srvCase) q(id int) string {
	n := sname(c.pg, id)
	if c.pg {
		return `"` + n + `"`
	}
	return "`" + n + "`"
}

func (c *srvCase) stmtSQL(s srvStmt) string {
	qt := func(t int) string {
		n := fmt.Sprintf("t%d", t)
		if c.pg {
			n = `"` + n + `"`
		} else {
			n = "`" + n + "`"
		}
		if s.s >= 0 {
			return c.q(s.s) + "." + n
		}
		return n
	}
	db := "DATABASE"
	if c.pg {
		db = "SCHEMA"
	}
	switch s.op {
	case "ct":
		return "CREATE TABLE " + qt(s.t) + " (id int)"
	case "dt":
		return "DROP TABLE " + qt(s.t)
	case "cs":
		return "CREATE " + db + " " + c.q(s.s)
	case "ds":
		return "DROP " + db + " " + c.q(s.s)
	}
	return "INSERT INTO nosuch VALUES (1)"
}

type srvResult struct {
	obs     string
	outcome string
	rerr    bool
	out2    string
	rerr2   bool
	views0  string
	views1  string
	mid     string // twice: the catalogue between the two sessions
	trace2  int    // twice: statements executed by the second session
	calls   int
	final   string
	start   string
	trace   []string
	output  string
	err     error
}

var srvSeq int
var srvMu sync.Mutex

func setPGSchema(drv migrate.Driver, name string) {
	v := reflect.ValueOf(drv).Elem().FieldByName("conn").Elem().FieldByName("schema")
	reflect.NewAt(v.Type(), unsafe.Pointer(v.UnsafeAddr())).Elem().SetString(name)
}

func mkTable(s *schema.Schema, t int) *schema.Table {
	tb := schema.NewTable(fmt.Sprintf("t%d", t)).AddColumns(schema.NewIntColumn("id", "int"))
	s.AddTables(tb)
	return tb
}

func runSrv(c *srvCase) (r srvResult) {
	srvMu.Lock()
	srvSeq++
	name := fmt.Sprintf("srv%d", srvSeq)
	srvMu.Unlock()
	fs := &fakeServer{pg: c.pg, cur: c.bound, faults: map[int]bool{}, other: map[string]int{}, views: map[int][]int{}}
	if c.pg && c.bound < 0 {
		fs.cur = 0 // PostgreSQL: the default search_path puts unqualified names into "public" (CURRENT_SCHEMA())
	}
	for _, s := range c.schemas {
		fs.schemas = append(fs.schemas, &fsch{id: s.id, tabs: append([]int(nil), s.tabs...)})
	}
	for _, v := range c.views {
		if sc := fs.find(v[0]); sc != nil {
			fs.views[v[0]] = append(fs.views[v[0]], v[1])
		}
	}
	for _, k := range c.faults {
		fs.faults[k] = true
	}
	fakeServers.Store(name, fs)
	defer fakeServers.Delete(name)
	db, err := sql.Open("verif-fake", name)
	if err != nil {
		r.err = err
		return
	}
	defer db.Close()
	db.SetMaxOpenConns(1)
	var drv migrate.Driver
	if c.pg {
		drv, err = postgres.Open(db)
	} else {
		drv, err = mysql.Open(db)
	}
	if err != nil {
		r.err = err
		return
	}
	if c.pg && c.bound >= 0 {
		setPGSchema(drv, sname(true, c.bound))
	}
	r.start = fs.final()
	r.views0 = fs.viewsText()
	fs.armed = true
	ctx := context.Background()
	var nc *migrate.NotCleanError
	sess := func(body []srvStmt) (outcome string, rerr bool) {
		restore, err := drv.Snapshot(ctx)
		switch {
		case errors.As(err, &nc):
			return "refused", false
		case err != nil:
			r.output = err.Error()
			return "snaperr", false
		}
		outcome = "ok"
		for k, s := range body {
			if _, err := drv.ExecContext(ctx, c.stmtSQL(s)); err != nil {
				outcome = fmt.Sprintf("fail:%d", k)
				break
			}
		}
		if err := restore(ctx); err != nil {
			rerr, r.output = true, err.Error()
		}
		return
	}
	switch c.scen {
	case "sess":
		r.outcome, r.rerr = sess(c.body)
	case "twice":
		r.outcome, r.rerr = sess(c.body)
		fs.mu.Lock()
		r.mid = fs.final()
		n1 := len(fs.trace)
		fs.mu.Unlock()
		r.out2, r.rerr2 = sess(c.body2)
		fs.mu.Lock()
		r.trace2 = len(fs.trace) - n1
		fs.mu.Unlock()
	case "norms", "normr":
		var err error
		if c.scen == "norms" {
			s := schema.New("desired")
			for _, t := range c.desired[0].tabs {
				mkTable(s, t)
			}
			_, err = drv.(schema.Normalizer).NormalizeSchema(ctx, s)
		} else {
			rl := schema.NewRealm()
			for _, d := range c.desired {
				s := schema.New(sname(c.pg, d.id))
				for _, t := range d.tabs {
					mkTable(s, t)
				}
				rl.AddSchemas(s)
			}
			_, err = drv.(schema.Normalizer).NormalizeRealm(ctx, rl)
		}
		switch {
		case err == nil:
			r.outcome = "ok"
		case errors.As(err, &nc):
			r.outcome = "refused"
		default:
			r.outcome, r.output = "err", err.Error()
		}
	}
	fs.mu.Lock()
	defer fs.mu.Unlock()
	if len(fs.unknown) > 0 {
		r.err = fmt.Errorf("fake server: unexpected query: %s", fs.unknown[0])
		return
	}
	r.calls, r.final, r.trace = fs.calls, fs.final(), fs.trace
	r.views1 = fs.viewsText()
	tr := strings.Join(fs.trace, ",")
	if tr == "" {
		tr = "-"
	}
	r.obs = fmt.Sprintf("out=%s rerr=%d calls=%d trace=%s final=%s", r.outcome, b01(r.rerr), r.calls, tr, r.final)
	if c.scen == "twice" {
		r.obs += fmt.Sprintf(" out2=%s rerr2=%d", r.out2, b01(r.rerr2))
	}
	return
}

// ---------------------------------------------------------------- generator + oracle

func serverMain(mode string, w *out.W, tier string) int {
	pg := mode == "pg"
	cases := genSrv(pg, tier)
	results := make([]srvResult, len(cases))
	parallel(len(cases), func(i int) { results[i] = runSrv(cases[i]) })
	w.Rule = "non-trivial = the catalogue is not empty at the start, or a call fails, or the body/desired state is not empty; key = case line"
	w.Exhaust = true
	bad := 0
	for i, c := range cases {
		r := &results[i]
		if r.err != nil {
			bad++
			if bad < 5 {
				fmt.Fprintf(os.Stderr, "case %s (%s): harness error: %v\n", c.id, c.line(), r.err)
			}
			w.Violation(c.id, "harness-error", r.err.Error())
			continue
		}
		line := c.line()
		w.Case(c.id, line, []string{r.obs})
		w.Count("label/" + c.label)
		w.Count("scen/" + c.scen)
		w.Count("outcome/" + strings.SplitN(r.outcome, ":", 2)[0])
		if r.rerr {
			w.Count("restore-error")
		}
		if len(c.schemas) > 0 || len(c.faults) > 0 || len(c.body) > 0 || len(c.desired) > 0 {
			w.NonTrivial(line)
		}
		srvOracle(w, c, r)
	}
	if bad > 0 {
		return 1
	}
	return 0
}

// userContent: what the property calls "contains anything", on the fake catalogue: a
// connection bound to a schema owns that schema (any table in it); a realm connection owns
// the server (any schema; PostgreSQL: an empty "public" is what an empty database looks like).
func effBound(c *srvCase) int {
	for _, s := range c.schemas {
		if s.id == c.bound {
			return c.bound
		}
	}
	// bound to nothing that exists (SCHEMA() is NULL / names no schema): a realm connection
	if c.pg && c.bound >= 0 {
		return c.bound // PostgreSQL: the search_path names it all the same (Snapshot fails on it)
	}
	return -1
}

func userContent(c *srvCase) bool {
	if b := effBound(c); b >= 0 {
		for _, s := range c.schemas {
			if s.id == b && len(s.tabs) > 0 {
				return true
			}
		}
		return false
	}
	for _, s := range c.schemas {
		if c.pg && s.id == 0 && len(s.tabs) == 0 {
			continue
		}
		return true
	}
	return false
}

// part of a canonical catalogue text that belongs to schema id ("" if absent, "id:" if empty)
func schemaPart(final string, id int) string {
	for _, p := range strings.Split(final, ";") {
		if strings.HasPrefix(p, fmt.Sprintf("%d:", id)) {
			return p
		}
	}
	return ""
}

func parseCatalogue(t string) []fsch {
	var l []fsch
	if t == "-" {
		return nil
	}
	for _, p := range strings.Split(t, ";") {
		kv := strings.SplitN(p, ":", 2)
		var s fsch
		fmt.Sscanf(kv[0], "%d", &s.id)
		if len(kv) > 1 && kv[1] != "" {
			for _, x := range strings.Split(kv[1], ",") {
				var k int
				fmt.Sscanf(x, "%d", &k)
				s.tabs = append(s.tabs, k)
			}
		}
		l = append(l, s)
	}
	return l
}

func srvOracle(w *out.W, c *srvCase, r *srvResult) {
	d := "mysql"
	if c.pg {
		d = "pg"
	}
	ctxt := fmt.Sprintf("%s bound=%d start=%s scen=%s faults=%v outcome=%s rerr=%v trace=%s final=%s", d, c.bound, r.start, c.scen, c.faults, r.outcome, r.rerr, strings.Join(r.trace, ","), r.final)
	if len(c.views) > 0 {
		// a view in what the connection owns is content: refused, and untouched
		owned := false
		for _, v := range c.views {
			if b := effBound(c); b < 0 || b == v[0] {
				owned = true
			}
		}
		declined := r.outcome == "refused" || r.outcome == "snaperr"
		if owned && r.views1 != r.views0 {
			w.Violation(c.id, "nonempty-dev-damaged", "server-view "+ctxt+fmt.Sprintf(" views=%s views-after=%s: the dev database held a view and it was destroyed", r.views0, r.views1))
		} else if owned && !declined {
			w.Violation(c.id, "nonempty-dev-not-refused", "server-view "+ctxt+fmt.Sprintf(" views=%s: the dev database held a view and was not refused", r.views0))
		}
		return
	}
	if c.scen == "twice" {
		// the state a (failed) RestoreFunc leaves is judged anew by the next Snapshot: content the
		// connection owns => the second session is declined and executes nothing
		mid := *c
		mid.schemas = parseCatalogue(r.mid)
		if userContent(&mid) {
			w.Count("twice/leftover-then-" + r.out2)
		}
		if userContent(&mid) && (r.trace2 > 0 || r.final != r.mid || !(r.out2 == "refused" || r.out2 == "snaperr")) {
			w.Violation(c.id, "nonempty-dev-damaged", "server-after-restore "+ctxt+fmt.Sprintf(" mid=%s out2=%s: the first session left content and the second one ran on it", r.mid, r.out2))
		}
		if !userContent(&mid) && r.out2 == "refused" {
			w.Violation(c.id, "clean-dev-refused", "server-after-restore "+ctxt+fmt.Sprintf(" mid=%s out2=%s", r.mid, r.out2))
		}
		return
	}
	declined := r.outcome == "refused" || r.outcome == "snaperr"
	// how the final catalogue differs from the start, seen from a connection bound to a schema:
	// its own schema is as it was and the difference lies in other schemas / its schema is gone
	pre := "server "
	if b := effBound(c); b >= 0 && r.final != r.start {
		switch {
		case schemaPart(r.final, b) == "":
			pre = "server-bound-dropped "
		case schemaPart(r.final, b) == schemaPart(r.start, b):
			pre = "server-foreign "
		}
	}
	switch {
	case userContent(c):
		if len(r.trace) > 0 || r.final != r.start {
			w.Violation(c.id, "nonempty-dev-damaged", "server "+ctxt+": the dev database held content and statements were executed")
		} else if !declined && !(r.outcome == "err" && (len(c.faults) > 0 || c.scen != "sess")) {
			w.Violation(c.id, "nonempty-dev-not-refused", "server "+ctxt+": the dev database held content and was not refused")
		}
	case declined || (c.scen != "sess" && r.outcome == "err" && len(r.trace) == 0 && len(c.faults) == 0 && r.calls <= 3):
		if r.outcome == "refused" {
			w.Violation(c.id, "clean-dev-refused", "server "+ctxt+": nothing the connection owns, yet refused")
		} else if len(r.trace) > 0 {
			w.Violation(c.id, "nonempty-dev-damaged", "server "+ctxt+": Snapshot failed and statements were executed")
		}
	case len(c.faults) == 0 && r.final != r.start:
		// no injected fault: whatever the body did, the server is handed back as it was found
		w.Violation(c.id, "dev-not-handed-back-empty", pre+ctxt+": no call failed and the server is not handed back as it was found")
	case len(c.faults) > 0 && r.final != r.start && !r.rerr && r.outcome == "ok" && c.scen != "norms":
		// (NormalizeSchema drops the restore's error: recorded decision, see C14_restore_always_runs)
		w.Violation(c.id, "dirty-dev-not-reported", pre+ctxt+": left with content and no error returned")
	}
}

func genSrv(pg bool, tier string) []*srvCase {
	var cs []*srvCase
	ids := []int{1, 2}
	bounds := []int{-1, 1, 3}
	if pg {
		ids = []int{0, 1}
		bounds = []int{-1, 0, 1, 3}
	}
	tabSets := [][]int{nil, {1}, {1, 2}}
	var cats [][]fsch
	cats = append(cats, nil)
	for _, a := range tabSets {
		cats = append(cats, []fsch{{ids[0], a}}, []fsch{{ids[1], a}})
		for _, b := range tabSets {
			cats = append(cats, []fsch{{ids[0], a}, {ids[1], b}})
		}
	}
	o := ids[1] // "the other" schema of a body
	bodies := [][]srvStmt{
		nil,
		{{"ct", -1, 1}},
		{{"ct", ids[0], 1}, {"ct", ids[0], 2}},
		{{"cs", 2, 0}, {"ct", 2, 1}},
		{{"ct", -1, 1}, {"bad", 0, 0}, {"ct", -1, 2}},
		{{"ds", ids[0], 0}},
		{{"ds", o, 0}},
		{{"cs", 4, 0}},
		{{"ct", o, 5}},
		{{"ct", -1, 1}, {"dt", -1, 1}, {"ct", ids[0], 3}},
	}
	desiredS := [][]fsch{{{9, nil}}, {{9, []int{1}}}, {{9, []int{1, 2}}}}
	desiredR := [][]fsch{nil, {{ids[0], []int{1}}}, {{ids[0], []int{1}}, {2, []int{2}}}, {{2, []int{1, 2}}}, {{ids[0], nil}}}
	add := func(c *srvCase) {
		c.pg = pg
		c.id = fmt.Sprintf("%s%05d", map[bool]string{true: "p", false: "m"}[pg], len(cs))
		cs = append(cs, c)
	}
	var bases []*srvCase
	for _, cat := range cats {
		for _, b := range bounds {
			for _, body := range bodies {
				bases = append(bases, &srvCase{bound: b, schemas: cat, scen: "sess", body: body, label: "sess"})
			}
			for _, d := range desiredS {
				bases = append(bases, &srvCase{bound: b, schemas: cat, scen: "norms", desired: d, label: "norms"})
			}
			for _, d := range desiredR {
				bases = append(bases, &srvCase{bound: b, schemas: cat, scen: "normr", desired: d, label: "normr"})
			}
		}
	}
	// two sessions on the same driver (goal 2): whatever the first one's RestoreFunc left -- a fault is
	// put at every call, the restore's included -- the second Snapshot decides anew
	for _, cat := range cats {
		if len(cat) == 2 && len(cat[0].tabs)+len(cat[1].tabs) > 0 {
			continue
		}
		for _, b := range bounds {
			for _, body := range [][]srvStmt{bodies[1], bodies[2], bodies[3], bodies[7]} {
				bases = append(bases, &srvCase{bound: b, schemas: cat, scen: "twice", body: body, body2: []srvStmt{{"ct", ids[0], 7}}, label: "twice"})
			}
		}
	}
	// a database that holds nothing but a view (the OSS inspectors never list views)
	for _, b := range bounds {
		for _, body := range [][]srvStmt{nil, bodies[1], bodies[2]} {
			for _, cat := range [][]fsch{{{ids[0], nil}}, {{ids[0], nil}, {ids[1], nil}}} {
				for _, vs := range []int{ids[0], ids[1]} {
					if vs == ids[1] && len(cat) == 1 {
						continue
					}
					bases = append(bases, &srvCase{bound: b, schemas: cat, scen: "sess", body: body, views: [][2]int{{vs, 9}}, label: "views"})
				}
			}
		}
	}
	for _, b := range bases {
		b.pg = pg
		add(b)
		r := runSrv(b)
		if r.err != nil {
			continue
		}
		// a fault at every call of the fault-free run (queries and execs alike)
		heavy := len(b.schemas) == 2 && len(b.schemas[0].tabs)+len(b.schemas[1].tabs) >= 3
		if (heavy && tier != "thorough") || len(b.views) > 0 {
			continue
		}
		for k := 1; k <= r.calls; k++ {
			c := *b
			c.faults = []int{k}
			c.label = "fault1/" + b.scen
			add(&c)
		}
		// two faults: one in the first half, one later (the body and the restore)
		if tier == "thorough" || len(b.schemas) <= 1 {
			for k := 1; k <= r.calls; k += 2 {
				for j := k + 1; j <= r.calls; j += 3 {
					c := *b
					c.faults = []int{k, j}
					c.label = "fault2/" + b.scen
					add(&c)
				}
			}
		}
	}
	return cs
}
