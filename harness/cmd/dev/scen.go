package main

// Stage scen (round 5, oracle-only): the SAME *sqlite.Driver object is used for
// several sessions (library reuse; the second replay of `migrate diff --to
// file://schema.sql`), and ANOTHER writer changes the dev file between the first
// session's restore and the second session's Snapshot.  The verdict has to be
// recomputed by every Snapshot: foreign content => refused, no ExecContext at
// all, file byte-identical; foreign content removed again => accepted, handed
// back empty.  (Coq: C14_verdict_recomputed -- the verdict of a session is a
// function of the database at its own Snapshot.)

import (
	"bytes"
	"context"
	"database/sql"
	"errors"
	"fmt"
	"os"
	"os/exec"
	"path/filepath"
	"sort"
	"strings"

	"ariga.io/atlas/sql/migrate"
	"ariga.io/atlas/sql/schema"
	"ariga.io/atlas/sql/sqlite"
	"ariga.io/atlas/sql/verifx"

	"verifharness/internal/out"
)

func extraMain(mode string, w *out.W, tier, tmpRoot string) int {
	switch mode {
	case "scen":
		return scenMain(w, tier, tmpRoot)
	case "mysql", "pg":
		return serverMain(mode, w, tier)
	}
	fmt.Fprintln(os.Stderr, "unknown mode:", mode)
	return 2
}

type scenCase struct {
	id       string
	s1, s2   string   // session kinds: replay replay-fail norm-s norm-r
	foreign  []string // SQL the other writer runs between the two sessions ("" = none)
	fname    string
	sameExec bool // replay sessions share one migrate.Executor
	third    bool // the other writer removes its objects again, then a third session runs
}

type scenResult struct {
	o1, o2, o3           string
	empty1, same2, byte2 bool
	execs2               int
	empty3               bool
	err                  error
}

var foreignSets = []struct {
	name string
	sql  []string
	drop []string
}{
	{"table-rows", []string{"CREATE TABLE foreign1 (id INTEGER PRIMARY KEY, v TEXT)", "INSERT INTO foreign1 (v) VALUES ('a'), ('b')"}, []string{"DROP TABLE foreign1"}},
	{"view", []string{"CREATE VIEW fv AS SELECT 1 AS x"}, []string{"DROP VIEW fv"}},
	{"table-index", []string{"CREATE TABLE f2 (id INTEGER PRIMARY KEY, v TEXT)", "CREATE INDEX f2i ON f2 (v)"}, []string{"DROP TABLE f2"}},
	{"underscore", []string{"CREATE TABLE _x (a)", "INSERT INTO _x VALUES (1)"}, []string{"DROP TABLE _x"}},
	{"hidden-name", []string{"CREATE TABLE sqlitedb (a)", "INSERT INTO sqlitedb VALUES (1)"}, []string{"DROP TABLE sqlitedb"}},
	{"same-name-as-replayed", []string{"CREATE TABLE t0 (a)", "INSERT INTO t0 VALUES (1)"}, []string{"DROP TABLE t0"}},
}

func runScen(c *scenCase, tmpRoot string) (r scenResult) {
	root, err := os.MkdirTemp(tmpRoot, "c14s-")
	if err != nil {
		r.err = err
		return
	}
	defer os.RemoveAll(root)
	devPath := filepath.Join(root, "dev.db")
	db, err := sql.Open("sqlite3", "file:"+devPath+"?_busy_timeout=200")
	if err != nil {
		r.err = err
		return
	}
	defer db.Close()
	cdb := &countDB{db: db}
	drv, err := sqlite.Open(cdb)
	if err != nil {
		r.err = err
		return
	}
	ctx := context.Background()
	mkDir := func(fail bool) migrate.Dir {
		md := &migrate.MemDir{}
		txt := "CREATE TABLE t0 (id INTEGER PRIMARY KEY, v TEXT);\nCREATE INDEX i0 ON t0 (v);\nINSERT INTO t0 (v) VALUES ('r');\n"
		if fail {
			txt += "INSERT INTO nosuch VALUES (1);\n"
		}
		txt += "CREATE VIEW v0 AS SELECT id FROM t0;\n"
		md.WriteFile("1_f1.sql", []byte(txt))
		sum, _ := md.Checksum()
		migrate.WriteSumFile(md, sum)
		return md
	}
	var shared *migrate.Executor
	session := func(kind string) string {
		var err error
		switch kind {
		case "replay", "replay-fail":
			ex := shared
			if ex == nil || !c.sameExec || kind == "replay-fail" {
				ex, err = migrate.NewExecutor(drv, mkDir(kind == "replay-fail"), migrate.NopRevisionReadWriter{})
				if err != nil {
					return "err:" + err.Error()
				}
				if kind == "replay" {
					shared = ex
				}
			}
			_, err = ex.Replay(ctx, migrate.SchemaConn(drv, "", nil))
			if errors.Is(err, migrate.ErrNoPendingFiles) {
				err = nil
			}
		case "norm-s":
			_, err = verifx.NormalizeSchema(ctx, drv, hclSchema([]htable{{name: "tn", idx: []hidx{{0, "in1"}}}}))
		case "norm-r":
			_, err = verifx.NormalizeRealm(ctx, noAddSchema{drv}, schema.NewRealm(hclSchema([]htable{{name: "tn"}})))
		}
		var nc *migrate.NotCleanError
		switch {
		case err == nil:
			return "ok"
		case errors.As(err, &nc):
			return "refused"
		case strings.Contains(err.Error(), "nosuch"):
			return "fail"
		}
		return "err:" + err.Error()
	}
	other := func(stmts []string) error {
		odb, err := sqliteOpen(devPath, false)
		if err != nil {
			return err
		}
		defer odb.Close()
		for _, s := range stmts {
			if _, err := odb.Exec(s); err != nil {
				return fmt.Errorf("other writer: %s: %w", s, err)
			}
		}
		return nil
	}
	r.o1 = session(c.s1)
	_, objs, _, err := dump(devPath)
	if err != nil {
		r.err = err
		return
	}
	r.empty1 = objs == 0
	if err := other(c.foreign); err != nil {
		r.err = err
		return
	}
	before, _, _, err := dump(devPath)
	if err != nil {
		r.err = err
		return
	}
	bytesBefore := fileBytes(devPath)
	cdb.mu.Lock()
	n0 := cdb.all
	cdb.mu.Unlock()
	r.o2 = session(c.s2)
	cdb.mu.Lock()
	r.execs2 = cdb.all - n0
	cdb.mu.Unlock()
	after, objs2, _, err := dump(devPath)
	if err != nil {
		r.err = err
		return
	}
	r.same2 = before == after
	r.byte2 = bytes.Equal(bytesBefore, fileBytes(devPath))
	if len(c.foreign) == 0 {
		r.same2 = objs2 == 0
	}
	if c.third {
		for _, f := range foreignSets {
			if f.name == c.fname {
				if err := other(f.drop); err != nil {
					r.err = err
					return
				}
			}
		}
		r.o3 = session(c.s2)
		_, objs3, _, err := dump(devPath)
		if err != nil {
			r.err = err
			return
		}
		r.empty3 = objs3 == 0
	}
	return
}

func scenMain(w *out.W, tier, tmpRoot string) int {
	var cs []*scenCase
	kinds1 := []string{"replay", "replay-fail", "norm-s", "norm-r"}
	kinds2 := []string{"replay", "norm-s", "norm-r"}
	for _, k1 := range kinds1 {
		for _, k2 := range kinds2 {
			for _, f := range foreignSets {
				for _, third := range []bool{false, true} {
					cs = append(cs, &scenCase{s1: k1, s2: k2, foreign: f.sql, fname: f.name, third: third, sameExec: k1 == "replay" && k2 == "replay"})
				}
			}
			cs = append(cs, &scenCase{s1: k1, s2: k2, fname: "none", sameExec: k1 == "replay" && k2 == "replay"})
		}
	}
	// replay twice with two Executor objects on the same driver
	for _, f := range foreignSets {
		cs = append(cs, &scenCase{s1: "replay", s2: "replay", foreign: f.sql, fname: f.name})
	}
	for i, c := range cs {
		c.id = fmt.Sprintf("s%04d", i)
	}
	results := make([]scenResult, len(cs))
	parallel(len(cs), func(i int) { results[i] = runScen(cs[i], tmpRoot) })
	w.Rule = "non-trivial = another writer put content into the dev file between two sessions of the same driver object; key = case id"
	w.Exhaust = true
	bad := 0
	for i, c := range cs {
		r := &results[i]
		if r.err != nil {
			bad++
			fmt.Fprintf(os.Stderr, "case %s: harness error: %v\n", c.id, r.err)
			w.Violation(c.id, "harness-error", r.err.Error())
			continue
		}
		what := fmt.Sprintf("s1=%s s2=%s foreign=%s sameExec=%v third=%v => o1=%s empty1=%v o2=%s execs2=%d same2=%v bytes2=%v o3=%s empty3=%v",
			c.s1, c.s2, c.fname, c.sameExec, c.third, r.o1, r.empty1, r.o2, r.execs2, r.same2, r.byte2, r.o3, r.empty3)
		w.ImplOnly(c.id, what)
		w.Count("s1/" + c.s1)
		w.Count("s2/" + c.s2)
		w.Count("foreign/" + c.fname)
		w.Count("o2/" + strings.SplitN(r.o2, ":", 2)[0])
		if len(c.foreign) > 0 {
			w.NonTrivial(c.id)
		}
		ctxt := "reuse " + what
		if !r.empty1 {
			w.Violation(c.id, "dev-not-handed-back-empty", ctxt+": not empty after the first session")
		}
		if strings.HasPrefix(r.o1, "err:") || strings.HasPrefix(r.o2, "err:") || strings.HasPrefix(r.o3, "err:") {
			w.Violation(c.id, "unclassified-error", ctxt)
		}
		if len(c.foreign) > 0 {
			if !r.same2 || !r.byte2 || r.execs2 != 0 {
				w.Violation(c.id, "nonempty-dev-damaged", ctxt+": the second session of the same driver object wrote to a dev database that another writer had filled")
			} else if r.o2 != "refused" {
				w.Violation(c.id, "nonempty-dev-not-refused", ctxt+": the second session did not refuse the foreign content (stale verdict)")
			}
			if c.third && (r.o3 == "refused" || !r.empty3) {
				w.Violation(c.id, "clean-dev-refused", ctxt+": after the foreign content was removed the third session must be accepted and end empty")
			}
		} else if r.o2 != "ok" || !r.same2 {
			w.Violation(c.id, "dev-not-handed-back-empty", ctxt+": second session on the untouched empty file")
		}
	}
	catalogueGuard(w)
	if bad > 0 {
		return 1
	}
	return 0
}

// ---- catalogue guard (round 5, goal 3): which commands of the binary under test take --dev-url.
// The session catalogue of the model (sessions_of: validate, lint, diff, schema diff/apply/inspect;
// Planner.Checkpoint through the API) must cover exactly these; a new command with a dev database
// makes this stage fail until it is modelled.
var devURLCatalogue = []string{"migrate diff", "migrate lint", "migrate validate", "schema apply", "schema diff", "schema inspect"}

func helpOf(bin string, args ...string) string {
	cmd := exec.Command(bin, append(args, "--help")...)
	cmd.Env = append(os.Environ(), "ATLAS_NO_UPDATE_NOTIFIER=1")
	b, _ := cmd.CombinedOutput()
	return string(b)
}

func subcommands(help string) []string {
	var l []string
	in := false
	for _, ln := range strings.Split(help, "\n") {
		switch {
		case strings.HasPrefix(ln, "Available Commands:"):
			in = true
		case in && strings.TrimSpace(ln) == "":
			in = false
		case in:
			if f := strings.Fields(ln); len(f) > 0 {
				l = append(l, f[0])
			}
		}
	}
	return l
}

func catalogueGuard(w *out.W) {
	bin := os.Getenv("ATLAS_BIN")
	if _, err := os.Stat(bin); err != nil {
		w.Violation("catalogue", "harness-error", "ATLAS_BIN not found")
		return
	}
	var got []string
	for _, g := range subcommands(helpOf(bin)) {
		if g == "help" || g == "completion" {
			continue
		}
		subs := subcommands(helpOf(bin, g))
		for _, s := range subs {
			if strings.Contains(helpOf(bin, g, s), "--dev-url") {
				got = append(got, g+" "+s)
			}
		}
		if len(subs) == 0 && strings.Contains(helpOf(bin, g), "--dev-url") {
			got = append(got, g)
		}
	}
	sort.Strings(got)
	w.ImplOnly("catalogue", "commands with --dev-url: "+strings.Join(got, ", "))
	w.Count(fmt.Sprintf("dev-url-commands/%d", len(got)))
	if strings.Join(got, ",") != strings.Join(devURLCatalogue, ",") {
		w.Violation("catalogue", "catalogue-incomplete", "commands taking --dev-url in the binary: ["+strings.Join(got, ", ")+"], modelled: ["+strings.Join(devURLCatalogue, ", ")+"]")
	}
}
