package main

import (
	"fmt"
	"os"

	"verifharness/internal/out"
)

func extraMain(mode string, w *out.W, tier, tmpRoot string) int {
	switch mode {
	case "scen":
		return scenMain(w, tier, tmpRoot)
	}
	fmt.Fprintln(os.Stderr, "mode not built yet:", mode)
	return 2
}

func scenMain(w *out.W, tier, tmpRoot string) int { return 2 }
