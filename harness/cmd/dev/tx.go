package main

// Stage tx (round 5): migration scripts that carry their own BEGIN / COMMIT /
// ROLLBACK, replayed by the real Executor.Replay on a real SQLite file (the
// statements reach the connection exactly as `migrate validate` sends them;
// a handful of scripts are also run through the real binary).  Model:
// coq/theories/Dev/DevTxModel.v (tx_session).  Observation: outcome, tables
// left in the file after the connection is closed (independent reader).

import (
	"context"
	"database/sql"
	"errors"
	"fmt"
	"os"
	"os/exec"
	"path/filepath"
	"sort"
	"strings"
	"sync"

	"ariga.io/atlas/sql/migrate"
	"ariga.io/atlas/sql/schema"
	"ariga.io/atlas/sql/sqlite"

	"verifharness/internal/out"
)

type txCase struct {
	id    string
	file  []int    // tables the dev file holds at the start
	ss    []string // B C R X T<n>
	cli   bool
	label string
}

func (c *txCase) line() string {
	var b strings.Builder
	fmt.Fprintf(&b, "%d", len(c.file))
	for _, t := range c.file {
		fmt.Fprintf(&b, " %d", t)
	}
	fmt.Fprintf(&b, " %d", len(c.ss))
	for _, s := range c.ss {
		b.WriteString(" " + s)
	}
	return b.String()
}

func txSQL(s string) string {
	switch s {
	case "B":
		return "BEGIN"
	case "C":
		return "COMMIT"
	case "R":
		return "ROLLBACK"
	case "X":
		return "INSERT INTO nosuch VALUES (1)"
	}
	return fmt.Sprintf("CREATE TABLE t%s (id INTEGER PRIMARY KEY, v TEXT)", s[1:])
}

// countDB counts the successful ExecContext calls of the script (restore statements excluded).
type countDB struct {
	db  *sql.DB
	mu  sync.Mutex
	ok  int
	all int // every ExecContext issued
}

func (f *countDB) ExecContext(ctx context.Context, q string, args ...any) (sql.Result, error) {
	f.mu.Lock()
	f.all++
	f.mu.Unlock()
	r, err := f.db.ExecContext(ctx, q, args...)
	if err == nil && !isRestoreStmt(q) {
		f.mu.Lock()
		f.ok++
		f.mu.Unlock()
	}
	return r, err
}
func (f *countDB) QueryContext(ctx context.Context, q string, args ...any) (*sql.Rows, error) {
	return f.db.QueryContext(ctx, q, args...)
}

var _ schema.ExecQuerier = (*countDB)(nil)

func txTables(path string) (string, int, error) {
	if fi, err := os.Stat(path); err != nil || fi.Size() == 0 {
		return "-", 0, nil
	}
	db, err := sqliteOpen(path, true)
	if err != nil {
		return "", 0, err
	}
	defer db.Close()
	rows, err := db.Query("SELECT name FROM sqlite_master")
	if err != nil {
		return "", 0, err
	}
	defer rows.Close()
	var ids []int
	n := 0
	for rows.Next() {
		var name string
		if err := rows.Scan(&name); err != nil {
			return "", 0, err
		}
		n++
		var k int
		if _, err := fmt.Sscanf(name, "t%d", &k); err != nil {
			return "", 0, fmt.Errorf("unexpected object %q", name)
		}
		ids = append(ids, k)
	}
	if n == 0 {
		return "-", 0, nil
	}
	sort.Ints(ids)
	var ss []string
	for _, k := range ids {
		ss = append(ss, fmt.Sprint(k))
	}
	return strings.Join(ss, ","), n, nil
}

type txResult struct {
	outcome, tabs, output string
	left                  int
	err                   error
}

func runTx(c *txCase, bin, tmpRoot string) (r txResult) {
	root, err := os.MkdirTemp(tmpRoot, "c14t-")
	if err != nil {
		r.err = err
		return
	}
	defer os.RemoveAll(root)
	devPath := filepath.Join(root, "dev.db")
	if len(c.file) > 0 {
		db, err := sqliteOpen(devPath, false)
		if err != nil {
			r.err = err
			return
		}
		for _, t := range c.file {
			if _, err := db.Exec(fmt.Sprintf("CREATE TABLE t%d (id INTEGER PRIMARY KEY, v TEXT)", t)); err != nil {
				r.err = err
				return
			}
			db.Exec(fmt.Sprintf("INSERT INTO t%d (v) VALUES ('x')", t))
		}
		db.Close()
	}
	var text strings.Builder
	for _, s := range c.ss {
		text.WriteString(txSQL(s) + ";\n")
	}
	var nerr error
	okCalls := -1
	if c.cli {
		migDir := filepath.Join(root, "migrations")
		os.MkdirAll(migDir, 0o755)
		d, err := migrate.NewLocalDir(migDir)
		if err != nil {
			r.err = err
			return
		}
		d.WriteFile("1_f1.sql", []byte(text.String()))
		sum, _ := d.Checksum()
		migrate.WriteSumFile(d, sum)
		cmd := exec.Command(bin, "migrate", "validate", "--dir", "file://"+migDir, "--dev-url", "sqlite://"+devPath)
		cmd.Dir = root
		cmd.Env = append(os.Environ(), "ATLAS_NO_UPDATE_NOTIFIER=1", "HOME="+root)
		outb, err := cmd.CombinedOutput()
		r.output = string(outb)
		if err != nil {
			nerr = errors.New(r.output)
		}
	} else {
		db, err := sql.Open("sqlite3", "file:"+devPath+"?_busy_timeout=200")
		if err != nil {
			r.err = err
			return
		}
		cdb := &countDB{db: db}
		drv, err := sqlite.Open(cdb)
		if err != nil {
			r.err = err
			return
		}
		md := &migrate.MemDir{}
		md.WriteFile("1_f1.sql", []byte(text.String()))
		sum, _ := md.Checksum()
		migrate.WriteSumFile(md, sum)
		ex, err := migrate.NewExecutor(drv, md, migrate.NopRevisionReadWriter{})
		if err != nil {
			r.err = err
			return
		}
		_, nerr = ex.Replay(context.Background(), migrate.SchemaConn(drv, "", nil))
		if errors.Is(nerr, migrate.ErrNoPendingFiles) {
			nerr = nil
		}
		db.Close()
		okCalls = cdb.ok
		if nerr != nil {
			r.output = nerr.Error()
		}
	}
	switch {
	case nerr == nil:
		r.outcome = "ok"
	case strings.Contains(r.output, "connected database is not clean"):
		r.outcome = "refused"
	case strings.Contains(r.output, "executing statement"):
		k := okCalls
		if k < 0 { // cli: find the failing statement by its text (the first statement that can be the one quoted)
			k = -1
			for i, s := range c.ss {
				if strings.Contains(r.output, fmt.Sprintf("executing statement %q", txSQL(s)+";")) {
					// the i-th is a candidate; the harness' cli scripts have no repeated statement before the failing one
					k = i
					break
				}
			}
		}
		r.outcome = fmt.Sprintf("fail:%d", k)
	case strings.Contains(r.output, "cannot VACUUM from within a transaction"):
		r.outcome = "rfail"
	default:
		r.outcome = "err:other"
	}
	r.tabs, r.left, err = txTables(devPath)
	if err != nil {
		r.err = err
	}
	return
}

func genTx(tier string) []*txCase {
	var cs []*txCase
	alpha := []string{"B", "C", "R", "T1", "T2", "X"}
	maxLen := 4
	if tier == "thorough" {
		maxLen = 5
	}
	n := 0
	add := func(c *txCase) {
		n++
		c.id = fmt.Sprintf("t%05d", n)
		cs = append(cs, c)
	}
	var rec func(pre []string, l int)
	rec = func(pre []string, l int) {
		add(&txCase{ss: append([]string(nil), pre...), label: "exh"})
		if l == 0 {
			return
		}
		for _, a := range alpha {
			rec(append(pre, a), l-1)
		}
	}
	rec(nil, maxLen)
	// longer hand-made scripts (the coordinator's report and relatives)
	for _, s := range [][]string{
		{"T1", "T2", "B", "T3", "X", "C"},
		{"B", "T1", "C", "B", "T2", "X", "C"},
		{"B", "T1", "C", "B", "T2", "C", "X"},
		{"T1", "B", "T2", "R", "B", "T3"},
		{"T1", "B", "T2", "R", "T3", "X"},
		{"B", "T1", "T2", "T3", "X", "C"},
	} {
		add(&txCase{ss: s, label: "hand"})
	}
	// non-empty start: refused whatever the script
	for _, s := range [][]string{{}, {"B"}, {"B", "T1", "C"}, {"T2", "B", "X"}, {"X"}, {"B", "X", "C"}} {
		add(&txCase{file: []int{7}, ss: s, label: "nonempty"})
		add(&txCase{file: []int{7, 9}, ss: s, label: "nonempty"})
	}
	// through the real binary
	for _, s := range [][]string{
		{"T1", "B", "X", "C"}, {"B", "T1", "X", "C"}, {"B", "T1", "C", "X"}, {"T1", "B", "T2"}, {"T1", "T2"},
		{"T1", "B", "T2", "R", "X"}, {"C"}, {"T1", "T2", "B", "T3", "X", "C"},
	} {
		add(&txCase{ss: s, cli: true, label: "cli"})
	}
	add(&txCase{file: []int{7}, ss: []string{"B", "X"}, cli: true, label: "cli-nonempty"})
	return cs
}

func txMain(w *out.W, tier, tmpRoot string) int {
	cases := genTx(tier)
	bin := os.Getenv("ATLAS_BIN")
	if _, err := os.Stat(bin); err != nil {
		fmt.Fprintln(os.Stderr, "ATLAS_BIN not found:", bin)
		return 2
	}
	results := make([]txResult, len(cases))
	parallel(len(cases), func(i int) { results[i] = runTx(cases[i], bin, tmpRoot) })
	w.Rule = "non-trivial = the script contains a BEGIN/COMMIT/ROLLBACK, or the start is not empty, or a statement fails; key = case line"
	w.Exhaust = true
	bad := 0
	for i, c := range cases {
		r := &results[i]
		if r.err != nil {
			bad++
			fmt.Fprintf(os.Stderr, "case %s: harness error: %v\n", c.id, r.err)
			w.Violation(c.id, "harness-error", r.err.Error())
			continue
		}
		line := c.line()
		w.Case(c.id, line, []string{fmt.Sprintf("out=%s tabs=%s", r.outcome, r.tabs)})
		w.Count("label/" + c.label)
		w.Count("outcome/" + strings.SplitN(r.outcome, ":", 2)[0])
		if r.left > 0 && len(c.file) == 0 {
			w.Count("left-dirty")
		}
		if r.outcome != "ok" || len(c.file) > 0 || strings.ContainsAny(strings.Join(c.ss, ""), "BCR") {
			w.NonTrivial(line)
		}
		ctxt := fmt.Sprintf("script=%s via=%s outcome=%s left=%s", strings.Join(c.ss, ";"), map[bool]string{true: "cli", false: "api"}[c.cli], r.outcome, r.tabs)
		switch {
		case len(c.file) > 0:
			var want []string
			for _, t := range c.file {
				want = append(want, fmt.Sprint(t))
			}
			if r.tabs != strings.Join(want, ",") {
				w.Violation(c.id, "nonempty-dev-damaged", "tx "+ctxt+": the dev database was not empty and was modified")
			} else if r.outcome != "refused" {
				w.Violation(c.id, "nonempty-dev-not-refused", "tx "+ctxt+": the dev database was not empty and was not refused")
			}
		case r.left > 0:
			// the restore failed because the script left a transaction open (by the error text of the real run)
			pre := "tx "
			if strings.Contains(r.output, "cannot VACUUM from within a transaction") {
				pre = "tx-open "
			}
			w.Violation(c.id, "dev-not-handed-back-empty", pre+ctxt+": the dev database was empty before and holds tables after the replay")
		}
		if strings.HasPrefix(r.outcome, "err:") || r.outcome == "fail:-1" {
			w.Violation(c.id, "unclassified-error", "tx "+ctxt+": "+strings.ReplaceAll(trunc(r.output, 300), "\n", " "))
		}
	}
	if bad > 0 {
		return 1
	}
	return 0
}
