package main

// The API stage: the exported entry points the commands are made of, run
// against a real SQLite file through an ExecQuerier that fails chosen
// ExecContext calls. This is how a fault reaches *every* statement of a body
// and every statement of the RestoreFunc (the CLI stage can only make
// statements fail by their own SQL), and how the normalisation sessions
// (sqlx.DevDriver, never reached by the CLI on SQLite) are run, sequenced as
// migrate.Planner sequences them.

import (
	"bytes"
	"context"
	"database/sql"
	"errors"
	"fmt"
	"os"
	"path/filepath"
	"strings"
	"sync"

	"ariga.io/atlas/sql/migrate"
	"ariga.io/atlas/sql/schema"
	"ariga.io/atlas/sql/sqlite"
	"ariga.io/atlas/sql/verifx"

	"verifharness/internal/rng"
)

// faultDB is the schema.ExecQuerier handed to sqlite.Open.
type faultDB struct {
	db *sql.DB
	mu sync.Mutex
	// streams as the model pops them: one bit per ExecContext of a body / of a RestoreFunc
	fs, rs     []bool
	body, rest int    // calls seen so far
	qs         []bool // one bit per read of the state inside an open session (its tablesQuery fails)
	reads      int
	// open: Snapshot's inspection succeeded (its sqlite_master query was seen) and no statement of a
	// RestoreFunc has been issued since. readOpen: its value when the last inspection of the
	// tables began (tablesQuery) -- a failing read is a read *of the session* (after its
	// statements) if the session was open then, otherwise it is Snapshot's own InspectRealm
	open, readOpen bool
}

const (
	faultBody    = "VERIF-FAULT-BODY"
	faultRestore = "VERIF-FAULT-RESTORE"
	faultRead    = "VERIF-FAULT-READ"
)

func isRestoreStmt(q string) bool {
	q = strings.TrimSpace(q)
	return strings.HasPrefix(q, "PRAGMA writable_schema") || strings.HasPrefix(q, "DELETE FROM sqlite_master") || strings.HasPrefix(q, "VACUUM")
}

func (f *faultDB) ExecContext(ctx context.Context, q string, args ...any) (sql.Result, error) {
	f.mu.Lock()
	var fail bool
	restore := isRestoreStmt(q)
	if restore {
		fail = f.rest < len(f.rs) && f.rs[f.rest]
		f.rest++
		f.open = false
	} else {
		fail = f.body < len(f.fs) && f.fs[f.body]
		f.body++
	}
	f.mu.Unlock()
	if fail {
		if restore {
			return nil, errors.New(faultRestore)
		}
		return nil, fmt.Errorf("%s: %s", faultBody, q)
	}
	return f.db.ExecContext(ctx, q, args...)
}

func (f *faultDB) QueryContext(ctx context.Context, q string, args ...any) (*sql.Rows, error) {
	f.mu.Lock()
	switch {
	case strings.Contains(q, "FROM sqlite_master WHERE `tbl_name` NOT LIKE"): // Driver.Snapshot's second check
		f.open = true
	case strings.Contains(q, "JOIN pragma_table_list(sqlite_master.name)"): // tablesQuery: an inspection begins
		f.readOpen = f.open
		if f.open { // a read of the session (Snapshot's own inspection is no op of a body)
			fail := f.reads < len(f.qs) && f.qs[f.reads]
			f.reads++
			if fail {
				f.mu.Unlock()
				return nil, errors.New(faultRead)
			}
		}
	}
	f.mu.Unlock()
	return f.db.QueryContext(ctx, q, args...)
}

// noAddSchema is the SQLite driver with "ADD SCHEMA main IF NOT EXISTS" as a
// no-op (SQLite's planner rejects AddSchema, so NormalizeRealm would stop
// before its first write otherwise).
type noAddSchema struct{ migrate.Driver }

func (d noAddSchema) ApplyChanges(ctx context.Context, changes []schema.Change, opts ...migrate.PlanOption) error {
	var cs []schema.Change
	for _, c := range changes {
		if _, ok := c.(*schema.AddSchema); !ok {
			cs = append(cs, c)
		}
	}
	return d.Driver.ApplyChanges(ctx, cs, opts...)
}

func hclSchema(ts []htable) *schema.Schema {
	s := schema.New("main")
	for _, t := range ts {
		v := schema.NewNullStringColumn("v", "text")
		if t.unins {
			v = schema.NewNullStringColumn("v", unparsableType)
		}
		tb := schema.NewTable(t.name).AddColumns(schema.NewIntColumn("id", "integer"), v)
		tb.SetPrimaryKey(schema.NewPrimaryKey(tb.Columns[0]))
		for _, i := range t.idx {
			tb.AddIndexes(schema.NewIndex(i.name).AddColumns(tb.Columns[1]))
		}
		s.AddTables(tb)
	}
	return s
}

// hclMarkers: plan position -> marker (CREATE TABLE, then its CREATE INDEXes, table by table)
func hclMarkers(ts []htable) []int {
	var l []int
	for _, t := range ts {
		l = append(l, t.m)
		for _, i := range t.idx {
			l = append(l, i.m)
		}
	}
	return l
}

// normalize is the closure of cmdext.stateReaderHCL on a driver that is a
// schema.Normalizer: NormalizeSchema if the dev URL is bound to a schema
// (norm "s"), else NormalizeRealm (norm "r"); none at all for norm "0".
func normalize(ctx context.Context, c *tcase, drv migrate.Driver, ts []htable) (*schema.Realm, error) {
	s := hclSchema(ts)
	switch c.norm {
	case "s":
		ns, err := verifx.NormalizeSchema(ctx, drv, s)
		if err != nil {
			return nil, err
		}
		return schema.NewRealm(ns), nil
	case "r":
		return verifx.NormalizeRealm(ctx, noAddSchema{drv}, schema.NewRealm(s))
	}
	return schema.NewRealm(s), nil
}

func memDir(files []mfile) (migrate.Dir, error) {
	d := &migrate.MemDir{}
	for i, f := range files {
		if err := d.WriteFile(fmt.Sprintf("%d_f%d.sql", i+1, i+1), []byte(fileText(f))); err != nil {
			return nil, err
		}
	}
	sum, err := d.Checksum()
	if err != nil {
		return nil, err
	}
	return d, migrate.WriteSumFile(d, sum)
}

// readSource is cmdapi.stateReader for one source: SQL sources are replayed at
// once (cmdext.stateReaderSQL), HCL sources are normalised on ReadState.
func readSource(ctx context.Context, c *tcase, drv migrate.Driver, s source) (migrate.StateReader, error) {
	switch s.kind {
	case "sql", "dir", "sdir":
		files := s.dir
		if s.kind == "sql" {
			files = []mfile{{stmts: s.sql}}
		}
		d, err := memDir(files)
		if err != nil {
			return nil, err
		}
		ex, err := migrate.NewExecutor(drv, d, migrate.NopRevisionReadWriter{})
		if err != nil {
			return nil, err
		}
		var sr migrate.StateReader = migrate.RealmConn(drv, nil)
		if c.excl {
			// as stateReaderSQL does for a dev URL bound to a schema (SQLite: always "main")
			sr = migrate.SchemaConn(drv, "", &schema.InspectOptions{Exclude: []string{"["}})
		}
		r, err := ex.Replay(ctx, sr)
		if err != nil && !errors.Is(err, migrate.ErrNoPendingFiles) {
			return nil, err
		}
		return migrate.Realm(r), nil
	case "hcl":
		return migrate.StateReaderFunc(func(ctx context.Context) (*schema.Realm, error) {
			return normalize(ctx, c, drv, s.hcl)
		}), nil
	case "url":
		return migrate.Realm(schema.NewRealm(hclSchema([]htable{{name: "tu"}}))), nil
	}
	return nil, errors.New("no source")
}

func runAPI(c *tcase, tmpRoot string) (r result) {
	root, err := os.MkdirTemp(tmpRoot, "c14a-")
	if err != nil {
		r.err = err
		return
	}
	defer os.RemoveAll(root)
	devPath := filepath.Join(root, "dev.db")
	if err := createStart(devPath, c); err != nil {
		r.err = err
		return
	}
	migDir := filepath.Join(root, "migrations")
	if err := writeMigrationDir(migDir, c.dir, true); err != nil {
		r.err = err
		return
	}
	before, objs, user, err := dump(devPath)
	if err != nil {
		r.err = err
		return
	}
	bytesBefore := fileBytes(devPath)
	dirBefore := snapDir(root)
	ctx := context.Background()
	// (a short busy timeout: a restore blocked by a read lock that an error path of the
	// inspection left on another pooled connection gives up after 0.2 s, not 5 s)
	db, err := sql.Open("sqlite3", "file:"+devPath+"?_busy_timeout=200")
	if err != nil {
		r.err = err
		return
	}
	fdb := &faultDB{db: db, fs: c.fs, rs: c.rs, qs: c.qs}
	drv, err := sqlite.Open(fdb)
	if err != nil {
		r.err = err
		return
	}
	run := func() error {
		switch c.cmd {
		case "validate": // migrateValidateRun
			dir, err := migrate.NewLocalDir(migDir)
			if err != nil {
				return err
			}
			ex, err := migrate.NewExecutor(drv, dir, migrate.NopRevisionReadWriter{})
			if err != nil {
				return err
			}
			if _, err := ex.Replay(ctx, migrate.SchemaConn(drv, "", nil)); err != nil && !errors.Is(err, migrate.ErrNoPendingFiles) {
				return err
			}
			return nil
		case "diff", "checkpoint": // migrateDiffRun / Planner.Checkpoint + WriteCheckpoint
			dir, err := migrate.NewLocalDir(migDir)
			if err != nil {
				return err
			}
			pl := migrate.NewPlanner(drv, dir)
			if c.cmd == "checkpoint" {
				plan, err := pl.CheckpointSchema(ctx, "ck")
				if err != nil {
					return err
				}
				return pl.WriteCheckpoint(plan, "")
			}
			desired, err := readSource(ctx, c, drv, c.to)
			if err != nil {
				return err
			}
			plan, err := pl.PlanSchema(ctx, "next", desired)
			switch {
			case errors.Is(err, migrate.ErrNoPlan):
				return nil
			case err != nil:
				return err
			}
			return pl.WritePlan(plan)
		case "sdiff": // schemaDiffRun + computeDiff
			from, err := readSource(ctx, c, drv, c.from)
			if err != nil {
				return err
			}
			to, err := readSource(ctx, c, drv, c.to)
			if err != nil {
				return err
			}
			if _, err := from.ReadState(ctx); err != nil {
				return err
			}
			_, err = to.ReadState(ctx)
			return err
		case "sapply", "sinspect": // stateReader(to|url) + ReadState
			s := c.to
			if c.cmd == "sinspect" {
				s = c.from
			}
			sr, err := readSource(ctx, c, drv, s)
			if err != nil {
				return err
			}
			_, err = sr.ReadState(ctx)
			return err
		}
		return errors.New("unknown api command")
	}
	nerr := run()
	db.Close()
	var (
		nc *migrate.NotCleanError
		ap interface{ Applied() int }
	)
	switch {
	case nerr == nil:
		r.outcome = "ok"
	case errors.As(nerr, &nc):
		r.outcome = "refused"
	default:
		r.output = nerr.Error()
		r.restoreReported = strings.Contains(r.output, faultRestore)
		if inspectErrRe.MatchString(r.output) || strings.Contains(r.output, faultRead) {
			// no statement failed, a read of the state did (checked before the markers: the
			// inspector quotes the CREATE statement, comment included)
			if fdb.readOpen {
				r.outcome = "ifail"
			} else {
				r.outcome = "snapfail"
			}
		} else if ms := markerRe.FindAllStringSubmatch(r.output, -1); len(ms) > 0 {
			r.outcome = "fail:" + ms[0][1]
		} else if errors.As(nerr, &ap) {
			// a statement of the normalisation plan: map the plan position to its marker
			mk := append(hclMarkers(c.from.hcl), hclMarkers(c.to.hcl)...)
			if c.from.kind == "hcl" && c.to.kind == "hcl" {
				// which of the two normalisations failed is told by the number of body calls made
				if fdb.body > len(hclMarkers(c.from.hcl)) || fromDone(c, fdb) {
					mk = hclMarkers(c.to.hcl)
				} else {
					mk = hclMarkers(c.from.hcl)
				}
			}
			if ap.Applied() < len(mk) {
				r.outcome = fmt.Sprintf("fail:%d", mk[ap.Applied()])
			} else {
				r.outcome = "err:other"
			}
		} else if strings.Contains(r.output, faultRestore) || lockedRe.MatchString(r.output) {
			r.outcome = "rfail"
		} else {
			r.outcome = "err:other"
		}
	}
	if r.outcome == "" {
		r.outcome = "err:other"
	}
	if strings.HasPrefix(r.outcome, "fail:") || r.outcome == "refused" {
		r.exit = 1
	} else if r.outcome != "ok" {
		r.exit = 1
	}
	after, objsAfter, _, err := dump(devPath)
	if err != nil {
		r.corrupt = err.Error()
		after, objsAfter = "UNREADABLE", -1
	}
	diffs := dirDiffs(dirBefore, snapDir(root))
	r.same = before == after
	r.empty = objsAfter == 0
	r.dirw = len(diffs) > 0
	r.dirDiff = strings.Join(diffs, ",")
	r.bytesSame = bytes.Equal(bytesBefore, fileBytes(devPath))
	r.startObjs, r.startUser = objs, user
	r.obs = fmt.Sprintf("out=%s same=%d empty=%d dirw=%d", r.outcome, b01(r.same), b01(r.empty), b01(r.dirw))
	// for the generator: how many calls a fault-free run makes
	r.bodyCalls, r.restCalls, r.readCalls = fdb.body, fdb.rest, fdb.reads
	return
}

// fromDone: in an HCL-HCL schema diff the second normalisation runs only after the
// first one's restore: more than four restore statements seen means it was reached.
func fromDone(c *tcase, f *faultDB) bool { return f.rest > 4 }

// ---------------------------------------------------------------- generator (api)

type apiBase struct {
	name string
	mk   func() *tcase
}

func mkTables(spec [][]string, m0 int) []htable {
	m := m0 - 1
	var ts []htable
	for _, s := range spec {
		m++
		t := htable{m: m, name: strings.TrimSuffix(s[0], "!"), unins: strings.HasSuffix(s[0], "!")}
		for _, i := range s[1:] {
			m++
			t.idx = append(t.idx, hidx{m, i})
		}
		ts = append(ts, t)
	}
	return ts
}

func genRunAPI(tier, tmpRoot string) ([]*tcase, []result) {
	var cs []*tcase
	// Not modelled: what a connection does after a RestoreFunc failed *after* its DELETE
	// (PRAGMA writable_schema = 0 / VACUUM failing): the file is empty but the connection's
	// schema cache still holds the deleted objects. A run goes on after a failed restore only
	// through NormalizeSchema (the error is dropped), i.e. in an HCL-HCL schema diff.
	stale := func(c *tcase) bool {
		return c.norm == "s" && c.cmd == "sdiff" && c.from.kind == "hcl" && c.to.kind == "hcl" &&
			((len(c.rs) > 2 && !c.rs[0] && !c.rs[1] && c.rs[2]) || (len(c.rs) > 3 && !c.rs[0] && !c.rs[1] && c.rs[3]))
	}
	add := func(c *tcase, label string) *tcase {
		c.label = label
		c.id = fmt.Sprintf("a%05d", len(cs))
		if c.from.kind == "" {
			c.from = source{kind: "none"}
		}
		if c.to.kind == "" {
			c.to = source{kind: "none"}
		}
		cs = append(cs, c)
		return c
	}
	empty := startByName("empty")
	specs := [][][]string{
		{{"t0", "i0"}, {"t1", "i1", "i2"}}, // succeeds
		{{"t0"}},                           // one table
		{},                                 // nothing to create
		{{"t0", "i0"}, {"t1", "i0"}},       // 2nd CREATE INDEX i0 fails (position 3)
		{{"t0", "i0", "i1"}, {"t1", "i2", "i1", "i3"}}, // fails at position 5
		{{"t0", "i0"}, {"t0", "i1"}},                   // 2nd CREATE TABLE t0 fails (position 2)
		{{"t0", "i0"}, {"t1"}, {"t2", "t1"}},           // index named like a table fails (position 4)
		{{"t0", "t0"}},                                 // index named like its own table (position 1)
		// "!": a column type SQLite accepts and the inspector cannot parse -> the inspection after ApplyChanges fails
		{{"t0!", "i0"}, {"t1", "i1"}},
		{{"t0", "i0"}, {"t1!"}},
		{{"t0!", "i0"}, {"t1", "i0"}}, // ... unless a statement fails first (position 3)
	}
	// the bases: one per command shape; each is then run with a fault at every call
	var bases []apiBase
	for _, norm := range []string{"r", "s"} {
		norm := norm
		for si, sp := range specs {
			sp, si := sp, si
			bases = append(bases, apiBase{fmt.Sprintf("sapply-hcl-%s-%d", norm, si), func() *tcase {
				return (&tcase{norm: norm, cmd: "sapply", to: source{kind: "hcl", hcl: mkTables(sp, 0)}}).setStart(empty)
			}})
		}
		bases = append(bases,
			apiBase{"diff-hcl-" + norm, func() *tcase {
				m := 0
				c := (&tcase{norm: norm, cmd: "diff", changes: true}).setStart(empty)
				c.dir = baseDir(&m, "")
				c.to = source{kind: "hcl", hcl: mkTables([][]string{{"t0", "i0"}, {"tz", "iz"}}, 900)}
				return c
			}},
			apiBase{"diff-ck-hcl-" + norm, func() *tcase {
				m := 0
				c := (&tcase{norm: norm, cmd: "diff", changes: true}).setStart(empty)
				c.dir = baseDir(&m, "ck")
				c.to = source{kind: "hcl", hcl: mkTables([][]string{{"t0", "i0", "i1"}}, 900)}
				return c
			}},
			apiBase{"sdiff-hcl-hcl-" + norm, func() *tcase {
				c := (&tcase{norm: norm, cmd: "sdiff"}).setStart(empty)
				c.from = source{kind: "hcl", hcl: mkTables([][]string{{"t0", "i0"}}, 800)}
				c.to = source{kind: "hcl", hcl: mkTables([][]string{{"t0", "i0"}, {"t1"}}, 900)}
				return c
			}},
			apiBase{"sdiff-sql-hcl-" + norm, func() *tcase {
				m := 0
				c := (&tcase{norm: norm, cmd: "sdiff"}).setStart(empty)
				c.from = mkSource("sql", &m, "tx")
				c.to = source{kind: "hcl", hcl: mkTables([][]string{{"t0", "i0"}, {"t1"}}, 900)}
				return c
			}},
			apiBase{"sinspect-hcl-" + norm, func() *tcase {
				c := (&tcase{norm: norm, cmd: "sinspect"}).setStart(empty)
				c.from = source{kind: "hcl", hcl: mkTables([][]string{{"t0", "i0"}, {"t1", "i1"}}, 800)}
				return c
			}},
		)
	}
	for _, shape := range []string{"", "ck", "long"} {
		shape := shape
		bases = append(bases,
			apiBase{"validate-" + shape, func() *tcase {
				m := 0
				c := (&tcase{norm: "0", cmd: "validate"}).setStart(empty)
				c.dir = baseDir(&m, shape)
				return c
			}},
			apiBase{"checkpoint-" + shape, func() *tcase {
				m := 0
				c := (&tcase{norm: "0", cmd: "checkpoint", changes: true}).setStart(empty)
				c.dir = baseDir(&m, shape)
				return c
			}},
		)
	}
	bases = append(bases,
		apiBase{"diff-sql", func() *tcase {
			m := 0
			c := (&tcase{norm: "0", cmd: "diff", changes: true}).setStart(empty)
			c.dir = baseDir(&m, "")
			c.to = mkSource("sql", &m, "tz")
			return c
		}},
		apiBase{"diff-url", func() *tcase {
			m := 0
			c := (&tcase{norm: "0", cmd: "diff", changes: true}).setStart(empty)
			c.dir = baseDir(&m, "")
			c.to = source{kind: "url"}
			return c
		}},
		apiBase{"sdiff-sdir-dir", func() *tcase {
			m := 0
			c := (&tcase{norm: "0", cmd: "sdiff"}).setStart(empty)
			c.from = mkSource("sdir", &m, "tx")
			c.to = mkSource("dir", &m, "tz")
			return c
		}},
	)
	// the exit "all statements succeeded, the read afterwards failed" for every command shape
	r3From := len(bases) // (quick: these bases meet a selection of the start states, see 1.)
	setStmt := func(sc []mstmt, k int, st stmt) { sc[k].s = st }
	for _, norm := range []string{"r", "s"} {
		norm := norm
		bases = append(bases,
			apiBase{"diff-hcl-U-" + norm, func() *tcase {
				m := 0
				c := (&tcase{norm: norm, cmd: "diff", changes: true}).setStart(empty)
				c.dir = baseDir(&m, "")
				c.to = source{kind: "hcl", hcl: mkTables([][]string{{"t0", "i0"}, {"tz!", "iz"}}, 900)}
				return c
			}},
			apiBase{"sdiff-hcl-hcl-Ufrom-" + norm, func() *tcase {
				c := (&tcase{norm: norm, cmd: "sdiff"}).setStart(empty)
				c.from = source{kind: "hcl", hcl: mkTables([][]string{{"t0!", "i0"}}, 800)}
				c.to = source{kind: "hcl", hcl: mkTables([][]string{{"t0", "i0"}, {"t1"}}, 900)}
				return c
			}},
			apiBase{"sdiff-hcl-hcl-Uto-" + norm, func() *tcase {
				c := (&tcase{norm: norm, cmd: "sdiff"}).setStart(empty)
				c.from = source{kind: "hcl", hcl: mkTables([][]string{{"t0", "i0"}}, 800)}
				c.to = source{kind: "hcl", hcl: mkTables([][]string{{"t0", "i0"}, {"t1!"}}, 900)}
				return c
			}},
			apiBase{"sinspect-hcl-U-" + norm, func() *tcase {
				c := (&tcase{norm: norm, cmd: "sinspect"}).setStart(empty)
				c.from = source{kind: "hcl", hcl: mkTables([][]string{{"t0", "i0"}, {"t1!", "i1"}}, 800)}
				return c
			}},
		)
	}
	for _, shape := range []string{"", "ck"} {
		shape := shape
		bases = append(bases,
			apiBase{"validate-U-" + shape, func() *tcase {
				m := 0
				c := (&tcase{norm: "0", cmd: "validate"}).setStart(empty)
				c.dir = baseDir(&m, shape)
				last := c.dir[len(c.dir)-1].stmts
				setStmt(last, 0, stmt{"ctu", last[0].s.a, "gen"}) // t1 in both shapes
				return c
			}},
			apiBase{"checkpoint-U-" + shape, func() *tcase {
				m := 0
				c := (&tcase{norm: "0", cmd: "checkpoint", changes: true}).setStart(empty)
				c.dir = baseDir(&m, shape)
				last := c.dir[len(c.dir)-1].stmts
				setStmt(last, len(last)-1, stmt{"ciu", "iu", "t1"})
				return c
			}},
		)
	}
	bases = append(bases,
		apiBase{"diff-sql-Uto", func() *tcase {
			m := 0
			c := (&tcase{norm: "0", cmd: "diff", changes: true}).setStart(empty)
			c.dir = baseDir(&m, "")
			c.to = mkSource("sql", &m, "tz")
			setStmt(c.to.sql, 2, stmt{"ctu", "tz", ""})
			return c
		}},
		apiBase{"diff-sql-Udir", func() *tcase {
			m := 0
			c := (&tcase{norm: "0", cmd: "diff", changes: true}).setStart(empty)
			c.dir = baseDir(&m, "")
			setStmt(c.dir[0].stmts, 1, stmt{"ciu", "i0", "t0"})
			c.to = mkSource("sql", &m, "tz")
			return c
		}},
		apiBase{"sdiff-sdir-dir-U", func() *tcase {
			m := 0
			c := (&tcase{norm: "0", cmd: "sdiff"}).setStart(empty)
			c.from = mkSource("sdir", &m, "tx")
			c.to = mkSource("dir", &m, "tz")
			last := c.to.dir[len(c.to.dir)-1].stmts
			setStmt(last, 0, stmt{"ctu", "tz", ""})
			return c
		}},
		apiBase{"sapply-sql-excl", func() *tcase {
			m := 0
			c := (&tcase{norm: "0", cmd: "sapply", excl: true}).setStart(empty)
			c.to = mkSource("sql", &m, "tz")
			return c
		}},
		apiBase{"sinspect-sdir-excl", func() *tcase {
			m := 0
			c := (&tcase{norm: "0", cmd: "sinspect", excl: true}).setStart(empty)
			c.from = mkSource("sdir", &m, "tx")
			return c
		}},
		apiBase{"sdiff-sql-sql-excl", func() *tcase {
			m := 0
			c := (&tcase{norm: "0", cmd: "sdiff", excl: true}).setStart(empty)
			c.from = mkSource("sql", &m, "tx")
			c.to = mkSource("sql", &m, "tz")
			return c
		}},
	)
	// 1. every base x every start state, no injected fault (quick: the shapes that open a
	//    normalisation session, the others are covered by the cli stage)
	r3Starts := map[string]bool{"absent": true, "empty": true, "bk-seq": true, "bk-seq-stat": true, "bk-wasm": true, "bk-wasm-idx": true,
		"tables": true, "combo-V": true, "combo-H": true, "combo-GX": true, "unread-table": true, "unread-index": true, "unread-gen-view": true, "unread-hidden": true}
	for bi, b := range bases {
		for _, st := range starts {
			if tier != "thorough" && !strings.Contains(b.name, "hcl") && strings.HasPrefix(st.name, "combo-") && len(st.name) > len("combo-X") {
				continue
			}
			if tier != "thorough" && bi >= r3From && !r3Starts[st.name] {
				continue
			}
			add(b.mk().setStart(st), "grid/"+b.name)
		}
	}
	// 2. every base on a clean start: run it fault-free, count the ExecContext calls, then
	//    fail every body call, every restore statement, and every body call together with
	//    the first / the second statement of the restore that follows
	probes := make([]result, len(bases))
	parallel(len(bases), func(i int) { probes[i] = runAPI(bases[i].mk(), tmpRoot) })
	upto := func(n int) []bool { return append(make([]bool, n), true) }
	cleanStarts := []startState{empty, startByName("absent"), startByName("bk-seq-stat")}
	n := 0
	for i, b := range bases {
		if probes[i].err != nil {
			c := add(b.mk(), "probe-error/"+b.name)
			c.label = "probe-error: " + probes[i].err.Error()
			continue
		}
		st := func() startState { n++; return cleanStarts[n%len(cleanStarts)] }
		for j := 0; j < probes[i].bodyCalls; j++ {
			c := add(b.mk().setStart(st()), "fault-body/"+b.name)
			c.fs = upto(j)
			for _, rs := range [][]bool{{true}, {false, true}, {false, false, false, true}} {
				c := add(b.mk().setStart(st()), "fault-body+restore/"+b.name)
				c.fs, c.rs = upto(j), rs
			}
		}
		for q := 0; q < probes[i].restCalls; q++ {
			c := add(b.mk().setStart(st()), "fault-restore/"+b.name)
			c.rs = upto(q)
		}
		// every read of the state inside a session hit by a fault (lost connection, I/O error between
		// the last statement and the inspection), alone and with a failing statement of the restore
		for q := 0; q < probes[i].readCalls; q++ {
			c := add(b.mk().setStart(st()), "fault-read/"+b.name)
			c.qs = upto(q)
			for _, rs := range [][]bool{{true}, {false, true}, {false, false, false, true}} {
				c := add(b.mk().setStart(st()), "fault-read+restore/"+b.name)
				c.qs, c.rs = upto(q), rs
			}
		}
	}
	// 3. seeded random normalisation specs (as in round 1) with random fault positions
	r := rng.FromEnv(0xC14A)
	nr := 150
	if tier == "thorough" {
		nr = 3000
	}
	for i := 0; i < nr; i++ {
		var sp [][]string
		nt := 1 + r.Intn(3)
		for t := 0; t < nt; t++ {
			row := []string{rng.Pick(r, []string{"t0", "t1", "t2", "t3", "t1!", "t2!"})}
			ni := r.Intn(3)
			for k := 0; k < ni; k++ {
				row = append(row, rng.Pick(r, []string{"i0", "i1", "i2", "i3", "t1"}))
			}
			sp = append(sp, row)
		}
		st := starts[r.Intn(6)]
		if r.Chance(1, 5) {
			st = starts[r.Intn(len(starts))]
		}
		c := (&tcase{norm: rng.Pick(r, []string{"r", "s"}), cmd: rng.Pick(r, []string{"sapply", "sinspect", "diff"})}).setStart(st)
		hs := source{kind: "hcl", hcl: mkTables(sp, 900)}
		switch c.cmd {
		case "sinspect":
			c.from = hs
		case "diff":
			m := 0
			c.dir = baseDir(&m, rng.Pick(r, []string{"", "ck"}))
			c.to, c.changes = hs, true
		default:
			c.to = hs
		}
		if r.Chance(1, 3) {
			c.fs = upto(r.Intn(8))
		}
		if r.Chance(1, 4) {
			c.rs = upto(r.Intn(6))
		}
		if r.Chance(1, 4) {
			c.qs = upto(r.Intn(3))
		}
		add(c, "random/"+c.cmd)
	}
	var kept []*tcase
	for _, c := range cs {
		if !stale(c) {
			kept = append(kept, c)
		}
	}
	cs = kept
	results := make([]result, len(cs))
	parallel(len(cs), func(i int) {
		if strings.HasPrefix(cs[i].label, "probe-error") {
			results[i].err = errors.New(cs[i].label)
			return
		}
		results[i] = runAPI(cs[i], tmpRoot)
	})
	return cs, results
}
