// Command dev checks property C14 (the dev database is never damaged) on the
// real code: it generates dev-database start states, migration directories and
// desired schemas with a failing statement at every position, runs every
// command that takes --dev-url through the real CLI binary ($ATLAS_BIN), dumps
// the dev database file and the migration directory before and after with an
// independent reader, writes the model's input (cases.txt), the observations
// (impl.txt) and evaluates the property itself on the observations (oracle.txt).
//
// Mode "cli": the real binary. Mode "api" (api.go): migrate.Executor.Replay,
// migrate.Planner.Plan/Checkpoint and sqlx.DevDriver.NormalizeSchema /
// NormalizeRealm (through the sql/verifx hook; the SQLite driver is not a
// schema.Normalizer, so the CLI never reaches them) against a real SQLite file
// opened through an ExecQuerier that makes the n-th ExecContext fail -- every
// statement of the bodies and every statement of the RestoreFunc.
package main

import (
	"bytes"
	"context"
	"database/sql"
	"encoding/hex"
	"encoding/json"
	"errors"
	"flag"
	"fmt"
	"os"
	"os/exec"
	"path/filepath"
	"regexp"
	"runtime"
	"sort"
	"strconv"
	"strings"
	"sync"
	"time"

	"ariga.io/atlas/sql/migrate"
	_ "ariga.io/atlas/sql/sqlite"
	_ "github.com/mattn/go-sqlite3"

	"verifharness/internal/out"
	"verifharness/internal/rng"
)

// ---------------------------------------------------------------- case structure

// ct ci cv cg dt dv di in bad, and the statements SQLite accepts whose result Atlas' inspector
// cannot parse: ctu (b = flavour: "" size | "gen"), ciu
type stmt struct{ op, a, b string }
type mstmt struct {
	m int
	s stmt
}
type mfile struct {
	ckpt  bool
	stmts []mstmt
}
type obj struct {
	kind, name, tbl string // kind: t i v g; "tu"/"iu" = a table / an index the inspector cannot parse
	rows            int
}
type hidx struct {
	m    int
	name string
}
type htable struct {
	m     int
	name  string
	idx   []hidx
	unins bool // a column type SQLite accepts and the inspector cannot parse
}
type source struct {
	kind string // none sql dir hcl
	sql  []mstmt
	dir  []mfile
	hcl  []htable
}
type tcase struct {
	id      string
	norm    string // "0": the driver is no schema.Normalizer; "r": NormalizeRealm; "s": NormalizeSchema
	cmd     string // validate lint diff sdiff sapply sinspect checkpoint
	latest  int
	changes bool
	excl    bool   // a malformed --exclude pattern ("[") is given (schema inspect/apply/diff)
	fs, rs  []bool // fault streams: ExecContext calls of the bodies / of the RestoreFuncs (true = fails)
	qs      []bool // fault stream of the reads of the state inside a session (api stage)
	start   string // name of the start state
	db      []obj
	setup   []string // SQL that creates the start state
	dir     []mfile
	from    source
	to      source
	// how the case is run (not part of the model input)
	via   string // cli: "" (flags) | "env" (atlas.hcl) | "git" (lint --git-base)
	ro    bool   // cli: read-only connection (?_query_only=1): every write fails
	busy  bool   // cli: dev URL with _busy_timeout=200 (a restore blocked by a leaked read lock gives up after 0.2 s instead of 5 s)
	label string // generator bucket
}

func hx(s string) string {
	if s == "" {
		return "-"
	}
	return hex.EncodeToString([]byte(s))
}

func (s stmt) tokens() string {
	switch s.op {
	case "ci", "cg", "ciu":
		return s.op + " " + hx(s.a) + " " + hx(s.b)
	case "bad":
		return "bad"
	default:
		return s.op + " " + hx(s.a)
	}
}

func (s stmt) sql(m int) string {
	mk := fmt.Sprintf("/*m%d*/", m)
	switch s.op {
	case "ct":
		return fmt.Sprintf("CREATE TABLE %s %s (id INTEGER PRIMARY KEY, v TEXT);", s.a, mk)
	case "ci":
		return fmt.Sprintf("CREATE INDEX %s %s ON %s (v);", s.a, mk, s.b)
	case "cv":
		return fmt.Sprintf("CREATE VIEW %s %s AS SELECT 1 AS x;", s.a, mk)
	case "cg":
		return fmt.Sprintf("CREATE TRIGGER %s %s AFTER INSERT ON %s BEGIN SELECT 1; END;", s.a, mk, s.b)
	case "dt":
		return fmt.Sprintf("DROP TABLE %s %s;", s.a, mk)
	case "dv":
		return fmt.Sprintf("DROP VIEW %s %s;", s.a, mk)
	case "di":
		return fmt.Sprintf("DROP INDEX %s %s;", s.a, mk)
	case "in":
		return fmt.Sprintf("INSERT INTO %s %s (id, v) VALUES (1, 'x');", s.a, mk)
	case "ctu":
		if s.b == "gen" { // setGenExpr's regexp does not know bracket quoting
			return fmt.Sprintf("CREATE TABLE %s %s (id INTEGER PRIMARY KEY, v TEXT, [g] INT AS (id + 1));", s.a, mk)
		}
		return fmt.Sprintf("CREATE TABLE %s %s (id INTEGER PRIMARY KEY, v %s);", s.a, mk, unparsableType) // "parse size"
	case "ciu": // addIndexes looks for WHERE right after the closing parenthesis of the key parts: a comment in between hides it
		return fmt.Sprintf("CREATE INDEX %s %s ON %s (v) /* partial */ WHERE v > 'a';", s.a, mk, s.b)
	default:
		return fmt.Sprintf("CREATE TABL oops %s;", mk)
	}
}

const unparsableType = "varchar(99999999999999999999)"

func mstmtsTokens(ss []mstmt) string {
	var b strings.Builder
	fmt.Fprintf(&b, "%d", len(ss))
	for _, s := range ss {
		fmt.Fprintf(&b, " %d %s", s.m, s.s.tokens())
	}
	return b.String()
}

func dirTokens(d []mfile) string {
	var b strings.Builder
	fmt.Fprintf(&b, "%d", len(d))
	for _, f := range d {
		ck := 0
		if f.ckpt {
			ck = 1
		}
		fmt.Fprintf(&b, " %d %s", ck, mstmtsTokens(f.stmts))
	}
	return b.String()
}

func (s source) tokens() string {
	switch s.kind {
	case "sql":
		return "sql " + mstmtsTokens(s.sql)
	case "dir", "sdir":
		return "dir " + dirTokens(s.dir)
	case "hcl":
		var b strings.Builder
		fmt.Fprintf(&b, "hcl %d", len(s.hcl))
		for _, t := range s.hcl {
			fmt.Fprintf(&b, " %d %s %d %d", t.m, hx(t.name), b01(t.unins), len(t.idx))
			for _, i := range t.idx {
				fmt.Fprintf(&b, " %d %s", i.m, hx(i.name))
			}
		}
		return b.String()
	case "url":
		return "url"
	default:
		return "none"
	}
}

func bitsTokens(bs []bool) string {
	var b strings.Builder
	fmt.Fprintf(&b, "%d", len(bs))
	for _, x := range bs {
		fmt.Fprintf(&b, " %d", b01(x))
	}
	return b.String()
}

func b01(b bool) int {
	if b {
		return 1
	}
	return 0
}

func (c *tcase) line() string {
	var b strings.Builder
	fmt.Fprintf(&b, "%s %s %d %d %d %s %s %s %d", c.norm, c.cmd, c.latest, b01(c.changes), b01(c.excl), bitsTokens(c.fs), bitsTokens(c.qs), bitsTokens(c.rs), len(c.db))
	for _, o := range c.db {
		fmt.Fprintf(&b, " %s %s %s %d %d", o.kind[:1], hx(o.name), hx(o.tbl), o.rows, b01(len(o.kind) == 1))
	}
	fmt.Fprintf(&b, " %s %s %s", dirTokens(c.dir), c.from.tokens(), c.to.tokens())
	return b.String()
}

// ---------------------------------------------------------------- start states

// A start state: the SQL that creates it and the sqlite_master rows (with row
// counts) the model is given. Virtual tables are rows of type 'table'; their
// shadow tables are not listed (they change no verdict: the database is not
// clean anyway).
type startState struct {
	name  string
	db    []obj
	setup []string
}

const tblCols = "(id INTEGER PRIMARY KEY, v TEXT)"

func rowsSQL(t string, n int) []string {
	var l []string
	for r := 1; r <= n; r++ {
		l = append(l, fmt.Sprintf("INSERT INTO %s (id, v) VALUES (%d, 'row%d')", t, r, r))
	}
	return l
}

// comboStart builds the database that has exactly the given features:
// T table, I index, V view, G trigger, X virtual table, H table with a name
// the inspection hides, R rows. Dependent objects hang on the hidden table if
// there is one, else on t9 (created when needed); a trigger next to a view is
// an INSTEAD OF trigger on the view (no table at all).
func comboStart(fe string) startState {
	has := func(c string) bool { return strings.Contains(fe, c) }
	st := startState{name: "combo-" + fe}
	carrier := ""
	rows := 0
	if has("R") {
		rows = 2
	}
	switch {
	case has("H"):
		carrier = "libsql_users"
	case has("T") || has("I") || (has("G") && !has("V")) || (has("R") && !has("X")):
		carrier = "t9"
	}
	if carrier != "" {
		st.setup = append(st.setup, "CREATE TABLE "+carrier+" "+tblCols)
		st.setup = append(st.setup, rowsSQL(carrier, rows)...)
		st.db = append(st.db, obj{"t", carrier, carrier, rows})
	}
	if has("H") && has("T") {
		st.setup = append(st.setup, "CREATE TABLE t9 "+tblCols)
		st.db = append(st.db, obj{"t", "t9", "t9", 0})
	}
	if has("X") {
		st.setup = append(st.setup, "CREATE VIRTUAL TABLE vt9 USING rtree(id, minx, maxx)")
		n := 0
		if carrier == "" {
			n = rows
		}
		for r := 1; r <= n; r++ {
			st.setup = append(st.setup, fmt.Sprintf("INSERT INTO vt9 VALUES (%d, %d, %d)", r, r, r+1))
		}
		st.db = append(st.db, obj{"t", "vt9", "vt9", n})
	}
	if has("I") {
		st.setup = append(st.setup, "CREATE INDEX i9 ON "+carrier+" (v)")
		st.db = append(st.db, obj{"i", "i9", carrier, 0})
	}
	if has("V") {
		st.setup = append(st.setup, "CREATE VIEW v9 AS SELECT 1 AS x")
		st.db = append(st.db, obj{"v", "v9", "v9", 0})
	}
	if has("G") {
		if has("V") {
			st.setup = append(st.setup, "CREATE TRIGGER g9 INSTEAD OF INSERT ON v9 BEGIN SELECT 1; END")
			st.db = append(st.db, obj{"g", "g9", "v9", 0})
		} else {
			st.setup = append(st.setup, "CREATE TRIGGER g9 AFTER INSERT ON "+carrier+" BEGIN SELECT 1; END")
			st.db = append(st.db, obj{"g", "g9", carrier, 0})
		}
	}
	return st
}

const wasm = "libsql_wasm_func_table"

var nameClasses = []struct{ slug, tbl string }{
	{"underscore", "_prisma_migrations"},
	{"digit", "1abc"},
	{"space", "my table"},
	{"mid-sqlite", "x_sqlite_y"},
	{"mid-libsql", "my_libsql_t"},
	{"SQLITE-6", "SQLITE"},                    // no underscore: not reserved, not hidden
	{"LIBSQL-upper", "LIBSQL_x"},              // hidden from the inspection (LIKE is case-insensitive), a user table all the same
	{"wasm-shorter", "libsql_wasm_func_tabl"}, // one letter short of the one exempted name
	{"revisions", "atlas_schema_revisions"},   // Atlas' own revision table (never created in a dev database by Atlas)
	{"dollar", "t$1"},
}

var starts = buildStarts()

func buildStarts() []startState {
	l := []startState{
		{name: "absent"},
		{name: "empty", setup: []string{"CREATE TABLE x (a)", "DROP TABLE x", "VACUUM"}},
		// what SQLite / `atlas schema clean` leave behind: engine bookkeeping only (accepted)
		{name: "bk-seq", db: []obj{{"t", "sqlite_sequence", "sqlite_sequence", 0}},
			setup: []string{"CREATE TABLE x (id INTEGER PRIMARY KEY AUTOINCREMENT)", "DROP TABLE x"}},
		{name: "bk-seq-stat", db: []obj{{"t", "sqlite_sequence", "sqlite_sequence", 0}, {"t", "sqlite_stat1", "sqlite_stat1", 0}},
			setup: []string{"CREATE TABLE x (id INTEGER PRIMARY KEY AUTOINCREMENT, v TEXT)", "CREATE INDEX xi ON x (v)", "INSERT INTO x (v) VALUES ('a')", "ANALYZE", "DROP TABLE x"}},
		{name: "bk-wasm", db: []obj{{"t", wasm, wasm, 0}},
			setup: []string{"CREATE TABLE " + wasm + " (name text PRIMARY KEY, body text) WITHOUT ROWID"}},
		{name: "bk-wasm-idx", db: []obj{{"t", wasm, wasm, 1}, {"i", "sqlite_autoindex_" + wasm + "_1", wasm, 0}},
			setup: []string{"CREATE TABLE " + wasm + " (name text PRIMARY KEY, body text)", "INSERT INTO " + wasm + " VALUES ('f', 'x')"}},
		// user databases
		{name: "tables", db: []obj{{"t", "t9", "t9", 2}, {"i", "i9", "t9", 0}, {"t", "t8", "t8", 0}},
			setup: append(append([]string{"CREATE TABLE t9 " + tblCols}, rowsSQL("t9", 2)...), "CREATE INDEX i9 ON t9 (v)", "CREATE TABLE t8 "+tblCols)},
		{name: "autoinc", db: []obj{{"t", "t9", "t9", 1}, {"t", "sqlite_sequence", "sqlite_sequence", 1}},
			setup: []string{"CREATE TABLE t9 (id INTEGER PRIMARY KEY AUTOINCREMENT, v TEXT)", "INSERT INTO t9 (v) VALUES ('a')"}},
		{name: "hidden-sqlitedb", db: []obj{{"t", "sqlitedb", "sqlitedb", 1}, {"i", "i9", "sqlitedb", 0}},
			setup: append(append([]string{"CREATE TABLE sqlitedb " + tblCols}, rowsSQL("sqlitedb", 1)...), "CREATE INDEX i9 ON sqlitedb (v)")},
		{name: "hidden-libsqlx", db: []obj{{"t", "libsqlx", "libsqlx", 0}}, setup: []string{"CREATE TABLE libsqlx " + tblCols}},
		{name: "hidden-wasm-upper", db: []obj{{"t", strings.ToUpper(wasm), strings.ToUpper(wasm), 0}}, setup: []string{"CREATE TABLE " + strings.ToUpper(wasm) + " " + tblCols}},
		{name: "hidden-wasm-longer", db: []obj{{"t", wasm + "x", wasm + "x", 1}}, setup: append([]string{"CREATE TABLE " + wasm + "x " + tblCols}, rowsSQL(wasm+"x", 1)...)},
		{name: "virtual-fts", db: []obj{{"t", "ft9", "ft9", 1}}, setup: []string{"CREATE VIRTUAL TABLE ft9 USING fts4(body)", "INSERT INTO ft9 (body) VALUES ('row1')"}},
		// user databases Snapshot's own InspectRealm cannot read (it fails before the verdict) ...
		{name: "unread-table", db: []obj{{"tu", "t9", "t9", 1}},
			setup: append([]string{"CREATE TABLE t9 (id INTEGER PRIMARY KEY, v " + unparsableType + ")"}, rowsSQL("t9", 1)...)},
		{name: "unread-index", db: []obj{{"t", "t9", "t9", 0}, {"iu", "i9", "t9", 0}},
			setup: []string{"CREATE TABLE t9 " + tblCols, "CREATE INDEX i9 ON t9 (v) /* partial */ WHERE v > 'a'"}},
		{name: "unread-gen-view", db: []obj{{"tu", "t9", "t9", 0}, {"v", "v9", "v9", 0}},
			setup: []string{"CREATE TABLE t9 (id INTEGER PRIMARY KEY, v TEXT, [g] INT AS (id + 1))", "CREATE VIEW v9 AS SELECT 1 AS x"}},
		// ... and one whose unparsable table the inspection never looks at (hidden name): refused as "not clean"
		{name: "unread-hidden", db: []obj{{"tu", "sqlitedb", "sqlitedb", 0}},
			setup: []string{"CREATE TABLE sqlitedb (id INTEGER PRIMARY KEY, v " + unparsableType + ")"}},
	}
	// what counts as "contains anything": user objects whose *names* a cleanliness check or an
	// inspection might be taught to skip -- leading underscore (tools' own tables), leading digit,
	// quoted names, "sqlite_"/"libsql_" in the middle, upper-case look-alikes of the hidden prefixes,
	// Atlas' own revision table; as tables with rows, and as lone views. (The engine itself rejects
	// SQLITE_FOO / Sqlite_foo: "object name reserved for internal use" -- reserved case-insensitively.)
	for _, nc := range nameClasses {
		q := "\"" + nc.tbl + "\""
		st := startState{name: "name-" + nc.slug, db: []obj{{"t", nc.tbl, nc.tbl, 2}},
			setup: []string{"CREATE TABLE " + q + " " + tblCols, "INSERT INTO " + q + " (id, v) VALUES (1, 'row1')", "INSERT INTO " + q + " (id, v) VALUES (2, 'row2')"}}
		l = append(l, st)
	}
	l = append(l,
		startState{name: "name-two-underscore", db: []obj{{"t", "_litestream_seq", "_litestream_seq", 1}, {"t", "_cf_KV", "_cf_KV", 0}, {"i", "_cf_idx", "_cf_KV", 0}},
			setup: append(append([]string{"CREATE TABLE _litestream_seq " + tblCols}, rowsSQL("_litestream_seq", 1)...), "CREATE TABLE _cf_KV "+tblCols, "CREATE INDEX _cf_idx ON _cf_KV (v)")},
		startState{name: "name-view-underscore", db: []obj{{"v", "_v", "_v", 0}}, setup: []string{"CREATE VIEW _v AS SELECT 1 AS x"}},
		startState{name: "name-view-sqlitev", db: []obj{{"v", "sqlitev", "sqlitev", 0}}, setup: []string{"CREATE VIEW sqlitev AS SELECT 1 AS x"}},
		startState{name: "name-view-mid", db: []obj{{"v", "v_sqlite_x", "v_sqlite_x", 0}}, setup: []string{"CREATE VIEW v_sqlite_x AS SELECT 1 AS x"}},
	)
	// every feature singly and every pair of features (exhaustive)
	fe := "TIVGXHR"
	for i := 0; i < len(fe); i++ {
		l = append(l, comboStart(fe[i:i+1]))
		for j := i + 1; j < len(fe); j++ {
			l = append(l, comboStart(fe[i:i+1]+fe[j:j+1]))
		}
	}
	return l
}

func startByName(n string) startState {
	for _, s := range starts {
		if s.name == n {
			return s
		}
	}
	panic(n)
}

func sqliteOpen(path string, ro bool) (*sql.DB, error) {
	dsn := "file:" + path
	if ro {
		dsn += "?mode=ro"
	}
	return sql.Open("sqlite3", dsn)
}

// startFiles caches the bytes of the start database per start state (the set-up SQL of a
// start state is fixed, so the file is built once and copied afterwards).
var startFiles sync.Map

// createStart writes the start database file (nothing for "absent").
func createStart(path string, c *tcase) error {
	if c.start == "absent" {
		return nil
	}
	if b, ok := startFiles.Load(c.start); ok {
		return os.WriteFile(path, b.([]byte), 0o644)
	}
	if err := buildStart(path, c); err != nil {
		return err
	}
	if b, err := os.ReadFile(path); err == nil {
		startFiles.Store(c.start, b)
	}
	return nil
}

func buildStart(path string, c *tcase) error {
	db, err := sqliteOpen(path, false)
	if err != nil {
		return err
	}
	defer db.Close()
	for _, s := range c.setup {
		if _, err := db.Exec(s); err != nil {
			return fmt.Errorf("%s: %w", s, err)
		}
	}
	return nil
}

// bookkeeping: the row belongs to a table of the engine itself (the property's
// "contains anything" does not count them; see Props_C14.v).
func bookkeeping(tbl string) bool {
	return strings.HasPrefix(strings.ToLower(tbl), "sqlite_") || tbl == wasm
}

// dump is the independent reader: sqlite_master plus every row of every table.
// objs is the number of sqlite_master rows, user the number of those that do
// not belong to a bookkeeping table of the engine.
func dump(path string) (text string, objs, user int, err error) {
	if fi, serr := os.Stat(path); serr != nil || fi.Size() == 0 {
		return "", 0, 0, nil
	}
	db, err := sqliteOpen(path, true)
	if err != nil {
		return "", 0, 0, err
	}
	defer db.Close()
	rows, err := db.Query("SELECT type, name, tbl_name, ifnull(sql, '') FROM sqlite_master ORDER BY type, name")
	if err != nil {
		return "", 0, 0, err
	}
	var b strings.Builder
	var tables []string
	for rows.Next() {
		var t, n, tn, s string
		if err := rows.Scan(&t, &n, &tn, &s); err != nil {
			rows.Close()
			return "", 0, 0, err
		}
		objs++
		if !bookkeeping(tn) {
			user++
		}
		fmt.Fprintf(&b, "%s|%s|%s|%s\n", t, n, tn, s)
		if t == "table" {
			tables = append(tables, n)
		}
	}
	rows.Close()
	for _, t := range tables {
		rs, err := db.Query(fmt.Sprintf("SELECT * FROM `%s` ORDER BY 1", t))
		if err != nil {
			return "", 0, 0, err
		}
		cols, _ := rs.Columns()
		for rs.Next() {
			vals := make([]any, len(cols))
			ptrs := make([]any, len(cols))
			for i := range vals {
				ptrs[i] = &vals[i]
			}
			if err := rs.Scan(ptrs...); err != nil {
				rs.Close()
				return "", 0, 0, err
			}
			fmt.Fprintf(&b, "row %s:", t)
			for _, v := range vals {
				if bs, ok := v.([]byte); ok {
					v = string(bs)
				}
				fmt.Fprintf(&b, " %v", v)
			}
			b.WriteString("\n")
		}
		rs.Close()
	}
	return b.String(), objs, user, nil
}

func fileBytes(path string) []byte {
	b, err := os.ReadFile(path)
	if err != nil {
		return nil
	}
	return b
}

// snapshot of a directory tree: relative path -> bytes
func snapDir(root string) map[string]string {
	m := map[string]string{}
	filepath.Walk(root, func(p string, info os.FileInfo, err error) error {
		if err != nil || info.IsDir() {
			return nil
		}
		rel, _ := filepath.Rel(root, p)
		b, _ := os.ReadFile(p)
		m[rel] = string(b)
		return nil
	})
	return m
}

// dirDiffs compares two snapshots; the dev/target database files, the process'
// own HOME/TMPDIR and git's metadata are not part of "the directory".
func dirDiffs(before, after map[string]string) []string {
	skip := func(k string) bool {
		for _, p := range []string{"dev.db", "target.db", "other.db", "home/", "tmp/", ".git/"} {
			if strings.HasPrefix(k, p) {
				return true
			}
		}
		return false
	}
	var diffs []string
	for k, v := range before {
		if skip(k) {
			continue
		}
		v2, ok := after[k]
		switch {
		case !ok:
			diffs = append(diffs, "removed:"+k)
		case v != v2:
			diffs = append(diffs, "changed:"+k)
		}
	}
	for k := range after {
		if _, ok := before[k]; !ok && !skip(k) {
			diffs = append(diffs, "added:"+k)
		}
	}
	sort.Strings(diffs)
	return diffs
}

// ---------------------------------------------------------------- writing inputs

func fileText(f mfile) string {
	var b strings.Builder
	if f.ckpt {
		b.WriteString("-- atlas:checkpoint\n\n")
	}
	for _, s := range f.stmts {
		b.WriteString(s.s.sql(s.m))
		b.WriteString("\n")
	}
	return b.String()
}

func writeMigrationDir(path string, d []mfile, sum bool) error {
	if err := os.MkdirAll(path, 0o755); err != nil {
		return err
	}
	for i, f := range d {
		name := fmt.Sprintf("%d_f%d.sql", i+1, i+1)
		if err := os.WriteFile(filepath.Join(path, name), []byte(fileText(f)), 0o644); err != nil {
			return err
		}
	}
	if !sum {
		return nil
	}
	ld, err := migrate.NewLocalDir(path)
	if err != nil {
		return err
	}
	hf, err := ld.Checksum()
	if err != nil {
		return err
	}
	return migrate.WriteSumFile(ld, hf)
}

func hclText(ts []htable) string {
	var b strings.Builder
	b.WriteString("schema \"main\" {}\n")
	for _, t := range ts {
		fmt.Fprintf(&b, "table %q {\n  schema = schema.main\n  column \"id\" {\n    type = integer\n  }\n  column \"v\" {\n    type = text\n    null = true\n  }\n  primary_key {\n    columns = [column.id]\n  }\n", t.name)
		for _, i := range t.idx {
			fmt.Fprintf(&b, "  index %q {\n    columns = [column.v]\n  }\n", i.name)
		}
		b.WriteString("}\n")
	}
	return b.String()
}

// writeSource materialises a source under root and returns its URL.
func writeSource(root, name string, s source) (string, error) {
	switch s.kind {
	case "sql":
		p := filepath.Join(root, name+".sql")
		return "file://" + p, os.WriteFile(p, []byte(fileText(mfile{stmts: s.sql})), 0o644)
	case "hcl":
		p := filepath.Join(root, name+".hcl")
		return "file://" + p, os.WriteFile(p, []byte(hclText(s.hcl)), 0o644)
	case "dir": // a migration directory (with atlas.sum)
		p := filepath.Join(root, name+"_migrations")
		return "file://" + p, writeMigrationDir(p, s.dir, true)
	case "sdir": // a schema directory: SQL files without a sum file, replayed in name order
		p := filepath.Join(root, name+"_schema")
		return "file://" + p, writeMigrationDir(p, s.dir, false)
	case "url": // another database, read by inspection
		p := filepath.Join(root, "other.db")
		db, err := sqliteOpen(p, false)
		if err != nil {
			return "", err
		}
		defer db.Close()
		_, err = db.Exec("CREATE TABLE tu " + tblCols)
		return "sqlite://" + p, err
	}
	return "", nil
}

// ---------------------------------------------------------------- running one CLI case

type result struct {
	obs             string
	outcome         string
	same            bool
	empty           bool
	dirw            bool
	bytesSame       bool
	startObjs       int // sqlite_master rows before
	startUser       int // ... that are not engine bookkeeping
	exit            int
	dirDiff         string
	output          string
	corrupt         string
	err             error
	bodyCalls       int // api stage: ExecContext calls of bodies / of RestoreFuncs seen
	restCalls       int
	readCalls       int  // api stage: reads of the state inside a session seen
	restoreReported bool // api stage: the returned error carries the injected restore failure
}

var (
	markerRe = regexp.MustCompile(`/\*m(\d+)\*/`)
	// the errors of Atlas' inspection (sql/sqlite/inspect.go, convert.go; schema.ExcludeRealm/ExcludeSchema)
	// on objects SQLite accepted: no statement failed, the read of the state did
	inspectErrRe = regexp.MustCompile(`parse size "|missing partial WHERE clause in|generation expression for column "|syntax error in pattern`)
	snapshotRe   = regexp.MustCompile(`taking database snapshot`)
	notCleanRe   = regexp.MustCompile(`connected database is not clean`)
	readonlyRe   = regexp.MustCompile(`attempt to write a readonly database`)
	lockedRe     = regexp.MustCompile(`database is locked|database table is locked`)
)

type lintReport struct {
	Steps []struct{ Name, Text, Error string }
	Files []struct{ Name, Error string }
}

var fileRe = regexp.MustCompile(`^(\d+)_f\d+\.sql$`)

func classify(c *tcase, exit int, output string) string {
	if notCleanRe.MatchString(output) {
		return "refused"
	}
	if exit != 0 && inspectErrRe.MatchString(output) {
		// (checked before the markers: the inspector quotes the CREATE statement, comment included)
		if snapshotRe.MatchString(output) {
			return "snapfail" // Snapshot's own InspectRealm: nothing was written yet
		}
		return "ifail"
	}
	var rep lintReport
	// (a lint run whose restore fails too ends with a plain error instead of the report)
	if c.cmd == "lint" && json.Unmarshal([]byte(output), &rep) == nil {
		for _, st := range rep.Steps {
			if st.Name != "Replay Migration Files" || st.Error == "" {
				continue
			}
			if m := markerRe.FindStringSubmatch(st.Error); m != nil {
				return "fail:" + m[1]
			}
			// DevLoader.base reports a failing statement of a base file by file only
			for _, f := range rep.Files {
				if m := fileRe.FindStringSubmatch(f.Name); m != nil && f.Error != "" {
					return "fail:file" + m[1]
				}
			}
			if readonlyRe.MatchString(st.Error) {
				return "rfail"
			}
			return "err:other"
		}
		return "ok" // diagnostics may make lint exit 1; the session itself completed
	}
	ms := markerRe.FindAllStringSubmatch(output, -1)
	if len(ms) > 0 && exit != 0 {
		first := ms[0][1]
		for _, m := range ms {
			if m[1] != first {
				return "err:multi"
			}
		}
		return "fail:" + first
	}
	if exit == 0 {
		return "ok"
	}
	if readonlyRe.MatchString(output) || lockedRe.MatchString(output) {
		// no statement failed, the restore did (read-only connection; or "database is locked": a
		// connection of the command's own pool still holds a lock, the RestoreFunc gave up after the
		// busy timeout) -- the oracle judges what is left in the file
		return "rfail"
	}
	return "err:other"
}

func gitRun(root string, args ...string) error {
	cmd := exec.Command("git", append([]string{"-C", root, "-c", "init.defaultBranch=master", "-c", "user.name=v", "-c", "user.email=v@example.invalid"}, args...)...)
	cmd.Env = []string{"GIT_CONFIG_GLOBAL=/dev/null", "GIT_CONFIG_NOSYSTEM=1", "HOME=" + filepath.Join(root, "home"), "PATH=" + os.Getenv("PATH")}
	if out, err := cmd.CombinedOutput(); err != nil {
		return fmt.Errorf("git %v: %v: %s", args, err, out)
	}
	return nil
}

func runCLI(c *tcase, bin, tmpRoot string) (r result) {
	root, err := os.MkdirTemp(tmpRoot, "c14-")
	if err != nil {
		r.err = err
		return
	}
	defer os.RemoveAll(root)
	for _, d := range []string{"tmp", "home"} {
		os.MkdirAll(filepath.Join(root, d), 0o755)
	}
	devPath := filepath.Join(root, "dev.db")
	if err := createStart(devPath, c); err != nil {
		r.err = fmt.Errorf("create start: %w", err)
		return
	}
	migDir := filepath.Join(root, "migrations")
	if err := writeMigrationDir(migDir, c.dir, true); err != nil {
		r.err = fmt.Errorf("write dir: %w", err)
		return
	}
	fromURL, err := writeSource(root, "from", c.from)
	if err != nil {
		r.err = err
		return
	}
	toURL, err := writeSource(root, "to", c.to)
	if err != nil {
		r.err = err
		return
	}
	devURL := "sqlite://" + devPath
	switch {
	case c.ro:
		devURL += "?_query_only=1"
	case c.busy:
		devURL += "?_busy_timeout=200"
	}
	var args []string
	switch c.cmd {
	case "validate":
		args = []string{"migrate", "validate", "--dir", "file://" + migDir, "--dev-url", devURL}
	case "lint":
		args = []string{"migrate", "lint", "--dir", "file://" + migDir, "--dev-url", devURL, "--format", "{{ json . }}"}
		if c.via == "git" {
			// the first len-latest files are on master, the latest ones are added on the branch
			if err := gitRun(root, "init", "-q"); err != nil {
				r.err = err
				return
			}
			base := []string{"add", "-f", "migrations/atlas.sum"}
			for i := 0; i < len(c.dir)-c.latest; i++ {
				base = append(base, fmt.Sprintf("migrations/%d_f%d.sql", i+1, i+1))
			}
			for _, a := range [][]string{base, {"commit", "-q", "--allow-empty", "-m", "base"}, {"checkout", "-q", "-b", "feature"}, {"add", "-f", "migrations"}, {"commit", "-q", "--allow-empty", "-m", "new"}} {
				if err := gitRun(root, a...); err != nil {
					r.err = err
					return
				}
			}
			args = append(args, "--git-base", "master", "--git-dir", root)
		} else {
			args = append(args, "--latest", strconv.Itoa(c.latest))
		}
	case "diff":
		args = []string{"migrate", "diff", "next", "--dir", "file://" + migDir, "--dev-url", devURL, "--to", toURL}
	case "sdiff":
		args = []string{"schema", "diff", "--dev-url", devURL, "--from", fromURL, "--to", toURL}
	case "sapply":
		args = []string{"schema", "apply", "--url", "sqlite://" + filepath.Join(root, "target.db"), "--dev-url", devURL, "--to", toURL, "--auto-approve"}
	case "sinspect":
		args = []string{"schema", "inspect", "--url", fromURL, "--dev-url", devURL}
	}
	if c.excl {
		args = append(args, "--exclude", "[")
	}
	if c.via == "env" {
		// the same command configured by a project file instead of flags
		var b strings.Builder
		fmt.Fprintf(&b, "env \"local\" {\n  dev = %q\n", devURL)
		if toURL != "" {
			fmt.Fprintf(&b, "  src = %q\n", toURL)
		}
		fmt.Fprintf(&b, "  migration {\n    dir = %q\n  }\n}\n", "file://"+migDir)
		cfg := filepath.Join(root, "atlas.hcl")
		if err := os.WriteFile(cfg, []byte(b.String()), 0o644); err != nil {
			r.err = err
			return
		}
		switch c.cmd {
		case "validate":
			args = []string{"migrate", "validate", "-c", "file://" + cfg, "--env", "local"}
		case "diff":
			args = []string{"migrate", "diff", "next", "-c", "file://" + cfg, "--env", "local"}
		}
	}
	before, objs, user, err := dump(devPath)
	if err != nil {
		r.err = fmt.Errorf("dump before: %w", err)
		return
	}
	bytesBefore := fileBytes(devPath)
	dirBefore := snapDir(root)

	ctx, cancel := context.WithTimeout(context.Background(), 120*time.Second)
	defer cancel()
	cmd := exec.CommandContext(ctx, bin, args...)
	cmd.Dir = root
	cmd.Env = []string{"ATLAS_NO_UPDATE_NOTIFIER=1", "TMPDIR=" + filepath.Join(root, "tmp"), "HOME=" + filepath.Join(root, "home"), "PATH=" + os.Getenv("PATH"), "ATLAS_NO_UPGRADE_SUGGESTIONS=1", "GIT_CONFIG_GLOBAL=/dev/null", "GIT_CONFIG_NOSYSTEM=1"}
	var ob bytes.Buffer
	cmd.Stdout, cmd.Stderr = &ob, &ob
	rerr := cmd.Run()
	exit := 0
	if rerr != nil {
		var ee *exec.ExitError
		if errors.As(rerr, &ee) {
			exit = ee.ExitCode()
		} else {
			r.err = rerr
			return
		}
	}
	if ctx.Err() != nil {
		r.err = fmt.Errorf("timeout: %v", args)
		return
	}
	after, objsAfter, _, err := dump(devPath)
	if err != nil {
		// the independent reader cannot read the file any more: the command damaged it
		r.corrupt = err.Error()
		after, objsAfter = "UNREADABLE", -1
	}
	bytesAfter := fileBytes(devPath)
	diffs := dirDiffs(dirBefore, snapDir(root))
	r.output = ob.String()
	r.exit = exit
	r.outcome = classify(c, exit, r.output)
	r.same = before == after
	r.empty = objsAfter == 0
	r.dirw = len(diffs) > 0
	r.dirDiff = strings.Join(diffs, ",")
	r.bytesSame = bytes.Equal(bytesBefore, bytesAfter)
	r.startObjs, r.startUser = objs, user
	r.obs = fmt.Sprintf("out=%s same=%d empty=%d dirw=%d", r.outcome, b01(r.same), b01(r.empty), b01(r.dirw))
	return
}

// ---------------------------------------------------------------- oracle: the property on the observation

// noSession: none of the command's sources needs the dev database (database
// URLs; HCL files on a driver that is no schema.Normalizer).
func noSession(c *tcase) bool {
	uses := func(s source) bool {
		switch s.kind {
		case "sql", "dir", "sdir":
			return true
		case "hcl":
			return c.norm != "0"
		}
		return false
	}
	switch c.cmd {
	case "sdiff":
		return !uses(c.from) && !uses(c.to)
	case "sapply":
		return !uses(c.to)
	case "sinspect":
		return !uses(c.from)
	}
	return false
}

func oracle(w *out.W, c *tcase, r *result) {
	ctxt := fmt.Sprintf("start=%s cmd=%s via=%s ro=%v latest=%d from=%s to=%s excl=%v exit=%d outcome=%s label=%s", c.start, c.cmd, c.via, c.ro, c.latest, c.from.kind, c.to.kind, c.excl, r.exit, r.outcome, c.label)
	if r.corrupt != "" {
		w.Violation(c.id, "dev-unreadable-after", ctxt+": the dev database file cannot be read after the command: "+r.corrupt)
		return
	}
	restoreFault := c.ro
	for _, b := range c.rs {
		restoreFault = restoreFault || b
	}
	switch {
	case r.startUser > 0:
		// contains something: refused, and then completely untouched
		if !r.same || !r.bytesSame {
			w.Violation(c.id, "nonempty-dev-damaged", ctxt+fmt.Sprintf(": the dev database held %d object(s) and was modified (logical dump equal=%v, bytes equal=%v, empty afterwards=%v)", r.startUser, r.same, r.bytesSame, r.empty))
		} else if r.outcome != "refused" && r.outcome != "snapfail" && !noSession(c) {
			w.Violation(c.id, "nonempty-dev-not-refused", ctxt+": the dev database was not empty and the command did not refuse it")
		}
	case restoreFault:
		// a statement of the RestoreFunc was made to fail: outside the property's quantifier
		// (decision in Props_C14.v); the correspondence still compares the final state
		if c.ro && !(r.same && r.bytesSame) {
			w.Violation(c.id, "readonly-dev-modified", ctxt+": read-only connection, yet the dev database file changed")
		}
		// decision C14_restore_always_runs: a database left dirty because the restore failed is
		// *reported* -- whatever else failed before (api stage; NormalizeSchema is known to drop it)
		if !c.ro && c.norm != "s" && !r.empty && !(r.same && r.bytesSame) && !r.restoreReported {
			w.Violation(c.id, "dirty-dev-not-reported", ctxt+": a statement of the restore failed, the dev database is left with content and the error returned does not mention the restore")
		}
	case r.outcome == "refused" || r.outcome == "snapfail":
		// nothing but engine bookkeeping (what `schema clean` leaves behind): Atlas must not refuse it
		w.Violation(c.id, "clean-dev-refused", ctxt+fmt.Sprintf(": the dev database held no user object (%d bookkeeping row(s)) and was refused", r.startObjs))
	case !r.empty && !(r.same && r.bytesSame):
		w.Violation(c.id, "dev-not-handed-back-empty", ctxt+": the dev database was empty before and is not empty after the command")
	}
	if r.dirw {
		ok := false
		if (c.cmd == "diff" || c.cmd == "checkpoint") && r.exit == 0 {
			// WritePlan / WriteCheckpoint: new file(s) in the migration directory and the sum file, nothing else
			ok = true
			for _, d := range strings.Split(r.dirDiff, ",") {
				if !(strings.HasPrefix(d, "added:migrations/") && strings.HasSuffix(d, ".sql")) && d != "changed:migrations/atlas.sum" {
					ok = false
				}
			}
		}
		if !ok {
			w.Violation(c.id, "dir-written", ctxt+": files written by the command: "+r.dirDiff)
		}
	}
	if strings.HasPrefix(r.outcome, "err:") {
		w.Violation(c.id, "unclassified-error", ctxt+": "+strings.ReplaceAll(trunc(r.output, 300), "\n", " "))
	}
}

func trunc(s string, n int) string {
	if len(s) > n {
		return s[:n]
	}
	return s
}

// ---------------------------------------------------------------- generator (cli)

// ms numbers the statements of one script: marker = 100*script + position,
// scripts being counted per case (directory files first, then the sources).
func ms(m *int, ss ...stmt) []mstmt {
	var o []mstmt
	*m = (*m/100 + 1) * 100
	for k, s := range ss {
		o = append(o, mstmt{*m + k, s})
	}
	return o
}

type variant struct {
	name   string
	cmd    string
	latest int
	shape  string // directory shape: "" two files, "ck" with a checkpoint, "long" four files (12 statements in the first), "ck2" two checkpoints
	from   string // none url sql dir sdir hcl
	to     string
	via    string
}

var variants = []variant{
	{"validate", "validate", 0, "", "none", "none", ""},
	{"validate-ck", "validate", 0, "ck", "none", "none", ""},
	{"validate-long", "validate", 0, "long", "none", "none", ""},
	{"validate-env", "validate", 0, "", "none", "none", "env"},
	{"lint-1", "lint", 1, "", "none", "none", ""},
	{"lint-all", "lint", 9, "", "none", "none", ""},
	{"lint-ck-all", "lint", 9, "ck", "none", "none", ""},
	{"lint-ck-2", "lint", 2, "ck", "none", "none", ""},
	{"lint-ck2-3", "lint", 3, "ck2", "none", "none", ""},
	{"lint-long-all", "lint", 9, "long", "none", "none", ""},
	{"lint-long-2", "lint", 2, "long", "none", "none", ""},
	{"lint-git-1", "lint", 1, "", "none", "none", "git"},
	{"lint-git-ck-2", "lint", 2, "ck", "none", "none", "git"},
	{"diff-sql", "diff", 0, "", "none", "sql", ""},
	{"diff-hcl", "diff", 0, "", "none", "hcl", ""},
	{"diff-url", "diff", 0, "", "none", "url", ""},
	{"diff-dir", "diff", 0, "", "none", "dir", ""},
	{"diff-ck-sql", "diff", 0, "ck", "none", "sql", ""},
	{"diff-env-sql", "diff", 0, "", "none", "sql", "env"},
	{"sdiff-sql-sql", "sdiff", 0, "", "sql", "sql", ""},
	{"sdiff-dir-hcl", "sdiff", 0, "", "dir", "hcl", ""},
	{"sdiff-hcl-sql", "sdiff", 0, "", "hcl", "sql", ""},
	{"sdiff-hcl-hcl", "sdiff", 0, "", "hcl", "hcl", ""},
	{"sdiff-url-sdir", "sdiff", 0, "", "url", "sdir", ""},
	{"sapply-sql", "sapply", 0, "", "none", "sql", ""},
	{"sapply-hcl", "sapply", 0, "", "none", "hcl", ""},
	{"sapply-sdir", "sapply", 0, "", "none", "sdir", ""},
	{"sinspect-sql", "sinspect", 0, "", "sql", "none", ""},
	{"sinspect-hcl", "sinspect", 0, "", "hcl", "none", ""},
}

// base inputs; every statement gets a fresh marker
func baseDir(m *int, shape string) []mfile {
	var f1 mfile
	if shape != "long" {
		f1 = mfile{stmts: ms(m, stmt{"ct", "t0", ""}, stmt{"ci", "i0", "t0"}, stmt{"cg", "g0", "t0"}, stmt{"in", "t0", ""})}
	}
	switch shape {
	case "ck":
		ck := mfile{ckpt: true, stmts: ms(m, stmt{"ct", "t0", ""}, stmt{"ci", "i0", "t0"}, stmt{"cv", "v1", ""})}
		f3 := mfile{stmts: ms(m, stmt{"ct", "t1", ""}, stmt{"in", "t1", ""})}
		return []mfile{f1, ck, f3}
	case "ck2":
		ck := mfile{ckpt: true, stmts: ms(m, stmt{"ct", "t0", ""}, stmt{"ci", "i0", "t0"})}
		f3 := mfile{stmts: ms(m, stmt{"ct", "t1", ""}, stmt{"in", "t1", ""})}
		ck2 := mfile{ckpt: true, stmts: ms(m, stmt{"ct", "t0", ""}, stmt{"ct", "t1", ""}, stmt{"cv", "v1", ""})}
		f5 := mfile{stmts: ms(m, stmt{"ci", "i1", "t1"})}
		return []mfile{f1, ck, f3, ck2, f5}
	case "long":
		// more than 10 statements in the first file: DevLoader.first takes its one-loop path
		l1 := mfile{stmts: ms(m, stmt{"ct", "t0", ""}, stmt{"ci", "i0", "t0"}, stmt{"ct", "t1", ""}, stmt{"ci", "i1", "t1"}, stmt{"cv", "v0", ""},
			stmt{"cg", "g0", "t0"}, stmt{"in", "t0", ""}, stmt{"in", "t1", ""}, stmt{"ct", "t2", ""}, stmt{"di", "i1", ""}, stmt{"dv", "v0", ""}, stmt{"cv", "v1", ""})}
		l2 := mfile{stmts: ms(m, stmt{"dt", "t2", ""}, stmt{"ct", "t3", ""}, stmt{"ci", "i3", "t3"})}
		l3 := mfile{stmts: ms(m, stmt{"cg", "g1", "t1"}, stmt{"ct", "t4", ""}, stmt{"in", "t3", ""}, stmt{"dt", "t0", ""})}
		l4 := mfile{stmts: ms(m, stmt{"cv", "v2", ""}, stmt{"ct", "t5", ""})}
		return []mfile{l1, l2, l3, l4}
	}
	f2 := mfile{stmts: ms(m, stmt{"cv", "v0", ""}, stmt{"ct", "t1", ""}, stmt{"ci", "i1", "t1"})}
	return []mfile{f1, f2}
}

func baseSQL(m *int, extra string) []mstmt {
	return ms(m, stmt{"ct", "t0", ""}, stmt{"ci", "i0", "t0"}, stmt{"ct", extra, ""}, stmt{"cv", "v2", ""})
}

func baseHCL(m *int, extra string) []htable {
	var ts []htable
	*m = (*m/100 + 1) * 100
	k := 0
	for _, n := range []string{"t0", extra} {
		t := htable{m: *m + k, name: n}
		t.idx = append(t.idx, hidx{*m + k + 1, "ix_" + n})
		k += 2
		ts = append(ts, t)
	}
	return ts
}

func mkSource(kind string, m *int, extra string) source {
	switch kind {
	case "sql":
		return source{kind: "sql", sql: baseSQL(m, extra)}
	case "hcl":
		return source{kind: "hcl", hcl: baseHCL(m, extra)}
	case "dir":
		return source{kind: "dir", dir: append(baseDir(m, ""), mfile{stmts: ms(m, stmt{"ct", extra, ""})})}
	case "sdir":
		return source{kind: "sdir", dir: []mfile{{stmts: ms(m, stmt{"ct", "t0", ""}, stmt{"ci", "i0", "t0"})}, {stmts: ms(m, stmt{"ct", extra, ""}, stmt{"cv", "v2", ""})}}}
	case "url":
		return source{kind: "url"}
	}
	return source{kind: "none"}
}

// failing replacements usable at a position (k = number of statements before it in the same script)
func failing(k int, which int) stmt {
	opts := []stmt{{"bad", "", ""}, {"dt", "zz", ""}, {"in", "zz", ""}, {"ci", "iz", "zz"}, {"di", "iz", ""}, {"dv", "vz", ""}}
	if k > 0 {
		opts = append(opts, stmt{"ct", "t0", ""}) // already exists
	}
	if k > 3 {
		opts = append(opts, stmt{"in", "t0", ""}) // UNIQUE constraint (or no such table)
	}
	return opts[which%len(opts)]
}

// scripts returns pointers to every statement list of the case that some session executes
func (c *tcase) scripts() []*[]mstmt {
	var l []*[]mstmt
	if c.cmd == "validate" || c.cmd == "lint" || c.cmd == "diff" || c.cmd == "checkpoint" {
		for i := range c.dir {
			l = append(l, &c.dir[i].stmts)
		}
	}
	for _, s := range []*source{&c.from, &c.to} {
		switch s.kind {
		case "sql":
			l = append(l, &s.sql)
		case "dir", "sdir":
			for i := range s.dir {
				l = append(l, &s.dir[i].stmts)
			}
		}
	}
	return l
}

func (c *tcase) setStart(st startState) *tcase {
	c.start, c.db, c.setup = st.name, st.db, st.setup
	return c
}

func build(v variant, st startState) *tcase {
	m := 0
	c := &tcase{norm: "0", cmd: v.cmd, latest: v.latest, changes: true, via: v.via}
	c.setStart(st)
	c.dir = baseDir(&m, v.shape)
	if v.cmd == "sdiff" || v.cmd == "sapply" || v.cmd == "sinspect" {
		c.dir = nil
	}
	c.from = mkSource(v.from, &m, "tx")
	c.to = mkSource(v.to, &m, "tz")
	return c
}

func allTrue(n int) []bool {
	l := make([]bool, n)
	for i := range l {
		l[i] = true
	}
	return l
}

func genCLI(tier string) []*tcase {
	var cs []*tcase
	add := func(c *tcase, label string) {
		c.label = label
		c.id = fmt.Sprintf("k%04d", len(cs))
		cs = append(cs, c)
	}
	thorough := tier == "thorough"
	// 1. every command x every start state, nothing failing
	for _, v := range variants {
		for _, st := range starts {
			add(build(v, st), "grid/"+v.name+"/"+st.name)
		}
	}
	// 2. every command x a failing statement at every position of every script, on a clean start
	n := 0
	cleanStarts := []startState{startByName("absent"), startByName("empty"), startByName("bk-seq")}
	for vi, v := range variants {
		probe := build(v, starts[0])
		for si := range probe.scripts() {
			for k := 0; k < len(*probe.scripts()[si]); k++ {
				kinds := 1
				if thorough {
					kinds = 8
				}
				for w := 0; w < kinds; w++ {
					st := cleanStarts[n%len(cleanStarts)]
					n++
					c := build(v, st)
					sc := c.scripts()[si]
					(*sc)[k].s = failing(k, vi+k+w)
					add(c, "fault/"+v.name)
				}
			}
		}
	}
	// 3. refused and bookkeeping-only starts with a failing statement in the first script
	for _, v := range variants {
		for _, sn := range []string{"combo-HR", "tables", "combo-V", "bk-seq-stat", "bk-wasm-idx"} {
			c := build(v, startByName(sn))
			if scs := c.scripts(); len(scs) > 0 {
				sc := scs[0]
				(*sc)[len(*sc)/2].s = stmt{"bad", "", ""}
			}
			add(c, "fault-nonempty/"+v.name)
		}
	}
	// 4. migrate diff with nothing to plan (directory already in sync)
	for _, st := range []string{"absent", "empty", "tables"} {
		m := 0
		c := (&tcase{norm: "0", cmd: "diff", changes: false}).setStart(startByName(st))
		c.dir = []mfile{{stmts: ms(&m, stmt{"ct", "t0", ""}, stmt{"ci", "i0", "t0"})}}
		c.to = source{kind: "sql", sql: ms(&m, stmt{"ct", "t0", ""}, stmt{"ci", "i0", "t0"})}
		add(c, "diff-synced")
	}
	// 5. read-only connection: every write and every statement of the restore fails
	for _, v := range variants {
		// (lint with base files: DevLoader.base reports a failing statement by file only, and
		// the plain error of a run whose restore fails as well does not even name the file)
		if v.via != "" || (v.cmd == "lint" && v.latest < 9) {
			continue
		}
		for _, sn := range []string{"empty", "bk-seq", "tables", "combo-H"} {
			c := build(v, startByName(sn))
			c.ro, c.fs, c.rs = true, allTrue(8), allTrue(8)
			add(c, "readonly/"+v.name)
		}
	}
	for _, sn := range []string{"empty", "bk-seq"} { // nothing to replay: only the restore fails
		c := (&tcase{norm: "0", cmd: "validate", changes: true}).setStart(startByName(sn))
		c.from, c.to = source{kind: "none"}, source{kind: "none"}
		c.ro, c.fs, c.rs = true, allTrue(8), allTrue(8)
		add(c, "readonly/empty-dir")
	}
	// 7. the exit "every statement succeeded, the read of the state afterwards failed": every
	//    command x every position of every script holds a statement whose result the inspector
	//    cannot parse -- (a) the statement itself in its unparsable form (CREATE TABLE -> unparsable
	//    column / bracket-quoted generated column, CREATE INDEX -> a comment before WHERE), (b) a fresh
	//    unparsable table in its place (what follows may fail: tells a read after every statement
	//    (DevLoader.nextStmts) from one read at the end (Replay, DevLoader.base/first)),
	//    (c) a fresh unparsable table that the next statement drops again; clean and
	//    bookkeeping-only starts in turn
	okStarts := []startState{startByName("absent"), startByName("empty"), startByName("bk-seq"), startByName("bk-seq-stat"), startByName("bk-wasm-idx")}
	flavours := []string{"", "gen"}
	for _, v := range variants {
		probe := build(v, starts[0])
		for si := range probe.scripts() {
			for k := 0; k < len(*probe.scripts()[si]); k++ {
				// (thorough: every form with both spellings of the unparsable table and two starts)
				reps := 1
				if thorough {
					reps = 4
				}
				for form := 0; form < 3*reps; form++ {
					st := okStarts[n%len(okStarts)]
					n++
					c := build(v, st)
					sc := c.scripts()[si]
					old := (*sc)[k].s
					switch form % 3 {
					case 0:
						switch old.op {
						case "ct":
							(*sc)[k].s = stmt{"ctu", old.a, flavours[n%2]}
						case "ci":
							(*sc)[k].s = stmt{"ciu", old.a, old.b}
						default:
							continue
						}
					case 1:
						(*sc)[k].s = stmt{"ctu", "uu", flavours[n%2]}
					case 2:
						if k+1 >= len(*sc) {
							continue
						}
						(*sc)[k].s = stmt{"ctu", "uu", flavours[n%2]}
						(*sc)[k+1].s = stmt{"dt", "uu", ""}
					}
					c.busy = n%3 != 0 // most of them with the short busy timeout in the URL
					add(c, "inspect/"+v.name)
				}
			}
		}
	}
	// 9. every command x every trigger of the exit once more, explicitly, on the file-backed dev
	//    database with a short busy timeout in the URL: an error path of the inspection that leaves its
	//    rows open keeps a read lock on the file, the deferred restore (another pooled connection)
	//    then fails with "database is locked" and the file keeps what the replay created
	for _, v := range variants {
		for ti, trig := range []string{"size", "gen", "index", "exclude"} {
			for _, st := range []startState{okStarts[(n+ti)%len(okStarts)], okStarts[(n+ti+2)%len(okStarts)]} {
				c := build(v, st)
				c.busy = true
				scs := c.scripts()
				if len(scs) == 0 {
					continue
				}
				sc := scs[len(scs)-1] // the last script: everything before it succeeded
				done := false
				switch trig {
				case "size", "gen":
					for k := range *sc {
						if (*sc)[k].s.op == "ct" {
							fl := ""
							if trig == "gen" {
								fl = "gen"
							}
							(*sc)[k].s, done = stmt{"ctu", (*sc)[k].s.a, fl}, true
							break
						}
					}
				case "index":
					for k := range *sc {
						if (*sc)[k].s.op == "ci" {
							(*sc)[k].s, done = stmt{"ciu", (*sc)[k].s.a, (*sc)[k].s.b}, true
							break
						}
					}
				case "exclude":
					if (v.cmd == "sdiff" || v.cmd == "sapply" || v.cmd == "sinspect") && v.from != "hcl" && v.to != "hcl" && v.from != "url" && v.to != "url" {
						c.excl, done = true, true
					}
				}
				if done {
					add(c, "lock/"+trig+"/"+v.name)
				}
			}
		}
		n++
	}
	// 8. a malformed --exclude pattern (schema inspect/apply/diff with SQL sources): the replay
	//    succeeds, the read fails iff there is a table to match the pattern against
	for _, v := range variants {
		if !(v.cmd == "sdiff" || v.cmd == "sapply" || v.cmd == "sinspect") || v.from == "hcl" || v.to == "hcl" || v.from == "url" || v.to == "url" {
			continue
		}
		for _, sn := range []string{"absent", "empty", "bk-seq", "bk-seq-stat", "bk-wasm-idx", "tables", "combo-V", "unread-table", "unread-hidden"} {
			c := build(v, startByName(sn))
			c.excl = true
			add(c, "exclude/"+v.name)
		}
		// a statement fails before the read is reached; only views are created (nothing to match)
		for form := 0; form < 3; form++ {
			c := build(v, okStarts[n%len(okStarts)])
			n++
			c.excl = true
			sc := c.scripts()[0]
			switch form {
			case 0:
				(*sc)[len(*sc)-1].s = stmt{"bad", "", ""}
			case 1:
				for k := range *sc {
					(*sc)[k].s = stmt{"cv", fmt.Sprintf("w%d", k), ""}
				}
			case 2:
				(*sc)[0].s = stmt{"ctu", (*sc)[0].s.a, ""}
			}
			add(c, "exclude/"+v.name)
		}
	}
	// 6. seeded random directories / sources
	r := rng.FromEnv(0xC14)
	nr := 120
	if thorough {
		nr = 2500
	}
	tables := []string{"t0", "t1", "t2"}
	randStmt := func() stmt {
		switch r.Intn(14) {
		case 12:
			return stmt{"ctu", rng.Pick(r, tables), rng.Pick(r, flavours)}
		case 13:
			return stmt{"ciu", rng.Pick(r, []string{"i0", "i1"}), rng.Pick(r, tables)}
		case 0, 1, 2:
			return stmt{"ct", rng.Pick(r, tables), ""}
		case 3, 4:
			return stmt{"ci", rng.Pick(r, []string{"i0", "i1"}), rng.Pick(r, tables)}
		case 5:
			return stmt{"cv", rng.Pick(r, []string{"v0", "v1", "t2"}), ""}
		case 6:
			return stmt{"cg", rng.Pick(r, []string{"g0", "g1"}), rng.Pick(r, tables)}
		case 7:
			return stmt{"dt", rng.Pick(r, tables), ""}
		case 8:
			return stmt{"in", rng.Pick(r, tables), ""}
		case 9:
			return stmt{"di", rng.Pick(r, []string{"i0", "i1"}), ""}
		case 10:
			return stmt{"dv", rng.Pick(r, []string{"v0", "v1"}), ""}
		default:
			if r.Chance(1, 3) {
				return stmt{"bad", "", ""}
			}
			return stmt{"ct", rng.Pick(r, tables), ""}
		}
	}
	randScript := func(m *int, max int) []mstmt {
		n := 1 + r.Intn(max)
		var ss []stmt
		for i := 0; i < n; i++ {
			ss = append(ss, randStmt())
		}
		return ms(m, ss...)
	}
	for i := 0; i < nr; i++ {
		v := variants[r.Intn(len(variants))]
		st := starts[0]
		if r.Chance(1, 4) {
			st = starts[r.Intn(len(starts))]
		} else if r.Bool() {
			st = starts[1+r.Intn(5)] // empty or engine bookkeeping only
		}
		m := 0
		c := (&tcase{norm: "0", cmd: v.cmd, changes: true, via: v.via}).setStart(st)
		if (v.cmd == "sdiff" || v.cmd == "sapply" || v.cmd == "sinspect") && v.from != "hcl" && v.to != "hcl" && v.from != "url" && v.to != "url" {
			c.excl = r.Chance(1, 5)
		}
		if v.cmd != "sdiff" && v.cmd != "sapply" && v.cmd != "sinspect" {
			nf := 1 + r.Intn(5)
			for f := 0; f < nf; f++ {
				c.dir = append(c.dir, mfile{ckpt: f > 0 && r.Chance(1, 4), stmts: randScript(&m, 5)})
			}
		}
		if v.cmd == "lint" {
			c.latest = 1 + r.Intn(5)
			if c.via == "git" && c.latest > len(c.dir) {
				c.latest = len(c.dir)
			}
		}
		mk := func(kind string, extra string) source {
			switch kind {
			case "sql":
				s := source{kind: "sql", sql: randScript(&m, 4)}
				s.sql = append(s.sql, ms(&m, stmt{"ct", extra, ""})...)
				return s
			case "dir":
				return source{kind: "dir", dir: []mfile{{stmts: randScript(&m, 3)}, {stmts: randScript(&m, 3)}}}
			case "sdir":
				return source{kind: "sdir", dir: []mfile{{stmts: randScript(&m, 3)}, {stmts: append(randScript(&m, 2), ms(&m, stmt{"ct", extra, ""})...)}}}
			case "hcl":
				return source{kind: "hcl", hcl: baseHCL(&m, extra)}
			case "url":
				return source{kind: "url"}
			}
			return source{kind: "none"}
		}
		c.from = mk(v.from, "tx")
		c.to = mk(v.to, "tz")
		add(c, "random/"+v.name)
	}
	// 9. (round 5) migrate lint runs that have NO new files: an empty directory with --latest N,
	// --git-base on a branch that adds nothing (change detector: base = head). The session is
	// opened all the same: a non-empty dev database is refused exactly like in runs with files.
	for _, sn := range []string{"absent", "empty", "bk-seq", "tables", "combo-V", "combo-HR", "autoinc", "virtual-fts", "unread-table",
		"name-view-underscore", "name-two-underscore", "hidden-sqlitedb"} {
		st := startByName(sn)
		for _, latest := range []int{1, 3} {
			c := (&tcase{norm: "0", cmd: "lint", latest: latest, changes: true}).setStart(st)
			c.from, c.to = source{kind: "none"}, source{kind: "none"}
			add(c, "nofiles/empty-dir")
		}
		for _, shape := range []string{"", "ck"} {
			m := 0
			c := (&tcase{norm: "0", cmd: "lint", latest: 0, changes: true, via: "git"}).setStart(st)
			c.dir = baseDir(&m, shape)
			c.from, c.to = source{kind: "none"}, source{kind: "none"}
			add(c, "nofiles/git-base-head")
		}
	}
	return cs
}

// ---------------------------------------------------------------- main

func main() {
	mode := flag.String("mode", "cli", "cli|api")
	tier := flag.String("tier", "quick", "quick|thorough")
	outDir := flag.String("out", "", "output directory")
	flag.Parse()
	if *outDir == "" {
		fmt.Fprintln(os.Stderr, "missing -out")
		os.Exit(2)
	}
	w := out.New(*outDir)
	defer w.Close()
	// the dev database files live in a memory file system when there is one (every statement of
	// the thousands of sessions is its own fsync'ed transaction otherwise); TMPDIR overrides
	tmpRoot := os.Getenv("TMPDIR")
	if tmpRoot == "" {
		tmpRoot = os.TempDir()
		if fi, err := os.Stat("/dev/shm"); err == nil && fi.IsDir() {
			if d, err := os.MkdirTemp("/dev/shm", "verif-c14-"); err == nil {
				tmpRoot = d
				defer os.RemoveAll(d)
			}
		}
	}
	var (
		cases   []*tcase
		results []result
	)
	switch *mode {
	case "cli":
		cases = genCLI(*tier)
		bin := os.Getenv("ATLAS_BIN")
		if _, err := os.Stat(bin); err != nil {
			fmt.Fprintln(os.Stderr, "ATLAS_BIN not found:", bin)
			os.Exit(2)
		}
		results = make([]result, len(cases))
		parallel(len(cases), func(i int) { results[i] = runCLI(cases[i], bin, tmpRoot) })
	case "api":
		cases, results = genRunAPI(*tier, tmpRoot)
	case "tx", "scen", "mysql", "pg":
		// round-5 stages (tx.go, scen.go, server.go): their own case types and oracles
		var rc int
		switch *mode {
		case "tx":
			rc = txMain(w, *tier, tmpRoot)
		default:
			rc = extraMain(*mode, w, *tier, tmpRoot)
		}
		if rc != 0 {
			w.Close()
			if strings.HasPrefix(tmpRoot, "/dev/shm/verif-c14-") {
				os.RemoveAll(tmpRoot)
			}
			os.Exit(rc)
		}
		return
	default:
		fmt.Fprintln(os.Stderr, "unknown mode")
		os.Exit(2)
	}
	w.Rule = "non-trivial = the case is refused, or a statement, a restore or a read of the state (Snapshot's included) fails in some session, or a session runs with a restore in mid-body (lint checkpoint), or the directory is written; key = case line"
	w.Exhaust = true
	bad := 0
	for i, c := range cases {
		r := &results[i]
		if r.err != nil {
			bad++
			fmt.Fprintf(os.Stderr, "case %s (%s): harness error: %v\n", c.id, c.label, r.err)
			w.Violation(c.id, "harness-error", r.err.Error())
			continue
		}
		line := c.line()
		w.Case(c.id, line, []string{r.obs})
		w.Count("label/" + strings.SplitN(c.label, "/", 2)[0])
		w.Count("cmd/" + c.cmd)
		if strings.HasPrefix(c.start, "combo-") {
			w.Count("start/combo")
		} else {
			w.Count("start/" + c.start)
		}
		w.Count("outcome/" + strings.SplitN(r.outcome, ":", 2)[0])
		if r.dirw {
			w.Count("dir-written")
		}
		if r.startUser > 0 && r.outcome != "refused" && r.same {
			w.Count("nonempty-no-session-untouched")
		}
		if r.startUser == 0 && r.startObjs > 0 && r.outcome != "refused" {
			w.Count("bookkeeping-only-accepted")
		}
		midRestore := false
		for _, f := range c.dir {
			midRestore = midRestore || (c.cmd == "lint" && f.ckpt)
		}
		if r.outcome != "ok" || r.dirw || midRestore {
			w.NonTrivial(line)
		}
		oracle(w, c, r)
	}
	if bad > 0 {
		w.Close()
		if strings.HasPrefix(tmpRoot, "/dev/shm/verif-c14-") {
			os.RemoveAll(tmpRoot)
		}
		os.Exit(1)
	}
}

func parallel(n int, f func(i int)) {
	var wg sync.WaitGroup
	sem := make(chan struct{}, runtime.NumCPU())
	for i := 0; i < n; i++ {
		wg.Add(1)
		sem <- struct{}{}
		go func(i int) {
			defer wg.Done()
			defer func() { <-sem }()
			f(i)
		}(i)
	}
	wg.Wait()
}
