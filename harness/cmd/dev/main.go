// Command dev checks property C14 (the dev database is never damaged) on the
// real code: it generates dev-database start states, migration directories and
// desired schemas with a failing statement at every position, runs every
// command that takes --dev-url through the real CLI binary ($ATLAS_BIN), dumps
// the dev database file and the migration directory before and after with an
// independent reader, writes the model's input (cases.txt), the observations
// (impl.txt) and evaluates the property itself on the observations (oracle.txt).
//
// Mode "cli": the real binary. Mode "norm": sqlx.DevDriver.NormalizeSchema /
// NormalizeRealm (through the sql/verifx hook) against a real SQLite file --
// the SQLite driver is not a schema.Normalizer, so the CLI never reaches them.
package main

import (
	"bytes"
	"context"
	"database/sql"
	"encoding/hex"
	"encoding/json"
	"errors"
	"flag"
	"fmt"
	"os"
	"os/exec"
	"path/filepath"
	"regexp"
	"runtime"
	"sort"
	"strconv"
	"strings"
	"sync"
	"time"

	"ariga.io/atlas/sql/migrate"
	"ariga.io/atlas/sql/schema"
	"ariga.io/atlas/sql/sqlclient"
	_ "ariga.io/atlas/sql/sqlite"
	"ariga.io/atlas/sql/verifx"
	_ "github.com/mattn/go-sqlite3"

	"verifharness/internal/out"
	"verifharness/internal/rng"
)

// ---------------------------------------------------------------- case structure

type stmt struct{ op, a, b string } // ct ci cv cg dt dv di in bad
type mstmt struct {
	m int
	s stmt
}
type mfile struct {
	ckpt  bool
	stmts []mstmt
}
type obj struct {
	kind, name, tbl string
	rows            int
}
type hidx struct {
	m    int
	name string
}
type htable struct {
	m    int
	name string
	idx  []hidx
}
type source struct {
	kind string // none sql dir hcl
	sql  []mstmt
	dir  []mfile
	hcl  []htable
}
type tcase struct {
	id      string
	norm    bool
	cmd     string // validate lint diff sdiff sapply
	latest  int
	changes bool
	start   string // name of the start state
	db      []obj
	dir     []mfile
	from    source
	to      source
	api     string // norm mode: "schema" | "realm"
	label   string // generator bucket
}

func hx(s string) string {
	if s == "" {
		return "-"
	}
	return hex.EncodeToString([]byte(s))
}

func (s stmt) tokens() string {
	switch s.op {
	case "ci", "cg":
		return s.op + " " + hx(s.a) + " " + hx(s.b)
	case "bad":
		return "bad"
	default:
		return s.op + " " + hx(s.a)
	}
}

func (s stmt) sql(m int) string {
	mk := fmt.Sprintf("/*m%d*/", m)
	switch s.op {
	case "ct":
		return fmt.Sprintf("CREATE TABLE %s %s (id INTEGER PRIMARY KEY, v TEXT);", s.a, mk)
	case "ci":
		return fmt.Sprintf("CREATE INDEX %s %s ON %s (v);", s.a, mk, s.b)
	case "cv":
		return fmt.Sprintf("CREATE VIEW %s %s AS SELECT 1 AS x;", s.a, mk)
	case "cg":
		return fmt.Sprintf("CREATE TRIGGER %s %s AFTER INSERT ON %s BEGIN SELECT 1; END;", s.a, mk, s.b)
	case "dt":
		return fmt.Sprintf("DROP TABLE %s %s;", s.a, mk)
	case "dv":
		return fmt.Sprintf("DROP VIEW %s %s;", s.a, mk)
	case "di":
		return fmt.Sprintf("DROP INDEX %s %s;", s.a, mk)
	case "in":
		return fmt.Sprintf("INSERT INTO %s %s (id, v) VALUES (1, 'x');", s.a, mk)
	default:
		return fmt.Sprintf("CREATE TABL oops %s;", mk)
	}
}

func mstmtsTokens(ss []mstmt) string {
	var b strings.Builder
	fmt.Fprintf(&b, "%d", len(ss))
	for _, s := range ss {
		fmt.Fprintf(&b, " %d %s", s.m, s.s.tokens())
	}
	return b.String()
}

func dirTokens(d []mfile) string {
	var b strings.Builder
	fmt.Fprintf(&b, "%d", len(d))
	for _, f := range d {
		ck := 0
		if f.ckpt {
			ck = 1
		}
		fmt.Fprintf(&b, " %d %s", ck, mstmtsTokens(f.stmts))
	}
	return b.String()
}

func (s source) tokens() string {
	switch s.kind {
	case "sql":
		return "sql " + mstmtsTokens(s.sql)
	case "dir":
		return "dir " + dirTokens(s.dir)
	case "hcl":
		var b strings.Builder
		fmt.Fprintf(&b, "hcl %d", len(s.hcl))
		for _, t := range s.hcl {
			fmt.Fprintf(&b, " %d %s %d", t.m, hx(t.name), len(t.idx))
			for _, i := range t.idx {
				fmt.Fprintf(&b, " %d %s", i.m, hx(i.name))
			}
		}
		return b.String()
	default:
		return "none"
	}
}

func b01(b bool) int {
	if b {
		return 1
	}
	return 0
}

func (c *tcase) line() string {
	var b strings.Builder
	fmt.Fprintf(&b, "%d %s %d %d %d", b01(c.norm), c.cmd, c.latest, b01(c.changes), len(c.db))
	for _, o := range c.db {
		k := o.kind
		if k == "x" || k == "y" {
			k = "t" // a virtual table is a sqlite_master row of type 'table'
		}
		fmt.Fprintf(&b, " %s %s %s %d", k, hx(o.name), hx(o.tbl), o.rows)
	}
	fmt.Fprintf(&b, " %s %s %s", dirTokens(c.dir), c.from.tokens(), c.to.tokens())
	return b.String()
}

// ---------------------------------------------------------------- start states

type startState struct {
	name string
	db   []obj
}

var starts = []startState{
	{"absent", nil},
	{"empty", nil},
	{"tables", []obj{{"t", "t9", "t9", 2}, {"i", "i9", "t9", 0}, {"t", "t8", "t8", 0}}},
	{"view", []obj{{"v", "v9", "v9", 0}}},
	{"bare", []obj{{"t", "t9", "t9", 0}}},
	{"trigger", []obj{{"t", "t9", "t9", 0}, {"g", "g9", "t9", 0}}},
	{"hidden-libsql", []obj{{"t", "libsql_users", "libsql_users", 2}}},
	{"hidden-sqlitedb", []obj{{"t", "sqlitedb", "sqlitedb", 1}, {"i", "i9", "sqlitedb", 0}}},
	{"hidden-seq", []obj{{"t", "sqlite_sequence", "sqlite_sequence", 0}}},
	// only virtual tables (kind "x": sqlite_master.type = 'table', so a KTable for the model) and their shadow tables
	{"virtual", []obj{{"x", "vt9", "vt9", 2}}},
	{"virtual-fts", []obj{{"y", "ft9", "ft9", 1}}},
}

func startByName(n string) startState {
	for _, s := range starts {
		if s.name == n {
			return s
		}
	}
	panic(n)
}

func sqliteOpen(path string, ro bool) (*sql.DB, error) {
	dsn := "file:" + path
	if ro {
		dsn += "?mode=ro"
	}
	return sql.Open("sqlite3", dsn)
}

// createStart writes the start database file (nothing for "absent").
func createStart(path string, st startState) error {
	if st.name == "absent" {
		return nil
	}
	db, err := sqliteOpen(path, false)
	if err != nil {
		return err
	}
	defer db.Close()
	var stmts []string
	if st.name == "empty" {
		stmts = []string{"CREATE TABLE x (a)", "DROP TABLE x", "VACUUM"}
	}
	if st.name == "hidden-seq" {
		stmts = []string{"CREATE TABLE x (id INTEGER PRIMARY KEY AUTOINCREMENT)", "DROP TABLE x"}
	} else {
		for _, o := range st.db {
			switch o.kind {
			case "t":
				stmts = append(stmts, fmt.Sprintf("CREATE TABLE %s (id INTEGER PRIMARY KEY, v TEXT)", o.name))
				for r := 1; r <= o.rows; r++ {
					stmts = append(stmts, fmt.Sprintf("INSERT INTO %s (id, v) VALUES (%d, 'row%d')", o.name, r, r))
				}
			case "x":
				stmts = append(stmts, fmt.Sprintf("CREATE VIRTUAL TABLE %s USING rtree(id, minx, maxx)", o.name))
				for r := 1; r <= o.rows; r++ {
					stmts = append(stmts, fmt.Sprintf("INSERT INTO %s VALUES (%d, %d, %d)", o.name, r, r, r+1))
				}
			case "y":
				stmts = append(stmts, fmt.Sprintf("CREATE VIRTUAL TABLE %s USING fts4(body)", o.name))
				for r := 1; r <= o.rows; r++ {
					stmts = append(stmts, fmt.Sprintf("INSERT INTO %s (body) VALUES ('row%d')", o.name, r))
				}
			case "i":
				stmts = append(stmts, fmt.Sprintf("CREATE INDEX %s ON %s (v)", o.name, o.tbl))
			case "v":
				stmts = append(stmts, fmt.Sprintf("CREATE VIEW %s AS SELECT 1 AS x", o.name))
			case "g":
				stmts = append(stmts, fmt.Sprintf("CREATE TRIGGER %s AFTER INSERT ON %s BEGIN SELECT 1; END", o.name, o.tbl))
			}
		}
	}
	for _, s := range stmts {
		if _, err := db.Exec(s); err != nil {
			return fmt.Errorf("%s: %w", s, err)
		}
	}
	return nil
}

// dump is the independent reader: sqlite_master plus every row of every table.
// objs is the number of sqlite_master rows.
func dump(path string) (text string, objs int, err error) {
	if _, serr := os.Stat(path); serr != nil {
		return "", 0, nil
	}
	if fi, _ := os.Stat(path); fi != nil && fi.Size() == 0 {
		return "", 0, nil
	}
	db, err := sqliteOpen(path, true)
	if err != nil {
		return "", 0, err
	}
	defer db.Close()
	rows, err := db.Query("SELECT type, name, tbl_name, ifnull(sql, '') FROM sqlite_master ORDER BY type, name")
	if err != nil {
		return "", 0, err
	}
	var b strings.Builder
	var tables []string
	for rows.Next() {
		var t, n, tn, s string
		if err := rows.Scan(&t, &n, &tn, &s); err != nil {
			rows.Close()
			return "", 0, err
		}
		objs++
		fmt.Fprintf(&b, "%s|%s|%s|%s\n", t, n, tn, s)
		if t == "table" {
			tables = append(tables, n)
		}
	}
	rows.Close()
	for _, t := range tables {
		rs, err := db.Query(fmt.Sprintf("SELECT * FROM `%s` ORDER BY 1", t))
		if err != nil {
			return "", 0, err
		}
		cols, _ := rs.Columns()
		for rs.Next() {
			vals := make([]any, len(cols))
			ptrs := make([]any, len(cols))
			for i := range vals {
				ptrs[i] = &vals[i]
			}
			if err := rs.Scan(ptrs...); err != nil {
				rs.Close()
				return "", 0, err
			}
			fmt.Fprintf(&b, "row %s:", t)
			for _, v := range vals {
				if bs, ok := v.([]byte); ok {
					v = string(bs)
				}
				fmt.Fprintf(&b, " %v", v)
			}
			b.WriteString("\n")
		}
		rs.Close()
	}
	return b.String(), objs, nil
}

func fileBytes(path string) []byte {
	b, err := os.ReadFile(path)
	if err != nil {
		return nil
	}
	return b
}

// snapshot of a directory tree: relative path -> bytes
func snapDir(root string) map[string]string {
	m := map[string]string{}
	filepath.Walk(root, func(p string, info os.FileInfo, err error) error {
		if err != nil || info.IsDir() {
			return nil
		}
		rel, _ := filepath.Rel(root, p)
		b, _ := os.ReadFile(p)
		m[rel] = string(b)
		return nil
	})
	return m
}

// ---------------------------------------------------------------- writing inputs

func fileText(f mfile) string {
	var b strings.Builder
	if f.ckpt {
		b.WriteString("-- atlas:checkpoint\n\n")
	}
	for _, s := range f.stmts {
		b.WriteString(s.s.sql(s.m))
		b.WriteString("\n")
	}
	return b.String()
}

func writeMigrationDir(path string, d []mfile) error {
	if err := os.MkdirAll(path, 0o755); err != nil {
		return err
	}
	for i, f := range d {
		name := fmt.Sprintf("%d_f%d.sql", i+1, i+1)
		if err := os.WriteFile(filepath.Join(path, name), []byte(fileText(f)), 0o644); err != nil {
			return err
		}
	}
	ld, err := migrate.NewLocalDir(path)
	if err != nil {
		return err
	}
	sum, err := ld.Checksum()
	if err != nil {
		return err
	}
	return migrate.WriteSumFile(ld, sum)
}

func hclText(ts []htable) string {
	var b strings.Builder
	b.WriteString("schema \"main\" {}\n")
	for _, t := range ts {
		fmt.Fprintf(&b, "table %q {\n  schema = schema.main\n  column \"id\" {\n    type = integer\n  }\n  column \"v\" {\n    type = text\n    null = true\n  }\n  primary_key {\n    columns = [column.id]\n  }\n", t.name)
		for _, i := range t.idx {
			fmt.Fprintf(&b, "  index %q {\n    columns = [column.v]\n  }\n", i.name)
		}
		b.WriteString("}\n")
	}
	return b.String()
}

// writeSource materialises a source under root and returns its URL.
func writeSource(root, name string, s source) (string, error) {
	switch s.kind {
	case "sql":
		p := filepath.Join(root, name+".sql")
		return "file://" + p, os.WriteFile(p, []byte(fileText(mfile{stmts: s.sql})), 0o644)
	case "hcl":
		p := filepath.Join(root, name+".hcl")
		return "file://" + p, os.WriteFile(p, []byte(hclText(s.hcl)), 0o644)
	case "dir":
		p := filepath.Join(root, name+"_migrations")
		return "file://" + p, writeMigrationDir(p, s.dir)
	}
	return "", nil
}

// ---------------------------------------------------------------- running one CLI case

type result struct {
	obs       string
	outcome   string
	same      bool
	empty     bool
	dirw      bool
	bytesSame bool
	startObjs int
	exit      int
	dirDiff   string
	output    string
	corrupt   string
	err       error
}

var (
	markerRe   = regexp.MustCompile(`/\*m(\d+)\*/`)
	notCleanRe = regexp.MustCompile(`connected database is not clean`)
)

type lintReport struct {
	Steps []struct{ Name, Text, Error string }
	Files []struct{ Name, Error string }
}

var fileRe = regexp.MustCompile(`^(\d+)_f\d+\.sql$`)

func classify(c *tcase, exit int, output string) string {
	if notCleanRe.MatchString(output) {
		return "refused"
	}
	if c.cmd == "lint" {
		var rep lintReport
		if err := json.Unmarshal([]byte(output), &rep); err != nil {
			return "err:other"
		}
		for _, st := range rep.Steps {
			if st.Name != "Replay Migration Files" || st.Error == "" {
				continue
			}
			if m := markerRe.FindStringSubmatch(st.Error); m != nil {
				return "fail:" + m[1]
			}
			// DevLoader.base reports a failing statement of a base file by file only
			for _, f := range rep.Files {
				if m := fileRe.FindStringSubmatch(f.Name); m != nil && f.Error != "" {
					return "fail:file" + m[1]
				}
			}
			return "err:other"
		}
		return "ok" // diagnostics may make lint exit 1; the session itself completed
	}
	ms := markerRe.FindAllStringSubmatch(output, -1)
	if len(ms) > 0 && exit != 0 {
		first := ms[0][1]
		for _, m := range ms {
			if m[1] != first {
				return "err:multi"
			}
		}
		return "fail:" + first
	}
	if exit == 0 {
		return "ok"
	}
	return "err:other"
}

func runCLI(c *tcase, bin, tmpRoot string) (r result) {
	root, err := os.MkdirTemp(tmpRoot, "c14-")
	if err != nil {
		r.err = err
		return
	}
	defer os.RemoveAll(root)
	for _, d := range []string{"tmp", "home"} {
		os.MkdirAll(filepath.Join(root, d), 0o755)
	}
	devPath := filepath.Join(root, "dev.db")
	st := startState{c.start, c.db}
	if err := createStart(devPath, st); err != nil {
		r.err = fmt.Errorf("create start: %w", err)
		return
	}
	migDir := filepath.Join(root, "migrations")
	if err := writeMigrationDir(migDir, c.dir); err != nil {
		r.err = fmt.Errorf("write dir: %w", err)
		return
	}
	fromURL, err := writeSource(root, "from", c.from)
	if err != nil {
		r.err = err
		return
	}
	toURL, err := writeSource(root, "to", c.to)
	if err != nil {
		r.err = err
		return
	}
	devURL := "sqlite://" + devPath
	var args []string
	switch c.cmd {
	case "validate":
		args = []string{"migrate", "validate", "--dir", "file://" + migDir, "--dev-url", devURL}
	case "lint":
		args = []string{"migrate", "lint", "--dir", "file://" + migDir, "--dev-url", devURL, "--latest", strconv.Itoa(c.latest), "--format", "{{ json . }}"}
	case "diff":
		args = []string{"migrate", "diff", "next", "--dir", "file://" + migDir, "--dev-url", devURL, "--to", toURL}
	case "sdiff":
		args = []string{"schema", "diff", "--dev-url", devURL, "--from", fromURL, "--to", toURL}
	case "sapply":
		args = []string{"schema", "apply", "--url", "sqlite://" + filepath.Join(root, "target.db"), "--dev-url", devURL, "--to", toURL, "--auto-approve"}
	}
	before, objs, err := dump(devPath)
	if err != nil {
		r.err = fmt.Errorf("dump before: %w", err)
		return
	}
	bytesBefore := fileBytes(devPath)
	dirBefore := snapDir(root)
	delete(dirBefore, "dev.db")

	ctx, cancel := context.WithTimeout(context.Background(), 120*time.Second)
	defer cancel()
	cmd := exec.CommandContext(ctx, bin, args...)
	cmd.Dir = root
	cmd.Env = []string{"ATLAS_NO_UPDATE_NOTIFIER=1", "TMPDIR=" + filepath.Join(root, "tmp"), "HOME=" + filepath.Join(root, "home"), "PATH=" + os.Getenv("PATH"), "ATLAS_NO_UPGRADE_SUGGESTIONS=1"}
	var ob bytes.Buffer
	cmd.Stdout, cmd.Stderr = &ob, &ob
	rerr := cmd.Run()
	exit := 0
	if rerr != nil {
		var ee *exec.ExitError
		if errors.As(rerr, &ee) {
			exit = ee.ExitCode()
		} else {
			r.err = rerr
			return
		}
	}
	if ctx.Err() != nil {
		r.err = fmt.Errorf("timeout: %v", args)
		return
	}
	after, objsAfter, err := dump(devPath)
	if err != nil {
		// the independent reader cannot read the file any more: the command damaged it
		r.corrupt = err.Error()
		after, objsAfter = "UNREADABLE", -1
	}
	bytesAfter := fileBytes(devPath)
	dirAfter := snapDir(root)
	for _, k := range []string{"dev.db", "dev.db-journal", "target.db"} {
		delete(dirAfter, k)
	}
	// directory comparison: everything the harness wrote (migration dir, sources)
	var diffs []string
	for k, v := range dirBefore {
		v2, ok := dirAfter[k]
		switch {
		case !ok:
			diffs = append(diffs, "removed:"+k)
		case v != v2:
			diffs = append(diffs, "changed:"+k)
		}
	}
	for k := range dirAfter {
		if _, ok := dirBefore[k]; !ok && !strings.HasPrefix(k, "home/") && !strings.HasPrefix(k, "tmp/") {
			diffs = append(diffs, "added:"+k)
		}
	}
	sort.Strings(diffs)
	r.output = ob.String()
	r.exit = exit
	r.outcome = classify(c, exit, r.output)
	r.same = before == after
	r.empty = objsAfter == 0
	r.dirw = len(diffs) > 0
	r.dirDiff = strings.Join(diffs, ",")
	r.bytesSame = bytes.Equal(bytesBefore, bytesAfter)
	r.startObjs = objs
	r.obs = fmt.Sprintf("out=%s same=%d empty=%d dirw=%d", r.outcome, b01(r.same), b01(r.empty), b01(r.dirw))
	return
}

// ---------------------------------------------------------------- the API stage (NormalizeSchema / NormalizeRealm)

// noAddSchema is the SQLite driver with "ADD SCHEMA main IF NOT EXISTS" as a
// no-op (SQLite's planner rejects AddSchema, so NormalizeRealm would stop
// before its first write otherwise).
type noAddSchema struct{ migrate.Driver }

func (d noAddSchema) ApplyChanges(ctx context.Context, changes []schema.Change, opts ...migrate.PlanOption) error {
	var cs []schema.Change
	for _, c := range changes {
		if _, ok := c.(*schema.AddSchema); !ok {
			cs = append(cs, c)
		}
	}
	return d.Driver.ApplyChanges(ctx, cs, opts...)
}

func runNorm(c *tcase, tmpRoot string) (r result) {
	root, err := os.MkdirTemp(tmpRoot, "c14n-")
	if err != nil {
		r.err = err
		return
	}
	defer os.RemoveAll(root)
	devPath := filepath.Join(root, "dev.db")
	if err := createStart(devPath, startState{c.start, c.db}); err != nil {
		r.err = err
		return
	}
	before, objs, err := dump(devPath)
	if err != nil {
		r.err = err
		return
	}
	bytesBefore := fileBytes(devPath)
	ctx := context.Background()
	cl, err := sqlclient.Open(ctx, "sqlite://"+devPath)
	if err != nil {
		r.err = err
		return
	}
	s := schema.New("main")
	for _, t := range c.to.hcl {
		tb := schema.NewTable(t.name).
			AddColumns(schema.NewIntColumn("id", "integer"), schema.NewNullStringColumn("v", "text"))
		tb.SetPrimaryKey(schema.NewPrimaryKey(tb.Columns[0]))
		for _, i := range t.idx {
			tb.AddIndexes(schema.NewIndex(i.name).AddColumns(tb.Columns[1]))
		}
		s.AddTables(tb)
	}
	var nerr error
	if c.api == "realm" {
		_, nerr = verifx.NormalizeRealm(ctx, noAddSchema{cl.Driver}, schema.NewRealm(s))
	} else {
		_, nerr = verifx.NormalizeSchema(ctx, cl.Driver, s)
	}
	cl.Close()
	var (
		nc *migrate.NotCleanError
		ap interface{ Applied() int }
	)
	switch {
	case nerr == nil:
		r.outcome = "ok"
	case errors.As(nerr, &nc):
		r.outcome = "refused"
	case errors.As(nerr, &ap):
		r.outcome = fmt.Sprintf("fail:%d", ap.Applied())
	default:
		r.outcome = "err:other"
		r.output = nerr.Error()
	}
	after, objsAfter, err := dump(devPath)
	if err != nil {
		r.corrupt = err.Error()
		after, objsAfter = "UNREADABLE", -1
	}
	r.same = before == after
	r.empty = objsAfter == 0
	r.bytesSame = bytes.Equal(bytesBefore, fileBytes(devPath))
	r.startObjs = objs
	if nerr != nil {
		r.output = nerr.Error()
	}
	r.obs = fmt.Sprintf("out=%s same=%d empty=%d dirw=0", r.outcome, b01(r.same), b01(r.empty))
	return
}

// ---------------------------------------------------------------- oracle: the property on the observation

func hclOnly(c *tcase) bool {
	// On SQLite (not a schema.Normalizer) HCL sources open no session at all.
	switch c.cmd {
	case "sdiff":
		return c.from.kind == "hcl" && c.to.kind == "hcl"
	case "sapply":
		return c.to.kind == "hcl"
	}
	return false
}

func oracle(w *out.W, c *tcase, r *result) {
	ctxt := fmt.Sprintf("start=%s cmd=%s latest=%d from=%s to=%s exit=%d outcome=%s", c.start, c.cmd, c.latest, c.from.kind, c.to.kind, r.exit, r.outcome)
	if r.corrupt != "" {
		w.Violation(c.id, "dev-unreadable-after", ctxt+": the dev database file cannot be read after the command: "+r.corrupt)
		return
	}
	if r.startObjs > 0 {
		// refused if not empty, and then completely untouched
		if !r.same || !r.bytesSame {
			w.Violation(c.id, "nonempty-dev-damaged", ctxt+fmt.Sprintf(": the dev database held %d object(s) and was modified (logical dump equal=%v, bytes equal=%v, empty afterwards=%v)", r.startObjs, r.same, r.bytesSame, r.empty))
		} else if r.outcome != "refused" && !(hclOnly(c) && !c.norm) {
			w.Violation(c.id, "nonempty-dev-not-refused", ctxt+": the dev database was not empty and the command did not refuse it")
		}
	} else if !r.empty {
		w.Violation(c.id, "dev-not-handed-back-empty", ctxt+": the dev database was empty before and is not empty after the command")
	}
	if r.dirw {
		ok := false
		if c.cmd == "diff" && r.exit == 0 {
			// WritePlan: new file(s) in the migration directory and the sum file, nothing else
			ok = true
			for _, d := range strings.Split(r.dirDiff, ",") {
				if !(strings.HasPrefix(d, "added:migrations/") && strings.HasSuffix(d, ".sql")) && d != "changed:migrations/atlas.sum" {
					ok = false
				}
			}
		}
		if !ok {
			w.Violation(c.id, "dir-written", ctxt+": files written by the command: "+r.dirDiff)
		}
	}
	if strings.HasPrefix(r.outcome, "err:") {
		w.Violation(c.id, "unclassified-error", ctxt+": "+strings.ReplaceAll(trunc(r.output, 300), "\n", " "))
	}
}

func trunc(s string, n int) string {
	if len(s) > n {
		return s[:n]
	}
	return s
}

// ---------------------------------------------------------------- generator

// ms numbers the statements of one script: marker = 100*script + position,
// scripts being counted per case (directory files first, then the sources).
func ms(m *int, ss ...stmt) []mstmt {
	var o []mstmt
	*m = (*m/100 + 1) * 100
	for k, s := range ss {
		o = append(o, mstmt{*m + k, s})
	}
	return o
}

type variant struct {
	name   string
	cmd    string
	latest int
	ckpt   bool
	from   string // none sql dir hcl
	to     string
}

var variants = []variant{
	{"validate", "validate", 0, false, "none", "none"},
	{"validate-ck", "validate", 0, true, "none", "none"},
	{"lint-1", "lint", 1, false, "none", "none"},
	{"lint-all", "lint", 9, false, "none", "none"},
	{"lint-ck-all", "lint", 9, true, "none", "none"},
	{"lint-ck-2", "lint", 2, true, "none", "none"},
	{"diff-sql", "diff", 0, false, "none", "sql"},
	{"diff-hcl", "diff", 0, false, "none", "hcl"},
	{"diff-ck-sql", "diff", 0, true, "none", "sql"},
	{"sdiff-sql-sql", "sdiff", 0, false, "sql", "sql"},
	{"sdiff-dir-hcl", "sdiff", 0, false, "dir", "hcl"},
	{"sdiff-hcl-sql", "sdiff", 0, false, "hcl", "sql"},
	{"sdiff-hcl-hcl", "sdiff", 0, false, "hcl", "hcl"},
	{"sapply-sql", "sapply", 0, false, "none", "sql"},
	{"sapply-hcl", "sapply", 0, false, "none", "hcl"},
}

// base inputs; every statement gets a fresh marker
func baseDir(m *int, ckpt bool) []mfile {
	f1 := mfile{stmts: ms(m, stmt{"ct", "t0", ""}, stmt{"ci", "i0", "t0"}, stmt{"cg", "g0", "t0"}, stmt{"in", "t0", ""})}
	if !ckpt {
		f2 := mfile{stmts: ms(m, stmt{"cv", "v0", ""}, stmt{"ct", "t1", ""}, stmt{"ci", "i1", "t1"})}
		return []mfile{f1, f2}
	}
	ck := mfile{ckpt: true, stmts: ms(m, stmt{"ct", "t0", ""}, stmt{"ci", "i0", "t0"}, stmt{"cv", "v1", ""})}
	f3 := mfile{stmts: ms(m, stmt{"ct", "t1", ""}, stmt{"in", "t1", ""})}
	return []mfile{f1, ck, f3}
}

func baseSQL(m *int, extra string) []mstmt {
	return ms(m, stmt{"ct", "t0", ""}, stmt{"ci", "i0", "t0"}, stmt{"ct", extra, ""}, stmt{"cv", "v2", ""})
}

func baseHCL(m *int, extra string) []htable {
	var ts []htable
	*m = (*m/100 + 1) * 100
	k := 0
	for _, n := range []string{"t0", extra} {
		t := htable{m: *m + k, name: n}
		t.idx = append(t.idx, hidx{*m + k + 1, "ix_" + n})
		k += 2
		ts = append(ts, t)
	}
	return ts
}

func mkSource(kind string, m *int, extra string) source {
	switch kind {
	case "sql":
		return source{kind: "sql", sql: baseSQL(m, extra)}
	case "hcl":
		return source{kind: "hcl", hcl: baseHCL(m, extra)}
	case "dir":
		return source{kind: "dir", dir: baseDir(m, false)}
	}
	return source{kind: "none"}
}

// failing replacements usable at a position (k = number of statements before it in the same script)
func failing(k int, which int) stmt {
	opts := []stmt{{"bad", "", ""}, {"dt", "zz", ""}, {"in", "zz", ""}, {"ci", "iz", "zz"}, {"di", "iz", ""}, {"dv", "vz", ""}}
	if k > 0 {
		opts = append(opts, stmt{"ct", "t0", ""}) // already exists
	}
	if k > 3 {
		opts = append(opts, stmt{"in", "t0", ""}) // UNIQUE constraint
	}
	return opts[which%len(opts)]
}

// scripts returns pointers to every statement list of the case that some session executes
func (c *tcase) scripts() []*[]mstmt {
	var l []*[]mstmt
	if c.cmd == "validate" || c.cmd == "lint" || c.cmd == "diff" {
		for i := range c.dir {
			l = append(l, &c.dir[i].stmts)
		}
	}
	for _, s := range []*source{&c.from, &c.to} {
		switch s.kind {
		case "sql":
			l = append(l, &s.sql)
		case "dir":
			for i := range s.dir {
				l = append(l, &s.dir[i].stmts)
			}
		}
	}
	return l
}

func build(v variant, st startState) *tcase {
	m := 0
	c := &tcase{cmd: v.cmd, latest: v.latest, start: st.name, db: st.db, changes: true}
	c.dir = baseDir(&m, v.ckpt)
	if v.cmd == "sdiff" || v.cmd == "sapply" {
		c.dir = nil
	}
	c.from = mkSource(v.from, &m, "tx")
	c.to = mkSource(v.to, &m, "tz")
	return c
}

func genCLI(tier string) []*tcase {
	var cs []*tcase
	add := func(c *tcase, label string) {
		c.label = label
		c.id = fmt.Sprintf("k%04d", len(cs))
		cs = append(cs, c)
	}
	allVariants := tier == "thorough"
	// 1. every command x every start state, nothing failing
	for _, v := range variants {
		for _, st := range starts {
			add(build(v, st), "grid/"+v.name+"/"+st.name)
		}
	}
	// 2. every command x a failing statement at every position of every script, on a clean start
	n := 0
	for vi, v := range variants {
		probe := build(v, starts[0])
		for si := range probe.scripts() {
			for k := 0; k < len(*probe.scripts()[si]); k++ {
				kinds := 1
				if allVariants {
					kinds = 8
				}
				for w := 0; w < kinds; w++ {
					st := starts[n%2] // absent / empty
					n++
					c := build(v, st)
					sc := c.scripts()[si]
					(*sc)[k].s = failing(k, vi+k+w)
					add(c, "fault/"+v.name)
				}
			}
		}
	}
	// 3. hidden-table and refused starts with a failing statement in the first script
	for _, v := range variants {
		for _, sn := range []string{"hidden-libsql", "tables", "view"} {
			c := build(v, startByName(sn))
			if scs := c.scripts(); len(scs) > 0 {
				sc := scs[0]
				(*sc)[len(*sc)/2].s = stmt{"bad", "", ""}
			}
			add(c, "fault-nonempty/"+v.name)
		}
	}
	// 4. migrate diff with nothing to plan (directory already in sync)
	for _, st := range []string{"absent", "empty", "tables"} {
		m := 0
		c := &tcase{cmd: "diff", start: st, db: startByName(st).db, changes: false}
		c.dir = []mfile{{stmts: ms(&m, stmt{"ct", "t0", ""}, stmt{"ci", "i0", "t0"})}}
		c.to = source{kind: "sql", sql: ms(&m, stmt{"ct", "t0", ""}, stmt{"ci", "i0", "t0"})}
		add(c, "diff-synced")
	}
	// 5. seeded random directories / sources
	r := rng.FromEnv(0xC14)
	nr := 70
	if tier == "thorough" {
		nr = 1500
	}
	tables := []string{"t0", "t1", "t2"}
	randStmt := func() stmt {
		switch r.Intn(12) {
		case 0, 1, 2:
			return stmt{"ct", rng.Pick(r, tables), ""}
		case 3, 4:
			return stmt{"ci", rng.Pick(r, []string{"i0", "i1"}), rng.Pick(r, tables)}
		case 5:
			return stmt{"cv", rng.Pick(r, []string{"v0", "v1", "t2"}), ""}
		case 6:
			return stmt{"cg", rng.Pick(r, []string{"g0", "g1"}), rng.Pick(r, tables)}
		case 7:
			return stmt{"dt", rng.Pick(r, tables), ""}
		case 8:
			return stmt{"in", rng.Pick(r, tables), ""}
		case 9:
			return stmt{"di", rng.Pick(r, []string{"i0", "i1"}), ""}
		case 10:
			return stmt{"dv", rng.Pick(r, []string{"v0", "v1"}), ""}
		default:
			if r.Chance(1, 3) {
				return stmt{"bad", "", ""}
			}
			return stmt{"ct", rng.Pick(r, tables), ""}
		}
	}
	randScript := func(m *int, max int) []mstmt {
		n := 1 + r.Intn(max)
		var ss []stmt
		for i := 0; i < n; i++ {
			ss = append(ss, randStmt())
		}
		return ms(m, ss...)
	}
	for i := 0; i < nr; i++ {
		v := variants[r.Intn(len(variants))]
		st := starts[0]
		if r.Chance(1, 4) {
			st = starts[r.Intn(len(starts))]
		} else if r.Bool() {
			st = starts[1]
		}
		m := 0
		c := &tcase{cmd: v.cmd, start: st.name, db: st.db, changes: true}
		if v.cmd != "sdiff" && v.cmd != "sapply" {
			nf := 1 + r.Intn(3)
			for f := 0; f < nf; f++ {
				c.dir = append(c.dir, mfile{ckpt: f > 0 && r.Chance(1, 4), stmts: randScript(&m, 4)})
			}
		}
		if v.cmd == "lint" {
			c.latest = 1 + r.Intn(4)
		}
		mk := func(kind string, extra string) source {
			switch kind {
			case "sql":
				s := source{kind: "sql", sql: randScript(&m, 4)}
				s.sql = append(s.sql, ms(&m, stmt{"ct", extra, ""})...)
				return s
			case "dir":
				return source{kind: "dir", dir: []mfile{{stmts: randScript(&m, 3)}, {stmts: randScript(&m, 3)}}}
			case "hcl":
				return source{kind: "hcl", hcl: baseHCL(&m, extra)}
			}
			return source{kind: "none"}
		}
		c.from = mk(v.from, "tx")
		c.to = mk(v.to, "tz")
		add(c, "random/"+v.name)
	}
	return cs
}

func genNorm(tier string) []*tcase {
	var cs []*tcase
	add := func(c *tcase, label string) {
		c.label = label
		c.norm = true
		c.cmd = "sapply"
		c.id = fmt.Sprintf("n%04d", len(cs))
		cs = append(cs, c)
	}
	// tables with indexes; markers are the plan positions (CREATE TABLE, then its indexes)
	mkTables := func(spec [][]string) []htable {
		m := -1
		var ts []htable
		for _, s := range spec {
			m++
			t := htable{m: m, name: s[0]}
			for _, i := range s[1:] {
				m++
				t.idx = append(t.idx, hidx{m, i})
			}
			ts = append(ts, t)
		}
		return ts
	}
	specs := [][][]string{
		{{"t0", "i0"}, {"t1", "i1", "i2"}},             // succeeds
		{{"t0"}},                                       // one table
		{},                                             // nothing to create
		{{"t0", "i0"}, {"t1", "i0"}},                   // 2nd CREATE INDEX i0 fails (position 3)
		{{"t0", "i0", "i1"}, {"t1", "i2", "i1", "i3"}}, // fails at position 5
		{{"t0", "i0"}, {"t0", "i1"}},                   // 2nd CREATE TABLE t0 fails (position 2)
		{{"t0", "i0"}, {"t1"}, {"t2", "t1"}},           // index named like a table fails (position 4)
		{{"t0", "t0"}},                                 // index named like its own table (position 1)
	}
	for _, api := range []string{"schema", "realm"} {
		for _, sp := range specs {
			for _, st := range starts {
				c := &tcase{start: st.name, db: st.db, api: api, to: source{kind: "hcl", hcl: mkTables(sp)}, from: source{kind: "none"}}
				add(c, "norm/"+api)
			}
		}
	}
	r := rng.FromEnv(0xC14A)
	nr := 150
	if tier == "thorough" {
		nr = 3000
	}
	for i := 0; i < nr; i++ {
		var sp [][]string
		nt := 1 + r.Intn(3)
		for t := 0; t < nt; t++ {
			row := []string{rng.Pick(r, []string{"t0", "t1", "t2", "t3"})}
			ni := r.Intn(3)
			for k := 0; k < ni; k++ {
				row = append(row, rng.Pick(r, []string{"i0", "i1", "i2", "i3", "t1"}))
			}
			sp = append(sp, row)
		}
		st := starts[r.Intn(2)]
		if r.Chance(1, 5) {
			st = starts[r.Intn(len(starts))]
		}
		c := &tcase{start: st.name, db: st.db, api: rng.Pick(r, []string{"schema", "realm"}), to: source{kind: "hcl", hcl: mkTables(sp)}, from: source{kind: "none"}}
		add(c, "norm-random/"+c.api)
	}
	return cs
}

// ---------------------------------------------------------------- main

func main() {
	mode := flag.String("mode", "cli", "cli|norm")
	tier := flag.String("tier", "quick", "quick|thorough")
	outDir := flag.String("out", "", "output directory")
	flag.Parse()
	if *outDir == "" {
		fmt.Fprintln(os.Stderr, "missing -out")
		os.Exit(2)
	}
	w := out.New(*outDir)
	defer w.Close()
	tmpRoot := os.Getenv("TMPDIR")
	if tmpRoot == "" {
		tmpRoot = os.TempDir()
	}
	var cases []*tcase
	switch *mode {
	case "cli":
		cases = genCLI(*tier)
	case "norm":
		cases = genNorm(*tier)
	default:
		fmt.Fprintln(os.Stderr, "unknown mode")
		os.Exit(2)
	}
	bin := os.Getenv("ATLAS_BIN")
	if *mode == "cli" {
		if _, err := os.Stat(bin); err != nil {
			fmt.Fprintln(os.Stderr, "ATLAS_BIN not found:", bin)
			os.Exit(2)
		}
	}
	results := make([]result, len(cases))
	var wg sync.WaitGroup
	sem := make(chan struct{}, runtime.NumCPU())
	for i := range cases {
		wg.Add(1)
		sem <- struct{}{}
		go func(i int) {
			defer wg.Done()
			defer func() { <-sem }()
			if *mode == "cli" {
				results[i] = runCLI(cases[i], bin, tmpRoot)
			} else {
				results[i] = runNorm(cases[i], tmpRoot)
			}
		}(i)
	}
	wg.Wait()
	w.Rule = "non-trivial = the case is refused, or a statement fails in some session, or a session runs with a restore in mid-body (lint checkpoint), or the plan is written; key = case line"
	w.Exhaust = true
	bad := 0
	for i, c := range cases {
		r := &results[i]
		if r.err != nil {
			bad++
			fmt.Fprintf(os.Stderr, "case %s (%s): harness error: %v\n", c.id, c.label, r.err)
			w.Violation(c.id, "harness-error", r.err.Error())
			continue
		}
		line := c.line()
		w.Case(c.id, line, []string{r.obs})
		w.Count("label/" + strings.SplitN(c.label, "/", 2)[0])
		w.Count("cmd/" + c.cmd)
		w.Count("start/" + c.start)
		w.Count("outcome/" + strings.SplitN(r.outcome, ":", 2)[0])
		if r.dirw {
			w.Count("dir-written")
		}
		if r.startObjs > 0 && r.outcome != "refused" && r.same {
			w.Count("nonempty-no-session-untouched")
		}
		if r.outcome != "ok" || r.dirw || (c.cmd == "lint" && strings.Contains(line, " 1 ")) {
			w.NonTrivial(line)
		}
		oracle(w, c, r)
	}
	if bad > 0 {
		w.Close()
		os.Exit(1)
	}
}
