package main

import (
	"fmt"

	"ariga.io/atlas/sql/migrate"
	"ariga.io/atlas/sql/mysql"
	"github.com/DATA-DOG/go-sqlmock"

	"verifharness/internal/out"
	"verifharness/internal/rng"
)

// Stage "tidb": sql/mysql/tidb.go, (*tplanApply).PlanChanges -- the planner mysql.Open installs when the server
// reports a TiDB version. It runs sqlx.DetachCycles, flattens every ModifyTable into atomic ModifyTables,
// re-sorts them by priority (sort.SliceStable) and plans each atomic change alone with the MySQL planner.
var (
	tidbMode bool
	tidbPlan migrate.PlanApplier
)

// openTidb: mysql.Open on a sqlmock connection whose version query answers a TiDB version string.
func openTidb() error {
	db, mk, err := sqlmock.New()
	if err != nil {
		return err
	}
	mk.ExpectQuery("SELECT @@version").WillReturnRows(
		sqlmock.NewRows([]string{"v", "collation", "charset", "lcnames"}).AddRow("5.7.25-TiDB-v6.1.0", "utf8mb4_bin", "utf8mb4", "0"))
	drv, err := mysql.Open(db)
	if err != nil {
		return err
	}
	d, ok := drv.(*mysql.Driver)
	if !ok {
		return fmt.Errorf("mysql.Open returned %T", drv)
	}
	if fmt.Sprintf("%T", d.PlanApplier) != "*mysql.tplanApply" {
		return fmt.Errorf("mysql.Open on a TiDB version installed %T, not the TiDB planner", d.PlanApplier)
	}
	tidbPlan = d.PlanApplier
	return nil
}

// tidbRepointsToCreated: does a ModifyForeignKey of the change set point its new side at a table the set creates?
func tidbRepointsToCreated(sc *scenario) bool {
	created := map[int]bool{}
	for _, c := range sc.cs {
		if c.kind == 'A' {
			created[c.t.name] = true
		}
	}
	for _, c := range sc.cs {
		for _, tc := range c.tcs {
			if tc.kind == '~' && created[tc.g.ref.name] {
				return true
			}
		}
	}
	return false
}

// spice: more sub-changes per ModifyTable, not in priority order: an AddColumn (priority 1) behind the
// foreign-key changes, a DropColumn (4) in front, the sub-changes shuffled.
func spice(r *rng.R, sc *scenario) {
	for i := range sc.cs {
		c := &sc.cs[i]
		if c.kind != 'M' {
			continue
		}
		if r.Chance(2, 3) {
			c.tcs = append(c.tcs, tch{kind: 'o', k: 2 + 2*r.Intn(3)}) // AddColumn x2/x4/x6
		}
		if r.Chance(1, 3) {
			c.tcs = append([]tch{{kind: 'o', k: 3 + 2*r.Intn(3)}}, c.tcs...) // DropColumn x3/x5/x7
		}
		if r.Chance(1, 3) {
			p := randPerm(r, len(c.tcs))
			tcs := make([]tch, len(c.tcs))
			for a, b := range p {
				tcs[a] = c.tcs[b]
			}
			c.tcs = tcs
		}
	}
}

func flatLen(sc *scenario) int {
	n := 0
	for _, c := range sc.cs {
		if c.kind == 'M' {
			n += len(c.tcs)
		} else {
			n++
		}
	}
	return n
}

func genTidb(w *out.W, tier string) {
	w.Exhaust = true
	w.Rule = "the TiDB planner (mysql.Open on a go-sqlmock connection answering version 5.7.25-TiDB-v6.1.0; tidb.go PlanChanges = DetachCycles, flat, sort.SliceStable by priority, then the MySQL planner on each atomic change), judged by the reference catalogue on Plan.Changes[i].Source in statement order, planned twice from the same slice value. (a) exhaustive: every FK graph with self loops over n<=2 tables x every split created/dropped/modified x 4 readings x every order; (b) n=3: every graph x every split (quick: one pair in four), one seeded (reading, order) each, ModifyTables spiced (AddColumn behind the key changes, DropColumn in front, sub-changes shuffled); (c) the three tables s1.t1, s2.t1, s1.t2 (same name in two schemas), 1 case in 16 of the exhaustive family of stage schemas; (d) the generator of stage large (13..40 changes), 1 in 12; (e) wide: 11..40 created tables with FK chains + 2..5 modified tables with 2..6 sub-changes each (AddColumn, DropColumn, DropForeignKey, ModifyForeignKey, AddForeignKey to created and to kept tables) + 0..3 dropped tables, random order: more than 12 atomic changes, not in priority order; (f) narrow-deep: <=12 changes that flatten to 13..30 atomic changes (exact order tied: sort.SliceStable is stable). Up to 12 changes in the list the exact statement order is compared with the model, beyond (DetachCycles' sort.Slice is not stable) the multiset + replay verdict. exact:tidb-* = the oracle's verdict vs the exact exception C04_tidb_safe_exact (fails iff a ModifyForeignKey is re-pointed to a created table). Non-trivial = the planned order differs from the input order"
	r := rng.FromEnv(0xC04D)
	id := 0
	// (a)
	for n := 1; n <= 2; n++ {
		ps := perms(n)
		for bits := uint64(0); bits < 1<<uint(n*n); bits++ {
			adj := adjOf(n, bits)
			for split := 0; split < pow(3, n); split++ {
				for variant := 0; variant < 4; variant++ {
					for _, p := range ps {
						id++
						runCase(w, fmt.Sprintf("ta%d-%d", n, id), mkScenario(n, rolesOf(n, split), adj, variant, p), "family:a")
					}
				}
			}
		}
	}
	// (b)
	{
		n := 3
		ps := perms(n)
		reps := 1
		if tier == "thorough" {
			reps = 12
		}
		for bits := uint64(0); bits < 1<<uint(n*n); bits++ {
			adj := adjOf(n, bits)
			for split := 0; split < pow(3, n); split++ {
				for k := 0; k < reps; k++ {
					id++
					if tier != "thorough" && id%4 != 0 { // quick: one (graph, split) pair in four
						continue
					}
					sc := mkScenario(n, rolesOf(n, split), adj, r.Intn(4), ps[r.Intn(len(ps))])
					if r.Bool() {
						spice(r, sc)
					}
					runCase(w, fmt.Sprintf("tb-%d", id), sc, "family:b")
				}
			}
		}
	}
	// (c)
	{
		cnt := 0
		every := 16
		if tier == "thorough" {
			every = 1
		}
		run := func(id string, sc *scenario, tags ...string) {
			cnt++
			if cnt%every == 0 {
				runCase(w, id, sc, tags...)
			}
		}
		genThree(&id, "tc", []int{qname(1, 1), qname(2, 1), qname(1, 2)}, "quick", false, run, "family:c")
	}
	// (d)
	genLarge(w, tier)
	// (e), (f)
	count := 500
	if tier == "thorough" {
		count = 40000
	}
	for k := 0; k < count; k++ {
		deep := k%3 == 2
		var nA, nM, nD, nK int
		if deep {
			nA, nM, nD, nK = 2+r.Intn(5), 2+r.Intn(3), r.Intn(2), 2+r.Intn(3)
		} else {
			nA, nM, nD, nK = 11+r.Intn(30), 2+r.Intn(4), r.Intn(4), 2+r.Intn(4)
		}
		n := nA + nM + nD + nK
		roles := make([]int, n)
		idx := randPerm(r, n)
		for a, i := range idx {
			switch {
			case a < nA:
				roles[i] = roleA
			case a < nA+nM:
				roles[i] = roleM
			case a < nA+nM+nD:
				roles[i] = roleD
			default:
				roles[i] = roleK
			}
		}
		adj := make([][]bool, n)
		for i := range adj {
			adj[i] = make([]bool, n)
		}
		// FK chains among the created tables
		as := idx[:nA]
		for pos := 0; pos+1 < nA; {
			l := 2 + r.Intn(5)
			for i := 0; i+1 < l && pos+i+1 < nA; i++ {
				adj[as[pos+i]][as[pos+i+1]] = true
			}
			pos += l
		}
		if r.Chance(1, 6) && nA >= 3 { // a cycle of created tables
			adj[as[0]][as[1]], adj[as[1]][as[2]], adj[as[2]][as[0]] = true, true, true
		}
		// modified tables: keys to created, dropped, kept and modified tables
		for _, i := range idx[nA : nA+nM] {
			m := 2 + r.Intn(5)
			if deep {
				m = 4 + r.Intn(5)
			}
			for e := 0; e < m; e++ {
				adj[i][r.Intn(n)] = true
			}
		}
		// dropped tables referenced by other dropped / modified tables
		for _, i := range idx[nA+nM : nA+nM+nD] {
			adj[idx[nA+r.Intn(nM+nD)]][i] = true
		}
		sc := mkScenarioQ(n, nil, roles, adj, r.Intn(4), randPerm(r, n))
		spice(r, sc)
		fl := flatLen(sc)
		if fl <= 12 || (deep && len(sc.cs) > 12) {
			k--
			continue
		}
		fam := "family:e-wide"
		if deep {
			fam = "family:f-deep"
		}
		runCase(w, fmt.Sprintf("tw%d", k), sc, fam, fmt.Sprintf("atomic:%d-%d", fl/10*10, fl/10*10+9))
	}
}
