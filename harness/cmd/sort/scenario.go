package main

import (
	"fmt"
	"strconv"
	"strings"

	"ariga.io/atlas/sql/schema"
)

// Abstract scenario = the model's input. A table object is (name, id): id is the
// pointer identity of the *schema.Table (the code compares both names and pointers).
// name is the identity of the database table: 100*schema + base name. Schema 0 = the table has
// no *schema.Schema (all stages but "schemas"); base names may repeat across schemas.
type tbl struct{ name, id int }

func qbase(q int) int    { return q % 100 }
func qschema(q int) int  { return q / 100 }
func qname(s, n int) int { return 100*s + n }

// schg: a schema-level change in front of the table changes ('S' AddSchema, 'T' DropSchema, 'U' ModifySchema).
type schg struct {
	kind byte
	s    int
}
type fkey struct {
	sym      int
	tab, ref tbl
}
type tch struct {
	kind byte // '+', '-', '~', 'o', 'c' (column of enum type e: k = 0 AddColumn, 1 ModifyColumn, 2 DropColumn)
	f, g fkey // g = To of a ModifyFK
	k    int
	e    int // 'c': pointer id of the *schema.EnumType
}
type chg struct {
	kind  byte // 'A', 'D', 'M', 'P' (AddObject enum), 'Q' (DropObject enum)
	t     tbl
	fks   []fkey
	tcs   []tch
	types []int // A/D/M: pointer ids of the enum types of the table's columns
	e     int   // P/Q: pointer id of the enum object
}
type catalogue struct {
	tabs  []int
	fks   [][3]int // child, symbol, parent
	types []int    // existing enum types (by name k; objects 2k, 2k+1); not part of the model's catalogue
	uses  [][2]int // (table, enum name): a column of the table has that type
}

func (s *scenario) hasTypes() bool {
	for _, c := range s.cs {
		if len(c.types) > 0 {
			return true
		}
		for _, tc := range c.tcs {
			if tc.kind == 'c' {
				return true
			}
		}
	}
	return false
}

func (s *scenario) hasObjects() bool {
	for _, c := range s.cs {
		if c.kind == 'P' || c.kind == 'Q' {
			return true
		}
	}
	return false
}

// objMode: stage "objects" -- change sets with enum objects, tied to the extended model (SortObjModel.v)
var objMode bool

type scenario struct {
	cat catalogue
	pre []schg // schema-level changes, in front of cs in the change list handed to the planners
	cs  []chg
}

func (s *scenario) preLine() string {
	ss := make([]string, len(s.pre))
	for i, p := range s.pre {
		ss[i] = fmt.Sprintf("%c%d", p.kind, p.s)
	}
	return strings.Join(ss, ",")
}

func (t tbl) line() string  { return fmt.Sprintf("%d %d %d", qbase(t.name), qschema(t.name), t.id) }
func (f fkey) line() string { return fmt.Sprintf("%d %s %s", f.sym, f.tab.line(), f.ref.line()) }

// caseLine is the model's input: catalogue, then the change set in input order.
func (s *scenario) caseLine() string {
	var b strings.Builder
	fmt.Fprintf(&b, "%d", len(s.cat.tabs))
	for _, t := range s.cat.tabs {
		fmt.Fprintf(&b, " %d %d", qbase(t), qschema(t))
	}
	fmt.Fprintf(&b, " %d", len(s.cat.fks))
	for _, f := range s.cat.fks {
		fmt.Fprintf(&b, " %d %d %d %d %d", qbase(f[0]), qschema(f[0]), f[1], qbase(f[2]), qschema(f[2]))
	}
	fmt.Fprintf(&b, " %d", len(s.pre))
	for _, p := range s.pre {
		fmt.Fprintf(&b, " %c %d", p.kind, p.s)
	}
	fmt.Fprintf(&b, " %d", len(s.cs))
	ext := objMode || s.hasObjects() || s.hasTypes() // stage "objects": the extended model (SortObjModel.v) reads the enum types
	types := func(ts []int) string {
		if !ext {
			return ""
		}
		var sb strings.Builder
		fmt.Fprintf(&sb, " %d", len(ts))
		for _, e := range ts {
			fmt.Fprintf(&sb, " %d", e)
		}
		return sb.String()
	}
	for _, c := range s.cs {
		switch c.kind {
		case 'P', 'Q':
			fmt.Fprintf(&b, " %c %d", c.kind, c.e)
		case 'A', 'D':
			fmt.Fprintf(&b, " %c %s%s %d", c.kind, c.t.line(), types(c.types), len(c.fks))
			for _, f := range c.fks {
				b.WriteString(" " + f.line())
			}
		case 'M':
			fmt.Fprintf(&b, " M %s%s %d", c.t.line(), types(c.types), len(c.tcs))
			for _, tc := range c.tcs {
				switch tc.kind {
				case '+', '-':
					fmt.Fprintf(&b, " %c %s", tc.kind, tc.f.line())
				case '~':
					fmt.Fprintf(&b, " ~ %s %s", tc.f.line(), tc.g.line())
				case 'o':
					fmt.Fprintf(&b, " o %d", tc.k)
				case 'c':
					fmt.Fprintf(&b, " c %d %d", tc.k, tc.e)
				}
			}
		}
	}
	if objMode { // the type part of the catalogue: existing enum names, (table, enum name) uses
		fmt.Fprintf(&b, " T %d", len(s.cat.types))
		for _, k := range s.cat.types {
			fmt.Fprintf(&b, " %d", k)
		}
		fmt.Fprintf(&b, " %d", len(s.cat.uses))
		for _, u := range s.cat.uses {
			fmt.Fprintf(&b, " %d %d %d", qbase(u[0]), qschema(u[0]), u[1])
		}
	}
	return b.String()
}

// ---- construction of the real schema.Change values

type world struct {
	intT  string
	tabs  map[int]*schema.Table
	enums map[int]*schema.EnumType
	schs  map[[2]int]*schema.Schema
}

// sch: the *schema.Schema object of schema number s (>= 1); the current-state tables (even id) and
// the desired-state tables (odd id) hang off two different objects of the same name, as in a diff
// of two realms.
func (w *world) sch(s, realm int) *schema.Schema {
	k := [2]int{s, realm}
	if x, ok := w.schs[k]; ok {
		return x
	}
	x := schema.New(fmt.Sprintf("s%d", s))
	w.schs[k] = x
	return x
}

// enum returns the *schema.EnumType object with pointer id e; objects 2k and 2k+1 are the current
// and the desired object of the enum named eNN (k). The id is carried in Values for the decoder.
func (w *world) enum(e int) *schema.EnumType {
	if x, ok := w.enums[e]; ok {
		return x
	}
	x := &schema.EnumType{T: fmt.Sprintf("e%02d", e/2), Values: []string{fmt.Sprintf("id%d", e)}}
	w.enums[e] = x
	return x
}

func (w *world) enumCol(name string, e int) *schema.Column {
	t := w.enum(e)
	return schema.NewColumn(name).SetType(t)
}

// tname: the SQL name of base name n. 0..12: "t%02d". 13+3k+v (k = 0..28): the three spellings of one name --
// v = 0 "u%02dA", v = 1 "u%02da" (equal up to letter case), v = 2 "u%02da " (trailing space). The numbering follows
// the byte order of the strings (byKeys in sortMap sorts the names), so that the model, where a name is a
// number, visits the names in the same order. To the planner these are simply different names.
const twinBase = 13

func twin(k, v int) int { return twinBase + 3*k + v }

func tname(n int) string {
	if n >= twinBase {
		k, v := (n-twinBase)/3, (n-twinBase)%3
		return fmt.Sprintf("u%02d%s", k, []string{"A", "a", "a "}[v])
	}
	return fmt.Sprintf("t%02d", n)
}

func (w *world) table(t tbl) *schema.Table {
	if x, ok := w.tabs[t.id]; ok {
		return x
	}
	x := schema.NewTable(tname(qbase(t.name))).AddColumns(schema.NewIntColumn("id", w.intT), schema.NewIntColumn("r", w.intT))
	if s := qschema(t.name); s > 0 {
		x.SetSchema(w.sch(s, t.id%2))
	}
	w.tabs[t.id] = x
	return x
}

func (w *world) fk(f fkey) *schema.ForeignKey {
	from, to := w.table(f.tab), w.table(f.ref)
	return schema.NewForeignKey(fmt.Sprintf("s%02d", f.sym)).SetTable(from).SetRefTable(to).
		AddColumns(from.Columns[1]).AddRefColumns(to.Columns[0])
}

// build makes fresh Go objects for the scenario (one *schema.Table per id).
func (s *scenario) build(intT string) []schema.Change {
	w := &world{intT: intT, tabs: map[int]*schema.Table{}, enums: map[int]*schema.EnumType{}, schs: map[[2]int]*schema.Schema{}}
	var out []schema.Change
	for _, p := range s.pre {
		switch p.kind {
		case 'S':
			out = append(out, &schema.AddSchema{S: w.sch(p.s, 1)})
		case 'T':
			out = append(out, &schema.DropSchema{S: w.sch(p.s, 0)})
		case 'U':
			m := &schema.ModifySchema{S: w.sch(p.s, 1)}
			if intT == "int" { // MySQL: ALTER DATABASE .. CHARSET; PostgreSQL: COMMENT ON SCHEMA
				m.Changes = append(m.Changes, &schema.ModifyAttr{From: &schema.Charset{V: "latin1"}, To: &schema.Charset{V: "utf8mb4"}})
			} else {
				m.Changes = append(m.Changes, &schema.ModifyAttr{From: &schema.Comment{Text: "old"}, To: &schema.Comment{Text: "new"}})
			}
			out = append(out, m)
		}
	}
	for _, c := range s.cs {
		if c.kind == 'P' {
			out = append(out, &schema.AddObject{O: w.enum(c.e)})
			continue
		}
		if c.kind == 'Q' {
			out = append(out, &schema.DropObject{O: w.enum(c.e)})
			continue
		}
		t := w.table(c.t)
		if len(t.Columns) == 2 { // the enum-typed columns of the table, once
			for i, e := range c.types {
				t.AddColumns(w.enumCol(fmt.Sprintf("c%d", i), e))
			}
		}
		switch c.kind {
		case 'A', 'D':
			t.ForeignKeys = nil
			for _, f := range c.fks {
				t.ForeignKeys = append(t.ForeignKeys, w.fk(f))
			}
			if c.kind == 'A' {
				out = append(out, &schema.AddTable{T: t})
			} else {
				out = append(out, &schema.DropTable{T: t})
			}
		case 'M':
			m := &schema.ModifyTable{T: t}
			for _, tc := range c.tcs {
				switch tc.kind {
				case '+':
					m.Changes = append(m.Changes, &schema.AddForeignKey{F: w.fk(tc.f)})
				case '-':
					m.Changes = append(m.Changes, &schema.DropForeignKey{F: w.fk(tc.f)})
				case '~':
					m.Changes = append(m.Changes, &schema.ModifyForeignKey{From: w.fk(tc.f), To: w.fk(tc.g), Change: schema.ChangeRefTable})
				case 'o':
					col := schema.NewIntColumn(fmt.Sprintf("x%d", tc.k), intT)
					if tc.k%2 == 0 {
						m.Changes = append(m.Changes, &schema.AddColumn{C: col})
					} else {
						m.Changes = append(m.Changes, &schema.DropColumn{C: col})
					}
				case 'c':
					col := w.enumCol(fmt.Sprintf("y%d", tc.e), tc.e)
					switch tc.k {
					case 0:
						m.Changes = append(m.Changes, &schema.AddColumn{C: col})
					case 1:
						from := schema.NewIntColumn(col.Name, intT)
						m.Changes = append(m.Changes, &schema.ModifyColumn{From: from, To: col, Change: schema.ChangeType})
					case 3: // the column leaves the enum type
						to := schema.NewIntColumn(col.Name, intT)
						m.Changes = append(m.Changes, &schema.ModifyColumn{From: col, To: to, Change: schema.ChangeType})
					default:
						m.Changes = append(m.Changes, &schema.DropColumn{C: col})
					}
				}
			}
			out = append(out, m)
		}
	}
	return out
}

// ---- observation of real schema.Change values: (kind, table, fk symbol.target)

type ofk struct {
	sym, ref int
}
type otc struct {
	kind byte
	f, g ofk
	k    int
	e    int
}
type ochg struct {
	kind  byte
	t     int
	fks   []ofk
	tcs   []otc
	types []int // enum ids of the table's columns (A, D)
	e     int   // P, Q
}

// enumID: the pointer id of an enum-typed column type (carried in Values), -1 otherwise.
func enumID(ct *schema.ColumnType) int {
	if ct == nil {
		return -1
	}
	if e, ok := ct.Type.(*schema.EnumType); ok && len(e.Values) == 1 {
		if n, err := strconv.Atoi(strings.TrimPrefix(e.Values[0], "id")); err == nil {
			return n
		}
	}
	return -1
}

func tableTypes(t *schema.Table) []int {
	var ts []int
	for _, c := range t.Columns {
		if e := enumID(c.Type); e >= 0 {
			ts = append(ts, e)
		}
	}
	return ts
}

func num(s string) int {
	if strings.HasPrefix(s, "u") && len(s) >= 4 { // a spelling of a twin name
		k, err := strconv.Atoi(s[1:3])
		if err != nil {
			return -1
		}
		switch s[3:] {
		case "A":
			return twin(k, 0)
		case "a":
			return twin(k, 1)
		case "a ":
			return twin(k, 2)
		}
		return -1
	}
	n, err := strconv.Atoi(strings.TrimLeft(s, "tsx"))
	if err != nil {
		return -1
	}
	return n
}

// qnum: the identity of a real table, 100*schema + base name (a table without schema: schema 0).
func qnum(t *schema.Table) int {
	n := num(t.Name)
	if n < 0 {
		return -1
	}
	if t.Schema != nil {
		return qname(num(t.Schema.Name), n)
	}
	return n
}

func obsFK(f *schema.ForeignKey) ofk {
	r := -1
	if f.RefTable != nil {
		r = qnum(f.RefTable)
	}
	return ofk{num(f.Symbol), r}
}

// observe decodes a change of the plan. ok=false for a change kind outside the model.
func observe(c schema.Change) (ochg, bool) {
	switch c := c.(type) {
	case *schema.AddObject:
		if e, ok := c.O.(*schema.EnumType); ok {
			return ochg{kind: 'P', e: enumID(&schema.ColumnType{Type: e})}, true
		}
		return ochg{}, false
	case *schema.DropObject:
		if e, ok := c.O.(*schema.EnumType); ok {
			return ochg{kind: 'Q', e: enumID(&schema.ColumnType{Type: e})}, true
		}
		return ochg{}, false
	case *schema.AddTable:
		o := ochg{kind: 'A', t: qnum(c.T), types: tableTypes(c.T)}
		for _, f := range c.T.ForeignKeys {
			o.fks = append(o.fks, obsFK(f))
		}
		return o, true
	case *schema.DropTable:
		o := ochg{kind: 'D', t: qnum(c.T), types: tableTypes(c.T)}
		for _, f := range c.T.ForeignKeys {
			o.fks = append(o.fks, obsFK(f))
		}
		return o, true
	case *schema.ModifyTable:
		o := ochg{kind: 'M', t: qnum(c.T)}
		for _, tc := range c.Changes {
			switch tc := tc.(type) {
			case *schema.AddForeignKey:
				o.tcs = append(o.tcs, otc{kind: '+', f: obsFK(tc.F)})
			case *schema.DropForeignKey:
				o.tcs = append(o.tcs, otc{kind: '-', f: obsFK(tc.F)})
			case *schema.ModifyForeignKey:
				o.tcs = append(o.tcs, otc{kind: '~', f: obsFK(tc.From), g: obsFK(tc.To)})
			case *schema.AddColumn:
				if e := enumID(tc.C.Type); e >= 0 {
					o.tcs = append(o.tcs, otc{kind: 'c', k: 0, e: e})
				} else {
					o.tcs = append(o.tcs, otc{kind: 'o', k: num(tc.C.Name)})
				}
			case *schema.ModifyColumn:
				if e := enumID(tc.To.Type); e >= 0 {
					o.tcs = append(o.tcs, otc{kind: 'c', k: 1, e: e})
				} else if e := enumID(tc.From.Type); e >= 0 {
					o.tcs = append(o.tcs, otc{kind: 'c', k: 3, e: e})
				} else {
					return o, false
				}
			case *schema.DropColumn:
				if e := enumID(tc.C.Type); e >= 0 {
					o.tcs = append(o.tcs, otc{kind: 'c', k: 2, e: e})
				} else {
					o.tcs = append(o.tcs, otc{kind: 'o', k: num(tc.C.Name)})
				}
			case *schema.DropIndex:
				// MySQL drops the index a modified FK created; not part of the observable.
			default:
				return o, false
			}
		}
		return o, true
	}
	return ochg{}, false
}

func (f ofk) String() string { return fmt.Sprintf("%d.%d", f.sym, f.ref) }

func (o ochg) String() string {
	var parts []string
	if o.kind == 'P' || o.kind == 'Q' {
		return fmt.Sprintf("%c:%d", o.kind, o.e)
	}
	switch o.kind {
	case 'A', 'D':
		for _, f := range o.fks {
			parts = append(parts, f.String())
		}
	case 'M':
		for _, tc := range o.tcs {
			switch tc.kind {
			case '+', '-':
				parts = append(parts, string(tc.kind)+tc.f.String())
			case '~':
				parts = append(parts, "~"+tc.f.String()+">"+tc.g.String())
			case 'o':
				parts = append(parts, fmt.Sprintf("o%d", tc.k))
			case 'c':
				parts = append(parts, fmt.Sprintf("c%d.%d", tc.k, tc.e))
			}
		}
	}
	if objMode && (o.kind == 'A' || o.kind == 'D') { // the enum types of the table's columns (detachReferences copies the table)
		ts := make([]string, len(o.types))
		for i, e := range o.types {
			ts[i] = fmt.Sprint(e)
		}
		return fmt.Sprintf("%c:%d:%s:%s", o.kind, o.t, strings.Join(parts, ","), strings.Join(ts, ","))
	}
	return fmt.Sprintf("%c:%d:%s", o.kind, o.t, strings.Join(parts, ","))
}

func showOut(os []ochg) string {
	ss := make([]string, len(os))
	for i, o := range os {
		ss[i] = o.String()
	}
	return "[" + strings.Join(ss, " ") + "]"
}
