package main

import (
	"fmt"
	"strconv"
	"strings"

	"ariga.io/atlas/sql/schema"
)

// Abstract scenario = the model's input. A table object is (name, id): id is the
// pointer identity of the *schema.Table (the code compares both names and pointers).
type tbl struct{ name, id int }
type fkey struct {
	sym      int
	tab, ref tbl
}
type tch struct {
	kind byte // '+', '-', '~', 'o'
	f, g fkey // g = To of a ModifyFK
	k    int
}
type chg struct {
	kind byte // 'A', 'D', 'M'
	t    tbl
	fks  []fkey
	tcs  []tch
}
type catalogue struct {
	tabs []int
	fks  [][3]int // child, symbol, parent
}
type scenario struct {
	cat catalogue
	cs  []chg
}

func (t tbl) line() string  { return fmt.Sprintf("%d %d", t.name, t.id) }
func (f fkey) line() string { return fmt.Sprintf("%d %s %s", f.sym, f.tab.line(), f.ref.line()) }

// caseLine is the model's input: catalogue, then the change set in input order.
func (s *scenario) caseLine() string {
	var b strings.Builder
	fmt.Fprintf(&b, "%d", len(s.cat.tabs))
	for _, t := range s.cat.tabs {
		fmt.Fprintf(&b, " %d", t)
	}
	fmt.Fprintf(&b, " %d", len(s.cat.fks))
	for _, f := range s.cat.fks {
		fmt.Fprintf(&b, " %d %d %d", f[0], f[1], f[2])
	}
	fmt.Fprintf(&b, " %d", len(s.cs))
	for _, c := range s.cs {
		switch c.kind {
		case 'A', 'D':
			fmt.Fprintf(&b, " %c %s %d", c.kind, c.t.line(), len(c.fks))
			for _, f := range c.fks {
				b.WriteString(" " + f.line())
			}
		case 'M':
			fmt.Fprintf(&b, " M %s %d", c.t.line(), len(c.tcs))
			for _, tc := range c.tcs {
				switch tc.kind {
				case '+', '-':
					fmt.Fprintf(&b, " %c %s", tc.kind, tc.f.line())
				case '~':
					fmt.Fprintf(&b, " ~ %s %s", tc.f.line(), tc.g.line())
				case 'o':
					fmt.Fprintf(&b, " o %d", tc.k)
				}
			}
		}
	}
	return b.String()
}

// ---- construction of the real schema.Change values

type world struct {
	intT string
	tabs map[int]*schema.Table
}

func tname(n int) string { return fmt.Sprintf("t%02d", n) }

func (w *world) table(t tbl) *schema.Table {
	if x, ok := w.tabs[t.id]; ok {
		return x
	}
	x := schema.NewTable(tname(t.name)).AddColumns(schema.NewIntColumn("id", w.intT), schema.NewIntColumn("r", w.intT))
	w.tabs[t.id] = x
	return x
}

func (w *world) fk(f fkey) *schema.ForeignKey {
	from, to := w.table(f.tab), w.table(f.ref)
	return schema.NewForeignKey(fmt.Sprintf("s%02d", f.sym)).SetTable(from).SetRefTable(to).
		AddColumns(from.Columns[1]).AddRefColumns(to.Columns[0])
}

// build makes fresh Go objects for the scenario (one *schema.Table per id).
func (s *scenario) build(intT string) []schema.Change {
	w := &world{intT: intT, tabs: map[int]*schema.Table{}}
	var out []schema.Change
	for _, c := range s.cs {
		t := w.table(c.t)
		switch c.kind {
		case 'A', 'D':
			t.ForeignKeys = nil
			for _, f := range c.fks {
				t.ForeignKeys = append(t.ForeignKeys, w.fk(f))
			}
			if c.kind == 'A' {
				out = append(out, &schema.AddTable{T: t})
			} else {
				out = append(out, &schema.DropTable{T: t})
			}
		case 'M':
			m := &schema.ModifyTable{T: t}
			for _, tc := range c.tcs {
				switch tc.kind {
				case '+':
					m.Changes = append(m.Changes, &schema.AddForeignKey{F: w.fk(tc.f)})
				case '-':
					m.Changes = append(m.Changes, &schema.DropForeignKey{F: w.fk(tc.f)})
				case '~':
					m.Changes = append(m.Changes, &schema.ModifyForeignKey{From: w.fk(tc.f), To: w.fk(tc.g), Change: schema.ChangeRefTable})
				case 'o':
					col := schema.NewIntColumn(fmt.Sprintf("x%d", tc.k), intT)
					if tc.k%2 == 0 {
						m.Changes = append(m.Changes, &schema.AddColumn{C: col})
					} else {
						m.Changes = append(m.Changes, &schema.DropColumn{C: col})
					}
				}
			}
			out = append(out, m)
		}
	}
	return out
}

// ---- observation of real schema.Change values: (kind, table, fk symbol.target)

type ofk struct {
	sym, ref int
}
type otc struct {
	kind byte
	f, g ofk
	k    int
}
type ochg struct {
	kind byte
	t    int
	fks  []ofk
	tcs  []otc
}

func num(s string) int {
	n, err := strconv.Atoi(strings.TrimLeft(s, "tsx"))
	if err != nil {
		return -1
	}
	return n
}

func obsFK(f *schema.ForeignKey) ofk {
	r := -1
	if f.RefTable != nil {
		r = num(f.RefTable.Name)
	}
	return ofk{num(f.Symbol), r}
}

// observe decodes a change of the plan. ok=false for a change kind outside the model.
func observe(c schema.Change) (ochg, bool) {
	switch c := c.(type) {
	case *schema.AddTable:
		o := ochg{kind: 'A', t: num(c.T.Name)}
		for _, f := range c.T.ForeignKeys {
			o.fks = append(o.fks, obsFK(f))
		}
		return o, true
	case *schema.DropTable:
		o := ochg{kind: 'D', t: num(c.T.Name)}
		for _, f := range c.T.ForeignKeys {
			o.fks = append(o.fks, obsFK(f))
		}
		return o, true
	case *schema.ModifyTable:
		o := ochg{kind: 'M', t: num(c.T.Name)}
		for _, tc := range c.Changes {
			switch tc := tc.(type) {
			case *schema.AddForeignKey:
				o.tcs = append(o.tcs, otc{kind: '+', f: obsFK(tc.F)})
			case *schema.DropForeignKey:
				o.tcs = append(o.tcs, otc{kind: '-', f: obsFK(tc.F)})
			case *schema.ModifyForeignKey:
				o.tcs = append(o.tcs, otc{kind: '~', f: obsFK(tc.From), g: obsFK(tc.To)})
			case *schema.AddColumn:
				o.tcs = append(o.tcs, otc{kind: 'o', k: num(tc.C.Name)})
			case *schema.DropColumn:
				o.tcs = append(o.tcs, otc{kind: 'o', k: num(tc.C.Name)})
			case *schema.DropIndex:
				// MySQL drops the index a modified FK created; not part of the observable.
			default:
				return o, false
			}
		}
		return o, true
	}
	return ochg{}, false
}

func (f ofk) String() string { return fmt.Sprintf("%d.%d", f.sym, f.ref) }

func (o ochg) String() string {
	var parts []string
	switch o.kind {
	case 'A', 'D':
		for _, f := range o.fks {
			parts = append(parts, f.String())
		}
	case 'M':
		for _, tc := range o.tcs {
			switch tc.kind {
			case '+', '-':
				parts = append(parts, string(tc.kind)+tc.f.String())
			case '~':
				parts = append(parts, "~"+tc.f.String()+">"+tc.g.String())
			case 'o':
				parts = append(parts, fmt.Sprintf("o%d", tc.k))
			}
		}
	}
	return fmt.Sprintf("%c:%d:%s", o.kind, o.t, strings.Join(parts, ","))
}

func showOut(os []ochg) string {
	ss := make([]string, len(os))
	for i, o := range os {
		ss[i] = o.String()
	}
	return "[" + strings.Join(ss, " ") + "]"
}
