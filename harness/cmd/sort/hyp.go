package main

// The hypotheses of the C04 theorems (Props_C04.v: WF, consistent), re-stated on the harness scenario,
// so that the evidence shows on how many generated cases the theorems apply.

func (c chg) allFKs() []fkey {
	if c.kind != 'M' {
		return c.fks
	}
	var fs []fkey
	for _, tc := range c.tcs {
		switch tc.kind {
		case '+', '-':
			fs = append(fs, tc.f)
		case '~':
			fs = append(fs, tc.f, tc.g)
		}
	}
	return fs
}

func (c chg) declared() []fkey {
	if c.kind == 'A' {
		return c.fks
	}
	var fs []fkey
	for _, tc := range c.tcs {
		switch tc.kind {
		case '+':
			fs = append(fs, tc.f)
		case '~':
			fs = append(fs, tc.g)
		}
	}
	return fs
}

// tableChanges: the table-level changes (the theorems' WF / consistent speak of those only).
func tableChanges(sc *scenario) []chg {
	var cs []chg
	for _, c := range sc.cs {
		if c.kind != 'P' && c.kind != 'Q' {
			cs = append(cs, c)
		}
	}
	return cs
}

func scenarioWF(sc0 *scenario) bool {
	sc := &scenario{cat: sc0.cat, cs: tableChanges(sc0)}
	names := map[int]bool{}
	dropped := map[int]bool{}
	for _, c := range sc.cs {
		if names[c.t.name] {
			return false
		}
		names[c.t.name] = true
		if c.kind == 'D' {
			dropped[c.t.name] = true
		}
	}
	for _, c := range sc.cs {
		for _, f := range c.allFKs() {
			if f.ref.id == c.t.id && f.ref.name != c.t.name {
				return false
			}
		}
		if c.kind == 'D' {
			for _, f := range c.fks {
				if f.tab.name != c.t.name {
					return false
				}
			}
		} else {
			for _, f := range c.declared() {
				if dropped[f.ref.name] {
					return false
				}
			}
		}
	}
	// symbols: distinct among the keys of a dropped table, and among the keys a ModifyTable drops / re-points
	for _, c := range sc.cs {
		seen := map[int]bool{}
		switch c.kind {
		case 'D':
			for _, f := range c.fks {
				if seen[f.sym] {
					return false
				}
				seen[f.sym] = true
			}
		case 'M':
			for _, tc := range c.tcs {
				if tc.kind == '-' || tc.kind == '~' {
					if seen[tc.f.sym] {
						return false
					}
					seen[tc.f.sym] = true
				}
			}
		}
	}
	return true
}

func scenarioConsistent(sc0 *scenario) bool {
	sc := &scenario{cat: sc0.cat, cs: tableChanges(sc0)}
	tabs := map[int]bool{}
	for _, t := range sc.cat.tabs {
		tabs[t] = true
	}
	added, dropped := map[int]bool{}, map[int]bool{}
	byName := map[int]chg{}
	for _, c := range sc.cs {
		byName[c.t.name] = c
		switch c.kind {
		case 'A':
			if tabs[c.t.name] {
				return false
			}
			added[c.t.name] = true
		case 'D':
			dropped[c.t.name] = true
			if !tabs[c.t.name] {
				return false
			}
		case 'M':
			if !tabs[c.t.name] {
				return false
			}
		}
	}
	for _, c := range sc.cs {
		if c.kind == 'D' {
			continue
		}
		for _, f := range c.declared() {
			if !tabs[f.ref.name] && !added[f.ref.name] {
				return false
			}
		}
	}
	// the keys of dropped tables and the keys a ModifyTable drops / re-points are live
	live := map[[2]int]bool{}
	for _, e := range sc.cat.fks {
		live[[2]int{e[0], e[1]}] = true
	}
	for _, c := range sc.cs {
		switch c.kind {
		case 'D':
			for _, f := range c.fks {
				if !live[[2]int{c.t.name, f.sym}] {
					return false
				}
			}
		case 'M':
			for _, tc := range c.tcs {
				if (tc.kind == '-' || tc.kind == '~') && !live[[2]int{c.t.name, tc.f.sym}] {
					return false
				}
			}
		}
	}
	for _, e := range sc.cat.fks {
		child, sym, parent := e[0], e[1], e[2]
		if !dropped[parent] || child == parent {
			continue
		}
		c, ok := byName[child]
		if !ok {
			return false
		}
		covered := false
		switch c.kind {
		case 'D':
			for _, f := range c.fks {
				if f.sym == sym && f.ref.name == parent {
					covered = true
				}
			}
		case 'M':
			for _, tc := range c.tcs {
				if (tc.kind == '-' || tc.kind == '~') && tc.f.sym == sym {
					covered = true
				}
			}
		}
		if !covered {
			return false
		}
	}
	return true
}
