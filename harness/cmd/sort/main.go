// Command sort generates foreign-key change sets for property C04, runs the real
// planner code on them -- (i) sqlx.DetachCycles + sqlx.SortChanges through the
// verifx re-exports, (ii) mysql.DefaultPlan and postgres.DefaultPlan end to end --
// writes the model's input and the implementation's observations, and evaluates
// the property (reference-catalogue replay, once, effects preserved, no panic / loop)
// directly on what the real code returned.
package main

import (
	"context"
	"flag"
	"fmt"
	"os"
	"os/exec"
	"path/filepath"
	"reflect"
	"runtime/debug"
	"runtime/pprof"
	"sort"
	"strings"
	"sync/atomic"
	"syscall"
	"time"
	"unsafe"

	"ariga.io/atlas/sql/migrate"
	"ariga.io/atlas/sql/mysql"
	"ariga.io/atlas/sql/postgres"
	"ariga.io/atlas/sql/schema"
	"ariga.io/atlas/sql/verifx"

	"verifharness/internal/out"
	"verifharness/internal/rng"
)

var (
	curCase atomic.Value // string: the case being run (for the watchdog)
	beat    atomic.Int64
	curLine atomic.Value // string: its case line
	curFile *os.File     // the case being run, for the supervising parent (a Go stack overflow cannot be recovered)
	rawMode bool         // stage "raw": sqlx.SortChanges alone, on the unsorted change list
)

// supervise runs the generator in a child process. Unbounded recursion in the planner
// (= the loop the property excludes) kills a Go process with a fatal error that no
// recover() sees; the parent then reports the case the child was running as the failing input.
func userCPU() time.Duration {
	var ru syscall.Rusage
	if err := syscall.Getrusage(syscall.RUSAGE_SELF, &ru); err != nil {
		return 0
	}
	return time.Duration(ru.Utime.Sec)*time.Second + time.Duration(ru.Utime.Usec)*time.Microsecond
}

func supervise(outDir string) {
	cur := filepath.Join(outDir, "current.txt")
	os.MkdirAll(outDir, 0o755)
	os.Remove(cur)
	cmd := exec.Command(os.Args[0], os.Args[1:]...)
	cmd.Env = append(os.Environ(), "VERIF_SORT_CHILD=1")
	cmd.Stdout = os.Stdout
	err := cmd.Run() // stderr (a stack dump of ~1e5 frames) is dropped
	if err == nil {
		os.Remove(cur)
		return
	}
	b, _ := os.ReadFile(cur)
	id, line, _ := strings.Cut(strings.TrimSpace(string(b)), " ")
	if id == "" {
		fmt.Fprintln(os.Stderr, "sort harness: child failed before the first case:", err)
		os.Exit(2)
	}
	w := out.New(outDir)
	w.Rule = "the planner process died (fatal error: unbounded recursion) on the recorded case; the other cases of this stage were discarded"
	w.Case(id, line, []string{"sort out=crash", "mysql out=crash", "pg out=crash"})
	w.Violation(id, "planner-crash", "fatal error in the planner (stack overflow = it loops) ("+err.Error()+"); case: "+line)
	w.Close()
}

func main() {
	mode := flag.String("mode", "exh", "exh|rnd")
	tier := flag.String("tier", "quick", "quick|thorough")
	outDir := flag.String("out", "", "output directory")
	flag.Parse()
	if *outDir == "" {
		fmt.Fprintln(os.Stderr, "missing -out")
		os.Exit(2)
	}
	if *mode == "gen" { // generator of coq/theories/gen/Gen_TidbPriority.v (props/C04.json: "gen")
		if err := genTidbPriority(*outDir); err != nil {
			fmt.Fprintln(os.Stderr, "gen:", err)
			os.Exit(1)
		}
		return
	}
	if os.Getenv("VERIF_SORT_CHILD") == "" {
		supervise(*outDir)
		return
	}
	debug.SetGCPercent(800) // short-lived garbage only (plans, SQL text); the live heap is the set of seen case lines
	w := out.New(*outDir)
	if pf := os.Getenv("VERIF_SORT_PROF"); pf != "" { // debugging aid
		if f, err := os.Create(pf); err == nil {
			pprof.StartCPUProfile(f)
			defer pprof.StopCPUProfile()
		}
	}
	if v := os.Getenv("VERIF_SORT_REPLANS"); v != "" { // debugging aid
		fmt.Sscan(v, &replans)
	}
	if f, err := os.Create(filepath.Join(*outDir, "current.txt")); err == nil {
		curFile = f
	}
	curCase.Store("")
	// Watchdog: a single planner call that burns 20 s of user CPU without returning is a loop.
	// (CPU time, not wall time: on a loaded machine the process can be descheduled for long.)
	go func() {
		last, cpu0 := int64(-1), userCPU()
		for {
			time.Sleep(500 * time.Millisecond)
			if b := beat.Load(); b != last {
				last, cpu0 = b, userCPU()
			} else if id := curCase.Load().(string); id != "" && userCPU()-cpu0 > 20*time.Second {
				line, _ := curLine.Load().(string)
				w.Case(id, line, []string{"sort out=loop", "mysql out=loop", "pg out=loop"})
				w.Violation(id, "loop", "planner call did not return within 20s of CPU time; case: "+line)
				w.Close()
				os.Exit(0)
			}
		}
	}()
	switch *mode {
	case "exh":
		genExhaustive(w, *tier)
	case "rnd":
		genRandom(w, *tier)
	case "raw":
		rawMode = true
		genRaw(w, *tier)
	case "obj":
		objMode = true
		genObj(w, *tier)
	case "sch":
		replans = 3
		genSchemas(w, *tier)
	case "big":
		symOff = 50
		genLarge(w, *tier)
	case "sqlite":
		symOff = 50
		sqliteMode = true
		genSqlite(w, *tier)
	case "tidb":
		symOff = 50
		tidbMode = true
		if err := openTidb(); err != nil {
			fmt.Fprintln(os.Stderr, "tidb:", err)
			os.Exit(2)
		}
		genTidb(w, *tier)
	default:
		fmt.Fprintln(os.Stderr, "unknown mode")
		os.Exit(2)
	}
	w.Close()
}

// ---- running the real code

type runRes struct {
	outp []ochg
	err  string // "", "error", "panic", "unmodelled"
	msg  string
	top  []string  // schema-level statements of the (last) plan, in plan order
	more []failure // violations of the "same value planned again" clause
}

// decode projects a plan on its table-level changes; schema-level changes (which both planners emit
// first, in topLevel) are returned separately.
func decode(cs []schema.Change) ([]ochg, bool) {
	os, _, ok := decodeTop(cs)
	return os, ok
}

func decodeTop(cs []schema.Change) ([]ochg, []string, bool) {
	var os []ochg
	var top []string
	for _, c := range cs {
		switch c := c.(type) {
		case *schema.AddSchema:
			top = append(top, fmt.Sprintf("S%d", num(c.S.Name)))
			continue
		case *schema.DropSchema:
			top = append(top, fmt.Sprintf("T%d", num(c.S.Name)))
			continue
		case *schema.ModifySchema:
			top = append(top, fmt.Sprintf("U%d", num(c.S.Name)))
			continue
		}
		o, ok := observe(c)
		if !ok {
			return nil, nil, false
		}
		os = append(os, o)
	}
	return os, top, true
}

// snapshot: the identity of everything a planner is handed and must leave alone -- the elements of
// the slice, the Changes of each ModifyTable, the table behind each change (name, schema, its
// ForeignKeys slice and their end points).
func snapshot(cs []schema.Change) uint64 {
	h := uint64(14695981039346656037)
	mix := func(v uint64) { h = (h ^ v) * 1099511628211 }
	ptr := func(p unsafe.Pointer) { mix(uint64(uintptr(p))) }
	str := func(s string) {
		for i := 0; i < len(s); i++ {
			mix(uint64(s[i]))
		}
		mix(0xff)
	}
	iface := func(x any) { // a change value: its dynamic type and its pointer
		v := reflect.ValueOf(x)
		str(v.Type().String())
		if v.Kind() == reflect.Pointer {
			mix(uint64(v.Pointer()))
		}
	}
	tab := func(t *schema.Table) {
		ptr(unsafe.Pointer(t))
		str(t.Name)
		ptr(unsafe.Pointer(t.Schema))
		mix(uint64(len(t.ForeignKeys)))
		for _, f := range t.ForeignKeys {
			ptr(unsafe.Pointer(f))
			str(f.Symbol)
			ptr(unsafe.Pointer(f.Table))
			ptr(unsafe.Pointer(f.RefTable))
		}
	}
	mix(uint64(len(cs)))
	for _, c := range cs {
		iface(c)
		switch c := c.(type) {
		case *schema.AddSchema:
			ptr(unsafe.Pointer(c.S))
			str(c.S.Name)
		case *schema.DropSchema:
			ptr(unsafe.Pointer(c.S))
			str(c.S.Name)
		case *schema.ModifySchema:
			ptr(unsafe.Pointer(c.S))
			str(c.S.Name)
			mix(uint64(len(c.Changes)))
			for _, x := range c.Changes {
				iface(x)
			}
		case *schema.AddTable:
			tab(c.T)
		case *schema.DropTable:
			tab(c.T)
		case *schema.ModifyTable:
			tab(c.T)
			mix(uint64(len(c.Changes)))
			for _, x := range c.Changes {
				iface(x)
				switch x := x.(type) {
				case *schema.AddForeignKey:
					ptr(unsafe.Pointer(x.F))
				case *schema.DropForeignKey:
					ptr(unsafe.Pointer(x.F))
				case *schema.ModifyForeignKey:
					ptr(unsafe.Pointer(x.From))
					ptr(unsafe.Pointer(x.To))
				}
			}
		}
	}
	return h
}

func samePointers(a, b []schema.Change) bool {
	if len(a) != len(b) {
		return false
	}
	for i := range a {
		if a[i] != b[i] {
			return false
		}
	}
	return true
}

func guard(f func() ([]schema.Change, []failure, error)) (r runRes) {
	defer func() {
		if p := recover(); p != nil {
			r = runRes{err: "panic", msg: fmt.Sprint(p)}
		}
	}()
	cs, more, err := f()
	if err != nil {
		return runRes{err: "error", msg: err.Error()}
	}
	os, top, ok := decodeTop(cs)
	if !ok {
		return runRes{err: "unmodelled", msg: "plan contains a change kind outside the model"}
	}
	return runRes{outp: os, top: top, more: more}
}

func showPlan(cs []schema.Change) string {
	os, top, ok := decodeTop(cs)
	if !ok {
		return "unmodelled"
	}
	return strings.Join(top, ",") + showOut(os)
}

// symOff: the symbol of the key table i declares to table j is symOff+j (the key it loses: j). 50 in stage "large".
var symOff = 20

// obsOut: the plan as it is compared with the model. Up to 12 changes: the exact order (Go's sort.Slice is
// then the stable insertion sort of the executable model). Beyond 12 pdqsort breaks ties between equal keys
// (every table without keys reads index 0) in its own way: the theorems cover every tie-break
// (C04_safe_any_tiebreak), the comparison is then on the multiset of planned changes + the replay verdict,
// and the order is judged by the oracle alone.
func obsOut(sc *scenario, os []ochg) string {
	if len(sc.cs) <= 12 {
		return showOut(os)
	}
	ss := make([]string, len(os))
	for i, o := range os {
		ss[i] = o.String()
	}
	sort.Strings(ss)
	return "{" + strings.Join(ss, " ") + "}"
}

// replans: how often the same slice value is planned (the observed plan is the last one -- the one
// `schema apply` executes after the preview). 3 in the stage "schemas".
var replans = 2

// runSort: sqlx.DetachCycles + sqlx.SortChanges on the table changes (both planners strip the
// schema-level changes in topLevel before sorting). Same-value clause: the change list is detached
// and sorted again from the same slice, and the detached list is sorted twice; all plans must be
// the same and the input must be left as it was.
func runSort(sc *scenario) runRes {
	return guard(func() ([]schema.Change, []failure, error) {
		in := sc.build("int")[len(sc.pre):]
		snap := snapshot(in)
		var more []failure
		var last []schema.Change
		first := ""
		for k := 0; k < replans; k++ {
			d, err := verifx.DetachCycles(in)
			if err != nil {
				return nil, nil, err
			}
			dsnap := snapshot(d)
			last = verifx.SortChanges(d, nil)
			again := verifx.SortChanges(d, nil)
			if !samePointers(last, again) {
				more = append(more, failure{class: "replan-differs", msg: fmt.Sprintf("SortChanges of the same detached list, called twice: %s then %s", showPlan(last), showPlan(again))})
			}
			if snapshot(d) != dsnap {
				more = append(more, failure{class: "input-mutated", msg: "SortChanges changed the slice it was given (elements, ModifyTable.Changes or a table's foreign keys)"})
			}
			if k == 0 {
				first = showPlan(last)
			} else if p := showPlan(last); p != first {
				more = append(more, failure{class: "replan-differs", msg: fmt.Sprintf("DetachCycles+SortChanges run %d of the same slice gives %s, the first run gave %s", k+1, p, first)})
			}
			if snapshot(in) != snap {
				more = append(more, failure{class: "input-mutated", msg: fmt.Sprintf("DetachCycles+SortChanges run %d changed the slice it was given (elements, ModifyTable.Changes or a table's foreign keys)", k+1)})
				snap = snapshot(in)
			}
		}
		return last, more, nil
	})
}

// runRaw: SortChanges alone on the change list as given (no DetachCycles first), so that its
// depth-first search has real work to do: forward edges, 2-cycles of dependsOn, chains.
func runRaw(sc *scenario) runRes {
	return guard(func() ([]schema.Change, []failure, error) {
		return verifx.SortChanges(sc.build("int"), nil), nil, nil
	})
}

func multiset(os []ochg) string {
	ss := make([]string, len(os))
	for i, o := range os {
		ss[i] = o.String()
	}
	sort.Strings(ss)
	return strings.Join(ss, " ")
}

// runRawCase: tie on the exact order; oracle = the parts of C04 that hold for every input
// (terminates without panic, output is a permutation of the input).
func runRawCase(w *out.W, id string, sc *scenario, tags ...string) {
	line := sc.caseLine()
	if seen[line] {
		w.Count("duplicate-skipped")
		return
	}
	seen[line] = true
	curCase.Store(id)
	curLine.Store(line)
	beat.Add(1)
	if curFile != nil {
		curFile.Truncate(0)
		curFile.WriteAt([]byte(id+" "+line+"\n"), 0)
	}
	in, _ := decode(sc.build("int"))
	r := runRaw(sc)
	beat.Add(1)
	curCase.Store("")
	if r.err != "" {
		w.Violation(id, "planner-"+r.err, fmt.Sprintf("raw: %s; case: %s", r.msg, line))
		w.Case(id, line, []string{"raw out=" + r.err})
		return
	}
	if multiset(in) != multiset(r.outp) {
		w.Violation(id, "not-once", fmt.Sprintf("raw: SortChanges output %s is not a permutation of its input %s", showOut(r.outp), showOut(in)))
	}
	w.Case(id, line, []string{"raw out=" + showOut(r.outp)})
	for _, t := range tags {
		w.Count(t)
	}
	w.Count(fmt.Sprintf("changes:%d", len(sc.cs)))
	if showOut(r.outp) != showOut(in) {
		w.Count("raw:reordered")
		w.NonTrivial(line)
	} else {
		w.Count("raw:unchanged")
	}
}

func planCmds(p *migrate.Plan) string {
	var b strings.Builder
	for _, c := range p.Changes {
		b.WriteString(c.Cmd)
		if len(c.Args) > 0 {
			fmt.Fprintf(&b, " ARGS %v", c.Args)
		}
		switch r := c.Reverse.(type) { // the statement, its comment and its reverse statements
		case nil:
		case string:
			b.WriteString(" REVERSE " + r)
		case []string:
			b.WriteString(" REVERSE " + strings.Join(r, " | "))
		default:
			fmt.Fprintf(&b, " REVERSE %v", r)
		}
		b.WriteString(" -- " + c.Comment + "; ")
	}
	return b.String()
}

func clip(s string) string {
	if len(s) > 600 {
		return s[:600] + "..."
	}
	return s
}

// runPlanner: PlanChanges on the whole change list (schema-level changes first, then the table
// changes), `replans` times from the same slice value: `schema apply` plans once for the preview and
// ApplyChanges plans the same slice again. Every plan must have the same statements, the input must be
// left as it was; the observed (judged, compared) plan is the last one.
func runPlanner(sc *scenario, p migrate.PlanApplier, intT string) runRes {
	return guard(func() ([]schema.Change, []failure, error) {
		in := sc.build(intT)
		snap := snapshot(in)
		var more []failure
		var plan *migrate.Plan
		first := ""
		for k := 0; k < replans; k++ {
			var err error
			plan, err = p.PlanChanges(context.Background(), "c04", in)
			if err != nil {
				if k > 0 {
					more = append(more, failure{class: "replan-differs", msg: fmt.Sprintf("PlanChanges run %d of the same slice fails (%v), the first run gave a plan", k+1, err)})
				}
				return nil, nil, err
			}
			if k == 0 {
				first = planCmds(plan)
			} else if c := planCmds(plan); c != first {
				more = append(more, failure{class: "replan-differs", msg: fmt.Sprintf("PlanChanges run %d of the same slice gives {%s}, the first run gave {%s}", k+1, clip(c), clip(first))})
			}
			if snapshot(in) != snap {
				more = append(more, failure{class: "input-mutated", msg: fmt.Sprintf("PlanChanges run %d changed the slice it was given (elements, ModifyTable.Changes or a table's foreign keys)", k+1)})
				snap = snapshot(in)
			}
		}
		src := make([]schema.Change, len(plan.Changes))
		for i, c := range plan.Changes {
			s, ok := c.Source.(schema.Change)
			if !ok {
				return nil, nil, fmt.Errorf("plan change %d has no schema.Change source", i)
			}
			src[i] = s
		}
		return src, more, nil
	})
}

// scenarioCyclic: does the reference graph of the change set (by table name; a
// dropped table referencing itself counts, a created one referencing itself through
// the same object does not) contain a cycle?  Only used to name the failing class.
func scenarioCyclic(sc *scenario) bool {
	dropped := map[int]bool{}
	for _, c := range sc.cs {
		if c.kind == 'D' {
			dropped[c.t.name] = true
		}
	}
	g := map[int][]int{}
	addE := func(t tbl, f fkey) {
		if f.ref.id != t.id {
			g[t.name] = append(g[t.name], f.ref.name)
		}
	}
	dropE := func(f fkey) {
		if dropped[f.ref.name] {
			g[f.ref.name] = append(g[f.ref.name], f.tab.name)
		}
	}
	for _, c := range sc.cs {
		switch c.kind {
		case 'A':
			for _, f := range c.fks {
				addE(c.t, f)
			}
		case 'D':
			for _, f := range c.fks {
				dropE(f)
			}
		case 'M':
			for _, tc := range c.tcs {
				switch tc.kind {
				case '+':
					addE(c.t, tc.f)
				case '~':
					addE(c.t, tc.g)
				case '-':
					dropE(tc.f)
				}
			}
		}
	}
	state := map[int]int{}
	var visit func(int) bool
	visit = func(x int) bool {
		switch state[x] {
		case 1:
			return true
		case 2:
			return false
		}
		state[x] = 1
		for _, y := range g[x] {
			if visit(y) {
				return true
			}
		}
		state[x] = 2
		return false
	}
	for x := range g {
		if visit(x) {
			return true
		}
	}
	return false
}

var seen = map[string]bool{}

// runCase runs one scenario on the three entry points, records case + observations,
// and evaluates the oracle on the Go observations.
func runCase(w *out.W, id string, sc *scenario, tags ...string) {
	if only := os.Getenv("VERIF_SORT_ONLY"); only != "" && only != id {
		return // debugging aid: run a single case of the (deterministic) generator
	}
	line := sc.caseLine()
	if seen[line] {
		w.Count("duplicate-skipped")
		return
	}
	seen[line] = true
	curCase.Store(id)
	curLine.Store(line)
	beat.Add(1)
	if curFile != nil {
		curFile.Truncate(0)
		curFile.WriteAt([]byte(id+" "+line+"\n"), 0)
	}
	in, _ := decode(sc.build("int"))
	cyc := scenarioCyclic(sc)
	hyp := scenarioWF(sc) && scenarioConsistent(sc)
	var obs []string
	nontrivial := false
	hasObj := sc.hasObjects()
	type entry struct {
		name string
		run  func() runRes
	}
	eps := []entry{
		{"sort", func() runRes { return runSort(sc) }},
		{"mysql", func() runRes { return runPlanner(sc, mysql.DefaultPlan, "int") }},
		{"pg", func() runRes { return runPlanner(sc, postgres.DefaultPlan, "integer") }},
	}
	if tidbMode { // stage "tidb": the planner mysql.Open installs for a TiDB server, alone
		eps = []entry{{"tidb", func() runRes { return runPlanner(sc, tidbPlan, "int") }}}
	}
	if sqliteMode { // stage "sqlite": sqlite.DefaultPlan, judged with SQLite's semantics
		eps = []entry{{"sqlite", func() runRes {
			r, off := runSqlite(sc)
			sqliteFKOff = off
			return r
		}}}
	}
	for _, ep := range eps {
		if (objMode || hasObj || sc.hasTypes()) && ep.name == "mysql" {
			continue // the MySQL planner has no object (enum type) changes
		}
		r := ep.run()
		beat.Add(1)
		if r.err != "" {
			obs = append(obs, fmt.Sprintf("%s out=%s", ep.name, r.err))
			w.Violation(id, "planner-"+r.err, fmt.Sprintf("%s: %s; case: %s", ep.name, r.msg, line))
			continue
		}
		verdict, viol := judge(sc, in, r.outp)
		if ep.name != "sort" && len(sc.pre) > 0 {
			// schema-level statements: each one of the change list, once, first (topLevel)
			obs = append(obs, fmt.Sprintf("%s out=%s replay=%s top=%s", ep.name, obsOut(sc, r.outp), verdict, strings.Join(r.top, ",")))
			if want := sc.preLine(); strings.Join(r.top, ",") != want {
				w.Violation(id, "schema-change-not-once", fmt.Sprintf("%s: the executed plan has the schema-level statements [%s], the change list has [%s]; case: %s", ep.name, strings.Join(r.top, ","), want, line))
			}
		} else if sqliteMode {
			// the statements follow the change list for every length: exact order
			fk := "on"
			if sqliteFKOff {
				fk = "off"
				nontrivial = true
			}
			w.Count("fk:" + fk)
			if hyp {
				w.Count("hyp:WF+consistent")
				w.Count("exact:sqlite-predicted-" + verdict) // C04_sqlite_safe predicts ok
			} else {
				w.Count("hyp:not-WF-or-inconsistent")
			}
			obs = append(obs, fmt.Sprintf("%s out=%s fk=%s replay=%s", ep.name, showOut(r.outp), fk, verdict))
		} else if objMode {
			// type part of the catalogue (judgeTypes, written independently of the Coq treplay): a type exists when
			// it is used, is created once, is dropped only when unused
			tv := "ok"
			if len(judgeTypes(sc, r.outp)) > 0 {
				tv = "fail"
			}
			obs = append(obs, fmt.Sprintf("%s out=%s replay=%s types=%s", ep.name, obsOut(sc, r.outp), verdict, tv))
		} else {
			obs = append(obs, fmt.Sprintf("%s out=%s replay=%s", ep.name, obsOut(sc, r.outp), verdict))
		}
		if !hyp {
			viol = nil // outside WF / consistent the property says nothing; the case is compared only
		}
		// the same slice value planned again: holds for every input, inside the hypotheses or not
		for _, v := range r.more {
			w.Violation(id, v.class, fmt.Sprintf("%s: %s; case: %s", ep.name, v.msg, line))
		}
		if objMode || hasObj || sc.hasTypes() {
			// enum types (stage "objects"): the type obligations, evaluated on the Go plan
			for _, v := range judgeTypes(sc, r.outp) {
				w.Violation(id, v.class, fmt.Sprintf("%s: %s; plan %s; case: %s", ep.name, v.msg, showOut(r.outp), line))
			}
		}
		for _, v := range viol {
			class := v.class
			if tidbMode && class == "fk-before-table" && isRepoint(sc, v) {
				// TiDB planner: priority(ModifyForeignKey) = 3 < priority(AddTable) = 4 puts the re-pointed key in
				// front of the CREATE TABLE of its new parent (finding C04-tidb-modfk-priority); its own class
				class = "tidb-modfk-before-table"
			} else if class == "fk-before-table" && cyc && isRepoint(sc, v) {
				// the FK is the To side of a ModifyForeignKey and the change set has a cycle
				// (former finding C04-modfk-detached, repaired in dependsOn; kept as its own class)
				class = "modfk-before-table-detached"
			}
			w.Violation(id, class, fmt.Sprintf("%s: %s; plan %s; case: %s", ep.name, v.msg, showOut(r.outp), line))
		}
		if ep.name == "tidb" {
			// C04_tidb_safe_exact: the TiDB plan fails iff a ModifyForeignKey
			// is re-pointed to a table the change set creates
			if hyp {
				w.Count("hyp:WF+consistent")
				predicted := "ok"
				if tidbRepointsToCreated(sc) {
					predicted = "fail"
				}
				if predicted == verdict {
					w.Count("exact:tidb-predicted-" + verdict)
				} else {
					w.Count("exact:tidb-MISPREDICTED-" + verdict)
				}
			} else {
				w.Count("hyp:not-WF-or-inconsistent")
			}
			if showOut(r.outp) != showOut(in) {
				nontrivial = true
			}
			w.Count("replay:" + verdict)
		}
		if ep.name == "sort" {
			// the hypotheses of the theorems on this case, and C04_safe_exact's prediction
			if hyp && (hasObj || sc.hasTypes()) {
				w.Count("hyp:WF+consistent-with-enum-objects")
			} else if hyp {
				w.Count("hyp:WF+consistent")
				predicted := "ok" // theorem C04_safe
				if predicted == verdict {
					w.Count("exact:predicted-" + verdict)
				} else {
					w.Count("exact:MISPREDICTED-" + verdict)
				}
			} else {
				w.Count("hyp:not-WF-or-inconsistent")
			}
			if showOut(r.outp) != showOut(in) {
				nontrivial = true
			}
			if len(r.outp) != len(in) {
				w.Count("branch:detached-visible")
			}
			w.Count("replay:" + verdict)
		}
	}
	curCase.Store("")
	w.Case(id, line, obs)
	if cyc {
		w.Count("graph:cyclic")
	} else {
		w.Count("graph:acyclic")
	}
	w.Count(fmt.Sprintf("changes:%d", len(sc.cs)))
	for _, t := range tags {
		w.Count(t)
	}
	if nontrivial {
		w.NonTrivial(line)
	}
}

// isRepoint: is the FK of the failure the To side of a ModifyForeignKey of the input?
func isRepoint(sc *scenario, v failure) bool {
	for _, c := range sc.cs {
		if c.kind != 'M' || c.t.name != v.child {
			continue
		}
		for _, tc := range c.tcs {
			if tc.kind == '~' && tc.g.sym == v.sym && tc.g.ref.name == v.ref {
				return true
			}
		}
	}
	return false
}

// ---- scenario construction from (roles, adjacency)

const (
	roleA = 0 // created
	roleD = 1 // dropped
	roleM = 2 // kept and modified
	roleK = 3 // kept, untouched (random stage only)
	roleX = 4 // absent (stage "schemas" only)
)

func cur(n int) tbl { return tbl{n, 2 * n} }
func des(n int) tbl { return tbl{n, 2*n + 1} }

// mkScenario interprets edge i->j ("table i has a foreign key to table j") by the roles:
// a created table declares it (target must survive: A/M/K), a dropped table loses it
// (target must pre-exist: D/M/K); edges that no schema pair can produce (A->D, D->A) are ignored.
// For a modified table: target A -> added FK, target D -> dropped FK, target M/K -> added
// (variant bit 0 clear) or dropped (set).  Variant bit 1 pairs dropped with added FKs into
// ModifyForeignKey (same symbol, re-pointed).  order = permutation of the change list.
func mkScenario(n int, roles []int, adj [][]bool, variant int, order []int) *scenario {
	return mkScenarioQ(n, nil, roles, adj, variant, order)
}

// mkScenarioQ: the same with table i named names[i] (= 100*schema + base name; nil: table i is
// named i and has no schema). Object ids and key symbols go by the index i, so that two tables of
// one base name in two schemas are different objects with different keys. roleX = the table does
// not exist on either side (its edges are ignored).
func mkScenarioQ(n int, names []int, roles []int, adj [][]bool, variant int, order []int) *scenario {
	nameOf := func(i int) int {
		if names == nil {
			return i
		}
		return names[i]
	}
	cur := func(i int) tbl { return tbl{nameOf(i), 2 * i} }
	des := func(i int) tbl { return tbl{nameOf(i), 2*i + 1} }
	sc := &scenario{}
	var cs []chg
	for i := 0; i < n; i++ {
		switch roles[i] {
		case roleA:
			c := chg{kind: 'A', t: des(i)}
			for j := 0; j < n; j++ {
				if adj[i][j] && roles[j] != roleD && roles[j] != roleX {
					c.fks = append(c.fks, fkey{symOff + j, des(i), des(j)})
				}
			}
			cs = append(cs, c)
		case roleD:
			sc.cat.tabs = append(sc.cat.tabs, nameOf(i))
			c := chg{kind: 'D', t: cur(i)}
			for j := 0; j < n; j++ {
				if adj[i][j] && roles[j] != roleA && roles[j] != roleX {
					c.fks = append(c.fks, fkey{j, cur(i), cur(j)})
					sc.cat.fks = append(sc.cat.fks, [3]int{nameOf(i), j, nameOf(j)})
				}
			}
			cs = append(cs, c)
		case roleM:
			sc.cat.tabs = append(sc.cat.tabs, nameOf(i))
			c := chg{kind: 'M', t: des(i)}
			var adds, drops []int
			for j := 0; j < n; j++ {
				if !adj[i][j] || roles[j] == roleX {
					continue
				}
				switch {
				case roles[j] == roleA:
					adds = append(adds, j)
				case roles[j] == roleD:
					drops = append(drops, j)
				case variant&1 == 0:
					adds = append(adds, j)
				default:
					drops = append(drops, j)
				}
			}
			for _, j := range drops {
				sc.cat.fks = append(sc.cat.fks, [3]int{nameOf(i), j, nameOf(j)})
			}
			if variant&1 == 1 {
				c.tcs = append(c.tcs, tch{kind: 'o', k: 1})
			}
			if variant&2 != 0 {
				for len(adds) > 0 && len(drops) > 0 {
					a, d := adds[0], drops[0]
					adds, drops = adds[1:], drops[1:]
					c.tcs = append(c.tcs, tch{kind: '~', f: fkey{d, cur(i), cur(d)}, g: fkey{d, des(i), des(a)}})
				}
			}
			for _, j := range drops {
				c.tcs = append(c.tcs, tch{kind: '-', f: fkey{j, cur(i), cur(j)}})
			}
			for _, j := range adds {
				c.tcs = append(c.tcs, tch{kind: '+', f: fkey{symOff + j, des(i), des(j)}})
			}
			if len(c.tcs) == 0 {
				c.tcs = append(c.tcs, tch{kind: 'o', k: 0})
			}
			cs = append(cs, c)
		case roleK:
			sc.cat.tabs = append(sc.cat.tabs, nameOf(i))
		}
	}
	if order == nil {
		sc.cs = cs
	} else {
		for _, k := range order {
			if k < len(cs) {
				sc.cs = append(sc.cs, cs[k])
			}
		}
	}
	return sc
}

func perms(n int) [][]int {
	if n == 0 {
		return [][]int{{}}
	}
	var res [][]int
	for _, p := range perms(n - 1) {
		for i := 0; i <= len(p); i++ {
			q := append(append(append([]int{}, p[:i]...), n-1), p[i:]...)
			res = append(res, q)
		}
	}
	return res
}

func adjOf(n int, bits uint64) [][]bool {
	adj := make([][]bool, n)
	for i := range adj {
		adj[i] = make([]bool, n)
		for j := range adj[i] {
			adj[i][j] = bits>>(uint(i*n+j))&1 == 1
		}
	}
	return adj
}

func rolesOf(n, split int) []int {
	r := make([]int, n)
	for i := range r {
		r[i] = split % 3
		split /= 3
	}
	return r
}

func pow(b, e int) int {
	r := 1
	for ; e > 0; e-- {
		r *= b
	}
	return r
}

func genExhaustive(w *out.W, tier string) {
	w.Exhaust = true
	w.Rule = "exhaustive: every directed FK graph with self loops over n<=3 tables (2^(n*n)) x every split of the tables into created/dropped/kept-and-modified (3^n) x 4 readings of a modified table's edges (added / dropped / re-pointed by ModifyForeignKey, with or without another column change) x every input order of the change list (n!); identical change sets are run once; hyp:/exact: counters = on how many cases the hypotheses WF+consistent of the theorems hold and the oracle's verdict is the one C04_safe proves (ok). thorough adds every graph over 4 tables x 8 seeded (split, reading, order) choices. Each case runs sqlx.DetachCycles+SortChanges, mysql.DefaultPlan and postgres.DefaultPlan. Non-trivial = the planned order differs from the input order (something was moved or detached); distinct by case line"
	id := 0
	for n := 1; n <= 3; n++ {
		ps := perms(n)
		for bits := uint64(0); bits < 1<<uint(n*n); bits++ {
			adj := adjOf(n, bits)
			for split := 0; split < pow(3, n); split++ {
				roles := rolesOf(n, split)
				for variant := 0; variant < 4; variant++ {
					for _, p := range ps {
						id++
						runCase(w, fmt.Sprintf("e%d-%d", n, id), mkScenario(n, roles, adj, variant, p), fmt.Sprintf("n:%d", n))
					}
				}
			}
		}
	}
	if tier == "thorough" {
		r := rng.FromEnv(0xC04E)
		n := 4
		ps := perms(n)
		for bits := uint64(0); bits < 1<<uint(n*n); bits++ {
			adj := adjOf(n, bits)
			for k := 0; k < 8; k++ {
				id++
				runCase(w, fmt.Sprintf("e%d-%d", n, id), mkScenario(n, rolesOf(n, r.Intn(81)), adj, r.Intn(4), ps[r.Intn(len(ps))]), "n:4")
			}
		}
	}
}

// genRaw: the same enumeration as the exhaustive stage (n <= 3) and a seeded random part, but the
// change list goes to sqlx.SortChanges directly.
func genRaw(w *out.W, tier string) {
	w.Exhaust = true
	w.Rule = "raw SortChanges (no DetachCycles before it): every FK graph with self loops over n<=3 tables x every split created/dropped/modified x 4 readings x every input order, then the three tables s1.t1, s2.t1, s1.t2 (same name in two schemas) and u01a, u01A, u02A (names equal up to letter case) x roles created/dropped/modified/kept x every FK graph without self loops x 2 readings x every order, the pairs u01a/u01A and u01a/\"u01a \" with self loops, then seeded random change sets of 2..8 tables (quick 4000, thorough 60000). Compared: exact output order. Oracle: no panic/loop, output is a permutation of the input. Non-trivial = SortChanges moved something"
	id := 0
	for n := 1; n <= 3; n++ {
		ps := perms(n)
		for bits := uint64(0); bits < 1<<uint(n*n); bits++ {
			adj := adjOf(n, bits)
			for split := 0; split < pow(3, n); split++ {
				roles := rolesOf(n, split)
				for variant := 0; variant < 4; variant++ {
					for _, p := range ps {
						id++
						runRawCase(w, fmt.Sprintf("w%d-%d", n, id), mkScenario(n, roles, adj, variant, p), fmt.Sprintf("n:%d", n))
					}
				}
			}
		}
	}
	// two schemas with same-named tables (round 3): s1.t1, s2.t1, s1.t2 x roles x FK graphs without self
	// loops (cross-schema keys included) x 2 readings x every order -- dependsOn's SameTable / SameSchema
	// tests on forward edges, which DetachCycles never leaves to SortChanges
	{
		run := func(id string, sc *scenario, tags ...string) { runRawCase(w, id, sc, tags...) }
		genThree(&id, "ws", []int{qname(1, 1), qname(2, 1), qname(1, 2)}, "quick", false, run, "two-schemas")
		// names equal up to letter case / a trailing space, no schema object: t01, T01, t02
		genThree(&id, "wk", []int{twin(1, 1), twin(1, 0), twin(2, 0)}, "quick", false, run, "case-twins")
		genTwo(&id, "wk2", []int{twin(1, 1), twin(1, 0)}, run, "case-twins-pair")
		genTwo(&id, "wp2", []int{twin(1, 1), twin(1, 2)}, run, "space-twins-pair")
	}
	r := rng.FromEnv(0xC04A)
	count := 4000
	if tier == "thorough" {
		count = 60000
	}
	for k := 0; k < count; k++ {
		n := 2 + r.Intn(7)
		roles := make([]int, n)
		for i := range roles {
			roles[i] = r.Intn(3)
		}
		adj := make([][]bool, n)
		for i := range adj {
			adj[i] = make([]bool, n)
			for j := range adj[i] {
				adj[i][j] = r.Chance(10+r.Intn(40), 100)
			}
		}
		runRawCase(w, fmt.Sprintf("wr%d", k), mkScenario(n, roles, adj, r.Intn(4), randPerm(r, n)), fmt.Sprintf("n:%d", n))
	}
}

// objScenario: 1..4 tables (created / dropped / modified, sparse FK graph) and 1..3 enum types
// (created / dropped / kept) used by columns of those tables; all changes in random order.
func objScenario(r *rng.R) *scenario {
	n := 1 + r.Intn(4)
	roles := make([]int, n)
	for i := range roles {
		roles[i] = r.Intn(3)
	}
	adj := make([][]bool, n)
	for i := range adj {
		adj[i] = make([]bool, n)
		for j := range adj[i] {
			adj[i][j] = r.Chance(1, 4)
		}
	}
	sc := mkScenario(n, roles, adj, r.Intn(4), nil)
	ne := 1 + r.Intn(3)
	const eC, eX, eK = 0, 1, 2
	erole := make([]int, ne)
	for k := range erole {
		erole[k] = r.Intn(3)
		if erole[k] != eC {
			sc.cat.types = append(sc.cat.types, k)
		}
	}
	for ci := range sc.cs {
		c := &sc.cs[ci]
		for k := 0; k < ne; k++ {
			if !r.Chance(1, 2) {
				continue
			}
			switch c.kind {
			case 'A':
				if erole[k] != eX {
					c.types = append(c.types, 2*k+1)
				}
			case 'D':
				if erole[k] != eC {
					c.types = append(c.types, 2*k)
					sc.cat.uses = append(sc.cat.uses, [2]int{c.t.name, k})
				}
			case 'M':
				switch {
				case erole[k] == eC || (erole[k] == eK && r.Bool()):
					c.tcs = append(c.tcs, tch{kind: 'c', k: r.Intn(2), e: 2*k + 1})
				case erole[k] != eC:
					c.tcs = append(c.tcs, tch{kind: 'c', k: 2 + r.Intn(2), e: 2 * k}) // DropColumn, or ModifyColumn away from the enum
					sc.cat.uses = append(sc.cat.uses, [2]int{c.t.name, k})
				}
			}
		}
		if c.kind == 'M' && len(c.tcs) > 1 {
			p := randPerm(r, len(c.tcs))
			tcs := make([]tch, len(c.tcs))
			for i, j := range p {
				tcs[i] = c.tcs[j]
			}
			c.tcs = tcs
		}
	}
	for k := 0; k < ne; k++ {
		switch erole[k] {
		case eC:
			sc.cs = append(sc.cs, chg{kind: 'P', e: 2*k + 1})
		case eX:
			sc.cs = append(sc.cs, chg{kind: 'Q', e: 2 * k})
		}
	}
	p := randPerm(r, len(sc.cs))
	cs := make([]chg, len(sc.cs))
	for i, j := range p {
		cs[i] = sc.cs[j]
	}
	sc.cs = cs
	return sc
}

// genObj: DetachCycles + SortChanges and postgres.DefaultPlan on change sets with enum objects.
func genObj(w *out.W, tier string) {
	w.Rule = "seeded random change sets with enum objects: 1..4 tables (created/dropped/modified, sparse FK graph incl. cycles) x 1..3 enum types (created/dropped/kept) used by columns (inline in CREATE TABLE, AddColumn, ModifyColumn, DropColumn), all changes in random order; sqlx.DetachCycles+SortChanges and postgres.DefaultPlan (the MySQL planner has no object changes). (inline in CREATE TABLE, AddColumn, ModifyColumn to and away from the type, DropColumn). Tied to the extended model SortObjModel.v (xplan, xpg_sources, replay of the table projection, treplay): exact plan order incl. the enum types of each created/dropped table, replay verdict, types verdict. Oracle: the table/foreign-key catalogue as in the other stages, plus: a type exists when a table or column uses it, is created once, is dropped only when unused. Non-trivial = the planned order differs from the input order"
	r := rng.FromEnv(0xC04C)
	count := 6000
	if tier == "thorough" {
		count = 120000
	}
	for k := 0; k < count; k++ {
		sc := objScenario(r)
		runCase(w, fmt.Sprintf("o%d", k), sc, fmt.Sprintf("changes:%d", len(sc.cs)))
	}
}

func genRandom(w *out.W, tier string) {
	w.Rule = "seeded random: 2..12 tables with roles created/dropped/modified/untouched, edge density 5..60%, a random reading per modified table, random input order and FK order, sometimes a second FK to the same parent and sometimes a reference through the other object of the same table (pointer differs, name equal); 1 case in 10 leaves the theorems' hypotheses (table recreation, wrong ForeignKey.Table of a dropped table, key to a dropped table) and is compared with the model only, the oracle is consulted on the cases that satisfy WF+consistent. Non-trivial = the planned order differs from the input order; distinct by case line"
	r := rng.FromEnv(0xC04)
	count := 12000
	if tier == "thorough" {
		count = 250000
	}
	for k := 0; k < count; k++ {
		n := 2 + r.Intn(11)
		roles := make([]int, n)
		bias := r.Intn(5) // 0..2: mostly one role (create-all / drop-all / modify-all), 3,4: mixed
		for i := range roles {
			switch {
			case bias < 3 && r.Chance(4, 5):
				roles[i] = bias
			default:
				roles[i] = r.Intn(4)
			}
		}
		dens := 5 + r.Intn(56)
		adj := make([][]bool, n)
		for i := range adj {
			adj[i] = make([]bool, n)
			for j := range adj[i] {
				adj[i][j] = r.Chance(dens, 100*(1+n/4))
			}
		}
		if r.Chance(1, 3) { // plant a cycle of random length
			l := 1 + r.Intn(n)
			p := randPerm(r, n)
			for i := 0; i < l; i++ {
				adj[p[i]][p[(i+1)%l]] = true
			}
		}
		order := randPerm(r, n)
		sc := mkScenario(n, roles, adj, r.Intn(4), order)
		// perturbations
		for ci := range sc.cs {
			c := &sc.cs[ci]
			if len(c.fks) > 1 && r.Bool() {
				p := randPerm(r, len(c.fks))
				fks := make([]fkey, len(c.fks))
				for i, j := range p {
					fks[i] = c.fks[j]
				}
				c.fks = fks
			}
			if len(c.tcs) > 1 && r.Bool() {
				p := randPerm(r, len(c.tcs))
				tcs := make([]tch, len(c.tcs))
				for i, j := range p {
					tcs[i] = c.tcs[j]
				}
				c.tcs = tcs
			}
			if c.kind == 'A' && len(c.fks) > 0 && r.Chance(1, 8) { // second FK to the same parent
				f := c.fks[r.Intn(len(c.fks))]
				f.sym += 20
				c.fks = append(c.fks, f)
			}
			if r.Chance(1, 12) { // same table through its other object
				if c.kind != 'M' && len(c.fks) > 0 {
					i := r.Intn(len(c.fks))
					c.fks[i].ref.id ^= 1
				}
			}
		}
		tags := []string{fmt.Sprintf("n:%d", n), fmt.Sprintf("bias:%d", bias)}
		// Outside the theorems' hypotheses (correspondence only, the oracle is not consulted): the
		// shapes sqlx.Diff never emits but the code has arms for. 1 case in 10.
		if r.Chance(1, 10) {
			switch r.Intn(3) {
			case 0: // table recreation: DROP + CREATE of the same name (dependsOn's "Table recreation" arm)
				for _, c := range sc.cs {
					// at most 12 changes: beyond that Go's sort.Slice is no longer the stable insertion sort the
					// executable model uses (the theorems cover every tie-break, the comparison cannot)
					if c.kind == 'A' && len(sc.cs) < 12 {
						i := c.t.name
						sc.cat.tabs = append(sc.cat.tabs, i)
						pos := r.Intn(len(sc.cs) + 1)
						d := chg{kind: 'D', t: cur(i)}
						sc.cs = append(sc.cs[:pos:pos], append([]chg{d}, sc.cs[pos:]...)...)
						tags = append(tags, "nonwf:recreate")
						break
					}
				}
			case 1: // a dropped table's key whose Table field names another table
				for ci := range sc.cs {
					if c := &sc.cs[ci]; c.kind == 'D' && len(c.fks) > 0 {
						c.fks[0].tab = cur((c.t.name + 1) % n)
						tags = append(tags, "nonwf:child-field")
						break
					}
				}
			case 2: // a created table declaring a key to a dropped table
				var a, d = -1, -1
				for ci, c := range sc.cs {
					if c.kind == 'A' && a < 0 {
						a = ci
					}
					if c.kind == 'D' && d < 0 {
						d = ci
					}
				}
				if a >= 0 && d >= 0 {
					sc.cs[a].fks = append(sc.cs[a].fks, fkey{60, sc.cs[a].t, sc.cs[d].t})
					tags = append(tags, "nonwf:key-to-dropped")
				}
			}
		}
		runCase(w, fmt.Sprintf("r%d", k), sc, tags...)
	}
}

// ---- stage "schemas": change sets that span two (three) schemas with same-named tables, optionally
// led by schema-level changes; every case is planned three times from the same slice value.

// autoPre: the schema-level changes a realm diff would put in front: AddSchema for a schema all of
// whose tables (>= 1) are created, DropSchema when all are dropped, ModifySchema otherwise.
func autoPre(sc *scenario) []schg {
	kinds := map[int]map[byte]bool{}
	var order []int
	note := func(q int, k byte) {
		s := qschema(q)
		if s == 0 {
			return
		}
		if kinds[s] == nil {
			kinds[s] = map[byte]bool{}
			order = append(order, s)
		}
		kinds[s][k] = true
	}
	changed := map[int]bool{}
	for _, c := range sc.cs {
		note(c.t.name, c.kind)
		changed[c.t.name] = true
	}
	for _, t := range sc.cat.tabs {
		if !changed[t] {
			note(t, 'K')
		}
	}
	sort.Ints(order)
	var pre []schg
	for _, s := range order {
		k := kinds[s]
		switch {
		case len(k) == 1 && k['A']:
			pre = append(pre, schg{'S', s})
		case len(k) == 1 && k['D']:
			pre = append(pre, schg{'T', s})
		default:
			pre = append(pre, schg{'U', s})
		}
	}
	return pre
}

// bySchema reorders the change list: mode 0 as generated (schema by schema, the order of a realm
// diff), 1 the tables of schema `first` in front, 2 alternating between the schemas, 3 reversed.
func bySchema(cs []chg, mode, first int) []chg {
	var a, b []chg
	for _, c := range cs {
		if qschema(c.t.name) == first {
			a = append(a, c)
		} else {
			b = append(b, c)
		}
	}
	switch mode {
	case 1:
		return append(a, b...)
	case 2:
		var out []chg
		for len(a) > 0 || len(b) > 0 {
			if len(a) > 0 {
				out, a = append(out, a[0]), a[1:]
			}
			if len(b) > 0 {
				out, b = append(out, b[0]), b[1:]
			}
		}
		return out
	case 3:
		out := make([]chg, len(cs))
		for i, c := range cs {
			out[len(cs)-1-i] = c
		}
		return out
	}
	return cs
}

func collides(sc *scenario) bool {
	seen := map[int]int{}
	chk := func(q int) bool {
		if s, ok := seen[qbase(q)]; ok && s != qschema(q) {
			return true
		}
		seen[qbase(q)] = qschema(q)
		return false
	}
	for _, c := range sc.cs {
		if chk(c.t.name) {
			return true
		}
	}
	for _, t := range sc.cat.tabs {
		if chk(t) {
			return true
		}
	}
	return false
}

func schTags(sc *scenario, tags ...string) []string {
	if collides(sc) {
		tags = append(tags, "names:collide-across-schemas")
	} else {
		tags = append(tags, "names:distinct")
	}
	if len(sc.pre) > 0 {
		tags = append(tags, "pre:schema-level-changes-first")
	} else {
		tags = append(tags, "pre:none")
	}
	return tags
}

// ---- stage "large": more than a dozen changes in one plan

// genLarge: 13..40 tables, most of them unrelated (no keys: not in the index map of sortMap, sort key 0), a few
// FK chains, sometimes a cycle; create-all / drop-all / modify-all / mixed; the change list in a random
// order, or children first (child, unrelated ..., parent), or with the drop-only ModifyTables moved to the end.
func genLarge(w *out.W, tier string) {
	if !tidbMode {
		w.Rule = "seeded random change sets of 13..40 changes (Go's sort.Slice is an insertion sort up to 12 elements and pdqsort, not stable, beyond): 60..85% of the tables unrelated (no foreign keys), 1..4 FK chains of 2..6 tables, 1 case in 4 with a planted cycle, 1 in 5 with a few extra edges; roles create-all / drop-all / modify-all (4 readings; a ModifyTable's T.ForeignKeys never lists the keys it adds) / mixed incl. kept tables; order: random / children before parents with unrelated tables between them / drop-only ModifyTables last. Compared with the model: the multiset of planned changes + replay verdict (the order of equal sort keys is pdqsort's); the order is judged by the oracle (reference catalogue, same-value replanning) on the Go plans. Non-trivial = the planned order differs from the input order"
	}
	r := rng.FromEnv(0xC04B)
	count := 2500
	if tier == "thorough" {
		count = 60000
	}
	if tidbMode {
		count = count / 12
	}
	for k := 0; k < count; k++ {
		n := 13 + r.Intn(28)
		adj := make([][]bool, n)
		for i := range adj {
			adj[i] = make([]bool, n)
		}
		p := randPerm(r, n)
		related := n * (15 + r.Intn(26)) / 100
		if related < 3 {
			related = 3
		}
		// chains over the first `related` tables of p
		pos := 0
		for pos+1 < related {
			l := 2 + r.Intn(5)
			if pos+l > related {
				l = related - pos
			}
			for i := 0; i+1 < l; i++ {
				adj[p[pos+i]][p[pos+i+1]] = true
			}
			pos += l
		}
		if r.Chance(1, 4) { // a cycle among related tables
			l := 2 + r.Intn(3)
			for i := 0; i < l; i++ {
				adj[p[i%related]][p[(i+1)%l%related]] = true
			}
		}
		if r.Chance(1, 5) {
			for e := 0; e < 3; e++ {
				adj[p[r.Intn(related)]][p[r.Intn(related)]] = true
			}
		}
		roles := make([]int, n)
		mode := r.Intn(5)
		for i := range roles {
			switch mode {
			case 0, 1, 2:
				roles[i] = mode
			case 3:
				roles[i] = r.Intn(3)
			default:
				roles[i] = r.Intn(4)
			}
		}
		variant := r.Intn(4)
		sc := mkScenarioQ(n, nil, roles, adj, variant, randPerm(r, n))
		if len(sc.cs) < 13 {
			k--
			continue
		}
		place := r.Intn(3)
		switch place {
		case 1: // children first: a table that references another one goes in front of it
			idx := map[int]int{}
			for i, c := range sc.cs {
				idx[c.t.name] = i
			}
			sort.SliceStable(sc.cs, func(a, b int) bool {
				refs := func(x, y chg) bool {
					for _, f := range x.allFKs() {
						if f.ref.name == y.t.name && f.ref.name != x.t.name {
							return true
						}
					}
					return false
				}
				return refs(sc.cs[a], sc.cs[b]) && !refs(sc.cs[b], sc.cs[a])
			})
		case 2: // drop-only ModifyTables last
			var front, back []chg
			for _, c := range sc.cs {
				dropOnly := c.kind == 'M'
				for _, tc := range c.tcs {
					if tc.kind == '+' || tc.kind == '~' {
						dropOnly = false
					}
				}
				if dropOnly {
					back = append(back, c)
				} else {
					front = append(front, c)
				}
			}
			sc.cs = append(front, back...)
		}
		runCase(w, fmt.Sprintf("L%d", k), sc, fmt.Sprintf("roles-mode:%d", mode), fmt.Sprintf("placement:%d", place), fmt.Sprintf("size:%d-%d", len(sc.cs)/10*10, len(sc.cs)/10*10+9))
	}
}

// genThree: three tables with the given identities x every role created/dropped/modified/kept (4^3) x every
// FK graph without self loops (2^6; with self loops 2^9 when selfLoops) x readings of a modified table's
// edges (2; thorough 4, 2 on graphs with self loops) x every input order.
func genThree(id *int, prefix string, names []int, tier string, selfLoops bool, run func(id string, sc *scenario, tags ...string), tag string) {
	n := 3
	ps := perms(n)
	variants := []int{0, 3}
	if tier == "thorough" {
		variants = []int{0, 1, 2, 3}
	}
	for bits := uint64(0); bits < 1<<uint(n*n); bits++ {
		adj := adjOf(n, bits)
		selfLoop := adj[0][0] || adj[1][1] || adj[2][2]
		if selfLoop && !selfLoops {
			continue
		}
		for split := 0; split < pow(4, n); split++ {
			roles := []int{split % 4, split / 4 % 4, split / 16 % 4}
			for _, variant := range variants {
				if selfLoop && variant != 0 && variant != 3 {
					continue
				}
				for _, p := range ps {
					*id++
					sc := mkScenarioQ(n, names, roles, adj, variant, p)
					if len(sc.cs) == 0 {
						continue
					}
					run(fmt.Sprintf("%s-%d", prefix, *id), sc, tag)
				}
			}
		}
	}
}

// genTwo: two tables x every role (4^2) x every FK graph WITH self loops (2^4) x 4 readings x both orders.
func genTwo(id *int, prefix string, names []int, run func(id string, sc *scenario, tags ...string), tag string) {
	n := 2
	for bits := uint64(0); bits < 1<<uint(n*n); bits++ {
		adj := adjOf(n, bits)
		for split := 0; split < pow(4, n); split++ {
			roles := []int{split % 4, split / 4 % 4}
			for variant := 0; variant < 4; variant++ {
				for _, p := range perms(n) {
					*id++
					sc := mkScenarioQ(n, names, roles, adj, variant, p)
					if len(sc.cs) == 0 {
						continue
					}
					run(fmt.Sprintf("%s-%d", prefix, *id), sc, tag)
				}
			}
		}
	}
}

func genSchemas(w *out.W, tier string) {
	w.Exhaust = true
	w.Rule = "change sets over two schemas with same-named tables; every case is planned 3 times from the same slice value (DetachCycles+SortChanges, SortChanges of the same detached list twice, mysql.DefaultPlan, postgres.DefaultPlan): the plans must be identical, the slice, the Changes of its ModifyTables and the tables' ForeignKeys untouched, the LAST plan is the one judged and compared. (a) exhaustive: the three tables s1.t1, s2.t1, s1.t2 x every role created/dropped/modified/kept (4^3) x every FK graph without self loops incl. cross-schema keys (2^6; thorough: with self loops 2^9) x readings of a modified table's edges (quick 2; thorough 4, 2 on graphs with self loops) x every input order. (b) a cycle of length 2 or 3 in schema s1 (all created / all dropped / all modified, 4 readings) x for each cycle table a same-named twin in s2 that is absent/created/dropped/modified/kept (5^L - 1) x twin keys (none / the same cycle among the twins / twin -> its namesake in s1 / namesake -> twin) x order (schema by schema, twins first, alternating, reversed) x with and without the schema-level changes of a realm diff in front (AddSchema when all tables of the schema are created, DropSchema when all are dropped, ModifySchema otherwise). (a') the same three-table family for the names u01a, u01A, t02 of ONE schema (equal up to letter case) and, with self references and 4 readings, the pairs u01a/u01A and u01a/\"u01a \" (trailing space). (c) seeded random: 4..8 tables over 3 schemas x 6 names (t01 t02 t03 u01A u01a \"u01a \") (1 case in 4: one of the three is \"no schema object\"). Oracle as in the other stages (tables identified by (schema, name)) + replan-differs, input-mutated, schema-change-not-once (each schema-level change is in the executed plan exactly once). Non-trivial = the planned order differs from the input order"
	id := 0
	// (a)
	run := func(id string, sc *scenario, tags ...string) { runCase(w, id, sc, schTags(sc, tags...)...) }
	genThree(&id, "sa", []int{qname(1, 1), qname(2, 1), qname(1, 2)}, tier, tier == "thorough", run, "family:a-three-tables")
	// (a') names equal up to letter case in ONE schema: s1.t01, s1.T01, s1.t02 (chains A -> B -> a, ...), and the
	// pair alone with self references (a self-referencing "node" next to "Node" -> "node"); the same with a
	// trailing space ("t01" / "t01 "); thorough: the three-table family for the trailing space too
	genThree(&id, "sk", []int{qname(1, twin(1, 1)), qname(1, twin(1, 0)), qname(1, 2)}, tier, false, run, "family:a-case-twins")
	genTwo(&id, "sk2", []int{qname(1, twin(1, 1)), qname(1, twin(1, 0))}, run, "family:a-case-twins-pair")
	genTwo(&id, "sp2", []int{qname(1, twin(1, 1)), qname(1, twin(1, 2))}, run, "family:a-space-twins-pair")
	if tier == "thorough" {
		genThree(&id, "sp", []int{qname(1, twin(1, 1)), qname(1, twin(1, 2)), qname(1, twin(2, 1))}, tier, false, run, "family:a-space-twins")
	}
	// (b)
	for L := 2; L <= 3; L++ {
		n := 2 * L
		names := make([]int, n)
		for i := 0; i < L; i++ {
			names[i], names[L+i] = qname(1, i+1), qname(2, i+1)
		}
		type base struct{ role, variant int }
		bases := []base{{roleA, 0}, {roleD, 0}, {roleM, 0}, {roleM, 1}, {roleM, 2}, {roleM, 3}}
		twinRoles := []int{roleX, roleA, roleD, roleM, roleK}
		for _, b := range bases {
			for tr := 1; tr < pow(5, L); tr++ {
				roles := make([]int, n)
				x := tr
				for i := 0; i < L; i++ {
					roles[i] = b.role
					roles[L+i] = twinRoles[x%5]
					x /= 5
				}
				for tw := 0; tw < 4; tw++ {
					adj := adjOf(n, 0)
					for i := 0; i < L; i++ {
						adj[i][(i+1)%L] = true
						switch tw {
						case 1:
							adj[L+i][L+(i+1)%L] = true
						case 2:
							adj[L+i][i] = true
						case 3:
							adj[i][L+i] = true
						}
					}
					for om := 0; om < 4; om++ {
						if L == 3 && om == 3 && tier != "thorough" {
							continue
						}
						for pre := 0; pre < 2; pre++ {
							if L == 3 && pre == 0 && tier != "thorough" {
								continue
							}
							id++
							sc := mkScenarioQ(n, names, roles, adj, b.variant, nil)
							sc.cs = bySchema(sc.cs, om, 2)
							if pre == 1 {
								sc.pre = autoPre(sc)
							}
							runCase(w, fmt.Sprintf("sb%d-%d", L, id), sc, schTags(sc, fmt.Sprintf("family:b-cycle%d-with-twins", L), fmt.Sprintf("order-mode:%d", om))...)
						}
					}
				}
			}
		}
	}
	// (c)
	r := rng.FromEnv(0xC045)
	count := 2500
	if tier == "thorough" {
		count = 60000
	}
	for k := 0; k < count; k++ {
		var names []int
		lo := 1
		if r.Chance(1, 4) {
			lo = 0 // one of the three "schemas" is: no *schema.Schema at all (SameSchema(nil, s) = false)
		}
		for s := lo; s < lo+3; s++ {
			for b := 1; b <= 3; b++ {
				names = append(names, qname(s, b))
			}
			names = append(names, qname(s, twin(1, 0)), qname(s, twin(1, 1)), qname(s, twin(1, 2))) // u01A, u01a, "u01a "
		}
		p := randPerm(r, len(names))
		n := 4 + r.Intn(5)
		nm := make([]int, n)
		for i := range nm {
			nm[i] = names[p[i]]
		}
		roles := make([]int, n)
		bias := r.Intn(5)
		for i := range roles {
			if bias < 3 && r.Chance(3, 4) {
				roles[i] = bias
			} else {
				roles[i] = r.Intn(4)
			}
		}
		adj := make([][]bool, n)
		dens := 5 + r.Intn(40)
		for i := range adj {
			adj[i] = make([]bool, n)
			for j := range adj[i] {
				adj[i][j] = r.Chance(dens, 100)
			}
		}
		if r.Chance(1, 2) {
			l := 1 + r.Intn(n)
			q := randPerm(r, n)
			for i := 0; i < l; i++ {
				adj[q[i]][q[(i+1)%l]] = true
			}
		}
		sc := mkScenarioQ(n, nm, roles, adj, r.Intn(4), randPerm(r, n))
		if len(sc.cs) == 0 {
			continue
		}
		if r.Chance(1, 2) {
			sc.pre = autoPre(sc)
		}
		runCase(w, fmt.Sprintf("sc-%d", k), sc, schTags(sc, "family:c-random")...)
	}
}

func randPerm(r *rng.R, n int) []int {
	p := make([]int, n)
	for i := range p {
		p[i] = i
	}
	for i := n - 1; i > 0; i-- {
		j := r.Intn(i + 1)
		p[i], p[j] = p[j], p[i]
	}
	return p
}
