// Command sort generates foreign-key change sets for property C04, runs the real
// planner code on them -- (i) sqlx.DetachCycles + sqlx.SortChanges through the
// verifx re-exports, (ii) mysql.DefaultPlan and postgres.DefaultPlan end to end --
// writes the model's input and the implementation's observations, and evaluates
// the property (reference-catalogue replay, once, effects preserved, no panic / loop)
// directly on what the real code returned.
package main

import (
	"context"
	"flag"
	"fmt"
	"os"
	"os/exec"
	"path/filepath"
	"sort"
	"strings"
	"sync/atomic"
	"syscall"
	"time"

	"ariga.io/atlas/sql/migrate"
	"ariga.io/atlas/sql/mysql"
	"ariga.io/atlas/sql/postgres"
	"ariga.io/atlas/sql/schema"
	"ariga.io/atlas/sql/verifx"

	"verifharness/internal/out"
	"verifharness/internal/rng"
)

var (
	curCase atomic.Value // string: the case being run (for the watchdog)
	beat    atomic.Int64
	curLine atomic.Value // string: its case line
	curFile *os.File // the case being run, for the supervising parent (a Go stack overflow cannot be recovered)
	rawMode bool     // stage "raw": sqlx.SortChanges alone, on the unsorted change list
)

// supervise runs the generator in a child process. Unbounded recursion in the planner
// (= the loop the property excludes) kills a Go process with a fatal error that no
// recover() sees; the parent then reports the case the child was running as the failing input.
func userCPU() time.Duration {
	var ru syscall.Rusage
	if err := syscall.Getrusage(syscall.RUSAGE_SELF, &ru); err != nil {
		return 0
	}
	return time.Duration(ru.Utime.Sec)*time.Second + time.Duration(ru.Utime.Usec)*time.Microsecond
}

func supervise(outDir string) {
	cur := filepath.Join(outDir, "current.txt")
	os.MkdirAll(outDir, 0o755)
	os.Remove(cur)
	cmd := exec.Command(os.Args[0], os.Args[1:]...)
	cmd.Env = append(os.Environ(), "VERIF_SORT_CHILD=1")
	cmd.Stdout = os.Stdout
	err := cmd.Run() // stderr (a stack dump of ~1e5 frames) is dropped
	if err == nil {
		os.Remove(cur)
		return
	}
	b, _ := os.ReadFile(cur)
	id, line, _ := strings.Cut(strings.TrimSpace(string(b)), " ")
	if id == "" {
		fmt.Fprintln(os.Stderr, "sort harness: child failed before the first case:", err)
		os.Exit(2)
	}
	w := out.New(outDir)
	w.Rule = "the planner process died (fatal error: unbounded recursion) on the recorded case; the other cases of this stage were discarded"
	w.Case(id, line, []string{"sort out=crash", "mysql out=crash", "pg out=crash"})
	w.Violation(id, "planner-crash", "fatal error in the planner (stack overflow = it loops) ("+err.Error()+"); case: "+line)
	w.Close()
}

func main() {
	mode := flag.String("mode", "exh", "exh|rnd")
	tier := flag.String("tier", "quick", "quick|thorough")
	outDir := flag.String("out", "", "output directory")
	flag.Parse()
	if *outDir == "" {
		fmt.Fprintln(os.Stderr, "missing -out")
		os.Exit(2)
	}
	if os.Getenv("VERIF_SORT_CHILD") == "" {
		supervise(*outDir)
		return
	}
	w := out.New(*outDir)
	if f, err := os.Create(filepath.Join(*outDir, "current.txt")); err == nil {
		curFile = f
	}
	curCase.Store("")
	// Watchdog: a single planner call that burns 20 s of user CPU without returning is a loop.
	// (CPU time, not wall time: on a loaded machine the process can be descheduled for long.)
	go func() {
		last, cpu0 := int64(-1), userCPU()
		for {
			time.Sleep(500 * time.Millisecond)
			if b := beat.Load(); b != last {
				last, cpu0 = b, userCPU()
			} else if id := curCase.Load().(string); id != "" && userCPU()-cpu0 > 20*time.Second {
				line, _ := curLine.Load().(string)
				w.Case(id, line, []string{"sort out=loop", "mysql out=loop", "pg out=loop"})
				w.Violation(id, "loop", "planner call did not return within 20s of CPU time; case: "+line)
				w.Close()
				os.Exit(0)
			}
		}
	}()
	switch *mode {
	case "exh":
		genExhaustive(w, *tier)
	case "rnd":
		genRandom(w, *tier)
	case "raw":
		rawMode = true
		genRaw(w, *tier)
	case "obj":
		genObj(w, *tier)
	default:
		fmt.Fprintln(os.Stderr, "unknown mode")
		os.Exit(2)
	}
	w.Close()
}

// ---- running the real code

type runRes struct {
	outp []ochg
	err  string // "", "error", "panic", "unmodelled"
	msg  string
}

func decode(cs []schema.Change) ([]ochg, bool) {
	var os []ochg
	for _, c := range cs {
		o, ok := observe(c)
		if !ok {
			return nil, false
		}
		os = append(os, o)
	}
	return os, true
}

func guard(f func() ([]schema.Change, error)) (r runRes) {
	defer func() {
		if p := recover(); p != nil {
			r = runRes{err: "panic", msg: fmt.Sprint(p)}
		}
	}()
	cs, err := f()
	if err != nil {
		return runRes{err: "error", msg: err.Error()}
	}
	os, ok := decode(cs)
	if !ok {
		return runRes{err: "unmodelled", msg: "plan contains a change kind outside the model"}
	}
	return runRes{outp: os}
}

func runSort(sc *scenario) runRes {
	return guard(func() ([]schema.Change, error) {
		d, err := verifx.DetachCycles(sc.build("int"))
		if err != nil {
			return nil, err
		}
		return verifx.SortChanges(d, nil), nil
	})
}

// runRaw: SortChanges alone on the change list as given (no DetachCycles first), so that its
// depth-first search has real work to do: forward edges, 2-cycles of dependsOn, chains.
func runRaw(sc *scenario) runRes {
	return guard(func() ([]schema.Change, error) {
		return verifx.SortChanges(sc.build("int"), nil), nil
	})
}

func multiset(os []ochg) string {
	ss := make([]string, len(os))
	for i, o := range os {
		ss[i] = o.String()
	}
	sort.Strings(ss)
	return strings.Join(ss, " ")
}

// runRawCase: tie on the exact order; oracle = the parts of C04 that hold for every input
// (terminates without panic, output is a permutation of the input).
func runRawCase(w *out.W, id string, sc *scenario, tags ...string) {
	line := sc.caseLine()
	if seen[line] {
		w.Count("duplicate-skipped")
		return
	}
	seen[line] = true
	curCase.Store(id)
	curLine.Store(line)
	beat.Add(1)
	if curFile != nil {
		curFile.Truncate(0)
		curFile.WriteAt([]byte(id+" "+line+"\n"), 0)
	}
	in, _ := decode(sc.build("int"))
	r := runRaw(sc)
	beat.Add(1)
	curCase.Store("")
	if r.err != "" {
		w.Violation(id, "planner-"+r.err, fmt.Sprintf("raw: %s; case: %s", r.msg, line))
		w.Case(id, line, []string{"raw out=" + r.err})
		return
	}
	if multiset(in) != multiset(r.outp) {
		w.Violation(id, "not-once", fmt.Sprintf("raw: SortChanges output %s is not a permutation of its input %s", showOut(r.outp), showOut(in)))
	}
	w.Case(id, line, []string{"raw out=" + showOut(r.outp)})
	for _, t := range tags {
		w.Count(t)
	}
	w.Count(fmt.Sprintf("changes:%d", len(sc.cs)))
	if showOut(r.outp) != showOut(in) {
		w.Count("raw:reordered")
		w.NonTrivial(line)
	} else {
		w.Count("raw:unchanged")
	}
}

func runPlanner(sc *scenario, p migrate.PlanApplier, intT string) runRes {
	return guard(func() ([]schema.Change, error) {
		plan, err := p.PlanChanges(context.Background(), "c04", sc.build(intT))
		if err != nil {
			return nil, err
		}
		src := make([]schema.Change, len(plan.Changes))
		for i, c := range plan.Changes {
			s, ok := c.Source.(schema.Change)
			if !ok {
				return nil, fmt.Errorf("plan change %d has no schema.Change source", i)
			}
			src[i] = s
		}
		return src, nil
	})
}

// scenarioCyclic: does the reference graph of the change set (by table name; a
// dropped table referencing itself counts, a created one referencing itself through
// the same object does not) contain a cycle?  Only used to name the failing class.
func scenarioCyclic(sc *scenario) bool {
	dropped := map[int]bool{}
	for _, c := range sc.cs {
		if c.kind == 'D' {
			dropped[c.t.name] = true
		}
	}
	g := map[int][]int{}
	addE := func(t tbl, f fkey) {
		if f.ref.id != t.id {
			g[t.name] = append(g[t.name], f.ref.name)
		}
	}
	dropE := func(f fkey) {
		if dropped[f.ref.name] {
			g[f.ref.name] = append(g[f.ref.name], f.tab.name)
		}
	}
	for _, c := range sc.cs {
		switch c.kind {
		case 'A':
			for _, f := range c.fks {
				addE(c.t, f)
			}
		case 'D':
			for _, f := range c.fks {
				dropE(f)
			}
		case 'M':
			for _, tc := range c.tcs {
				switch tc.kind {
				case '+':
					addE(c.t, tc.f)
				case '~':
					addE(c.t, tc.g)
				case '-':
					dropE(tc.f)
				}
			}
		}
	}
	state := map[int]int{}
	var visit func(int) bool
	visit = func(x int) bool {
		switch state[x] {
		case 1:
			return true
		case 2:
			return false
		}
		state[x] = 1
		for _, y := range g[x] {
			if visit(y) {
				return true
			}
		}
		state[x] = 2
		return false
	}
	for x := range g {
		if visit(x) {
			return true
		}
	}
	return false
}

var seen = map[string]bool{}

// runCase runs one scenario on the three entry points, records case + observations,
// and evaluates the oracle on the Go observations.
func runCase(w *out.W, id string, sc *scenario, tags ...string) {
	if only := os.Getenv("VERIF_SORT_ONLY"); only != "" && only != id {
		return // debugging aid: run a single case of the (deterministic) generator
	}
	line := sc.caseLine()
	if seen[line] {
		w.Count("duplicate-skipped")
		return
	}
	seen[line] = true
	curCase.Store(id)
	curLine.Store(line)
	beat.Add(1)
	if curFile != nil {
		curFile.Truncate(0)
		curFile.WriteAt([]byte(id+" "+line+"\n"), 0)
	}
	in, _ := decode(sc.build("int"))
	cyc := scenarioCyclic(sc)
	hyp := scenarioWF(sc) && scenarioConsistent(sc)
	var obs []string
	nontrivial := false
	hasObj := sc.hasObjects()
	for _, ep := range []struct {
		name string
		run  func() runRes
	}{
		{"sort", func() runRes { return runSort(sc) }},
		{"mysql", func() runRes { return runPlanner(sc, mysql.DefaultPlan, "int") }},
		{"pg", func() runRes { return runPlanner(sc, postgres.DefaultPlan, "integer") }},
	} {
		if (hasObj || sc.hasTypes()) && ep.name == "mysql" {
			continue // the MySQL planner has no object (enum type) changes
		}
		r := ep.run()
		beat.Add(1)
		if r.err != "" {
			obs = append(obs, fmt.Sprintf("%s out=%s", ep.name, r.err))
			w.Violation(id, "planner-"+r.err, fmt.Sprintf("%s: %s; case: %s", ep.name, r.msg, line))
			continue
		}
		verdict, viol := judge(sc, in, r.outp)
		obs = append(obs, fmt.Sprintf("%s out=%s replay=%s", ep.name, showOut(r.outp), verdict))
		if !hyp {
			viol = nil // outside WF / consistent the property says nothing; the case is compared only
		}
		if hasObj || sc.hasTypes() {
			// enum types: not in the Coq model (oracle-only stage "objects")
			for _, v := range judgeTypes(sc, r.outp) {
				w.Violation(id, v.class, fmt.Sprintf("%s: %s; plan %s; case: %s", ep.name, v.msg, showOut(r.outp), line))
			}
		}
		for _, v := range viol {
			class := v.class
			if class == "fk-before-table" && cyc && isRepoint(sc, v) {
				// the FK is the To side of a ModifyForeignKey and the change set has a cycle
				// (former finding C04-modfk-detached, repaired in dependsOn; kept as its own class)
				class = "modfk-before-table-detached"
			}
			w.Violation(id, class, fmt.Sprintf("%s: %s; plan %s; case: %s", ep.name, v.msg, showOut(r.outp), line))
		}
		if ep.name == "sort" {
			// the hypotheses of the theorems on this case, and C04_safe_exact's prediction
			if hyp && (hasObj || sc.hasTypes()) {
				w.Count("hyp:WF+consistent-with-enum-objects(outside the model)")
			} else if hyp {
				w.Count("hyp:WF+consistent")
				predicted := "ok" // theorem C04_safe
				if predicted == verdict {
					w.Count("exact:predicted-" + verdict)
				} else {
					w.Count("exact:MISPREDICTED-" + verdict)
				}
			} else {
				w.Count("hyp:not-WF-or-inconsistent")
			}
			if showOut(r.outp) != showOut(in) {
				nontrivial = true
			}
			if len(r.outp) != len(in) {
				w.Count("branch:detached-visible")
			}
			w.Count("replay:" + verdict)
		}
	}
	curCase.Store("")
	w.Case(id, line, obs)
	if cyc {
		w.Count("graph:cyclic")
	} else {
		w.Count("graph:acyclic")
	}
	w.Count(fmt.Sprintf("changes:%d", len(sc.cs)))
	for _, t := range tags {
		w.Count(t)
	}
	if nontrivial {
		w.NonTrivial(line)
	}
}

// isRepoint: is the FK of the failure the To side of a ModifyForeignKey of the input?
func isRepoint(sc *scenario, v failure) bool {
	for _, c := range sc.cs {
		if c.kind != 'M' || c.t.name != v.child {
			continue
		}
		for _, tc := range c.tcs {
			if tc.kind == '~' && tc.g.sym == v.sym && tc.g.ref.name == v.ref {
				return true
			}
		}
	}
	return false
}

// ---- scenario construction from (roles, adjacency)

const (
	roleA = 0 // created
	roleD = 1 // dropped
	roleM = 2 // kept and modified
	roleK = 3 // kept, untouched (random stage only)
)

func cur(n int) tbl { return tbl{n, 2 * n} }
func des(n int) tbl { return tbl{n, 2*n + 1} }

// mkScenario interprets edge i->j ("table i has a foreign key to table j") by the roles:
// a created table declares it (target must survive: A/M/K), a dropped table loses it
// (target must pre-exist: D/M/K); edges that no schema pair can produce (A->D, D->A) are ignored.
// For a modified table: target A -> added FK, target D -> dropped FK, target M/K -> added
// (variant bit 0 clear) or dropped (set).  Variant bit 1 pairs dropped with added FKs into
// ModifyForeignKey (same symbol, re-pointed).  order = permutation of the change list.
func mkScenario(n int, roles []int, adj [][]bool, variant int, order []int) *scenario {
	sc := &scenario{}
	var cs []chg
	for i := 0; i < n; i++ {
		switch roles[i] {
		case roleA:
			c := chg{kind: 'A', t: des(i)}
			for j := 0; j < n; j++ {
				if adj[i][j] && roles[j] != roleD {
					c.fks = append(c.fks, fkey{20 + j, des(i), des(j)})
				}
			}
			cs = append(cs, c)
		case roleD:
			sc.cat.tabs = append(sc.cat.tabs, i)
			c := chg{kind: 'D', t: cur(i)}
			for j := 0; j < n; j++ {
				if adj[i][j] && roles[j] != roleA {
					c.fks = append(c.fks, fkey{j, cur(i), cur(j)})
					sc.cat.fks = append(sc.cat.fks, [3]int{i, j, j})
				}
			}
			cs = append(cs, c)
		case roleM:
			sc.cat.tabs = append(sc.cat.tabs, i)
			c := chg{kind: 'M', t: des(i)}
			var adds, drops []int
			for j := 0; j < n; j++ {
				if !adj[i][j] {
					continue
				}
				switch {
				case roles[j] == roleA:
					adds = append(adds, j)
				case roles[j] == roleD:
					drops = append(drops, j)
				case variant&1 == 0:
					adds = append(adds, j)
				default:
					drops = append(drops, j)
				}
			}
			for _, j := range drops {
				sc.cat.fks = append(sc.cat.fks, [3]int{i, j, j})
			}
			if variant&1 == 1 {
				c.tcs = append(c.tcs, tch{kind: 'o', k: 1})
			}
			if variant&2 != 0 {
				for len(adds) > 0 && len(drops) > 0 {
					a, d := adds[0], drops[0]
					adds, drops = adds[1:], drops[1:]
					c.tcs = append(c.tcs, tch{kind: '~', f: fkey{d, cur(i), cur(d)}, g: fkey{d, des(i), des(a)}})
				}
			}
			for _, j := range drops {
				c.tcs = append(c.tcs, tch{kind: '-', f: fkey{j, cur(i), cur(j)}})
			}
			for _, j := range adds {
				c.tcs = append(c.tcs, tch{kind: '+', f: fkey{20 + j, des(i), des(j)}})
			}
			if len(c.tcs) == 0 {
				c.tcs = append(c.tcs, tch{kind: 'o', k: 0})
			}
			cs = append(cs, c)
		case roleK:
			sc.cat.tabs = append(sc.cat.tabs, i)
		}
	}
	if order == nil {
		sc.cs = cs
	} else {
		for _, k := range order {
			if k < len(cs) {
				sc.cs = append(sc.cs, cs[k])
			}
		}
	}
	return sc
}

func perms(n int) [][]int {
	if n == 0 {
		return [][]int{{}}
	}
	var res [][]int
	for _, p := range perms(n - 1) {
		for i := 0; i <= len(p); i++ {
			q := append(append(append([]int{}, p[:i]...), n-1), p[i:]...)
			res = append(res, q)
		}
	}
	return res
}

func adjOf(n int, bits uint64) [][]bool {
	adj := make([][]bool, n)
	for i := range adj {
		adj[i] = make([]bool, n)
		for j := range adj[i] {
			adj[i][j] = bits>>(uint(i*n+j))&1 == 1
		}
	}
	return adj
}

func rolesOf(n, split int) []int {
	r := make([]int, n)
	for i := range r {
		r[i] = split % 3
		split /= 3
	}
	return r
}

func pow(b, e int) int {
	r := 1
	for ; e > 0; e-- {
		r *= b
	}
	return r
}

func genExhaustive(w *out.W, tier string) {
	w.Exhaust = true
	w.Rule = "exhaustive: every directed FK graph with self loops over n<=3 tables (2^(n*n)) x every split of the tables into created/dropped/kept-and-modified (3^n) x 4 readings of a modified table's edges (added / dropped / re-pointed by ModifyForeignKey, with or without another column change) x every input order of the change list (n!); identical change sets are run once; hyp:/exact: counters = on how many cases the hypotheses WF+consistent of the theorems hold and the oracle's verdict is the one C04_safe proves (ok). thorough adds every graph over 4 tables x 8 seeded (split, reading, order) choices. Each case runs sqlx.DetachCycles+SortChanges, mysql.DefaultPlan and postgres.DefaultPlan. Non-trivial = the planned order differs from the input order (something was moved or detached); distinct by case line"
	id := 0
	for n := 1; n <= 3; n++ {
		ps := perms(n)
		for bits := uint64(0); bits < 1<<uint(n*n); bits++ {
			adj := adjOf(n, bits)
			for split := 0; split < pow(3, n); split++ {
				roles := rolesOf(n, split)
				for variant := 0; variant < 4; variant++ {
					for _, p := range ps {
						id++
						runCase(w, fmt.Sprintf("e%d-%d", n, id), mkScenario(n, roles, adj, variant, p), fmt.Sprintf("n:%d", n))
					}
				}
			}
		}
	}
	if tier == "thorough" {
		r := rng.FromEnv(0xC04E)
		n := 4
		ps := perms(n)
		for bits := uint64(0); bits < 1<<uint(n*n); bits++ {
			adj := adjOf(n, bits)
			for k := 0; k < 8; k++ {
				id++
				runCase(w, fmt.Sprintf("e%d-%d", n, id), mkScenario(n, rolesOf(n, r.Intn(81)), adj, r.Intn(4), ps[r.Intn(len(ps))]), "n:4")
			}
		}
	}
}

// genRaw: the same enumeration as the exhaustive stage (n <= 3) and a seeded random part, but the
// change list goes to sqlx.SortChanges directly.
func genRaw(w *out.W, tier string) {
	w.Exhaust = true
	w.Rule = "raw SortChanges (no DetachCycles before it): every FK graph with self loops over n<=3 tables x every split created/dropped/modified x 4 readings x every input order, then seeded random change sets of 2..8 tables (quick 4000, thorough 60000). Compared: exact output order. Oracle: no panic/loop, output is a permutation of the input. Non-trivial = SortChanges moved something"
	id := 0
	for n := 1; n <= 3; n++ {
		ps := perms(n)
		for bits := uint64(0); bits < 1<<uint(n*n); bits++ {
			adj := adjOf(n, bits)
			for split := 0; split < pow(3, n); split++ {
				roles := rolesOf(n, split)
				for variant := 0; variant < 4; variant++ {
					for _, p := range ps {
						id++
						runRawCase(w, fmt.Sprintf("w%d-%d", n, id), mkScenario(n, roles, adj, variant, p), fmt.Sprintf("n:%d", n))
					}
				}
			}
		}
	}
	r := rng.FromEnv(0xC04A)
	count := 4000
	if tier == "thorough" {
		count = 60000
	}
	for k := 0; k < count; k++ {
		n := 2 + r.Intn(7)
		roles := make([]int, n)
		for i := range roles {
			roles[i] = r.Intn(3)
		}
		adj := make([][]bool, n)
		for i := range adj {
			adj[i] = make([]bool, n)
			for j := range adj[i] {
				adj[i][j] = r.Chance(10+r.Intn(40), 100)
			}
		}
		runRawCase(w, fmt.Sprintf("wr%d", k), mkScenario(n, roles, adj, r.Intn(4), randPerm(r, n)), fmt.Sprintf("n:%d", n))
	}
}

// objScenario: 1..4 tables (created / dropped / modified, sparse FK graph) and 1..3 enum types
// (created / dropped / kept) used by columns of those tables; all changes in random order.
func objScenario(r *rng.R) *scenario {
	n := 1 + r.Intn(4)
	roles := make([]int, n)
	for i := range roles {
		roles[i] = r.Intn(3)
	}
	adj := make([][]bool, n)
	for i := range adj {
		adj[i] = make([]bool, n)
		for j := range adj[i] {
			adj[i][j] = r.Chance(1, 4)
		}
	}
	sc := mkScenario(n, roles, adj, r.Intn(4), nil)
	ne := 1 + r.Intn(3)
	const eC, eX, eK = 0, 1, 2
	erole := make([]int, ne)
	for k := range erole {
		erole[k] = r.Intn(3)
		if erole[k] != eC {
			sc.cat.types = append(sc.cat.types, k)
		}
	}
	for ci := range sc.cs {
		c := &sc.cs[ci]
		for k := 0; k < ne; k++ {
			if !r.Chance(1, 2) {
				continue
			}
			switch c.kind {
			case 'A':
				if erole[k] != eX {
					c.types = append(c.types, 2*k+1)
				}
			case 'D':
				if erole[k] != eC {
					c.types = append(c.types, 2*k)
					sc.cat.uses = append(sc.cat.uses, [2]int{c.t.name, k})
				}
			case 'M':
				switch {
				case erole[k] == eC || (erole[k] == eK && r.Bool()):
					c.tcs = append(c.tcs, tch{kind: 'c', k: r.Intn(2), e: 2*k + 1})
				case erole[k] != eC:
					c.tcs = append(c.tcs, tch{kind: 'c', k: 2, e: 2 * k})
					sc.cat.uses = append(sc.cat.uses, [2]int{c.t.name, k})
				}
			}
		}
		if c.kind == 'M' && len(c.tcs) > 1 {
			p := randPerm(r, len(c.tcs))
			tcs := make([]tch, len(c.tcs))
			for i, j := range p {
				tcs[i] = c.tcs[j]
			}
			c.tcs = tcs
		}
	}
	for k := 0; k < ne; k++ {
		switch erole[k] {
		case eC:
			sc.cs = append(sc.cs, chg{kind: 'P', e: 2*k + 1})
		case eX:
			sc.cs = append(sc.cs, chg{kind: 'Q', e: 2 * k})
		}
	}
	p := randPerm(r, len(sc.cs))
	cs := make([]chg, len(sc.cs))
	for i, j := range p {
		cs[i] = sc.cs[j]
	}
	sc.cs = cs
	return sc
}

// genObj: DetachCycles + SortChanges and postgres.DefaultPlan on change sets with enum objects.
func genObj(w *out.W, tier string) {
	w.Rule = "seeded random change sets with enum objects: 1..4 tables (created/dropped/modified, sparse FK graph incl. cycles) x 1..3 enum types (created/dropped/kept) used by columns (inline in CREATE TABLE, AddColumn, ModifyColumn, DropColumn), all changes in random order; sqlx.DetachCycles+SortChanges and postgres.DefaultPlan (the MySQL planner has no object changes). ORACLE-ONLY stage: enum types are not in the Coq model, nothing is compared. Oracle: the table/foreign-key catalogue as in the other stages, plus: a type exists when a table or column uses it, is created once, is dropped only when unused. Non-trivial = the planned order differs from the input order"
	r := rng.FromEnv(0xC04C)
	count := 6000
	if tier == "thorough" {
		count = 120000
	}
	for k := 0; k < count; k++ {
		sc := objScenario(r)
		runCase(w, fmt.Sprintf("o%d", k), sc, fmt.Sprintf("changes:%d", len(sc.cs)))
	}
}

func genRandom(w *out.W, tier string) {
	w.Rule = "seeded random: 2..12 tables with roles created/dropped/modified/untouched, edge density 5..60%, a random reading per modified table, random input order and FK order, sometimes a second FK to the same parent and sometimes a reference through the other object of the same table (pointer differs, name equal); 1 case in 10 leaves the theorems' hypotheses (table recreation, wrong ForeignKey.Table of a dropped table, key to a dropped table) and is compared with the model only, the oracle is consulted on the cases that satisfy WF+consistent. Non-trivial = the planned order differs from the input order; distinct by case line"
	r := rng.FromEnv(0xC04)
	count := 12000
	if tier == "thorough" {
		count = 250000
	}
	for k := 0; k < count; k++ {
		n := 2 + r.Intn(11)
		roles := make([]int, n)
		bias := r.Intn(5) // 0..2: mostly one role (create-all / drop-all / modify-all), 3,4: mixed
		for i := range roles {
			switch {
			case bias < 3 && r.Chance(4, 5):
				roles[i] = bias
			default:
				roles[i] = r.Intn(4)
			}
		}
		dens := 5 + r.Intn(56)
		adj := make([][]bool, n)
		for i := range adj {
			adj[i] = make([]bool, n)
			for j := range adj[i] {
				adj[i][j] = r.Chance(dens, 100*(1+n/4))
			}
		}
		if r.Chance(1, 3) { // plant a cycle of random length
			l := 1 + r.Intn(n)
			p := randPerm(r, n)
			for i := 0; i < l; i++ {
				adj[p[i]][p[(i+1)%l]] = true
			}
		}
		order := randPerm(r, n)
		sc := mkScenario(n, roles, adj, r.Intn(4), order)
		// perturbations
		for ci := range sc.cs {
			c := &sc.cs[ci]
			if len(c.fks) > 1 && r.Bool() {
				p := randPerm(r, len(c.fks))
				fks := make([]fkey, len(c.fks))
				for i, j := range p {
					fks[i] = c.fks[j]
				}
				c.fks = fks
			}
			if len(c.tcs) > 1 && r.Bool() {
				p := randPerm(r, len(c.tcs))
				tcs := make([]tch, len(c.tcs))
				for i, j := range p {
					tcs[i] = c.tcs[j]
				}
				c.tcs = tcs
			}
			if c.kind == 'A' && len(c.fks) > 0 && r.Chance(1, 8) { // second FK to the same parent
				f := c.fks[r.Intn(len(c.fks))]
				f.sym += 20
				c.fks = append(c.fks, f)
			}
			if r.Chance(1, 12) { // same table through its other object
				if c.kind != 'M' && len(c.fks) > 0 {
					i := r.Intn(len(c.fks))
					c.fks[i].ref.id ^= 1
				}
			}
		}
		tags := []string{fmt.Sprintf("n:%d", n), fmt.Sprintf("bias:%d", bias)}
		// Outside the theorems' hypotheses (correspondence only, the oracle is not consulted): the
		// shapes sqlx.Diff never emits but the code has arms for. 1 case in 10.
		if r.Chance(1, 10) {
			switch r.Intn(3) {
			case 0: // table recreation: DROP + CREATE of the same name (dependsOn's "Table recreation" arm)
				for _, c := range sc.cs {
					// at most 12 changes: beyond that Go's sort.Slice is no longer the stable insertion sort the
					// executable model uses (the theorems cover every tie-break, the comparison cannot)
					if c.kind == 'A' && len(sc.cs) < 12 {
						i := c.t.name
						sc.cat.tabs = append(sc.cat.tabs, i)
						pos := r.Intn(len(sc.cs) + 1)
						d := chg{kind: 'D', t: cur(i)}
						sc.cs = append(sc.cs[:pos:pos], append([]chg{d}, sc.cs[pos:]...)...)
						tags = append(tags, "nonwf:recreate")
						break
					}
				}
			case 1: // a dropped table's key whose Table field names another table
				for ci := range sc.cs {
					if c := &sc.cs[ci]; c.kind == 'D' && len(c.fks) > 0 {
						c.fks[0].tab = cur((c.t.name + 1) % n)
						tags = append(tags, "nonwf:child-field")
						break
					}
				}
			case 2: // a created table declaring a key to a dropped table
				var a, d = -1, -1
				for ci, c := range sc.cs {
					if c.kind == 'A' && a < 0 {
						a = ci
					}
					if c.kind == 'D' && d < 0 {
						d = ci
					}
				}
				if a >= 0 && d >= 0 {
					sc.cs[a].fks = append(sc.cs[a].fks, fkey{60, sc.cs[a].t, sc.cs[d].t})
					tags = append(tags, "nonwf:key-to-dropped")
				}
			}
		}
		runCase(w, fmt.Sprintf("r%d", k), sc, tags...)
	}
}

func randPerm(r *rng.R, n int) []int {
	p := make([]int, n)
	for i := range p {
		p[i] = i
	}
	for i := n - 1; i > 0; i-- {
		j := r.Intn(i + 1)
		p[i], p[j] = p[j], p[i]
	}
	return p
}
