package main

import (
	"context"
	"fmt"
	"strings"

	"ariga.io/atlas/sql/migrate"
	"ariga.io/atlas/sql/schema"
	"ariga.io/atlas/sql/sqlite"

	"verifharness/internal/out"
	"verifharness/internal/rng"
)

// Stage "sqlite": sql/sqlite/migrate.go, planApply.PlanChanges -- no DetachCycles, no SortChanges: the
// statements follow the change list; the plan is bracketed by PRAGMA foreign_keys = off / on when it drops a
// table or rebuilds one (a ModifyTable that is not alterable).
var (
	sqliteMode  bool
	sqliteFKOff bool // the plan being judged is bracketed (enforcement off)
)

const pragmaOff, pragmaOn = "PRAGMA foreign_keys = off", "PRAGMA foreign_keys = on"

// runSqlite: PlanChanges `replans` times from the same slice value; the sources of the statements in order
// (consecutive statements of one change -- the rebuild of a table -- count once) and whether the plan is bracketed.
func runSqlite(sc *scenario) (r runRes, fkOff bool) {
	r = guard(func() ([]schema.Change, []failure, error) {
		in := sc.build("integer")
		snap := snapshot(in)
		var more []failure
		var plan *migrate.Plan
		first := ""
		for k := 0; k < replans; k++ {
			var err error
			plan, err = sqlite.DefaultPlan.PlanChanges(context.Background(), "c04", in)
			if err != nil {
				return nil, nil, err
			}
			if k == 0 {
				first = planCmds(plan)
			} else if c := planCmds(plan); c != first {
				more = append(more, failure{class: "replan-differs", msg: fmt.Sprintf("PlanChanges run %d of the same slice gives {%s}, the first run gave {%s}", k+1, clip(c), clip(first))})
			}
			if snapshot(in) != snap {
				more = append(more, failure{class: "input-mutated", msg: fmt.Sprintf("PlanChanges run %d changed the slice it was given", k+1)})
				snap = snapshot(in)
			}
		}
		cs := plan.Changes
		if n := len(cs); n >= 2 && cs[0].Cmd == pragmaOff && cs[n-1].Cmd == pragmaOn {
			fkOff = true
			cs = cs[1 : n-1]
		}
		// alterTable gives a statement the sub-change as its source: map it back to its ModifyTable
		parent := map[schema.Change]schema.Change{}
		for _, c := range in {
			if m, ok := c.(*schema.ModifyTable); ok {
				for _, x := range m.Changes {
					parent[x] = m
				}
			}
		}
		var src []schema.Change
		for i, c := range cs {
			if c.Cmd == pragmaOff || c.Cmd == pragmaOn {
				more = append(more, failure{class: "sqlite-pragma-inside", msg: fmt.Sprintf("statement %d of the plan is %q", i, c.Cmd)})
				continue
			}
			s, ok := c.Source.(schema.Change)
			if !ok {
				continue // the INSERT .. SELECT of a table rebuild has no source: part of the ModifyTable around it
			}
			if a, ok := s.(*schema.AddTable); ok && strings.HasPrefix(a.T.Name, "new_") {
				continue // CREATE TABLE new_t of a rebuild: the DROP / RENAME that follow carry the ModifyTable
			}
			if p, ok := parent[s]; ok {
				s = p
			}
			if len(src) > 0 && src[len(src)-1] == s {
				continue
			}
			src = append(src, s)
		}
		return src, more, nil
	})
	return r, fkOff
}

func genSqlite(w *out.W, tier string) {
	w.Exhaust = true
	w.Rule = "sqlite.DefaultPlan.PlanChanges (no DetachCycles / SortChanges: statements in the order of the change list; PRAGMA foreign_keys = off/on around the plan iff it drops a table or rebuilds one), planned twice from the same slice value. Compared with the model (SortSqliteModel.v): exact source order (consecutive statements of one change once), fk=off|on, replay verdict of the SQLite catalogue. Oracle (Go side, SQLite semantics: a key to a missing table is legal; DROP TABLE of a referenced table is legal only with enforcement off): double-create, double-drop, modify-missing-table, dropfk-not-live, drop-referenced (enforcement on), not-once, effects-changed, replan-differs, input-mutated, sqlite-pragma-inside. (a) exhaustive: every FK graph with self loops over n<=2 tables x every split x 4 readings x every order; (b) n=3: every graph x every split (quick: one pair in three), seeded reading and order, ModifyTables spiced with AddColumn / DropColumn; (c) seeded random change sets of 4..30 tables, all roles, random order. Non-trivial = the plan is bracketed"
	r := rng.FromEnv(0xC045)
	id := 0
	for n := 1; n <= 2; n++ {
		ps := perms(n)
		for bits := uint64(0); bits < 1<<uint(n*n); bits++ {
			adj := adjOf(n, bits)
			for split := 0; split < pow(3, n); split++ {
				for variant := 0; variant < 4; variant++ {
					for _, p := range ps {
						id++
						runCase(w, fmt.Sprintf("qa%d-%d", n, id), mkScenario(n, rolesOf(n, split), adj, variant, p), "family:a")
					}
				}
			}
		}
	}
	{
		n := 3
		ps := perms(n)
		for bits := uint64(0); bits < 1<<uint(n*n); bits++ {
			adj := adjOf(n, bits)
			for split := 0; split < pow(3, n); split++ {
				id++
				if tier != "thorough" && id%3 != 0 {
					continue
				}
				sc := mkScenario(n, rolesOf(n, split), adj, r.Intn(4), ps[r.Intn(len(ps))])
				if r.Bool() {
					spice(r, sc)
				}
				runCase(w, fmt.Sprintf("qb-%d", id), sc, "family:b")
			}
		}
	}
	count := 1500
	if tier == "thorough" {
		count = 40000
	}
	for k := 0; k < count; k++ {
		n := 4 + r.Intn(27)
		roles := make([]int, n)
		mode := r.Intn(4)
		for i := range roles {
			switch mode {
			case 0: // only creations and alterable modifications: no bracket
				roles[i] = []int{roleA, roleK, roleM}[r.Intn(3)]
			default:
				roles[i] = r.Intn(4)
			}
		}
		adj := make([][]bool, n)
		for i := range adj {
			adj[i] = make([]bool, n)
			for j := range adj[i] {
				adj[i][j] = r.Chance(1, 2+n/2) && !(mode == 0 && roles[i] == roleM)
			}
		}
		sc := mkScenarioQ(n, nil, roles, adj, r.Intn(4), randPerm(r, n))
		if mode == 0 { // ModifyTables with plain ADD COLUMNs only
			for i := range sc.cs {
				if sc.cs[i].kind == 'M' {
					sc.cs[i].tcs = []tch{{kind: 'o', k: 2 * r.Intn(4)}}
				}
			}
		} else {
			spice(r, sc)
		}
		if len(sc.cs) == 0 {
			k--
			continue
		}
		runCase(w, fmt.Sprintf("qc%d", k), sc, "family:c", fmt.Sprintf("roles-mode:%d", mode))
	}
}
