package main

import (
	"fmt"
	"sort"
	"strings"
)

// refcat is the reference catalogue of property C04, written independently of the
// Coq [replay]: which tables exist and which foreign keys are live.
type refcat struct {
	tabs map[int]bool
	live map[[2]int]int // (child, symbol) -> parent
}

func newCat(c catalogue) *refcat {
	r := &refcat{tabs: map[int]bool{}, live: map[[2]int]int{}}
	for _, t := range c.tabs {
		r.tabs[t] = true
	}
	for _, f := range c.fks {
		r.live[[2]int{f[0], f[1]}] = f[2]
	}
	return r
}

type failure struct {
	class, msg      string
	child, sym, ref int // the FK concerned by an fk-before-table failure
}

// step applies one planned change. strict failures are the ones of the property
// (they decide the replay verdict). lenient = only compute the effects (finalState).
func (r *refcat) step(o ochg, lenient bool) (strict, soft []failure) {
	fail := func(class, f string, a ...any) {
		strict = append(strict, failure{class: class, msg: fmt.Sprintf(f, a...)})
	}
	failFK := func(fk ofk, f string, a ...any) {
		strict = append(strict, failure{class: "fk-before-table", msg: fmt.Sprintf(f, a...), child: o.t, sym: fk.sym, ref: fk.ref})
	}
	switch o.kind {
	case 'P', 'Q':
		// enum objects are outside the table / foreign-key catalogue (judgeTypes)
	case 'A':
		if r.tabs[o.t] {
			fail("double-create", "table %d created while it exists", o.t)
		}
		r.tabs[o.t] = true
		for _, f := range o.fks {
			if !r.tabs[f.ref] && !sqliteMode { // SQLite: a key to a missing table is legal
				failFK(f, "CREATE TABLE %d declares FK %d to table %d which does not exist yet", o.t, f.sym, f.ref)
			}
			r.live[[2]int{o.t, f.sym}] = f.ref
		}
	case 'D':
		if !r.tabs[o.t] {
			fail("double-drop", "table %d dropped while it does not exist", o.t)
		}
		for k, p := range r.live {
			if p == o.t && k[0] != o.t && !(sqliteMode && sqliteFKOff) { // SQLite with enforcement off: legal
				fail("drop-referenced", "table %d dropped while FK %d of table %d still points at it", o.t, k[1], k[0])
			}
		}
		delete(r.tabs, o.t)
		for k := range r.live {
			if k[0] == o.t {
				delete(r.live, k)
			}
		}
	case 'M':
		if !r.tabs[o.t] {
			fail("modify-missing-table", "table %d altered while it does not exist", o.t)
		}
		for _, tc := range o.tcs {
			switch tc.kind {
			case '+':
				if !r.tabs[tc.f.ref] && !sqliteMode {
					failFK(tc.f, "ALTER TABLE %d adds FK %d to table %d which does not exist", o.t, tc.f.sym, tc.f.ref)
				}
				r.live[[2]int{o.t, tc.f.sym}] = tc.f.ref
			case '-':
				if _, ok := r.live[[2]int{o.t, tc.f.sym}]; !ok && !lenient {
					fail("dropfk-not-live", "ALTER TABLE %d drops FK %d which is not live", o.t, tc.f.sym)
				}
				delete(r.live, [2]int{o.t, tc.f.sym})
			case '~':
				if _, ok := r.live[[2]int{o.t, tc.f.sym}]; !ok && !lenient {
					fail("dropfk-not-live", "ALTER TABLE %d re-points FK %d which is not live", o.t, tc.f.sym)
				}
				delete(r.live, [2]int{o.t, tc.f.sym})
				if !r.tabs[tc.g.ref] && !sqliteMode {
					failFK(tc.g, "ALTER TABLE %d re-points FK %d to table %d which does not exist", o.t, tc.g.sym, tc.g.ref)
				}
				r.live[[2]int{o.t, tc.g.sym}] = tc.g.ref
			}
		}
	}
	return
}

func (r *refcat) String() string {
	var ts, fs []string
	for t := range r.tabs {
		ts = append(ts, fmt.Sprint(t))
	}
	for k, p := range r.live {
		fs = append(fs, fmt.Sprintf("%d.%d>%d", k[0], k[1], p))
	}
	sort.Strings(ts)
	sort.Strings(fs)
	return strings.Join(ts, ",") + "|" + strings.Join(fs, ",")
}

// finalState: effects of a change list without any ordering requirement.
func finalState(c catalogue, l []ochg) string {
	r := newCat(c)
	for _, o := range l {
		r.step(o, true)
	}
	return r.String()
}

func tableEffects(l []ochg) string {
	m := map[string]int{}
	for _, o := range l {
		if o.kind != 'M' {
			m[fmt.Sprintf("%c%d", o.kind, o.t)]++
		}
	}
	var ks []string
	for k, v := range m {
		ks = append(ks, fmt.Sprintf("%s*%d", k, v))
	}
	sort.Strings(ks)
	return strings.Join(ks, " ")
}

// judge evaluates property C04 on one observed plan of the real code.
// It returns the replay verdict ("ok"/"fail") and the violations found.
func judge(sc *scenario, in, outp []ochg) (string, []failure) {
	var viol []failure
	r := newCat(sc.cat)
	verdict := "ok"
	for i, o := range outp {
		strict, soft := r.step(o, false)
		for _, f := range strict {
			verdict = "fail"
			f.msg = fmt.Sprintf("step %d (%s): %s", i, o.String(), f.msg)
			viol = append(viol, f)
		}
		for _, f := range soft {
			f.msg = fmt.Sprintf("step %d (%s): %s", i, o.String(), f.msg)
			viol = append(viol, f)
		}
	}
	if a, b := tableEffects(in), tableEffects(outp); a != b {
		viol = append(viol, failure{class: "not-once", msg: fmt.Sprintf("table creations/drops of the plan {%s} differ from the change set {%s}", b, a)})
	}
	if a, b := finalState(sc.cat, in), finalState(sc.cat, outp); a != b {
		viol = append(viol, failure{class: "effects-changed", msg: fmt.Sprintf("final catalogue of the plan %s differs from the one of the change set %s", b, a)})
	}
	return verdict, viol
}

// judgeTypes: the enum-type obligations of a plan (not part of the model's catalogue, hence not of the
// replay verdict): a type exists when a table or a column uses it, is created once, and is dropped only
// when no table uses it any more. Types are database objects: identified by name k (objects 2k, 2k+1).
func judgeTypes(sc *scenario, outp []ochg) []failure {
	var viol []failure
	types := map[int]bool{}
	uses := map[[2]int]int{}
	for _, k := range sc.cat.types {
		types[k] = true
	}
	for _, u := range sc.cat.uses {
		uses[u]++
	}
	fail := func(i int, o ochg, class, f string, a ...any) {
		viol = append(viol, failure{class: class, msg: fmt.Sprintf("step %d (%s): ", i, o.String()) + fmt.Sprintf(f, a...)})
	}
	for i, o := range outp {
		switch o.kind {
		case 'P':
			if types[o.e/2] {
				fail(i, o, "type-double-create", "enum %d created while it exists", o.e/2)
			}
			types[o.e/2] = true
		case 'Q':
			if !types[o.e/2] {
				fail(i, o, "type-double-drop", "enum %d dropped while it does not exist", o.e/2)
			}
			for u, n := range uses {
				if u[1] == o.e/2 && n > 0 {
					fail(i, o, "type-dropped-in-use", "enum %d dropped while a column of table %d uses it", o.e/2, u[0])
				}
			}
			delete(types, o.e/2)
		case 'A':
			for _, e := range o.types {
				if !types[e/2] {
					fail(i, o, "type-before-use", "CREATE TABLE %d uses enum %d which does not exist", o.t, e/2)
				}
				uses[[2]int{o.t, e / 2}]++
			}
		case 'D':
			for u := range uses {
				if u[0] == o.t {
					delete(uses, u)
				}
			}
		case 'M':
			for _, tc := range o.tcs {
				if tc.kind != 'c' {
					continue
				}
				if tc.k < 2 {
					if !types[tc.e/2] {
						fail(i, o, "type-before-use", "ALTER TABLE %d uses enum %d which does not exist", o.t, tc.e/2)
					}
					uses[[2]int{o.t, tc.e / 2}]++
				} else if uses[[2]int{o.t, tc.e / 2}] > 0 {
					uses[[2]int{o.t, tc.e / 2}]--
				}
			}
		}
	}
	return viol
}
