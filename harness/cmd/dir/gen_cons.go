package main

// Stage consumers: every command / library entry point that *consumes* a
// migration directory must refuse a directory that was edited after it was
// hashed -- in every state of the target database, with every flag.
//
// Part 1 (real CLI, $ATLAS_BIN): consumer x database state x tampering.
//   consumers : migrate apply (plain, count, --dry-run, --baseline, --allow-dirty,
//               each --tx-mode, each --exec-order), status, set, lint, diff,
//               validate (with and without --dev-url), new, hash (the only one
//               allowed to repair), schema apply / schema diff with a
//               file://dir?format=atlas[&version=V] source
//   states    : fresh database; directory fully applied; 1 / 2 of 3 files
//               applied (pending files); file 2 partially applied (1 of 2
//               statements); dirty database without revisions
//   tampering : per file: one byte replaced, bytes appended, removed, renamed;
//               file added in front / in the middle / at the end; per sum line:
//               hash edited without and with recomputing the header, name
//               edited; header edited; atlas.sum emptied; atlas.sum removed
//   plus the untampered control of every consumer x state.
// Part 2 (library, MemDir + recording driver + in-memory revisions):
//   Executor.Pending / ExecuteN / ExecuteTo / Replay over all directories of
//   1..3 files (each file optionally a checkpoint) x the same tamperings x
//   revision-table states x allow-dirty / baseline / exec-order / dirty.
//
// Oracle (on the real observations only): a tampered directory (API
// migrate.Validate != nil) => exit != 0 with the checksum error, database and
// directory untouched; `migrate hash` => exit 0 and the directory validates;
// controls behave as on the unchanged tree (never a checksum error).
// Model (DirConsumersModel.v: run / executor_pending / execute_to / replay /
// migrate_hash): outcome class and Validate's result per case.

import (
	"context"
	"database/sql"
	"errors"
	"fmt"
	"os"
	"path/filepath"
	"runtime"
	"sort"
	"strings"
	"time"

	"ariga.io/atlas/sql/migrate"
	"ariga.io/atlas/sql/schema"

	"verifharness/internal/clirun"
	"verifharness/internal/execrun"
	"verifharness/internal/out"
)

// ---------------------------------------------------------------- tampering

type tamper struct {
	name string
	f    func(st []kv) []kv // st: the *.sql files in name order followed by atlas.sum
}

func cloneKV(st []kv) []kv { return append([]kv{}, st...) }

func sqlIdx(st []kv) []int {
	var r []int
	for i, f := range st {
		if f.n != sumName {
			r = append(r, i)
		}
	}
	return r
}

func sumIdx(st []kv) int {
	for i, f := range st {
		if f.n == sumName {
			return i
		}
	}
	return -1
}

// editSum parses the sum text, lets f edit the entries, and re-marshals (header recomputed).
func editSum(text string, f func(h migrate.HashFile) migrate.HashFile) string {
	var h migrate.HashFile
	if err := h.UnmarshalText([]byte(text)); err != nil {
		panic(err)
	}
	b, err := f(h).MarshalText()
	if err != nil {
		panic(err)
	}
	return string(b)
}

func flipHashChar(s string) string { // s = "...h1:XXXX": replace the first hash character
	i := strings.LastIndex(s, "h1:") + 3
	c := byte('A')
	if s[i] == 'A' {
		c = 'B'
	}
	return s[:i] + string(c) + s[i+1:]
}

// tampersFor: the tamperings of a directory with n *.sql files.
func tampersFor(n int) []tamper {
	var ts []tamper
	for i := 0; i < n; i++ {
		i := i
		ts = append(ts,
			tamper{fmt.Sprintf("flip-%d", i+1), func(st []kv) []kv {
				k := sqlIdx(st)[i]
				c := []byte(st[k].c)
				p := strings.Index(st[k].c, "id")
				if p < 0 {
					p = len(c) / 2
				}
				c[p] ^= 0x20 // one byte replaced (case of a letter: the SQL means the same)
				st[k].c = string(c)
				return st
			}},
			tamper{fmt.Sprintf("append-%d", i+1), func(st []kv) []kv {
				k := sqlIdx(st)[i]
				st[k].c += "-- x\n"
				return st
			}},
			tamper{fmt.Sprintf("remove-%d", i+1), func(st []kv) []kv {
				k := sqlIdx(st)[i]
				return append(st[:k], st[k+1:]...)
			}},
			tamper{fmt.Sprintf("rename-%d", i+1), func(st []kv) []kv {
				k := sqlIdx(st)[i]
				st[k].n = strings.TrimSuffix(st[k].n, ".sql") + "x.sql"
				return st
			}},
			tamper{fmt.Sprintf("sumline-%d", i+1), func(st []kv) []kv { // header NOT recomputed
				k := sumIdx(st)
				ls := strings.Split(st[k].c, "\n")
				ls[i+1] = flipHashChar(ls[i+1])
				st[k].c = strings.Join(ls, "\n")
				return st
			}},
			tamper{fmt.Sprintf("sumline-rehdr-%d", i+1), func(st []kv) []kv {
				k := sumIdx(st)
				st[k].c = editSum(st[k].c, func(h migrate.HashFile) migrate.HashFile {
					h[i].H = flipHashChar("h1:" + h[i].H)[3:]
					return h
				})
				return st
			}},
			tamper{fmt.Sprintf("sumname-rehdr-%d", i+1), func(st []kv) []kv {
				k := sumIdx(st)
				st[k].c = editSum(st[k].c, func(h migrate.HashFile) migrate.HashFile {
					h[i].N = strings.TrimSuffix(h[i].N, ".sql") + "y.sql"
					return h
				})
				return st
			}},
		)
	}
	add := func(name, fn string) tamper {
		return tamper{name, func(st []kv) []kv {
			return append(st, kv{fn, "CREATE TABLE t" + strings.TrimSuffix(strings.ReplaceAll(fn, ".", "_"), "_sql") + " (id int);\n"})
		}}
	}
	ts = append(ts,
		add("add-front", "0_zero.sql"),
		add("add-mid", "1a_mid.sql"),
		add("add-end", "9_new.sql"),
		tamper{"sumhdr", func(st []kv) []kv {
			k := sumIdx(st)
			st[k].c = flipHashChar(strings.SplitN(st[k].c, "\n", 2)[0]) + "\n" + strings.SplitN(st[k].c, "\n", 2)[1]
			return st
		}},
		tamper{"sumempty", func(st []kv) []kv {
			st[sumIdx(st)].c = ""
			return st
		}},
		tamper{"sumgone", func(st []kv) []kv {
			k := sumIdx(st)
			return append(st[:k], st[k+1:]...)
		}},
	)
	return ts
}

func hashedStore(fs []kv) []kv {
	return append(cloneKV(fs), kv{sumName, observeMem(fs).hfText})
}

func storeTokens(st []kv, ck map[string]bool) string {
	bits := make([]byte, len(st))
	for i, f := range st {
		bits[i] = '0'
		if ck[f.n] {
			bits[i] = '1'
		}
	}
	b := string(bits)
	if b == "" {
		b = "-"
	}
	return filesTokens(st) + " " + b
}

// checkpoint flags as the real code sees them
func ckFlags(st []kv) map[string]bool {
	r := map[string]bool{}
	fs, err := memDir(st).Files()
	if err != nil {
		panic(err)
	}
	for _, f := range fs {
		if c, ok := f.(migrate.CheckpointFile); ok && c.IsCheckpoint() {
			r[f.Name()] = true
		}
	}
	return r
}

// versionIdx = FilesLastIndex(dir.Files(), Version()==v), by the specification (name up to the first '_').
func versionIdx(st []kv, v string) int {
	idx := -1
	for i, f := range sqlFiles(st) {
		if strings.SplitN(strings.TrimSuffix(f.n, ".sql"), "_", 2)[0] == v {
			idx = i
		}
	}
	return idx
}

func verToken(st []kv, v string) string {
	if v == "" {
		return "-"
	}
	if i := versionIdx(st, v); i >= 0 {
		return fmt.Sprint(i)
	}
	return "n"
}

func isChecksumErr(err error) bool {
	var cs *migrate.ChecksumError
	return errors.As(err, &cs) || errors.Is(err, migrate.ErrChecksumMismatch) ||
		errors.Is(err, migrate.ErrChecksumNotFound) || errors.Is(err, migrate.ErrChecksumFormat)
}

// ---------------------------------------------------------------- part 1: CLI

type consumer struct {
	name  string
	model string // command token of the model
	ver   string // version asked (CStateSQL)
	args  []string
	db    bool // takes --url sqlite://db.sqlite
}

const devURL = "sqlite://dev?mode=memory"

func cliConsumers(ckBase bool) []consumer {
	ap := func(name string, extra ...string) consumer {
		return consumer{name: name, model: "apply", db: true,
			args: append([]string{"migrate", "apply", "--dir", "file://d", "--url", "sqlite://db.sqlite"}, extra...)}
	}
	baseline := "1"
	if ckBase {
		baseline = "2"
	}
	cs := []consumer{
		ap("apply"), ap("apply-1", "1"), ap("apply-2", "2"), ap("apply-dry", "--dry-run"),
		ap("apply-baseline", "--baseline", baseline), ap("apply-allow-dirty", "--allow-dirty"),
		ap("apply-tx-file", "--tx-mode", "file"), ap("apply-tx-all", "--tx-mode", "all"), ap("apply-tx-none", "--tx-mode", "none"),
		ap("apply-linear", "--exec-order", "linear"), ap("apply-linear-skip", "--exec-order", "linear-skip"), ap("apply-non-linear", "--exec-order", "non-linear"),
		{name: "status", model: "status", db: true, args: []string{"migrate", "status", "--dir", "file://d", "--url", "sqlite://db.sqlite"}},
		{name: "set", model: "set", db: true, args: []string{"migrate", "set", "1", "--dir", "file://d", "--url", "sqlite://db.sqlite"}},
		{name: "lint", model: "lint", args: []string{"migrate", "lint", "--dir", "file://d", "--dev-url", devURL, "--latest", "1"}},
		{name: "diff", model: "diff", args: []string{"migrate", "diff", "more", "--dir", "file://d", "--dev-url", devURL, "--to", "file://schema.sql"}},
		{name: "validate", model: "validate", args: []string{"migrate", "validate", "--dir", "file://d"}},
		{name: "validate-dev", model: "validate-dev", args: []string{"migrate", "validate", "--dir", "file://d", "--dev-url", devURL}},
		{name: "new", model: "new", args: []string{"migrate", "new", "later", "--dir", "file://d"}},
		{name: "hash", model: "hash", args: []string{"migrate", "hash", "--dir", "file://d"}},
		{name: "import-goose", model: "import", args: []string{"migrate", "import", "--from", "file://d?format=goose", "--to", "file://out"}},
		{name: "apply-env", model: "apply", db: true, args: []string{"migrate", "apply", "--env", "e"}},
		{name: "status-env", model: "status", db: true, args: []string{"migrate", "status", "--env", "e"}},
		{name: "schema-apply", model: "statesql", db: true, args: []string{"schema", "apply", "--to", "file://d?format=atlas", "--url", "sqlite://db.sqlite", "--dev-url", devURL, "--exclude", "atlas_schema_revisions", "--auto-approve"}},
		{name: "schema-apply-dry", model: "statesql", db: true, args: []string{"schema", "apply", "--to", "file://d?format=atlas", "--url", "sqlite://db.sqlite", "--dev-url", devURL, "--exclude", "atlas_schema_revisions", "--dry-run"}},
		{name: "schema-diff-from", model: "statesql", db: true, args: []string{"schema", "diff", "--from", "file://d?format=atlas", "--to", "sqlite://db.sqlite", "--dev-url", devURL, "--exclude", "atlas_schema_revisions"}},
		{name: "schema-inspect", model: "statesql", args: []string{"schema", "inspect", "--url", "file://d?format=atlas", "--dev-url", devURL, "--format", "{{ sql . }}"}},
		{name: "schema-diff-to", model: "statesql", db: true, args: []string{"schema", "diff", "--from", "sqlite://db.sqlite", "--to", "file://d?format=atlas", "--dev-url", devURL, "--exclude", "atlas_schema_revisions"}},
	}
	vers := []string{"2"}
	if ckBase {
		vers = []string{"2", "4"} // 2 lies before the checkpoint 3, 4 after it
	}
	for _, v := range vers {
		cs = append(cs,
			consumer{name: "schema-apply-v" + v, model: "statesql", ver: v, db: true, args: []string{"schema", "apply", "--to", "file://d?format=atlas&version=" + v, "--url", "sqlite://db.sqlite", "--dev-url", devURL, "--exclude", "atlas_schema_revisions", "--auto-approve"}},
			consumer{name: "schema-inspect-v" + v, model: "statesql", ver: v, args: []string{"schema", "inspect", "--url", "file://d?format=atlas&version=" + v, "--dev-url", devURL, "--format", "{{ sql . }}"}},
			consumer{name: "schema-diff-v" + v, model: "statesql", ver: v, db: true, args: []string{"schema", "diff", "--from", "file://d?format=atlas&version=" + v, "--to", "sqlite://db.sqlite", "--dev-url", devURL, "--exclude", "atlas_schema_revisions"}},
		)
	}
	return cs
}

type cliBase struct {
	name   string
	files  []kv
	states []string
	schema string // desired schema of `migrate diff`
}

var cliBases = []cliBase{
	{
		name: "plain3",
		files: []kv{
			{"1_init.sql", "CREATE TABLE a1 (id int primary key);\n"},
			{"2_second.sql", "CREATE TABLE a2 (id int);\nINSERT INTO a1 (id) VALUES (1);\n"},
			{"3_third.sql", "CREATE TABLE a3 (id int);\n"},
		},
		states: []string{"fresh", "all", "pend1", "pend2", "partial", "dirty"},
		schema: "CREATE TABLE a1 (id int primary key);\nCREATE TABLE a2 (id int);\nCREATE TABLE a3 (id int);\nCREATE TABLE more (id int);\n",
	},
	{
		name: "ckpt4",
		files: []kv{
			{"1_init.sql", "CREATE TABLE a1 (id int primary key);\n"},
			{"2_second.sql", "CREATE TABLE a2 (id int);\n"},
			{"3_ck.sql", "-- atlas:checkpoint\n\nCREATE TABLE a1 (id int primary key);\nCREATE TABLE a2 (id int);\n"},
			{"4_after.sql", "CREATE TABLE a4 (id int);\n"},
		},
		states: []string{"fresh", "all"},
		schema: "CREATE TABLE a1 (id int primary key);\nCREATE TABLE a2 (id int);\nCREATE TABLE a4 (id int);\nCREATE TABLE more (id int);\n",
	},
}

func writeStore(d string, st []kv) error {
	if err := os.MkdirAll(d, 0o755); err != nil {
		return err
	}
	for _, f := range st {
		if err := os.WriteFile(filepath.Join(d, f.n), []byte(f.c), 0o644); err != nil {
			return err
		}
	}
	return nil
}

// prepState builds the database of a state with the real CLI on the untampered directory.
func prepState(b cliBase, state, T string) error {
	if err := writeStore(filepath.Join(T, "d"), hashedStore(b.files)); err != nil {
		return err
	}
	db := filepath.Join(T, "db.sqlite")
	apply := func(wantExit0 bool, extra ...string) error {
		r := clirun.Run(T, nil, append([]string{"migrate", "apply", "--dir", "file://d", "--url", "sqlite://db.sqlite"}, extra...)...)
		if (r.Exit == 0) != wantExit0 {
			return fmt.Errorf("state %s: apply %v: exit %d: %s %s", state, extra, r.Exit, r.Stdout, r.Stderr)
		}
		return nil
	}
	switch state {
	case "fresh":
		return nil
	case "all":
		return apply(true)
	case "pend1":
		return apply(true, "1")
	case "pend2":
		return apply(true, "2")
	case "partial":
		// file 2 = CREATE TABLE a2; INSERT INTO a1 VALUES (1): make the INSERT fail once.
		if err := apply(true, "1"); err != nil {
			return err
		}
		if err := clirun.Exec(db, "INSERT INTO a1 (id) VALUES (1)"); err != nil {
			return err
		}
		if err := apply(false, "--tx-mode", "none"); err != nil {
			return err
		}
		if err := clirun.Exec(db, "DELETE FROM a1"); err != nil {
			return err
		}
		rows, err := clirun.Query(db, "SELECT version, applied, total FROM atlas_schema_revisions ORDER BY version")
		if err != nil || strings.Join(rows, ";") != "1|1|1;2|1|2" {
			return fmt.Errorf("state partial: revisions %v %v", rows, err)
		}
		return nil
	case "dirty":
		return clirun.Exec(db, "CREATE TABLE a1 (id int primary key)")
	}
	return fmt.Errorf("unknown state %s", state)
}

// controlFails: controls (untampered directory) that end with an error that is not about the directory,
// on the unchanged tree.  Everything else must exit 0.
func controlFails(base, cons, state string) bool {
	ap := strings.HasPrefix(cons, "apply")
	switch {
	case state == "dirty" && ap && cons != "apply-baseline" && cons != "apply-allow-dirty":
		return true // "connected database is not clean"
	case state == "dirty" && cons == "apply-allow-dirty":
		return true // allowed to start, then CREATE TABLE a1 fails: the table exists
	case base == "plain3" && state == "fresh" && cons == "apply-baseline":
		return true // file 1 is skipped as the baseline, file 2 inserts into its table
	}
	return false
}

// quick tier: every consumer x every state meets these; the full tampering list is met by every
// consumer on the fully applied database (thorough: the full product)
var coreTamper = map[string]bool{"none": true, "flip-1": true, "append-3": true, "remove-1": true, "rename-2": true,
	"add-end": true, "sumline-1": true, "sumline-rehdr-2": true, "sumgone": true}

type cliJob struct {
	base   cliBase
	cons   consumer
	state  string
	tam    string
	store  []kv // directory content handed to the consumer
	exit   int
	output string
	api    *obsT // API view of the directory before the command
	apiAft *obsT
	dbEq   bool
	dirEq  bool
	sqlEq  bool
	sumAft string
	err    string
}

func copyFile(from, to string) error {
	b, err := os.ReadFile(from)
	if err != nil {
		if os.IsNotExist(err) {
			return nil
		}
		return err
	}
	return os.WriteFile(to, b, 0o644)
}

func dumpDB(p string) string {
	s, err := clirun.Dump(p, true)
	if err != nil {
		return "dump error: " + err.Error()
	}
	if s == "<no file>" {
		return ""
	}
	return s
}

func runCliJob(j *cliJob, root, stateRoot string, seq int) {
	T := filepath.Join(root, fmt.Sprintf("k%d", seq))
	d := filepath.Join(T, "d")
	defer os.RemoveAll(T)
	if err := writeStore(d, j.store); err != nil {
		j.err = err.Error()
		return
	}
	if err := copyFile(filepath.Join(stateRoot, j.base.name+"-"+j.state, "db.sqlite"), filepath.Join(T, "db.sqlite")); err != nil {
		j.err = err.Error()
		return
	}
	os.WriteFile(filepath.Join(T, "schema.sql"), []byte(j.base.schema), 0o644)
	os.WriteFile(filepath.Join(T, "atlas.hcl"), []byte("env \"e\" {\n  url = \"sqlite://db.sqlite\"\n  dev = \"sqlite://dev?mode=memory\"\n  migration {\n    dir = \"file://d\"\n  }\n}\n"), 0o644)
	api := func() *obsT {
		ld, err := migrate.NewLocalDir(d)
		if err != nil {
			j.err = err.Error()
			return nil
		}
		o, err := observe(ld, readSum(ld))
		if err != nil {
			j.err = err.Error()
			return nil
		}
		return o
	}
	if j.api = api(); j.api == nil {
		return
	}
	dbPath := filepath.Join(T, "db.sqlite")
	db0, dir0 := dumpDB(dbPath), readDirAll(d)
	r := clirun.Run(T, nil, j.cons.args...)
	j.exit, j.output = r.Exit, strings.TrimSpace(r.Stderr+" "+r.Stdout)
	dir1 := readDirAll(d)
	j.dbEq = dumpDB(dbPath) == db0
	j.dirEq = eqFiles(dir0, dir1)
	j.sqlEq = eqFiles(sqlFiles(dir0), sqlFiles(dir1))
	if s := sumOf(dir1); s != nil {
		j.sumAft = *s
	}
	j.apiAft = api()
}

func (j *cliJob) outcome() string {
	switch {
	case j.exit == 0:
		return "proceeds"
	case strings.Contains(strings.ToLower(j.output), "checksum"):
		return "refused"
	}
	return "failed"
}

func short(s string) string {
	s = strings.Join(strings.Fields(s), " ")
	if len(s) > 260 {
		s = s[:260] + "…"
	}
	return s
}

func genConsCLI(w *out.W, tier string) (rule string) {
	stateRoot := filepath.Join(tmpRoot, "states")
	var jobs []*cliJob
	for _, b := range cliBases {
		for _, s := range b.states {
			if err := prepState(b, s, filepath.Join(stateRoot, b.name+"-"+s)); err != nil {
				w.Violation("k0", "harness", err.Error())
				return
			}
		}
		orig := hashedStore(b.files)
		tams := append([]tamper{{"none", func(st []kv) []kv { return st }}}, tampersFor(len(b.files))...)
		for _, c := range cliConsumers(b.name == "ckpt4") {
			for _, s := range b.states {
				if !c.db && s != "fresh" && s != "all" {
					continue // the command does not see the database
				}
				for _, t := range tams {
					if tier != "thorough" && !coreTamper[t.name] && !(s == "all" && (b.name == "plain3" || c.ver != "")) {
						continue
					}
					jobs = append(jobs, &cliJob{base: b, cons: c, state: s, tam: t.name, store: t.f(cloneKV(orig))})
				}
			}
		}
	}
	fs := make([]func(), len(jobs))
	for i := range jobs {
		i := i
		fs[i] = func() { runCliJob(jobs[i], tmpRoot, stateRoot, i) }
	}
	nw := runtime.NumCPU()
	if nw > 16 {
		nw = 16
	}
	clirun.Parallel(nw, fs)

	for i, j := range jobs {
		id := fmt.Sprintf("k%d", i+1)
		if j.err != "" || j.api == nil || j.apiAft == nil {
			w.Violation(id, "harness", j.err)
			continue
		}
		what := fmt.Sprintf("dir %s, database state %s, tampering %s, consumer %s (`atlas %s`)", j.base.name, j.state, j.tam, j.cons.name, strings.Join(j.cons.args, " "))
		res := fmt.Sprintf("exit %d: %s", j.exit, short(j.output))
		tampered := j.tam != "none"
		invalid := j.api.v != "ok"
		oc := j.outcome()
		vt := verToken(j.store, j.cons.ver)
		if vt == "n" && oc == "failed" {
			oc = "notfound" // the version asked for is no longer in the directory: "migration with version not found"
		}
		w.Count("cli:" + j.cons.model + ":" + oc)
		w.Count("cli-state:" + j.state)
		if tampered != invalid {
			w.Violation(id, "harness", fmt.Sprintf("%s: tampered=%v but migrate.Validate = %s", what, tampered, j.api.v))
			continue
		}
		setup := 1
		if j.cons.name == "hash" {
			// the only command allowed to repair
			if j.exit != 0 || j.apiAft.v != "ok" {
				w.Violation(id, "hash-does-not-repair", fmt.Sprintf("%s: %s; afterwards migrate.Validate = %s", what, res, j.apiAft.v))
			}
			if !j.sqlEq {
				w.Violation(id, "hash-changed-files", fmt.Sprintf("%s: the *.sql files changed", what))
			}
			w.Case(id, "hash - "+storeTokens(j.store, ckFlags(j.store))+" 1",
				[]string{fmt.Sprintf("out=repaired v=%s sum=%s", j.apiAft.v, hx(j.sumAft))})
			if tampered {
				w.NonTrivial("cli|" + j.base.name + "|hash|" + j.tam)
			}
			continue
		}
		if invalid {
			beforeCk := false
			if i := versionIdx(j.store, j.cons.ver); i >= 0 {
				ck := ckFlags(j.store)
				for _, f := range sqlFiles(j.store)[i+1:] {
					beforeCk = beforeCk || ck[f.n]
				}
			}
			switch oc {
			case "proceeds":
				if beforeCk {
					w.Violation(id, "executeto-before-checkpoint-unvalidated", fmt.Sprintf("%s: version %s lies before a checkpoint file: migrate.Validate = %s but the command went on: %s", what, j.cons.ver, j.api.v, res))
					break
				}
				if j.cons.model == "import" && j.api.v == "notfound" {
					w.Violation(id, "import-accepts-missing-sum", fmt.Sprintf("%s: atlas.sum is gone (migrate.Validate = ErrChecksumNotFound) but import went on: %s", what, res))
					break
				}
				if j.cons.model == "lint" && j.api.v == "notfound" {
					w.Violation(id, "lint-accepts-missing-sum", fmt.Sprintf("%s: atlas.sum is gone (migrate.Validate = ErrChecksumNotFound) but lint went on: %s", what, res))
					break
				}
				w.Violation(id, "consumer-accepts-tampered", fmt.Sprintf("%s: migrate.Validate = %s but the command went on: %s", what, j.api.v, res))
			case "notfound":
			case "failed":
				w.Violation(id, "consumer-no-checksum-error", fmt.Sprintf("%s: migrate.Validate = %s but the command failed without the checksum error: %s", what, j.api.v, res))
			default:
				if !j.dbEq {
					w.Violation(id, "consumer-refusal-changed-db", fmt.Sprintf("%s: refused (%s) but the database changed", what, res))
				}
				if !j.dirEq {
					w.Violation(id, "consumer-refusal-wrote-dir", fmt.Sprintf("%s: refused (%s) but the directory changed", what, res))
				}
				w.NonTrivial("cli|" + j.base.name + "|" + j.cons.name + "|" + j.state + "|" + j.tam)
			}
		} else {
			want := "proceeds"
			if controlFails(j.base.name, j.cons.name, j.state) {
				want, setup = "failed", 0
			}
			switch {
			case oc == "refused":
				w.Violation(id, "consumer-refuses-untouched", fmt.Sprintf("%s: %s", what, res))
			case oc != want:
				w.Violation(id, "consumer-control-unexpected", fmt.Sprintf("%s: expected %s: %s", what, want, res))
			}
		}
		w.Case(id, fmt.Sprintf("%s %s %s %d", j.cons.model, vt, storeTokens(j.store, ckFlags(j.store)), setup),
			[]string{fmt.Sprintf("out=%s v=%s", oc, j.api.v)})
	}
	return fmt.Sprintf("real CLI: %d runs = %d directories (3 plain files; 4 files with a checkpoint) x consumers (apply plain/1/2/--dry-run/--baseline/--allow-dirty/--tx-mode file|all|none/--exec-order linear|linear-skip|non-linear, status, set, the two with --env (atlas.hcl), lint, diff, validate, validate --dev-url, new, import --from (goose reading of the directory), hash, schema apply / apply --dry-run / diff --from / diff --to / inspect --url with file://d?format=atlas, and with &version=V) x database states (fresh, all applied, 1 of 3, 2 of 3, file 2 partially applied, dirty) x tamperings (per file: byte replaced, appended, removed, renamed; added front/middle/end; per sum line: hash edited with/without recomputed header, name edited; header edited; atlas.sum empty; atlas.sum removed) + the untampered control of each", len(jobs), len(cliBases))
}

// ---------------------------------------------------------------- part 2: library

type recDrv struct {
	migrate.Driver
	execs   int
	dirty   bool
	snapErr bool
}

func (d *recDrv) ExecContext(context.Context, string, ...any) (sql.Result, error) {
	d.execs++
	return nil, nil
}
func (d *recDrv) QueryContext(context.Context, string, ...any) (*sql.Rows, error) {
	return nil, errors.New("no queries")
}
func (d *recDrv) CheckClean(context.Context, *migrate.TableIdent) error {
	if d.dirty {
		return &migrate.NotCleanError{Reason: "found table"}
	}
	return nil
}
func (d *recDrv) Snapshot(context.Context) (migrate.RestoreFunc, error) {
	if d.snapErr {
		return nil, errors.New("dev database not clean")
	}
	return func(context.Context) error { return nil }, nil
}

type libOpt struct {
	name         string
	dirty, allow bool
	baseline     string
	order        migrate.ExecOrder
}

type libOp struct {
	name  string // pending | execn0 | execn1 | execto | replay
	model string
	ver   string
}

func libStates(orig []kv) []string {
	n := len(sqlFiles(orig))
	r := []string{"none"}
	for k := 1; k <= n; k++ {
		r = append(r, fmt.Sprintf("done%d", k))
	}
	return append(r, "partial-last", "skipped-first")
}

func libStore(orig []kv, state string) *execrun.Store {
	st := execrun.NewStore()
	fs := sqlFiles(orig)
	put := func(i, applied, total int) {
		v := strings.SplitN(strings.TrimSuffix(fs[i].n, ".sql"), "_", 2)[0]
		st.Put(&migrate.Revision{Version: v, Applied: applied, Total: total, Type: migrate.RevisionTypeExecute, Hash: "h", PartialHashes: []string{"p"}})
	}
	switch {
	case state == "none":
	case strings.HasPrefix(state, "done"):
		var k int
		fmt.Sscanf(state, "done%d", &k)
		for i := 0; i < k; i++ {
			put(i, 1, 1)
		}
	case state == "partial-last":
		for i := 0; i < len(fs); i++ {
			put(i, 1, 1)
		}
		put(len(fs)-1, 1, 2)
	case state == "skipped-first":
		for i := 1; i < len(fs); i++ {
			put(i, 1, 1)
		}
	}
	return st
}

func runLib(st []kv, op libOp, state string, o libOpt, orig []kv) (string, bool, string) {
	drv := &recDrv{dirty: o.dirty}
	revs := libStore(orig, state)
	before := revs.ShowTable()
	opts := []migrate.ExecutorOption{migrate.WithExecOrder(o.order)}
	if o.allow {
		opts = append(opts, migrate.WithAllowDirty(true))
	}
	if o.baseline != "" {
		opts = append(opts, migrate.WithBaselineVersion(o.baseline))
	}
	ex, err := migrate.NewExecutor(drv, memDir(st), revs, opts...)
	if err != nil {
		return "harness:" + err.Error(), false, ""
	}
	ctx := context.Background()
	var rerr error
	func() {
		defer func() {
			if r := recover(); r != nil {
				rerr = fmt.Errorf("panic: %v", r)
			}
		}()
		switch op.name {
		case "pending":
			_, rerr = ex.Pending(ctx)
		case "execn0":
			rerr = ex.ExecuteN(ctx, 0)
		case "execn1":
			rerr = ex.ExecuteN(ctx, 1)
		case "execto":
			rerr = ex.ExecuteTo(ctx, op.ver)
		case "replay":
			var ro []migrate.ReplayOption
			if op.ver != "" {
				ro = append(ro, migrate.ReplayToVersion(op.ver))
			}
			_, rerr = ex.Replay(ctx, migrate.StateReaderFunc(func(context.Context) (*schema.Realm, error) { return &schema.Realm{}, nil }), ro...)
		}
	}()
	touched := drv.execs > 0 || revs.ShowTable() != before
	switch {
	case rerr != nil && isChecksumErr(rerr):
		return "refused v=" + showV(rerr, false), touched, rerr.Error()
	case rerr != nil && strings.HasPrefix(rerr.Error(), "panic:"):
		return "panic", touched, rerr.Error()
	case rerr != nil && op.ver != "" && versionIdx(st, op.ver) < 0:
		return "notfound", touched, rerr.Error()
	}
	e := ""
	if rerr != nil {
		e = rerr.Error()
	}
	return "proceeds", touched, e
}

func libBeforeCk(st []kv, ver string) bool {
	if i := versionIdx(st, ver); i >= 0 {
		ck := ckFlags(st)
		for _, f := range sqlFiles(st)[i+1:] {
			if ck[f.n] {
				return true
			}
		}
	}
	return false
}

func genConsLib(w *out.W, tier string) string {
	contents := func(i int, ck bool) string {
		c := fmt.Sprintf("CREATE TABLE t%d (id int);\n", i)
		if ck {
			c = "-- atlas:checkpoint\n\n" + c
		}
		return c
	}
	var dirs [][]kv
	for n := 1; n <= 3; n++ {
		for mask := 0; mask < 1<<n; mask++ {
			var fs []kv
			for i := 0; i < n; i++ {
				fs = append(fs, kv{fmt.Sprintf("%d_f.sql", i+1), contents(i+1, mask>>i&1 == 1)})
			}
			dirs = append(dirs, fs)
		}
	}
	var optsAll []libOpt
	for _, dirty := range []bool{false, true} {
		for _, mode := range []string{"", "allow", "baseline"} {
			for _, ord := range []migrate.ExecOrder{migrate.ExecOrderLinear, migrate.ExecOrderLinearSkip, migrate.ExecOrderNonLinear} {
				o := libOpt{dirty: dirty, allow: mode == "allow", order: ord}
				if mode == "baseline" {
					o.baseline = "1"
				}
				o.name = fmt.Sprintf("dirty=%v,%s,order=%d", dirty, mode, ord)
				optsAll = append(optsAll, o)
			}
		}
	}
	if tier != "thorough" {
		// quick: 3-file directories with at most one checkpoint; 6 of the 18 option combinations
		var d2 [][]kv
		for _, fs := range dirs {
			k := 0
			for _, f := range fs {
				if strings.HasPrefix(f.c, "-- atlas:checkpoint") {
					k++
				}
			}
			if len(fs) < 3 || k <= 1 {
				d2 = append(d2, fs)
			}
		}
		dirs = d2
		var o2 []libOpt
		for i, o := range optsAll {
			if i%3 == (i/3)%3 {
				o2 = append(o2, o)
			}
		}
		optsAll = o2
	}
	n, runs := 0, 0
	for _, fs := range dirs {
		orig := hashedStore(fs)
		ops := []libOp{{"pending", "pending", ""}, {"execn0", "execn", ""}, {"execn1", "execn", ""}, {"replay", "replay", ""}}
		for i := range fs {
			v := fmt.Sprint(i + 1)
			ops = append(ops, libOp{"execto", "execto", v}, libOp{"replay", "replay", v})
		}
		ops = append(ops, libOp{"execto", "execto", "7"}, libOp{"replay", "replay", "7"})
		tams := append([]tamper{{"none", func(st []kv) []kv { return st }}}, tampersFor(len(fs))...)
		for _, t := range tams {
			st := t.f(cloneKV(orig))
			api := observeMem(st)
			ck := ckFlags(st)
			for _, op := range ops {
				n++
				id := fmt.Sprintf("e%d", n)
				what := fmt.Sprintf("library: directory %s hashed, then tampering %s -> %s; Executor.%s(%s)", descNames(fs), t.name, descNames(sqlFiles(st)), op.name, op.ver)
				seen := map[string]string{}
				var keys []string
				for _, state := range libStates(orig) {
					for _, o := range optsAll {
						runs++
						res, touched, etext := runLib(st, op, state, o, orig)
						if _, ok := seen[res]; !ok {
							seen[res] = fmt.Sprintf("revisions %s, options %s: %s", state, o.name, etext)
							keys = append(keys, res)
						}
						if api.v != "ok" && touched && !libBeforeCk(st, op.ver) {
							w.Violation(id, "consumer-executed-on-tampered", fmt.Sprintf("%s with revisions %s, options %s: statements were executed / revisions written although migrate.Validate = %s (%s)", what, state, o.name, api.v, etext))
						}
					}
				}
				sort.Strings(keys)
				w.Count("lib:" + op.model + ":" + strings.SplitN(strings.Join(keys, "+"), " ", 2)[0])
				idx := verToken(st, op.ver)
				beforeCk := libBeforeCk(st, op.ver)
				if api.v != "ok" {
					for _, k := range keys {
						switch {
						case strings.HasPrefix(k, "refused"), k == "notfound":
						case beforeCk:
							w.Violation(id, "executeto-before-checkpoint-unvalidated", fmt.Sprintf("%s: version %s lies before a checkpoint file: Pending validates the MemDir copy CopyFiles has just hashed, not the directory (migrate.Validate = %s): %s [%s]", what, op.ver, api.v, k, seen[k]))
						default:
							w.Violation(id, "consumer-accepts-tampered", fmt.Sprintf("%s: migrate.Validate = %s but %s [%s]", what, api.v, k, seen[k]))
						}
					}
					w.NonTrivial("lib|" + descNames(fs) + "|" + t.name + "|" + op.name + op.ver)
				} else {
					for _, k := range keys {
						if strings.HasPrefix(k, "refused") || k == "panic" {
							w.Violation(id, "consumer-refuses-untouched", fmt.Sprintf("%s: %s [%s]", what, k, seen[k]))
						}
					}
				}
				obs := make([]string, len(keys))
				for i, k := range keys {
					if !strings.Contains(k, " v=") {
						k += " v=" + api.v
					}
					obs[i] = "out=" + k
				}
				w.Case(id, fmt.Sprintf("%s %s %s 1", op.model, idx, storeTokens(st, ck)), obs)
			}
		}
	}
	return fmt.Sprintf("library: %d Executor runs folded into %d cases = all directories of 1..3 files (each file plain or checkpoint: %d) x tamperings x {Pending, ExecuteN(0), ExecuteN(1), ExecuteTo(v), Replay(), Replay(v); v = each version and a missing one} x revision tables (none, first k files done, last partial, first skipped) x {clean, dirty} x {-, allow-dirty, baseline} x 3 exec orders; the observation of a case is the set of outcomes over all revision tables and options (must be one)", runs, n, len(dirs))
}

func genCons(w *out.W, tier string) {
	t0 := time.Now()
	r2 := genConsLib(w, tier)
	t1 := time.Now()
	r1 := genConsCLI(w, tier)
	fmt.Fprintf(os.Stderr, "consumers: library part %v, CLI part %v\n", t1.Sub(t0), time.Since(t1))
	w.Exhaust = true
	w.Rule = r1 + ". " + r2 + ". Non-trivial = the directory does not validate and the consumer reached its refusal; distinct by (directory, consumer, state, tampering)"
}
