package main

import (
	"crypto/sha1"
	"crypto/sha256"
	"encoding/base64"
	"fmt"
	"regexp"
	"sort"
	"strings"
	"unicode"
	"unicode/utf8"

	"ariga.io/atlas/sql/migrate"

	"verifharness/internal/out"
	"verifharness/internal/rng"
)

// ---------------------------------------------------------------- specification side of the oracle

// specRe is the harness's own copy of the documented directive pattern; the
// oracle decides with it which files are exempt from hashing, so a change of
// the repository's pattern or of directive() is judged, not followed.
var specRe = regexp.MustCompile(`^([ -~]*)atlas:(\w+)(?: +([ -~]*))*`)

func specIgnored(c string) bool {
	m := specRe.FindStringSubmatch(c)
	return len(m) == 4 && m[2] == "sum" && m[3] == "ignore"
}

type streamT struct{ name, stream string }

// specStreams: what each hash line of atlas.sum is the hash of.
func specStreams(fs []kv) []streamT {
	var acc strings.Builder
	var r []streamT
	for _, f := range fs {
		acc.WriteString(f.n)
		if specIgnored(f.c) {
			continue
		}
		acc.WriteString(f.c)
		r = append(r, streamT{f.n, acc.String()})
	}
	return r
}

func hashed(fs []kv) (h []kv, ignored []kv) {
	for _, f := range fs {
		if specIgnored(f.c) {
			ignored = append(ignored, f)
		} else {
			h = append(h, f)
		}
	}
	return
}

func plain(fs []kv) bool { _, ig := hashed(fs); return len(ig) == 0 }

// nameTrimmed reports whether the parser of atlas.sum can give the name back:
// no line break and no white space at either end.
func nameParses(n string) bool {
	return !strings.Contains(n, "\n") && strings.TrimSpace(n) == n
}

// classifyDirEdit names the class of an edit of the directory that the real
// code did not detect.
func classifyDirEdit(base, cur []kv) string {
	hb, ib := hashed(base)
	hc, ic := hashed(cur)
	if eqFiles(hb, hc) {
		nb, nc := map[string]bool{}, map[string]bool{}
		for _, f := range ib {
			nb[f.n] = true
		}
		for _, f := range ic {
			nc[f.n] = true
		}
		last := ""
		if len(hb) > 0 {
			last = hb[len(hb)-1].n
		}
		trailing, differ := true, false
		for n := range nb {
			if !nc[n] {
				differ = true
				trailing = trailing && n > last
			}
		}
		for n := range nc {
			if !nb[n] {
				differ = true
				trailing = trailing && n > last
			}
		}
		switch {
		case !differ:
			return "ignored-content-edited"
		case trailing:
			return "ignored-trailing-add-remove"
		default:
			return "ignored-nontrailing-undetected"
		}
	}
	sb, sc := specStreams(base), specStreams(cur)
	same := len(sb) == len(sc)
	for i := 0; same && i < len(sb); i++ {
		same = sb[i] == sc[i]
	}
	if same {
		return "concat-ambiguity"
	}
	return "hashed-edit-undetected"
}

// headerSum is the sum the first line of an atlas.sum text carries, read the
// way the documented format says (line up to LF, optional CR, optional "h1:").
func headerSum(sum string) string {
	l := sum
	if i := strings.IndexByte(l, '\n'); i >= 0 {
		l = l[:i]
	}
	l = strings.TrimSuffix(l, "\r")
	return strings.TrimPrefix(l, "h1:")
}

// namesWF: ".sql" occurs in every name exactly once, as the suffix (hypothesis of C06_detect).
func namesWF(fs []kv) bool {
	for _, f := range fs {
		if !strings.HasSuffix(f.n, ".sql") || strings.Index(f.n, ".sql") != len(f.n)-4 {
			return false
		}
	}
	return true
}

// embeddedHash decides embedded_hash (DirGlob.v) with real SHA-256: one of the
// directory's hash streams contains base64(sha256(.)) of one of its streams.
func embeddedHash(fs []kv) bool {
	ss := specStreams(fs)
	for _, s := range ss {
		h := sha256.Sum256([]byte(s.stream))
		b := base64.StdEncoding.EncodeToString(h[:])
		for _, t := range ss {
			if strings.Contains(t.stream, b) {
				return true
			}
		}
	}
	return false
}

func namesOK(fs []kv) bool {
	for _, f := range fs {
		if !nameParses(f.n) {
			return false
		}
	}
	return true
}

func catHF(h migrate.HashFile) string {
	var b strings.Builder
	for _, e := range h {
		b.WriteString(e.N)
		b.WriteString(e.H)
	}
	return b.String()
}

func eqHF(a, b migrate.HashFile) bool {
	if len(a) != len(b) {
		return false
	}
	for i := range a {
		if a[i] != b[i] {
			return false
		}
	}
	return true
}

// ---------------------------------------------------------------- one case

type gen struct {
	w      *out.W
	tier   string
	n      int
	prefix string
}

type expect struct {
	reasons []string // acceptable "reason:file" pairs, empty = not checked
}

// check runs the real code on the store [st] (files + atlas.sum) and evaluates
// the property, knowing that [baseSum] was written for the files [base].
func (g *gen) check(kind string, base []kv, baseHF migrate.HashFile, baseSum string, st []kv, local bool, ex expect) {
	g.n++
	id := fmt.Sprintf("%s%d", g.prefix, g.n)
	w := g.w
	o := observeMem(st)
	if local && fsSafe(st) {
		w.Count("localdir")
		if ol := observeLocal(st); ol.line() != o.line() {
			w.Violation(id, "localdir-memdir-differ", fmt.Sprintf("%s: LocalDir %s / MemDir %s", kind, ol.line(), o.line()))
		}
	}
	w.Case(id, filesTokens(st), []string{o.line()})
	w.Count("kind:" + strings.SplitN(kind, ":", 2)[0])
	w.Count("v:" + strings.SplitN(o.v, ":", 2)[0])
	cur := sqlFiles(st)
	sum := sumOf(st)
	desc := fmt.Sprintf("%s: sum written for %s, validated %s", kind, descFiles(base), descFiles(cur))
	if !eqFiles(cur, o.files) {
		w.Violation(id, "files-order", desc+": Files() is not the *.sql files ordered by name")
	}
	if o.vPanic {
		dup := false
		if o.uOK {
			seen := map[string]bool{}
			for _, e := range o.uEnt {
				dup = dup || seen[e.N]
				seen[e.N] = true
			}
		}
		if dup {
			w.Violation(id, "validate-panic-duplicate-name", desc+fmt.Sprintf(": Validate panics (atlas.sum %q lists a name twice)", *sum))
		} else {
			w.Violation(id, "validate-panic", desc+": Validate panics")
		}
		return
	}
	if strings.HasPrefix(o.v, "other:") {
		w.Violation(id, "validate-other-error", desc+": "+o.vErr.Error())
		return
	}
	switch {
	case sum == nil:
		if len(cur) > 0 && o.v != "notfound" || len(cur) == 0 && o.v != "ok" {
			w.Violation(id, "sum-missing", desc+": without atlas.sum Validate = "+o.v)
		}
	case *sum == baseSum && eqFiles(cur, base):
		w.Count("untouched")
		if o.v != "ok" {
			cls := "untouched-fails"
			for _, f := range cur {
				if !nameParses(f.n) {
					cls = "untouched-fails-name-whitespace"
				}
			}
			w.Violation(id, cls, desc+": untouched directory does not validate: "+o.v)
		}
	case *sum == baseSum:
		w.NonTrivial(key(st))
		// third disjunct of C06_detect_glob / _plain_exact, decided on the original directory
		if embeddedHash(base) {
			w.Count("hyp:embedded_hash(original quotes one of its stream hashes)")
		}
		// which detection theorem's hypotheses this case meets
		switch {
		case namesOK(base) && namesWF(base) && namesWF(cur) && plain(base) && plain(cur):
			w.Count("hyp:detect_plain")
		case namesWF(base) && namesWF(cur):
			w.Count("hyp:detect_wf")
		default:
			w.Count("hyp:none(names not wf)")
		}
		if o.v == "ok" {
			w.Violation(id, classifyDirEdit(base, cur), desc+": edited directory validates")
			return
		}
		if len(ex.reasons) > 0 && plain(base) && plain(cur) {
			got := ""
			if p := strings.Split(o.v, ":"); len(p) == 6 && p[0] == "cs" {
				got = p[5] + ":" + p[4]
			}
			ok := false
			for _, r := range ex.reasons {
				ok = ok || r == got
			}
			if !ok {
				w.Violation(id, "wrong-reason", fmt.Sprintf("%s: Validate = %s, expected one of %v", desc, o.v, ex.reasons))
			}
		}
	case eqFiles(cur, base):
		w.NonTrivial(key(st))
		if o.v == "ok" {
			cls := "sumfile-edit-undetected"
			switch {
			case headerSum(*sum) != baseHF.Sum():
				// the header line no longer carries the sum of the entries: never a known finding
				cls = "sumfile-header-edit-undetected"
			case o.uOK && eqHF(o.uEnt, baseHF):
				cls = "sumfile-edit-same-entries"
			case o.uOK && catHF(o.uEnt) == catHF(baseHF):
				cls = "sumfile-edit-same-concat"
			}
			w.Violation(id, cls, fmt.Sprintf("%s: atlas.sum %q edited into %q still validates", kind, baseSum, *sum))
		}
	default:
		// both edited: no expectation (a re-hash is legitimate); correspondence only
		w.NonTrivial(key(st))
		w.Count("both-edited")
	}
}

func key(st []kv) string {
	h := sha1.Sum([]byte(filesTokens(st)))
	return string(h[:12])
}

// ---------------------------------------------------------------- edits

func byteEdits(s string, ins []byte, flips []byte) []string {
	seen := map[string]bool{s: true}
	var r []string
	add := func(x string) {
		if !seen[x] {
			seen[x] = true
			r = append(r, x)
		}
	}
	for i := 0; i < len(s); i++ {
		for _, f := range flips {
			b := []byte(s)
			b[i] ^= f
			add(string(b))
		}
		add(s[:i] + s[i+1:])
	}
	for i := 0; i <= len(s); i++ {
		for _, c := range ins {
			add(s[:i] + string(c) + s[i:])
		}
	}
	return r
}

func withSum(files []kv, sum string, rot int) []kv {
	st := make([]kv, 0, len(files)+1)
	// vary the order in which the store is filled: Files() has to sort
	if rot%2 == 1 {
		for i := len(files) - 1; i >= 0; i-- {
			st = append(st, files[i])
		}
	} else {
		st = append(st, files...)
	}
	return append(st, kv{sumName, sum})
}

func replaceAt(fs []kv, i int, f kv) []kv {
	r := append([]kv{}, fs...)
	r[i] = f
	return r
}

func removeAt(fs []kv, i int) []kv {
	r := append([]kv{}, fs[:i]...)
	return append(r, fs[i+1:]...)
}

func sorted(fs []kv) []kv {
	r := append([]kv{}, fs...)
	sort.Slice(r, func(i, j int) bool { return r[i].n < r[j].n })
	return r
}

func hasName(fs []kv, n string) bool {
	for _, f := range fs {
		if f.n == n {
			return true
		}
	}
	return false
}

// neighbourhood runs the untouched directory and its complete single-edit
// neighbourhood. sample > 1 keeps every sample-th byte-level edit only.
func (g *gen) neighbourhood(base []kv, names, contents []string, byteLevel bool, sample int) {
	base = sorted(base)
	bo := observeMem(base)
	S := bo.hfText
	g.check("untouched", base, bo.hf, S, withSum(base, S, g.n), true, expect{})
	g.check("sum-deleted", base, bo.hf, S, base, false, expect{})
	cnt := 0
	take := func() bool { cnt++; return sample <= 1 || cnt%sample == 0 }
	// content edits
	if byteLevel {
		for i, f := range base {
			for _, c := range byteEdits(f.c, []byte{'x'}, []byte{0x01, 0x20}) {
				if take() {
					g.check("edit", base, bo.hf, S, withSum(replaceAt(base, i, kv{f.n, c}), S, g.n), cnt%16 == 0, expect{[]string{"edited:" + hx(f.n)}})
				}
			}
		}
	}
	// add / remove / rename / swap contents / replace content
	for _, n := range names {
		if hasName(base, n) {
			continue
		}
		for _, c := range contents {
			g.check("add", base, bo.hf, S, withSum(append(append([]kv{}, base...), kv{n, c}), S, g.n), true, expect{[]string{"added:" + hx(n)}})
		}
		for i, f := range base {
			g.check("rename", base, bo.hf, S, withSum(replaceAt(base, i, kv{n, f.c}), S, g.n), true, expect{[]string{"removed:" + hx(f.n), "added:" + hx(n)}})
		}
	}
	for i, f := range base {
		g.check("remove", base, bo.hf, S, withSum(removeAt(base, i), S, g.n), true, expect{[]string{"removed:" + hx(f.n)}})
		for _, c := range contents {
			if c != f.c {
				g.check("replace", base, bo.hf, S, withSum(replaceAt(base, i, kv{f.n, c}), S, g.n), false, expect{[]string{"edited:" + hx(f.n)}})
			}
		}
		for j := i + 1; j < len(base); j++ {
			if base[j].c != f.c {
				sw := replaceAt(replaceAt(base, i, kv{f.n, base[j].c}), j, kv{base[j].n, f.c})
				g.check("swap", base, bo.hf, S, withSum(sw, S, g.n), true, expect{})
			}
		}
	}
	// every byte of atlas.sum
	if byteLevel {
		for _, s2 := range byteEdits(S, []byte{' ', '\r'}, []byte{0x01}) {
			if take() {
				g.check("sumbyte", base, bo.hf, S, withSum(base, s2, g.n), cnt%64 == 0, expect{})
			}
		}
	}
	// other representations of the same sum file
	g.check("sumfmt:crlf", base, bo.hf, S, withSum(base, strings.ReplaceAll(S, "\n", "\r\n"), g.n), false, expect{})
	g.check("sumfmt:nofinalnl", base, bo.hf, S, withSum(base, strings.TrimSuffix(S, "\n"), g.n), false, expect{})
	g.check("sumfmt:noh1", base, bo.hf, S, withSum(base, strings.TrimPrefix(S, "h1:"), g.n), false, expect{})
	g.check("sumfmt:empty", base, bo.hf, S, withSum(base, "", g.n), false, expect{})
	// entry-level edits with the header recomputed (what a tool-assisted edit produces)
	for _, v := range craftedSums(bo.hf) {
		b, _ := v.hf.MarshalText()
		if string(b) == S {
			continue
		}
		g.check("sumcraft:"+v.what, base, bo.hf, S, withSum(base, string(b), g.n), false, expect{})
	}
}

type crafted struct {
	what string
	hf   migrate.HashFile
}

type ent = struct{ N, H string }

func craftedSums(h migrate.HashFile) []crafted {
	var r []crafted
	cp := func() migrate.HashFile { return append(migrate.HashFile{}, h...) }
	garbage := strings.Repeat("A", 43) + "="
	r = append(r, crafted{"empty", migrate.HashFile{}})
	r = append(r, crafted{"extra-end", append(cp(), ent{"9.sql", garbage})})
	r = append(r, crafted{"extra-front", append(migrate.HashFile{ent{"0.sql", garbage}}, h...)})
	for i := range h {
		r = append(r, crafted{"dup-end", append(cp(), h[i])})
		r = append(r, crafted{"dup-front", append(migrate.HashFile{h[i]}, h...)})
		d := append(cp()[:i], h[i+1:]...)
		r = append(r, crafted{"delete", d})
		x := cp()
		x[i].N = "9.sql"
		r = append(r, crafted{"rename-new", x})
		x = cp()
		x[i].H = garbage
		r = append(r, crafted{"hash-garbage", x})
		x = cp()
		x[i].H = ""
		r = append(r, crafted{"hash-empty", x})
		if len(h[i].N) >= 2 {
			x = cp()
			k := len(h[i].N) - 2
			x[i].N, x[i].H = h[i].N[:k], h[i].N[k:]+h[i].H
			r = append(r, crafted{"sep-moved", x})
		}
		for j := range h {
			if j == i {
				continue
			}
			x = cp()
			x[i].N = h[j].N
			r = append(r, crafted{"rename-existing", x})
			x = cp()
			x[i].H = h[j].H
			r = append(r, crafted{"hash-other", x})
			if j > i {
				x = cp()
				x[i], x[j] = x[j], x[i]
				r = append(r, crafted{"swap", x})
			}
		}
	}
	return r
}

// ---------------------------------------------------------------- generator

func allDirs(names, contents []string, maxFiles int) [][]kv {
	var res [][]kv
	var rec func(i int, cur []kv)
	rec = func(i int, cur []kv) {
		if i == len(names) {
			res = append(res, append([]kv{}, cur...))
			return
		}
		rec(i+1, cur)
		if len(cur) < maxFiles {
			for _, c := range contents {
				rec(i+1, append(cur, kv{names[i], c}))
			}
		}
	}
	rec(0, nil)
	return res
}

const (
	cIgnore     = "-- atlas:sum ignore\n"
	cIgnoreBody = "-- atlas:sum ignore\nC;\n"
	cCheckpoint = "-- atlas:checkpoint\n\nB;\n"
)

var advNames = []string{
	"1.sql", "2.sql", "3_x.sql", "h1:.sql", "a h1:b.sql", "1_oauth1:init.sql", " lead.sql", "\tlead.sql", "\u00a0nbsp.sql",
	"\u2003em.sql", "\u2028ls.sql", "\u3000ideo.sql", "\u0085nel.sql", "a\rb.sql", "\rcr.sql", "a\nb.sql", "in ner.sql", "\u00e9.sql",
	"\xff.sql", "\xc2.sql", "\xa0.sql", "\xe2\x80.sql", ".sql", ".sql.sql", "x.sql.sql", "a.sqlb.sql", "9.sql", "atlas.sum.sql",
	"h1:h1:.sql", "a  h1:.sql", "sp .sql", "e\u2003.sql", "notsql.txt", "x.SQL", "a.sql ", "d/e.sql",
}

var advContents = []string{
	"", "A;\n", "B;", cIgnore, cIgnoreBody, cCheckpoint, "-- atlas:sum ignore", "-- atlas:sum ignore \n", "--atlas:sum  ignore\r\n",
	"atlas:sum ignore", "-- atlas:sum ignore\tx\n", "-- atlas:sum ignored\n", "-- atlas:sum\n", "-- atlas:summ ignore\n",
	"x atlas:sum ignoreatlas:sum ignore\n", "-- atlas:sum ignore atlas:\n", "-- atlas:sum ignore atlas:x\n", "\n-- atlas:sum ignore\n",
	".sqlFOO", "FOO", "h1:AAAA\n", "a.sql h1:x\n", "\u00e9-- atlas:sum ignore\n", "-- atlas:delimiter \\n\n-- atlas:sum ignore\n",
}

func (g *gen) corpus() {
	// the defects reproduced by hand before the machinery existed, and close relatives
	run := func(kind string, base, cur []kv) {
		base = sorted(base)
		bo := observeMem(base)
		g.check(kind, base, bo.hf, bo.hfText, withSum(cur, bo.hfText, 0), true, expect{})
	}
	run("corpus:trailing-ignored-added", []kv{{"1.sql", "A;\n"}}, []kv{{"1.sql", "A;\n"}, {"2.sql", cIgnore}})
	run("corpus:middle-ignored-added", []kv{{"1.sql", "A;\n"}, {"3.sql", "A;\n"}}, []kv{{"1.sql", "A;\n"}, {"2.sql", cIgnore}, {"3.sql", "A;\n"}})
	run("corpus:concat-ambiguity", []kv{{".sql.sql", ".sqlFOO"}}, []kv{{".sql", cIgnore}, {".sql.sql", "FOO"}})
	run("corpus:concat-shift", []kv{{"a.sql", "b.sqlX"}, {"c.sql", "Y"}}, []kv{{"a.sql", ""}, {"b.sql", "Xc.sqlY"}})
	run("corpus:h1-in-name", []kv{{"1_oauth1:init.sql", "A;\n"}}, []kv{{"1_oauth1:init.sql", "A;\n"}})
	run("corpus:leading-space-name", []kv{{" 1.sql", "A;\n"}}, []kv{{" 1.sql", "A;\n"}})
	// atlas.sum listing a name twice, header recomputed
	base := []kv{{"1.sql", "A;\n"}, {"2.sql", "B;\n"}}
	bo := observeMem(base)
	dup := append(append(migrate.HashFile{}, bo.hf...), bo.hf[0])
	b, _ := dup.MarshalText()
	g.check("corpus:sum-duplicate-line", base, bo.hf, bo.hfText, withSum(base, string(b), 0), true, expect{})
}

func randomBytes(r *rng.R, s string) string {
	// one random single edit
	pool := []byte{' ', '\n', '\r', ':', 'h', '1', 'x', '.', 0xc2, 0xa0, '-', 'a'}
	if len(s) == 0 || r.Intn(3) == 0 {
		i := r.Intn(len(s) + 1)
		return s[:i] + string(rng.Pick(r, pool)) + s[i:]
	}
	i := r.Intn(len(s))
	if r.Bool() {
		return s[:i] + s[i+1:]
	}
	b := []byte(s)
	b[i] = rng.Pick(r, pool)
	return string(b)
}

func (g *gen) random(nBases, nEdits int) {
	r := rng.FromEnv(0xC06)
	for b := 0; b < nBases; b++ {
		var st []kv
		for k := 1 + r.Intn(4); k > 0; k-- {
			n := rng.Pick(r, advNames)
			if r.Intn(8) == 0 {
				n = randomBytes(r, n)
			}
			if hasName(st, n) || n == sumName {
				continue
			}
			c := rng.Pick(r, advContents)
			if r.Intn(6) == 0 {
				c = randomBytes(r, c)
			}
			st = append(st, kv{n, c})
		}
		base := sqlFiles(st)
		bo := observeMem(st)
		S := bo.hfText
		g.check("rnd-untouched", base, bo.hf, S, append(append([]kv{}, st...), kv{sumName, S}), true, expect{})
		for e := 0; e < nEdits; e++ {
			cur := append([]kv{}, st...)
			sum := S
			what := r.Intn(10)
			for k := 1 + r.Intn(3); k > 0; k-- {
				switch {
				case what < 6: // directory edits
					switch op := r.Intn(5); {
					case op == 0 || len(cur) == 0:
						n := rng.Pick(r, advNames)
						if !hasName(cur, n) && n != sumName {
							cur = append(cur, kv{n, rng.Pick(r, advContents)})
						}
					case op == 1:
						cur = removeAt(cur, r.Intn(len(cur)))
					case op == 2:
						i := r.Intn(len(cur))
						n := rng.Pick(r, advNames)
						if !hasName(cur, n) && n != sumName {
							cur = replaceAt(cur, i, kv{n, cur[i].c})
						}
					case op == 3:
						i := r.Intn(len(cur))
						cur = replaceAt(cur, i, kv{cur[i].n, randomBytes(r, cur[i].c)})
					default:
						i := r.Intn(len(cur))
						cur = replaceAt(cur, i, kv{cur[i].n, rng.Pick(r, advContents)})
					}
				case what < 9: // sum edits
					sum = randomBytes(r, sum)
				default: // crafted
					cs := craftedSums(bo.hf)
					x, _ := rng.Pick(r, cs).hf.MarshalText()
					sum = string(x)
				}
			}
			kind := "rnd-dir"
			if what >= 6 {
				kind = "rnd-sum"
			}
			g.check(kind, base, bo.hf, S, append(cur, kv{sumName, sum}), e%4 == 0, expect{})
		}
	}
}

func genDir(w *out.W, tier string) {
	g := &gen{w: w, tier: tier, prefix: "d"}
	names := []string{"1.sql", "10.sql", "2.sql"}
	contents := []string{"", "A;\n", cIgnore, cCheckpoint}
	maxFiles, nb, ne := 3, 400, 12
	if tier == "thorough" {
		names = append(names, "z.sql")
		contents = append(contents, cIgnoreBody)
		nb, ne = 4000, 25
	}
	w.Exhaust = true
	w.Rule = fmt.Sprintf("exhaustive: every directory of <=%d files over names %q x contents %q; for each, atlas.sum as the real code writes it, then the untouched case and the complete single-edit neighbourhood: every byte of every file x {xor 1, xor 0x20, delete, insert 'x' before/after}, add of every absent name x content, remove, rename to every absent name, content replace, content swap of every pair, atlas.sum deleted, every byte of atlas.sum x {xor 1, delete, insert ' ' or CR before/after}, CRLF/no-final-newline/no-h1 variants, and entry-level edits of atlas.sum with the header recomputed (duplicate, delete, swap, rename, foreign/garbage/empty hash, separator moved, extra entry). Then seeded random directories over %d adversarial names (h1:, blanks, CR, LF, unicode white space, invalid UTF-8, .sql inside the name) x %d contents (variants of the sum-ignore directive) with compound edits. Non-trivial = the directory or atlas.sum differs from what was hashed (an edit Validate has to judge); distinct by the bytes of the whole store", maxFiles, names, contents, len(advNames), len(advContents))
	g.corpus()
	for _, d := range allDirs(names, contents, maxFiles) {
		g.neighbourhood(d, names, contents, true, 1)
	}
	// a second name alphabet for the file-level edits only (names that need sorting, blanks inside)
	for _, d := range allDirs([]string{"b.sql", "a b.sql", "B.sql", "1_oauth1:init.sql"}, []string{"A;\n", cIgnore}, 3) {
		g.neighbourhood(d, []string{"b.sql", "a b.sql", "B.sql", "1_oauth1:init.sql", "c.sql"}, []string{"A;\n", cIgnore}, tier == "thorough", 1)
	}
	g.random(nb, ne)
	_ = unicode.IsSpace
	_ = utf8.RuneError
}
