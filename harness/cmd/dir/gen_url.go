package main

// Part of stage `formats`: the path of every PreRunE up to Validate --
// dirFormatBC(--dir-format, &url), cmdmigrate.Dir / DirURL, checkDir -- through
// the real binary: `atlas migrate validate --dir URL [--dir-format F]`.
// Case line: <id> U <parse 0|1> <scheme> <fmt ~|hex> <flag> <isdir 0|1> <tree>

import (
	"fmt"
	"net/url"
	"os"
	"path/filepath"
	"strings"

	"verifharness/internal/clirun"
	"verifharness/internal/out"
)

func genURL(w *out.W, tier string) {
	T := filepath.Join(tmpRoot, "urls")
	type td struct {
		name   string
		format string // hashed by ("" = no atlas.sum)
		tree   []fent
	}
	mk := func(names ...string) []fent {
		var t []fent
		for i, n := range names {
			t = append(t, mkFent(n, fmt.Sprintf("--%d\nSELECT %d;\n", i, i)))
		}
		return t
	}
	dirs := []td{
		{"gm", "golang-migrate", mk("1.up.sql", "1.down.sql", "2.up.sql", "3.sql")},
		{"at", "atlas", mk("1.sql", "2.sql")},
		{"fw", "flyway", mk("V2__b.sql", "V10__c.sql", "U2__b.sql")},
		{"nosum", "", mk("1.sql")},
	}
	full := map[string][]fent{}
	for _, d := range dirs {
		t := d.tree
		if d.format != "" {
			sum, ok := hashTree(d.format, t, filepath.Join(tmpRoot, "uh"))
			if !ok {
				panic("hash " + d.name)
			}
			t = treeWithSum(t, sum)
		}
		full[d.name] = t
		writeTree(filepath.Join(T, d.name), t)
	}
	defer os.RemoveAll(T)
	suffixes := []string{"", "?format=atlas", "?format=golang-migrate", "?format=goose", "?format=flyway", "?format=liquibase", "?format=dbmate", "?format=bogus", "?format=", "?x=1"}
	flags := []string{"", "atlas", "golang-migrate", "flyway", "bogus"}
	type uc struct {
		url, flag, dir string
		res            clirun.Result
	}
	var cases []*uc
	for _, d := range dirs {
		for _, s := range suffixes {
			for _, f := range flags {
				if tier == "quick" && d.name != "gm" && (len(s)+len(f))%3 != 0 {
					continue
				}
				cases = append(cases, &uc{url: "file://" + d.name + s, flag: f, dir: d.name})
			}
		}
	}
	for _, f := range flags[:3] {
		for _, u := range []string{"gm", "ftp://gm", "mem://gm", "mem://gm?format=bogus", "file://missing", "file://missing?format=flyway", "file://gm%zz", "file://gm/1.up.sql", "://gm", "sqlite://gm"} {
			cases = append(cases, &uc{url: u, flag: f, dir: "gm"})
		}
	}
	jobs := make([]func(), len(cases))
	for i := range cases {
		c := cases[i]
		jobs[i] = func() {
			args := []string{"migrate", "validate", "--dir", c.url}
			if c.flag != "" {
				args = append(args, "--dir-format", c.flag)
			}
			c.res = clirun.Run(T, nil, args...)
		}
	}
	clirun.Parallel(8, jobs)
	known := map[string]bool{"": true, "atlas": true, "golang-migrate": true, "goose": true, "flyway": true, "liquibase": true, "dbmate": true}
	for i, c := range cases {
		id := fmt.Sprintf("u%d", i)
		all := c.res.Stderr + " " + c.res.Stdout
		var o string
		switch {
		case c.res.Exit == 0:
			o = "ok"
		case strings.Contains(all, "checksum file not found"):
			o = "notfound"
		case strings.Contains(all, "You have a checksum error"):
			o = "cs"
		case strings.Contains(all, "unknown dir format"), strings.Contains(all, "unsupported driver"), strings.Contains(all, "missing scheme"):
			o = "openerr"
		case strings.Contains(all, "no such file or directory"), strings.Contains(all, "is not a dir"):
			o = "notexist"
		case strings.Contains(all, "invalid URL escape"), strings.Contains(all, "parse \""), strings.Contains(all, "missing protocol scheme"):
			o = "parse"
		default:
			o = "other:" + hx(strings.TrimSpace(all))
		}
		// what url.Parse makes of it (trusted)
		parseOK, scheme, fm, isDir := 0, "", "~", 0
		var t []fent
		u, err := url.Parse(c.url)
		named := c.flag
		if err == nil {
			parseOK, scheme = 1, u.Scheme
			if u.Query().Has("format") {
				fm = hx(u.Query().Get("format"))
				named = u.Query().Get("format")
			}
			p := filepath.Join(u.Host, u.Path)
			if p == "" {
				p = "migrations"
			}
			if st, err := os.Stat(filepath.Join(T, p)); err == nil && st.IsDir() {
				isDir = 1
				t = full[p]
			}
		}
		w.Case(id, fmt.Sprintf("U %d %s %s %s %d %s", parseOK, hx(scheme), fm, hx(c.flag), isDir, treeTokens(t)), []string{"out=" + o})
		w.Count("kind:url")
		w.Count("url-out:" + strings.SplitN(o, ":", 2)[0])
		w.NonTrivial(id)
		desc := fmt.Sprintf("`atlas migrate validate --dir %s --dir-format %q` (exit %d)", c.url, c.flag, c.res.Exit)
		// oracle: Validate's verdict is reached only through a parsed URL, scheme file|mem, a known named format
		if o == "ok" || o == "cs" || o == "notfound" {
			if err != nil || (scheme != "file" && scheme != "mem") || (scheme == "file" && !known[named]) {
				w.Violation(id, "url-error-reaches-validate", desc+": outcome "+o+" although the URL is unusable or names an unknown format")
			}
		}
		// the format the URL names wins over the flag; the flag counts when the URL names none: each directory was
		// hashed by one format and validates under exactly the readers that return the same files
		if err == nil && scheme == "file" && isDir == 1 && known[named] {
			nf := named
			if nf == "" {
				nf = "atlas"
			}
			hashedBy := ""
			for _, d := range dirs {
				if d.name == c.dir {
					hashedBy = d.format
				}
			}
			same := map[string]bool{"atlas": true, "goose": true, "liquibase": true, "dbmate": true}
			if hashedBy != "" && (nf == hashedBy || (same[nf] && same[hashedBy])) && o != "ok" {
				w.Violation(id, "url-format-not-honoured", desc+": the directory was hashed as "+hashedBy+" and must validate under "+nf+", got "+o)
			}
			if hashedBy != "" && hashedBy != "atlas" && same[nf] && o == "ok" {
				w.Violation(id, "url-format-not-honoured", desc+": hashed as "+hashedBy+", validates under reader "+nf)
			}
		}
		if strings.HasPrefix(o, "other:") {
			w.Violation(id, "url-unclassified-outcome", desc+": "+strings.TrimSpace(all))
		}
	}
}
