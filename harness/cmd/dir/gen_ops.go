package main

import (
	"fmt"
	"os"
	"strings"

	"ariga.io/atlas/sql/migrate"

	"verifharness/internal/out"
	"verifharness/internal/rng"
)

// fixedFmt is a Formatter that returns preset files: the formatting of a plan
// is property C07's subject, the writers only see its result.
type fixedFmt struct{ files []kv }

func (f fixedFmt) Format(*migrate.Plan) ([]migrate.File, error) {
	r := make([]migrate.File, len(f.files))
	for i, x := range f.files {
		r[i] = migrate.NewLocalFile(x.n, []byte(x.c))
	}
	return r, nil
}

type opT struct {
	kind  string // P, K, C
	files []kv   // P, C
	n, tag, c string
}

func (o opT) tokens() string {
	switch o.kind {
	case "K":
		return fmt.Sprintf("K %s %s %s", hx(o.n), hx(o.tag), hx(o.c))
	default:
		return o.kind + " " + filesTokens(o.files)
	}
}

func (o opT) desc() string {
	switch o.kind {
	case "P":
		return "WritePlan" + descFiles(o.files)
	case "K":
		return fmt.Sprintf("WriteCheckpoint(%q, tag %q, %q)", o.n, o.tag, o.c)
	}
	return "CopyFiles" + descFiles(o.files)
}

type dirRW interface {
	migrate.Dir
}

func applyOp(d migrate.Dir, o opT) error {
	switch o.kind {
	case "P":
		return migrate.NewPlanner(nil, d, migrate.PlanFormat(fixedFmt{o.files})).WritePlan(&migrate.Plan{})
	case "K":
		return migrate.NewPlanner(nil, d, migrate.PlanFormat(fixedFmt{[]kv{{o.n, o.c}}})).WriteCheckpoint(&migrate.Plan{}, o.tag)
	case "C":
		fs := make([]migrate.File, len(o.files))
		for i, x := range o.files {
			fs[i] = migrate.NewLocalFile(x.n, []byte(x.c))
		}
		return d.(*migrate.MemDir).CopyFiles(fs)
	}
	panic("op")
}

func readSum(d migrate.Dir) *string {
	f, err := d.Open(sumName)
	if err != nil {
		return nil
	}
	defer f.Close()
	var b strings.Builder
	buf := make([]byte, 4096)
	for {
		n, err := f.Read(buf)
		b.Write(buf[:n])
		if err != nil {
			break
		}
	}
	s := b.String()
	return &s
}

func copyPre(before []kv, fs []kv) string {
	var bad []string
	if len(sqlFiles(before)) > 0 {
		bad = append(bad, "directory-not-empty")
	}
	for i, f := range fs {
		if !strings.HasSuffix(f.n, ".sql") {
			bad = append(bad, "non-sql-file")
		}
		if i > 0 && fs[i-1].n >= f.n {
			bad = append(bad, "not-sorted")
		}
	}
	return strings.Join(bad, "+")
}

func genOps(w *out.W, tier string) {
	starts := [][]kv{
		{},
		{{"1.sql", "A;\n"}, {sumName, "VALID"}},
		{{"1.sql", "A;\n"}, {sumName, "h1:stale\n"}},
		{{"2.sql", cIgnore}, {"README.md", "x"}},
		{{"1.sql", "A;\n"}, {"3.sql", cCheckpoint}},
	}
	alphabet := []opT{
		{kind: "P", files: []kv{{"2.sql", "B;\n"}}},
		{kind: "P", files: []kv{{"1.sql", "A2;\n"}}},
		{kind: "P", files: []kv{{"0.sql", cIgnore}, {"4.sql", "D;\n"}}},
		{kind: "P", files: nil},
		{kind: "P", files: []kv{{"notes.txt", "n"}}},
		{kind: "K", n: "3.sql", tag: "", c: "C;\n"},
		{kind: "K", n: "5.sql", tag: "v1", c: "-- c1\n\nE;\n"},
		{kind: "K", n: "2.sql", tag: "t", c: "-- only comment"},
		{kind: "K", n: "6.sql", tag: "", c: "# c\n-- d\n  \nF;\n"},
		{kind: "K", n: "7.sql", tag: "", c: "-- c\nG;\n"},
		{kind: "C", files: []kv{{"8.sql", "H;\n"}, {"9.sql", cIgnore}}},
		{kind: "C", files: []kv{{"9.sql", "I;\n"}, {"8.sql", "H;\n"}}},
		{kind: "C", files: nil},
	}
	maxOps := 3
	if tier == "thorough" {
		maxOps = 4
	}
	w.Exhaust = true
	w.Rule = fmt.Sprintf("exhaustive: every sequence of 1..%d writer operations over an alphabet of %d (Planner.WritePlan with 0/1/2 formatted files incl. overwriting, sum-ignored and non-sql ones; Planner.WriteCheckpoint with/without tag over contents with/without leading comments; MemDir.CopyFiles sorted/unsorted/empty) from %d start directories (empty, valid, stale sum, no sum + foreign file, checkpoint present), on MemDir and (without CopyFiles; all sequences of <=3 ops, every 8th longer one) LocalDir; then seeded random sequences with adversarial names. After every operation: Files(), atlas.sum bytes, Validate. Non-trivial = every sequence (each operation rewrites atlas.sum); distinct by sequence", maxOps, len(alphabet), len(starts))
	n := 0
	run := func(start []kv, ops []opT) {
		n++
		id := fmt.Sprintf("o%d", n)
		// VALID placeholder: the sum the real code writes for the start files
		st := append([]kv{}, start...)
		for i, f := range st {
			if f.n == sumName && f.c == "VALID" {
				st[i].c = observeMem(removeAt(st, i)).hfText
			}
		}
		toks := []string{filesTokens(st), fmt.Sprint(len(ops))}
		hasCopy := false
		for _, o := range ops {
			toks = append(toks, o.tokens())
			hasCopy = hasCopy || o.kind == "C"
		}
		runOn := func(d migrate.Dir, snapshot func() []kv) []string {
			var obs []string
			for i, o := range ops {
				before := snapshot()
				if err := applyOp(d, o); err != nil {
					w.Violation(id, "writer-error", fmt.Sprintf("%s: %v", o.desc(), err))
					return obs
				}
				ob, err := observe(d, readSum(d))
				if err != nil {
					w.Violation(id, "harness", err.Error())
					return obs
				}
				obs = append(obs, fmt.Sprintf("op%d %s", i, ob.line()))
				if ob.v != "ok" {
					cls, pre := "writer-leaves-invalid", ""
					if o.kind == "C" {
						if pre = copyPre(before, o.files); pre != "" {
							cls = "copyfiles-leaves-invalid"
						}
					}
					for _, f := range ob.files {
						if !nameParses(f.n) {
							cls = "writer-invalid-name-whitespace"
						}
					}
					w.Violation(id, cls, fmt.Sprintf("start %s, after op %d %s (%s): Validate = %s", descFiles(st), i, o.desc(), pre, ob.v))
				}
			}
			return obs
		}
		md := memDir(st)
		mobs := runOn(md, func() []kv {
			fs, _ := md.Files()
			var r []kv
			for _, f := range fs {
				r = append(r, kv{f.Name(), string(f.Bytes())})
			}
			return r
		})
		w.Case(id, strings.Join(toks, " "), mobs)
		w.NonTrivial(strings.Join(toks, " "))
		for _, o := range ops {
			w.Count("op:" + o.kind)
		}
		all := append([]kv{}, st...)
		for _, o := range ops {
			all = append(all, o.files...)
			if o.kind == "K" {
				all = append(all, kv{o.n, ""})
			}
		}
		// LocalDir is file I/O bound: every sequence of <=3 ops, every 8th of the longer ones
		if !hasCopy && fsSafe(all) && (len(ops) <= 3 || n%8 == 0) {
			ld, p := localDir(st)
			lobs := runOn(ld, func() []kv { return nil })
			os.RemoveAll(p)
			w.Count("localdir")
			if strings.Join(lobs, "\n") != strings.Join(mobs, "\n") {
				w.Violation(id, "localdir-memdir-differ", fmt.Sprintf("start %s ops %v: LocalDir %v / MemDir %v", descFiles(st), toks, lobs, mobs))
			}
		}
	}
	var rec func(start []kv, ops []opT)
	rec = func(start []kv, ops []opT) {
		if len(ops) > 0 {
			run(start, ops)
		}
		if len(ops) == maxOps {
			return
		}
		for _, o := range alphabet {
			rec(start, append(append([]opT{}, ops...), o))
		}
	}
	for _, s := range starts {
		rec(s, nil)
	}
	// random sequences with adversarial names and contents
	r := rng.FromEnv(0x0b5)
	nr := 1500
	if tier == "thorough" {
		nr = 20000
	}
	pick := func() kv {
		n := rng.Pick(r, advNames)
		if n == sumName {
			n = "1.sql"
		}
		return kv{n, rng.Pick(r, advContents)}
	}
	for i := 0; i < nr; i++ {
		var st []kv
		for k := r.Intn(3); k > 0; k-- {
			f := pick()
			if !hasName(st, f.n) {
				st = append(st, f)
			}
		}
		var ops []opT
		for k := 1 + r.Intn(4); k > 0; k-- {
			switch r.Intn(5) {
			case 0, 1:
				var fs []kv
				for j := r.Intn(3); j > 0; j-- {
					fs = append(fs, pick())
				}
				ops = append(ops, opT{kind: "P", files: fs})
			case 2, 3:
				f := pick()
				ops = append(ops, opT{kind: "K", n: f.n, tag: rng.Pick(r, []string{"", "v1", "a b"}), c: f.c})
			default:
				var fs []kv
				for j := r.Intn(3); j > 0; j-- {
					f := pick()
					if !hasName(fs, f.n) {
						fs = append(fs, f)
					}
				}
				if r.Bool() {
					fs = sorted(fs)
				}
				ops = append(ops, opT{kind: "C", files: fs})
			}
		}
		run(st, ops)
	}
}
