package main

import (
	"fmt"

	"ariga.io/atlas/sql/migrate"

	"verifharness/internal/out"
	"verifharness/internal/rng"
)

// genLine validates the model's matcher of the directive pattern against
// Go's regexp on many file heads, observed through NewHashFile (a file whose
// head carries "atlas:sum ignore" gets no entry).
func genLine(w *out.W, tier string) {
	toks := []string{"atlas:", "sum", "ignore", " ", "  ", "-- ", "x", "_", ":", "\n", "\r\n", "\t", "atlas:sum", "é", "atlas:sum ignore", "~", "\x7f", "\x1f", "A9", "-"}
	maxLen := 4
	if tier == "thorough" {
		maxLen = 5
	}
	w.Exhaust = true
	w.Rule = fmt.Sprintf("exhaustive: every concatenation of <=%d tokens of %q as the content of a single file, plus seeded random byte strings around the directive; observed: whether NewHashFile skips the file. Non-trivial = the content contains \"atlas:\"; distinct by content", maxLen, toks)
	n := 0
	one := func(c string) {
		n++
		id := fmt.Sprintf("l%d", n)
		hf, err := migrate.NewHashFile([]migrate.File{migrate.NewLocalFile("1.sql", []byte(c))})
		if err != nil {
			w.Violation(id, "harness", err.Error())
			return
		}
		ign := "0"
		if len(hf) == 0 {
			ign = "1"
		}
		w.Case(id, hx(c), []string{"ign=" + ign})
		w.Count("ign:" + ign)
		if specRe.MatchString(c) {
			w.NonTrivial(c)
		}
		if (ign == "1") != specIgnored(c) {
			w.Violation(id, "directive-differs-from-pattern", fmt.Sprintf("content %q: NewHashFile skips=%s, documented pattern says ignored=%v", c, ign, specIgnored(c)))
		}
	}
	var rec func(d int, cur string)
	rec = func(d int, cur string) {
		one(cur)
		if d == maxLen {
			return
		}
		for _, t := range toks {
			rec(d+1, cur+t)
		}
	}
	rec(0, "")
	for _, c := range advContents {
		one(c)
	}
	r := rng.FromEnv(0x11e)
	nr := 20000
	if tier == "thorough" {
		nr = 200000
	}
	seeds := []string{"-- atlas:sum ignore\n", "atlas:sum ignore", "-- atlas:sum  ignore \nX", "# atlas:sum ignore\r\n", "atlas:sumatlas:sum ignore"}
	for i := 0; i < nr; i++ {
		c := rng.Pick(r, seeds)
		for k := 1 + r.Intn(4); k > 0; k-- {
			c = randomBytes(r, c)
		}
		one(c)
	}
}
