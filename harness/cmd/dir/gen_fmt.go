package main

// Stage `formats` (round 5): which files of a local directory tree each
// directory format reads, hashes and validates (sql/migrate LocalDir,
// sql/sqltool GolangMigrateDir / GooseDir / FlywayDir / LiquibaseDir /
// DBMateDir, cmd/atlas DirURL's ?format= switch through the real CLI), the
// tar archive round trip (ArchiveDir / UnarchiveDir) and the checkpoint
// readers (CheckpointFiles / FilesFromLastCheckpoint).
//
// Case lines
//   <id> T <format> <cli 0|1> <n> {<path> <kind>}     path = hex components joined by '/', kind = D | F<hex>
//   <id> K <store> <bits>                             checkpoint readers on a MemDir
// The oracle is evaluated on what the real code returned.

import (
	"archive/tar"
	"bytes"
	"errors"
	"fmt"
	"io"
	"os"
	"path/filepath"
	"sort"
	"strings"

	"ariga.io/atlas/sql/migrate"
	"ariga.io/atlas/sql/sqltool"

	"verifharness/internal/clirun"
	"verifharness/internal/out"
	"verifharness/internal/rng"
)

type fent struct {
	path []string
	dir  bool
	c    string
}

func (e fent) p() string { return strings.Join(e.path, "/") }

func mkFent(p string, c string) fent {
	if strings.HasSuffix(p, "/") {
		return fent{path: strings.Split(strings.TrimSuffix(p, "/"), "/"), dir: true}
	}
	return fent{path: strings.Split(p, "/"), c: c}
}

func treeTokens(t []fent) string {
	var b strings.Builder
	fmt.Fprintf(&b, "%d", len(t))
	for _, e := range t {
		hp := make([]string, len(e.path))
		for i, c := range e.path {
			hp[i] = hx(c)
		}
		b.WriteByte(' ')
		b.WriteString(strings.Join(hp, "/"))
		if e.dir {
			b.WriteString(" D")
		} else {
			b.WriteString(" F" + hx(e.c))
		}
	}
	return b.String()
}

func descTree(t []fent) string {
	p := make([]string, len(t))
	for i, e := range t {
		if e.dir {
			p[i] = fmt.Sprintf("%q/", e.p())
		} else {
			p[i] = fmt.Sprintf("%q:%q", e.p(), e.c)
		}
	}
	return "{" + strings.Join(p, ", ") + "}"
}

func writeTree(root string, t []fent) {
	if err := os.MkdirAll(root, 0o755); err != nil {
		panic(err)
	}
	for _, e := range t {
		full := filepath.Join(append([]string{root}, e.path...)...)
		if e.dir {
			if err := os.MkdirAll(full, 0o755); err != nil {
				panic(err)
			}
			continue
		}
		if err := os.MkdirAll(filepath.Dir(full), 0o755); err != nil {
			panic(err)
		}
		if err := os.WriteFile(full, []byte(e.c), 0o644); err != nil {
			panic(err)
		}
	}
}

var allFormats = []string{"atlas", "golang-migrate", "goose", "flyway", "liquibase", "dbmate"}

func openFormat(format, p string) (migrate.Dir, error) {
	switch format {
	case "atlas":
		return migrate.NewLocalDir(p)
	case "golang-migrate":
		return sqltool.NewGolangMigrateDir(p)
	case "goose":
		return sqltool.NewGooseDir(p)
	case "flyway":
		return sqltool.NewFlywayDir(p)
	case "liquibase":
		return sqltool.NewLiquibaseDir(p)
	case "dbmate":
		return sqltool.NewDBMateDir(p)
	}
	return nil, errors.New("format " + format)
}

func showVT(err error, panicked bool) string {
	s := showV(err, panicked)
	if strings.HasPrefix(s, "other:") {
		return "err"
	}
	return s
}

type fmtObs struct {
	filesErr bool
	files    []kv
	hf       string
	v        string
	w        string
	arcErr   bool
	arc      []kv
	uf       []kv
	ua       string
	cli      string // "", "ok", "fail"
}

func namesHex(fs []kv) string {
	if len(fs) == 0 {
		return "-"
	}
	p := make([]string, len(fs))
	for i, f := range fs {
		p[i] = hx(f.n)
	}
	return strings.Join(p, ",")
}

func (o *fmtObs) lines() []string {
	fs, hf := namesHex(o.files), hx(o.hf)
	if o.filesErr {
		fs, hf = "err", "-"
	}
	arc := "-"
	if o.arcErr {
		arc = "err"
	} else if len(o.arc) > 0 {
		p := make([]string, len(o.arc))
		for i, f := range o.arc {
			p[i] = hx(f.n) + ":" + hx(f.c)
		}
		arc = strings.Join(p, ",")
	}
	l := []string{fmt.Sprintf("files=%s hf=%s v=%s w=%s arc=%s uf=%s ua=%s", fs, hf, o.v, o.w, arc, namesHex(o.uf), o.ua)}
	if o.cli != "" {
		l = append(l, "cli="+o.cli)
	}
	return l
}

func readTar(b []byte) ([]kv, error) {
	var r []kv
	tr := tar.NewReader(bytes.NewReader(b))
	for {
		h, err := tr.Next()
		if err == io.EOF {
			return r, nil
		}
		if err != nil {
			return nil, err
		}
		d, err := io.ReadAll(tr)
		if err != nil {
			return nil, err
		}
		r = append(r, kv{h.Name, string(d)})
	}
}

// observeFormat builds the tree in a fresh temp dir and looks at it through
// the real format directory (and, when cli is set, the real binary).
func observeFormat(format string, t []fent, cli bool, root string) *fmtObs {
	o := &fmtObs{}
	p := filepath.Join(root, "d")
	writeTree(p, t)
	defer os.RemoveAll(root)
	d, err := openFormat(format, p)
	if err != nil {
		panic(err)
	}
	fs, err := d.Files()
	if err != nil {
		o.filesErr = true
	} else {
		for _, f := range fs {
			o.files = append(o.files, kv{f.Name(), string(f.Bytes())})
		}
		hf, err := migrate.NewHashFile(fs)
		if err != nil {
			panic(err)
		}
		b, _ := hf.MarshalText()
		o.hf = string(b)
	}
	o.v = showVT(validateSafe(d))
	// archive round trip
	if arc, err := migrate.ArchiveDir(d); err != nil {
		o.arcErr = true
		o.ua = "-"
	} else {
		if o.arc, err = readTar(arc); err != nil {
			panic(err)
		}
		u, err := migrate.UnarchiveDir(arc)
		if err != nil {
			panic(err)
		}
		ufs, err := u.Files()
		if err != nil {
			panic(err)
		}
		for _, f := range ufs {
			o.uf = append(o.uf, kv{f.Name(), string(f.Bytes())})
		}
		o.ua = showVT(validateSafe(u))
	}
	if cli {
		r := clirun.Run(root, nil, "migrate", "validate", "--dir", "file://d?format="+format)
		o.cli = "ok"
		if r.Exit != 0 {
			o.cli = "fail"
		}
	}
	// migrate hash on the format directory: WriteSumFile(dir, dir.Checksum())
	if sum, err := d.Checksum(); err != nil {
		o.w = "err"
	} else {
		if err := migrate.WriteSumFile(d, sum); err != nil {
			panic(err)
		}
		o.w = showVT(validateSafe(d))
	}
	return o
}

// hashTree returns the atlas.sum bytes the real format directory writes for t ("" and false when Files() fails).
func hashTree(format string, t []fent, root string) (string, bool) {
	p := filepath.Join(root, "d")
	writeTree(p, t)
	defer os.RemoveAll(root)
	d, err := openFormat(format, p)
	if err != nil {
		panic(err)
	}
	sum, err := d.Checksum()
	if err != nil {
		return "", false
	}
	b, _ := sum.MarshalText()
	return string(b), true
}

// specGlob is the specification of the glob formats: the root's regular files with the suffix, by name.
func specGlob(t []fent, suffix string) (fs []kv, ok bool) {
	ok = true
	for _, e := range t {
		if len(e.path) == 1 && strings.HasSuffix(e.path[0], suffix) {
			if e.dir {
				ok = false
			}
			fs = append(fs, kv{e.path[0], e.c})
		}
	}
	sort.Slice(fs, func(i, j int) bool { return fs[i].n < fs[j].n })
	return
}

// specFlywayCandidate: regular *.sql file with prefix V, B or R outside hidden directories.
func specFlywayCandidate(e fent) bool {
	if e.dir {
		return false
	}
	for _, c := range e.path[:len(e.path)-1] {
		if strings.HasPrefix(c, ".") {
			return false
		}
	}
	b := e.path[len(e.path)-1]
	return strings.HasSuffix(b, ".sql") && (b[0] == 'V' || b[0] == 'B' || b[0] == 'R')
}

type fmtCase struct {
	format string
	tree   []fent // including atlas.sum when present
	cli    bool
	kind   string // "plain", "hashed", "tamper"
	base   []kv   // tamper: Files() of the untampered tree (real code)
	edit   string
	obs    *fmtObs
}

func treeWithSum(t []fent, sum string) []fent {
	r := append([]fent{}, t...)
	return append(r, fent{path: []string{sumName}, c: sum})
}

func genFmt(w *out.W, tier string) {
	r := rng.FromEnv(0xf0a7)
	w.Set("nontrivial_rule_formats", "a case whose tree holds an entry the format does not read (non-matching suffix/prefix, sub-directory, hidden directory, directory matching the pattern), a Flyway baseline, or a tampered tree")
	poolNames := []string{
		"1.sql", "2.sql", "10.sql", "a.txt", ".sql", ".h.sql", "1.up.sql", "1.down.sql", "2.up.sql",
		"V1__a.sql", "V2__b.sql", "V10__c.sql", "V1.1__d.sql", "V1_2__e.sql", "V01__z.sql", "U1__a.sql",
		"R__r1.sql", "R__a.sql", "B2__base.sql", "B1__old.sql", "B9__b.sql", "Vx__w.sql", "V.sql", "V__x.sql",
		"v4__l.sql", "V5__a.SQL", "V6__a.sql.bak", "V3.sql", "V-1__neg.sql", "V99999999999999999999__big.sql",
		"d.sql/", "x.up.sql/", "Vd.sql/", "sub/",
		"sub/V3__s.sql", "sub/3.sql", "sub/R__s.sql", ".git/V7__h.sql", "sub/.deep/V8__h.sql", "0/V1__zero.sql",
		"a/V1__sa.sql", "sub/B5__sb.sql", "sub/U2__u.sql", "a/b/V4__deep.sql", "sub/4.up.sql",
	}
	pool := make([]fent, len(poolNames))
	for i, n := range poolNames {
		pool[i] = mkFent(n, fmt.Sprintf("--%d\nSELECT %d;\n", i, i))
	}
	var cases []*fmtCase
	seq := 0
	tmp := func() string {
		seq++
		return filepath.Join(tmpRoot, fmt.Sprintf("f%d", seq))
	}
	addPlain := func(format string, t []fent, hashed bool) {
		c := &fmtCase{format: format, tree: t, kind: "plain"}
		if hashed {
			sum, ok := hashTree(format, t, tmp())
			if !ok {
				return
			}
			c.tree, c.kind = treeWithSum(t, sum), "hashed"
		}
		cases = append(cases, c)
	}
	main3 := []string{"atlas", "golang-migrate", "flyway"}
	// 1. every single entry and every pair of pool entries
	for i := range pool {
		for _, f := range allFormats {
			addPlain(f, []fent{pool[i]}, false)
			addPlain(f, []fent{pool[i]}, true)
		}
		for j := i + 1; j < len(pool); j++ {
			pair := []fent{pool[i], pool[j]}
			if r.Bool() {
				pair = []fent{pool[j], pool[i]}
			}
			for _, f := range main3 {
				if tier == "quick" && f != "flyway" && (i+j)%2 == 1 {
					continue
				}
				addPlain(f, pair, true)
			}
			if (i*len(pool)+j)%11 == 0 {
				for _, f := range []string{"goose", "liquibase", "dbmate"} {
					addPlain(f, pair, true)
				}
			}
		}
	}
	// 2. random trees, hashed by the format, then every single edit of the tree
	nTrees := 24
	if tier != "quick" {
		nTrees = 150
	}
	randTree := func() []fent {
		n := 3 + r.Intn(5)
		seen := map[int]bool{}
		var t []fent
		for len(t) < n {
			k := r.Intn(len(pool))
			if seen[k] {
				continue
			}
			seen[k] = true
			t = append(t, pool[k])
		}
		return t
	}
	fixed := [][]string{
		{"V1__a.sql", "V2__b.sql", "V10__c.sql", "U1__a.sql", "R__r1.sql"},
		{"1.up.sql", "1.down.sql", "2.up.sql", "a.txt"},
		{"1.sql", "2.sql", "10.sql", "sub/3.sql", "a.txt"},
		{"B2__base.sql", "V1__a.sql", "V10__c.sql", "sub/V3__s.sql", ".git/V7__h.sql"},
		{"B9__b.sql", "V10__c.sql", "V2__b.sql"},
		{"a/V1__sa.sql", "0/V1__zero.sql", "B2__base.sql", "R__a.sql", "R__r1.sql"},
	}
	var trees [][]fent
	for _, names := range fixed {
		var t []fent
		for _, n := range names {
			for _, e := range pool {
				if e.p() == strings.TrimSuffix(n, "/") {
					t = append(t, e)
				}
			}
		}
		trees = append(trees, t)
	}
	for i := 0; i < nTrees; i++ {
		trees = append(trees, randTree())
	}
	for ti, t := range trees {
		for _, f := range allFormats {
			if tier == "quick" && ti >= len(fixed) && f != "flyway" && f != "golang-migrate" && (ti+len(f))%3 != 0 {
				continue
			}
			sum, ok := hashTree(f, t, tmp())
			if !ok {
				continue
			}
			d0, err := openAndFiles(f, t, tmp())
			if err != nil {
				panic(err)
			}
			addT := func(t2 []fent, edit string) {
				cases = append(cases, &fmtCase{format: f, tree: treeWithSum(t2, sum), kind: "tamper", base: d0, edit: edit})
			}
			for i, e := range t {
				// removed
				t2 := append(append([]fent{}, t[:i]...), t[i+1:]...)
				addT(t2, "remove "+e.p())
				if e.dir {
					continue
				}
				// one byte appended / first byte replaced
				t3 := append([]fent{}, t...)
				t3[i] = fent{path: e.path, c: e.c + "X"}
				addT(t3, "append to "+e.p())
				t4 := append([]fent{}, t...)
				t4[i] = fent{path: e.path, c: "~" + e.c[1:]}
				addT(t4, "edit "+e.p())
				// renamed inside its directory
				np := append(append([]string{}, e.path[:len(e.path)-1]...), strings.TrimSuffix(e.path[len(e.path)-1], ".sql")+"n.sql")
				t5 := append([]fent{}, t...)
				t5[i] = fent{path: np, c: e.c}
				addT(t5, "rename "+e.p()+" -> "+strings.Join(np, "/"))
			}
			added := 0
			for k := 0; added < 8 && k < 4*len(pool); k++ {
				e := pool[r.Intn(len(pool))]
				dup := false
				for _, x := range t {
					if x.p() == e.p() {
						dup = true
					}
				}
				if dup {
					continue
				}
				added++
				addT(append(append([]fent{}, t...), e), "add "+e.p())
			}
		}
	}
	// the CLI on a spread of the cases (DirURL's ?format= switch)
	cliEvery := 23
	if tier != "quick" {
		cliEvery = 13
	}
	for i, c := range cases {
		c.cli = i%cliEvery == 0
	}
	roots := make([]string, len(cases))
	for i := range cases {
		roots[i] = tmp()
	}
	jobs := make([]func(), len(cases))
	for i := range cases {
		i := i
		jobs[i] = func() { cases[i].obs = observeFormat(cases[i].format, cases[i].tree, cases[i].cli, roots[i]) }
	}
	clirun.Parallel(8, jobs)
	for i, c := range cases {
		id := fmt.Sprintf("f%d", i)
		cl := 0
		if c.cli {
			cl = 1
			w.Count("cli-runs")
		}
		w.Case(id, fmt.Sprintf("T %s %d %s", c.format, cl, treeTokens(c.tree)), c.obs.lines())
		w.Count("format:" + c.format)
		w.Count("kind:" + c.kind)
		fmtOracle(w, id, c)
	}
	genCk(w, tier, r)
	genURL(w, tier)
}

func openAndFiles(format string, t []fent, root string) ([]kv, error) {
	p := filepath.Join(root, "d")
	writeTree(p, t)
	defer os.RemoveAll(root)
	d, err := openFormat(format, p)
	if err != nil {
		return nil, err
	}
	fs, err := d.Files()
	if err != nil {
		return nil, err
	}
	var r []kv
	for _, f := range fs {
		r = append(r, kv{f.Name(), string(f.Bytes())})
	}
	return r, nil
}

func sortedByName(fs []kv) bool {
	return sort.SliceIsSorted(fs, func(i, j int) bool { return fs[i].n < fs[j].n })
}

func fmtOracle(w *out.W, id string, c *fmtCase) {
	o := c.obs
	var tree []fent // without atlas.sum
	hasSum := false
	for _, e := range c.tree {
		if len(e.path) == 1 && e.path[0] == sumName {
			hasSum = true
			continue
		}
		tree = append(tree, e)
	}
	desc := fmt.Sprintf("format %s, tree %s", c.format, descTree(tree))
	// (1) the selection of each format, specified independently
	switch c.format {
	case "flyway":
		cand := map[string]string{}
		for _, e := range tree {
			if specFlywayCandidate(e) {
				cand[e.p()] = e.c
			}
		}
		if o.filesErr {
			w.Violation(id, "format-files-error", desc+": FlywayDir.Files() failed")
		}
		seen := map[string]bool{}
		nb := 0
		for _, f := range o.files {
			if cc, ok := cand[f.n]; !ok || cc != f.c || seen[f.n] {
				w.Violation(id, "format-files-differ-from-spec", fmt.Sprintf("%s: Files() returned %q which is not a V/B/R *.sql file outside hidden directories (or twice, or with other bytes)", desc, f.n))
			}
			seen[f.n] = true
			if filepath.Base(f.n)[0] == 'B' {
				nb++
			}
		}
		if nb > 1 {
			w.Violation(id, "format-files-differ-from-spec", desc+": more than one baseline file returned")
		}
		for n := range cand {
			b := filepath.Base(n)[0]
			if !seen[n] && b == 'R' {
				w.Violation(id, "format-files-differ-from-spec", fmt.Sprintf("%s: repeatable %q not returned", desc, n))
			}
			if !seen[n] && b == 'V' && nb == 0 {
				w.Violation(id, "format-files-differ-from-spec", fmt.Sprintf("%s: versioned %q not returned although there is no baseline", desc, n))
			}
		}
		if len(cand) < len(tree) || nb > 0 {
			w.NonTrivial(id)
		}
	default:
		suffix := ".sql"
		if c.format == "golang-migrate" {
			suffix = ".up.sql"
		}
		want, ok := specGlob(tree, suffix)
		switch {
		case !ok && !o.filesErr:
			w.Violation(id, "format-files-differ-from-spec", desc+": a directory matches the pattern but Files() succeeded")
		case ok && o.filesErr:
			w.Violation(id, "format-files-error", desc+": Files() failed")
		case ok && !eqFiles(want, o.files):
			w.Violation(id, "format-files-differ-from-spec", fmt.Sprintf("%s: Files() = %s, specified %s", desc, descFiles(o.files), descFiles(want)))
		}
		if len(want) < len(tree) {
			w.NonTrivial(id)
		}
	}
	if o.filesErr {
		w.Count("files-error")
		return
	}
	// (2) validation right after hashing
	if o.w != "ok" {
		w.Violation(id, "format-untouched-fails", fmt.Sprintf("%s: Validate right after WriteSumFile(dir, dir.Checksum()) = %s", desc, o.w))
	}
	if c.kind == "hashed" && o.v != "ok" {
		w.Violation(id, "format-untouched-fails", fmt.Sprintf("%s: hashed by the format, Validate = %s", desc, o.v))
	}
	if !hasSum {
		want := "ok"
		if len(o.files) > 0 {
			want = "notfound"
		}
		if o.v != want {
			w.Violation(id, "format-missing-sum", fmt.Sprintf("%s: no atlas.sum, Validate = %s, expected %s", desc, o.v, want))
		}
	}
	// (3) tampered trees: refused exactly when what the format reads changed
	if c.kind == "tamper" {
		w.NonTrivial(id)
		changed := !eqFiles(c.base, o.files)
		switch {
		case changed && !strings.HasPrefix(o.v, "cs:"):
			w.Violation(id, "format-read-edit-undetected", fmt.Sprintf("%s after %q: the files the format reads changed (%s -> %s) but Validate = %s", desc, c.edit, descFiles(c.base), descFiles(o.files), o.v))
		case !changed && o.v != "ok":
			w.Violation(id, "format-unread-edit-refused", fmt.Sprintf("%s after %q: the files the format reads are unchanged but Validate = %s", desc, c.edit, o.v))
		}
		if changed {
			w.Count("tamper:read")
		} else {
			w.Count("tamper:unread")
		}
	}
	// (4) the CLI (DirURL) agrees with the library
	if o.cli != "" && (o.cli == "ok") != (o.v == "ok") {
		w.Violation(id, "cli-format-validate-differ", fmt.Sprintf("%s: `atlas migrate validate --dir file://d?format=%s` = %s, migrate.Validate on the format directory = %s", desc, c.format, o.cli, o.v))
	}
	// (5) archive round trip: the archive is atlas.sum (if any) then Files(); the unarchived directory validates iff the original does
	if o.arcErr {
		w.Violation(id, "archive-error", desc+": ArchiveDir failed")
		return
	}
	wantArc := []kv{}
	if hasSum {
		for _, e := range c.tree {
			if len(e.path) == 1 && e.path[0] == sumName {
				wantArc = append(wantArc, kv{sumName, e.c})
			}
		}
	}
	wantArc = append(wantArc, o.files...)
	if !eqFiles(wantArc, o.arc) {
		w.Violation(id, "archive-entries", fmt.Sprintf("%s: archive entries %s, expected atlas.sum then Files() = %s", desc, descFiles(o.arc), descFiles(wantArc)))
	}
	if o.v == "ok" && o.ua != "ok" {
		if c.format == "flyway" && !sortedByName(o.files) {
			w.Violation(id, "archive-roundtrip-invalid-flyway-order", fmt.Sprintf("%s validates, UnarchiveDir(ArchiveDir(dir)) does not (%s): Files() order %s is not the name order MemDir uses", desc, o.ua, namesOf(o.files)))
		} else {
			w.Violation(id, "archive-roundtrip-invalid", fmt.Sprintf("%s validates, UnarchiveDir(ArchiveDir(dir)) does not: %s", desc, o.ua))
		}
	}
	if o.v != "ok" && o.ua == "ok" && len(o.files) > 0 {
		w.Violation(id, "archive-roundtrip-repairs", fmt.Sprintf("%s does not validate (%s), UnarchiveDir(ArchiveDir(dir)) does", desc, o.v))
	}
}

func namesOf(fs []kv) string {
	p := make([]string, len(fs))
	for i, f := range fs {
		p[i] = f.n
	}
	return "[" + strings.Join(p, " ") + "]"
}

// genCk: CheckpointFiles / FilesFromLastCheckpoint on MemDir and LocalDir.
func genCk(w *out.W, tier string, r *rng.R) {
	contents := []string{
		"A;\n",
		"-- atlas:checkpoint\n\nA;\n",
		"-- atlas:checkpoint v1\n\nB;\n",
		"-- atlas:checkpointx\n\nA;\n",
		"--atlas:checkpoint\n\nA;\n",
		"A;\n-- atlas:checkpoint\n",
		"-- atlas:checkpoint\nA;\n",
		"-- atlas:sum ignore\n-- atlas:checkpoint\n\nA;\n",
	}
	names := []string{"1.sql", "2.sql", "3.sql", "4.sql"}
	n := 0
	emit := func(st []kv) {
		id := fmt.Sprintf("k%d", n)
		n++
		var obs []string
		var bits string
		for li, mk := range []func() migrate.Dir{
			func() migrate.Dir { return memDir(st) },
			func() migrate.Dir { d, _ := localDir(st); return d },
		} {
			d := mk()
			fs, err := d.Files()
			if err != nil {
				panic(err)
			}
			b := make([]byte, len(fs))
			last := -1
			for i, f := range fs {
				b[i] = '0'
				if c, ok := f.(migrate.CheckpointFile); ok && c.IsCheckpoint() {
					b[i] = '1'
					last = i
				}
			}
			cks, err := d.(migrate.CheckpointDir).CheckpointFiles()
			if err != nil {
				panic(err)
			}
			from, err := migrate.FilesFromLastCheckpoint(d)
			fl := "notfound"
			if err == nil {
				fl = namesHex(toKV(from))
			} else if !errors.Is(err, migrate.ErrCheckpointNotFound) {
				panic(err)
			}
			line := fmt.Sprintf("cks=%s from=%s", namesHex(toKV(cks)), fl)
			if li == 0 {
				bits = string(b)
				obs = append(obs, line)
			} else if line != obs[0] || string(b) != bits {
				w.Violation(id, "checkpoint-mem-local-differ", fmt.Sprintf("%s: MemDir %s, LocalDir %s", descFiles(st), obs[0], line))
			}
			if ld, ok := d.(*migrate.LocalDir); ok {
				os.RemoveAll(ld.Path())
			}
			// specification: the suffix of Files() that starts at the last checkpoint file, everything without one
			want := toKV(fs)
			if last >= 0 {
				want = want[last:]
				w.NonTrivial(id)
			}
			if err != nil || !eqFiles(want, toKV(from)) {
				w.Violation(id, "checkpoint-files-from-last", fmt.Sprintf("%s (checkpoint bits %s): FilesFromLastCheckpoint = %s, expected %s", descFiles(st), b, fl, namesOf(want)))
			}
			nck := 0
			for i := range fs {
				if b[i] == '1' {
					if nck >= len(cks) || cks[nck].Name() != fs[i].Name() {
						w.Violation(id, "checkpoint-files", fmt.Sprintf("%s: CheckpointFiles = %s", descFiles(st), namesOf(toKV(cks))))
						break
					}
					nck++
				}
			}
			if nck != len(cks) {
				w.Violation(id, "checkpoint-files", fmt.Sprintf("%s: CheckpointFiles = %s", descFiles(st), namesOf(toKV(cks))))
			}
		}
		if bits == "" {
			bits = "-"
		}
		w.Case(id, "K "+filesTokens(st)+" "+bits, obs)
		w.Count("kind:checkpoint")
	}
	// all directories of <= 3 files (quick) / 4 files over the contents
	maxN := 3
	if tier != "quick" {
		maxN = 4
	}
	var rec func(st []kv)
	rec = func(st []kv) {
		emit(st)
		if len(st) == maxN {
			return
		}
		for _, c := range contents {
			rec(append(append([]kv{}, st...), kv{names[len(st)], c}))
		}
	}
	rec(nil)
	_ = r
}

func toKV(fs []migrate.File) []kv {
	r := make([]kv, len(fs))
	for i, f := range fs {
		r[i] = kv{f.Name(), string(f.Bytes())}
	}
	return r
}
