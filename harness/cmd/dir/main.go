// Command dir generates directories, edits of them and of their atlas.sum,
// and writer-operation sequences for property C06 (directory integrity),
// runs them on the real sql/migrate package (MemDir and LocalDir), writes the
// model's input and the implementation's observations, and evaluates the
// property oracle directly on what the real code did.
package main

import (
	"encoding/hex"
	"errors"
	"flag"
	"fmt"
	"os"
	"path/filepath"
	"sort"
	"strings"

	"ariga.io/atlas/sql/migrate"

	"verifharness/internal/out"
)

type kv struct{ n, c string }

const sumName = migrate.HashFileName

func hx(s string) string {
	if s == "" {
		return "-"
	}
	return hex.EncodeToString([]byte(s))
}

func filesTokens(st []kv) string {
	var b strings.Builder
	fmt.Fprintf(&b, "%d", len(st))
	for _, f := range st {
		b.WriteByte(' ')
		b.WriteString(hx(f.n))
		b.WriteByte(' ')
		b.WriteString(hx(f.c))
	}
	return b.String()
}

// obsT is what one look at a directory yields on the real code.
type obsT struct {
	files   []kv             // dir.Files(), in the order returned
	hf      migrate.HashFile // NewHashFile(files)
	hfText  string           // its MarshalText
	ign     []bool           // per file: got no entry
	hasSum  bool
	uOK     bool // UnmarshalText(atlas.sum) succeeded
	uEnt    migrate.HashFile
	u, v    string // canonical texts
	vErr    error
	vPanic  bool
}

func (o *obsT) line() string {
	names := make([]string, len(o.files))
	ign := make([]byte, len(o.files))
	for i, f := range o.files {
		names[i] = hx(f.n)
		ign[i] = '0'
		if o.ign[i] {
			ign[i] = '1'
		}
	}
	fs, ig := strings.Join(names, ","), string(ign)
	if len(names) == 0 {
		fs, ig = "-", "-"
	}
	return fmt.Sprintf("files=%s ign=%s hf=%s u=%s v=%s", fs, ig, hx(o.hfText), o.u, o.v)
}

func showHF(h migrate.HashFile) string {
	if len(h) == 0 {
		return "-"
	}
	p := make([]string, len(h))
	for i, e := range h {
		p[i] = hx(e.N) + ":" + hx(e.H)
	}
	return strings.Join(p, ",")
}

func showV(err error, panicked bool) string {
	if panicked {
		return "panic"
	}
	var cs *migrate.ChecksumError
	switch {
	case err == nil:
		return "ok"
	case errors.As(err, &cs):
		return fmt.Sprintf("cs:%d:%d:%d:%s:%s", cs.Line, cs.Total, cs.Pos, hx(cs.File), cs.Reason.String())
	case errors.Is(err, migrate.ErrChecksumNotFound):
		return "notfound"
	case errors.Is(err, migrate.ErrChecksumFormat):
		return "format"
	case errors.Is(err, migrate.ErrChecksumMismatch):
		return "mismatch"
	}
	return "other:" + hx(err.Error())
}

func validateSafe(d migrate.Dir) (err error, panicked bool) {
	defer func() {
		if r := recover(); r != nil {
			panicked = true
		}
	}()
	return migrate.Validate(d), false
}

// observe looks at a directory through the public API only.
func observe(d migrate.Dir, sum *string) (*obsT, error) {
	o := &obsT{}
	fs, err := d.Files()
	if err != nil {
		return nil, err
	}
	for _, f := range fs {
		o.files = append(o.files, kv{f.Name(), string(f.Bytes())})
	}
	if o.hf, err = migrate.NewHashFile(fs); err != nil {
		return nil, err
	}
	mb, err := o.hf.MarshalText()
	if err != nil {
		return nil, err
	}
	o.hfText = string(mb)
	o.ign = make([]bool, len(fs))
	j := 0
	for i, f := range fs {
		if j < len(o.hf) && o.hf[j].N == f.Name() {
			j++
		} else {
			o.ign[i] = true
		}
	}
	o.u = "~"
	if sum != nil {
		o.hasSum = true
		var h migrate.HashFile
		switch err := h.UnmarshalText([]byte(*sum)); {
		case err == nil:
			o.uOK, o.uEnt = true, h
			o.u = "ok:" + showHF(h)
		case errors.Is(err, migrate.ErrChecksumFormat):
			o.u = "format"
		case errors.Is(err, migrate.ErrChecksumMismatch):
			o.u = "mismatch"
		default:
			o.u = "other:" + hx(err.Error())
		}
	}
	o.vErr, o.vPanic = validateSafe(d)
	o.v = showV(o.vErr, o.vPanic)
	return o, nil
}

func sumOf(st []kv) *string {
	for _, f := range st {
		if f.n == sumName {
			s := f.c
			return &s
		}
	}
	return nil
}

func memDir(st []kv) *migrate.MemDir {
	d := &migrate.MemDir{}
	for _, f := range st {
		if err := d.WriteFile(f.n, []byte(f.c)); err != nil {
			panic(err)
		}
	}
	return d
}

func observeMem(st []kv) *obsT {
	o, err := observe(memDir(st), sumOf(st))
	if err != nil {
		panic(err)
	}
	return o
}

// fsSafe reports whether every name can be a file of a local directory.
func fsSafe(st []kv) bool {
	for _, f := range st {
		if f.n == "" || f.n == "." || f.n == ".." || len(f.n) > 200 || strings.ContainsAny(f.n, "/\x00") {
			return false
		}
	}
	return true
}

var tmpRoot string
var tmpSeq int

func localDir(st []kv) (*migrate.LocalDir, string) {
	tmpSeq++
	p := filepath.Join(tmpRoot, fmt.Sprintf("d%d", tmpSeq))
	if err := os.Mkdir(p, 0o755); err != nil {
		panic(err)
	}
	for _, f := range st {
		if err := os.WriteFile(filepath.Join(p, f.n), []byte(f.c), 0o644); err != nil {
			panic(err)
		}
	}
	d, err := migrate.NewLocalDir(p)
	if err != nil {
		panic(err)
	}
	return d, p
}

func observeLocal(st []kv) *obsT {
	d, p := localDir(st)
	defer os.RemoveAll(p)
	o, err := observe(d, sumOf(st))
	if err != nil {
		panic(err)
	}
	return o
}

// sqlFiles is the specification of Dir.Files: the *.sql files ordered by name.
func sqlFiles(st []kv) []kv {
	var fs []kv
	for _, f := range st {
		if strings.HasSuffix(f.n, ".sql") {
			fs = append(fs, f)
		}
	}
	sort.Slice(fs, func(i, j int) bool { return fs[i].n < fs[j].n })
	return fs
}

func eqFiles(a, b []kv) bool {
	if len(a) != len(b) {
		return false
	}
	for i := range a {
		if a[i] != b[i] {
			return false
		}
	}
	return true
}

func descFiles(fs []kv) string {
	p := make([]string, len(fs))
	for i, f := range fs {
		p[i] = fmt.Sprintf("%q:%q", f.n, f.c)
	}
	return "{" + strings.Join(p, ", ") + "}"
}

func main() {
	mode := flag.String("mode", "dir", "dir|line|ops|cliops|consumers|formats")
	tier := flag.String("tier", "quick", "quick|thorough")
	outDir := flag.String("out", "", "output directory")
	flag.Parse()
	if *outDir == "" {
		fmt.Fprintln(os.Stderr, "missing -out")
		os.Exit(2)
	}
	var err error
	if tmpRoot, err = os.MkdirTemp("", "verif-dir-"); err != nil {
		panic(err)
	}
	defer os.RemoveAll(tmpRoot)
	w := out.New(*outDir)
	defer w.Close()
	switch *mode {
	case "dir":
		genDir(w, *tier)
	case "line":
		genLine(w, *tier)
	case "ops":
		genOps(w, *tier)
	case "cliops":
		genCli(w, *tier)
	case "consumers":
		genCons(w, *tier)
	case "formats":
		genFmt(w, *tier)
	default:
		fmt.Fprintln(os.Stderr, "unknown mode")
		os.Exit(2)
	}
}
