// Mode `exported` (C01, round 5): the desired state is the HCL that `atlas schema inspect` printed for ANOTHER
// database D1 -- export, edit nothing, `schema apply` to a database D2 that lacks (or has more than) some of D1's
// objects.  Such HCL carries what the inspector saw but not the Go-side attributes: the index behind an inline
// UNIQUE constraint is `index "sqlite_autoindex_<t>_<n>" { unique = true ... }` with the reserved name and WITHOUT
// sqlite.IndexOrigin (sqlspec has no such attribute), unnamed foreign keys carry SQLite's numeric ids as labels,
// defaults / generated expressions / predicates are in their inspected spelling, the primary key is in key order.
//
//	API  : D1 = harness DDL on real SQLite -> Driver.InspectSchema -> sqlite.MarshalHCL -> sqlite.EvalHCLBytes = desired
//	       D2 = harness DDL (or Atlas' own plan) -> InspectSchema -> DefaultDiff.SchemaDiff -> Driver.ApplyChanges
//	CLI  : `atlas schema inspect -u sqlite://d1.db > schema.hcl`; `atlas schema apply --auto-approve -u sqlite://d2.db
//	       --to file://schema.hcl`; `atlas schema diff`; second `schema apply`
//
// Oracle (engineCase / exportedCLI): the apply succeeds, the second SchemaDiff and the second plan are empty, the
// inspected state equals D1's (state projection: an inline UNIQUE constraint = the unique index <t>_<cols> Atlas
// creates for it), `schema diff` prints "Schemas are synced", the second apply is a no-op.
// Tie: the cases with withModel go through the extracted model (normalize_idx_name on origin-less autoindex names in
// Normalize / FindGeneratedIndex / addIndexes, alterable's DropIndex arm, inspect's autoindex numbering).
package main

import (
	"fmt"
	"os"
	"path/filepath"
	"regexp"
	"strings"

	"ariga.io/atlas/sql/schema"
	"ariga.io/atlas/sql/sqlite"

	"verifharness/internal/clirun"
)

// exportedHCL: the HCL document the exporter prints for the database created from the spec.
func exportedHCL(b Schema) ([]byte, error) {
	g, err := inspectedDesired(b)
	if err != nil {
		return nil, err
	}
	return sqlite.MarshalHCL(g)
}

// exportedDesired = EvalHCLBytes(MarshalHCL(InspectSchema(D1))).
func exportedDesired(b Schema) (s *schema.Schema, err error) {
	doc, err := exportedHCL(b)
	if err != nil {
		return nil, err
	}
	defer func() {
		if r := recover(); r != nil {
			err = fmt.Errorf("panic: %v", r)
		}
	}()
	s = &schema.Schema{}
	if err := sqlite.EvalHCLBytes(doc, s, nil); err != nil {
		return nil, err
	}
	return s, nil
}

var reSigned = regexp.MustCompile(`:\+(\d)`)

// normSigned: a DEFAULT written +13 and one written 13 are the same state (state projection lines).
func normSigned(l []string) []string {
	o := make([]string, len(l))
	for i, s := range l {
		o[i] = reSigned.ReplaceAllString(s, ":$1")
	}
	return o
}

// idxNames: the index names of a graph, tables in order (observation NB = model [nrm]).
func idxNames(s *schema.Schema) string {
	var ts []string
	for _, t := range s.Tables {
		var is []string
		for _, i := range t.Indexes {
			is = append(is, hx(i.Name))
		}
		ts = append(ts, hx(t.Name)+":"+strings.Join(is, ","))
	}
	return strings.Join(ts, ";")
}

// exportedClass: the input class of the open finding C01-exported-made-up-index-name-clash -- the names
// normalizeIdxName makes up for D1's inline UNIQUE constraints (<table>_<columns>) collide with each other or with
// an index / table name of D1.
func exportedClass(b Schema) string {
	seen := map[string]bool{}
	for _, t := range b.Tables {
		seen[t.Name] = true
		for _, i := range t.Idx {
			seen[i.Name] = true
		}
	}
	for _, t := range b.Tables {
		for _, u := range t.Uniques {
			n := t.Name + "_" + strings.Join(u, "_")
			if seen[n] {
				return "made-up-index-name-clash"
			}
			seen[n] = true
		}
	}
	return "none"
}

func joinClass(a, b string) string {
	switch {
	case b == "none":
		return a
	case a == "none":
		return b
	}
	return a + "+" + b
}

type exCase struct {
	a, b Schema // a = D2 (current), b = D1 (the exported database)
	desc string
}

func intCol(n string, null bool) Col { return Col{Name: n, Type: "integer", Null: null} }
func txtCol(n string, null bool) Col { return Col{Name: n, Type: "text", Null: null} }

// exportedGrid: the exhaustive-small family.  D1 = users(id, email, name, age [, org]) with an inline UNIQUE
// constraint in 7 shapes (one column / two columns / two constraints / next to a composite key / WITHOUT ROWID /
// next to a user index named like the made-up name / over a NOT NULL column) x D2 in 9 relations to D1.
func exportedGrid() []exCase {
	var out []exCase
	type shape struct {
		name string
		mk   func() Table
	}
	base := func() Table {
		return Table{Name: "users", Cols: []Col{intCol("id", false), txtCol("email", true), txtCol("name", true), intCol("age", true)},
			PK: &Idx{Parts: []Part{{Seq: 1, Col: "id"}}}}
	}
	shapes := []shape{
		{"u1", func() Table { t := base(); t.Uniques = [][]string{{"email"}}; return t }},
		{"u2cols", func() Table { t := base(); t.Uniques = [][]string{{"email", "name"}}; return t }},
		{"u1+u1", func() Table { t := base(); t.Uniques = [][]string{{"email"}, {"name"}}; return t }},
		{"u1+pk2", func() Table {
			t := base()
			t.PK = &Idx{Parts: []Part{{Seq: 1, Col: "age"}, {Seq: 2, Col: "id"}}}
			t.Cols[3].Null = false
			t.Uniques = [][]string{{"email"}}
			return t
		}},
		{"u1+worowid", func() Table { t := base(); t.WithoutRowID = true; t.Uniques = [][]string{{"name"}}; return t }},
		{"u1+idx", func() Table {
			t := base()
			t.Uniques = [][]string{{"email"}}
			t.Idx = []Idx{{Name: "users_by_name", Parts: []Part{{Seq: 1, Col: "name", Desc: true}}}}
			return t
		}},
		{"u1+named-fk-check", func() Table {
			t := base()
			t.Uniques = [][]string{{"age", "email"}}
			t.Checks = []Check{{Name: "age_pos", Expr: "age > 0"}, {Expr: "length(name) < 99"}}
			t.FKs = []FK{{Symbol: "", Cols: []string{"age"}, RefTable: "users", RefCols: []string{"id"}, OnDelete: "SET NULL"}}
			return t
		}},
	}
	// the open finding C01-exported-made-up-index-name-clash: the made-up name is taken
	for _, cl := range []struct {
		name string
		t    Table
	}{
		{"clash-index", func() Table {
			t := base()
			t.Uniques = [][]string{{"email"}}
			t.Idx = []Idx{{Name: "users_email", Parts: []Part{{Seq: 1, Col: "email"}}}}
			return t
		}()},
		{"clash-two-uniques", Table{Name: "t", Cols: []Col{intCol("a_b", true), intCol("a", true), intCol("b", true)}, Uniques: [][]string{{"a_b"}, {"a", "b"}}}},
	} {
		d1 := Schema{Name: "main", Tables: []Table{cl.t}}
		out = append(out, exCase{a: Schema{Name: "main"}, b: d1.clone(), desc: "exported-grid:" + cl.name + ":empty"})
		a := d1.clone()
		a.Tables[0].Uniques = nil
		a.Tables[0].Idx = nil
		out = append(out, exCase{a: a, b: d1.clone(), desc: "exported-grid:" + cl.name + ":no-unique"})
	}
	for _, sh := range shapes {
		d1 := Schema{Name: "main", Tables: []Table{sh.mk()}}
		add := func(rel string, a Schema) {
			out = append(out, exCase{a: a, b: d1.clone(), desc: "exported-grid:" + sh.name + ":" + rel})
		}
		// 1. nothing there
		add("empty", Schema{Name: "main"})
		// 2. the same database
		add("same", d1.clone())
		// 3. only the UNIQUE constraint(s) missing
		a := d1.clone()
		a.Tables[0].Uniques = nil
		add("no-unique", a)
		// 4. the constraint is there as the index Atlas creates for it (D2 was created by an earlier apply)
		a = d1.clone()
		for _, u := range a.Tables[0].Uniques {
			ix := Idx{Name: "users_" + strings.Join(u, "_"), Unique: true}
			for k, c := range u {
				ix.Parts = append(ix.Parts, Part{Seq: k + 1, Col: c})
			}
			a.Tables[0].Idx = append(a.Tables[0].Idx, ix)
		}
		a.Tables[0].Uniques = nil
		add("atlas-index", a)
		// 5. first constraint missing, the others there
		if len(d1.Tables[0].Uniques) > 1 {
			a = d1.clone()
			a.Tables[0].Uniques = a.Tables[0].Uniques[1:]
			add("first-unique-missing", a)
		}
		// 6. a column of D1 missing in D2 (ADD COLUMN, or the rebuild when it is in the constraint)
		a = d1.clone()
		a.Tables[0].Uniques = nil
		a.Tables[0].FKs = nil
		a.Tables[0].Checks = nil
		a.Tables[0].Idx = nil
		var cols []Col
		for _, c := range a.Tables[0].Cols {
			if c.Name != "name" {
				cols = append(cols, c)
			}
		}
		a.Tables[0].Cols = cols
		add("column-missing", a)
		// 7. D2 has one more column and one more table
		a = d1.clone()
		a.Tables[0].Cols = append(a.Tables[0].Cols, txtCol("extra", true))
		a.Tables = append(a.Tables, Table{Name: "audit", Cols: []Col{intCol("k", true)}})
		add("more-objects", a)
		// 8. D2 has another UNIQUE constraint (must go: a rebuild) and lacks D1's
		a = d1.clone()
		a.Tables[0].Uniques = [][]string{{"age"}}
		if sh.name == "u1+pk2" {
			a.Tables[0].Uniques = [][]string{{"name"}}
		}
		add("other-unique", a)
		// 9. the constraint over the same columns in D2, one column NOT NULL changed: rebuild with the constraint kept
		a = d1.clone()
		a.Tables[0].Cols[2].Null = false
		add("same-unique-rebuild", a)
	}
	return out
}

// exportedPair: a random pair with inline UNIQUE constraints on the exported side D1 = b (all features of the
// generator), and on D2 = a either the same constraint, the index Atlas makes of it, or nothing.
func (g *G) exportedPair() (Schema, Schema, string) {
	a, b, d := g.pair()
	if g.r.Bool() { // the direction: D1 has more / D1 has fewer objects
		a, b = b, a
		d = "rev:" + d
	}
	for i := range b.Tables {
		t := &b.Tables[i]
		if !g.r.Chance(2, 3) {
			continue
		}
		cols := storedCols(t)
		if len(cols) == 0 {
			continue
		}
		u := []string{g.pick(cols)}
		if len(cols) > 1 && g.r.Chance(1, 3) {
			if c2 := g.pick(cols); c2 != u[0] {
				u = append(u, c2)
			}
		}
		if t.PK != nil && len(t.PK.Parts) == len(u) {
			same := true
			for k := range u {
				if t.PK.Parts[k].Col != u[k] {
					same = false
				}
			}
			if same {
				continue
			}
		}
		made := t.Name + "_" + strings.Join(u, "_")
		if nameUsed(&a, made) || nameUsed(&b, made) {
			continue
		}
		t.Uniques = append(t.Uniques, u)
		d += "+U"
		at := a.table(t.Name)
		if at == nil {
			continue
		}
		ok := true
		for _, c := range u {
			if !at.hasCol(c) {
				ok = false
			}
		}
		if !ok {
			continue
		}
		pkSame := func(t *Table) bool { // a UNIQUE constraint over exactly the key columns (model domain: the engine model drops it, SQLite keeps one over an INTEGER PRIMARY KEY)
			if t.PK == nil || len(t.PK.Parts) != len(u) {
				return false
			}
			for k := range u {
				if t.PK.Parts[k].Col != u[k] {
					return false
				}
			}
			return true
		}
		switch g.r.Intn(3) {
		case 0:
			if pkSame(at) {
				continue
			}
			at.Uniques = append(at.Uniques, append([]string(nil), u...))
			d += "u"
		case 1:
			ix := Idx{Name: made, Unique: true}
			for k, c := range u {
				ix.Parts = append(ix.Parts, Part{Seq: k + 1, Col: c})
			}
			at.Idx = append(at.Idx, ix)
			d += "i"
		}
	}
	return a, b, d
}

func runExported(c *ctx) {
	c.w.Rule = "a case is non-trivial when the real differ reports a non-empty change list between the inspected database D2 and the schema evaluated from D1's exported HCL; distinct by that list"
	grid := exportedGrid()
	for i, ec := range grid {
		if validSQLite(ec.a) != nil || validSQLite(ec.b) != nil {
			c.w.Count("exported.grid-invalid")
			continue
		}
		c.w.Count("exported.grid")
		c.engineCase(ec.a, ec.b, ec.desc, engineOpts{exported: true, withModel: true, file: i%5 == 0, fk: i%2 == 0})
	}
	n, ncli := 160, 10
	if c.thorough {
		n, ncli = 6000, 300
	}
	for i := 0; i < n; i++ {
		a, b, d := c.g.exportedPair()
		if validSQLite(a) != nil || validSQLite(b) != nil {
			c.w.Count("exported.invalid")
			continue
		}
		c.engineCase(a, b, "exported:"+d, engineOpts{exported: true, withModel: i%2 == 0, file: i%4 == 0, fk: i%3 == 0, viaAtlas: false})
	}
	// the same through the real binary
	if clirun.Bin() == "" {
		return
	}
	for i, ec := range grid {
		if c.thorough || i%6 == 0 || i == 1 {
			c.exportedCLI(ec.a, ec.b, ec.desc)
		}
	}
	for i := 0; i < ncli; i++ {
		a, b, d := c.g.exportedPair()
		if validSQLite(a) != nil || validSQLite(b) != nil {
			continue
		}
		c.exportedCLI(a, b, "exported:"+d)
	}
}

// exportedCLI: `schema inspect` of D1 through the real binary, the printed document applied unedited to D2.
func (c *ctx) exportedCLI(a, b Schema, desc string) {
	id := c.id("x")
	dir, err := os.MkdirTemp(c.dir, "clix")
	if err != nil {
		panic(err)
	}
	defer os.RemoveAll(dir)
	d1, d2 := filepath.Join(dir, "d1.db"), filepath.Join(dir, "d2.db")
	c.w.ImplOnly(id, desc)
	if err := clirun.Exec(d1, append([]string{"PRAGMA user_version = 1"}, rawSchema(b)...)...); err != nil {
		c.w.Count("exported.cli-setup-error")
		return
	}
	if err := clirun.Exec(d2, append([]string{"PRAGMA user_version = 1"}, rawSchema(a)...)...); err != nil {
		c.w.Count("exported.cli-setup-error")
		return
	}
	ic := "input-class=" + joinClass(classifyFor(a, b, true), exportedClass(b)) + "; "
	ins := clirun.Run(dir, nil, "schema", "inspect", "-u", "sqlite://"+d1)
	if ins.Exit != 0 {
		c.w.Violation(id, "cli-inspect-failed", ic+fmt.Sprintf("`atlas schema inspect` of a valid database exits %d: %s [%s]", ins.Exit, lastLine(ins.Stderr+ins.Stdout), desc))
		return
	}
	if err := os.WriteFile(filepath.Join(dir, "schema.hcl"), []byte(ins.Stdout), 0o644); err != nil {
		panic(err)
	}
	c.w.Count("exported.cli")
	dev := "sqlite://dev?mode=memory"
	r := clirun.Run(dir, nil, "schema", "apply", "--auto-approve", "-u", "sqlite://"+d2, "--to", "file://schema.hcl")
	if r.Exit != 0 {
		c.w.Violation(id, "cli-apply-failed", ic+fmt.Sprintf("`atlas schema apply --auto-approve --to file://schema.hcl` with the unedited output of `schema inspect` of another database exits %d on an empty-table database: %s [%s]", r.Exit, lastLine(r.Stderr+r.Stdout), desc))
		return
	}
	d := clirun.Run(dir, nil, "schema", "diff", "--from", "sqlite://"+d2, "--to", "file://schema.hcl", "--dev-url", dev)
	if d.Exit != 0 || !strings.Contains(d.Stdout, "Schemas are synced") {
		c.w.Violation(id, "cli-not-synced", ic+fmt.Sprintf("after a successful `schema apply` of an exported schema `schema diff` prints %q (exit %d) instead of \"Schemas are synced\" [%s]", trunc(strings.TrimSpace(d.Stdout+d.Stderr), 300), d.Exit, desc))
		return
	}
	r2 := clirun.Run(dir, nil, "schema", "apply", "--auto-approve", "-u", "sqlite://"+d2, "--to", "file://schema.hcl")
	if r2.Exit != 0 || !strings.Contains(r2.Stdout, "Schema is synced") {
		c.w.Violation(id, "cli-second-apply", ic+fmt.Sprintf("the second `schema apply` of the exported schema is not a no-op: %q (exit %d) [%s]", trunc(strings.TrimSpace(r2.Stdout+r2.Stderr), 300), r2.Exit, desc))
		return
	}
	// D1 and D2 now export the same document up to the made-up index names: compare the state projections
	c.w.Count("exported.cli-synced")
	if !strings.Contains(r.Stdout, "Schema is synced") {
		c.w.NonTrivial(desc + "|" + fmt.Sprint(len(r.Stdout)))
	}
}
