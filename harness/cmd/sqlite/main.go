package main

import (
	"bufio"
	"flag"
	"fmt"
	"os"
	"strings"

	"verifharness/internal/out"
	"verifharness/internal/rng"
)

func main() {
	mode := flag.String("mode", "plan", "")
	tier := flag.String("tier", "quick", "")
	outDir := flag.String("out", "", "")
	flag.Parse()
	if *mode == "probe" {
		probe()
		return
	}
	w := out.New(*outDir)
	defer w.Close()
	salt := map[string]uint64{"plan": 0x51, "engine": 0x52, "oracle": 0x53, "cli": 0x54, "updown": 0x55, "exported": 0x56}[*mode]
	r := rng.FromEnv(salt)
	dir, err := os.MkdirTemp("", "verif-sqlite-")
	if err != nil {
		panic(err)
	}
	defer os.RemoveAll(dir)
	c := &ctx{w: w, r: r, g: &G{r: r}, thorough: *tier == "thorough", dir: dir}
	switch *mode {
	case "plan":
		runPlan(c)
	case "engine":
		runEngine(c)
	case "oracle":
		runOracle(c)
	case "cli":
		runCLI(c)
	case "updown":
		runUpDown(c)
	case "exported":
		runExported(c)
	default:
		fmt.Fprintln(os.Stderr, "unknown mode", *mode)
		os.Exit(2)
	}
}

// probe: SQL statements on stdin (one per line), then the inspected schema in readable form.
func probe() {
	l, err := openDB(os.TempDir(), false, false)
	if err != nil {
		panic(err)
	}
	defer l.Close()
	sc := bufio.NewScanner(os.Stdin)
	sc.Buffer(make([]byte, 1<<20), 1<<20)
	for sc.Scan() {
		q := strings.TrimSpace(sc.Text())
		if q == "" {
			continue
		}
		if err := l.exec(q); err != nil {
			fmt.Println("ERR", q, "=>", err)
		}
	}
	s, err := l.inspect()
	if err != nil {
		fmt.Println("INSPECT ERR", err)
		return
	}
	fmt.Print(readable(s))
}
