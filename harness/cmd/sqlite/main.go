package main

import (
	"bufio"
	"flag"
	"fmt"
	"os"
	"strings"
)

func main() {
	mode := flag.String("mode", "plan", "")
	tier := flag.String("tier", "quick", "")
	outDir := flag.String("out", "", "")
	flag.Parse()
	_ = tier
	switch *mode {
	case "probe":
		probe()
	default:
		_ = outDir
		fmt.Fprintln(os.Stderr, "unknown mode", *mode)
		os.Exit(2)
	}
}

// probe: SQL statements on stdin (one per line), then the inspected schema in readable form.
func probe() {
	l, err := openDB(os.TempDir(), false, false)
	if err != nil {
		panic(err)
	}
	defer l.Close()
	sc := bufio.NewScanner(os.Stdin)
	sc.Buffer(make([]byte, 1<<20), 1<<20)
	for sc.Scan() {
		q := strings.TrimSpace(sc.Text())
		if q == "" {
			continue
		}
		if err := l.exec(q); err != nil {
			fmt.Println("ERR", q, "=>", err)
		}
	}
	s, err := l.inspect()
	if err != nil {
		fmt.Println("INSPECT ERR", err)
		return
	}
	fmt.Print(readable(s))
}
