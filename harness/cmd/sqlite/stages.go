// Stages of the sqlite harness.
//
//	plan    real differ + planner on spec-built graphs  vs  PlanModel (change list, statement/reverse skeleton)
//	engine  real go-sqlite3 executing Atlas' SQL         vs  EngineModel/InspectModel (inspect before/after, rows)
//	        + the C01 oracle on the real observations
package main

import (
	"context"
	"fmt"
	"os"
	"sort"
	"strconv"
	"strings"

	"ariga.io/atlas/sql/migrate"
	"ariga.io/atlas/sql/schema"
	"ariga.io/atlas/sql/sqlite"

	"verifharness/internal/out"
	"verifharness/internal/rng"
)

type ctx struct {
	w        *out.W
	g        *G
	r        *rng.R
	thorough bool
	dir      string
	n        int
}

func (c *ctx) id(class string) string {
	c.n++
	return fmt.Sprintf("%s-%05d", class, c.n)
}

func diffReal(from, to *schema.Schema) (cs []schema.Change, err error, pan string) {
	defer func() {
		if r := recover(); r != nil {
			pan = fmt.Sprint(r)
		}
	}()
	cs, err = sqlite.DefaultDiff.SchemaDiff(from, to, schema.DiffNormalized())
	return
}

// ------------------------------------------------------------------ plan stage

func (c *ctx) planCase(a, b Schema, desc string) {
	id := c.id("p")
	from, to := build("sqlite", a), build("sqlite", b)
	line := "P " + tokCase(from, a) + " " + tokCase(to, b)
	cs, err, pan := diffReal(from, to)
	var obs []string
	if pan != "" {
		c.w.Violation(id, "panic", "SchemaDiff panics: "+pan+" on "+desc)
		obs = []string{"D panic"}
	} else {
		obs = []string{"D " + showSchemaChanges(cs, err)}
		if err != nil {
			obs = append(obs, "P err")
		} else {
			p, perr := sqlite.DefaultPlan.PlanChanges(context.Background(), "plan", cs)
			obs = append(obs, planObs(p, perr)...)
			if perr == nil {
				copyPath := false
				for _, ch := range p.Changes {
					if strings.HasPrefix(ch.Comment, "copy rows") || strings.HasPrefix(ch.Comment, "rename temporary") {
						copyPath = true
					}
				}
				c.w.Count(fmt.Sprintf("plan.changes=%d", min(len(p.Changes), 12)))
				if copyPath {
					c.w.Count("plan.copy-path")
				}
				if len(p.Changes) > 0 {
					c.w.NonTrivial(strings.Join(obs[1:], "|"))
				}
			} else {
				c.w.Count("plan.error")
			}
		}
	}
	c.w.Count("plan.kind=" + strings.SplitN(desc, ":", 2)[0])
	c.w.Case(id, line, obs)
}

func min(a, b int) int {
	if a < b {
		return a
	}
	return b
}

func runPlan(c *ctx) {
	c.w.Rule = "a case is non-trivial when the real planner returns a non-empty plan; distinct by the plan skeleton"
	n := 3000
	if c.thorough {
		n = 20000
	}
	// small exhaustive part: every single edit kind on every base of a fixed list
	for i := 0; i < 40; i++ {
		a := c.g.schema()
		for _, e := range edits {
			for ti := range a.Tables {
				b := a.clone()
				if e.f(c.g, &b, &b.Tables[ti]) {
					c.planCase(a, b, "single:"+e.kind)
				}
			}
		}
	}
	for i := 0; i < n; i++ {
		a, b, d := c.g.pair()
		if len(a.Tables) > 0 && c.r.Chance(1, 6) { // a current side that looks inspected: an autoindex of a UNIQUE constraint
			t := &a.Tables[c.r.Intn(len(a.Tables))]
			col := c.g.pick(storedCols(t))
			if nameUsed(&a, t.Name+"_"+col) || nameUsed(&b, t.Name+"_"+col) { // model domain: index names stay distinct after normalizeIdxName
				c.planCase(a, b, d)
				continue
			}
			t.Idx = append(t.Idx, Idx{Name: "sqlite_autoindex_" + t.Name + "_1", Unique: true, Parts: []Part{{Seq: 1, Col: col}}, Origin: sp("u")})
			if bt := b.table(t.Name); bt != nil && bt.hasCol(col) && c.r.Bool() {
				bt.Idx = append(bt.Idx, Idx{Name: "sqlite_autoindex_" + t.Name + "_1", Unique: true, Parts: []Part{{Seq: 1, Col: col}}, Origin: sp("u")})
			}
			d += "+autoindex"
		}
		c.planCase(a, b, d)
	}
}

// ------------------------------------------------------------------ engine stage

type rowSpec struct {
	table string
	rowid int
	cols  []string
	vals  []string // tokens N, I<n>, T<hex>
}

func intSafe(k string) bool {
	switch k {
	case "real", "double", "blob":
		return false
	}
	return !isTextTy(k)
}

// rows for table t: k rows with distinct values satisfying the generator's checks
// aliasCols: the INTEGER PRIMARY KEY columns of the desired schema, per table: a NULL copied into such a
// column becomes a fresh rowid in SQLite (the engine model reports ENotNull instead), so populated
// model cases keep NULLs out of them
func aliasCols(b Schema) map[string]bool {
	m := map[string]bool{}
	for _, t := range b.Tables {
		if t.PK != nil && len(t.PK.Parts) == 1 && !t.WithoutRowID {
			if c := t.col(t.PK.Parts[0].Col); c != nil && strings.EqualFold(typeText(c.Type), "integer") {
				m[t.Name+"."+c.Name] = true
			}
		}
	}
	return m
}

var noNull map[string]bool

func genRows(g *G, t Table) []rowSpec {
	for _, c := range t.Cols {
		if c.Gen == nil && !c.Null && !isTextTy(c.Type) && !intSafe(c.Type) {
			return nil
		}
	}
	n := g.r.Intn(4)
	var out []rowSpec
	for i := 0; i < n; i++ {
		r := rowSpec{table: t.Name, rowid: i + 1}
		for ci, c := range t.Cols {
			if c.Gen != nil {
				continue
			}
			inPK := false
			if t.PK != nil {
				for _, p := range t.PK.Parts {
					inPK = inPK || p.Col == c.Name
				}
			}
			v := ""
			switch {
			case c.Null && !inPK && !noNull[t.Name+"."+c.Name] && g.r.Chance(1, 4):
				v = "N"
			case isTextTy(c.Type):
				v = "T" + hx(fmt.Sprintf("v%d_%d", i, ci))
			case intSafe(c.Type):
				v = "I" + strconv.Itoa(10+i*11+ci)
			default:
				v = "N"
			}
			r.cols = append(r.cols, c.Name)
			r.vals = append(r.vals, v)
		}
		out = append(out, r)
	}
	return out
}

func insertSQL(r rowSpec, t Table) string {
	var vs []string
	for _, v := range r.vals {
		switch v[0] {
		case 'N':
			vs = append(vs, "NULL")
		case 'I':
			vs = append(vs, v[1:])
		case 'T':
			b, _ := unhexS(v[1:])
			vs = append(vs, "'"+strings.ReplaceAll(b, "'", "''")+"'")
		}
	}
	cols := qs(r.cols)
	if !t.WithoutRowID {
		alias := false
		if t.PK != nil && len(t.PK.Parts) == 1 {
			if pc := t.col(t.PK.Parts[0].Col); pc != nil && strings.EqualFold(typeText(pc.Type), "integer") {
				alias = true
			}
		}
		if !alias {
			cols = "rowid, " + cols
			vs = append([]string{strconv.Itoa(r.rowid)}, vs...)
		}
	}
	return "INSERT INTO " + q(r.table) + " (" + cols + ") VALUES (" + strings.Join(vs, ", ") + ")"
}

func unhexS(h string) (string, error) {
	if h == "-" {
		return "", nil
	}
	var b []byte
	for i := 0; i+1 < len(h); i += 2 {
		v, err := strconv.ParseUint(h[i:i+2], 16, 8)
		if err != nil {
			return "", err
		}
		b = append(b, byte(v))
	}
	return string(b), nil
}

// dumpRows: canonical rows of every table (stored columns, rows sorted).
func dumpRows(l *liveDB, s *schema.Schema) string {
	ts := append([]*schema.Table(nil), s.Tables...)
	sort.SliceStable(ts, func(i, j int) bool { return ts[i].Name < ts[j].Name })
	var parts []string
	for _, t := range ts {
		var cols []string
		for _, c := range t.Columns {
			if !hasAttr(c.Attrs, &schema.GeneratedExpr{}) {
				cols = append(cols, "quote("+q(c.Name)+")")
			}
		}
		var rows []string
		if len(cols) > 0 {
			rs, err := l.db.Query("SELECT " + strings.Join(cols, ", ") + " FROM " + q(t.Name))
			if err != nil {
				rows = []string{"?" + err.Error()}
			} else {
				for rs.Next() {
					vals := make([]any, len(cols))
					strs := make([]string, len(cols))
					for i := range vals {
						vals[i] = &strs[i]
					}
					if err := rs.Scan(vals...); err != nil {
						rows = append(rows, "?"+err.Error())
						continue
					}
					for i, s := range strs {
						strs[i] = valTok(s)
					}
					rows = append(rows, strings.Join(strs, ","))
				}
				rs.Close()
			}
		}
		sort.Strings(rows)
		parts = append(parts, t.Name+"["+strings.Join(rows, ";")+"]")
	}
	return strings.Join(parts, " ")
}

func valTok(quoted string) string {
	switch {
	case quoted == "NULL":
		return "N"
	case strings.HasPrefix(quoted, "'"):
		return "T" + hx(strings.ReplaceAll(quoted[1:len(quoted)-1], "''", "'"))
	case strings.HasPrefix(quoted, "X'"):
		return "B" + hx(quoted[2:len(quoted)-1])
	}
	if _, err := strconv.ParseInt(quoted, 10, 64); err == nil {
		return "I" + quoted
	}
	return "F" + hx(quoted)
}

func simpleDefaults(s Schema) bool {
	for _, t := range s.Tables {
		for _, i := range t.Idx { // the engine model checks UNIQUE over the rows for plain column indexes only
			if i.Unique {
				if i.Pred != nil {
					return false
				}
				for _, p := range i.Parts {
					if p.Col == "" || (t.col(p.Col) != nil && t.col(p.Col).Gen != nil) {
						return false
					}
				}
			}
		}
		for _, c := range t.Cols {
			if c.Def == nil {
				continue
			}
			if c.Def.Raw {
				return false
			}
			if isTextTy(c.Type) {
				continue
			}
			if _, err := strconv.ParseInt(c.Def.V, 10, 64); err != nil {
				return false
			}
			if !intSafe(c.Type) {
				return false
			}
		}
	}
	return true
}

type engineOpts struct {
	inspected         bool // the desired state is the InspectSchema of a real database created from the spec (numeric fk symbols, ...), not a graph built from the spec
	updown            bool // after the up run, execute the reverse statements of a reversible plan (mode updown)
	file, fk          bool
	rows              []rowSpec
	withModel         bool      // write a model case (else oracle only)
	viaAtlas          bool      // create A through Atlas' own plan from the empty schema (no uniques then)
	viaAtlasInspected bool      // ... and the desired state of that first apply is the inspected form of A (numeric fk symbols become constraint names)
	fill              *nullFill // class set-notnull-default (notnull.go): the apply must succeed and the NULLs must hold the default
	exported          bool      // the desired state is EvalHCLBytes(MarshalHCL(InspectSchema(real database created from the spec))) (exported.go): what `schema inspect` of another database printed
}

// engineCase runs one (A, B) pair on a real database; returns false when the case was unusable.
func (c *ctx) engineCase(a, b Schema, desc string, o engineOpts) {
	class := "e"
	if !o.withModel {
		class = "o"
	}
	id := c.id(class)
	bg := context.Background()
	trace := os.Getenv("VERIF_TRACE") == id || (os.Getenv("VERIF_TRACE_DESC") != "" && strings.Contains(desc, os.Getenv("VERIF_TRACE_DESC")))
	if trace {
		fmt.Fprintf(os.Stderr, "TRACE %s [%s] file=%v fk=%v viaAtlas=%v\n", id, desc, o.file, o.fk, o.viaAtlas)
		for _, st := range rawSchema(a) {
			fmt.Fprintln(os.Stderr, "  A:", st)
		}
		for _, st := range rawSchema(b) {
			fmt.Fprintln(os.Stderr, "  B:", st)
		}
	}
	l, err := openDB(c.dir, o.file, false)
	if err != nil {
		panic(err)
	}
	defer l.Close()
	var obs []string
	add := func(s string) { obs = append(obs, s) }
	desired := func() *schema.Schema {
		if o.exported {
			g, err := exportedDesired(b)
			if err != nil {
				panic(fmt.Sprintf("harness: desired spec cannot be exported: %v", err))
			}
			return g
		}
		if !o.inspected {
			return build("sqlite", b)
		}
		g, err := inspectedDesired(b)
		if err != nil {
			panic(fmt.Sprintf("harness: desired spec is not valid SQLite: %v", err))
		}
		return g
	}
	fromSpec := build("sqlite", a)
	op := "E "
	if o.updown {
		op = "U "
	}
	if o.exported && o.withModel {
		op = "X " // model mode `exported`: + the NB line
	}
	line := op + b01(o.fk) + " " + tokCase(fromSpec, a) + " " + strconv.Itoa(len(o.rows))
	for _, r := range o.rows {
		line += " " + hx(r.table) + " " + strconv.Itoa(r.rowid) + " " + strconv.Itoa(len(r.cols))
		for i := range r.cols {
			line += " " + hx(r.cols[i]) + " " + r.vals[i]
		}
	}
	if o.inspected || o.exported {
		line += " " + tokCase(desired(), Schema{Name: b.Name})
	} else {
		line += " " + tokCase(build("sqlite", b), b)
	}
	finish := func() {
		if o.withModel {
			c.w.Case(id, line, obs)
		} else {
			c.w.ImplOnly(id, desc)
		}
	}
	// setup
	setupErr := error(nil)
	if o.viaAtlas {
		first := build("sqlite", a)
		if o.viaAtlasInspected {
			g, err := inspectedDesired(a)
			if err != nil {
				panic(fmt.Sprintf("harness: current spec is not valid SQLite: %v", err))
			}
			first = g
		}
		cs, err, _ := diffReal(schema.New("main"), first)
		if err == nil {
			err = l.drv.ApplyChanges(bg, cs)
		}
		setupErr = err
	} else {
		for _, st := range rawSchema(a) {
			if err := l.exec(st); err != nil {
				setupErr = fmt.Errorf("%s: %w", st, err)
				break
			}
		}
	}
	if setupErr != nil {
		add("S0 err")
		c.w.Count("engine.setup-error")
		if os.Getenv("VERIF_WHY") != "" {
			fmt.Fprintf(os.Stderr, "WHY setup %s: %v\n", id, setupErr)
		}
		if o.viaAtlas && validSQLite(a) == nil {
			c.w.Violation(id, "create-failed", "input-class="+classify(Schema{}, a)+"; "+fmt.Sprintf("creating a valid schema from nothing fails: %v [%s]", setupErr, desc))
		}
		finish()
		return
	}
	add("S0 ok")
	ic := "input-class=" + classifyFor(a, b, o.inspected || o.exported) + "; "
	if o.exported {
		ic = "input-class=" + joinClass(classifyFor(a, b, true), exportedClass(b)) + "; "
	}
	for _, r := range o.rows {
		if err := l.exec(insertSQL(r, *a.table(r.table))); err != nil {
			if !o.withModel && rowError(err) {
				continue // e.g. a UNIQUE expression index all generated rows collide on: the row is left out
			}
			panic(fmt.Sprintf("harness: insert failed: %v (%s)", err, insertSQL(r, *a.table(r.table))))
		}
	}
	if o.fill != nil {
		// what the table really holds (without a model a generated row the current schema rejects is left out)
		f := *o.fill
		if err := l.db.QueryRow("SELECT count(*), count(*) - count("+q(f.col)+") FROM "+q(f.table)).Scan(&f.total, &f.nulls); err != nil {
			panic(err)
		}
		o.fill = &f
		if f.nulls == 0 {
			c.w.Count("engine.fill-without-nulls")
		}
	}
	if o.fk {
		if err := l.exec("PRAGMA foreign_keys = on"); err != nil {
			panic(err)
		}
	}
	cur, err := l.inspect()
	if err != nil {
		add("I0 err")
		c.w.Violation(id, "inspect-error", fmt.Sprintf("InspectSchema fails on the current database: %v [%s]", err, desc))
		finish()
		return
	}
	add("I0 " + tokObs(cur))
	des := desired()
	cs, derr, pan := diffReal(cur, des)
	if pan != "" {
		add("D panic")
		c.w.Violation(id, "panic", "SchemaDiff panics: "+pan+" ["+desc+"]")
		finish()
		return
	}
	add("D " + showSchemaChanges(cs, derr))
	if derr != nil {
		add("AP plan-err")
		c.w.Violation(id, "diff-error", fmt.Sprintf("SchemaDiff fails: %v [%s]", derr, desc))
		finish()
		return
	}
	if trace {
		fmt.Fprintln(os.Stderr, "  DIFF:", showSchemaChanges(cs, nil))
		if p, err := l.drv.PlanChanges(bg, "trace", cs); err == nil {
			for _, ch := range p.Changes {
				fmt.Fprintln(os.Stderr, "  PLAN:", ch.Cmd)
			}
		} else {
			fmt.Fprintln(os.Stderr, "  PLAN ERR:", err)
		}
	}
	var upPlan *migrate.Plan
	if o.updown {
		upPlan, _ = l.drv.PlanChanges(bg, "updown", cs)
	}
	aerr := l.drv.ApplyChanges(bg, cs)
	applied := ""
	switch e := aerr.(type) {
	case nil:
		add("AP ok")
	case interface{ Applied() int }:
		applied = strconv.Itoa(e.Applied())
		add("AP err@" + applied)
	default:
		add("AP plan-err")
	}
	if o.exported && op == "X " && !strings.HasSuffix(obs[len(obs)-1], "plan-err") {
		add("NB " + idxNames(des)) // diff.Normalize / state.addIndexes renamed the reserved index names of the desired graph in place
	}
	after, err := l.inspect()
	if err != nil {
		add("I1 err")
		c.w.Violation(id, "inspect-error", fmt.Sprintf("InspectSchema fails after apply: %v [%s]", err, desc))
		finish()
		return
	}
	add("I1 " + tokObs(after))
	afterProj := stateProj(after) // before SchemaDiff: diff.Normalize rewrites the symbols of the inspected graph in place
	if trace {
		fmt.Fprint(os.Stderr, "  AFTER:\n"+readable(after))
	}
	add("R1 " + dumpRows(l, after))
	var fkv int
	l.db.QueryRow("PRAGMA foreign_keys").Scan(&fkv)
	add("FK1 " + strconv.Itoa(fkv))
	cs2, derr2, _ := diffReal(after, desired())
	add("D2 " + showSchemaChanges(cs2, derr2))
	if trace {
		fmt.Fprintln(os.Stderr, "  APPLY ERR:", aerr, " D2:", showSchemaChanges(cs2, derr2))
		fs := freshState(b)
		fmt.Fprintln(os.Stderr, "  STATE DIFF:", firstDiff(afterProj, fs))
	}
	if o.updown {
		// down: the reverse statements of the changes, last change first (what the formatters write into a down file)
		switch {
		case upPlan == nil || aerr != nil:
			add("DN skipped")
		case !upPlan.Reversible:
			add("DN irreversible")
		default:
			k, derr := 0, error(nil)
		down:
			for i := len(upPlan.Changes) - 1; i >= 0; i-- {
				rs, err := upPlan.Changes[i].ReverseStmts()
				if err != nil {
					derr = err
					break
				}
				for _, r := range rs {
					if err := l.exec(r); err != nil {
						derr = err
						break down
					}
					k++
				}
			}
			if derr != nil {
				if trace {
					fmt.Fprintln(os.Stderr, "  DOWN ERR:", derr)
				}
				add("DN err@" + strconv.Itoa(k))
			} else {
				add("DN ok")
			}
			if back, err := l.inspect(); err != nil {
				add("I2 err")
			} else {
				add("I2 " + tokObs(back))
				add("R2 " + dumpRows(l, back))
			}
		}
	}
	// ---- the property, judged on the real observations
	c.w.Count("engine.kind=" + strings.SplitN(strings.SplitN(desc, ":", 2)[0], "+", 2)[0])
	if len(cs) > 0 {
		c.w.NonTrivial(showSchemaChanges(cs, nil))
	}
	if o.exported && strings.HasPrefix(desc, "exported-grid:") && strings.HasSuffix(desc, ":same") && len(cs) > 0 { // grid only: random tables carry defaults the HCL document respells (C03's findings)
		// D2 is D1 itself: its own export must not plan anything (FindGeneratedIndex has to find the renamed constraint index)
		c.w.Violation(id, "exported-self-diff", ic+fmt.Sprintf("the unedited export of a database, applied to an identical database, is not a no-op: diff=%s [%s]", showSchemaChanges(cs, nil), desc))
	}
	if o.fill != nil {
		if aerr != nil {
			c.w.Violation(id, "notnull-default-failed", ic+fmt.Sprintf("a nullable column with a DEFAULT becomes NOT NULL on a table holding NULLs: the plan has to replace them by the default (IFNULL), but applying it fails: %v ; diff=%s [%s; table %s column %s]", aerr, showSchemaChanges(cs, nil), desc, o.fill.table, o.fill.col))
			finish()
			return
		}
		if msg := l.checkFill(*o.fill); msg != "" {
			c.w.Violation(id, "notnull-default-rows", ic+fmt.Sprintf("a nullable column with a DEFAULT became NOT NULL on a table holding NULLs: %s ; diff=%s [%s; table %s column %s]", msg, showSchemaChanges(cs, nil), desc, o.fill.table, o.fill.col))
		}
	}
	switch {
	case aerr != nil && len(o.rows) > 0:
		// a populated database: rows may legitimately make a statement fail; any other failure is a violation
		c.w.Count("engine.apply-error-populated")
		if os.Getenv("VERIF_WHY") != "" {
			fmt.Fprintf(os.Stderr, "WHY apply-pop %s: %v | valid=%v [%s]\n", id, aerr, validSQLite(b), desc)
		}
		if !rowError(aerr) && validSQLite(b) == nil {
			c.w.Violation(id, "apply-failed", ic+fmt.Sprintf("applying the plan to a populated database fails with an error that is not a constraint violation by the rows, although the desired schema is valid SQLite: %v ; diff=%s [%s]", aerr, showSchemaChanges(cs, nil), desc))
		}
	case aerr != nil:
		c.w.Count("engine.apply-error")
		if os.Getenv("VERIF_WHY") != "" {
			fmt.Fprintf(os.Stderr, "WHY apply %s: %v | valid=%v\n", id, aerr, validSQLite(b))
		}
		if len(o.rows) == 0 && validSQLite(b) == nil {
			c.w.Violation(id, "apply-failed", ic+fmt.Sprintf("applying the plan to an empty database fails although the desired schema is valid SQLite: %v ; diff=%s [%s]", aerr, showSchemaChanges(cs, nil), desc))
		}
	case derr2 != nil:
		c.w.Violation(id, "diff-error", ic+fmt.Sprintf("SchemaDiff after apply fails: %v [%s]", derr2, desc))
	case len(cs2) != 0:
		c.w.Violation(id, "not-converged", ic+fmt.Sprintf("after a successful apply the difference to the desired schema is %s ; first diff=%s [%s]", showSchemaChanges(cs2, nil), showSchemaChanges(cs, nil), desc))
	default:
		c.w.Count("engine.converged")
		p2, perr := sqlite.DefaultPlan.PlanChanges(bg, "second", cs2)
		if perr != nil || len(p2.Changes) != 0 {
			c.w.Violation(id, "second-plan", ic+fmt.Sprintf("second plan not empty [%s]", desc))
		}
		// independent of the differ: the state itself
		if fs := freshState(b); fs != nil {
			if o.exported { // the HCL document writes the numeric literal +13 as 13 (C03's subject; the same value)
				afterProj, fs = normSigned(afterProj), normSigned(fs)
			}
			if df := firstDiff(afterProj, fs); df != "" {
				c.w.Violation(id, "state-differs", ic+fmt.Sprintf("apply succeeded and the second diff is empty, but the inspected database differs from the desired schema created from scratch: %s ; first diff=%s [%s]", df, showSchemaChanges(cs, nil), desc))
			}
		}
		// a plan that switched foreign-key enforcement off must switch it on again
		if o.fk && fkv != 1 {
			c.w.Violation(id, "fk-left-off", ic+fmt.Sprintf("foreign_keys was on before the apply and is off after it [%s]", desc))
		}
	}
	finish()
}

// genToPlain: a generated column of a that is an ordinary column in b -- the rebuild copies the computed values,
// which the engine model (rows hold stored columns only) does not evaluate -- or a column whose type differs:
// no populated model case for such pairs
func genToPlain(a, b Schema) bool {
	for _, t := range a.Tables {
		bt := b.table(t.Name)
		if bt == nil {
			continue
		}
		for _, c := range t.Cols {
			bc := bt.col(c.Name)
			if bc == nil {
				continue
			}
			if c.Gen != nil && bc.Gen == nil {
				return true
			}
			// a column that comes back under its name with another type (drop-col + add-col, not only mod-col-type):
			// the copy converts the stored values by the new affinity, which the engine model does not do
			if c.Type != bc.Type {
				return true
			}
		}
	}
	return false
}

func runEngine(c *ctx) {
	c.w.Rule = "a case is non-trivial when the real differ reports a non-empty change list between the inspected current database and the desired schema; distinct by that list"
	n := 1000
	if c.thorough {
		n = 6000
	}
	// unnamed foreign keys with an inspected desired state: the model's Normalize / fillConstName on numeric symbols
	for i, fc := range fkGrid(c.thorough) {
		if c.thorough || i%4 == 0 {
			c.engineCase(fc.a, fc.b, fc.desc, engineOpts{inspected: true, file: i%8 == 0, fk: i%3 == 0, withModel: true})
		}
	}
	// populated databases: generator restricted to defaults / unique indexes whose row effect the engine model evaluates
	pg := &G{r: c.r, plain: true}
	np := n / 4
	for i := 0; i < np; i++ {
		a, b, d := pg.pair()
		if d == "unrelated" || strings.Contains(d, "mod-col-type") || !simpleDefaults(b) || !simpleDefaults(a) || genToPlain(a, b) {
			continue
		}
		o := engineOpts{file: i%3 == 0, fk: i%2 == 0, withModel: true}
		noNull = aliasCols(b)
		for _, t := range a.Tables {
			o.rows = append(o.rows, genRows(pg, t)...)
		}
		noNull = nil
		c.engineCase(a, b, d+"+rows", o)
	}
	// populated: a nullable column with a DEFAULT becomes NOT NULL over NULLs (notnull.go); the type variant has no model
	nn := 24
	if c.thorough {
		nn = 400
	}
	for i := 0; i < nn; i++ {
		if a, b, rows, fill, d, ok := pg.notnullDefault([]int{0, 2, 3}[i%3]); ok && simpleDefaults(a) && simpleDefaults(b) {
			c.engineCase(a, b, d, engineOpts{file: i%4 == 0, fk: i%2 == 0, withModel: true, rows: rows, fill: &fill})
		}
	}
	// constraint / index names outside \w+ on every named object (gen.go oddName): inspect sees such checks and keys as anonymous
	og := &G{r: c.r, odd: true}
	no := 120
	if c.thorough {
		no = 2000
	}
	for i := 0; i < no; i++ {
		a, b, d := og.pair()
		c.engineCase(a, b, "odd-names:"+d, engineOpts{file: i%4 == 0, fk: i%2 == 0, withModel: true, viaAtlas: i%3 == 0})
	}
	for i := 0; i < n; i++ {
		a, b, d := c.g.pair()
		o := engineOpts{file: c.r.Chance(1, 3), fk: c.r.Bool(), withModel: true, viaAtlas: c.r.Chance(1, 3)}
		if !o.viaAtlas && c.r.Chance(1, 4) && c.g.addUniques(&a, &b) {
			d += "+uniques"
		}
		if c.r.Chance(1, 3) && simpleDefaults(b) && !strings.Contains(d, "mod-col-type") && d != "unrelated" && !genToPlain(a, b) {
			noNull = aliasCols(b)
			for _, t := range a.Tables {
				o.rows = append(o.rows, genRows(c.g, t)...)
			}
			noNull = nil
			if len(o.rows) > 0 {
				d += "+rows"
			}
		}
		c.engineCase(a, b, d, o)
	}
}

// ------------------------------------------------------------------ oracle stage (no model)

// rowError: the SQLite error is a constraint violation by the stored rows (error enum by message)
func rowError(err error) bool {
	m := err.Error()
	for _, k := range []string{"NOT NULL constraint failed", "UNIQUE constraint failed", "FOREIGN KEY constraint failed",
		"CHECK constraint failed", "Cannot add a NOT NULL column with default value NULL", "foreign key mismatch", "datatype mismatch",
		"cannot store", "type mismatch on DEFAULT"} {
		if strings.Contains(m, k) {
			return true
		}
	}
	return false
}

func runOracle(c *ctx) {
	c.w.Rule = "a case is non-trivial when the real differ reports a non-empty change list between the inspected current database and the desired schema; distinct by that list"
	n := 1300
	if c.thorough {
		n = 40000
	}
	for i := 0; i < n; i++ {
		a, b, d := c.g.pair()
		o := engineOpts{file: c.r.Chance(1, 3), fk: c.r.Bool(), viaAtlas: c.r.Chance(1, 2)}
		if !o.viaAtlas && c.r.Chance(1, 4) && c.g.addUniques(&a, &b) {
			d += "+uniques"
		}
		if c.r.Chance(1, 3) && d != "unrelated" { // populated (no model here, so any default is fine)
			for _, t := range a.Tables {
				o.rows = append(o.rows, genRows(c.g, t)...)
			}
			if len(o.rows) > 0 {
				d += "+rows"
			}
		}
		c.engineCase(a, b, d, o)
	}
	// unnamed foreign keys, desired state as inspected (numeric symbols)
	for i, fc := range fkGrid(c.thorough) {
		c.engineCase(fc.a, fc.b, fc.desc, engineOpts{inspected: true, file: i%4 == 0, fk: i%2 == 0, viaAtlas: i%3 != 0, viaAtlasInspected: i%3 == 2})
	}
	// populated tables x a single edit of the ALTER path or of its border (what alterable() must send to the rebuild)
	border := map[string]bool{"add-col-nonconst-default": true, "add-col-null": true, "add-col-notnull-default": true,
		"add-col-generated": true, "add-index": true, "drop-index": true, "add-col-indexed": true}
	nb := 120
	if c.thorough {
		nb = 3000
	}
	for i := 0; i < nb; i++ {
		a := c.g.schema()
		b := a.clone()
		ti := c.r.Intn(len(b.Tables))
		var kind string
		for try := 0; try < 20 && kind == ""; try++ {
			e := edits[c.r.Intn(len(edits))]
			if border[e.kind] && e.f(c.g, &b, &b.Tables[ti]) {
				kind = e.kind
			}
		}
		if kind == "" || classify(a, b) != "none" {
			continue
		}
		o := engineOpts{file: i%3 == 0, fk: i%2 == 0}
		for _, t := range a.Tables {
			o.rows = append(o.rows, genRows(c.g, t)...)
		}
		c.engineCase(a, b, "border:"+kind+"+rows", o)
	}
	// constraint / index names outside \w+ on every named object, empty and populated, created by the harness' DDL or by Atlas
	og := &G{r: c.r, odd: true}
	no := 150
	if c.thorough {
		no = 4000
	}
	for i := 0; i < no; i++ {
		a, b, d := og.pair()
		o := engineOpts{file: i%3 == 0, fk: i%2 == 0, viaAtlas: i%4 == 1, inspected: i%5 == 2}
		if i%3 == 1 && d != "unrelated" {
			for _, t := range a.Tables {
				o.rows = append(o.rows, genRows(og, t)...)
			}
		}
		c.engineCase(a, b, "odd-names:"+d, o)
	}
	// populated: a nullable column with a DEFAULT becomes NOT NULL over NULLs, all four variants, any default (notnull.go)
	nn := 60
	if c.thorough {
		nn = 2000
	}
	for i := 0; i < nn; i++ {
		if a, b, rows, fill, d, ok := c.g.notnullDefault(i % 4); ok {
			c.engineCase(a, b, d, engineOpts{file: i%3 == 0, fk: i%2 == 0, rows: rows, fill: &fill, viaAtlas: i%5 == 4})
		}
	}
	// one stream per open known finding: the witnesses must still fail (they print KNOWN-FINDING), and
	// any other violation on them still raises
	kg := &G{r: c.r, allowKnown: false}
	per := 6
	if c.thorough {
		per = 60
	}
	for _, class := range knownClasses {
		for i := 0; i < per; i++ {
			a, b, ok := kg.witness(class)
			if !ok {
				c.w.Count("known.no-witness=" + class)
				continue
			}
			c.w.Count("known.witness=" + class)
			c.engineCase(a, b, "known:"+class, engineOpts{file: i%2 == 0, fk: i%3 == 0, viaAtlas: class != "drop-inline-unique" && i%2 == 1})
		}
	}
}

// ------------------------------------------------------------------ updown stage (for C17: reverse statements on the real engine vs the model)

func runUpDown(c *ctx) {
	c.w.Rule = "a case is non-trivial when the real differ reports a non-empty change list; distinct by that list"
	n := 500
	if c.thorough {
		n = 8000
	}
	for i := 0; i < n; i++ {
		a, b, d := c.g.pair()
		if len(a.Tables) > 0 && c.r.Chance(1, 2) { // reversible plans: additive edits only
			b = a.clone()
			var kinds []string
			for k := 0; k < 1+c.r.Intn(3); k++ {
				ti := c.r.Intn(len(b.Tables))
				for try := 0; try < 6; try++ {
					e := edits[c.r.Intn(len(edits))]
					if (e.kind == "add-col-null" || e.kind == "add-index" || e.kind == "add-col-generated") && e.f(c.g, &b, &b.Tables[ti]) {
						kinds = append(kinds, e.kind)
						break
					}
				}
			}
			if c.r.Chance(1, 3) {
				nm := c.g.pick(tblNames)
				if b.table(nm) == nil && !nameUsed(&b, nm) {
					b.Tables = append(b.Tables, c.g.table(&b, nm))
					kinds = append(kinds, "add-table")
				}
			}
			d = "additive:" + strings.Join(kinds, "+")
		}
		o := engineOpts{updown: true, file: c.r.Chance(1, 3), fk: c.r.Bool(), withModel: true, viaAtlas: c.r.Chance(1, 3)}
		if c.r.Chance(1, 3) && simpleDefaults(b) && !strings.Contains(d, "mod-col-type") && d != "unrelated" && !genToPlain(a, b) {
			noNull = aliasCols(b)
			for _, t := range a.Tables {
				o.rows = append(o.rows, genRows(c.g, t)...)
			}
			noNull = nil
		}
		c.engineCase(a, b, d, o)
	}
	// DROP TABLE under foreign_keys = on over small foreign-key graphs (dropgrid.go)
	nd := 500
	if c.thorough {
		nd = 20000
	}
	for i, fc := range c.dropFamily(nd) {
		c.engineCase(fc.a, fc.b, fc.desc, engineOpts{updown: true, file: i%7 == 0, fk: i%5 != 4, withModel: true})
	}
}
