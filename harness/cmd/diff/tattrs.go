// Round 5, stage `tattrs`: table attributes of the MySQL and PostgreSQL differs
// (sql/mysql/diff_oss.go: TableAttrDiff = autoIncChange, CommentDiff, charsetChange,
// collationChange, engineChange, systemVerChange; sql/postgres/diff_oss.go: TableAttrDiff =
// CommentDiff, partitionChanged) -- mysql.DefaultDiff and postgres.DefaultDiff, SchemaDiff and
// TableDiff, tied to coq/theories/Diff/DiffTableAttrs.v (`model_diff tattrs`).
//
//	<id> S|T <dialect> <mask> <schema_tx> <schema_tx>
//	schema_tx = <name> <charset|~> <collation|~> <n> { <table_x> }
//	table_x   = <comment|~> <charset|~> <collation|~> <engine:default|~> <auto_increment|~> <sysver 0|1> <partition|~> <table>
//
// Every attribute is a dimension with a small set of states; all pairs (current, desired) of
// one dimension are enumerated (for charset / collation also x the schema's value, which the
// differ reads as the inherited one), then random combinations of several dimensions together
// with a column / table edit.  Required answers come from the recipe (req* below).
package main

import (
	"fmt"
	"sort"
	"strconv"
	"strings"

	"ariga.io/atlas/sql/mysql"
	"ariga.io/atlas/sql/postgres"
	"ariga.io/atlas/sql/schema"
)

type schemaTX struct {
	S                  Schema
	Charset, Collation *string
}

func buildTX(dialect string, s schemaTX) *schema.Schema {
	g := build(dialect, s.S)
	if s.Charset != nil {
		g.Attrs = append(g.Attrs, &schema.Charset{V: *s.Charset})
	}
	if s.Collation != nil {
		g.Attrs = append(g.Attrs, &schema.Collation{V: *s.Collation})
	}
	return g
}

// partCanon: the text formatPartition compares, for the partitions of the generator (type
// upper-cased, column names).
func partCanon(p *postgres.Partition) string {
	var cols []string
	for _, k := range p.Parts {
		if k.C != nil {
			cols = append(cols, k.C.Name)
		}
	}
	return strings.ToUpper(p.T) + "(" + strings.Join(cols, ",") + ")"
}

func tokTableX(t *schema.Table, w *[]string) {
	*w = append(*w, tokAttrs(t.Attrs, true)[2], tokAttrs(t.Attrs, true)[0], tokAttrs(t.Attrs, true)[1])
	var (
		en mysql.Engine
		ai mysql.AutoIncrement
		pt postgres.Partition
	)
	if hasAttr(t.Attrs, &en) {
		*w = append(*w, hx(en.V)+":"+b01(en.Default))
	} else {
		*w = append(*w, "~")
	}
	if hasAttr(t.Attrs, &ai) {
		*w = append(*w, strconv.FormatInt(ai.V, 10))
	} else {
		*w = append(*w, "~")
	}
	*w = append(*w, b01(hasAttr(t.Attrs, &mysql.SystemVersioned{})))
	if hasAttr(t.Attrs, &pt) {
		*w = append(*w, hx(partCanon(&pt)))
	} else {
		*w = append(*w, "~")
	}
	tokTable(t, w)
}

func tokSchemaTX(s *schema.Schema, only string) string {
	a := tokAttrs(s.Attrs, false)
	n := 0
	var w []string
	for _, t := range s.Tables {
		if only == "" || t.Name == only {
			n++
			tokTableX(t, &w)
		}
	}
	return strings.Join(append([]string{hx(s.Name), a[0], a[1], strconv.Itoa(n)}, w...), " ")
}

// a dimension of table attributes
type tdim struct {
	name   string
	descs  []string
	set    []func(*Table)
	parent bool                                                   // reads the schema's charset / collation
	req    func(i, j int, par *string) (exp string, judge, isErr bool) // exp: change text without the table prefix, "" = nothing
	base   int                                                    // the state of the base table
}

type txctx struct {
	*ctx
	dialect string
	differ  schema.Differ
}

func (c *txctx) one(class, op, desc string, from, to schemaTX, mask int, exp []string, judge, wantErr bool) {
	id := c.id("tattrs-"+class, 0)
	g1, g2 := buildTX(c.p.dialect, from), buildTX(c.p.dialect, to)
	var (
		cs   []schema.Change
		err  error
		pan  string
		line string
		obs  string
	)
	func() {
		defer func() {
			if r := recover(); r != nil {
				pan = fmt.Sprint(r)
			}
		}()
		if op == "S" {
			cs, err = c.differ.SchemaDiff(g1, g2, opts(mask)...)
		} else {
			t1, _ := g1.Table("tt")
			t2, _ := g2.Table("tt")
			cs, err = c.differ.TableDiff(t1, t2, opts(mask)...)
		}
	}()
	only := ""
	if op == "T" {
		only = "tt"
		obs = showSubs(cs)
		if err != nil {
			obs = "err"
		}
	} else {
		obs = showSchemaChanges(cs, err)
	}
	if pan != "" {
		obs = "panic"
	}
	line = op + " " + c.dialect + " " + strconv.Itoa(mask) + " " + tokSchemaTX(g1, only) + " " + tokSchemaTX(g2, only)
	c.w.Case(id, line, []string{obs})
	c.w.Count("class:" + class)
	c.w.Count("dialect:" + c.dialect)
	if obs != "[]" && obs != "{}" {
		c.w.NonTrivial(class + "|" + c.dialect + "|" + op + "|" + strconv.Itoa(mask) + "|" + desc + "|" + obs)
	}
	head := fmt.Sprintf("[%s] tattrs %s %s %s (skip mask %d)", c.dialect, op, class, desc, mask)
	if pan != "" {
		c.w.Violation(id, "tattrs-panic", head+": differ panicked: "+pan)
		return
	}
	if !judge {
		return
	}
	if wantErr {
		if err == nil {
			c.w.Violation(id, "tattrs-no-error", fmt.Sprintf("%s: the partition key differs, which no change can express: an error is required, differ returned %v", head, flat(cs)))
		}
		return
	}
	if err != nil {
		c.w.Violation(id, "tattrs-error", head+": differ returned an error: "+err.Error())
		return
	}
	if op == "T" && len(cs) > 0 {
		t2, _ := g2.Table("tt")
		cs = []schema.Change{&schema.ModifyTable{T: t2, Changes: cs}}
	}
	got := flat(cs)
	want := append([]string(nil), filterExp(exp, mask)...)
	sort.Strings(want)
	if strings.Join(got, "\x00") == strings.Join(want, "\x00") {
		return
	}
	missing, spurious := msetDiff(want, got), msetDiff(got, want)
	cls := "tattrs-mismatch"
	switch {
	case len(want) == 0:
		cls = "tattrs-nonempty-" + class
	case len(missing) > 0 && len(spurious) == 0:
		cls = "tattrs-missing-change"
	case len(missing) == 0 && len(spurious) > 0:
		cls = "tattrs-spurious-change"
	}
	c.w.Violation(id, cls, fmt.Sprintf("%s: required %v, differ returned %v (missing %v, not required %v)", head, want, got, missing, spurious))
}

// reqComment: "" is no comment, a quoted text is its content.
func reqComment(from, to *string) string {
	r := reqPGComment("x", false, from, to)
	if len(r) == 0 {
		return ""
	}
	return r[0][strings.Index(r[0], "/@/")+3 : strings.Index(r[0], ":")] + ")"
}

func (c *ctx) tattrs(thorough bool) {
	c.w.Rule = "a table-attribute case is non-trivial when the differ returned at least one change or an error; key = dialect, operation, skip mask, recipe, answer"
	c.w.Exhaust = true
	for _, d := range []string{"mysql", "postgres"} {
		p := newProfile(d)
		tc := &txctx{ctx: &ctx{w: c.w, p: p, r: c.r, n: c.n}, dialect: d}
		if d == "mysql" {
			tc.differ = mysql.DefaultDiff
		} else {
			tc.differ = postgres.DefaultDiff
		}
		tokDialect = p.dialect
		tc.ctx.differ = tc.differ
		tc.cases(thorough)
		c.n = tc.n
	}
}

func (c *txctx) cases(thorough bool) {
	p := c.p
	csA, csB, coA, coB := "utf8mb4", "latin1", "utf8mb4_0900_ai_ci", "latin1_swedish_ci"
	pkn := map[string]string{"mysql": "PRIMARY", "postgres": "tt_pkey"}[p.dialect]
	tt := Table{Name: "tt", Cols: []Col{{Name: "id", Type: p.tInt}, {Name: "n", Type: p.tInt, Null: true}},
		PK: &Idx{Name: pkn, Parts: []Part{{Col: "id"}}}}
	other := bases(p)[0].clone().Tables[0]
	var dims []tdim
	texts := []*string{nil, sp(""), sp("c1"), sp("'c1'"), sp("c2")}
	var cd, cset = []string{}, []func(*Table){}
	for _, x := range texts {
		x := x
		cd = append(cd, showP(x))
		cset = append(cset, func(t *Table) { t.Comment = cpS(x) })
	}
	dims = append(dims, tdim{name: "comment", descs: cd, set: cset,
		req: func(i, j int, _ *string) (string, bool, bool) {
			// a current comment that is present but empty is not an inspected state: tie only
			return reqComment(texts[i], texts[j]), texts[i] == nil || *texts[i] != "", false
		}})
	if p.dialect == "mysql" {
		type eng struct {
			v   string
			def bool
		}
		engs := []*eng{{"InnoDB", false}, nil, {"InnoDB", true}, {"MyISAM", false}, {"MyISAM", true}, {"innodb", false}, {"MEMORY", false}}
		var ed []string
		var es []func(*Table)
		for _, e := range engs {
			e := e
			if e == nil {
				ed = append(ed, "<none>")
				es = append(es, func(t *Table) { t.Engine, t.EngineDefault = nil, false })
			} else {
				ed = append(ed, fmt.Sprintf("%s(default=%v)", e.v, e.def))
				es = append(es, func(t *Table) { t.Engine, t.EngineDefault = sp(e.v), e.def })
			}
		}
		dims = append(dims, tdim{name: "engine", descs: ed, set: es,
			req: func(i, j int, _ *string) (string, bool, bool) {
				f, t := engs[i], engs[j]
				switch {
				case f == nil:
					// an inspected MySQL table always has an engine: tie only
					return "", false, false
				case t == nil:
					// removed from the desired state = the server's default engine (InnoDB)
					if !f.def && strings.ToLower(f.v) != "innodb" {
						return "~A(6)", true, false
					}
				case strings.ToLower(f.v) != strings.ToLower(t.v):
					return "~A(6)", true, false
				}
				return "", true, false
			}})
		ais := []int64{0, 1, 2, 1000, 1001}
		var ad []string
		var as []func(*Table)
		for _, v := range ais {
			v := v
			ad = append(ad, strconv.FormatInt(v, 10))
			as = append(as, func(t *Table) { t.AutoInc = v })
		}
		dims = append(dims, tdim{name: "auto_increment", descs: ad, set: as,
			req: func(i, j int, _ *string) (string, bool, bool) {
				// AUTO_INCREMENT only sets the initial value: reported when the desired one is > 1 and above the current one
				if ais[j] > 1 && ais[j] > ais[i] {
					return "~A(7)", true, false
				}
				return "", true, false
			}})
		mk := func(name string, id int, a, b string, set func(*Table, *string)) tdim {
			vals := []*string{nil, &a, &b}
			var ds []string
			var ss []func(*Table)
			for _, v := range vals {
				v := v
				ds = append(ds, showP(v))
				ss = append(ss, func(t *Table) { set(t, cpS(v)) })
			}
			return tdim{name: name, descs: ds, set: ss, parent: true,
				req: func(i, j int, par *string) (string, bool, bool) {
					r := reqMyAttr("x", id, vals[i], par, vals[j])
					if len(r) == 0 {
						return "", true, false
					}
					return r[0][strings.Index(r[0], "/@/")+3:strings.Index(r[0], ":")] + ")", true, false
				}}
		}
		dims = append(dims, mk("charset", 4, csA, csB, func(t *Table, v *string) { t.Charset = v }))
		dims = append(dims, mk("collation", 5, coA, coB, func(t *Table, v *string) { t.Collation = v }))
		dims = append(dims, tdim{name: "system versioning", descs: []string{"off", "on"},
			set: []func(*Table){func(t *Table) { t.SysVer = false }, func(t *Table) { t.SysVer = true }},
			req: func(i, j int, _ *string) (string, bool, bool) {
				switch {
				case i == 1 && j == 0:
					return "-A(8)", true, false
				case i == 0 && j == 1:
					return "+A(8)", true, false
				}
				return "", true, false
			}})
	} else {
		parts := []string{"", "RANGE:n", "range:n", "HASH:n", "RANGE:id", "RANGE:id,n", "LIST:n"}
		var pd []string
		var ps []func(*Table)
		for _, x := range parts {
			x := x
			pd = append(pd, strconv.Quote(x))
			ps = append(ps, func(t *Table) { t.Partition = x })
		}
		dims = append(dims, tdim{name: "partition", descs: pd, set: ps,
			req: func(i, j int, _ *string) (string, bool, bool) {
				return "", true, strings.ToUpper(parts[i]) != strings.ToUpper(parts[j])
			}})
	}
	pars := [][2]*string{{nil, nil}}
	if p.dialect == "mysql" {
		pars = [][2]*string{{nil, nil}, {&csA, &coA}, {&csB, &coB}}
	}
	mkS := func(par [2]*string, t Table, with bool) schemaTX {
		s := Schema{Name: "main", Tables: []Table{t.clone()}}
		if with {
			s.Tables = append(s.Tables, other.clone())
		}
		seqParts(&s)
		return schemaTX{S: s, Charset: cpS(par[0]), Collation: cpS(par[1])}
	}
	parOf := func(d tdim, par [2]*string) *string {
		if d.name == "collation" {
			return par[1]
		}
		return par[0]
	}
	// ---------------------------------------------------------- one dimension, all pairs of states
	for pi, par := range pars {
		pdesc := ""
		if p.dialect == "mysql" {
			pdesc = fmt.Sprintf(" [schema charset %s collation %s]", showP(par[0]), showP(par[1]))
		}
		for _, d := range dims {
			if pi > 0 && !d.parent {
				continue
			}
			for i := range d.set {
				for j := range d.set {
					f, t := tt.clone(), tt.clone()
					d.set[i](&f)
					d.set[j](&t)
					r, judge, isErr := d.req(i, j, parOf(d, par))
					var exp []string
					if r != "" {
						exp = []string{"tt/" + r}
					}
					class := "attr1"
					if r == "" && !isErr {
						class = "nonedit"
					}
					desc := fmt.Sprintf("table tt %s %s -> %s%s", d.name, d.descs[i], d.descs[j], pdesc)
					c.w.Count("tattr:" + d.name)
					c.one(class, "S", desc, mkS(par, f, true), mkS(par, t, true), 0, exp, judge, isErr)
					if d.parent {
						// the desired schema declares other defaults: the inherited value is the current schema's
						// (TableDiff: SchemaDiff would also report the schema's own attributes -- stage realm)
						c.one(class, "T", desc+" (desired schema with other defaults)", mkS(par, f, false), mkS(pars[(pi+1)%len(pars)], t, false), 0, exp, judge, isErr)
					}
					c.one(class, "T", desc, mkS(par, f, false), mkS(par, t, false), 0, exp, judge, isErr)
					if r != "" {
						c.one("skip", "S", desc+" (ModifyTable skipped)", mkS(par, f, true), mkS(par, t, true), 4, exp, judge, isErr)
						c.one("skip", "S", desc+" (every other kind skipped)", mkS(par, f, true), mkS(par, t, true), 8191&^4, exp, judge, isErr)
					}
				}
			}
		}
	}
	// ---------------------------------------------------------- several dimensions + other edits
	n := 400
	if thorough {
		n = 6000
	}
	for k := 0; k < n; k++ {
		par := pars[c.r.Intn(len(pars))]
		f, t := tt.clone(), tt.clone()
		var exp, ds []string
		judge, isErr := true, false
		for _, d := range dims {
			if !c.r.Chance(1, 2) {
				continue
			}
			i, j := c.r.Intn(len(d.set)), c.r.Intn(len(d.set))
			d.set[i](&f)
			d.set[j](&t)
			r, jd, e := d.req(i, j, parOf(d, par))
			if r != "" {
				exp = append(exp, "tt/"+r)
			}
			judge, isErr = judge && jd, isErr || e
			ds = append(ds, fmt.Sprintf("%s %s -> %s", d.name, d.descs[i], d.descs[j]))
		}
		from, to := mkS(par, f, true), mkS(par, t, true)
		if c.r.Chance(1, 3) {
			tb := to.S.table("tt")
			tb.Cols = append(tb.Cols, Col{Name: "zz_new", Type: p.tInt, Null: true})
			exp = append(exp, "tt/+C(zz_new)")
			ds = append(ds, "add column zz_new")
		}
		if c.r.Chance(1, 4) {
			to.S.Tables = to.S.Tables[:1]
			exp = append(exp, "-T("+other.Name+")")
			ds = append(ds, "drop table "+other.Name)
		}
		if c.r.Chance(1, 2) {
			from.S, to.S = c.shuffle(from.S), c.shuffle(to.S)
		}
		mask := 0
		if c.r.Chance(1, 4) {
			mask = int(c.r.U64()&8191) &^ 4
			if c.r.Chance(1, 6) {
				mask |= 4
			}
		}
		desc := strings.Join(ds, " + ")
		if p.dialect == "mysql" {
			desc += fmt.Sprintf(" [schema charset %s collation %s]", showP(par[0]), showP(par[1]))
		}
		c.w.Count(fmt.Sprintf("tmulti:%d-dims", len(ds)))
		c.one("attrN", "S", desc, from, to, mask, exp, judge, isErr)
	}
	c.checkFlags(thorough)
}

// tokTableXK: the flagged checks, then the table without them.
func tokTableXK(dialect string, t *schema.Table) string {
	var w []string
	var rest []schema.Attr
	n := 0
	for _, a := range t.Attrs {
		k, ok := a.(*schema.Check)
		if !ok {
			rest = append(rest, a)
			continue
		}
		n++
		flag := false
		if dialect == "mysql" {
			flag = true // enforced unless stated otherwise
			var e mysql.Enforced
			if hasAttr(k.Attrs, &e) {
				flag = e.V
			}
		} else {
			flag = hasAttr(k.Attrs, &postgres.NoInherit{})
		}
		w = append(w, hx(k.Name), hx(k.Expr), b01(flag))
	}
	cp := *t
	cp.Attrs = rest
	w = append([]string{strconv.Itoa(n)}, w...)
	tokTableX(&cp, &w)
	return strings.Join(w, " ")
}

// checkFlags: CHECK constraints with MySQL NOT ENFORCED / PostgreSQL NO INHERIT, through TableDiff.
// Per check (two named, one unnamed) every combination of (current flag, desired flag, expression
// edited or not); a named check that differs in flag or expression is one ModifyCheck, an unnamed
// one is dropped and added; then random combinations over the three checks + add / drop of a
// flagged check.
func (c *txctx) checkFlags(thorough bool) {
	p := c.p
	pkn := map[string]string{"mysql": "PRIMARY", "postgres": "tk_pkey"}[p.dialect]
	base := Table{Name: "tk", Cols: []Col{{Name: "id", Type: p.tInt}, {Name: "n", Type: p.tInt, Null: true}},
		PK: &Idx{Name: pkn, Parts: []Part{{Col: "id"}}},
		Checks: []Check{{Name: "c1", Expr: "(n > 0)"}, {Name: "c2", Expr: "(n < 100)"}, {Name: "", Expr: "(id > 0)"}}}
	edited := []string{"(n > 1)", "(n < 99)", "(id > 1)"}
	setFlag := func(k *Check, f bool) { k.NotEnforced, k.NoInherit = f, f }
	run := func(class, desc string, f, t Table, exp []string, judge bool) {
		id := c.id("tattrs-"+class, 0)
		from := Schema{Name: "main", Tables: []Table{f.clone()}}
		to := Schema{Name: "main", Tables: []Table{t.clone()}}
		seqParts(&from)
		seqParts(&to)
		g1, g2 := build(p.dialect, from), build(p.dialect, to)
		t1, _ := g1.Table("tk")
		t2, _ := g2.Table("tk")
		cs, err, pan := c.tableDiff(t1, t2, 0)
		obs := showSubs(cs)
		if err != nil {
			obs = "err"
		}
		if pan != "" {
			obs = "panic"
		}
		line := "K " + c.dialect + " 0 ~ ~ " + tokTableXK(p.dialect, t1) + " " + tokTableXK(p.dialect, t2)
		c.w.Case(id, line, []string{obs})
		c.w.Count("class:" + class)
		c.w.Count("dialect:" + c.dialect)
		if obs != "{}" {
			c.w.NonTrivial(class + "|" + c.dialect + "|K|" + desc + "|" + obs)
		}
		head := fmt.Sprintf("[%s] tattrs K %s %s", c.dialect, class, desc)
		if pan != "" {
			c.w.Violation(id, "tattrs-panic", head+": differ panicked: "+pan)
			return
		}
		if !judge {
			return
		}
		if err != nil {
			c.w.Violation(id, "tattrs-error", head+": differ returned an error: "+err.Error())
			return
		}
		var wrapped []schema.Change
		if len(cs) > 0 {
			wrapped = []schema.Change{&schema.ModifyTable{T: t2, Changes: cs}}
		}
		got := flat(wrapped)
		want := append([]string(nil), exp...)
		sort.Strings(want)
		if strings.Join(got, "\x00") == strings.Join(want, "\x00") {
			return
		}
		missing, spurious := msetDiff(want, got), msetDiff(got, want)
		cls := "tattrs-mismatch"
		switch {
		case len(want) == 0:
			cls = "tattrs-nonempty-" + class
		case len(missing) > 0 && len(spurious) == 0:
			cls = "tattrs-missing-change"
		case len(missing) == 0 && len(spurious) > 0:
			cls = "tattrs-spurious-change"
		}
		c.w.Violation(id, cls, fmt.Sprintf("%s: required %v, differ returned %v (missing %v, not required %v)", head, want, got, missing, spurious))
	}
	what := map[string]string{"mysql": "NOT ENFORCED", "postgres": "NO INHERIT"}[p.dialect]
	req := func(k Check, ff, tf bool, ne string) []string {
		if ff == tf && ne == k.Expr {
			return nil
		}
		if k.Name != "" {
			return []string{fmt.Sprintf("tk/~CK(%s:%s>%s:%s)", k.Name, hx(k.Expr), k.Name, hx(ne))}
		}
		return []string{fmt.Sprintf("tk/-CK(:%s)", hx(k.Expr)), fmt.Sprintf("tk/+CK(:%s)", hx(ne))}
	}
	for ki, k := range base.Checks {
		for _, ff := range []bool{false, true} {
			for _, tf := range []bool{false, true} {
				for _, ed := range []bool{false, true} {
					f, t := base.clone(), base.clone()
					setFlag(&f.Checks[ki], ff)
					setFlag(&t.Checks[ki], tf)
					ne := k.Expr
					if ed {
						ne = edited[ki]
						t.Checks[ki].Expr = ne
					}
					exp := req(k, ff, tf, ne)
					class := "check1"
					if len(exp) == 0 {
						class = "nonedit"
					}
					c.w.Count("tattr:check-flag")
					run(class, fmt.Sprintf("check %q %s: %v -> %v, expression edited: %v", k.Name, what, ff, tf, ed), f, t, exp, true)
				}
			}
		}
	}
	n := 150
	if thorough {
		n = 3000
	}
	for i := 0; i < n; i++ {
		f, t := base.clone(), base.clone()
		var exp, ds []string
		for ki, k := range base.Checks {
			ff, tf, ed := c.r.Chance(1, 2), c.r.Chance(1, 2), c.r.Chance(1, 3)
			setFlag(&f.Checks[ki], ff)
			setFlag(&t.Checks[ki], tf)
			ne := k.Expr
			if ed {
				ne = edited[ki]
				t.Checks[ki].Expr = ne
			}
			exp = append(exp, req(k, ff, tf, ne)...)
			ds = append(ds, fmt.Sprintf("%q %v->%v edited=%v", k.Name, ff, tf, ed))
		}
		if c.r.Chance(1, 3) {
			nk := Check{Name: "c9", Expr: "(n <> 7)"}
			setFlag(&nk, c.r.Chance(1, 2))
			t.Checks = append(t.Checks, nk)
			exp = append(exp, fmt.Sprintf("tk/+CK(c9:%s)", hx(nk.Expr)))
			ds = append(ds, "add c9")
		}
		if c.r.Chance(1, 3) {
			nk := Check{Name: "c8", Expr: "(n <> 8)"}
			setFlag(&nk, c.r.Chance(1, 2))
			f.Checks = append(f.Checks, nk)
			exp = append(exp, fmt.Sprintf("tk/-CK(c8:%s)", hx(nk.Expr)))
			ds = append(ds, "drop c8")
		}
		if c.r.Chance(1, 2) {
			for a := len(t.Checks) - 1; a > 0; a-- {
				b := c.r.Intn(a + 1)
				t.Checks[a], t.Checks[b] = t.Checks[b], t.Checks[a]
			}
		}
		run("checkN", what+": "+strings.Join(ds, ", "), f, t, exp, true)
	}
	if p.dialect == "mysql" {
		// the JSON check MariaDB generates for a JSON column (named as the column): its DropCheck is
		// suppressed while the column exists (tie only)
		f, t := base.clone(), base.clone()
		f.Cols = append(f.Cols, Col{Name: "j", Type: p.tJSON, Null: true})
		t.Cols = append(t.Cols, Col{Name: "j", Type: p.tJSON, Null: true})
		f.Checks = append(f.Checks, Check{Name: "j", Expr: "json_valid(`j`)"})
		run("json-check", "generated json_valid check of column j not in the desired table", f, t, nil, false)
		t2 := base.clone()
		run("json-check", "generated json_valid check, column j dropped too", f, t2, nil, false)
	}
}
