// Tie-only cases for the SQLite model: random pairs of small tables over tiny alphabets, so
// that name collisions, generated index names, numeric fk symbols, quoting variants of
// defaults and wrapped/unwrapped expressions all occur.  No property is judged on them
// (they are not edit scripts); only "model = Go" and "no panic".
package main

import (
	"fmt"
	"strings"
)

var (
	wCols   = []string{"a", "b", "c", "d"}
	wTypes  = []string{"integer", "int", "text", "varchar(10)", "real", "blob", "numeric", "boolean", "datetime", "json", "uuid", "udt:geo", "udt:money", "udt:geo"}
	wDefs   = []string{"1", "'1'", "\"1\"", "2", "'a''b'", "\"a'b\"", "'a'b'", "x", "'x'", "\"x\"", "''", "'", "\"", "(1)", "'x''", "''x'", "\"\""}
	wExprs  = []string{"a+1", "(a+1)", "(a + 1)", "lower(b)", "(lower(b))", "((a+1))", "(a)+(1)", "a,b", "(a),(b)", "f(')')", "(f(')'))", ""}
	wGenT   = []string{"", "STORED", "stored", "VIRTUAL", "virtual", "Stored"}
	wIdxN   = []string{"i1", "i2", "i1", "i2", "i3", "i3", "", "", "t_a", "t_b", "t_a_b", "i1", "i2", "sqlite_autoindex_t_1", "sqlite_autoindex_t_2", "sqlite_autoindex_u_1", "sqlite_autoindex_t_0", "sqlite_autoindex_t_x", "sqlite_autoindex_t_+1", "sqlite_autoindex", "t_a", "t_a_b", "t_b", "t", "u_a"}
	wOrigin = []string{"u", "p", "c", "pk"}
	wFkN    = []string{"fk1", "fk2", "0", "1", "a", "", "00"}
	wTabs   = []string{"t", "u", "v"}
	wAct    = []string{"", "NO ACTION", "CASCADE", "SET NULL", "RESTRICT", "no action"}
	wChkN   = []string{"", "", "k1", "k2"}
	wChkE   = []string{"a>0", "(a>0)", "(a > 0)", "b<>1", "(b<>1)", "((a>0))"}
	wCmt    = []string{"", "x", "y"}
	wPkN    = []string{"", "pk", "PRIMARY", "pk2"}
)

func (c *ctx) wOpt(l []string, numNone, den int) *string {
	if c.r.Chance(numNone, den) {
		return nil
	}
	return sp(rngPick(c, l))
}

func rngPick(c *ctx, l []string) string { return l[c.r.Intn(len(l))] }

// wildTypes / wildDefs: per dialect pools; the default pools stay inside the fragment of
// literals the MySQL/PostgreSQL models compare exactly (DiffDialects.v header).
func (c *ctx) wildTypes() []string {
	if c.p.dialect == "sqlite" {
		return wTypes
	}
	return c.p.types
}

func (c *ctx) wildDef(key string) string {
	switch c.p.dialect {
	case "mysql":
		switch {
		case isIntKey(key) || key == "int unsigned":
			return rngPick(c, []string{"1", "2", "'1'", "01", "+1", "-1", "(1)", "a", " 1", "'2'"})
		case key == "double" || key == "float" || strings.HasPrefix(key, "decimal"):
			return rngPick(c, []string{"1.5", "1.50", "2.5", "'1.5'", "01.5", "-0", "0", "(1.5)", "x", ".5", "0.5", "5.", "5"})
		case key == "bool":
			return rngPick(c, []string{"1", "0", "'1'", "true", "TRUE", "2", "(1 = 2)", "false", "'0'"})
		case key == "datetime" || key == "timestamp" || key == "date":
			return rngPick(c, []string{"CURRENT_TIMESTAMP", "current_timestamp", "(CURRENT_TIMESTAMP)", "'2020-01-01'", "now()", "CURRENT_TIMESTAMP(6)", "2020-01-01"})
		case isStringKey(key) || strings.HasPrefix(key, "enum"):
			return rngPick(c, []string{"a", "'a'", "\"a\"", "'a''b'", "\"a'b\"", "b", "'b'", "''", "'"})
		}
		return rngPick(c, []string{"'{}'", "{}", "'[]'", "('{}')", "'ab'", "ab", "''ab''"})
	case "postgres":
		return rngPick(c, []string{"1", "'1'", "1::integer", "'a'::text", "'a'", "a", "'a'::character varying", "'a'::char(3)", "nextval('s'::regclass)", "a::b::c", "::", "x::", "'a''b'", "a'b", "'a'::Text ", "2"})
	}
	return rngPick(c, wDefs)
}

func (c *ctx) wCol(name string) Col {
	col := Col{Name: name, Type: rngPick(c, c.wildTypes()), Null: c.r.Bool()}
	if c.r.Chance(1, 200) {
		col.Type = ""
	}
	if c.r.Chance(1, 2) {
		col.Def = &Def{Raw: c.r.Bool(), V: c.wildDef(col.Type)}
	}
	if c.r.Chance(1, 4) {
		col.Gen = &Gen{Expr: rngPick(c, wExprs), Type: rngPick(c, wGenT)}
		if c.p.dialect == "mysql" && c.r.Chance(1, 4) {
			col.Gen.Type = "PERSISTENT"
		}
	}
	col.Comment = c.wOpt(wCmt, 2, 3)
	if c.p.charset && isStringKey(col.Type) && c.r.Chance(1, 2) {
		cc := [][2]string{{"latin1", "latin1_swedish_ci"}, {"latin1", "latin1_bin"}, {"utf8mb4", "utf8mb4_bin"}, {"utf8mb4", "utf8mb4_0900_ai_ci"}}[c.r.Intn(4)]
		col.Charset, col.Collation = sp(cc[0]), sp(cc[1])
	}
	if c.p.identity && c.r.Chance(1, 5) {
		col.Identity = &Ident{Gen: rngPick(c, []string{"", "BY DEFAULT", "ALWAYS"}), Start: int64(c.r.Intn(3)), Inc: int64(c.r.Intn(3))}
	}
	return col
}

func (c *ctx) wParts() []Part {
	n := 1 + c.r.Intn(2)
	if c.r.Chance(1, 15) {
		n = 0
	}
	var ps []Part
	for k := 0; k < n; k++ {
		p := Part{Seq: k, Desc: c.r.Chance(1, 4)}
		switch {
		case c.r.Chance(1, 5):
			p.Expr = rngPick(c, wExprs)
		case c.r.Chance(1, 40): // neither column nor expression
		default:
			p.Col = rngPick(c, wCols)
		}
		ps = append(ps, p)
	}
	if n == 2 && c.r.Bool() { // listed out of SeqNo order
		ps[0], ps[1] = ps[1], ps[0]
	}
	return ps
}

func (c *ctx) wIdx() Idx {
	i := Idx{Name: rngPick(c, wIdxN), Unique: c.r.Bool(), Parts: c.wParts()}
	if c.r.Chance(1, 4) {
		i.Pred = sp(rngPick(c, wExprs))
	}
	i.Comment = c.wOpt(wCmt, 3, 4)
	switch c.p.dialect {
	case "sqlite":
		i.Origin = c.wOpt(wOrigin, 1, 2)
	case "mysql":
		i.Name = rngPick(c, []string{"i1", "i2", "i3", "", "a", "b", "a_2", "a_1", "b_3", "a_x", "functional_index", "functional_index_2", "functional"})
		i.Type = rngPick(c, []string{"", "", "BTREE", "btree", "HASH", "FULLTEXT"})
		if len(i.Parts) > 0 && i.Parts[0].Col != "" && c.r.Chance(1, 4) {
			i.Parts[0].Prefix = 5 + 5*c.r.Intn(2)
		}
	case "postgres":
		i.Name = rngPick(c, []string{"i1", "i2", "i3", "", "t_a_key", "t_a_b_key", "t_b_key", "t_a_key1", "t_a_key0", "u_a_key", "t_a_keyx", "12", "t__key"})
		i.Type = rngPick(c, []string{"", "", "BTREE", "btree", "HASH", "GIN"})
		i.NullsND = c.r.Chance(1, 5)
		if c.r.Chance(1, 4) {
			i.Include = []string{rngPick(c, wCols)}
		}
	}
	return i
}

func (c *ctx) wFK() FK {
	n := 1 + c.r.Intn(2)
	f := FK{Symbol: rngPick(c, wFkN), RefTable: rngPick(c, wTabs), OnUpdate: rngPick(c, wAct), OnDelete: rngPick(c, wAct)}
	for k := 0; k < n; k++ {
		f.Cols = append(f.Cols, rngPick(c, wCols))
	}
	m := n
	if c.r.Chance(1, 8) {
		m = 1 + c.r.Intn(2)
	}
	for k := 0; k < m; k++ {
		f.RefCols = append(f.RefCols, rngPick(c, wCols))
	}
	return f
}

func (c *ctx) wTable(name string) Table {
	t := Table{Name: name, WithoutRowID: c.r.Chance(1, 5), Strict: c.r.Chance(1, 5)}
	if c.p.charset {
		t.Charset, t.Collation = sp(c.p.tblCS), sp(c.p.tblCO)
	}
	perm := c.r.Intn(24)
	cols := append([]string(nil), wCols...)
	for i := 3; i > 0; i-- {
		j := perm % (i + 1)
		perm /= i + 1
		cols[i], cols[j] = cols[j], cols[i]
	}
	for _, n := range cols[:1+c.r.Intn(4)] {
		t.Cols = append(t.Cols, c.wCol(n))
	}
	if c.r.Chance(1, 30) { // duplicate column name
		t.Cols = append(t.Cols, c.wCol(t.Cols[0].Name))
	}
	if c.r.Chance(1, 2) {
		pk := Idx{Name: rngPick(c, wPkN), Unique: c.r.Chance(1, 2), Parts: c.wParts(), Comment: c.wOpt(wCmt, 3, 4)}
		if c.r.Chance(1, 6) {
			pk.Pred = sp(rngPick(c, wExprs))
		}
		t.PK = &pk
	}
	for k := c.r.Intn(4); k > 0; k-- {
		t.Idx = append(t.Idx, c.wIdx())
	}
	for k := c.r.Intn(4); k > 0; k-- {
		t.FKs = append(t.FKs, c.wFK())
	}
	for k := c.r.Intn(4); k > 0; k-- {
		t.Checks = append(t.Checks, Check{Name: rngPick(c, wChkN), Expr: rngPick(c, wChkE)})
	}
	return t
}

// wMutate derives a table from t by dropping, re-drawing and adding a few objects.
func (c *ctx) wMutate(t Table) Table {
	d := t.clone()
	r := c.r
	for i := range d.Cols {
		if r.Chance(1, 3) {
			n := c.wCol(d.Cols[i].Name)
			switch r.Intn(5) {
			case 0:
				d.Cols[i].Null = n.Null
			case 1:
				d.Cols[i].Type = n.Type
			case 2:
				d.Cols[i].Def = n.Def
			case 3:
				d.Cols[i].Gen = n.Gen
			default:
				d.Cols[i] = n
			}
		}
	}
	if r.Chance(1, 4) && len(d.Cols) > 1 {
		d.Cols = d.Cols[1:]
	}
	if r.Chance(1, 4) {
		d.Cols = append(d.Cols, c.wCol(rngPick(c, wCols)))
	}
	for i := range d.Idx {
		if r.Chance(1, 3) {
			n := c.wIdx()
			switch r.Intn(6) {
			case 0:
				d.Idx[i].Unique = n.Unique
			case 1:
				d.Idx[i].Parts = n.Parts
			case 2:
				d.Idx[i].Pred = n.Pred
			case 3:
				d.Idx[i].Name = n.Name
			case 4:
				d.Idx[i].Comment = n.Comment
			default:
				d.Idx[i] = n
			}
		}
	}
	if r.Chance(1, 4) && len(d.Idx) > 0 {
		d.Idx = d.Idx[1:]
	}
	if r.Chance(1, 4) {
		d.Idx = append(d.Idx, c.wIdx())
	}
	if r.Chance(1, 4) {
		if d.PK == nil {
			pk := Idx{Name: rngPick(c, wPkN), Parts: c.wParts()}
			d.PK = &pk
		} else if r.Bool() {
			d.PK = nil
		} else {
			switch r.Intn(3) {
			case 0:
				d.PK.Name = rngPick(c, wPkN)
			case 1:
				d.PK.Parts = c.wParts()
			default:
				d.PK.Unique = !d.PK.Unique
			}
		}
	}
	for i := range d.FKs {
		if r.Chance(1, 3) {
			n := c.wFK()
			switch r.Intn(6) {
			case 0:
				d.FKs[i].Symbol = n.Symbol
			case 1:
				d.FKs[i].Cols = n.Cols
			case 2:
				d.FKs[i].RefTable = n.RefTable
			case 3:
				d.FKs[i].RefCols = n.RefCols
			case 4:
				d.FKs[i].OnDelete = n.OnDelete
			default:
				d.FKs[i].OnUpdate = n.OnUpdate
			}
		}
	}
	if r.Chance(1, 4) && len(d.FKs) > 0 {
		d.FKs = d.FKs[1:]
	}
	if r.Chance(1, 4) {
		d.FKs = append(d.FKs, c.wFK())
	}
	for i := range d.Checks {
		if r.Chance(1, 3) {
			if r.Bool() {
				d.Checks[i].Expr = rngPick(c, wChkE)
			} else {
				d.Checks[i].Name = rngPick(c, wChkN)
			}
		}
	}
	if r.Chance(1, 4) && len(d.Checks) > 0 {
		d.Checks = d.Checks[1:]
	}
	if r.Chance(1, 4) {
		d.Checks = append(d.Checks, Check{Name: rngPick(c, wChkN), Expr: rngPick(c, wChkE)})
	}
	if r.Chance(1, 6) {
		d.WithoutRowID = !d.WithoutRowID
	}
	if r.Chance(1, 6) {
		d.Strict = !d.Strict
	}
	return d
}

func (c *ctx) wild(thorough bool) {
	n := 8000
	if thorough {
		n = 150000
	}
	if c.p.dialect != "sqlite" {
		n = n * 5 / 8
	}
	if c.p.scoped {
		n /= 4
	}
	if c.lite {
		n /= 5
	}
	for k := 0; k < n; k++ {
		var from, to Schema
		from.Name, to.Name = "main", "main"
		if c.r.Chance(1, 150) {
			to.Name = "other"
		}
		nt := 1 + c.r.Intn(2)
		for i := 0; i < nt; i++ {
			t := c.wTable(wTabs[i])
			switch c.r.Intn(8) {
			case 0: // only in from
				from.Tables = append(from.Tables, t)
			case 1: // only in to
				to.Tables = append(to.Tables, t)
			case 2: // unrelated tables of the same name
				from.Tables = append(from.Tables, t)
				to.Tables = append(to.Tables, c.wTable(wTabs[i]))
			case 3: // identical
				from.Tables = append(from.Tables, t)
				to.Tables = append(to.Tables, t.clone())
			default:
				from.Tables = append(from.Tables, t)
				to.Tables = append(to.Tables, c.wMutate(t))
			}
		}
		if c.r.Bool() {
			to = c.shuffle(to)
		}
		mask := 0
		if c.r.Chance(1, 6) {
			mask = int(c.r.U64() & 8191)
		}
		id := fmt.Sprintf("wild-%d", k)
		if c.r.Chance(1, 5) && len(from.Tables) > 0 && len(to.Tables) > 0 {
			c.wildTable(id, from, to, mask)
			continue
		}
		c.one(id, "wild", "random pair", from, to, false, mask, nil, false)
	}
}

// wildTable runs TableDiff on the first tables of the two schemas (names may differ: error).
func (c *ctx) wildTable(id string, from, to Schema, mask int) {
	g1, g2 := build(c.p.dialect, from), build(c.p.dialect, to)
	t1, t2 := g1.Tables[0], g2.Tables[0]
	line := fmt.Sprintf("T %d %s %s", mask, tokSchema(g1), tokSchema(g2))
	cs, err, pan := c.tableDiff(t1, t2, mask)
	obs := showSubs(cs)
	if err != nil {
		obs = "err"
	}
	if pan != "" {
		obs = "panic"
		c.w.Violation(id, "panic", "["+c.p.dialect+"] TableDiff on a random pair panicked: "+pan)
	}
	c.w.Case(id, line, []string{obs})
	c.w.Count("class:wild-table")
	c.w.NonTrivial("wildT|" + line)
}
