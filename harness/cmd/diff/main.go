// Command diff is the harness of property C02 ("the diff is exact").
//
// It builds schema.* graphs from dialect-neutral specs (bases.go), derives edited copies
// from a catalogue of elementary edits (edits.go), runs the real differs
// sqlite.DefaultDiff / mysql.DefaultDiff / postgres.DefaultDiff in the comparison mode
// of the CLI (schema.DiffNormalized(), cmdapi_oss.go: diffOptions) and
//   - writes every SQLite case in the format ocaml/diff/driver.ml reads, with the change
//     list Go returned as the observation (the tie to the Coq model),
//   - evaluates the property on what Go returned (the oracle): one change per elementary
//     edit with exactly the required ChangeKind flags and nothing else; the diff with the
//     schema itself, with a deep copy, and with a reordered copy is empty.
package main

import (
	"flag"
	"fmt"
	"os"
	"sort"
	"strconv"
	"strings"

	"ariga.io/atlas/sql/mysql"
	"ariga.io/atlas/sql/postgres"
	"ariga.io/atlas/sql/schema"
	"ariga.io/atlas/sql/sqlite"

	"verifharness/internal/out"
	"verifharness/internal/rng"
)

type ctx struct {
	w      *out.W
	p      *profile
	differ schema.Differ
	tie    bool // write model cases (sqlite)
	r      *rng.R
	n      int
	lite   bool // connected MySQL variants: a sample of the classes (no skip / TableDiff variants, fewer shuffles and sets)
}

func main() {
	mode := flag.String("mode", "sqlite", "sqlite|mysql|mysql-my57|mysql-my80|mysql-maria|mysql-history|postgres|postgres-ns|postgres-history|cli|realm|tattrs|views|objects")
	tier := flag.String("tier", "quick", "quick|thorough")
	outDir := flag.String("out", "", "output directory")
	flag.Parse()
	if *outDir == "" {
		fmt.Fprintln(os.Stderr, "missing -out")
		os.Exit(2)
	}
	pm := *mode
	if pm == "realm" || pm == "tattrs" || pm == "views" || pm == "objects" {
		pm = "sqlite"
	}
	c := &ctx{w: out.New(*outDir), p: newProfile(pm), r: rng.FromEnv(0xC02)}
	if *mode == "objects" {
		// round 5: PostgreSQL enum objects (objects.go)
		c.objects(*tier == "thorough")
		c.w.Close()
		return
	}
	if *mode == "views" {
		// round 5: views (views.go)
		c.views(*tier == "thorough")
		c.w.Close()
		return
	}
	if *mode == "tattrs" {
		// round 5: table attributes of MySQL / PostgreSQL (tattrs.go)
		c.tattrs(*tier == "thorough")
		c.w.Close()
		return
	}
	if *mode == "realm" {
		// round 5: RealmDiff / schema attributes of all dialects in one stage (realm.go)
		c.realm(*tier == "thorough")
		c.w.Close()
		return
	}
	if *mode == "postgres-ns" {
		// the connection-backed PostgreSQL differ with a schema scope (conn.schema = "public")
		c.differ, c.tie = scopedPGDiffer("public"), true
		*mode = "postgres"
	}
	if *mode == "cli" {
		c.p = newProfile("sqlite")
		c.cli(*tier == "thorough")
		c.w.Close()
		return
	}
	if *mode == "mysql-history" || *mode == "postgres-history" {
		c.history(strings.TrimSuffix(*mode, "-history"), *tier == "thorough")
		c.w.Close()
		return
	}
	if strings.HasPrefix(*mode, "mysql-") {
		// the differ of a driver the real mysql.Open built over a fake server of the variant
		c.differ, c.tie, c.lite = openMy(c.p.variant), true, true
		*mode = "mysql"
	}
	switch *mode {
	case "sqlite":
		c.differ, c.tie = sqlite.DefaultDiff, true
	case "mysql":
		if c.differ == nil {
			c.differ = mysql.DefaultDiff
		}
		c.tie = true
	case "postgres":
		if c.differ == nil {
			c.differ = postgres.DefaultDiff
		}
		c.tie = true
	default:
		fmt.Fprintln(os.Stderr, "unknown mode")
		os.Exit(2)
	}
	tokDialect = *mode
	c.w.Rule = "a case is non-trivial when the differ returned at least one change, an error, or the pair differs in order only (perm); key = canonical case text"
	c.w.Exhaust = true
	thorough := *tier == "thorough"
	bs := bases(c.p)
	if c.p.scoped { // the scoped stage differs from "postgres" in typeChanged only: the two bases with the types
		bs = bs[:2]
	}
	c.w.Set("bases", len(bs))
	total := 0
	for bi, b := range bs {
		if c.lite && (bi == 1 || bi == 3 || bi == 6) {
			continue
		}
		cat := catalogue(c.p, b)
		total += len(cat)
		c.identity(bi, b, thorough)
		c.single(bi, b, cat)
		c.multi(bi, b, cat, thorough)
	}
	c.w.Set("catalogue_size", total)
	c.special()
	if !c.p.scoped {
		c.unnamed()
	}
	c.variantCases()
	if !c.p.scoped {
		c.numbers()
	}
	c.wild(thorough)
	c.w.Close()
}

// ---------------------------------------------------------------- running the real code

var skipProto = []struct {
	bit int
	c   schema.Change
	pre string
}{
	{1, &schema.AddTable{}, "+T("}, {2, &schema.DropTable{}, "-T("}, {4, &schema.ModifyTable{}, "~T("},
	{8, &schema.AddColumn{}, "+C("}, {16, &schema.DropColumn{}, "-C("}, {32, &schema.ModifyColumn{}, "~C("},
	{64, &schema.AddIndex{}, "+I("}, {128, &schema.DropIndex{}, "-I("}, {256, &schema.ModifyIndex{}, "~I("},
	{512, &schema.AddForeignKey{}, "+FK("}, {1024, &schema.DropForeignKey{}, "-FK("}, {2048, &schema.ModifyForeignKey{}, "~FK("},
	{4096, &schema.RenameConstraint{}, "RC("},
}

func opts(mask int) []schema.DiffOption {
	o := []schema.DiffOption{schema.DiffNormalized()}
	var sk []schema.Change
	for _, s := range skipProto {
		if mask&s.bit != 0 {
			sk = append(sk, s.c)
		}
	}
	if len(sk) > 0 {
		o = append(o, schema.DiffSkipChanges(sk...))
	}
	return o
}

// filterExp removes from the required changes those the skip mask suppresses.
func filterExp(exp []string, mask int) []string {
	var out []string
	for _, e := range exp {
		item := e
		if i := strings.Index(e, "/"); i >= 0 && !strings.HasPrefix(e, "+T(") && !strings.HasPrefix(e, "-T(") {
			if mask&4 != 0 {
				continue
			}
			item = e[i+1:]
		}
		skip := false
		for _, s := range skipProto {
			if mask&s.bit != 0 && strings.HasPrefix(item, s.pre) {
				skip = true
			}
		}
		if !skip {
			out = append(out, e)
		}
	}
	return out
}

func (c *ctx) schemaDiff(from, to *schema.Schema, mask int) (cs []schema.Change, err error, pan string) {
	defer func() {
		if r := recover(); r != nil {
			pan = fmt.Sprint(r)
		}
	}()
	cs, err = c.differ.SchemaDiff(from, to, opts(mask)...)
	return
}

func (c *ctx) tableDiff(from, to *schema.Table, mask int) (cs []schema.Change, err error, pan string) {
	defer func() {
		if r := recover(); r != nil {
			pan = fmt.Sprint(r)
		}
	}()
	cs, err = c.differ.TableDiff(from, to, opts(mask)...)
	return
}

// one runs SchemaDiff(build(from), build(to)) (alias: the same graph on both sides),
// records the case and evaluates the oracle.
func (c *ctx) one(id, class, desc string, from, to Schema, alias bool, mask int, exp []string, oracle bool, edits ...*Edit) {
	c.oneAlt(id, class, desc, from, to, alias, mask, [][]string{exp}, oracle, edits...)
}

// oneAlt is one with several acceptable required change lists (the property leaves open
// which of several indistinguishable objects is the dropped / added one): the differ's
// answer must be one of them; a violation is reported against the first.
func (c *ctx) oneAlt(id, class, desc string, from, to Schema, alias bool, mask int, alts [][]string, oracle bool, edits ...*Edit) {
	g1 := build(c.p.dialect, from)
	g2 := g1
	if !alias {
		g2 = build(c.p.dialect, to)
	}
	line := ""
	if c.tie && !alias && expressible(c.p.dialect, from, to) {
		line = "S " + strconv.Itoa(mask) + " " + tokSchema(g1) + " " + tokSchema(g2)
	}
	cs, err, pan := c.schemaDiff(g1, g2, mask)
	obs := showSchemaChanges(cs, err)
	if pan != "" {
		obs = "panic"
	}
	if line != "" {
		c.w.Case(id, line, []string{obs})
	} else {
		c.w.ImplOnly(id, desc+" => "+obs)
	}
	c.w.Count("class:" + class)
	if obs != "[]" || class == "perm" {
		key := desc
		if line != "" {
			key = line
		}
		c.w.NonTrivial(class + "|" + key + "|" + obs)
	}
	if pan != "" {
		c.w.Violation(id, "panic", fmt.Sprintf("[%s] %s: differ panicked: %s", c.p.dialect, desc, pan))
		return
	}
	if !oracle {
		return
	}
	if err == nil {
		got := strings.Join(flat(cs), "\x00")
		for _, a := range alts[1:] {
			want := append([]string(nil), filterExp(a, mask)...)
			sort.Strings(want)
			if got == strings.Join(want, "\x00") {
				return
			}
		}
	}
	c.judge(id, class, desc, cs, err, filterExp(alts[0], mask), edits)
}

// judge compares what Go returned with the changes the property requires.
func (c *ctx) judge(id, class, desc string, cs []schema.Change, err error, exp []string, edits []*Edit) {
	if err != nil {
		c.w.Violation(id, "error", fmt.Sprintf("[%s] %s %s: differ returned an error: %v", c.p.dialect, class, desc, err))
		return
	}
	got := flat(cs)
	want := append([]string(nil), exp...)
	sort.Strings(want)
	if strings.Join(got, "\x00") == strings.Join(want, "\x00") {
		return
	}
	missing, spurious := msetDiff(want, got), msetDiff(got, want)
	cls := "mismatch"
	switch {
	case len(want) == 0:
		cls = "nonempty-" + class
	case len(missing) > 0 && len(spurious) == 0:
		cls = "missing-change"
	case len(missing) == 0 && len(spurious) > 0:
		cls = "spurious-change"
	case len(missing) == len(spurious) && sameObjects(missing, spurious):
		cls = "wrong-flags"
	}
	// signature: the edits whose required change is missing, and the changes nobody asked for
	var sig []string
	seen := map[string]bool{}
	for _, m := range missing {
		who := "?"
		for _, e := range edits {
			if hasStr(e.Exp, m) {
				who = e.Sig
			}
		}
		if x := "missing:" + who; !seen[x] {
			seen[x] = true
			sig = append(sig, x)
		}
	}
	for _, x := range spurious {
		if i := strings.Index(x, "/"); i >= 0 {
			x = x[i+1:]
		}
		if x = "spurious:" + x; !seen[x] {
			seen[x] = true
			sig = append(sig, x)
		}
	}
	sort.Strings(sig)
	c.w.Violation(id, cls, fmt.Sprintf("[%s] %s %s: required %v, differ returned %v (missing %v, not required %v) sig=<%s>", c.p.dialect, class, desc, want, got, missing, spurious, strings.Join(sig, ";")))
}

func msetDiff(a, b []string) []string {
	m := map[string]int{}
	for _, x := range b {
		m[x]++
	}
	var out []string
	for _, x := range a {
		if m[x] > 0 {
			m[x]--
		} else {
			out = append(out, x)
		}
	}
	return out
}

// sameObjects: the two lists name the same objects and kinds, differing only after ':' (the flags).
func sameObjects(a, b []string) bool {
	strip := func(l []string) string {
		var o []string
		for _, x := range l {
			if i := strings.LastIndex(x, ":"); i >= 0 {
				x = x[:i]
			}
			o = append(o, x)
		}
		sort.Strings(o)
		return strings.Join(o, "\x00")
	}
	return strip(a) == strip(b)
}

// ---------------------------------------------------------------- case classes

func (c *ctx) id(class string, bi int) string {
	c.n++
	return fmt.Sprintf("%s-b%d-%d", class, bi, c.n)
}

// shuffle reorders every list of the spec (tables, columns, indexes, parts slices,
// foreign keys, checks); the objects themselves, SeqNo included, stay.
func (c *ctx) shuffle(s Schema) Schema {
	d := s.clone()
	r := c.r
	sh := func(n int, swap func(i, j int)) {
		for i := n - 1; i > 0; i-- {
			swap(i, r.Intn(i+1))
		}
	}
	sh(len(d.Tables), func(i, j int) { d.Tables[i], d.Tables[j] = d.Tables[j], d.Tables[i] })
	for ti := range d.Tables {
		t := &d.Tables[ti]
		sh(len(t.Cols), func(i, j int) { t.Cols[i], t.Cols[j] = t.Cols[j], t.Cols[i] })
		sh(len(t.Idx), func(i, j int) { t.Idx[i], t.Idx[j] = t.Idx[j], t.Idx[i] })
		sh(len(t.FKs), func(i, j int) { t.FKs[i], t.FKs[j] = t.FKs[j], t.FKs[i] })
		sh(len(t.Checks), func(i, j int) { t.Checks[i], t.Checks[j] = t.Checks[j], t.Checks[i] })
		for ii := range t.Idx {
			ps := t.Idx[ii].Parts
			sh(len(ps), func(i, j int) { ps[i], ps[j] = ps[j], ps[i] })
		}
		if t.PK != nil {
			ps := t.PK.Parts
			sh(len(ps), func(i, j int) { ps[i], ps[j] = ps[j], ps[i] })
		}
	}
	return d
}

func reverse(s Schema) Schema {
	d := s.clone()
	rv := func(n int, swap func(i, j int)) {
		for i, j := 0, n-1; i < j; i, j = i+1, j-1 {
			swap(i, j)
		}
	}
	rv(len(d.Tables), func(i, j int) { d.Tables[i], d.Tables[j] = d.Tables[j], d.Tables[i] })
	for ti := range d.Tables {
		t := &d.Tables[ti]
		rv(len(t.Cols), func(i, j int) { t.Cols[i], t.Cols[j] = t.Cols[j], t.Cols[i] })
		rv(len(t.Idx), func(i, j int) { t.Idx[i], t.Idx[j] = t.Idx[j], t.Idx[i] })
		rv(len(t.FKs), func(i, j int) { t.FKs[i], t.FKs[j] = t.FKs[j], t.FKs[i] })
		rv(len(t.Checks), func(i, j int) { t.Checks[i], t.Checks[j] = t.Checks[j], t.Checks[i] })
	}
	return d
}

// seqParts gives every part its position as SeqNo (the builders of bases/edits may leave 0).
func seqParts(s *Schema) {
	for ti := range s.Tables {
		t := &s.Tables[ti]
		for ii := range t.Idx {
			for k := range t.Idx[ii].Parts {
				t.Idx[ii].Parts[k].Seq = k
			}
		}
		if t.PK != nil {
			for k := range t.PK.Parts {
				t.PK.Parts[k].Seq = k
			}
		}
	}
}

func (c *ctx) identity(bi int, b Schema, thorough bool) {
	seqParts(&b)
	c.one(c.id("self", bi), "self", "the schema with itself", b, b, true, 0, nil, true)
	c.one(c.id("copy", bi), "copy", "the schema with a deep copy", b, b, false, 0, nil, true)
	c.one(c.id("perm", bi), "perm", "the schema with all lists reversed", b, reverse(b), false, 0, nil, true)
	c.one(c.id("perm", bi), "perm", "reversed schema with the schema", reverse(b), b, false, 0, nil, true)
	n := 40
	if thorough {
		n = 600
	}
	if c.lite {
		n /= 5
	}
	for i := 0; i < n; i++ {
		c.one(c.id("perm", bi), "perm", "the schema with a shuffled copy", b, c.shuffle(b), false, 0, nil, true)
	}
	for i := 0; i < n/4; i++ {
		c.one(c.id("perm", bi), "perm", "two shuffled copies", c.shuffle(b), c.shuffle(b), false, 0, nil, true)
	}
}

func tagOf(exp []string) int {
	m := 0
	for _, e := range exp {
		item := e
		if i := strings.Index(e, "/"); i >= 0 && !strings.HasPrefix(e, "+T(") && !strings.HasPrefix(e, "-T(") {
			item = e[i+1:]
		}
		for _, s := range skipProto {
			if strings.HasPrefix(item, s.pre) {
				m |= s.bit
			}
		}
	}
	return m
}

func (c *ctx) single(bi int, b Schema, cat []Edit) {
	seqParts(&b)
	for ei := range cat {
		e := &cat[ei]
		to := b.clone()
		e.Apply(&to)
		seqParts(&to)
		class := "edit1"
		if e.NonEdit {
			class = "nonedit"
		}
		c.w.Count("edit:" + e.Kind)
		c.one(c.id(class, bi), class, e.Desc, b, to, false, 0, e.Exp, true, e)
		c.one(c.id(class+"p", bi), class, e.Desc+" (lists shuffled)", c.shuffle(b), c.shuffle(to), false, 0, e.Exp, true, e)
		if c.lite {
			continue
		}
		if m := tagOf(e.Exp); m != 0 {
			c.one(c.id("skip", bi), "skip", e.Desc+" (its kind skipped)", b, to, false, m, e.Exp, true, e)
			c.one(c.id("skip", bi), "skip", e.Desc+" (all other kinds skipped)", b, to, false, (8191&^m)&^4, e.Exp, true, e)
		}
		// TableDiff on the edited table alone
		if len(e.Exp) == 1 && strings.Contains(e.Exp[0], "/") && !strings.HasPrefix(e.Exp[0], "+T(") && !strings.HasPrefix(e.Exp[0], "-T(") {
			tn := e.Exp[0][:strings.Index(e.Exp[0], "/")]
			c.tableCase(c.id("tdiff", bi), e.Desc, b, to, tn, e.Exp, e)
		}
	}
}

func (c *ctx) tableCase(id, desc string, from, to Schema, tn string, exp []string, e *Edit) {
	c.tableCaseAlt(id, desc, from, to, tn, [][]string{exp}, []*Edit{e})
}

func (c *ctx) tableCaseAlt(id, desc string, from, to Schema, tn string, alts [][]string, edits []*Edit) {
	g1, g2 := build(c.p.dialect, from), build(c.p.dialect, to)
	t1, ok1 := g1.Table(tn)
	t2, ok2 := g2.Table(tn)
	if !ok1 || !ok2 {
		return
	}
	line := ""
	if c.tie && expressible(c.p.dialect, from, to) {
		w1 := []string{hx(g1.Name), "1"}
		tokTable(t1, &w1)
		w2 := []string{hx(g2.Name), "1"}
		tokTable(t2, &w2)
		line = "T 0 " + strings.Join(w1, " ") + " " + strings.Join(w2, " ")
	}
	cs, err, pan := c.tableDiff(t1, t2, 0)
	obs := showSubs(cs)
	if err != nil {
		obs = "err"
	}
	if pan != "" {
		obs = "panic"
	}
	if line != "" {
		c.w.Case(id, line, []string{obs})
	} else {
		c.w.ImplOnly(id, desc+" => "+obs)
	}
	c.w.Count("class:tdiff")
	c.w.NonTrivial("tdiff|" + desc + "|" + obs)
	if pan != "" {
		c.w.Violation(id, "panic", fmt.Sprintf("[%s] TableDiff %s: differ panicked: %s", c.p.dialect, desc, pan))
		return
	}
	var wrapped []schema.Change
	if len(cs) > 0 {
		wrapped = []schema.Change{&schema.ModifyTable{T: t2, Changes: cs}}
	}
	if err == nil {
		got := strings.Join(flat(wrapped), "\x00")
		for _, a := range alts[1:] {
			want := append([]string(nil), a...)
			sort.Strings(want)
			if got == strings.Join(want, "\x00") {
				return
			}
		}
	}
	c.judge(id, "tdiff", "TableDiff "+desc, wrapped, err, alts[0], edits)
}

func (c *ctx) multi(bi int, b Schema, cat []Edit, thorough bool) {
	seqParts(&b)
	n := 900
	if thorough {
		n = 12000
	}
	if c.p.scoped {
		n /= 3
	}
	if c.lite {
		n /= 6
	}
	var real []int
	for i := range cat {
		real = append(real, i)
	}
	for k := 0; k < n; k++ {
		want := 2 + c.r.Intn(5)
		var pick []*Edit
		for tries := 0; len(pick) < want && tries < 40; tries++ {
			e := &cat[real[c.r.Intn(len(real))]]
			ok := true
			for _, q := range pick {
				if q == e || conflict(q, e) {
					ok = false
					break
				}
			}
			if ok {
				pick = append(pick, e)
			}
		}
		to := b.clone()
		var exp, ds []string
		for _, e := range pick {
			e.Apply(&to)
			exp = append(exp, e.Exp...)
			ds = append(ds, e.Desc)
		}
		seqParts(&to)
		from := b
		if c.r.Chance(1, 2) {
			from, to = c.shuffle(from), c.shuffle(to)
		}
		mask := 0
		if c.r.Chance(1, 5) {
			mask = int(c.r.U64()&8191) &^ 4
			if c.r.Chance(1, 8) {
				mask |= 4
			}
		}
		c.w.Count(fmt.Sprintf("multi:%d-edits", len(pick)))
		c.one(c.id("editN", bi), "editN", strings.Join(ds, " + "), from, to, false, mask, exp, true, pick...)
	}
}

// expressible: the pair differs in nothing the MySQL/PostgreSQL models have no field for
// (table attributes other than checks, ENFORCED / NO INHERIT of checks); see DiffDialects.v.
func expressible(dialect string, from, to Schema) bool {
	if dialect == "sqlite" {
		return true
	}
	if !sameTableNames(from, to) {
		// lower_case_table_names: the model looks tables up by their exact name
		return false
	}
	eq := func(a, b *string) bool { return (a == nil) == (b == nil) && (a == nil || *a == *b) }
	for _, t := range from.Tables {
		u := to.table(t.Name)
		if u == nil {
			continue
		}
		if !eq(t.Comment, u.Comment) || !eq(t.Charset, u.Charset) || !eq(t.Collation, u.Collation) || !eq(t.Engine, u.Engine) || t.AutoInc != u.AutoInc {
			return false
		}
	}
	flags := func(s Schema) bool {
		for _, t := range s.Tables {
			for _, k := range t.Checks {
				if k.NotEnforced || k.NoInherit {
					return true
				}
			}
		}
		return false
	}
	return !flags(from) && !flags(to)
}

// sameTableNames: no table of one side has a counterpart on the other whose name differs in
// case only (MySQL with lower_case_table_names != 0 pairs them; the model does not).
func sameTableNames(from, to Schema) bool {
	for _, t := range from.Tables {
		if to.table(t.Name) != nil {
			continue
		}
		for _, u := range to.Tables {
			if strings.EqualFold(t.Name, u.Name) {
				return false
			}
		}
	}
	return true
}
