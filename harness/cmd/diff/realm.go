// Round 5, stage `realm`: the realm level of the differs -- Differ.RealmDiff (AddSchema /
// DropSchema / ModifySchema, the tables of an added schema, the table changes of kept schemas)
// and the schema-attribute part of SchemaDiff (MySQL charset / collation with the realm's
// attributes as the inherited ones, PostgreSQL comments with the auto-created comment of
// "public") -- for sqlite.DefaultDiff, mysql.DefaultDiff, postgres.DefaultDiff and the
// connection-backed PostgreSQL differ with the schema scope "public" (fakepg.go).
//
// Every case is written for the model (coq/theories/Diff/DiffRealm.v, `model_diff realm`):
//
//	<id> R|X <dialect> <mask> <realm> <realm>       R = RealmDiff, X = SchemaDiff of the first schemas
//	realm  = <charset|~> <collation|~> <n> { <charset|~> <collation|~> <comment|~> <schema> }
//
// and judged by the oracle on what Go returned: the required list of a case is the union of
// what its elementary edits require (recipe), filtered by the skip mask kind by kind.
package main

import (
	"fmt"
	"reflect"
	"sort"
	"strconv"
	"strings"

	"ariga.io/atlas/sql/mysql"
	"ariga.io/atlas/sql/postgres"
	"ariga.io/atlas/sql/schema"
	"ariga.io/atlas/sql/sqlite"
)

type (
	SchemaX struct {
		S                           Schema
		Charset, Collation, Comment *string
	}
	RealmSpec struct {
		Charset, Collation *string
		Schemas            []SchemaX
	}
	// REdit is an elementary edit at realm level; it may prepare the current state too
	// (attribute edits choose the current value).
	REdit struct {
		Kind, Desc string
		Keys       []string // what it touches (conflicts)
		From, To   func(*RealmSpec)
		Exp        []string
		Judge      bool
	}
)

func (r RealmSpec) clone() RealmSpec {
	d := RealmSpec{Charset: cpS(r.Charset), Collation: cpS(r.Collation)}
	for _, s := range r.Schemas {
		d.Schemas = append(d.Schemas, SchemaX{S: s.S.clone(), Charset: cpS(s.Charset), Collation: cpS(s.Collation), Comment: cpS(s.Comment)})
	}
	return d
}

func (r *RealmSpec) schema(n string) *SchemaX {
	for i := range r.Schemas {
		if r.Schemas[i].S.Name == n {
			return &r.Schemas[i]
		}
	}
	return nil
}

func buildRealm(dialect string, r RealmSpec, link bool) *schema.Realm {
	out := &schema.Realm{}
	if r.Charset != nil {
		out.Attrs = append(out.Attrs, &schema.Charset{V: *r.Charset})
	}
	if r.Collation != nil {
		out.Attrs = append(out.Attrs, &schema.Collation{V: *r.Collation})
	}
	for _, sx := range r.Schemas {
		s := build(dialect, sx.S)
		if sx.Charset != nil {
			s.Attrs = append(s.Attrs, &schema.Charset{V: *sx.Charset})
		}
		if sx.Collation != nil {
			s.Attrs = append(s.Attrs, &schema.Collation{V: *sx.Collation})
		}
		if sx.Comment != nil {
			s.Attrs = append(s.Attrs, &schema.Comment{Text: *sx.Comment})
		}
		if link {
			s.Realm = out
		}
		out.Schemas = append(out.Schemas, s)
	}
	return out
}

func tokAttrs(attrs []schema.Attr, comment bool) []string {
	var (
		cs schema.Charset
		co schema.Collation
		cm schema.Comment
	)
	w := []string{optTok(hasAttr(attrs, &cs), cs.V), optTok(hasAttr(attrs, &co), co.V)}
	if comment {
		w = append(w, optTok(hasAttr(attrs, &cm), cm.Text))
	}
	return w
}

func tokRealm(r *schema.Realm, top bool) string {
	w := []string{"~", "~"}
	if top {
		w = tokAttrs(r.Attrs, false)
	}
	w = append(w, strconv.Itoa(len(r.Schemas)))
	for _, s := range r.Schemas {
		w = append(w, tokAttrs(s.Attrs, true)...)
		w = append(w, tokSchema(s))
	}
	return strings.Join(w, " ")
}

func attrVal(a schema.Attr) string {
	switch a := a.(type) {
	case *schema.Charset:
		return a.V
	case *schema.Collation:
		return a.V
	case *schema.Comment:
		return a.Text
	}
	return "?" + reflect.TypeOf(a).String()
}

func showSAttr(c schema.Change) string {
	switch c := c.(type) {
	case *schema.AddAttr:
		return fmt.Sprintf("+A(%d:%s)", attrID(c.A), hx(attrVal(c.A)))
	case *schema.ModifyAttr:
		return fmt.Sprintf("~A(%d:%s>%s)", attrID(c.From), hx(attrVal(c.From)), hx(attrVal(c.To)))
	}
	return "?" + reflect.TypeOf(c).String()
}

func tblSchema(t *schema.Table) string {
	if t.Schema == nil {
		return "<nil>"
	}
	return t.Schema.Name
}

// showRChanges: the result in Go's order (the text ocaml/diff/driver.ml: show_rchange prints).
func showRChanges(cs []schema.Change, err error) string {
	if err != nil {
		return "err"
	}
	if len(cs) == 0 {
		return "[]"
	}
	ss := make([]string, len(cs))
	for i, c := range cs {
		switch c := c.(type) {
		case *schema.AddSchema:
			ss[i] = "+S(" + c.S.Name + ")"
		case *schema.DropSchema:
			ss[i] = "-S(" + c.S.Name + ")"
		case *schema.ModifySchema:
			var a []string
			for _, x := range c.Changes {
				a = append(a, showSAttr(x))
			}
			ss[i] = "~S(" + c.S.Name + "){" + strings.Join(a, ",") + "}"
		case *schema.AddTable:
			ss[i] = tblSchema(c.T) + "/" + showSChange(c)
		case *schema.DropTable:
			ss[i] = tblSchema(c.T) + "/" + showSChange(c)
		case *schema.ModifyTable:
			ss[i] = tblSchema(c.T) + "/" + showSChange(c)
		default:
			ss[i] = "?" + reflect.TypeOf(c).String()
		}
	}
	return strings.Join(ss, ";")
}

// flatR: the sorted items the oracle compares: +S(n), -S(n), n/@/<attr change>, n/+T(t),
// n/-T(t), n/t/<change>.
func flatR(cs []schema.Change) []string {
	var out []string
	for _, c := range cs {
		switch c := c.(type) {
		case *schema.AddSchema:
			out = append(out, "+S("+c.S.Name+")")
		case *schema.DropSchema:
			out = append(out, "-S("+c.S.Name+")")
		case *schema.ModifySchema:
			if len(c.Changes) == 0 {
				out = append(out, c.S.Name+"/@/<empty ModifySchema>")
			}
			for _, x := range c.Changes {
				out = append(out, c.S.Name+"/@/"+showSAttr(x))
			}
		case *schema.AddTable:
			out = append(out, tblSchema(c.T)+"/"+showSChange(c))
		case *schema.DropTable:
			out = append(out, tblSchema(c.T)+"/"+showSChange(c))
		case *schema.ModifyTable:
			if len(c.Changes) == 0 {
				out = append(out, tblSchema(c.T)+"/"+c.T.Name+"/<empty ModifyTable>")
			}
			for _, s := range c.Changes {
				out = append(out, tblSchema(c.T)+"/"+c.T.Name+"/"+showChange(s))
			}
		default:
			out = append(out, "?"+reflect.TypeOf(c).String())
		}
	}
	sort.Strings(out)
	return out
}

const (
	mAddSchema    = 8192
	mDropSchema   = 16384
	mModifySchema = 32768
)

func optsR(mask int) []schema.DiffOption {
	o := []schema.DiffOption{schema.DiffNormalized()}
	var sk []schema.Change
	for _, s := range skipProto {
		if mask&s.bit != 0 {
			sk = append(sk, s.c)
		}
	}
	if mask&mAddSchema != 0 {
		sk = append(sk, &schema.AddSchema{})
	}
	if mask&mDropSchema != 0 {
		sk = append(sk, &schema.DropSchema{})
	}
	if mask&mModifySchema != 0 {
		sk = append(sk, &schema.ModifySchema{})
	}
	if len(sk) > 0 {
		o = append(o, schema.DiffSkipChanges(sk...))
	}
	return o
}

// kindsR: the skip bits that suppress a required item (any of them does).
func kindsR(item string) int {
	switch {
	case strings.HasPrefix(item, "+S("):
		return mAddSchema
	case strings.HasPrefix(item, "-S("):
		return mDropSchema
	case strings.Contains(item, "/@/"):
		return mModifySchema
	}
	f := strings.SplitN(item, "/", 3)
	if len(f) == 2 {
		if strings.HasPrefix(f[1], "+T(") {
			return 1
		}
		return 2
	}
	m := 4
	for _, s := range skipProto {
		if strings.HasPrefix(f[2], s.pre) {
			m |= s.bit
		}
	}
	return m
}

func filterExpR(exp []string, mask int) []string {
	var out []string
	for _, e := range exp {
		if kindsR(e)&mask == 0 {
			out = append(out, e)
		}
	}
	return out
}

type rctx struct {
	*ctx
	dialect string // token of the case line: sqlite | mysql | postgres | postgres-ns
	differ  schema.Differ
}

func (c *rctx) run(op string, g1, g2 *schema.Realm, mask int) (cs []schema.Change, err error, pan string) {
	defer func() {
		if r := recover(); r != nil {
			pan = fmt.Sprint(r)
		}
	}()
	if op == "R" {
		cs, err = c.differ.RealmDiff(g1, g2, optsR(mask)...)
	} else {
		cs, err = c.differ.SchemaDiff(g1.Schemas[0], g2.Schemas[0], optsR(mask)...)
	}
	return
}

// one realm case.  link: the schemas point at their realm (from.Realm != nil).
func (c *rctx) one(class, op, desc string, from, to RealmSpec, alias, link bool, mask int, exp []string, judge bool) {
	id := c.id("realm-"+class, 0)
	g1 := buildRealm(c.p.dialect, from, link)
	g2 := g1
	if !alias {
		g2 = buildRealm(c.p.dialect, to, link)
	}
	line := ""
	if !alias {
		line = op + " " + c.dialect + " " + strconv.Itoa(mask) + " " + tokRealm(g1, link) + " " + tokRealm(g2, link)
	}
	cs, err, pan := c.run(op, g1, g2, mask)
	obs := showRChanges(cs, err)
	if pan != "" {
		obs = "panic"
	}
	if line != "" {
		c.w.Case(id, line, []string{obs})
	} else {
		c.w.ImplOnly(id, desc+" => "+obs)
	}
	c.w.Count("class:" + class)
	c.w.Count("dialect:" + c.dialect)
	if obs != "[]" || class == "perm" {
		c.w.NonTrivial(class + "|" + c.dialect + "|" + op + "|" + strconv.Itoa(mask) + "|" + desc + "|" + obs)
	}
	head := fmt.Sprintf("[%s] realm %s %s %s (skip mask %d)", c.dialect, op, class, desc, mask)
	if pan != "" {
		c.w.Violation(id, "realm-panic", head+": differ panicked: "+pan)
		return
	}
	if !judge {
		return
	}
	if err != nil {
		c.w.Violation(id, "realm-error", head+": differ returned an error: "+err.Error())
		return
	}
	got := flatR(cs)
	want := append([]string(nil), filterExpR(exp, mask)...)
	sort.Strings(want)
	if strings.Join(got, "\x00") == strings.Join(want, "\x00") {
		return
	}
	missing, spurious := msetDiff(want, got), msetDiff(got, want)
	cls := "realm-mismatch"
	switch {
	case len(want) == 0:
		cls = "realm-nonempty-" + class
	case len(missing) > 0 && len(spurious) == 0:
		cls = "realm-missing-change"
	case len(missing) == 0 && len(spurious) > 0:
		cls = "realm-spurious-change"
	}
	c.w.Violation(id, cls, fmt.Sprintf("%s: required %v, differ returned %v (missing %v, not required %v)", head, want, got, missing, spurious))
}

// reqMyAttr: what removing / adding / changing a MySQL schema charset or collation requires.
// A value removed from the desired schema means "the realm's": reported (as a change to the
// realm's value) only when the realm declares one and it differs.
func reqMyAttr(name string, id int, from, top, to *string) []string {
	switch {
	case from == nil && to == nil:
		return nil
	case from == nil:
		return []string{fmt.Sprintf("%s/@/+A(%d:%s)", name, id, hx(*to))}
	case to == nil:
		if top != nil && *top != *from {
			return []string{fmt.Sprintf("%s/@/~A(%d:%s>%s)", name, id, hx(*from), hx(*top))}
		}
		return nil
	case *from != *to:
		return []string{fmt.Sprintf("%s/@/~A(%d:%s>%s)", name, id, hx(*from), hx(*to))}
	}
	return nil
}

const stdPublic = "standard public schema"

// reqPGComment: an empty comment is no comment, a quoted text is its content; the comment
// PostgreSQL creates for "public" is not the user's (connection-less differ: the schema called
// public; with a schema scope: the schema diffed, whatever its name).
func reqPGComment(name string, scoped bool, from, to *string) []string {
	norm := func(p *string) (string, bool) {
		if p == nil {
			return "", false
		}
		if *p == stdPublic && (scoped || name == "public" || name == "") {
			return "", false
		}
		v := *p
		if len(v) >= 2 && v[0] == '\'' && v[len(v)-1] == '\'' {
			v = strings.ReplaceAll(v[1:len(v)-1], "''", "'")
		}
		return v, true
	}
	f, fok := norm(from)
	t, tok := norm(to)
	raw := func(p *string) string {
		if p == nil {
			return ""
		}
		return *p
	}
	switch {
	case !fok && (!tok || t == ""):
		return nil
	case !fok:
		return []string{fmt.Sprintf("%s/@/+A(3:%s)", name, hx(raw(to)))}
	case !tok:
		return []string{fmt.Sprintf("%s/@/~A(3:%s>%s)", name, hx(raw(from)), hx(""))}
	case f != t:
		return []string{fmt.Sprintf("%s/@/~A(3:%s>%s)", name, hx(raw(from)), hx(raw(to)))}
	}
	return nil
}

func showP(p *string) string {
	if p == nil {
		return "<none>"
	}
	return strconv.Quote(*p)
}

func (c *ctx) realm(thorough bool) {
	c.w.Rule = "a realm case is non-trivial when the differ returned at least one change or an error, or the pair differs in order only (perm); key = dialect, operation, skip mask, recipe, answer"
	c.w.Exhaust = true
	for _, d := range []string{"sqlite", "mysql", "postgres", "postgres-ns"} {
		p := newProfile(d)
		rc := &rctx{ctx: &ctx{w: c.w, p: p, r: c.r, n: c.n}, dialect: d}
		switch d {
		case "sqlite":
			rc.differ = sqlite.DefaultDiff
		case "mysql":
			rc.differ = mysql.DefaultDiff
		case "postgres":
			rc.differ = postgres.DefaultDiff
		case "postgres-ns":
			rc.differ = scopedPGDiffer("public")
		}
		tokDialect = p.dialect
		rc.cases(thorough)
		c.n = rc.n
	}
}

func (c *rctx) shuffleR(r RealmSpec) RealmSpec {
	d := r.clone()
	for i := len(d.Schemas) - 1; i > 0; i-- {
		j := c.r.Intn(i + 1)
		d.Schemas[i], d.Schemas[j] = d.Schemas[j], d.Schemas[i]
	}
	for i := range d.Schemas {
		d.Schemas[i].S = c.shuffle(d.Schemas[i].S)
	}
	return d
}

func (c *rctx) cases(thorough bool) {
	p := c.p
	bs := bases(p)
	named := func(s Schema, n string, tabs int) Schema {
		d := s.clone()
		d.Name = n
		if tabs >= 0 && tabs < len(d.Tables) {
			d.Tables = d.Tables[:tabs]
			// foreign keys to tables cut off would point outside the schema: drop them
			for ti := range d.Tables {
				var keep []FK
				for _, f := range d.Tables[ti].FKs {
					if d.table(f.RefTable) != nil {
						keep = append(keep, f)
					}
				}
				d.Tables[ti].FKs = keep
			}
		}
		seqParts(&d)
		return d
	}
	third := "aux"
	if p.dialect == "postgres" {
		third = "public"
	}
	base := RealmSpec{Schemas: []SchemaX{{S: named(bs[0], "app", -1)}, {S: named(bs[2], "shop", -1)}, {S: named(bs[0], third, 1)}}}
	tops := [][2]*string{{nil, nil}}
	csA, csB, coA, coB := "utf8mb4", "latin1", "utf8mb4_0900_ai_ci", "latin1_swedish_ci"
	if p.dialect == "mysql" {
		tops = [][2]*string{{nil, nil}, {&csA, &coA}, {&csB, &coB}}
	}
	newTab := named(bs[1], "x", -1).Tables[0]
	for ti, top := range tops {
		b := base.clone()
		b.Charset, b.Collation = cpS(top[0]), cpS(top[1])
		topDesc := ""
		if p.dialect == "mysql" {
			topDesc = fmt.Sprintf(" [realm charset %s collation %s]", showP(top[0]), showP(top[1]))
		}
		// ---------------------------------------------------------- no difference
		c.one("self", "R", "the realm with itself"+topDesc, b, b, true, true, 0, nil, true)
		c.one("copy", "R", "the realm with a deep copy"+topDesc, b, b, false, true, 0, nil, true)
		rev := b.clone()
		for i, j := 0, len(rev.Schemas)-1; i < j; i, j = i+1, j-1 {
			rev.Schemas[i], rev.Schemas[j] = rev.Schemas[j], rev.Schemas[i]
		}
		c.one("perm", "R", "schemas listed in reverse"+topDesc, b, rev, false, true, 0, nil, true)
		nperm := 6
		if thorough {
			nperm = 60
		}
		for i := 0; i < nperm; i++ {
			c.one("perm", "R", "schemas, tables and all lists shuffled"+topDesc, c.shuffleR(b), c.shuffleR(b), false, true, 0, nil, true)
		}
		if ti > 0 {
			// the desired realm declares other attributes: RealmDiff has no change for that
			o := b.clone()
			o.Charset, o.Collation = cpS(tops[3-ti][0]), cpS(tops[3-ti][1])
			c.one("nonedit", "R", "realm attributes differ, schemas without attributes"+topDesc, b, o, false, true, 0, nil, false)
		}
		// ---------------------------------------------------------- catalogue
		var cat []REdit
		add := func(e REdit) { cat = append(cat, e) }
		for _, sx := range b.Schemas {
			n := sx.S.Name
			add(REdit{Kind: "drop-schema", Desc: "drop schema " + n, Keys: []string{n}, Judge: true,
				To: func(r *RealmSpec) {
					var keep []SchemaX
					for _, s := range r.Schemas {
						if s.S.Name != n {
							keep = append(keep, s)
						}
					}
					r.Schemas = keep
				}, Exp: []string{"-S(" + n + ")"}})
		}
		for k := 0; k <= 2; k++ {
			for front := 0; front < 2; front++ {
				k, front := k, front
				nm := fmt.Sprintf("zeta%d%d", k, front)
				ns := named(bs[0], nm, k)
				exp := []string{"+S(" + nm + ")"}
				for _, t := range ns.Tables {
					exp = append(exp, nm+"/+T("+t.Name+")")
				}
				add(REdit{Kind: "add-schema", Desc: fmt.Sprintf("add schema %s with %d table(s)", nm, k), Keys: []string{nm}, Judge: true,
					To: func(r *RealmSpec) {
						x := SchemaX{S: ns.clone()}
						if p.dialect == "mysql" && k == 1 {
							x.Charset, x.Collation = &csB, &coB
						}
						if p.dialect == "postgres" && k == 1 {
							x.Comment = sp("new schema")
						}
						if front == 1 {
							r.Schemas = append([]SchemaX{x}, r.Schemas...)
						} else {
							r.Schemas = append(r.Schemas, x)
						}
					}, Exp: exp})
			}
		}
		for si := 0; si < 2; si++ {
			n := b.Schemas[si].S.Name
			t0 := b.Schemas[si].S.Tables[0].Name
			last := b.Schemas[si].S.Tables[len(b.Schemas[si].S.Tables)-1].Name
			add(REdit{Kind: "add-table", Desc: "add table " + newTab.Name + " to " + n, Keys: []string{n + "." + newTab.Name}, Judge: true,
				To: func(r *RealmSpec) { s := r.schema(n); s.S.Tables = append(s.S.Tables, newTab.clone()) }, Exp: []string{n + "/+T(" + newTab.Name + ")"}})
			add(REdit{Kind: "add-column", Desc: "add column zz_new to " + n + "." + t0, Keys: []string{n + "." + t0}, Judge: true,
				To: func(r *RealmSpec) {
					t := r.schema(n).S.table(t0)
					t.Cols = append(t.Cols, Col{Name: "zz_new", Type: p.tInt, Null: true})
				}, Exp: []string{n + "/" + t0 + "/+C(zz_new)"}})
			if si == 0 {
				add(REdit{Kind: "drop-table", Desc: "drop table " + n + "." + last, Keys: []string{n + "." + last}, Judge: true,
					To: func(r *RealmSpec) {
						s := r.schema(n)
						var keep []Table
						for _, t := range s.S.Tables {
							if t.Name != last {
								keep = append(keep, t)
							}
						}
						s.S.Tables = keep
					}, Exp: []string{n + "/-T(" + last + ")"}})
			}
		}
		// schema attributes
		var attrEdits []REdit
		switch p.dialect {
		case "mysql":
			vals := []*string{nil, &csA, &csB}
			cvals := []*string{nil, &coA, &coB}
			for si := 0; si < 2; si++ {
				n := b.Schemas[si].S.Name
				for _, f := range []int{0, 1, 2} {
					for _, t := range []int{0, 1, 2} {
						if si == 1 && f == t {
							continue
						}
						f, t := f, t
						attrEdits = append(attrEdits, REdit{Kind: "schema-charset", Desc: fmt.Sprintf("schema %s charset %s -> %s", n, showP(vals[f]), showP(vals[t])), Keys: []string{n + "@charset"}, Judge: true,
							From: func(r *RealmSpec) { r.schema(n).Charset = cpS(vals[f]) }, To: func(r *RealmSpec) { r.schema(n).Charset = cpS(vals[t]) },
							Exp: reqMyAttr(n, 4, vals[f], top[0], vals[t])})
						attrEdits = append(attrEdits, REdit{Kind: "schema-collation", Desc: fmt.Sprintf("schema %s collation %s -> %s", n, showP(cvals[f]), showP(cvals[t])), Keys: []string{n + "@collation"}, Judge: true,
							From: func(r *RealmSpec) { r.schema(n).Collation = cpS(cvals[f]) }, To: func(r *RealmSpec) { r.schema(n).Collation = cpS(cvals[t]) },
							Exp: reqMyAttr(n, 5, cvals[f], top[1], cvals[t])})
					}
				}
			}
		case "postgres":
			texts := []*string{nil, sp(""), sp("c1"), sp("'c1'"), sp("c2"), sp(stdPublic), sp("it''s")}
			for _, si := range []int{0, 2} {
				n := b.Schemas[si].S.Name
				for _, f := range texts {
					for _, t := range texts {
						f, t := f, t
						attrEdits = append(attrEdits, REdit{Kind: "schema-comment", Desc: fmt.Sprintf("schema %s comment %s -> %s", n, showP(f), showP(t)), Keys: []string{n + "@comment"},
							// a current comment that is present but empty is not a state an inspection returns: tie only
							Judge: f == nil || *f != "",
							From:  func(r *RealmSpec) { r.schema(n).Comment = cpS(f) }, To: func(r *RealmSpec) { r.schema(n).Comment = cpS(t) },
							Exp: reqPGComment(n, p.scoped, f, t)})
					}
				}
			}
		case "sqlite":
			// SQLite has no schema attributes: whatever the graphs carry, nothing is reported (tie only)
			n := b.Schemas[0].S.Name
			attrEdits = append(attrEdits, REdit{Kind: "schema-comment", Desc: "schema " + n + " gets a comment attribute", Keys: []string{n + "@comment"}, Judge: false,
				To: func(r *RealmSpec) { r.schema(n).Comment = sp("c1") }})
		}
		cat = append(cat, attrEdits...)
		c.w.Set("realm_catalogue_"+c.dialect, len(cat))
		apply := func(es []*REdit) (RealmSpec, RealmSpec, []string, string, bool) {
			from := b.clone()
			var ds, exp []string
			judge := true
			for _, e := range es {
				if e.From != nil {
					e.From(&from)
				}
			}
			to := from.clone()
			for _, e := range es {
				e.To(&to)
				exp = append(exp, e.Exp...)
				ds = append(ds, e.Desc)
				judge = judge && e.Judge
			}
			return from, to, exp, strings.Join(ds, " + ") + topDesc, judge
		}
		// ---------------------------------------------------------- single edits
		for i := range cat {
			e := &cat[i]
			from, to, exp, desc, judge := apply([]*REdit{e})
			class := "edit1"
			if len(exp) == 0 {
				class = "nonedit"
			}
			c.w.Count("redit:" + e.Kind)
			c.one(class, "R", desc, from, to, false, true, 0, exp, judge)
			c.one(class, "R", desc+" (shuffled)", c.shuffleR(from), c.shuffleR(to), false, true, 0, exp, judge)
			m := 0
			for _, x := range exp {
				m |= kindsR(x)
			}
			if m != 0 {
				c.one("skip", "R", desc+" (its kinds skipped)", from, to, false, true, m, exp, judge)
				c.one("skip", "R", desc+" (all other kinds skipped)", from, to, false, true, (65535&^m)&^4, exp, judge)
				for bit := 1; bit < 65536; bit <<= 1 {
					if m&bit != 0 && m != bit {
						c.one("skip", "R", desc+fmt.Sprintf(" (kind %d skipped)", bit), from, to, false, true, bit, exp, judge)
					}
				}
			}
		}
		// ---------------------------------------------------------- SchemaDiff of one schema with attributes
		for i := range attrEdits {
			e := &attrEdits[i]
			from, to, exp, desc, judge := apply([]*REdit{e})
			n := strings.SplitN(e.Keys[0], "@", 2)[0]
			first := func(r RealmSpec) RealmSpec {
				d := r.clone()
				d.Schemas = []SchemaX{*d.schema(n)}
				return d
			}
			c.one("sdiff", "X", "SchemaDiff, schema linked to its realm: "+desc, first(from), first(to), false, true, 0, exp, judge)
			if ti == 0 {
				c.one("sdiff", "X", "SchemaDiff, Schema.Realm nil: "+desc, first(from), first(to), false, false, 0, exp, judge)
			}
		}
		if ti == 0 {
			x, y := b.clone(), b.clone()
			x.Schemas, y.Schemas = x.Schemas[:1], y.Schemas[1:2]
			c.one("sdiff", "X", "SchemaDiff of two schemas with different names", x, y, false, true, 0, nil, false)
		}
		// ---------------------------------------------------------- sets of edits
		n := 120
		if thorough {
			n = 3000
		}
		for k := 0; k < n; k++ {
			want := 2 + c.r.Intn(4)
			var pick []*REdit
			for tries := 0; len(pick) < want && tries < 40; tries++ {
				e := &cat[c.r.Intn(len(cat))]
				ok := true
				for _, q := range pick {
					if q == e || rconflict(q, e) {
						ok = false
						break
					}
				}
				if ok {
					pick = append(pick, e)
				}
			}
			from, to, exp, desc, judge := apply(pick)
			if c.r.Chance(1, 2) {
				from, to = c.shuffleR(from), c.shuffleR(to)
			}
			mask := 0
			if c.r.Chance(1, 3) {
				mask = int(c.r.U64()&65535) &^ 4
				if c.r.Chance(1, 8) {
					mask |= 4
				}
			}
			c.w.Count(fmt.Sprintf("rmulti:%d-edits", len(pick)))
			c.one("editN", "R", desc, from, to, false, true, mask, exp, judge)
		}
	}
}

// rconflict: two realm edits touch the same object (a schema edit conflicts with every
// edit inside that schema).
func rconflict(a, b *REdit) bool {
	for _, x := range a.Keys {
		for _, y := range b.Keys {
			sx, sy := strings.FieldsFunc(x, func(r rune) bool { return r == '.' || r == '@' }), strings.FieldsFunc(y, func(r rune) bool { return r == '.' || r == '@' })
			if x == y || (sx[0] == sy[0] && (len(sx) == 1 || len(sy) == 1)) {
				return true
			}
		}
	}
	return false
}
