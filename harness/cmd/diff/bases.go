// Per-dialect profile (type catalogue, default literals, capabilities) and the base schemas.
package main

import (
	"fmt"
	"strings"
)

type profile struct {
	dialect string
	// type keys
	tInt, tBig, tStr, tStr2, tText, tBool, tFloat, tDec, tTime, tBlob, tJSON string
	// every key of the type catalogue; typeID maps a key to its identity for the
	// dialect (two keys with the same identity are the same type for the differ
	// by the dialect's own rules, e.g. SQLite type affinity).
	types  []string
	typeID func(string) string
	// two distinct literal defaults and one raw expression per type key
	defs func(key string) (a, b Def, raw Def)
	// capabilities
	colComment, tblComment, idxType, idxPred, idxInclude, idxPrefix, genAddChange, identity, charset bool
	idxTypes                                                                                    []string
	scoped                                                                                      bool // postgres with a schema scope "public"
	variant                                                                                     *myVariant // mysql: server variant of the differ (fakemy.go); "default" = mysql.DefaultDiff
	tblCS, tblCO                                                                                string     // mysql: charset / collation of the base tables
}

func sqliteTypeID(k string) string {
	switch k {
	case "integer", "int", "bigint":
		return "int"
	case "text", "varchar(10)", "varchar(255)":
		return "string"
	case "real", "double":
		return "float"
	case "numeric", "decimal(10,2)":
		return "decimal"
	case "datetime", "date":
		return "time"
	case "json", "jsonb":
		return "json"
	}
	return k
}

// quoteDefs are single-quoted SQL string literals with pairwise different values:
// x, x', 'x, (empty), ', it's, a''b, x" .
var quoteDefs = []string{"'x'", "'x'''", "'''x'", "''", "''''", "'it''s'", "'a''''b'", "'x\"'"}

func stdDefs(p *profile) func(string) (Def, Def, Def) {
	return func(k string) (Def, Def, Def) {
		switch k {
		case p.tInt, p.tBig, "int unsigned", "smallint", "int":
			return Def{V: "1"}, Def{V: "2"}, Def{Raw: true, V: "(1 + 1)"}
		case p.tFloat, p.tDec, "decimal(12,4)", "numeric(12,4)", "double", "real", "numeric":
			return Def{V: "1.5"}, Def{V: "2.5"}, Def{Raw: true, V: "(1.5 + 1)"}
		case p.tBool:
			if p.dialect == "mysql" {
				return Def{V: "1"}, Def{V: "0"}, Def{Raw: true, V: "(1 = 2)"}
			}
			return Def{V: "true"}, Def{V: "false"}, Def{Raw: true, V: "(1 = 2)"}
		case p.tTime, "timestamp", "date", "timestamp with time zone":
			return Def{V: "'2020-01-01 00:00:00'"}, Def{V: "'2021-01-01 00:00:00'"}, Def{Raw: true, V: "CURRENT_TIMESTAMP"}
		case p.tJSON, "json":
			return Def{V: "'{}'"}, Def{V: "'[]'"}, Def{Raw: true, V: "(json_array())"}
		case p.tBlob:
			return Def{V: "'ab'"}, Def{V: "'cd'"}, Def{Raw: true, V: "(unhex('00'))"}
		}
		return Def{V: "'a'"}, Def{V: "'b'"}, Def{Raw: true, V: "(lower('C'))"}
	}
}

func newProfile(dialect string) *profile {
	dialect = strings.TrimSuffix(dialect, "-history")
	scoped := dialect == "postgres-ns"
	if scoped {
		dialect = "postgres"
	}
	p := &profile{dialect: dialect, scoped: scoped}
	if strings.HasPrefix(dialect, "mysql") {
		vn := strings.TrimPrefix(strings.TrimPrefix(dialect, "mysql"), "-")
		if vn == "" {
			vn = "default"
		}
		v, ok := myVariants[vn]
		if !ok {
			panic("unknown mysql variant " + vn)
		}
		p.dialect, dialect = "mysql", "mysql"
		p.variant, p.tblCS, p.tblCO = v, v.tblCS, v.tblCO
	}
	switch dialect {
	case "sqlite":
		p.tInt, p.tBig, p.tStr, p.tStr2, p.tText = "integer", "bigint", "varchar(255)", "varchar(10)", "text"
		p.tBool, p.tFloat, p.tDec, p.tTime, p.tBlob, p.tJSON = "boolean", "real", "decimal(10,2)", "datetime", "blob", "json"
		p.types = []string{"integer", "int", "bigint", "varchar(255)", "varchar(10)", "text", "boolean", "real", "double", "decimal(10,2)", "numeric", "datetime", "date", "blob", "json", "jsonb", "uuid", "udt:geo", "udt:money"}
		p.typeID = sqliteTypeID
		p.idxPred, p.genAddChange = true, true
	case "mysql":
		p.tInt, p.tBig, p.tStr, p.tStr2, p.tText = "int", "bigint", "varchar(255)", "varchar(100)", "text"
		p.tBool, p.tFloat, p.tDec, p.tTime, p.tBlob, p.tJSON = "bool", "double", "decimal(10,2)", "datetime", "blob", "json"
		p.types = []string{"int", "bigint", "int unsigned", "smallint", "varchar(255)", "varchar(100)", "char(10)", "text", "longtext", "bool", "double", "float", "decimal(10,2)", "decimal(12,4)", "datetime", "timestamp", "date", "blob", "varbinary(16)", "json", "enum:e:a,b", "enum:e:a,b,c"}
		p.typeID = func(k string) string { return k }
		p.colComment, p.tblComment, p.idxType, p.idxPrefix, p.genAddChange, p.charset = true, true, true, true, true, true
		p.idxTypes = []string{"BTREE", "HASH", "FULLTEXT"}
	case "postgres":
		p.tInt, p.tBig, p.tStr, p.tStr2, p.tText = "integer", "bigint", "character varying(255)", "character varying(100)", "text"
		p.tBool, p.tFloat, p.tDec, p.tTime, p.tBlob, p.tJSON = "boolean", "double precision", "numeric(10,2)", "timestamp without time zone", "bytea", "jsonb"
		p.types = []string{"integer", "bigint", "smallint", "character varying(255)", "character varying(100)", "character(10)", "text", "boolean", "double precision", "real", "numeric(10,2)", "numeric(12,4)", "timestamp without time zone", "timestamp with time zone", "date", "bytea", "jsonb", "json", "uuid", "enum:status:a,b", "enum:kind:a,b", "udt:citext", "udt:ltree", "integer[]", "text[]"}
		p.typeID = func(k string) string { return k }
		if scoped {
			// with a schema scope, user-defined type names are compared without the "public." qualifier
			p.types = append(p.types, "udt:public.citext", `udt:"public".ltree`, "udt:other.citext")
			p.typeID = func(k string) string {
				if strings.HasPrefix(k, "udt:") {
					t := k[4:]
					if strings.HasPrefix(t, `"`) {
						return "udt:" + strings.TrimPrefix(t, `"public".`)
					}
					return "udt:" + strings.TrimPrefix(t, "public.")
				}
				return k
			}
		}
		p.colComment, p.tblComment, p.idxType, p.idxPred, p.idxInclude, p.identity = true, true, true, true, true, true
		p.idxTypes = []string{"BTREE", "HASH", "GIN"}
	}
	p.defs = stdDefs(p)
	return p
}

// bases returns the base schemas of a dialect; all are well-formed (unique names,
// index parts pointing at existing columns, fks pointing at existing tables).
func bases(p *profile) []Schema {
	cmt := func(s string) *string {
		if p.colComment {
			return sp(s)
		}
		return nil
	}
	tcm := func(s string) *string {
		if p.tblComment {
			return sp(s)
		}
		return nil
	}
	var cs, co *string
	if p.charset {
		cs, co = sp(p.tblCS), sp(p.tblCO)
	}
	latin := func(c *Col) {
		if p.charset {
			c.Charset, c.Collation = sp("latin1"), sp("latin1_swedish_ci")
		}
	}
	var eng *string
	if p.dialect == "mysql" {
		eng = sp("InnoDB")
	}
	pred := func(s string) *string {
		if p.idxPred {
			return sp(s)
		}
		return nil
	}
	pk := func(name string, cols ...string) *Idx {
		i := Idx{Name: name, Unique: false}
		for k, c := range cols {
			i.Parts = append(i.Parts, Part{Seq: k, Col: c})
		}
		return &i
	}
	ix := func(name string, uniq bool, cols ...string) Idx {
		i := Idx{Name: name, Unique: uniq}
		for k, c := range cols {
			i.Parts = append(i.Parts, Part{Seq: k, Col: c})
		}
		return i
	}
	pkName := func(t string) string {
		switch p.dialect {
		case "mysql":
			return "PRIMARY"
		case "postgres":
			return t + "_pkey"
		}
		return ""
	}
	da, _, dr := p.defs(p.tStr)
	ia, _, _ := p.defs(p.tInt)
	_, _, tr := p.defs(p.tTime)

	// B1 blog
	email := Col{Name: "email", Type: p.tStr, Null: true}
	latin(&email)
	b1 := Schema{Name: "main", Tables: []Table{
		{Name: "users", Charset: cs, Collation: co, Engine: eng, Comment: tcm("app users"),
			Cols: []Col{
				{Name: "id", Type: p.tInt},
				{Name: "name", Type: p.tStr, Def: &da, Comment: cmt("display name")},
				email,
				{Name: "bio", Type: p.tText, Null: true},
				{Name: "age", Type: p.tInt, Null: true, Def: &ia},
				{Name: "score", Type: p.tFloat, Null: true},
				{Name: "x_note", Type: p.tStr2, Null: true},
			},
			PK:     pk(pkName("users"), "id"),
			Idx:    []Idx{ix("users_name", false, "name"), ix("users_email", true, "email")},
			Checks: []Check{{Name: "age_pos", Expr: "(age > 0)"}, {Name: "", Expr: "(score >= 0)"}},
		},
		{Name: "posts", Charset: cs, Collation: co, Engine: eng,
			Cols: []Col{
				{Name: "id", Type: p.tBig},
				{Name: "user_id", Type: p.tInt},
				{Name: "title", Type: p.tStr},
				{Name: "body", Type: p.tText, Null: true},
				{Name: "created", Type: p.tTime, Def: &tr},
				{Name: "x_flag", Type: p.tBool, Null: true},
			},
			PK:  pk(pkName("posts"), "id"),
			Idx: []Idx{ix("posts_user", false, "user_id"), {Name: "posts_title_desc", Parts: []Part{{Seq: 0, Col: "title", Desc: true}, {Seq: 1, Col: "created"}}}},
			FKs: []FK{{Symbol: "posts_user_fk", Cols: []string{"user_id"}, RefTable: "users", RefCols: []string{"id"}, OnDelete: "CASCADE"}},
		},
	}}

	// B2 two tables without keys holding one column of every type of the catalogue,
	// once without and once with a default
	b2t := Table{Name: "all_types", Charset: cs, Collation: co, Engine: eng}
	b2d := Table{Name: "all_defaults", Charset: cs, Collation: co, Engine: eng}
	for i, k := range p.types {
		b2t.Cols = append(b2t.Cols, Col{Name: fmt.Sprintf("c%02d", i), Type: k, Null: i%2 == 0})
		d, _, _ := p.defs(k)
		b2d.Cols = append(b2d.Cols, Col{Name: fmt.Sprintf("d%02d", i), Type: k, Null: i%2 == 1, Def: &d})
	}
	b2tabs := []Table{b2t, b2d}
	if p.dialect != "postgres" {
		// string defaults whose value begins/ends with the quote character or is made of quotes only
		// (sqlx.Unquote strips exactly one quote pair and collapses doubled quotes)
		b2q := Table{Name: "quote_defaults", Charset: cs, Collation: co, Engine: eng}
		for i, v := range quoteDefs {
			d := Def{V: v}
			b2q.Cols = append(b2q.Cols, Col{Name: fmt.Sprintf("q%02d", i), Type: p.tText, Null: true, Def: &d})
		}
		b2tabs = append(b2tabs, b2q)
	}
	b2 := Schema{Name: "main", Tables: b2tabs}

	// B3 composite keys, expression and partial indexes
	b3 := Schema{Name: "shop", Tables: []Table{
		{Name: "items", Charset: cs, Collation: co, Engine: eng,
			Cols: []Col{{Name: "vendor", Type: p.tInt}, {Name: "sku", Type: p.tStr2}, {Name: "label", Type: p.tStr, Null: true}, {Name: "price", Type: p.tDec, Null: true}, {Name: "x_spare", Type: p.tInt, Null: true}},
			PK:   pk(pkName("items"), "vendor", "sku"),
			Idx: []Idx{
				ix("items_label_price", false, "label", "price"),
				{Name: "items_lower", Parts: []Part{{Seq: 0, Expr: "(lower(label))"}}},
				{Name: "items_cheap", Parts: []Part{{Seq: 0, Col: "price"}}, Pred: pred("(price < 10)")},
			},
		},
		{Name: "stock", Charset: cs, Collation: co, Engine: eng,
			Cols: []Col{{Name: "id", Type: p.tInt}, {Name: "vendor", Type: p.tInt}, {Name: "sku", Type: p.tStr2}, {Name: "qty", Type: p.tInt, Def: &ia}, {Name: "x_loc", Type: p.tStr, Null: true}},
			PK:   pk(pkName("stock"), "id"),
			Idx:  []Idx{ix("stock_item", true, "vendor", "sku")},
			FKs:  []FK{{Symbol: "stock_item_fk", Cols: []string{"vendor", "sku"}, RefTable: "items", RefCols: []string{"vendor", "sku"}, OnUpdate: "CASCADE", OnDelete: "RESTRICT"}},
			Checks: []Check{{Name: "qty_nonneg", Expr: "(qty >= 0)"}},
		},
	}}

	// B4 self reference and a cycle of two tables
	b4 := Schema{Name: "main", Tables: []Table{
		{Name: "tree", Charset: cs, Collation: co, Engine: eng,
			Cols: []Col{{Name: "id", Type: p.tInt}, {Name: "parent_id", Type: p.tInt, Null: true}, {Name: "x_tag", Type: p.tStr2, Null: true}},
			PK:   pk(pkName("tree"), "id"),
			Idx:  []Idx{ix("tree_parent", false, "parent_id")},
			FKs:  []FK{{Symbol: "tree_parent_fk", Cols: []string{"parent_id"}, RefTable: "tree", RefCols: []string{"id"}, OnDelete: "SET NULL"}},
		},
		{Name: "a", Charset: cs, Collation: co, Engine: eng,
			Cols: []Col{{Name: "id", Type: p.tInt}, {Name: "b_id", Type: p.tInt, Null: true}},
			PK:   pk(pkName("a"), "id"),
			FKs:  []FK{{Symbol: "a_b_fk", Cols: []string{"b_id"}, RefTable: "b", RefCols: []string{"id"}}},
		},
		{Name: "b", Charset: cs, Collation: co, Engine: eng,
			Cols: []Col{{Name: "id", Type: p.tInt}, {Name: "a_id", Type: p.tInt, Null: true}},
			PK:   pk(pkName("b"), "id"),
			FKs:  []FK{{Symbol: "b_a_fk", Cols: []string{"a_id"}, RefTable: "a", RefCols: []string{"id"}, OnUpdate: "NO ACTION", OnDelete: "CASCADE"}},
		},
	}}

	// B5 generated columns, raw defaults, many checks, table attributes
	full := Col{Name: "full_name", Type: p.tStr, Null: true, Gen: &Gen{Expr: "(first || last)", Type: "STORED"}}
	b5t := Table{Name: "people", Charset: cs, Collation: co, Engine: eng, Comment: tcm("people"),
		Cols: []Col{
			{Name: "id", Type: p.tInt},
			{Name: "first", Type: p.tStr, Def: &dr},
			{Name: "last", Type: p.tStr, Comment: cmt("family name")},
			full,
			{Name: "born", Type: p.tTime, Null: true},
			{Name: "x_extra", Type: p.tJSON, Null: true},
		},
		PK:  pk(pkName("people"), "id"),
		Idx: []Idx{{Name: "people_last_first", Unique: true, Parts: []Part{{Seq: 0, Col: "last"}, {Seq: 1, Col: "first", Desc: true}}, Comment: cmt("name lookup")}},
		Checks: []Check{
			{Name: "first_len", Expr: "(length(first) > 0)"},
			{Name: "last_len", Expr: "(length(last) > 0)"},
			{Name: "", Expr: "(first <> last)"},
			{Name: "", Expr: "(id > 0)"},
		},
	}
	switch p.dialect {
	case "sqlite":
		b5t.Strict = true
		b5t.Cols = append(b5t.Cols, Col{Name: "initial", Type: p.tStr2, Null: true, Gen: &Gen{Expr: "(substr(first, 1, 1))", Type: "VIRTUAL"}})
	case "mysql":
		b5t.AutoInc = 10
		b5t.Cols = append(b5t.Cols, Col{Name: "initial", Type: p.tStr2, Null: true, Gen: &Gen{Expr: "(substr(first, 1, 1))", Type: "VIRTUAL"}})
	case "postgres":
		b5t.Cols[0].Identity = &Ident{Gen: "BY DEFAULT", Start: 1, Inc: 1}
	}
	b5 := Schema{Name: "main", Tables: []Table{b5t}}

	// B6 five tables in a chain, mixed-case and underscore names
	b6 := Schema{Name: "Chain_DB"}
	names := []string{"T_root", "t_level1", "T2", "t_3_x", "leaf"}
	for i, n := range names {
		t := Table{Name: n, Charset: cs, Collation: co, Engine: eng,
			Cols: []Col{{Name: "ID", Type: p.tInt}, {Name: "up_id", Type: p.tInt, Null: true}, {Name: "Val_" + string(rune('a'+i)), Type: p.tStr2, Null: i%2 == 1}, {Name: "x_w", Type: p.tFloat, Null: true}},
			PK:   pk(pkName(n), "ID"),
			Idx:  []Idx{{Name: "idx_" + n + "_v", Unique: i%2 == 0, Parts: []Part{{Seq: 0, Col: "Val_" + string(rune('a'+i)), Desc: i%2 == 0}, {Seq: 1, Col: "up_id"}}}},
		}
		if i > 0 {
			t.FKs = []FK{{Symbol: "fk_" + n, Cols: []string{"up_id"}, RefTable: names[i-1], RefCols: []string{"ID"}, OnUpdate: []string{"", "CASCADE", "SET NULL", "NO ACTION"}[i%4], OnDelete: []string{"CASCADE", "", "NO ACTION", "SET NULL"}[i%4]}}
		}
		b6.Tables = append(b6.Tables, t)
	}

	// B7 minimal tables
	b7 := Schema{Name: "main", Tables: []Table{
		{Name: "one", Charset: cs, Collation: co, Engine: eng, Cols: []Col{{Name: "v", Type: p.tInt, Null: true}}},
		{Name: "only_pk", Charset: cs, Collation: co, Engine: eng, Cols: []Col{{Name: "k", Type: p.tStr2}}, PK: pk(pkName("only_pk"), "k")},
	}}
	if p.dialect == "sqlite" {
		b7.Tables[1].WithoutRowID = true
	}
	all := []Schema{b1, b2, b3, b4, b5, b6, b7}
	if p.dialect == "mysql" {
		// B8 string columns in every charset / collation state: inheriting the table's, with a
		// charset whose collation is the default one (8.0 / 5.7 and MariaDB flavour) or not
		col := func(n, cs, co string) Col {
			c := Col{Name: n, Type: p.tStr2, Null: true}
			if cs != "" {
				c.Charset, c.Collation = sp(cs), sp(co)
			}
			return c
		}
		all = append(all, Schema{Name: "main", Tables: []Table{{Name: "cs", Charset: cs, Collation: co, Engine: eng,
			Cols: []Col{{Name: "id", Type: p.tInt}, col("inherit", "", ""), col("l1", "latin1", "latin1_swedish_ci"), col("l1b", "latin1", "latin1_bin"),
				col("u8g", "utf8mb4", "utf8mb4_general_ci"), col("u8n", "utf8mb4", "utf8mb4_0900_ai_ci"), col("u8b", "utf8mb4", "utf8mb4_bin"),
				col("asc", "ascii", "ascii_general_ci"), col("ascb", "ascii", "ascii_bin")},
			PK: pk(pkName("cs"), "id")}}})
		if !p.variant.check {
			for si := range all {
				for ti := range all[si].Tables {
					all[si].Tables[ti].Checks = nil
				}
			}
		}
	}
	return all
}
