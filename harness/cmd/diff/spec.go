// Dialect-neutral description of a schema (the "spec") and its translation into a
// fresh schema.* graph of one dialect.  Every call of build returns new pointers, so
// two builds of one spec are deep copies of each other.
package main

import (
	"fmt"
	"strings"

	"ariga.io/atlas/sql/mysql"
	"ariga.io/atlas/sql/postgres"
	"ariga.io/atlas/sql/schema"
	"ariga.io/atlas/sql/sqlite"
)

type (
	Def struct {
		Raw bool // *schema.RawExpr, else *schema.Literal
		V   string
	}
	Gen struct{ Expr, Type string }
	Ident struct {
		Gen        string
		Start, Inc int64
	}
	Col struct {
		Name      string
		Type      string // key of the dialect type catalogue; "" = no type information (nil)
		Null      bool
		Def       *Def
		Gen       *Gen
		Comment   *string
		Charset   *string // mysql
		Collation *string // mysql
		Identity  *Ident  // postgres
	}
	Part struct {
		Seq    int
		Col    string // column name, or
		Expr   string // raw expression
		Desc   bool
		Prefix int // mysql SubPart
	}
	Idx struct {
		Name     string
		Unique   bool
		Parts    []Part
		Type     string   // mysql/postgres IndexType ("" = attribute absent)
		Pred     *string  // sqlite/postgres IndexPredicate
		Include  []string // postgres IndexInclude
		NullsND  bool     // postgres NULLS NOT DISTINCT
		Comment  *string
		Origin   *string // sqlite IndexOrigin
	}
	FK struct {
		Symbol   string
		Cols     []string
		RefTable string
		RefCols  []string
		OnUpdate string
		OnDelete string
	}
	Check struct {
		Name, Expr  string
		NotEnforced bool // mysql
		NoInherit   bool // postgres
	}
	Table struct {
		Name         string
		Cols         []Col
		PK           *Idx
		Idx          []Idx
		FKs          []FK
		Checks       []Check
		WithoutRowID bool    // sqlite
		Strict       bool    // sqlite
		Comment      *string // mysql/postgres
		Charset      *string // mysql
		Collation    *string // mysql
		Engine       *string // mysql
		AutoInc      int64   // mysql (0 = absent)
		// round 5 (stage tattrs)
		EngineDefault bool   // mysql.Engine.Default
		SysVer        bool   // mysql.SystemVersioned
		Partition     string // postgres.Partition as "<type>:<col>,<col>" ("" = absent)
	}
	Schema struct {
		Name   string
		Tables []Table
	}
)

func sp(s string) *string { return &s }

func cpS(p *string) *string {
	if p == nil {
		return nil
	}
	v := *p
	return &v
}

func (c Col) clone() Col {
	d := c
	if c.Def != nil {
		v := *c.Def
		d.Def = &v
	}
	if c.Gen != nil {
		v := *c.Gen
		d.Gen = &v
	}
	if c.Identity != nil {
		v := *c.Identity
		d.Identity = &v
	}
	d.Comment, d.Charset, d.Collation = cpS(c.Comment), cpS(c.Charset), cpS(c.Collation)
	return d
}

func (i Idx) clone() Idx {
	d := i
	d.Parts = append([]Part(nil), i.Parts...)
	d.Include = append([]string(nil), i.Include...)
	d.Pred, d.Comment, d.Origin = cpS(i.Pred), cpS(i.Comment), cpS(i.Origin)
	return d
}

func (f FK) clone() FK {
	d := f
	d.Cols = append([]string(nil), f.Cols...)
	d.RefCols = append([]string(nil), f.RefCols...)
	return d
}

func (t Table) clone() Table {
	d := t
	d.Cols = nil
	for _, c := range t.Cols {
		d.Cols = append(d.Cols, c.clone())
	}
	if t.PK != nil {
		p := t.PK.clone()
		d.PK = &p
	}
	d.Idx = nil
	for _, i := range t.Idx {
		d.Idx = append(d.Idx, i.clone())
	}
	d.FKs = nil
	for _, f := range t.FKs {
		d.FKs = append(d.FKs, f.clone())
	}
	d.Checks = append([]Check(nil), t.Checks...)
	d.Comment, d.Charset, d.Collation, d.Engine = cpS(t.Comment), cpS(t.Charset), cpS(t.Collation), cpS(t.Engine)
	return d
}

func (s Schema) clone() Schema {
	d := Schema{Name: s.Name}
	for _, t := range s.Tables {
		d.Tables = append(d.Tables, t.clone())
	}
	return d
}

func (s *Schema) table(n string) *Table {
	for i := range s.Tables {
		if s.Tables[i].Name == n {
			return &s.Tables[i]
		}
	}
	return nil
}

func (t *Table) col(n string) *Col {
	for i := range t.Cols {
		if t.Cols[i].Name == n {
			return &t.Cols[i]
		}
	}
	return nil
}

func (t *Table) idx(n string) *Idx {
	for i := range t.Idx {
		if t.Idx[i].Name == n {
			return &t.Idx[i]
		}
	}
	return nil
}

func (t *Table) fk(n string) *FK {
	for i := range t.FKs {
		if t.FKs[i].Symbol == n {
			return &t.FKs[i]
		}
	}
	return nil
}

// ---------------------------------------------------------------- types

// parseType turns a catalogue key into a schema.Type of the dialect.
func parseType(dialect, key string) schema.Type {
	if key == "" {
		return nil
	}
	switch {
	case strings.HasPrefix(key, "udt:"):
		switch dialect {
		case "sqlite":
			return &sqlite.UserDefinedType{T: key[4:]}
		case "postgres":
			return &postgres.UserDefinedType{T: key[4:]}
		}
	case strings.HasPrefix(key, "enum:"): // enum:<name>:<v1>,<v2>
		f := strings.SplitN(key[5:], ":", 2)
		vs := strings.Split(f[1], ",")
		if dialect == "postgres" {
			return &schema.EnumType{T: f[0], Values: vs}
		}
		return &schema.EnumType{T: "enum", Values: vs}
	}
	var (
		t   schema.Type
		err error
	)
	switch dialect {
	case "sqlite":
		t, err = sqlite.ParseType(key)
	case "mysql":
		t, err = mysql.ParseType(key)
	case "postgres":
		t, err = postgres.ParseType(key)
	}
	if err != nil {
		panic(fmt.Sprintf("parseType(%s, %q): %v", dialect, key, err))
	}
	return t
}

// ---------------------------------------------------------------- build

func build(dialect string, s Schema) *schema.Schema {
	out := schema.New(s.Name)
	tabs := map[string]*schema.Table{}
	for _, ts := range s.Tables {
		t := schema.NewTable(ts.Name)
		t.Schema = out
		out.Tables = append(out.Tables, t)
		if _, dup := tabs[ts.Name]; !dup {
			tabs[ts.Name] = t
		}
		for _, cs := range ts.Cols {
			t.Columns = append(t.Columns, buildCol(dialect, cs))
		}
		if ts.PK != nil {
			t.PrimaryKey = buildIdx(dialect, t, *ts.PK)
		}
		for _, is := range ts.Idx {
			t.Indexes = append(t.Indexes, buildIdx(dialect, t, is))
		}
		switch dialect {
		case "sqlite":
			if ts.WithoutRowID {
				t.Attrs = append(t.Attrs, &sqlite.WithoutRowID{})
			}
			if ts.Strict {
				t.Attrs = append(t.Attrs, &sqlite.Strict{})
			}
		case "mysql":
			if ts.Charset != nil {
				t.Attrs = append(t.Attrs, &schema.Charset{V: *ts.Charset})
			}
			if ts.Collation != nil {
				t.Attrs = append(t.Attrs, &schema.Collation{V: *ts.Collation})
			}
			if ts.Engine != nil {
				t.Attrs = append(t.Attrs, &mysql.Engine{V: *ts.Engine, Default: ts.EngineDefault})
			}
			if ts.AutoInc != 0 {
				t.Attrs = append(t.Attrs, &mysql.AutoIncrement{V: ts.AutoInc})
			}
			if ts.SysVer {
				t.Attrs = append(t.Attrs, &mysql.SystemVersioned{})
			}
		case "postgres":
			if ts.Partition != "" {
				f := strings.SplitN(ts.Partition, ":", 2)
				pt := &postgres.Partition{T: f[0]}
				for _, cn := range strings.Split(f[1], ",") {
					pt.Parts = append(pt.Parts, &postgres.PartitionPart{C: colOf(t, cn)})
				}
				t.Attrs = append(t.Attrs, pt)
			}
		}
		if ts.Comment != nil {
			t.Attrs = append(t.Attrs, &schema.Comment{Text: *ts.Comment})
		}
		for _, ks := range ts.Checks {
			k := &schema.Check{Name: ks.Name, Expr: ks.Expr}
			if ks.NotEnforced && dialect == "mysql" {
				k.Attrs = append(k.Attrs, &mysql.Enforced{V: false})
			}
			if ks.NoInherit && dialect == "postgres" {
				k.Attrs = append(k.Attrs, &postgres.NoInherit{})
			}
			t.Attrs = append(t.Attrs, k)
		}
	}
	// foreign keys, second pass (referenced tables may come later)
	for i, ts := range s.Tables {
		t := out.Tables[i]
		for _, fs := range ts.FKs {
			fk := &schema.ForeignKey{Symbol: fs.Symbol, Table: t, OnUpdate: schema.ReferenceOption(fs.OnUpdate), OnDelete: schema.ReferenceOption(fs.OnDelete)}
			for _, c := range fs.Cols {
				fk.Columns = append(fk.Columns, colOf(t, c))
			}
			rt, ok := tabs[fs.RefTable]
			if !ok { // a table outside the schema
				rt = schema.NewTable(fs.RefTable)
				rt.Schema = out
			}
			fk.RefTable = rt
			for _, c := range fs.RefCols {
				fk.RefColumns = append(fk.RefColumns, colOf(rt, c))
			}
			t.ForeignKeys = append(t.ForeignKeys, fk)
		}
	}
	return out
}

// colOf returns the column of t called n, or a detached column of that name.
func colOf(t *schema.Table, n string) *schema.Column {
	if c, ok := t.Column(n); ok {
		return c
	}
	return schema.NewColumn(n)
}

func buildCol(dialect string, cs Col) *schema.Column {
	c := &schema.Column{Name: cs.Name, Type: &schema.ColumnType{Type: parseType(dialect, cs.Type), Raw: cs.Type, Null: cs.Null}}
	if cs.Def != nil {
		if cs.Def.Raw {
			c.Default = &schema.RawExpr{X: cs.Def.V}
		} else {
			c.Default = &schema.Literal{V: cs.Def.V}
		}
	}
	if cs.Charset != nil {
		c.Attrs = append(c.Attrs, &schema.Charset{V: *cs.Charset})
	}
	if cs.Collation != nil {
		c.Attrs = append(c.Attrs, &schema.Collation{V: *cs.Collation})
	}
	if cs.Gen != nil {
		c.Attrs = append(c.Attrs, &schema.GeneratedExpr{Expr: cs.Gen.Expr, Type: cs.Gen.Type})
	}
	if cs.Comment != nil {
		c.Attrs = append(c.Attrs, &schema.Comment{Text: *cs.Comment})
	}
	if cs.Identity != nil && dialect == "postgres" {
		c.Attrs = append(c.Attrs, &postgres.Identity{Generation: cs.Identity.Gen, Sequence: &postgres.Sequence{Start: cs.Identity.Start, Increment: cs.Identity.Inc}})
	}
	return c
}

func buildIdx(dialect string, t *schema.Table, is Idx) *schema.Index {
	idx := &schema.Index{Name: is.Name, Unique: is.Unique, Table: t}
	for _, ps := range is.Parts {
		p := &schema.IndexPart{SeqNo: ps.Seq, Desc: ps.Desc}
		if ps.Col != "" {
			p.C = colOf(t, ps.Col)
		} else if ps.Expr != "" {
			p.X = &schema.RawExpr{X: ps.Expr}
		}
		if ps.Prefix != 0 && dialect == "mysql" {
			p.Attrs = append(p.Attrs, &mysql.SubPart{Len: ps.Prefix})
		}
		idx.Parts = append(idx.Parts, p)
	}
	if is.Type != "" {
		switch dialect {
		case "mysql":
			idx.Attrs = append(idx.Attrs, &mysql.IndexType{T: is.Type})
		case "postgres":
			idx.Attrs = append(idx.Attrs, &postgres.IndexType{T: is.Type})
		}
	}
	if is.Pred != nil {
		switch dialect {
		case "sqlite":
			idx.Attrs = append(idx.Attrs, &sqlite.IndexPredicate{P: *is.Pred})
		case "postgres":
			idx.Attrs = append(idx.Attrs, &postgres.IndexPredicate{P: *is.Pred})
		}
	}
	if dialect == "postgres" {
		if len(is.Include) > 0 {
			inc := &postgres.IndexInclude{}
			for _, c := range is.Include {
				inc.Columns = append(inc.Columns, colOf(t, c))
			}
			idx.Attrs = append(idx.Attrs, inc)
		}
		if is.NullsND {
			idx.Attrs = append(idx.Attrs, &postgres.IndexNullsDistinct{V: false})
		}
	}
	if is.Comment != nil {
		idx.Attrs = append(idx.Attrs, &schema.Comment{Text: *is.Comment})
	}
	if is.Origin != nil && dialect == "sqlite" {
		idx.Attrs = append(idx.Attrs, &sqlite.IndexOrigin{O: *is.Origin})
	}
	return idx
}
