// A database/sql driver ("fakemy") that plays a MySQL / MariaDB server for mysql.Open and for
// the differ it returns (round 3, gap 2).  It answers exactly the queries those issue:
//
//   - variablesQuery of mysql.Open (driver_oss.go): @@version, @@collation_server,
//     @@character_set_server, @@lower_case_table_names;
//   - the two INFORMATION_SCHEMA queries of mysqlversion.mayExtend (CHARACTER_SETS: charset ->
//     default collation; COLLATIONS: collation -> charset), with which the differ extends the
//     tables embedded in sql/mysql/internal/mysqlversion/is;
//
// and returns no rows otherwise.  The DSN is the name of a variant below.  The effective
// charset tables of a variant (embedded excerpt overridden by the server's rows) are what
// the oracle reads the required changes from; the same tables are restated in
// ocaml/diff/driver.ml for the model.
package main

import (
	"context"
	"database/sql"
	"database/sql/driver"
	"fmt"
	"strings"
	"sync/atomic"

	"ariga.io/atlas/sql/mysql"
	"ariga.io/atlas/sql/schema"
)

type myVariant struct {
	name    string
	version string // "" = no connection (mysql.DefaultDiff: 8.0.31)
	lcnames int
	tblCS   string // default charset / collation of the tables of the base schemas
	tblCO   string
	csRows  [][2]string // INFORMATION_SCHEMA.CHARACTER_SETS: charset, default collation
	coRows  [][2]string // INFORMATION_SCHEMA.COLLATIONS: collation, charset
	// capabilities by version (mysqlversion.V): CHECK constraints, functional indexes
	check, indexExpr bool
	maria            bool
}

// the entries of the embedded tables (is/charset2collate[.maria], is/collate2charset[.maria])
// for the names the generated cases use
var (
	embCh2Co = map[bool]map[string]string{
		false: {"utf8mb4": "utf8mb4_0900_ai_ci", "latin1": "latin1_swedish_ci", "ascii": "ascii_general_ci"},
		true:  {"utf8mb4": "utf8mb4_general_ci", "latin1": "latin1_swedish_ci", "ascii": "ascii_general_ci"},
	}
	embCo2Ch = map[bool]map[string]string{
		false: {"utf8mb4_0900_ai_ci": "utf8mb4", "utf8mb4_general_ci": "utf8mb4", "utf8mb4_bin": "utf8mb4", "latin1_swedish_ci": "latin1", "latin1_bin": "latin1", "ascii_general_ci": "ascii", "ascii_bin": "ascii"},
		true:  {"utf8mb4_general_ci": "utf8mb4", "utf8mb4_bin": "utf8mb4", "latin1_swedish_ci": "latin1", "latin1_bin": "latin1", "ascii_general_ci": "ascii", "ascii_bin": "ascii"},
	}
)

var myVariants = map[string]*myVariant{
	// mysql.DefaultDiff
	"default": {name: "default", tblCS: "utf8mb4", tblCO: "utf8mb4_0900_ai_ci", check: true, indexExpr: true},
	// MySQL 5.7: utf8mb4 defaults to utf8mb4_general_ci, no 0900 collations, no CHECKs, no functional indexes
	"my57": {name: "my57", version: "5.7.44-log", tblCS: "utf8mb4", tblCO: "utf8mb4_general_ci",
		csRows: [][2]string{{"utf8mb4", "utf8mb4_general_ci"}, {"latin1", "latin1_swedish_ci"}, {"ascii", "ascii_general_ci"}},
		coRows: [][2]string{{"utf8mb4_general_ci", "utf8mb4"}, {"utf8mb4_bin", "utf8mb4"}, {"latin1_swedish_ci", "latin1"}, {"latin1_bin", "latin1"}, {"ascii_general_ci", "ascii"}, {"ascii_bin", "ascii"}}},
	// MySQL 8.0 with lower_case_table_names=1 and a server built with ascii_bin as the default of ascii
	"my80": {name: "my80", version: "8.0.36", lcnames: 1, tblCS: "utf8mb4", tblCO: "utf8mb4_0900_ai_ci", check: true, indexExpr: true,
		csRows: [][2]string{{"utf8mb4", "utf8mb4_0900_ai_ci"}, {"latin1", "latin1_swedish_ci"}, {"ascii", "ascii_bin"}},
		coRows: [][2]string{{"utf8mb4_0900_ai_ci", "utf8mb4"}, {"utf8mb4_general_ci", "utf8mb4"}, {"utf8mb4_bin", "utf8mb4"}, {"latin1_swedish_ci", "latin1"}, {"latin1_bin", "latin1"}, {"ascii_general_ci", "ascii"}, {"ascii_bin", "ascii"}}},
	// MariaDB 10.11: utf8mb4_general_ci, and a collation the embedded table does not know
	"maria": {name: "maria", version: "10.11.6-MariaDB-1:10.11.6+maria~ubu2204", tblCS: "utf8mb4", tblCO: "utf8mb4_general_ci", check: true, maria: true,
		csRows: [][2]string{{"utf8mb4", "utf8mb4_general_ci"}, {"latin1", "latin1_swedish_ci"}, {"ascii", "ascii_general_ci"}},
		coRows: [][2]string{{"utf8mb4_general_ci", "utf8mb4"}, {"utf8mb4_bin", "utf8mb4"}, {"utf8mb4_uca1400_ai_ci", "utf8mb4"}, {"latin1_swedish_ci", "latin1"}, {"latin1_bin", "latin1"}, {"ascii_general_ci", "ascii"}, {"ascii_bin", "ascii"}}},
}

// defCollation is the default collation of charset cs for a differ of this variant.
func (v *myVariant) defCollation(cs string) (string, bool) {
	for _, r := range v.csRows {
		if r[0] == cs {
			return r[1], true
		}
	}
	x, ok := embCh2Co[v.maria][cs]
	return x, ok
}

// charsetOf is the charset of collation co for a differ of this variant.
func (v *myVariant) charsetOf(co string) (string, bool) {
	for _, r := range v.coRows {
		if r[0] == co {
			return r[1], true
		}
	}
	x, ok := embCo2Ch[v.maria][co]
	return x, ok
}

// myQueries counts the queries the fake servers answered (the history stage reports it).
var myQueries int64

type (
	fakeMy     struct{}
	fakeMyConn struct{ v *myVariant }
	fakeMyStmt struct {
		c fakeMyConn
		q string
	}
)

func init() { sql.Register("fakemy", fakeMy{}) }

func (fakeMy) Open(dsn string) (driver.Conn, error) {
	v, ok := myVariants[dsn]
	if !ok || v.version == "" {
		return nil, fmt.Errorf("fakemy: unknown variant %q", dsn)
	}
	return fakeMyConn{v}, nil
}
func (c fakeMyConn) Prepare(q string) (driver.Stmt, error)     { return fakeMyStmt{c, q}, nil }
func (fakeMyConn) Close() error                                { return nil }
func (fakeMyConn) Begin() (driver.Tx, error)                   { return nil, fmt.Errorf("fakemy: no transactions") }
func (fakeMyStmt) Close() error                                { return nil }
func (fakeMyStmt) NumInput() int                               { return -1 }
func (fakeMyStmt) Exec([]driver.Value) (driver.Result, error)  { return driver.RowsAffected(0), nil }
func (s fakeMyStmt) Query([]driver.Value) (driver.Rows, error) { return s.c.answer(s.q), nil }
func (c fakeMyConn) QueryContext(_ context.Context, q string, _ []driver.NamedValue) (driver.Rows, error) {
	return c.answer(q), nil
}

func (c fakeMyConn) answer(q string) driver.Rows {
	atomic.AddInt64(&myQueries, 1)
	pairs := func(cols [2]string, rows [][2]string) driver.Rows {
		r := &fakeRows{cols: cols[:]}
		for _, x := range rows {
			r.rows = append(r.rows, []driver.Value{x[0], x[1]})
		}
		return r
	}
	switch {
	case strings.Contains(q, "@@version"):
		cs, _ := c.v.defCollation(c.v.tblCS)
		return &fakeRows{cols: []string{"v", "co", "cs", "lc"}, rows: [][]driver.Value{{c.v.version, cs, c.v.tblCS, int64(c.v.lcnames)}}}
	case strings.Contains(q, "INFORMATION_SCHEMA.CHARACTER_SETS"):
		return pairs([2]string{"CHARACTER_SET_NAME", "DEFAULT_COLLATE_NAME"}, c.v.csRows)
	case strings.Contains(q, "INFORMATION_SCHEMA.COLLATIONS"):
		return pairs([2]string{"COLLATION_NAME", "CHARACTER_SET_NAME"}, c.v.coRows)
	}
	return &fakeRows{cols: []string{"x"}}
}

// openMy returns the differ of a new driver opened by the real mysql.Open over a new fake
// connection of the variant (mysql.DefaultDiff for the variant without a connection).
func openMy(v *myVariant) schema.Differ {
	if v.version == "" {
		return mysql.DefaultDiff
	}
	db, err := sql.Open("fakemy", v.name)
	if err != nil {
		panic(err)
	}
	drv, err := mysql.Open(db)
	if err != nil {
		panic(err)
	}
	return drv
}

// variantCases: what a server variant changes besides the catalogue.  A server without CHECK
// constraints: the differ refuses a desired table that has one (tie only: the property does
// not speak about unsupported features).
func (c *ctx) variantCases() {
	v := c.p.variant
	if v == nil || v.check {
		return
	}
	b := bases(c.p)[0]
	seqParts(&b)
	for i, k := range []Check{{Name: "age_pos", Expr: "(age > 0)"}, {Name: "", Expr: "(score >= 0)"}} {
		to := b.clone()
		to.table("users").Checks = []Check{k}
		c.one(c.id("nocheck", 9), "nocheck", fmt.Sprintf("server without CHECK support, desired users gets check #%d", i), b, to, false, 0, nil, false)
		from := b.clone()
		from.table("users").Checks = []Check{k}
		c.one(c.id("nocheck", 9), "nocheck", fmt.Sprintf("server without CHECK support, current users has check #%d, desired none", i), from, b, false, 0, nil, false)
		c.one(c.id("nocheck", 9), "nocheck", fmt.Sprintf("server without CHECK support, both sides have check #%d", i), from, to, false, 0, nil, false)
	}
}
