// Round 5, stage `views`: the view part of sqlx.Diff.schemaDiff (DropView / viewDiff / AddView,
// indexDiffV, columnDiffV, BodyDefChanged, findView by name and kind) for sqlite.DefaultDiff,
// mysql.DefaultDiff, postgres.DefaultDiff, tied to coq/theories/Diff/DiffViews.v
// (`model_diff views`).
//
//	<id> V <dialect> <mask> <schema_v> <schema_v>
//	schema_v = <schema> <n> { <name> <def> <materialized 0|1> <ncols> { <name> <comment|~> } <nidx> { <index> } }
//
// Required answers come from the recipe: a dropped / added view, a view whose kind flipped
// (= drop + add), a ModifyView carrying one change per edited column comment / index, or -- when
// nothing inside changed -- a bare ModifyView for an edited definition; definitions that differ
// in surrounding blanks, a trailing ';' or line breaks / indentation only are no edits.
package main

import (
	"fmt"
	"reflect"
	"sort"
	"strconv"
	"strings"

	"ariga.io/atlas/sql/mysql"
	"ariga.io/atlas/sql/postgres"
	"ariga.io/atlas/sql/schema"
	"ariga.io/atlas/sql/sqlite"
)

type (
	VCol struct {
		Name    string
		Comment *string
	}
	ViewSpec struct {
		Name, Def string
		Mat       bool
		Cols      []VCol
		Idx       []Idx
	}
	schemaV struct {
		S     Schema
		Views []ViewSpec
	}
)

func (s schemaV) clone() schemaV {
	d := schemaV{S: s.S.clone()}
	for _, v := range s.Views {
		w := v
		w.Cols = nil
		for _, c := range v.Cols {
			w.Cols = append(w.Cols, VCol{c.Name, cpS(c.Comment)})
		}
		w.Idx = nil
		for _, i := range v.Idx {
			w.Idx = append(w.Idx, i.clone())
		}
		d.Views = append(d.Views, w)
	}
	return d
}

func (s *schemaV) view(n string) *ViewSpec {
	for i := range s.Views {
		if s.Views[i].Name == n {
			return &s.Views[i]
		}
	}
	return nil
}

func buildV(dialect string, s schemaV) *schema.Schema {
	g := build(dialect, s.S)
	for _, vs := range s.Views {
		v := schema.NewView(vs.Name, vs.Def)
		if vs.Mat {
			v.SetMaterialized(true)
		}
		v.Schema = g
		for _, c := range vs.Cols {
			col := schema.NewColumn(c.Name)
			if c.Comment != nil {
				col.Attrs = append(col.Attrs, &schema.Comment{Text: *c.Comment})
			}
			v.Columns = append(v.Columns, col)
		}
		for _, is := range vs.Idx {
			idx := &schema.Index{Name: is.Name, Unique: is.Unique, View: v}
			for _, ps := range is.Parts {
				p := &schema.IndexPart{SeqNo: ps.Seq, Desc: ps.Desc}
				if c, ok := v.Column(ps.Col); ok {
					p.C = c
				} else {
					p.C = schema.NewColumn(ps.Col)
				}
				idx.Parts = append(idx.Parts, p)
			}
			v.Indexes = append(v.Indexes, idx)
		}
		g.Views = append(g.Views, v)
	}
	return g
}

func tokSchemaV(g *schema.Schema) string {
	w := []string{tokSchema(g), strconv.Itoa(len(g.Views))}
	for _, v := range g.Views {
		w = append(w, hx(v.Name), hx(v.Def), b01(v.Materialized()), strconv.Itoa(len(v.Columns)))
		for _, c := range v.Columns {
			var cm schema.Comment
			w = append(w, hx(c.Name), optTok(hasAttr(c.Attrs, &cm), cm.Text))
		}
		w = append(w, strconv.Itoa(len(v.Indexes)))
		for _, i := range v.Indexes {
			tokIdx(i, &w)
		}
	}
	return strings.Join(w, " ")
}

func vkeyOf(v *schema.View) string { return v.Name + ":" + b01(v.Materialized()) }

func showVChanges(cs []schema.Change, err error) string {
	if err != nil {
		return "err"
	}
	if len(cs) == 0 {
		return "[]"
	}
	ss := make([]string, len(cs))
	for i, c := range cs {
		switch c := c.(type) {
		case *schema.AddView:
			ss[i] = "+V(" + vkeyOf(c.V) + ")"
		case *schema.DropView:
			ss[i] = "-V(" + vkeyOf(c.V) + ")"
		case *schema.ModifyView:
			ss[i] = "~V(" + vkeyOf(c.To) + ")" + showSubs(c.Changes)
		default:
			ss[i] = showSChange(c)
		}
	}
	return strings.Join(ss, ";")
}

func flatV(cs []schema.Change) []string {
	var out, tabs []string
	var tcs []schema.Change
	for _, c := range cs {
		switch c := c.(type) {
		case *schema.AddView:
			out = append(out, "+V("+vkeyOf(c.V)+")")
		case *schema.DropView:
			out = append(out, "-V("+vkeyOf(c.V)+")")
		case *schema.ModifyView:
			if len(c.Changes) == 0 {
				out = append(out, vkeyOf(c.To)+"/@def")
			}
			for _, s := range c.Changes {
				out = append(out, vkeyOf(c.To)+"/"+showChange(s))
			}
		case *schema.AddTable, *schema.DropTable, *schema.ModifyTable:
			tcs = append(tcs, c)
		default:
			out = append(out, "?"+reflect.TypeOf(c).String())
		}
	}
	tabs = flat(tcs)
	out = append(out, tabs...)
	sort.Strings(out)
	return out
}

const (
	mAddView    = 8192
	mDropView   = 16384
	mModifyView = 32768
)

func optsV(mask int) []schema.DiffOption {
	o := []schema.DiffOption{schema.DiffNormalized()}
	var sk []schema.Change
	for _, s := range skipProto {
		if mask&s.bit != 0 {
			sk = append(sk, s.c)
		}
	}
	if mask&mAddView != 0 {
		sk = append(sk, &schema.AddView{})
	}
	if mask&mDropView != 0 {
		sk = append(sk, &schema.DropView{})
	}
	if mask&mModifyView != 0 {
		sk = append(sk, &schema.ModifyView{})
	}
	if len(sk) > 0 {
		o = append(o, schema.DiffSkipChanges(sk...))
	}
	return o
}

// vexp: what the edits of a case require, before the skip mask.
type vexp struct {
	adds, drops, tables []string
	subs                map[string][]string
	defs                map[string]bool
}

func (e *vexp) required(mask int) []string {
	var out []string
	for _, a := range e.adds {
		if mask&mAddView == 0 {
			out = append(out, "+V("+a+")")
		}
	}
	for _, d := range e.drops {
		if mask&mDropView == 0 {
			out = append(out, "-V("+d+")")
		}
	}
	keys := map[string]bool{}
	for k := range e.subs {
		keys[k] = true
	}
	for k := range e.defs {
		keys[k] = true
	}
	for k := range keys {
		if mask&mModifyView != 0 {
			continue
		}
		var kept []string
		for _, s := range e.subs[k] {
			skip := false
			for _, sp := range skipProto {
				if mask&sp.bit != 0 && strings.HasPrefix(s, sp.pre) {
					skip = true
				}
			}
			if !skip {
				kept = append(kept, s)
			}
		}
		switch {
		case len(kept) > 0:
			for _, s := range kept {
				out = append(out, k+"/"+s)
			}
		case e.defs[k]:
			out = append(out, k+"/@def")
		}
	}
	out = append(out, filterExp(e.tables, mask)...)
	sort.Strings(out)
	return out
}

type vedit struct {
	kind, desc string
	keys       []string
	apply      func(*schemaV)
	exp        func(*vexp)
	judge      bool
}

func (c *ctx) views(thorough bool) {
	c.w.Rule = "a view case is non-trivial when the differ returned at least one change or an error, or the pair differs in order only; key = dialect, skip mask, recipe, answer"
	c.w.Exhaust = true
	for _, d := range []string{"sqlite", "mysql", "postgres"} {
		p := newProfile(d)
		vc := &ctx{w: c.w, p: p, r: c.r, n: c.n}
		switch d {
		case "sqlite":
			vc.differ = sqlite.DefaultDiff
		case "mysql":
			vc.differ = mysql.DefaultDiff
		case "postgres":
			vc.differ = postgres.DefaultDiff
		}
		tokDialect = p.dialect
		vc.viewCases(thorough)
		c.n = vc.n
	}
}

func (c *ctx) viewOne(class, desc string, from, to schemaV, mask int, e *vexp, judge bool) {
	id := c.id("views-"+class, 0)
	g1, g2 := buildV(c.p.dialect, from), buildV(c.p.dialect, to)
	var (
		cs  []schema.Change
		err error
		pan string
	)
	func() {
		defer func() {
			if r := recover(); r != nil {
				pan = fmt.Sprint(r)
			}
		}()
		cs, err = c.differ.SchemaDiff(g1, g2, optsV(mask)...)
	}()
	obs := showVChanges(cs, err)
	if pan != "" {
		obs = "panic"
	}
	c.w.Case(id, "V "+c.p.dialect+" "+strconv.Itoa(mask)+" "+tokSchemaV(g1)+" "+tokSchemaV(g2), []string{obs})
	c.w.Count("class:" + class)
	c.w.Count("dialect:" + c.p.dialect)
	if obs != "[]" || class == "perm" {
		c.w.NonTrivial(class + "|" + c.p.dialect + "|" + strconv.Itoa(mask) + "|" + desc + "|" + obs)
	}
	head := fmt.Sprintf("[%s] views %s %s (skip mask %d)", c.p.dialect, class, desc, mask)
	if pan != "" {
		c.w.Violation(id, "views-panic", head+": differ panicked: "+pan)
		return
	}
	if !judge {
		return
	}
	if err != nil {
		c.w.Violation(id, "views-error", head+": differ returned an error: "+err.Error())
		return
	}
	got, want := flatV(cs), e.required(mask)
	if strings.Join(got, "\x00") == strings.Join(want, "\x00") {
		return
	}
	missing, spurious := msetDiff(want, got), msetDiff(got, want)
	cls := "views-mismatch"
	switch {
	case len(want) == 0:
		cls = "views-nonempty-" + class
	case len(missing) > 0 && len(spurious) == 0:
		cls = "views-missing-change"
	case len(missing) == 0 && len(spurious) > 0:
		cls = "views-spurious-change"
	}
	c.w.Violation(id, cls, fmt.Sprintf("%s: required %v, differ returned %v (missing %v, not required %v)", head, want, got, missing, spurious))
}

func (c *ctx) viewCases(thorough bool) {
	p := c.p
	b := bases(p)[0].clone()
	seqParts(&b)
	cm := func(s string) *string {
		if p.dialect == "sqlite" {
			return nil
		}
		return sp(s)
	}
	multi := "SELECT id\n  FROM posts\n  WHERE id > 0"
	base := schemaV{S: b, Views: []ViewSpec{
		{Name: "v_users", Def: "SELECT id, name FROM users", Cols: []VCol{{"id", nil}, {"name", cm("the name")}}},
		{Name: "v_posts", Def: multi, Cols: []VCol{{"id", nil}}},
	}}
	if p.dialect == "postgres" {
		base.Views = append(base.Views, ViewSpec{Name: "m_stats", Def: "SELECT user_id, count(*) AS cnt FROM posts GROUP BY user_id", Mat: true,
			Cols: []VCol{{"user_id", nil}, {"cnt", sp("posts per user")}},
			Idx:  []Idx{{Name: "m_stats_user", Unique: true, Parts: []Part{{Seq: 0, Col: "user_id"}}}, {Name: "m_stats_cnt", Parts: []Part{{Seq: 0, Col: "cnt"}}}}})
	}
	key := func(n string, mat bool) string { return n + ":" + b01(mat) }
	var cat []vedit
	add := func(e vedit) { cat = append(cat, e) }
	for _, v := range base.Views {
		v := v
		k := key(v.Name, v.Mat)
		add(vedit{kind: "drop-view", desc: "drop view " + v.Name, keys: []string{v.Name}, judge: true,
			apply: func(s *schemaV) {
				var keep []ViewSpec
				for _, x := range s.Views {
					if x.Name != v.Name {
						keep = append(keep, x)
					}
				}
				s.Views = keep
			}, exp: func(e *vexp) { e.drops = append(e.drops, k) }})
		add(vedit{kind: "view-kind", desc: "view " + v.Name + " changes its kind (materialized <-> plain)", keys: []string{v.Name}, judge: true,
			apply: func(s *schemaV) { x := s.view(v.Name); x.Mat = !x.Mat },
			exp:   func(e *vexp) { e.drops = append(e.drops, k); e.adds = append(e.adds, key(v.Name, !v.Mat)) }})
		add(vedit{kind: "view-def", desc: "view " + v.Name + ": definition edited", keys: []string{v.Name + "@def"}, judge: true,
			apply: func(s *schemaV) { x := s.view(v.Name); x.Def = x.Def + " LIMIT 10" },
			exp:   func(e *vexp) { e.defs[k] = true }})
		// rewrites of the definition that are no difference
		for i, rw := range []struct {
			what string
			f    func(string) string
		}{
			{"trailing ';'", func(d string) string { return d + ";" }},
			{"trailing newline and blanks", func(d string) string { return d + " \n\t " }},
			{"leading blanks", func(d string) string { return "  \n" + d }},
			{"CRLF line ends and other indentation", func(d string) string { return strings.ReplaceAll(d, "\n  ", "\r\n\t\t") + ";\n" }},
			{"line breaks replaced by single blanks", func(d string) string { return strings.ReplaceAll(d, "\n  ", " ") }},
			{"empty lines between the lines", func(d string) string { return strings.ReplaceAll(d, "\n  ", "\n\n \t\n  ") }},
			{"every blank replaced by a line break", func(d string) string { return strings.ReplaceAll(strings.ReplaceAll(d, "\n  ", " "), " ", "\n") }},
		} {
			rw := rw
			add(vedit{kind: "view-def-nonedit", desc: fmt.Sprintf("view %s: definition rewritten (%s)", v.Name, rw.what), keys: []string{v.Name + "@def"}, judge: true,
				apply: func(s *schemaV) { x := s.view(v.Name); x.Def = rw.f(x.Def) }, exp: func(e *vexp) {}})
			_ = i
		}
		// blanks inside a line are part of the text: reported (whether that is an edit is not the property's call: tie only)
		add(vedit{kind: "view-def-inner-blank", desc: "view " + v.Name + ": a blank doubled inside a line", keys: []string{v.Name + "@def"}, judge: false,
			apply: func(s *schemaV) { x := s.view(v.Name); x.Def = strings.Replace(x.Def, "SELECT ", "SELECT  ", 1) }, exp: func(e *vexp) { e.defs[k] = true }})
		for ci, col := range v.Cols {
			ci, col := ci, col
			if p.dialect == "sqlite" {
				continue
			}
			item := fmt.Sprintf("~C(%s:8)", col.Name)
			if col.Comment == nil {
				add(vedit{kind: "view-col-comment", desc: "view " + v.Name + "." + col.Name + ": add comment", keys: []string{v.Name + "." + col.Name}, judge: true,
					apply: func(s *schemaV) { s.view(v.Name).Cols[ci].Comment = sp("new") }, exp: func(e *vexp) { e.subs[k] = append(e.subs[k], item) }})
			} else {
				add(vedit{kind: "view-col-comment", desc: "view " + v.Name + "." + col.Name + ": change comment", keys: []string{v.Name + "." + col.Name}, judge: true,
					apply: func(s *schemaV) { s.view(v.Name).Cols[ci].Comment = sp("edited") }, exp: func(e *vexp) { e.subs[k] = append(e.subs[k], item) }})
				add(vedit{kind: "view-col-comment", desc: "view " + v.Name + "." + col.Name + ": drop comment", keys: []string{v.Name + "." + col.Name}, judge: true,
					apply: func(s *schemaV) { s.view(v.Name).Cols[ci].Comment = nil }, exp: func(e *vexp) { e.subs[k] = append(e.subs[k], item) }})
			}
		}
		for _, ix := range v.Idx {
			ix := ix
			add(vedit{kind: "view-index", desc: "view " + v.Name + ": drop index " + ix.Name, keys: []string{v.Name + "." + ix.Name}, judge: true,
				apply: func(s *schemaV) {
					x := s.view(v.Name)
					var keep []Idx
					for _, i := range x.Idx {
						if i.Name != ix.Name {
							keep = append(keep, i)
						}
					}
					x.Idx = keep
				}, exp: func(e *vexp) { e.subs[k] = append(e.subs[k], "-I("+ix.Name+")") }})
			add(vedit{kind: "view-index", desc: "view " + v.Name + ": flip UNIQUE of " + ix.Name, keys: []string{v.Name + "." + ix.Name}, judge: true,
				apply: func(s *schemaV) {
					x := s.view(v.Name)
					for i := range x.Idx {
						if x.Idx[i].Name == ix.Name {
							x.Idx[i].Unique = !x.Idx[i].Unique
						}
					}
				},
				exp:   func(e *vexp) { e.subs[k] = append(e.subs[k], "~I("+ix.Name+":256)") }})
			add(vedit{kind: "view-index", desc: "view " + v.Name + ": flip DESC of " + ix.Name, keys: []string{v.Name + "." + ix.Name}, judge: true,
				apply: func(s *schemaV) {
					x := s.view(v.Name)
					for i := range x.Idx {
						if x.Idx[i].Name == ix.Name {
							x.Idx[i].Parts[0].Desc = !x.Idx[i].Parts[0].Desc
						}
					}
				},
				exp:   func(e *vexp) { e.subs[k] = append(e.subs[k], "~I("+ix.Name+":512)") }})
		}
		if v.Mat {
			add(vedit{kind: "view-index", desc: "view " + v.Name + ": add index m_new", keys: []string{v.Name + ".m_new"}, judge: true,
				apply: func(s *schemaV) {
					x := s.view(v.Name)
					x.Idx = append(x.Idx, Idx{Name: "m_new", Parts: []Part{{Seq: 0, Col: v.Cols[0].Name}, {Seq: 1, Col: v.Cols[1].Name}}})
				}, exp: func(e *vexp) { e.subs[k] = append(e.subs[k], "+I(m_new)") }})
		}
	}
	for front := 0; front < 2; front++ {
		front := front
		nm := fmt.Sprintf("v_new%d", front)
		add(vedit{kind: "add-view", desc: "add view " + nm, keys: []string{nm}, judge: true,
			apply: func(s *schemaV) {
				nv := ViewSpec{Name: nm, Def: "SELECT 1 AS one", Cols: []VCol{{"one", nil}}}
				if front == 1 {
					s.Views = append([]ViewSpec{nv}, s.Views...)
				} else {
					s.Views = append(s.Views, nv)
				}
			}, exp: func(e *vexp) { e.adds = append(e.adds, key(nm, false)) }})
	}
	// a view that has the name of a table kept / a materialized twin of a plain view
	add(vedit{kind: "add-view", desc: "add a materialized view named like the plain view v_users", keys: []string{"v_users#twin"}, judge: true,
		apply: func(s *schemaV) { s.Views = append(s.Views, ViewSpec{Name: "v_users", Def: "SELECT 2 AS two", Mat: true, Cols: []VCol{{"two", nil}}}) },
		exp:   func(e *vexp) { e.adds = append(e.adds, key("v_users", true)) }})
	add(vedit{kind: "table-edit", desc: "add column zz_new to users", keys: []string{"T:users"}, judge: true,
		apply: func(s *schemaV) { t := s.S.table("users"); t.Cols = append(t.Cols, Col{Name: "zz_new", Type: p.tInt, Null: true}) },
		exp:   func(e *vexp) { e.tables = append(e.tables, "users/+C(zz_new)") }})
	add(vedit{kind: "table-edit", desc: "drop table posts", keys: []string{"T:posts"}, judge: true,
		apply: func(s *schemaV) { s.S.Tables = s.S.Tables[:1] },
		exp:   func(e *vexp) { e.tables = append(e.tables, "-T(posts)") }})
	c.w.Set("views_catalogue_"+p.dialect, len(cat))
	newExp := func() *vexp { return &vexp{subs: map[string][]string{}, defs: map[string]bool{}} }
	shuffleV := func(s schemaV) schemaV {
		d := s.clone()
		d.S = c.shuffle(d.S)
		for i := len(d.Views) - 1; i > 0; i-- {
			j := c.r.Intn(i + 1)
			d.Views[i], d.Views[j] = d.Views[j], d.Views[i]
		}
		for vi := range d.Views {
			ix := d.Views[vi].Idx
			for i := len(ix) - 1; i > 0; i-- {
				j := c.r.Intn(i + 1)
				ix[i], ix[j] = ix[j], ix[i]
			}
		}
		return d
	}
	// no difference
	c.viewOne("copy", "the schema with its views, deep copy", base, base, 0, newExp(), true)
	for i := 0; i < 5; i++ {
		c.viewOne("perm", "views, tables and lists shuffled", shuffleV(base), shuffleV(base), 0, newExp(), true)
	}
	// single edits
	for i := range cat {
		e := &cat[i]
		to := base.clone()
		e.apply(&to)
		x := newExp()
		e.exp(x)
		class := "edit1"
		if len(x.required(0)) == 0 {
			class = "nonedit"
		}
		c.w.Count("vedit:" + e.kind)
		c.viewOne(class, e.desc, base, to, 0, x, e.judge)
		c.viewOne(class, e.desc+" (shuffled)", shuffleV(base), shuffleV(to), 0, x, e.judge)
		if class == "edit1" {
			for _, m := range []int{mAddView, mDropView, mModifyView, 32, 64, 128, 256, 65535 &^ (mAddView | mDropView | mModifyView | 4), mAddView | mDropView | mModifyView} {
				c.viewOne("skip", fmt.Sprintf("%s (skip mask %d)", e.desc, m), base, to, m, x, e.judge)
			}
		}
	}
	// sets of edits
	n := 150
	if thorough {
		n = 4000
	}
	for k := 0; k < n; k++ {
		want := 2 + c.r.Intn(4)
		var pick []*vedit
		for tries := 0; len(pick) < want && tries < 40; tries++ {
			e := &cat[c.r.Intn(len(cat))]
			ok := true
			for _, q := range pick {
				if q == e || vconflict(q, e) {
					ok = false
				}
			}
			if ok {
				pick = append(pick, e)
			}
		}
		to := base.clone()
		x := newExp()
		judge := true
		var ds []string
		for _, e := range pick {
			e.apply(&to)
			e.exp(x)
			judge = judge && e.judge
			ds = append(ds, e.desc)
		}
		from := base
		if c.r.Chance(1, 2) {
			from, to = shuffleV(from), shuffleV(to)
		}
		mask := 0
		if c.r.Chance(1, 3) {
			mask = int(c.r.U64()&65535) &^ 4
		}
		c.w.Count(fmt.Sprintf("vmulti:%d-edits", len(pick)))
		c.viewOne("editN", strings.Join(ds, " + "), from, to, mask, x, judge)
	}
}

// vconflict: both edits touch the same view (an edit of the whole view conflicts with every edit inside it).
func vconflict(a, b *vedit) bool {
	for _, x := range a.keys {
		for _, y := range b.keys {
			sx := strings.FieldsFunc(x, func(r rune) bool { return r == '.' || r == '@' || r == '#' })
			sy := strings.FieldsFunc(y, func(r rune) bool { return r == '.' || r == '@' || r == '#' })
			if x == y || (sx[0] == sy[0] && (len(sx) == 1 || len(sy) == 1)) {
				return true
			}
		}
	}
	return false
}
