// Round 5: SQLite foreign keys under numeric symbols on BOTH sides.  The inspector reports an
// unnamed constraint under its ordinal ("0", "1", ...; sqlx.IsUint), so two inspected states of
// one table number the same keys differently as soon as a key is added, dropped or the keys
// are listed in another order.  Exhaustive family over a table t(x, y, z, w) with 2-3 such keys
// (different columns / referenced tables / actions, so they are distinguishable):
//
//	(a) the same keys listed in another order (all pairs of orders): nothing to report;
//	(b) a key added before / between / after the existing ones: exactly one AddForeignKey
//	    (under the ordinal the added key has on the desired side);
//	(c) a key dropped that is first / middle / last: exactly one DropForeignKey (under the
//	    ordinal the dropped key has on the current side);
//	(d) one dropped and one added together;
//
// each with every order of the desired keys.  The required list comes from the recipe.
package main

import (
	"fmt"
	"strconv"
	"strings"
)

func perms(n int) [][]int {
	if n == 0 {
		return [][]int{{}}
	}
	var out [][]int
	for _, p := range perms(n - 1) {
		for i := 0; i <= len(p); i++ {
			q := append([]int(nil), p[:i]...)
			q = append(q, n-1)
			q = append(q, p[i:]...)
			out = append(out, q)
		}
	}
	return out
}

func (c *ctx) numfkShift() {
	type key struct{ name, col, ref, onDel, refCol string }
	setA := []key{{"kx", "x", "a", "CASCADE", "id"}, {"ky", "y", "b", "SET NULL", "id"}, {"kz", "z", "c", "", "id"}}
	// set B: two keys that differ in the referenced column only (x -> a.id, x -> a.code)
	setB := []key{{"kx", "x", "a", "CASCADE", "id"}, {"kx2", "x", "a", "SET NULL", "code"}, {"ky", "y", "b", "SET NULL", "id"}}
	extra := key{"kw", "w", "a", "", "id"}
	mk := func(keys []key) Schema {
		ref := func(n string) Table {
			return Table{Name: n, Cols: []Col{{Name: "id", Type: "integer"}, {Name: "code", Type: "integer"}}}
		}
		t := Table{Name: "t", Cols: []Col{{Name: "x", Type: "integer", Null: true}, {Name: "y", Type: "integer", Null: true},
			{Name: "z", Type: "integer", Null: true}, {Name: "w", Type: "integer", Null: true}}}
		for i, k := range keys {
			t.FKs = append(t.FKs, FK{Symbol: strconv.Itoa(i), Cols: []string{k.col}, RefTable: k.ref, RefCols: []string{k.refCol}, OnDelete: k.onDel})
		}
		return Schema{Name: "main", Tables: []Table{ref("a"), ref("b"), ref("c"), t}}
	}
	names := func(keys []key) string {
		var s []string
		for _, k := range keys {
			s = append(s, k.name)
		}
		return strings.Join(s, ",")
	}
	pick := func(keys []key, p []int) []key {
		out := make([]key, len(p))
		for i, j := range p {
			out[i] = keys[j]
		}
		return out
	}
	for _, base := range [][]key{setA[:2], setA, setB} {
		n := len(base)
		// (a) every pair of orders
		for _, p1 := range perms(n) {
			for _, p2 := range perms(n) {
				f, t := pick(base, p1), pick(base, p2)
				c.w.Count("numfk-shift:reorder")
				c.one(c.id("numfk", 9), "numfk", fmt.Sprintf("numfk-shift: current [%s] desired [%s] (same keys)", names(f), names(t)), mk(f), mk(t), false, 0, nil, true)
			}
		}
		for drop := -1; drop < n; drop++ {
			for add := 0; add < 2; add++ {
				if drop < 0 && add == 0 {
					continue
				}
				var rest []key
				for i, k := range base {
					if i != drop {
						rest = append(rest, k)
					}
				}
				if add == 1 {
					rest = append(rest, extra)
				}
				for _, p := range perms(len(rest)) {
					to := pick(rest, p)
					var exp []string
					addPos := -1
					desc := fmt.Sprintf("numfk-shift: current [%s] desired [%s]", names(base), names(to))
					if drop >= 0 {
						exp = append(exp, fmt.Sprintf("t/-FK(%d)", drop))
						desc += fmt.Sprintf(", %s (#%d) dropped", base[drop].name, drop)
						if drop < len(to) {
							desc += " (ordinal of the dropped key is taken)"
						}
					}
					if add == 1 {
						for i, k := range to {
							if k == extra {
								exp = append(exp, fmt.Sprintf("t/+FK(%d)", i))
								addPos = i
								desc += fmt.Sprintf(", kw added as #%d", i)
							}
						}
					}
					kind := map[[2]bool]string{{true, false}: "drop", {false, true}: "add", {true, true}: "drop+add"}[[2]bool{drop >= 0, add == 1}]
					c.w.Count("numfk-shift:" + kind)
					// ordinals are positions, not names: the dropped key may be reported under its current
					// ordinal or under any ordinal that no key of the desired table carries
					alts := [][]string{exp}
					if drop >= 0 {
						for o := len(to); o < len(to)+len(base)+1; o++ {
							if o == drop {
								continue
							}
							a := []string{fmt.Sprintf("t/-FK(%d)", o)}
							if addPos >= 0 {
								a = append(a, fmt.Sprintf("t/+FK(%d)", addPos))
							}
							alts = append(alts, a)
						}
					}
					c.oneAlt(c.id("numfk", 9), "numfk", desc, mk(base), mk(to), false, 0, alts, true)
				}
			}
		}
	}
}
