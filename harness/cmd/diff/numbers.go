// Defaults at the edges of the number types (round 4, class 2).
//
// defaultChanged must report a change exactly when the two default values differ *as the column
// type sees them*: integers compared as integers (also above 2^53, where float64 no longer tells
// neighbours apart, up to the ends of bigint / bigint unsigned), decimals as decimals of any
// length, doubles as IEEE binary64 values; equal values in different spellings (1e3 / 1000, +5,
// 007, 1.50 / 1.5) are no change for a differ that compares values (MySQL); the PostgreSQL and
// SQLite differs compare the texts (the database normalises them before), so for them only the
// pairs of *different* values are judged and the spellings are tie-only.
//
// The required answer is computed with math/big (big.Int / big.Rat; binary64 = big.Float with a
// 53-bit mantissa, round to nearest even), never with float64.
package main

import (
	"fmt"
	"math/big"
	"strings"
)

// numRat parses a plain numeric literal ([sign] digits [. digits] [e [sign] digits]) exactly.
func numRat(s string) (*big.Rat, bool) {
	s = strings.Trim(s, "' ")
	r, ok := new(big.Rat).SetString(s)
	if !ok || strings.ContainsAny(s, "/xX_") {
		return nil, false
	}
	return r, true
}

// numSame: do the two literals denote the same value for a column of the kind?
func numSame(kind, a, b string) bool {
	ra, ok1 := numRat(a)
	rb, ok2 := numRat(b)
	if !ok1 || !ok2 {
		panic("numSame: not a number: " + a + " / " + b)
	}
	if kind == "double" {
		fa := new(big.Float).SetPrec(53).SetMode(big.ToNearestEven).SetRat(ra)
		fb := new(big.Float).SetPrec(53).SetMode(big.ToNearestEven).SetRat(rb)
		return fa.Cmp(fb) == 0
	}
	return ra.Cmp(rb) == 0
}

type numCol struct {
	name, typ, kind string // kind: int | uint | decimal | double
}

func numCols(dialect string) []numCol {
	switch dialect {
	case "mysql":
		return []numCol{{"i64", "bigint", "int"}, {"u64", "bigint unsigned", "uint"}, {"dec", "decimal(60,25)", "decimal"}, {"dbl", "double", "double"}}
	case "postgres":
		return []numCol{{"i64", "bigint", "int"}, {"dec", "numeric(60,25)", "decimal"}, {"dbl", "double precision", "double"}}
	}
	return []numCol{{"i64", "integer", "int"}, {"dec", "decimal(60,25)", "decimal"}, {"dbl", "real", "double"}}
}

func numPairs(kind string) [][2]string {
	ints := [][2]string{
		{"9223372036854775807", "9223372036854775806"}, {"9007199254740992", "9007199254740993"}, {"1152921504606846976", "1152921504606846977"},
		{"9007199254740993", "9007199254740994"}, {"4611686018427387904", "4611686018427387905"},
		{"1000", "1e3"}, {"1001", "1e3"}, {"5", "+5"}, {"7", "007"}, {"8", "007"}, {"1000", "1000.0"}, {"0", "-0"}, {"12", "12"},
	}
	switch kind {
	case "int":
		return append(ints, [][2]string{
			{"-9223372036854775808", "-9223372036854775807"}, {"-9007199254740992", "-9007199254740993"}, {"-1152921504606846976", "-1152921504606846977"},
			{"-5", "5"}, {"-1000", "-1e3"},
		}...)
	case "uint":
		return append(ints, [][2]string{
			{"18446744073709551615", "18446744073709551614"}, {"9223372036854775808", "9223372036854775809"}, {"9223372036854775807", "9223372036854775808"},
			{"18446744073709551615", "9223372036854775808"},
		}...)
	case "decimal":
		return [][2]string{
			{"1.0000000000000001", "1.0"}, {"1.00000000000000000001", "1.00000000000000000002"},
			{"12345678901234567890.12345678901234567890", "12345678901234567890.12345678901234567891"},
			{"100000000000000000000", "100000000000000000001"}, {"9007199254740993", "9007199254740992"}, {"0.3", "0.30000000000000004"},
			{"-1.0000000000000001", "-1.0"}, {"1.5", "2.5"},
			{"0.1", "0.10"}, {"1.50", "1.5"}, {"1e3", "1000"}, {"+5", "5"}, {"007.5", "7.5"}, {"1.5e1", "15"}, {"0", "0.000"},
		}
	}
	return [][2]string{ // double
		{"1.0000000000000001", "1.0"}, {"1.000000000000001", "1.0"}, {"9007199254740993", "9007199254740992"}, {"9007199254740994", "9007199254740992"},
		{"0.1", "0.10"}, {"1e3", "1000"}, {"+5", "5"}, {"007.5", "7.5"}, {"0.3", "0.30000000000000004"}, {"0.1", "0.1000000000000000055511151231257827"},
		{"-1.0000000000000001", "-1.0"}, {"1.5", "2.5"}, {"1e300", "1.0000000000000001e300"}, {"1e300", "1.000000000000001e300"},
	}
}

func (c *ctx) numbers() {
	p := c.p
	var cs, co *string
	var eng *string
	if p.charset {
		cs, co = sp(p.tblCS), sp(p.tblCO)
		eng = sp("InnoDB")
	}
	valueDiffer := p.dialect == "mysql" // compares values; the others compare the normalised texts
	for _, nc := range numCols(p.dialect) {
		for _, pr := range numPairs(nc.kind) {
			for dir := 0; dir < 2; dir++ {
				a, b := pr[dir], pr[1-dir]
				if a == b && dir == 1 {
					continue
				}
				mk := func(def string) Schema {
					d := Def{V: def}
					return Schema{Name: "main", Tables: []Table{{Name: "nums", Charset: cs, Collation: co, Engine: eng,
						Cols: []Col{{Name: "id", Type: p.tInt}, {Name: nc.name, Type: nc.typ, Null: true, Def: &d}}}}}
				}
				same := numSame(nc.kind, a, b)
				desc := fmt.Sprintf("nums.%s %s: default %s -> %s", nc.name, nc.typ, a, b)
				var exp []string
				class := "nonedit"
				if !same {
					exp = []string{fmt.Sprintf("nums/~C(%s:%d)", nc.name, kDefault)}
					class = "edit1"
				}
				e := &Edit{Sig: fmt.Sprintf("num-default(%s %s -> %s)", nc.kind, a, b), Exp: exp}
				// equal values written differently: judged only for a differ that compares values
				oracle := !same || valueDiffer || a == b
				c.w.Count("numbers:" + nc.kind)
				c.one(c.id("num", 7), class, desc, mk(a), mk(b), false, 0, exp, oracle, e)
				// the same literals quoted on one side (MySQL reports defaults of numeric columns quoted or not)
				if p.dialect == "mysql" {
					c.one(c.id("numq", 7), class, desc+" (current value quoted)", mk("'"+a+"'"), mk(b), false, 0, exp, oracle, e)
				}
			}
		}
	}
}
