// Stage "cli" (round 4, class 1): the comparison mode the CLI runs the differs in.
//
// Every CLI diff passes schema.DiffNormalized() together with the options of the selected env's
// diff policy (cmd/atlas/internal/cmdapi/cmdapi_oss.go: diffOptions, project.go: (*Diff).Options).
// The stage runs the real binary ($ATLAS_BIN) on pairs of SQLite files,
//
//	atlas schema diff  --from sqlite://from.db --to sqlite://to.db            (+ --dev-url | --env local)
//	atlas schema apply -u sqlite://from.db --to sqlite://to.db --dry-run      (+ --dev-url | --env local)
//	atlas migrate diff --dir file://migrations --to sqlite://to.db            (+ --dev-url | --env local)
//
// under six ways of (not) writing a diff policy that does not concern the edit -- no project file,
// an env without a diff block, an env with an empty diff block, an env whose skip policy names
// kinds the edit does not produce, the same policy at project level, a project-level policy next to
// an env-level block with a driver setting only -- and requires of the planned statements:
//
//   - they are the same under all six configurations (class cli-config-dependent),
//   - they are what the API gives: sqlite client, InspectRealm of both files, SchemaDiff with
//     schema.DiffNormalized(), PlanChanges (class cli-differs-from-api),
//   - an edit is planned, a non-edit is "synced" (classes cli-edit-not-planned, cli-nonedit-planned).
//
// The edits are the ones whose report depends on the mode (CheckDiffMode: in normalized mode named
// CHECKs are paired by name and their expressions compared; otherwise checksSimilarDiff pairs by name
// or expression and compares nothing): expression of a named CHECK edited, two named CHECKs swapping
// their expressions, a named CHECK renamed -- alone and next to mode-independent edits -- plus
// mode-independent controls.  Oracle only (no model).
package main

import (
	"context"
	"fmt"
	"os"
	"path/filepath"
	"strings"
	"sync"

	"ariga.io/atlas/sql/schema"
	"ariga.io/atlas/sql/sqlclient"
	_ "ariga.io/atlas/sql/sqlite"

	"verifharness/internal/clirun"
)

type cliCheck struct{ name, expr string }

type cliTable struct {
	name   string
	cols   []string // column definitions
	cons   []string // other table constraints
	checks []cliCheck
	idx    []string // CREATE INDEX statements
}

func (t cliTable) sql() []string {
	parts := append(append([]string(nil), t.cols...), t.cons...)
	for _, k := range t.checks {
		if k.name != "" {
			parts = append(parts, fmt.Sprintf("CONSTRAINT `%s` CHECK (%s)", k.name, k.expr))
		} else {
			parts = append(parts, fmt.Sprintf("CHECK (%s)", k.expr))
		}
	}
	return append([]string{fmt.Sprintf("CREATE TABLE `%s` (%s)", t.name, strings.Join(parts, ", "))}, t.idx...)
}

type cliDB []cliTable

func (d cliDB) sql() []string {
	var out []string
	for _, t := range d {
		out = append(out, t.sql()...)
	}
	return out
}

func (d cliDB) clone() cliDB {
	var out cliDB
	for _, t := range d {
		u := t
		u.cols = append([]string(nil), t.cols...)
		u.checks = append([]cliCheck(nil), t.checks...)
		u.idx = append([]string(nil), t.idx...)
		out = append(out, u)
	}
	return out
}

type cliEdit struct {
	desc    string
	apply   func(d cliDB) cliDB
	nonEdit bool
}

type cliConfig struct {
	name    string
	project string // "" = no project file
}

const cliDev = "sqlite://dev?mode=memory"

func cliConfigs() []cliConfig {
	skip := "diff {\n    skip {\n      drop_schema = true\n      add_schema = true\n    }\n  }\n"
	env := func(body string) string {
		return "env \"local\" {\n  dev = \"" + cliDev + "\"\n" + body + "}\n"
	}
	return []cliConfig{
		{"no project file", ""},
		{"env without a diff block", env("")},
		{"env with an empty diff block", env("  diff {\n  }\n")},
		{"env with a skip policy for other kinds", env("  " + skip)},
		{"project-level skip policy for other kinds", skip + env("")},
		{"project-level policy and an env-level diff block with a driver setting only", skip + env("  diff {\n    concurrent_index {\n      create = true\n    }\n  }\n")},
	}
}

func cliBases() []cliDB {
	return []cliDB{
		{{name: "t", cols: []string{"`id` integer NOT NULL PRIMARY KEY", "`age` integer NULL", "`score` real NULL", "`name` text NULL"},
			checks: []cliCheck{{"age_pos", "age > 0"}, {"score_nn", "score >= 0"}, {"", "id > 0"}}}},
		{{name: "users", cols: []string{"`id` integer NOT NULL PRIMARY KEY", "`name` text NOT NULL"}, idx: []string{"CREATE INDEX `users_name` ON `users` (`name`)"}},
			{name: "posts", cols: []string{"`id` integer NOT NULL PRIMARY KEY", "`user_id` integer NOT NULL", "`rank` integer NOT NULL DEFAULT 1"},
				cons: []string{"CONSTRAINT `posts_user` FOREIGN KEY (`user_id`) REFERENCES `users` (`id`) ON DELETE CASCADE"},
				checks: []cliCheck{{"rank_pos", "rank > 0"}, {"rank_max", "rank < 100"}}}},
	}
}

func cliEdits(b cliDB) []cliEdit {
	var out []cliEdit
	out = append(out, cliEdit{desc: "nothing edited", apply: func(d cliDB) cliDB { return d }, nonEdit: true})
	for ti, t := range b {
		ti := ti
		var named []int
		for ki, k := range t.checks {
			ki, k := ki, k
			if k.name == "" {
				out = append(out, cliEdit{desc: fmt.Sprintf("%s: expression of the unnamed check (%s) edited", t.name, k.expr),
					apply: func(d cliDB) cliDB { d[ti].checks[ki].expr += " + 1"; return d }})
				continue
			}
			named = append(named, ki)
			out = append(out, cliEdit{desc: fmt.Sprintf("%s: expression of the named check %s edited", t.name, k.name),
				apply: func(d cliDB) cliDB { d[ti].checks[ki].expr += " + 1"; return d }})
			out = append(out, cliEdit{desc: fmt.Sprintf("%s: named check %s renamed", t.name, k.name),
				apply: func(d cliDB) cliDB { d[ti].checks[ki].name += "_v2"; return d }})
			out = append(out, cliEdit{desc: fmt.Sprintf("%s: expression of the named check %s edited and a column added", t.name, k.name),
				apply: func(d cliDB) cliDB {
					d[ti].checks[ki].expr += " + 1"
					d[ti].cols = append(d[ti].cols, "`extra` text NULL")
					return d
				}})
			out = append(out, cliEdit{desc: fmt.Sprintf("%s: named check %s dropped", t.name, k.name),
				apply: func(d cliDB) cliDB {
					d[ti].checks = append(d[ti].checks[:ki:ki], d[ti].checks[ki+1:]...)
					return d
				}})
		}
		if len(named) >= 2 {
			a, c := named[0], named[1]
			out = append(out, cliEdit{desc: fmt.Sprintf("%s: the named checks %s and %s swap their expressions", t.name, t.checks[a].name, t.checks[c].name),
				apply: func(d cliDB) cliDB {
					d[ti].checks[a].expr, d[ti].checks[c].expr = d[ti].checks[c].expr, d[ti].checks[a].expr
					return d
				}})
		}
		if len(t.checks) > 0 {
			out = append(out, cliEdit{desc: t.name + ": a named check added", apply: func(d cliDB) cliDB {
				d[ti].checks = append(d[ti].checks, cliCheck{"id_small", "id < 1000000"})
				return d
			}})
		}
		// mode-independent controls
		out = append(out, cliEdit{desc: t.name + ": a column added", apply: func(d cliDB) cliDB { d[ti].cols = append(d[ti].cols, "`extra` text NULL"); return d }})
		out = append(out, cliEdit{desc: t.name + ": an index added", apply: func(d cliDB) cliDB {
			d[ti].idx = append(d[ti].idx, fmt.Sprintf("CREATE INDEX `%s_id2` ON `%s` (`id`)", d[ti].name, d[ti].name))
			return d
		}})
	}
	out = append(out, cliEdit{desc: "a table added", apply: func(d cliDB) cliDB {
		return append(d, cliTable{name: "n_tab", cols: []string{"`id` integer NOT NULL PRIMARY KEY"}, checks: []cliCheck{{"n_pos", "id > 0"}}})
	}})
	return out
}

// stmts reduces the CLI's plan text to its statements ("synced" = none).
func cliStmts(out string) []string {
	var l []string
	for _, ln := range strings.Split(out, "\n") {
		ln = strings.TrimSpace(ln)
		if ln == "" || strings.HasPrefix(ln, "--") || strings.HasPrefix(ln, "Schemas are synced") || strings.HasPrefix(ln, "Schema is synced") {
			continue
		}
		l = append(l, strings.TrimSuffix(ln, ";"))
	}
	return l
}

// apiPlan is what the library gives for the two files in the CLI's comparison mode.
func apiPlan(dir string) (changes string, stmts []string, err error) {
	ctx := context.Background()
	open := func(f string) (*sqlclient.Client, *schema.Realm, error) {
		c, err := sqlclient.Open(ctx, "sqlite://"+filepath.Join(dir, f))
		if err != nil {
			return nil, nil, err
		}
		r, err := c.InspectRealm(ctx, nil)
		return c, r, err
	}
	cf, from, err := open("from.db")
	if err != nil {
		return "", nil, err
	}
	defer cf.Close()
	ct, to, err := open("to.db")
	if err != nil {
		return "", nil, err
	}
	defer ct.Close()
	from.Schemas[0].Name, to.Schemas[0].Name = "", ""
	cs, err := ct.SchemaDiff(from.Schemas[0], to.Schemas[0], schema.DiffNormalized())
	if err != nil {
		return "", nil, err
	}
	changes = showSchemaChanges(cs, nil)
	if len(cs) == 0 {
		return changes, nil, nil
	}
	p, err := ct.PlanChanges(ctx, "plan", cs)
	if err != nil {
		return changes, nil, err
	}
	for _, c := range p.Changes {
		stmts = append(stmts, strings.TrimSuffix(c.Cmd, ";"))
	}
	return changes, stmts, nil
}

func (c *ctx) cli(thorough bool) {
	c.w.Rule = "a case is non-trivial when the CLI planned at least one statement; key = command, configuration, edit"
	c.w.Exhaust = true
	cfgs := cliConfigs()
	type job struct {
		id   string
		bi   int
		from cliDB
		e    cliEdit
	}
	var jobs []job
	for bi, b := range cliBases() {
		for ei, e := range cliEdits(b) {
			jobs = append(jobs, job{fmt.Sprintf("cli-b%d-%d", bi, ei), bi, b, e})
		}
	}
	var mu sync.Mutex
	var wg sync.WaitGroup
	sem := make(chan struct{}, 8)
	for _, j := range jobs {
		j := j
		wg.Add(1)
		sem <- struct{}{}
		go func() {
			defer wg.Done()
			defer func() { <-sem }()
			c.cliCase(&mu, j.id, j.from, j.e, cfgs)
		}()
	}
	wg.Wait()
}

func (c *ctx) cliCase(mu *sync.Mutex, id string, from cliDB, e cliEdit, cfgs []cliConfig) {
	dir, err := os.MkdirTemp("", "c02cli")
	if err != nil {
		panic(err)
	}
	defer os.RemoveAll(dir)
	to := e.apply(from.clone())
	if err := clirun.Exec(filepath.Join(dir, "from.db"), from.sql()...); err != nil {
		panic(err)
	}
	if err := clirun.Exec(filepath.Join(dir, "to.db"), to.sql()...); err != nil {
		panic(err)
	}
	// the current state as a migration directory, for `migrate diff`
	var mig []string
	for _, s := range from.sql() {
		mig = append(mig, s+";")
	}
	if err := clirun.WriteDir(filepath.Join(dir, "migrations"), map[string]string{"1_init.sql": strings.Join(mig, "\n") + "\n"}); err != nil {
		panic(err)
	}
	apiChanges, apiStmts, apiErr := apiPlan(dir)
	V := func(sub, class, msg string) {
		mu.Lock()
		c.w.Violation(id+"-"+sub, class, "[cli] "+e.desc+": "+msg)
		mu.Unlock()
	}
	type cmdSpec struct {
		name string
		args []string
		all  bool // every configuration (else: the first three)
	}
	cmds := []cmdSpec{
		{"schema diff", []string{"schema", "diff", "--from", "sqlite://from.db", "--to", "sqlite://to.db"}, true},
		{"schema apply --dry-run", []string{"schema", "apply", "-u", "sqlite://from.db", "--to", "sqlite://to.db", "--dry-run"}, false},
	}
	for _, cs := range cmds {
		var first []string
		for ci, cf := range cfgs {
			if !cs.all && ci > 2 {
				break
			}
			args := append([]string(nil), cs.args...)
			if cf.project == "" {
				args = append(args, "--dev-url", cliDev)
			} else {
				os.WriteFile(filepath.Join(dir, "atlas.hcl"), []byte(cf.project), 0o644)
				args = append(args, "--env", "local", "-c", "file://atlas.hcl")
			}
			r := clirun.Run(dir, nil, args...)
			st := cliStmts(r.Stdout)
			obs := strings.Join(st, "; ")
			if r.Exit != 0 {
				obs = "error: " + strings.TrimSpace(r.Stderr)
			}
			sub := fmt.Sprintf("%s-c%d", strings.Fields(cs.name)[1], ci)
			mu.Lock()
			c.w.ImplOnly(id+"-"+sub, fmt.Sprintf("%s [%s] %s => %s", cs.name, cf.name, e.desc, obs))
			c.w.Count("cli:" + cs.name)
			if len(st) > 0 {
				c.w.NonTrivial(cs.name + "|" + cf.name + "|" + e.desc)
			}
			mu.Unlock()
			if r.Exit != 0 {
				V(sub, "cli-error", fmt.Sprintf("`atlas %s` (%s) failed: %s", cs.name, cf.name, strings.TrimSpace(r.Stderr)))
				continue
			}
			if ci == 0 {
				first = st
				if apiErr != nil {
					V(sub, "cli-api-error", "the API diff / plan of the two files failed: "+apiErr.Error())
				} else if cs.name == "schema diff" && strings.Join(st, "\x00") != strings.Join(apiStmts, "\x00") {
					V(sub, "cli-differs-from-api", fmt.Sprintf("`atlas %s` without a project file plans %q, the API (SchemaDiff with DiffNormalized: %s; PlanChanges) plans %q", cs.name, st, apiChanges, apiStmts))
				}
				if e.nonEdit && len(st) > 0 {
					V(sub, "cli-nonedit-planned", fmt.Sprintf("`atlas %s` plans %q although nothing differs", cs.name, st))
				}
				if !e.nonEdit && len(st) == 0 {
					V(sub, "cli-edit-not-planned", fmt.Sprintf("`atlas %s` without a project file says the schemas are synced", cs.name))
				}
				continue
			}
			if strings.Join(st, "\x00") != strings.Join(first, "\x00") {
				V(sub, "cli-config-dependent", fmt.Sprintf("`atlas %s` plans %q without a project file and %q with: %s", cs.name, first, st, cf.name))
			}
		}
	}
	// migrate diff: the directory holds the current state; the file it writes is the plan
	var first string
	for ci, cf := range cfgs[:3] {
		mdir := filepath.Join(dir, fmt.Sprintf("mig%d", ci))
		if err := clirun.WriteDir(mdir, map[string]string{"1_init.sql": strings.Join(mig, "\n") + "\n"}); err != nil {
			panic(err)
		}
		args := []string{"migrate", "diff", "next", "--dir", "file://" + mdir, "--to", "sqlite://to.db"}
		if cf.project == "" {
			args = append(args, "--dev-url", cliDev)
		} else {
			os.WriteFile(filepath.Join(dir, "atlas.hcl"), []byte(cf.project), 0o644)
			args = append(args, "--env", "local", "-c", "file://atlas.hcl")
		}
		r := clirun.Run(dir, nil, args...)
		var plan string
		if fs, _ := filepath.Glob(filepath.Join(mdir, "*_next.sql")); len(fs) == 1 {
			b, _ := os.ReadFile(fs[0])
			plan = strings.Join(cliStmts(string(b)), "; ")
		}
		sub := fmt.Sprintf("migrate-c%d", ci)
		mu.Lock()
		c.w.ImplOnly(id+"-"+sub, fmt.Sprintf("migrate diff [%s] %s => %s", cf.name, e.desc, plan))
		c.w.Count("cli:migrate diff")
		if plan != "" {
			c.w.NonTrivial("migrate diff|" + cf.name + "|" + e.desc)
		}
		mu.Unlock()
		if r.Exit != 0 {
			V(sub, "cli-error", fmt.Sprintf("`atlas migrate diff` (%s) failed: %s", cf.name, strings.TrimSpace(r.Stderr)))
			continue
		}
		if ci == 0 {
			first = plan
			if e.nonEdit && plan != "" {
				V(sub, "cli-nonedit-planned", fmt.Sprintf("`atlas migrate diff` writes %q although nothing differs", plan))
			}
			if !e.nonEdit && plan == "" {
				V(sub, "cli-edit-not-planned", "`atlas migrate diff` without a project file writes no migration file")
			}
			continue
		}
		if plan != first {
			V(sub, "cli-config-dependent", fmt.Sprintf("`atlas migrate diff` writes %q without a project file and %q with: %s", first, plan, cf.name))
		}
	}
}
