// A database/sql driver registered under the name "postgres" (the harness does not link
// lib/pq) so that the real opener of sql/postgres can build a connection-backed differ with a
// schema scope (conn.schema = the search_path of the URL).  It answers the version query of
// postgres.Open, answers `false` to every `SELECT x = y` (the database-side comparison of
// default expressions: "not equal", which is also what the connection-less differ assumes)
// and returns no rows otherwise.
package main

import (
	"context"
	"database/sql"
	"database/sql/driver"
	"errors"
	"io"
	"strings"

	"ariga.io/atlas/sql/schema"
	"ariga.io/atlas/sql/sqlclient"
)

type (
	fakePG   struct{}
	fakeConn struct{}
	fakeStmt struct{ q string }
	fakeRows struct {
		cols []string
		rows [][]driver.Value
	}
)

func init() { sql.Register("postgres", fakePG{}) }

func (fakePG) Open(string) (driver.Conn, error)             { return fakeConn{}, nil }
func (fakeConn) Prepare(q string) (driver.Stmt, error)      { return fakeStmt{q}, nil }
func (fakeConn) Close() error                               { return nil }
func (fakeConn) Begin() (driver.Tx, error)                  { return nil, errors.New("fakepg: no transactions") }
func (fakeStmt) Close() error                               { return nil }
func (fakeStmt) NumInput() int                              { return -1 }
func (fakeStmt) Exec([]driver.Value) (driver.Result, error) { return driver.RowsAffected(0), nil }
func (s fakeStmt) Query([]driver.Value) (driver.Rows, error) { return answer(s.q), nil }
func (fakeConn) QueryContext(_ context.Context, q string, _ []driver.NamedValue) (driver.Rows, error) {
	return answer(q), nil
}

func answer(q string) driver.Rows {
	switch {
	case strings.Contains(q, "server_version_num"):
		return &fakeRows{cols: []string{"a", "b", "c"}, rows: [][]driver.Value{{"150000", "heap", nil}}}
	case strings.HasPrefix(q, "SELECT ") && strings.Contains(q, " = "):
		return &fakeRows{cols: []string{"eq"}, rows: [][]driver.Value{{false}}}
	}
	return &fakeRows{cols: []string{"x"}}
}

func (r *fakeRows) Columns() []string { return r.cols }
func (r *fakeRows) Close() error      { return nil }
func (r *fakeRows) Next(dst []driver.Value) error {
	if len(r.rows) == 0 {
		return io.EOF
	}
	copy(dst, r.rows[0])
	r.rows = r.rows[1:]
	return nil
}

// scopedPGDiffer opens the real PostgreSQL driver over the fake connection with the given
// search_path and returns its differ.
func scopedPGDiffer(ns string) schema.Differ {
	c, err := sqlclient.Open(context.Background(), "postgres://u:p@localhost:5432/db?sslmode=disable&search_path="+ns)
	if err != nil {
		panic(err)
	}
	return c.Driver
}
