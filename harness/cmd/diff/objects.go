// Round 5, stage `objects`: enum types listed in Schema.Objects -- postgres SchemaObjectDiff
// (DropObject / ModifyObject / AddObject, matched by the type name) inside SchemaDiff of
// postgres.DefaultDiff, tied to coq/theories/Diff/DiffObjects.v (`model_diff objects`).
//
//	<id> O postgres <mask> <schema_o> <schema_o>      schema_o = <schema> <n> { <T> <nvalues> { <value> } }
//
// Required (recipe): a dropped / added enum, one ModifyObject for an enum whose value list
// differs (a value added anywhere, removed, two values swapped); the same enums listed in another
// order: nothing.  The tables do not use the enums (the type of a column is C02's column part).
package main

import (
	"fmt"
	"reflect"
	"sort"
	"strconv"
	"strings"

	"ariga.io/atlas/sql/postgres"
	"ariga.io/atlas/sql/schema"
)

type (
	EnumSpec struct {
		T      string
		Values []string
	}
	schemaO struct {
		S     Schema
		Enums []EnumSpec
	}
)

func (s schemaO) clone() schemaO {
	d := schemaO{S: s.S.clone()}
	for _, e := range s.Enums {
		d.Enums = append(d.Enums, EnumSpec{e.T, append([]string(nil), e.Values...)})
	}
	return d
}

func buildO(s schemaO) *schema.Schema {
	g := build("postgres", s.S)
	for _, e := range s.Enums {
		g.Objects = append(g.Objects, &schema.EnumType{T: e.T, Values: append([]string(nil), e.Values...), Schema: g})
	}
	return g
}

func tokSchemaO(g *schema.Schema) string {
	w := []string{tokSchema(g), strconv.Itoa(len(g.Objects))}
	for _, o := range g.Objects {
		e := o.(*schema.EnumType)
		w = append(w, hx(e.T), strconv.Itoa(len(e.Values)))
		for _, v := range e.Values {
			w = append(w, hx(v))
		}
	}
	return strings.Join(w, " ")
}

func hxs(vs []string) string {
	var o []string
	for _, v := range vs {
		o = append(o, hx(v))
	}
	return strings.Join(o, ",")
}

func showOChange(c schema.Change) string {
	switch c := c.(type) {
	case *schema.AddObject:
		return "+O(" + c.O.(*schema.EnumType).T + ")"
	case *schema.DropObject:
		return "-O(" + c.O.(*schema.EnumType).T + ")"
	case *schema.ModifyObject:
		return "~O(" + c.From.(*schema.EnumType).T + ")[" + hxs(c.From.(*schema.EnumType).Values) + ">" + hxs(c.To.(*schema.EnumType).Values) + "]"
	case *schema.AddTable, *schema.DropTable, *schema.ModifyTable:
		return showSChange(c)
	}
	return "?" + reflect.TypeOf(c).String()
}

const (
	mAddObject    = 8192
	mDropObject   = 16384
	mModifyObject = 32768
)

func (c *ctx) objects(thorough bool) {
	c.w.Rule = "an object case is non-trivial when the differ returned at least one change or an error, or the pair differs in order only; key = skip mask, recipe, answer"
	c.w.Exhaust = true
	p := newProfile("postgres")
	oc := &ctx{w: c.w, p: p, r: c.r, n: c.n, differ: postgres.DefaultDiff}
	tokDialect = "postgres"
	b := bases(p)[0].clone()
	seqParts(&b)
	base := schemaO{S: b, Enums: []EnumSpec{{"status", []string{"a", "b"}}, {"kind", []string{"x", "y", "z"}}, {"one", []string{"v"}}}}
	type oedit struct {
		desc  string
		key   string
		apply func(*schemaO)
		exp   []string
	}
	var cat []oedit
	find := func(s *schemaO, t string) *EnumSpec {
		for i := range s.Enums {
			if s.Enums[i].T == t {
				return &s.Enums[i]
			}
		}
		return nil
	}
	for _, e := range base.Enums {
		e := e
		cat = append(cat, oedit{"drop enum " + e.T, e.T, func(s *schemaO) {
			var keep []EnumSpec
			for _, x := range s.Enums {
				if x.T != e.T {
					keep = append(keep, x)
				}
			}
			s.Enums = keep
		}, []string{"-O(" + e.T + ")"}})
		mod := func(what string, f func([]string) []string) {
			nv := f(append([]string(nil), e.Values...))
			exp := []string{"~O(" + e.T + ")[" + hxs(e.Values) + ">" + hxs(nv) + "]"}
			if strings.Join(nv, "\x00") == strings.Join(e.Values, "\x00") {
				exp = nil
			}
			cat = append(cat, oedit{"enum " + e.T + ": " + what, e.T, func(s *schemaO) { find(s, e.T).Values = append([]string(nil), nv...) }, exp})
		}
		mod("value added at the end", func(v []string) []string { return append(v, "new") })
		mod("value added in front", func(v []string) []string { return append([]string{"new"}, v...) })
		mod("value added after the first", func(v []string) []string { return append([]string{v[0], "new"}, v[1:]...) })
		mod("last value removed", func(v []string) []string { return v[:len(v)-1] })
		mod("first value removed", func(v []string) []string { return v[1:] })
		mod("values reversed", func(v []string) []string {
			for i, j := 0, len(v)-1; i < j; i, j = i+1, j-1 {
				v[i], v[j] = v[j], v[i]
			}
			return v
		})
		mod("a value renamed", func(v []string) []string { v[0] = v[0] + "2"; return v })
		mod("a value renamed to another case", func(v []string) []string { v[0] = strings.ToUpper(v[0]); return v })
		cat = append(cat, oedit{"enum " + e.T + " renamed", e.T, func(s *schemaO) { find(s, e.T).T = e.T + "_v2" }, []string{"-O(" + e.T + ")", "+O(" + e.T + "_v2)"}})
	}
	for front := 0; front < 2; front++ {
		front := front
		nm := fmt.Sprintf("fresh%d", front)
		cat = append(cat, oedit{"add enum " + nm, nm, func(s *schemaO) {
			ne := EnumSpec{nm, []string{"p", "q"}}
			if front == 1 {
				s.Enums = append([]EnumSpec{ne}, s.Enums...)
			} else {
				s.Enums = append(s.Enums, ne)
			}
		}, []string{"+O(" + nm + ")"}})
	}
	cat = append(cat, oedit{"add column zz_new to users", "T:users", func(s *schemaO) {
		t := s.S.table("users")
		t.Cols = append(t.Cols, Col{Name: "zz_new", Type: p.tInt, Null: true})
	}, []string{"users/+C(zz_new)"}})
	cat = append(cat, oedit{"drop table posts", "T:posts", func(s *schemaO) { s.S.Tables = s.S.Tables[:1] }, []string{"-T(posts)"}})
	c.w.Set("objects_catalogue", len(cat))
	filt := func(exp []string, mask int) []string {
		var o, t []string
		for _, e := range exp {
			switch {
			case strings.HasPrefix(e, "+O("):
				if mask&mAddObject == 0 {
					o = append(o, e)
				}
			case strings.HasPrefix(e, "-O("):
				if mask&mDropObject == 0 {
					o = append(o, e)
				}
			case strings.HasPrefix(e, "~O("):
				if mask&mModifyObject == 0 {
					o = append(o, e)
				}
			default:
				t = append(t, e)
			}
		}
		o = append(o, filterExp(t, mask)...)
		sort.Strings(o)
		return o
	}
	shuffleO := func(s schemaO) schemaO {
		d := s.clone()
		d.S = oc.shuffle(d.S)
		for i := len(d.Enums) - 1; i > 0; i-- {
			j := oc.r.Intn(i + 1)
			d.Enums[i], d.Enums[j] = d.Enums[j], d.Enums[i]
		}
		return d
	}
	one := func(class, desc string, from, to schemaO, mask int, exp []string) {
		id := oc.id("objects-"+class, 0)
		g1, g2 := buildO(from), buildO(to)
		o := []schema.DiffOption{schema.DiffNormalized()}
		var sk []schema.Change
		for _, s := range skipProto {
			if mask&s.bit != 0 {
				sk = append(sk, s.c)
			}
		}
		if mask&mAddObject != 0 {
			sk = append(sk, &schema.AddObject{})
		}
		if mask&mDropObject != 0 {
			sk = append(sk, &schema.DropObject{})
		}
		if mask&mModifyObject != 0 {
			sk = append(sk, &schema.ModifyObject{})
		}
		if len(sk) > 0 {
			o = append(o, schema.DiffSkipChanges(sk...))
		}
		var (
			cs  []schema.Change
			err error
			pan string
		)
		func() {
			defer func() {
				if r := recover(); r != nil {
					pan = fmt.Sprint(r)
				}
			}()
			cs, err = oc.differ.SchemaDiff(g1, g2, o...)
		}()
		obs := "[]"
		switch {
		case pan != "":
			obs = "panic"
		case err != nil:
			obs = "err"
		case len(cs) > 0:
			var ss []string
			for _, x := range cs {
				ss = append(ss, showOChange(x))
			}
			obs = strings.Join(ss, ";")
		}
		c.w.Case(id, "O postgres "+strconv.Itoa(mask)+" "+tokSchemaO(g1)+" "+tokSchemaO(g2), []string{obs})
		c.w.Count("class:" + class)
		if obs != "[]" || class == "perm" {
			c.w.NonTrivial(class + "|" + strconv.Itoa(mask) + "|" + desc + "|" + obs)
		}
		head := fmt.Sprintf("[postgres] objects %s %s (skip mask %d)", class, desc, mask)
		if pan != "" {
			c.w.Violation(id, "objects-panic", head+": differ panicked: "+pan)
			return
		}
		if err != nil {
			c.w.Violation(id, "objects-error", head+": differ returned an error: "+err.Error())
			return
		}
		var got []string
		var tcs []schema.Change
		for _, x := range cs {
			switch x.(type) {
			case *schema.AddTable, *schema.DropTable, *schema.ModifyTable:
				tcs = append(tcs, x)
			default:
				got = append(got, showOChange(x))
			}
		}
		got = append(got, flat(tcs)...)
		sort.Strings(got)
		want := filt(exp, mask)
		if strings.Join(got, "\x00") == strings.Join(want, "\x00") {
			return
		}
		missing, spurious := msetDiff(want, got), msetDiff(got, want)
		cls := "objects-mismatch"
		switch {
		case len(want) == 0:
			cls = "objects-nonempty-" + class
		case len(missing) > 0 && len(spurious) == 0:
			cls = "objects-missing-change"
		case len(missing) == 0 && len(spurious) > 0:
			cls = "objects-spurious-change"
		}
		c.w.Violation(id, cls, fmt.Sprintf("%s: required %v, differ returned %v (missing %v, not required %v)", head, want, got, missing, spurious))
	}
	one("copy", "the schema with its enums, deep copy", base, base, 0, nil)
	for i := 0; i < 5; i++ {
		one("perm", "enums, tables and lists shuffled", shuffleO(base), shuffleO(base), 0, nil)
	}
	for i := range cat {
		e := &cat[i]
		to := base.clone()
		e.apply(&to)
		class := "edit1"
		if len(e.exp) == 0 {
			class = "nonedit"
		}
		one(class, e.desc, base, to, 0, e.exp)
		one(class, e.desc+" (shuffled)", shuffleO(base), shuffleO(to), 0, e.exp)
		for _, m := range []int{mAddObject, mDropObject, mModifyObject, mAddObject | mDropObject | mModifyObject, 8191 &^ 4} {
			one("skip", fmt.Sprintf("%s (skip mask %d)", e.desc, m), base, to, m, e.exp)
		}
	}
	n := 200
	if thorough {
		n = 4000
	}
	for k := 0; k < n; k++ {
		want := 2 + oc.r.Intn(4)
		var pick []*oedit
		for tries := 0; len(pick) < want && tries < 40; tries++ {
			e := &cat[oc.r.Intn(len(cat))]
			ok := true
			for _, q := range pick {
				if q.key == e.key {
					ok = false
				}
			}
			if ok {
				pick = append(pick, e)
			}
		}
		to := base.clone()
		var exp, ds []string
		for _, e := range pick {
			e.apply(&to)
			exp = append(exp, e.exp...)
			ds = append(ds, e.desc)
		}
		from := base
		if oc.r.Chance(1, 2) {
			from, to = shuffleO(from), shuffleO(to)
		}
		mask := 0
		if oc.r.Chance(1, 3) {
			mask = int(oc.r.U64()&65535) &^ 4
		}
		one("editN", strings.Join(ds, " + "), from, to, mask, exp)
	}
	c.n = oc.n
}
