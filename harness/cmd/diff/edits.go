// The catalogue of elementary edits of a base schema, per dialect, each with the exact
// change the property requires the differ to report for it.
package main

import (
	"fmt"
	"strings"
)

const (
	kAttr     = 1
	kCharset  = 2
	kCollate  = 4
	kComment  = 8
	kNull     = 16
	kType     = 32
	kDefault  = 64
	kGen      = 128
	kUnique   = 256
	kParts    = 512
	kColumn   = 1024
	kRefCol   = 2048
	kRefTable = 4096
	kUpdate   = 8192
	kDelete   = 16384
)

type Edit struct {
	Kind  string   // class of the edit (distribution, messages)
	Desc  string   // human readable
	Keys  []string // objects edited
	Needs []string // objects that must stay
	Drops []string // objects removed
	Apply func(*Schema)
	Exp   []string // required changes, in the format of flat(); empty for a non-edit
	NonEdit bool   // a rewrite that is no difference for the dialect: nothing may be reported
	Sig     string // short stable signature "kind(detail)" used in oracle messages (matched by known findings)
}

func conflict(a, b *Edit) bool {
	inter := func(x, y []string) bool {
		for _, i := range x {
			for _, j := range y {
				if i == j {
					return true
				}
			}
		}
		return false
	}
	return inter(a.Keys, b.Keys) || inter(a.Needs, b.Drops) || inter(b.Needs, a.Drops)
}

func hasStr(l []string, s string) bool {
	for _, x := range l {
		if x == s {
			return true
		}
	}
	return false
}

// referenced reports the columns of t used by its pk, indexes, fks, includes, generated
// columns (by name occurrence) and by fks of other tables.
func referenced(s *Schema, t *Table) map[string]bool {
	r := map[string]bool{}
	addI := func(i *Idx) {
		for _, p := range i.Parts {
			if p.Col != "" {
				r[p.Col] = true
			}
			if p.Expr != "" {
				for _, c := range t.Cols {
					if strings.Contains(p.Expr, c.Name) {
						r[c.Name] = true
					}
				}
			}
		}
		for _, c := range i.Include {
			r[c] = true
		}
		if i.Pred != nil {
			for _, c := range t.Cols {
				if strings.Contains(*i.Pred, c.Name) {
					r[c.Name] = true
				}
			}
		}
	}
	if t.PK != nil {
		addI(t.PK)
	}
	for i := range t.Idx {
		addI(&t.Idx[i])
	}
	for _, f := range t.FKs {
		for _, c := range f.Cols {
			r[c] = true
		}
	}
	for _, o := range s.Tables {
		for _, f := range o.FKs {
			if f.RefTable == t.Name {
				for _, c := range f.RefCols {
					r[c] = true
				}
			}
		}
	}
	for _, c := range t.Cols {
		if c.Gen != nil {
			for _, d := range t.Cols {
				if strings.Contains(c.Gen.Expr, d.Name) {
					r[d.Name] = true
				}
			}
		}
	}
	for _, k := range t.Checks {
		for _, c := range t.Cols {
			if strings.Contains(k.Expr, c.Name) {
				r[c.Name] = true
			}
		}
	}
	return r
}

// csBits: the ChangeCharset / ChangeCollate flags required when column f (of a table with the
// profile's charset and collation) gets the charset / collation attributes tcs / tco ("" = none).
func csBits(p *profile, f Col, tcs, tco string) int {
	v := p.variant
	switch {
	case tco != "" && tcs == "":
		if x, ok := v.charsetOf(tco); ok {
			tcs = x
		}
	case tcs != "" && tco == "":
		if x, ok := v.defCollation(tcs); ok {
			tco = x
		}
	}
	fcs, fco := "", ""
	if f.Charset != nil {
		fcs = *f.Charset
	}
	if f.Collation != nil {
		fco = *f.Collation
	}
	eff := func(own, top string) string {
		if own != "" {
			return own
		}
		return top
	}
	bits := 0
	if eff(fcs, p.tblCS) != eff(tcs, p.tblCS) {
		bits |= kCharset
	}
	if eff(fco, p.tblCO) != eff(tco, p.tblCO) {
		bits |= kCollate
	}
	return bits
}

func swapCase(s string) string {
	b := []byte(s)
	for i, c := range b {
		switch {
		case 'a' <= c && c <= 'z':
			b[i] = c - 32
		case 'A' <= c && c <= 'Z':
			b[i] = c + 32
		}
	}
	return string(b)
}

func isStringKey(k string) bool {
	return strings.Contains(k, "char") || strings.Contains(k, "text")
}

func isIntKey(k string) bool {
	return k == "int" || k == "integer" || k == "bigint" || k == "smallint"
}

// catalogue enumerates every elementary edit of base s for the dialect of p.
func catalogue(p *profile, s Schema) []Edit {
	var out []Edit
	add := func(e Edit) { out = append(out, e) }
	mod := func(t, what string, bits int) string { return fmt.Sprintf("%s/~%s:%d)", t, what, bits) }

	// ---- schema level
	add(Edit{Kind: "add-table", Desc: "add table n_tab", Keys: []string{"T:n_tab"},
		Apply: func(s *Schema) {
			s.Tables = append(s.Tables, Table{Name: "n_tab", Cols: []Col{{Name: "id", Type: p.tInt}, {Name: "v", Type: p.tStr, Null: true}},
				PK: &Idx{Name: "", Parts: []Part{{Col: "id"}}}})
		}, Exp: []string{"+T(n_tab)"}})
	if len(s.Tables) > 0 {
		ref := s.Tables[0]
		if ref.PK != nil && len(ref.PK.Parts) == 1 {
			rc := ref.PK.Parts[0].Col
			add(Edit{Kind: "add-table", Desc: "add table n_child referencing " + ref.Name, Keys: []string{"T:n_child"}, Needs: []string{"T:" + ref.Name, ref.Name + "/C:" + rc},
				Apply: func(s *Schema) {
					s.Tables = append(s.Tables, Table{Name: "n_child", Cols: []Col{{Name: "id", Type: p.tInt}, {Name: "r", Type: ref.col(rc).Type, Null: true}},
						FKs: []FK{{Symbol: "n_child_fk", Cols: []string{"r"}, RefTable: ref.Name, RefCols: []string{rc}}}})
				}, Exp: []string{"+T(n_child)"}})
		}
	}
	for ti := range s.Tables {
		t := s.Tables[ti]
		tn := t.Name
		needT := "T:" + tn
		referencedByOther := false
		for _, o := range s.Tables {
			if o.Name == tn {
				continue
			}
			for _, f := range o.FKs {
				if f.RefTable == tn {
					referencedByOther = true
				}
			}
		}
		selfRef := false
		for _, f := range t.FKs {
			if f.RefTable == tn {
				selfRef = true
			}
		}
		if p.dialect == "mysql" && !referencedByOther && !selfRef {
			// lower_case_table_names: 0 = names are compared as written (another table), 1/2 = case-insensitively (the same table)
			nn := swapCase(tn)
			e := Edit{Kind: "table-case", Desc: "table " + tn + " written " + nn, Keys: []string{needT, "T:" + nn}, Drops: []string{needT}, Sig: "table-case(" + tn + ")",
				Apply: func(s *Schema) { s.table(tn).Name = nn }}
			if p.variant.lcnames == 0 {
				e.Exp = []string{"-T(" + tn + ")", "+T(" + nn + ")"}
			} else {
				e.NonEdit = true
			}
			add(e)
		}
		if !referencedByOther {
			add(Edit{Kind: "drop-table", Desc: "drop table " + tn, Keys: []string{needT}, Drops: []string{needT},
				Apply: func(s *Schema) {
					var l []Table
					for _, x := range s.Tables {
						if x.Name != tn {
							l = append(l, x)
						}
					}
					s.Tables = l
				}, Exp: []string{"-T(" + tn + ")"}})
		}
		refd := referenced(&s, &t)
		inPK := map[string]bool{}
		if t.PK != nil {
			for _, pp := range t.PK.Parts {
				inPK[pp.Col] = true
			}
		}
		// helper building a column edit
		colEdit := func(kind, cn, desc string, bits int, f func(c *Col)) Edit {
			e := Edit{Kind: kind, Desc: fmt.Sprintf("%s.%s: %s", tn, cn, desc), Keys: []string{tn + "/C:" + cn}, Needs: []string{needT},
				Sig:   kind + "(" + desc + ")",
				Apply: func(s *Schema) { f(s.table(tn).col(cn)) }}
			if bits != 0 {
				e.Exp = []string{mod(tn, "C("+cn, bits)}
			} else {
				e.NonEdit = true
			}
			return e
		}
		// ---- columns
		for _, c := range t.Cols {
			c := c
			cn := c.Name
			add(colEdit("col-null", cn, "flip NULL", kNull, func(c *Col) { c.Null = !c.Null }))
			for _, k := range p.types {
				k := k
				if k == c.Type {
					continue
				}
				if p.typeID(k) == p.typeID(c.Type) {
					add(colEdit("col-type-same", cn, "type "+c.Type+" -> "+k+" (same type for the dialect)", 0, func(c *Col) { c.Type = k }))
					continue
				}
				add(colEdit("col-type", cn, "type "+c.Type+" -> "+k, kType, func(c *Col) { c.Type = k }))
			}
			da, db, dr := p.defs(c.Type)
			if c.Gen == nil {
				if c.Def == nil {
					add(colEdit("col-default", cn, "["+c.Type+"] add default "+da.V, kDefault, func(c *Col) { d := da; c.Def = &d }))
					add(colEdit("col-default", cn, "["+c.Type+"] add default expr "+dr.V, kDefault, func(c *Col) { d := dr; c.Def = &d }))
				} else {
					add(colEdit("col-default", cn, "["+c.Type+"] drop default", kDefault, func(c *Col) { c.Def = nil }))
					nd := da
					if *c.Def == da {
						nd = db
					}
					add(colEdit("col-default", cn, "["+c.Type+"] default "+c.Def.V+" -> "+nd.V, kDefault, func(c *Col) { d := nd; c.Def = &d }))
					if !c.Def.Raw {
						add(colEdit("col-default", cn, "["+c.Type+"] default "+c.Def.V+" -> expr "+dr.V, kDefault, func(c *Col) { d := dr; c.Def = &d }))
					}
					if !c.Def.Raw && p.dialect != "postgres" && tn == "quote_defaults" {
						for _, qv := range quoteDefs {
							qv := qv
							if qv != c.Def.V {
								add(colEdit("col-default-quote", cn, "["+c.Type+"] default "+c.Def.V+" -> "+qv, kDefault, func(c *Col) { d := Def{V: qv}; c.Def = &d }))
							}
						}
					}
				}
			}
			cbits := kComment
			ckind := "col-comment"
			if !p.colComment {
				cbits, ckind = 0, "col-comment-unsupported"
			}
			if c.Comment == nil {
				add(colEdit(ckind, cn, "add comment", cbits, func(c *Col) { c.Comment = sp("new comment") }))
			} else {
				add(colEdit(ckind, cn, "change comment", cbits, func(c *Col) { c.Comment = sp(*c.Comment + " (edited)") }))
				add(colEdit(ckind, cn, "drop comment", cbits, func(c *Col) { c.Comment = nil }))
			}
			if c.Gen != nil {
				add(colEdit("col-generated", cn, "drop generated expr", kGen, func(c *Col) { c.Gen = nil }))
				if p.genAddChange {
					add(colEdit("col-generated", cn, "change generated expr", kGen, func(c *Col) { c.Gen.Expr = "(upper(" + c.Gen.Expr + "))" }))
					add(colEdit("col-generated", cn, "STORED <-> VIRTUAL", kGen, func(c *Col) {
						if strings.EqualFold(c.Gen.Type, "STORED") {
							c.Gen.Type = "VIRTUAL"
						} else {
							c.Gen.Type = "STORED"
						}
					}))
				}
			} else if p.genAddChange && c.Def == nil && !inPK[cn] && c.Identity == nil {
				add(colEdit("col-generated", cn, "make generated", kGen, func(c *Col) { c.Gen = &Gen{Expr: "(1)", Type: "STORED"} }))
			}
			if p.charset && isStringKey(c.Type) {
				// target states of the column's charset / collation ("" = attribute absent).  The required
				// flags compare the *effective* values (own, else the table's) after the differ's version
				// filled in the default collation of a lone charset / the charset of a lone collation
				// (csBits, from the tables of the server variant -- fakemy.go).
				type target struct{ desc, cs, co string }
				own := func(x *string) string {
					if x == nil {
						return ""
					}
					return *x
				}
				targets := []target{
					{"set charset latin1", "latin1", "latin1_swedish_ci"},
					{"spell out the table's charset", p.tblCS, p.tblCO},
					{"charset -> utf8mb4/utf8mb4_bin", "utf8mb4", "utf8mb4_bin"},
					{"drop column charset", "", ""},
					{"charset/collation -> latin1/latin1_bin", "latin1", "latin1_bin"},
				}
				if tn == "users" || tn == "posts" || tn == "cs" {
					for _, x := range []string{"utf8mb4", "latin1", "ascii", "klingon"} {
						targets = append(targets, target{"charset " + x + " alone (no collation)", x, ""})
					}
					for _, y := range []string{"utf8mb4_bin", "utf8mb4_general_ci", "utf8mb4_0900_ai_ci", "latin1_bin", "latin1_swedish_ci", "ascii_bin", "utf8mb4_uca1400_ai_ci", "zz_unknown_ci"} {
						targets = append(targets, target{"collation " + y + " alone (no charset)", "", y})
					}
				}
				for _, tg := range targets {
					tg := tg
					if tg.cs == own(c.Charset) && tg.co == own(c.Collation) {
						continue
					}
					bits := csBits(p, c, tg.cs, tg.co)
					kind := "col-charset"
					if bits == 0 {
						kind = "col-charset-same"
					}
					add(colEdit(kind, cn, tg.desc, bits, func(c *Col) {
						c.Charset, c.Collation = nil, nil
						if tg.cs != "" {
							c.Charset = sp(tg.cs)
						}
						if tg.co != "" {
							c.Collation = sp(tg.co)
						}
					}))
				}
			}
			if p.identity && isIntKey(c.Type) && c.Gen == nil {
				if c.Identity == nil {
					if c.Def == nil {
						add(colEdit("col-identity", cn, "add identity", kAttr, func(c *Col) { c.Identity = &Ident{Gen: "BY DEFAULT", Start: 1, Inc: 1} }))
					}
				} else {
					add(colEdit("col-identity", cn, "drop identity", kAttr, func(c *Col) { c.Identity = nil }))
					add(colEdit("col-identity", cn, "identity ALWAYS", kAttr, func(c *Col) { c.Identity.Gen = "ALWAYS" }))
					add(colEdit("col-identity", cn, "identity start 100", kAttr, func(c *Col) { c.Identity.Start = 100 }))
					add(colEdit("col-identity", cn, "identity increment 5", kAttr, func(c *Col) { c.Identity.Inc = 5 }))
				}
			}
			// several attributes of one column at once: one change, the union of the flags
			var otherType string
			for _, k := range p.types {
				if p.typeID(k) != p.typeID(c.Type) {
					otherType = k
					break
				}
			}
			add(colEdit("col-multi", cn, "NULL + type", kNull|kType, func(c *Col) { c.Null = !c.Null; c.Type = otherType }))
			if c.Gen == nil && c.Def == nil {
				// the default literal fits the new type
				na, _, _ := p.defs(otherType)
				add(colEdit("col-multi", cn, "NULL + type + default", kNull|kType|kDefault, func(c *Col) { c.Null = !c.Null; c.Type = otherType; d := na; c.Def = &d }))
				add(colEdit("col-multi", cn, "NULL + default", kNull|kDefault, func(c *Col) { c.Null = !c.Null; d := da; c.Def = &d }))
				if p.colComment {
					add(colEdit("col-multi", cn, "default + comment", kDefault|kComment, func(c *Col) { d := da; c.Def = &d; c.Comment = sp("both") }))
				}
			}
			if !refd[cn] && len(t.Cols) > 1 {
				add(Edit{Kind: "drop-column", Desc: "drop column " + tn + "." + cn, Keys: []string{tn + "/C:" + cn}, Needs: []string{needT}, Drops: []string{tn + "/C:" + cn},
					Apply: func(s *Schema) {
						t := s.table(tn)
						var l []Col
						for _, x := range t.Cols {
							if x.Name != cn {
								l = append(l, x)
							}
						}
						t.Cols = l
					}, Exp: []string{tn + "/-C(" + cn + ")"}})
			}
		}
		for i, k := range []string{p.tInt, p.tStr, p.tText} {
			k := k
			nn := fmt.Sprintf("n_col%d", i)
			add(Edit{Kind: "add-column", Desc: "add column " + tn + "." + nn + " " + k, Keys: []string{tn + "/C:" + nn}, Needs: []string{needT},
				Apply: func(s *Schema) {
					c := Col{Name: nn, Type: k, Null: true}
					if k == p.tStr {
						d, _, _ := p.defs(k)
						c.Def = &d
					}
					t := s.table(tn)
					t.Cols = append(t.Cols, c)
				}, Exp: []string{tn + "/+C(" + nn + ")"}})
		}
		// a column that is neither in the pk nor the first one, for new parts
		var spare, first string
		first = t.Cols[0].Name
		for _, c := range t.Cols[1:] {
			if !inPK[c.Name] && c.Gen == nil {
				spare = c.Name
				break
			}
		}
		// ---- primary key
		pkKey := tn + "/PK"
		if t.PK == nil {
			add(Edit{Kind: "add-pk", Desc: "add primary key on " + tn + "." + first, Keys: []string{pkKey}, Needs: []string{needT, tn + "/C:" + first},
				Apply: func(s *Schema) { s.table(tn).PK = &Idx{Parts: []Part{{Col: first}}} }, Exp: []string{tn + "/+PK"}})
		} else {
			add(Edit{Kind: "drop-pk", Desc: "drop primary key of " + tn, Keys: []string{pkKey}, Needs: []string{needT},
				Apply: func(s *Schema) { s.table(tn).PK = nil }, Exp: []string{tn + "/-PK"}})
			add(Edit{Kind: "pk-unique-flag", Desc: "pk of " + tn + ": Unique flag set on one side only (a primary key is unique either way)", Keys: []string{pkKey}, Needs: []string{needT}, NonEdit: true,
				Apply: func(s *Schema) { pk := s.table(tn).PK; pk.Unique = !pk.Unique }})
			add(Edit{Kind: "modify-pk", Desc: "pk of " + tn + ": flip DESC", Keys: []string{pkKey}, Needs: []string{needT},
				Apply: func(s *Schema) { pp := s.table(tn).PK.Parts; pp[0].Desc = !pp[0].Desc }, Exp: []string{fmt.Sprintf("%s/~PK(%d)", tn, kParts)}})
			if spare != "" {
				add(Edit{Kind: "modify-pk", Desc: "pk of " + tn + ": append " + spare, Keys: []string{pkKey}, Needs: []string{needT, tn + "/C:" + spare},
					Apply: func(s *Schema) {
						pk := s.table(tn).PK
						pk.Parts = append(pk.Parts, Part{Seq: len(pk.Parts), Col: spare})
					}, Exp: []string{fmt.Sprintf("%s/~PK(%d)", tn, kParts)}})
				add(Edit{Kind: "modify-pk", Desc: "pk of " + tn + ": first part -> " + spare, Keys: []string{pkKey}, Needs: []string{needT, tn + "/C:" + spare},
					Apply: func(s *Schema) { s.table(tn).PK.Parts[0].Col = spare }, Exp: []string{fmt.Sprintf("%s/~PK(%d)", tn, kParts)}})
			}
		}
		// ---- indexes
		for _, ix := range t.Idx {
			ix := ix
			in := ix.Name
			ikey := tn + "/I:" + in
			idxEdit := func(kind, desc string, bits int, needs []string, f func(i *Idx)) Edit {
				e := Edit{Kind: kind, Desc: fmt.Sprintf("index %s.%s: %s", tn, in, desc), Keys: []string{ikey}, Needs: append([]string{needT}, needs...), Sig: kind + "(" + desc + ")",
					Apply: func(s *Schema) { f(s.table(tn).idx(in)) }}
				if bits != 0 {
					e.Exp = []string{fmt.Sprintf("%s/~I(%s:%d)", tn, in, bits)}
				} else {
					e.NonEdit = true
				}
				return e
			}
			add(Edit{Kind: "drop-index", Desc: "drop index " + tn + "." + in, Keys: []string{ikey}, Needs: []string{needT},
				Apply: func(s *Schema) {
					t := s.table(tn)
					var l []Idx
					for _, x := range t.Idx {
						if x.Name != in {
							l = append(l, x)
						}
					}
					t.Idx = l
				}, Exp: []string{tn + "/-I(" + in + ")"}})
			add(idxEdit("idx-unique", "flip UNIQUE", kUnique, nil, func(i *Idx) { i.Unique = !i.Unique }))
			add(idxEdit("idx-parts", "flip DESC of part 0", kParts, nil, func(i *Idx) { i.Parts[0].Desc = !i.Parts[0].Desc }))
			if len(ix.Parts) > 1 {
				add(idxEdit("idx-parts", "flip DESC of the last part", kParts, nil, func(i *Idx) { n := len(i.Parts) - 1; i.Parts[n].Desc = !i.Parts[n].Desc }))
				add(idxEdit("idx-parts", "drop the last part", kParts, nil, func(i *Idx) { i.Parts = i.Parts[:len(i.Parts)-1] }))
				add(idxEdit("idx-parts", "swap parts 0 and 1", kParts, nil, func(i *Idx) {
					i.Parts[0].Col, i.Parts[1].Col = i.Parts[1].Col, i.Parts[0].Col
					i.Parts[0].Expr, i.Parts[1].Expr = i.Parts[1].Expr, i.Parts[0].Expr
				}))
				add(idxEdit("idx-unique+parts", "flip UNIQUE and drop the last part", kUnique|kParts, nil, func(i *Idx) { i.Unique = !i.Unique; i.Parts = i.Parts[:len(i.Parts)-1] }))
			}
			usesFirst := false
			for _, pp := range ix.Parts {
				if pp.Col == first {
					usesFirst = true
				}
			}
			if !usesFirst {
				add(idxEdit("idx-parts", "append part "+first, kParts, []string{tn + "/C:" + first}, func(i *Idx) { i.Parts = append(i.Parts, Part{Seq: len(i.Parts), Col: first}) }))
				if ix.Parts[len(ix.Parts)-1].Col != "" {
					add(idxEdit("idx-parts", "last part -> column "+first, kParts, []string{tn + "/C:" + first}, func(i *Idx) { i.Parts[len(i.Parts)-1].Col = first }))
				}
			}
			if ix.Parts[0].Expr != "" {
				add(idxEdit("idx-parts", "change expression", kParts, nil, func(i *Idx) { i.Parts[0].Expr = "(upper(" + i.Parts[0].Expr + "))" }))
				add(idxEdit("idx-parts", "expression -> column "+first, kParts, []string{tn + "/C:" + first}, func(i *Idx) { i.Parts[0].Expr = ""; i.Parts[0].Col = first }))
			}
			if p.idxPred {
				if ix.Pred == nil {
					add(idxEdit("idx-attr", "add predicate", kAttr, nil, func(i *Idx) { i.Pred = sp("(" + first + " IS NOT NULL)") }))
				} else {
					add(idxEdit("idx-attr", "change predicate", kAttr, nil, func(i *Idx) { i.Pred = sp("(" + first + " IS NOT NULL)") }))
					add(idxEdit("idx-attr", "drop predicate", kAttr, nil, func(i *Idx) { i.Pred = nil }))
				}
			}
			if p.idxType {
				add(idxEdit("idx-attr", "type -> HASH", kAttr, nil, func(i *Idx) { i.Type = "HASH" }))
				add(idxEdit("idx-attr-default", "spell out the default type BTREE", 0, nil, func(i *Idx) { i.Type = "btree" }))
			}
			if p.idxInclude && spare != "" {
				add(idxEdit("idx-attr", "add INCLUDE("+spare+")", kAttr, []string{tn + "/C:" + spare}, func(i *Idx) { i.Include = []string{spare} }))
				add(idxEdit("idx-attr", "NULLS NOT DISTINCT", kAttr, nil, func(i *Idx) { i.NullsND = true }))
			}
			if p.idxPrefix && ix.Parts[0].Col != "" {
				add(idxEdit("idx-parts", "prefix length 10 on part 0", kParts, nil, func(i *Idx) { i.Parts[0].Prefix = 10 }))
			}
			if p.colComment {
				if ix.Comment == nil {
					add(idxEdit("idx-comment", "add comment", kComment, nil, func(i *Idx) { i.Comment = sp("idx comment") }))
				} else {
					add(idxEdit("idx-comment", "change comment", kComment, nil, func(i *Idx) { i.Comment = sp("edited") }))
					add(idxEdit("idx-comment", "drop comment", kComment, nil, func(i *Idx) { i.Comment = nil }))
					add(idxEdit("idx-multi", "change comment, flip UNIQUE", kComment|kUnique, nil, func(i *Idx) { i.Comment = sp("edited"); i.Unique = !i.Unique }))
				}
			}
		}
		add(Edit{Kind: "add-index", Desc: "add index n_idx on " + tn + "(" + first + ")", Keys: []string{tn + "/I:n_idx"}, Needs: []string{needT, tn + "/C:" + first},
			Apply: func(s *Schema) { t := s.table(tn); t.Idx = append(t.Idx, Idx{Name: "n_idx", Parts: []Part{{Col: first}}}) }, Exp: []string{tn + "/+I(n_idx)"}})
		if spare != "" {
			add(Edit{Kind: "add-index", Desc: "add unique index n_uq on " + tn + "(" + spare + " desc, " + first + ")", Keys: []string{tn + "/I:n_uq"}, Needs: []string{needT, tn + "/C:" + first, tn + "/C:" + spare},
				Apply: func(s *Schema) {
					t := s.table(tn)
					t.Idx = append(t.Idx, Idx{Name: "n_uq", Unique: true, Parts: []Part{{Seq: 0, Col: spare, Desc: true}, {Seq: 1, Col: first}}})
				}, Exp: []string{tn + "/+I(n_uq)"}})
		}
		// ---- foreign keys
		fkCols := map[string]bool{}
		for _, f := range t.FKs {
			for _, c := range f.Cols {
				fkCols[c] = true
			}
		}
		for _, fk := range t.FKs {
			fk := fk
			fn := fk.Symbol
			fkey := tn + "/FK:" + fn
			fkEdit := func(kind, desc string, bits int, needs []string, f func(f *FK)) Edit {
				e := Edit{Kind: kind, Desc: fmt.Sprintf("fk %s.%s: %s", tn, fn, desc), Keys: []string{fkey}, Needs: append([]string{needT}, needs...), Sig: kind + "(" + desc + ")",
					Apply: func(s *Schema) { f(s.table(tn).fk(fn)) }}
				if bits != 0 {
					e.Exp = []string{fmt.Sprintf("%s/~FK(%s:%d)", tn, fn, bits)}
				} else {
					e.NonEdit = true
				}
				return e
			}
			add(Edit{Kind: "drop-fk", Desc: "drop fk " + tn + "." + fn, Keys: []string{fkey}, Needs: []string{needT},
				Apply: func(s *Schema) {
					t := s.table(tn)
					var l []FK
					for _, x := range t.FKs {
						if x.Symbol != fn {
							l = append(l, x)
						}
					}
					t.FKs = l
				}, Exp: []string{tn + "/-FK(" + fn + ")"}})
			nu, nd := "SET NULL", "SET NULL"
			if fk.OnUpdate == nu {
				nu = "CASCADE"
			}
			if fk.OnDelete == nd {
				nd = "CASCADE"
			}
			add(fkEdit("fk-action", "ON UPDATE -> "+nu, kUpdate, nil, func(f *FK) { f.OnUpdate = nu }))
			add(fkEdit("fk-action", "ON DELETE -> "+nd, kDelete, nil, func(f *FK) { f.OnDelete = nd }))
			add(fkEdit("fk-action", "ON UPDATE and ON DELETE", kUpdate|kDelete, nil, func(f *FK) { f.OnUpdate, f.OnDelete = nu, nd }))
			if fk.OnUpdate == "" || fk.OnUpdate == "NO ACTION" {
				o := "NO ACTION"
				if fk.OnUpdate == o {
					o = ""
				}
				add(fkEdit("fk-action-default", "ON UPDATE '"+fk.OnUpdate+"' -> '"+o+"' (the default)", 0, nil, func(f *FK) { f.OnUpdate = o }))
			}
			if p.dialect == "mysql" && (fk.OnDelete == "" || fk.OnDelete == "NO ACTION" || fk.OnDelete == "RESTRICT") {
				o := "RESTRICT"
				if fk.OnDelete == o {
					o = "NO ACTION"
				}
				add(fkEdit("fk-action-default", "ON DELETE '"+fk.OnDelete+"' -> '"+o+"' (same action in MySQL)", 0, nil, func(f *FK) { f.OnDelete = o }))
			}
			// another column of the child table
			for _, c := range t.Cols {
				if !hasStr(fk.Cols, c.Name) && c.Gen == nil {
					cn := c.Name
					add(fkEdit("fk-columns", "first column -> "+cn, kColumn, []string{tn + "/C:" + cn}, func(f *FK) { f.Cols[0] = cn }))
					break
				}
			}
			// another column of the parent table
			if rt := s.table(fk.RefTable); rt != nil {
				for _, c := range rt.Cols {
					if !hasStr(fk.RefCols, c.Name) && c.Gen == nil {
						cn := c.Name
						add(fkEdit("fk-refcolumns", "first referenced column -> "+cn, kRefCol, []string{"T:" + rt.Name, rt.Name + "/C:" + cn}, func(f *FK) { f.RefCols[0] = cn }))
						add(fkEdit("fk-multi", "referenced column, ON DELETE", kRefCol|kDelete, []string{"T:" + rt.Name, rt.Name + "/C:" + cn}, func(f *FK) { f.RefCols[0] = cn; f.OnDelete = nd }))
						break
					}
				}
			}
			if len(fk.Cols) > 1 {
				for _, c := range t.Cols {
					if !hasStr(fk.Cols, c.Name) && c.Gen == nil {
						cn := c.Name
						add(fkEdit("fk-columns", "last column -> "+cn, kColumn, []string{tn + "/C:" + cn}, func(f *FK) { f.Cols[len(f.Cols)-1] = cn }))
						break
					}
				}
				add(fkEdit("fk-columns", "drop the last column pair", kColumn|kRefCol, nil, func(f *FK) { f.Cols = f.Cols[:len(f.Cols)-1]; f.RefCols = f.RefCols[:len(f.RefCols)-1] }))
			}
			if rt := s.table(fk.RefTable); rt != nil && len(fk.RefCols) > 1 {
				for _, c := range rt.Cols {
					if !hasStr(fk.RefCols, c.Name) && c.Gen == nil {
						cn := c.Name
						add(fkEdit("fk-refcolumns", "last referenced column -> "+cn, kRefCol, []string{"T:" + rt.Name, rt.Name + "/C:" + cn}, func(f *FK) { f.RefCols[len(f.RefCols)-1] = cn }))
						break
					}
				}
			}
			for _, o := range s.Tables {
				if o.Name != fk.RefTable && len(o.Cols) >= len(fk.RefCols) {
					on := o.Name
					var rc, needs []string
					needs = append(needs, "T:"+on)
					for i := range fk.RefCols {
						rc = append(rc, o.Cols[i].Name)
						needs = append(needs, on+"/C:"+o.Cols[i].Name)
					}
					add(fkEdit("fk-reftable", "referenced table -> "+on, kRefTable|kRefCol, needs, func(f *FK) { f.RefTable = on; f.RefCols = append([]string(nil), rc...) }))
					break
				}
			}
		}
		// a new fk on a column no fk uses yet, to another (or the same) table's first column
		for _, c := range t.Cols[1:] {
			if fkCols[c.Name] || c.Gen != nil {
				continue
			}
			cn := c.Name
			rt := s.Tables[(ti+1)%len(s.Tables)]
			rn, rc := rt.Name, rt.Cols[0].Name
			add(Edit{Kind: "add-fk", Desc: fmt.Sprintf("add fk n_fk %s(%s) -> %s(%s)", tn, cn, rn, rc), Keys: []string{tn + "/FK:n_fk"}, Needs: []string{needT, tn + "/C:" + cn, "T:" + rn, rn + "/C:" + rc},
				Apply: func(s *Schema) {
					t := s.table(tn)
					t.FKs = append(t.FKs, FK{Symbol: "n_fk", Cols: []string{cn}, RefTable: rn, RefCols: []string{rc}, OnDelete: "CASCADE"})
				}, Exp: []string{tn + "/+FK(n_fk)"}})
			break
		}
		// ---- checks
		for _, k := range t.Checks {
			k := k
			id := k.Name
			if id == "" {
				id = k.Expr
			}
			ckey := tn + "/K:" + id
			match := func(x Check) bool { return x.Name == k.Name && x.Expr == k.Expr }
			add(Edit{Kind: "drop-check", Desc: "drop check " + tn + "." + id, Keys: []string{ckey}, Needs: []string{needT},
				Apply: func(s *Schema) {
					t := s.table(tn)
					var l []Check
					for _, x := range t.Checks {
						if !match(x) {
							l = append(l, x)
						}
					}
					t.Checks = l
				}, Exp: []string{fmt.Sprintf("%s/-CK(%s:%s)", tn, k.Name, hx(k.Expr))}})
			rename := func(desc, nn string) {
				add(Edit{Kind: "check-name", Desc: "check " + tn + "." + id + ": " + desc + " (checks are matched by name only if both are named, else by expression)", Keys: []string{ckey}, Needs: []string{needT}, NonEdit: true,
					Apply: func(s *Schema) {
						t := s.table(tn)
						for i := range t.Checks {
							if match(t.Checks[i]) {
								t.Checks[i].Name = nn
							}
						}
					}})
			}
			if k.Name != "" {
				// another name is another constraint: the old one is dropped, the new one added
				nn := k.Name + "_renamed"
				add(Edit{Kind: "rename-check", Desc: "check " + tn + "." + id + ": dropped and re-added under the name " + nn, Keys: []string{ckey, tn + "/K:" + nn}, Needs: []string{needT},
					Apply: func(s *Schema) {
						t := s.table(tn)
						for i := range t.Checks {
							if match(t.Checks[i]) {
								t.Checks[i].Name = nn
							}
						}
					}, Exp: []string{fmt.Sprintf("%s/-CK(%s:%s)", tn, k.Name, hx(k.Expr)), fmt.Sprintf("%s/+CK(%s:%s)", tn, nn, hx(k.Expr))}})
				// a second named check with the same expression is a constraint of its own
				tw := k.Name + "_twin"
				add(Edit{Kind: "add-check", Desc: "check " + tn + "." + id + ": add a twin " + tw + " with the same expression", Keys: []string{tn + "/K:" + tw}, Needs: []string{needT, ckey},
					Apply: func(s *Schema) { t := s.table(tn); t.Checks = append(t.Checks, Check{Name: tw, Expr: k.Expr}) },
					Exp:   []string{fmt.Sprintf("%s/+CK(%s:%s)", tn, tw, hx(k.Expr))}})
				rename("name dropped, same expression", "")
			} else {
				rename("name given, same expression", "n_named")
			}
			if k.Name != "" {
				ne := "(" + k.Expr + " AND 1 = 1)"
				add(Edit{Kind: "modify-check", Desc: "check " + tn + "." + id + ": change expression", Keys: []string{ckey}, Needs: []string{needT},
					Apply: func(s *Schema) {
						t := s.table(tn)
						for i := range t.Checks {
							if match(t.Checks[i]) {
								t.Checks[i].Expr = ne
							}
						}
					}, Exp: []string{fmt.Sprintf("%s/~CK(%s:%s>%s:%s)", tn, k.Name, hx(k.Expr), k.Name, hx(ne))}})
				if p.dialect == "mysql" || p.dialect == "postgres" {
					what := "NOT ENFORCED"
					if p.dialect == "postgres" {
						what = "NO INHERIT"
					}
					add(Edit{Kind: "modify-check", Desc: "check " + tn + "." + id + ": " + what, Keys: []string{ckey}, Needs: []string{needT},
						Apply: func(s *Schema) {
							t := s.table(tn)
							for i := range t.Checks {
								if match(t.Checks[i]) {
									t.Checks[i].NotEnforced, t.Checks[i].NoInherit = true, true
								}
							}
						}, Exp: []string{fmt.Sprintf("%s/~CK(%s:%s>%s:%s)", tn, k.Name, hx(k.Expr), k.Name, hx(k.Expr))}})
				}
			}
		}
		add(Edit{Kind: "add-check", Desc: "add check n_chk on " + tn, Keys: []string{tn + "/K:n_chk"}, Needs: []string{needT},
			Apply: func(s *Schema) { t := s.table(tn); t.Checks = append(t.Checks, Check{Name: "n_chk", Expr: "(" + first + " IS NOT NULL)"}) },
			Exp:   []string{fmt.Sprintf("%s/+CK(n_chk:%s)", tn, hx("("+first+" IS NOT NULL)"))}})
		add(Edit{Kind: "add-check", Desc: "add unnamed check on " + tn, Keys: []string{tn + "/K:(" + first + " <> 7)"}, Needs: []string{needT},
			Apply: func(s *Schema) { t := s.table(tn); t.Checks = append(t.Checks, Check{Expr: "(" + first + " <> 7)"}) },
			Exp:   []string{fmt.Sprintf("%s/+CK(:%s)", tn, hx("("+first+" <> 7)"))}})
		// ---- table attributes
		attr := func(kind, desc string, id int, f func(t *Table), exp ...string) {
			add(Edit{Kind: kind, Desc: "table " + tn + ": " + desc, Keys: []string{fmt.Sprintf("%s/A:%d", tn, id)}, Needs: []string{needT},
				Apply: func(s *Schema) { f(s.table(tn)) }, Exp: exp})
		}
		switch p.dialect {
		case "sqlite":
			if t.WithoutRowID {
				attr("tbl-attr", "drop WITHOUT ROWID", 1, func(t *Table) { t.WithoutRowID = false }, tn+"/-A(1)")
			} else if t.PK != nil {
				attr("tbl-attr", "add WITHOUT ROWID", 1, func(t *Table) { t.WithoutRowID = true }, tn+"/+A(1)")
			}
			if t.Strict {
				attr("tbl-attr", "drop STRICT", 2, func(t *Table) { t.Strict = false }, tn+"/-A(2)")
			} else {
				attr("tbl-attr", "add STRICT", 2, func(t *Table) { t.Strict = true }, tn+"/+A(2)")
			}
		case "mysql":
			attr("tbl-attr", "collation -> utf8mb4_bin", 5, func(t *Table) { t.Collation = sp("utf8mb4_bin") }, tn+"/~A(5)")
			attr("tbl-attr", "engine -> MyISAM", 6, func(t *Table) { t.Engine = sp("MyISAM") }, tn+"/~A(6)")
			attr("tbl-attr", "auto_increment -> 1000", 7, func(t *Table) { t.AutoInc = 1000 }, tn+"/~A(7)")
		}
		if p.tblComment {
			if t.Comment == nil {
				attr("tbl-comment", "add comment", 3, func(t *Table) { t.Comment = sp("a table") }, tn+"/+A(3)")
			} else {
				attr("tbl-comment", "change comment", 3, func(t *Table) { t.Comment = sp("edited") }, tn+"/~A(3)")
				attr("tbl-comment", "drop comment", 3, func(t *Table) { t.Comment = nil }, tn+"/~A(3)")
			}
		}
	}
	for i := range out {
		if out[i].Sig == "" {
			out[i].Sig = out[i].Kind
		}
	}
	if p.dialect == "mysql" && !p.variant.check {
		// a server without CHECK constraints: TableAttrDiff fails when the desired table has one (cases of their own, tie only)
		var l []Edit
		for _, e := range out {
			if !strings.Contains(e.Kind, "check") {
				l = append(l, e)
			}
		}
		out = l
	}
	return out
}
