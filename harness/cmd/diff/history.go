// History independence of the MySQL differs (round 3, gap 2b).
//
// A differ's answer must be a function of the differ's own server variant and of the pair it is
// given -- not of what this or other differs of the process did before.  The MySQL differs
// consult charset / collation default tables (mysqlversion.CharsetToCollate / CollateToCharset:
// an embedded table extended from the connection, cached per differ in sync.Once fields), so a
// table shared between differs, or extended in place, would leak one server's defaults into the
// answers of another differ.
//
// The stage fixes a sample of pairs (self / copy / perm, the single-edit catalogue of the
// charset base B8 and of B1, the unnamed-index groups) per variant and
//
//   1. records what each differ answers alone, on a fresh differ, before any other differ exists
//      ("alone"; for mysql.DefaultDiff, the only differ that cannot be re-created, this is the
//      first thing the process does);
//   2. opens differs of all other variants, uses them on their samples, and asks again, in
//      several orders: DefaultDiff after every connected differ; two connected differs of
//      different versions used alternately pair by pair; a second differ of the same variant
//      opened after the others; every sample a second time on the same differ.
//
// Every answer must be identical to the "alone" answer (class history-dependent), and the alone
// answers are judged against the catalogue of the variant like in the per-variant stages.
package main

import (
	"fmt"
	"strings"

	"ariga.io/atlas/sql/postgres"
	"ariga.io/atlas/sql/schema"
)

type hCase struct {
	desc     string
	from, to Schema
	alias    bool
	exp      []string
	oracle   bool
	edits    []*Edit
}

// hVariant is one differ of the history stage: how to obtain a new one, and the profile whose
// catalogue its answers are judged by.
type hVariant struct {
	name string
	mode string // profile
	open func() schema.Differ
	bis  []int // bases sampled
}

func historyVariants(dialect string) []hVariant {
	if dialect == "postgres" {
		// postgres.DefaultDiff (no schema scope) and differs of the real opener over fake connections
		// with search_path=public (fakepg.go): they differ in how user-defined type names are compared
		return []hVariant{
			{"default", "postgres", func() schema.Differ { return postgres.DefaultDiff }, []int{0, 1}},
			{"public", "postgres-ns", func() schema.Differ { return scopedPGDiffer("public") }, []int{0, 1}},
		}
	}
	var out []hVariant
	for _, vn := range []string{"default", "my57", "my80", "maria"} {
		vn := vn
		mode := "mysql-" + vn
		if vn == "default" {
			mode = "mysql"
		}
		out = append(out, hVariant{vn, mode, func() schema.Differ { return openMy(myVariants[vn]) }, []int{7, 0}}) // B8 (charsets), B1
	}
	return out
}

// sample builds the fixed sample of one variant.
func historySample(hv hVariant, thorough bool) (*profile, []hCase) {
	p := newProfile(hv.mode)
	bs := bases(p)
	var out []hCase
	for _, bi := range hv.bis {
		b := bs[bi]
		seqParts(&b)
		out = append(out, hCase{desc: fmt.Sprintf("B%d with itself", bi+1), from: b, to: b, alias: true, oracle: true})
		out = append(out, hCase{desc: fmt.Sprintf("B%d with a deep copy", bi+1), from: b, to: b, oracle: true})
		out = append(out, hCase{desc: fmt.Sprintf("B%d with all lists reversed", bi+1), from: b, to: reverse(b), oracle: true})
		cat := catalogue(p, b)
		for ei := range cat {
			e := &cat[ei]
			// all charset / collation edits (they read the default tables); every 7th of the others
			if !(e.Kind == "col-charset" || e.Kind == "col-charset-same" || e.Kind == "table-case" || ei%7 == 0 || thorough ||
				p.dialect == "postgres" && strings.Contains(e.Desc, "udt:")) {
				continue
			}
			to := b.clone()
			e.Apply(&to)
			seqParts(&to)
			out = append(out, hCase{desc: e.Desc, from: b, to: to, exp: e.Exp, oracle: true, edits: []*Edit{e}})
		}
	}
	return p, out
}

func (c *ctx) history(dialect string, thorough bool) {
	c.w.Rule = "a case is non-trivial when the differ returned at least one change or an error; key = variant, round and canonical answer"
	hvs := historyVariants(dialect)
	var names []string
	opener := map[string]func() schema.Differ{}
	profs := map[string]*profile{}
	samples := map[string][]hCase{}
	for _, hv := range hvs {
		names = append(names, hv.name)
		opener[hv.name] = hv.open
		profs[hv.name], samples[hv.name] = historySample(hv, thorough)
	}
	tokDialect = dialect
	tag := "[" + dialect + "/"
	alone := map[string][]string{}
	// ask runs sample i of variant vn on differ d and returns the canonical answer.
	ask := func(d schema.Differ, vn string, i int) (string, []schema.Change, error) {
		h := samples[vn][i]
		g1 := build(dialect, h.from)
		g2 := g1
		if !h.alias {
			g2 = build(dialect, h.to)
		}
		c.differ = d
		cs, err, pan := c.schemaDiff(g1, g2, 0)
		obs := showSchemaChanges(cs, err)
		if pan != "" {
			obs = "panic: " + pan
		}
		return obs, cs, err
	}
	round := 0
	// check compares the answers of differ d on the whole sample of vn with the alone answers.
	check := func(what string, d schema.Differ, vn string, idx []int) {
		round++
		for _, i := range idx {
			obs, _, _ := ask(d, vn, i)
			id := fmt.Sprintf("hist-%s-r%d-%d", vn, round, i)
			c.w.ImplOnly(id, what+": "+samples[vn][i].desc+" => "+obs)
			c.w.Count("history:" + what)
			if obs != "[]" {
				c.w.NonTrivial(fmt.Sprintf("%s|%d|%s", vn, round, obs))
			}
			if obs != alone[vn][i] {
				c.w.Violation(id, "history-dependent", fmt.Sprintf("%s%s] %s: %s: the differ answered %s when used alone and %s now", tag, vn, what, samples[vn][i].desc, alone[vn][i], obs))
			}
		}
	}
	all := func(vn string) []int {
		idx := make([]int, len(samples[vn]))
		for i := range idx {
			idx[i] = i
		}
		return idx
	}
	// 1. alone.  DefaultDiff first (package-level differ), then a fresh differ per connected
	// variant; the alone answers are judged against the catalogue of the variant.
	for _, vn := range names {
		c.p = profs[vn]
		d := opener[vn]()
		for i, h := range samples[vn] {
			obs, cs, err := ask(d, vn, i)
			alone[vn] = append(alone[vn], obs)
			id := fmt.Sprintf("hist-%s-alone-%d", vn, i)
			c.w.ImplOnly(id, "alone: "+h.desc+" => "+obs)
			c.w.Count("history:alone")
			if obs != "[]" {
				c.w.NonTrivial(vn + "|alone|" + obs)
			}
			class := "edit1"
			switch {
			case h.exp == nil && len(h.edits) == 0 && h.alias:
				class = "self"
			case h.exp == nil && len(h.edits) == 0:
				class = "copy"
			case len(h.exp) == 0:
				class = "nonedit"
			}
			c.judge(id, class, "history sample ("+vn+") "+h.desc, cs, err, h.exp, h.edits)
		}
	}
	// (the alone pass itself already used the differs one after the other: my57 was asked after
	// DefaultDiff, my80 after both, ... -- so a leak forwards in that order shows in pass 2 below
	// as a difference between a fresh differ and the alone answer only if it is order dependent;
	// the passes below therefore re-create the differs in other orders.)
	// 2a. DefaultDiff after every connected differ was opened and used.
	check("DefaultDiff after differs of other servers / scopes were used", opener["default"](), "default", all("default"))
	// 2b. a new differ per connected variant, opened in reverse order, each after the others were used
	fresh := map[string]schema.Differ{}
	for i := len(names) - 1; i > 0; i-- {
		vn := names[i]
		fresh[vn] = opener[vn]()
		check("a new "+vn+" differ opened after differs of the other servers were used", fresh[vn], vn, all(vn))
	}
	// 2c. two connected differs of different versions used alternately, pair by pair
	altPairs := [][2]string{{"my57", "my80"}, {"maria", "my57"}, {"my80", "maria"}, {"default", "my57"}}
	crossPairs := [][2]string{{"my57", "my80"}, {"my80", "my57"}, {"default", "maria"}, {"maria", "default"}}
	if dialect == "postgres" {
		altPairs = [][2]string{{"default", "public"}, {"public", "public"}}
		crossPairs = [][2]string{{"default", "public"}, {"public", "default"}}
	}
	for _, pr := range altPairs {
		a, b := pr[0], pr[1]
		da, db := opener[a](), opener[b]()
		n := len(samples[a])
		if len(samples[b]) > n {
			n = len(samples[b])
		}
		for i := 0; i < n; i++ {
			if i < len(samples[a]) {
				check(a+" and "+b+" differs used alternately", da, a, []int{i})
				round--
			}
			if i < len(samples[b]) {
				check(a+" and "+b+" differs used alternately", db, b, []int{i})
				round--
			}
		}
		round++
	}
	// 2d. the same differ asked the whole sample a second time, after all of the above
	for _, vn := range names[1:] {
		check("the same "+vn+" differ asked a second time", fresh[vn], vn, all(vn))
	}
	check("DefaultDiff asked once more at the end", opener["default"](), "default", all("default"))
	// 3. history through the graphs: the differs complete / sort / rename parts of the graphs they are
	// given (defaultCharset / defaultCollate append to the desired column's attributes, partsChange
	// sorts the parts).  3a: the same differ asked twice about the very same pair of graphs;
	// 3b: another server's differ asked about the same graphs first.
	onGraphs := func(what string, first, second schema.Differ, vn string) {
		round++
		for i, h := range samples[vn] {
			g1 := build(dialect, h.from)
			g2 := g1
			if !h.alias {
				g2 = build(dialect, h.to)
			}
			c.differ = first
			c.schemaDiff(g1, g2, 0)
			c.differ = second
			cs, err, pan := c.schemaDiff(g1, g2, 0)
			obs := showSchemaChanges(cs, err)
			if pan != "" {
				obs = "panic: " + pan
			}
			id := fmt.Sprintf("hist-%s-r%d-%d", vn, round, i)
			c.w.ImplOnly(id, what+": "+h.desc+" => "+obs)
			c.w.Count("history:" + what)
			if obs != "[]" {
				c.w.NonTrivial(fmt.Sprintf("%s|%d|%s", vn, round, obs))
			}
			if obs != alone[vn][i] {
				c.w.Violation(id, "history-dependent-graph", fmt.Sprintf("%s%s] %s: %s: the differ answered %s on fresh graphs and %s now", tag, vn, what, h.desc, alone[vn][i], obs))
			}
		}
	}
	for _, vn := range names {
		d := opener[vn]()
		onGraphs("the same pair of graphs asked twice ("+vn+")", d, d, vn)
	}
	for _, pr := range crossPairs {
		onGraphs("graphs first shown to a "+pr[0]+" differ, then to the "+pr[1]+" differ", opener[pr[0]](), opener[pr[1]](), pr[1])
	}
	c.w.Set("fake_server_queries", myQueries)
}
