package main

import (
	"encoding/json"
	"fmt"
	"os"
	"path/filepath"
	"regexp"
	"sort"
	"strings"
	"sync"

	"verifharness/internal/clirun"
	"verifharness/internal/out"
	"verifharness/internal/rng"
)

// ---- CLI stage: the real `atlas` binary on SQLite files.
//   schema inspect -u sqlite://db --exclude P... --format '{{ json . }}'
//   schema apply   -u sqlite://db --to file://schema.hcl --exclude P... (--dry-run, then --auto-approve)
//   schema apply   --env local   (atlas.hcl with diff { skip { ... } })
// Oracle-only (no model): the reference glob/chain semantics of refglob.go / exclude.go decide which
// resources are excluded; the database file is read back with database/sql.

type cIdx struct{ name, col string }
type cTab struct {
	name string
	cols [][2]string // name, type ("integer" | "text")
	pk   string
	idx  []cIdx
}
type cState []cTab

func (s cState) tab(n string) *cTab {
	for i := range s {
		if s[i].name == n {
			return &s[i]
		}
	}
	return nil
}
func (t *cTab) col(n string) *[2]string {
	for i := range t.cols {
		if t.cols[i][0] == n {
			return &t.cols[i]
		}
	}
	return nil
}
func (t *cTab) index(n string) *cIdx {
	for i := range t.idx {
		if t.idx[i].name == n {
			return &t.idx[i]
		}
	}
	return nil
}

func (s cState) sql() []string {
	var st []string
	for _, t := range s {
		var cs []string
		for _, c := range t.cols {
			d := fmt.Sprintf("`%s` %s", c[0], c[1])
			if c[0] == t.pk {
				d += " NOT NULL"
			} else {
				d += " NULL"
			}
			cs = append(cs, d)
		}
		if t.pk != "" {
			cs = append(cs, fmt.Sprintf("PRIMARY KEY (`%s`)", t.pk))
		}
		st = append(st, fmt.Sprintf("CREATE TABLE `%s` (%s)", t.name, strings.Join(cs, ", ")))
		for _, i := range t.idx {
			st = append(st, fmt.Sprintf("CREATE INDEX `%s` ON `%s` (`%s`)", i.name, t.name, i.col))
		}
		st = append(st, fmt.Sprintf("INSERT INTO `%s` (`%s`) VALUES (1)", t.name, t.cols[0][0]))
	}
	return st
}

func (s cState) hcl() string {
	var b strings.Builder
	b.WriteString("schema \"main\" {}\n")
	for _, t := range s {
		fmt.Fprintf(&b, "table %q {\n  schema = schema.main\n", t.name)
		for _, c := range t.cols {
			fmt.Fprintf(&b, "  column %q {\n    null = %v\n    type = %s\n  }\n", c[0], c[0] != t.pk, c[1])
		}
		if t.pk != "" {
			fmt.Fprintf(&b, "  primary_key {\n    columns = [column.%s]\n  }\n", t.pk)
		}
		for _, i := range t.idx {
			fmt.Fprintf(&b, "  index %q {\n    columns = [column.%s]\n  }\n", i.name, i.col)
		}
		b.WriteString("}\n")
	}
	return b.String()
}

// what the database file holds: table -> (columns, indexes)
type dbState map[string]struct {
	cols map[string]bool
	idx  map[string]bool
	sql  string
}

func readDB(path string) (dbState, error) {
	st := dbState{}
	rows, err := clirun.Query(path, "SELECT type || '|' || name || '|' || tbl_name || '|' || ifnull(sql,'') FROM sqlite_master WHERE name NOT LIKE 'sqlite_%' ORDER BY type DESC, name")
	if err != nil {
		return nil, err
	}
	for _, r := range rows {
		p := strings.SplitN(r, "|", 4)
		if p[0] == "table" {
			e := st[p[1]]
			e.cols, e.idx, e.sql = map[string]bool{}, map[string]bool{}, p[3]
			cs, err := clirun.Query(path, fmt.Sprintf("SELECT name FROM pragma_table_info('%s')", p[1]))
			if err != nil {
				return nil, err
			}
			for _, c := range cs {
				e.cols[c] = true
			}
			st[p[1]] = e
		}
	}
	for _, r := range rows {
		p := strings.SplitN(r, "|", 4)
		if p[0] == "index" {
			if e, ok := st[p[2]]; ok {
				e.idx[p[1]] = true
				e.sql += "\n" + p[3]
				st[p[2]] = e
			}
		}
	}
	return st, nil
}

type cliCase struct {
	before, desired cState
	pats            []string // relative to schema main (a sqlite URL is schema-scoped)
	skip            []string // spec tags, e.g. drop_table
}

var reStmtTable = regexp.MustCompile("(?m)^(CREATE TABLE|DROP TABLE|ALTER TABLE) `([^`]+)`")
var reStmtIndex = regexp.MustCompile("(?m)^(CREATE (?:UNIQUE )?INDEX|DROP INDEX) `([^`]+)`(?: ON `([^`]+)`)?")

func runCLICase(w *out.W, mu *sync.Mutex, id string, c cliCase) {
	dir, err := os.MkdirTemp("", "c19cli")
	if err != nil {
		panic(err)
	}
	defer os.RemoveAll(dir)
	db := filepath.Join(dir, "db.sqlite")
	if err := clirun.Exec(db, c.before.sql()...); err != nil {
		panic(err)
	}
	os.WriteFile(filepath.Join(dir, "schema.hcl"), []byte(c.desired.hcl()), 0o644)
	url := "sqlite://" + db
	var viol [][2]string
	V := func(class, msg string) { viol = append(viol, [2]string{class, msg}) }
	// ---- reference: which resources do the patterns exclude
	var qual []string
	for _, p := range c.pats {
		qual = append(qual, "main."+p)
	}
	chains, splitOK, malformed := refChains(qual)
	// the scope rule, independent of how the qualified string is put together: a sqlite URL is bound to
	// schema main, so the FIRST component of a pattern is a table, the second a child, and there is no third
	if rel, ok, mal, tooMany := refScopeChains("main", c.pats); ok {
		chains, malformed = rel, mal || tooMany // too many components: an error is the justified answer
	}
	exT := func(t string) bool {
		for _, ch := range chains {
			if len(ch) == 2 && ch[0].sel("schema", "main") && ch[1].sel("table", t) {
				return true
			}
		}
		return false
	}
	exC := func(t, typ, n string) bool {
		for _, ch := range chains {
			if len(ch) == 3 && ch[0].sel("schema", "main") && ch[1].sel("table", t) && ch[2].sel(typ, n) {
				return true
			}
		}
		return false
	}
	cascade := func(t, col string) bool { // a chain admitting indexes excludes, as a column, the column of the index
		for _, ch := range chains {
			if len(ch) == 3 && ch[0].sel("schema", "main") && ch[1].sel("table", t) && ch[2].admits("index") && ch[2].sel("column", col) {
				return true
			}
		}
		return false
	}
	K := map[string]bool{}
	for _, k := range c.skip {
		K[k] = true
	}
	desc := fmt.Sprintf("before=%v desired=%v exclude=%q skip=%v", names(c.before), names(c.desired), c.pats, c.skip)
	args := func(a ...string) []string {
		for _, p := range c.pats {
			a = append(a, "--exclude", p)
		}
		return a
	}
	// ---- 1. schema inspect
	if len(c.skip) == 0 {
		r := clirun.Run(dir, nil, args("schema", "inspect", "-u", url, "--format", "{{ json . }}")...)
		if r.Exit != 0 {
			if splitOK && !malformed {
				V("cli-inspect-error", "schema inspect failed: "+strings.TrimSpace(r.Stderr))
			}
		} else {
			var doc struct {
				Schemas []struct {
					Name   string
					Tables []struct {
						Name    string
						Columns []struct{ Name string }
						Indexes []struct{ Name string }
					}
				}
			}
			if err := json.Unmarshal([]byte(r.Stdout), &doc); err != nil {
				V("cli-inspect-error", "schema inspect output is not JSON: "+r.Stdout)
			}
			got := map[string]bool{}
			for _, s := range doc.Schemas {
				for _, t := range s.Tables {
					got["table "+t.Name] = true
					for _, x := range t.Columns {
						got["column "+t.Name+"."+x.Name] = true
					}
					for _, x := range t.Indexes {
						got["index "+t.Name+"."+x.Name] = true
					}
				}
			}
			chk := func(key string, want bool) {
				if got[key] != want {
					if want {
						V("cli-inspect-missing-unexcluded", fmt.Sprintf("%s matches no pattern but is absent from `schema inspect`", key))
					} else {
						V("cli-inspect-shows-excluded", fmt.Sprintf("%s matches an --exclude pattern but `schema inspect` prints it", key))
					}
				}
			}
			for _, t := range c.before {
				gone := exT(t.name)
				chk("table "+t.name, !gone)
				for _, x := range t.cols {
					chk("column "+t.name+"."+x[0], !gone && !exC(t.name, "column", x[0]))
				}
				for _, x := range t.idx {
					chk("index "+t.name+"."+x.name, !gone && !exC(t.name, "index", x.name))
				}
			}
		}
	}
	// ---- 2. schema apply: plan (dry run), then for real
	var plan clirun.Result
	if len(c.skip) == 0 {
		plan = clirun.Run(dir, nil, args("schema", "apply", "-u", url, "--to", "file://schema.hcl", "--dry-run")...)
	} else {
		var sk []string
		for _, k := range c.skip {
			sk = append(sk, "      "+k+" = true")
		}
		var ex []string
		for _, p := range c.pats {
			ex = append(ex, fmt.Sprintf("%q", p))
		}
		// where the skip policy is written: in the env block; at project level (an env without a diff block
		// inherits it); at project level with an env-level diff block that holds only a driver-specific
		// setting and no skip block (Diff.Extend: the skip policy is still inherited)
		skipBlock := "diff {\n    skip {\n" + strings.Join(sk, "\n") + "\n    }\n  }\n"
		var project, envDiff string
		switch place := (len(desc) + len(c.skip)) % 3; place {
		case 0:
			envDiff = "  " + skipBlock
		case 1:
			project = skipBlock
		default:
			project = skipBlock
			envDiff = "  diff {\n    concurrent_index {\n      create = true\n    }\n  }\n"
		}
		os.WriteFile(filepath.Join(dir, "atlas.hcl"), []byte(fmt.Sprintf(
			"%senv \"local\" {\n  url = %q\n  src = \"file://schema.hcl\"\n  exclude = [%s]\n%s}\n",
			project, url, strings.Join(ex, ", "), envDiff)), 0o644)
		plan = clirun.Run(dir, nil, "schema", "apply", "--env", "local", "--dry-run")
	}
	var apply clirun.Result
	if len(c.skip) == 0 {
		apply = clirun.Run(dir, nil, args("schema", "apply", "-u", url, "--to", "file://schema.hcl", "--auto-approve")...)
	} else {
		apply = clirun.Run(dir, nil, "schema", "apply", "--env", "local", "--auto-approve")
	}
	after, err := readDB(db)
	if err != nil {
		panic(err)
	}
	beforeDB := dbState{}
	{ // the state before, as the database would report it
		tmp := filepath.Join(dir, "b.sqlite")
		clirun.Exec(tmp, c.before.sql()...)
		beforeDB, _ = readDB(tmp)
	}
	if plan.Exit != 0 || apply.Exit != 0 {
		if splitOK && !malformed {
			msg := strings.TrimSpace(plan.Stderr + apply.Stderr)
			cls := "cli-apply-error"
			switch {
			case regexp.MustCompile("create \"new_[^\"]+\" table: no such column").MatchString(msg):
				cls = "cli-apply-error-dangling-pk-part" // an excluded column is still named by the kept primary key and the table is rebuilt
			case regexp.MustCompile("create index .*no such column").MatchString(msg):
				cls = "cli-apply-error-dangling-index-part" // an excluded column is still named by a kept index and the table is rebuilt
			case K["add_column"] && regexp.MustCompile("copy rows from old table .*no such column").MatchString(msg):
				cls = "cli-apply-error-skip-add-column-rebuild"
			}
			V(cls, "schema apply failed: "+msg)
			if fmt.Sprint(after) != fmt.Sprint(beforeDB) {
				V("cli-failed-apply-changed-db", "schema apply reported an error but changed the database")
			}
		} else if fmt.Sprint(after) != fmt.Sprint(beforeDB) {
			V("cli-failed-apply-changed-db", "schema apply reported an error but changed the database")
		}
	} else {
		// ---- plan text: no statement names an excluded table or index
		rebuilt := map[string]bool{}
		for _, m := range reStmtTable.FindAllStringSubmatch(plan.Stdout, -1) {
			if m[1] == "CREATE TABLE" && strings.HasPrefix(m[2], "new_") {
				rebuilt[strings.TrimPrefix(m[2], "new_")] = true
			}
		}
		for _, m := range reStmtTable.FindAllStringSubmatch(plan.Stdout, -1) {
			t := strings.TrimPrefix(m[2], "new_")
			if exT(t) {
				V("cli-plan-mentions-excluded", fmt.Sprintf("table %s is excluded but the plan holds: %s `%s`", t, m[1], m[2]))
			}
			real := c.before.tab(m[2]) != nil || c.desired.tab(m[2]) != nil
			switch {
			case m[1] == "DROP TABLE" && K["drop_table"] && !rebuilt[m[2]]:
				V("cli-skip-kind-in-plan", "drop_table is skipped but the plan drops table "+m[2])
			case m[1] == "CREATE TABLE" && K["add_table"] && real && c.before.tab(m[2]) == nil:
				V("cli-skip-kind-in-plan", "add_table is skipped but the plan creates table "+m[2])
			case K["modify_table"] && c.before.tab(t) != nil && c.desired.tab(t) != nil:
				V("cli-skip-kind-in-plan", "modify_table is skipped but the plan holds: "+m[1]+" "+m[2])
			}
		}
		for _, m := range reStmtIndex.FindAllStringSubmatch(plan.Stdout, -1) {
			owner := m[3]
			if owner == "" {
				for _, t := range c.before {
					if t.index(m[2]) != nil {
						owner = t.name
					}
				}
			}
			if exT(owner) || exC(owner, "index", m[2]) {
				V("cli-plan-mentions-excluded", fmt.Sprintf("index %s.%s is excluded but the plan holds: %s", owner, m[2], m[1]))
			}
			existed := c.before.tab(owner) != nil && c.before.tab(owner).index(m[2]) != nil
			if m[1] == "DROP INDEX" && K["drop_index"] {
				V("cli-skip-kind-in-plan", "drop_index is skipped but the plan drops index "+m[2])
			}
			if strings.HasPrefix(m[1], "CREATE") && K["add_index"] && !existed && c.before.tab(owner) != nil { // indexes of a new table come with AddTable
				V("cli-skip-kind-in-plan", "add_index is skipped but the plan creates index "+m[2])
			}
		}
		if K["drop_column"] && strings.Contains(plan.Stdout, "DROP COLUMN") {
			V("cli-skip-kind-in-plan", "drop_column is skipped but the plan holds DROP COLUMN")
		}
		if K["add_column"] && strings.Contains(plan.Stdout, "ADD COLUMN") {
			V("cli-skip-kind-in-plan", "add_column is skipped but the plan holds ADD COLUMN")
		}
		// ---- effects on the database
		all := map[string]bool{}
		for _, t := range c.before {
			all[t.name] = true
		}
		for _, t := range c.desired {
			all[t.name] = true
		}
		for t := range all {
			bt, dt := c.before.tab(t), c.desired.tab(t)
			_, have := after[t]
			if exT(t) {
				if have != (bt != nil) || have && after[t].sql != beforeDB[t].sql {
					V("cli-excluded-table-touched", fmt.Sprintf("table %s is excluded but apply changed it", t))
				}
				continue
			}
			switch {
			case bt == nil: // to be added
				if want := !K["add_table"]; have != want {
					V("cli-unexcluded-table-not-managed", fmt.Sprintf("table %s (desired, not excluded): exists after apply = %v, want %v", t, have, want))
				}
				continue
			case dt == nil: // to be dropped
				if want := K["drop_table"]; have != want {
					cls := "cli-unexcluded-table-not-managed"
					if want {
						cls = "cli-skip-drop-table-lost"
					}
					V(cls, fmt.Sprintf("table %s (not desired, not excluded): exists after apply = %v, want %v", t, have, want))
				}
				continue
			case !have:
				V("cli-unexcluded-table-not-managed", "table "+t+" disappeared")
				continue
			}
			// table in both states: which change kinds does it need (excluded children aside), which remain unskipped
			need := map[string]bool{}
			for _, x := range bt.cols {
				if exC(t, "column", x[0]) {
					continue
				}
				if d := dt.col(x[0]); d == nil {
					need["drop_column"] = true
				} else if d[1] != x[1] {
					need["modify_column"] = true
				}
			}
			for _, x := range dt.cols {
				if !exC(t, "column", x[0]) && bt.col(x[0]) == nil {
					need["add_column"] = true
				}
			}
			for _, x := range bt.idx {
				if exC(t, "index", x.name) {
					continue
				}
				if d := dt.index(x.name); d == nil {
					need["drop_index"] = true
				} else if d.col != x.col {
					need["modify_index"] = true
				}
			}
			for _, x := range dt.idx {
				if !exC(t, "index", x.name) && bt.index(x.name) == nil {
					need["add_index"] = true
				}
			}
			forced := false // an unskipped change that the SQLite planner can only do by rebuilding the table
			for _, k := range []string{"drop_column", "modify_column", "modify_index"} {
				if need[k] && !K[k] {
					forced = true
				}
			}
			if K["modify_table"] {
				if after[t].sql != beforeDB[t].sql {
					V("cli-skip-kind-effect", "modify_table is skipped but table "+t+" changed")
				}
				continue
			}
			for _, x := range bt.cols {
				n := x[0]
				has := after[t].cols[n]
				switch {
				case exC(t, "column", n):
					if !has {
						cls := "cli-excluded-column-touched"
						if forced || rebuilt[t] {
							cls = "cli-excluded-column-lost-by-rebuild"
						}
						V(cls, fmt.Sprintf("column %s.%s is excluded but is gone after apply (table rebuilt: %v)", t, n, rebuilt[t]))
					}
				case dt.col(n) == nil && K["drop_column"]:
					if !has {
						cls := "cli-skip-kind-effect"
						if forced {
							cls = "cli-skip-drop-column-lost-by-rebuild"
						}
						V(cls, fmt.Sprintf("drop_column is skipped but column %s.%s is gone after apply (another change rebuilt the table: %v)", t, n, forced))
					}
				case dt.col(n) == nil:
					if has {
						V("cli-unexcluded-column-not-managed", fmt.Sprintf("column %s.%s is neither desired nor excluded but survived apply", t, n))
					}
				case !has:
					V("cli-unexcluded-column-not-managed", fmt.Sprintf("column %s.%s disappeared", t, n))
				}
			}
			for _, x := range dt.cols {
				n := x[0]
				if bt.col(n) != nil {
					continue
				}
				has := after[t].cols[n]
				switch {
				case exC(t, "column", n):
					if has {
						V("cli-excluded-column-touched", fmt.Sprintf("column %s.%s is excluded but apply created it", t, n))
					}
				case K["add_column"]:
					if has && !forced {
						V("cli-skip-kind-effect", fmt.Sprintf("add_column is skipped but column %s.%s was added", t, n))
					}
				case !has:
					V("cli-unexcluded-column-not-managed", fmt.Sprintf("column %s.%s is desired and not excluded but was not added", t, n))
				}
			}
			for _, x := range bt.idx {
				n := x.name
				has := after[t].idx[n]
				switch {
				case exC(t, "index", n):
					if !has {
						cls := "cli-excluded-index-touched"
						if rebuilt[t] {
							cls = "cli-excluded-index-lost-by-rebuild"
						}
						V(cls, fmt.Sprintf("index %s.%s is excluded but is gone after apply (table rebuilt: %v)", t, n, rebuilt[t]))
					}
				case dt.index(n) == nil && K["drop_index"]:
					if !has {
						cls := "cli-skip-kind-effect"
						if rebuilt[t] {
							cls = "cli-skip-drop-index-lost-by-rebuild"
						}
						V(cls, fmt.Sprintf("drop_index is skipped but index %s.%s is gone after apply (table rebuilt: %v)", t, n, rebuilt[t]))
					}
				case dt.index(n) == nil:
					if has {
						V("cli-unexcluded-index-not-managed", fmt.Sprintf("index %s.%s is neither desired nor excluded but survived apply", t, n))
					}
				case !has:
					cls := "cli-unexcluded-index-not-managed"
					if cascade(t, x.col) {
						cls = "cli-cascade-unexcluded-index-dropped"
					}
					V(cls, fmt.Sprintf("index %s.%s is desired, present and matches no pattern but apply dropped it (its column %s is excluded: %v)", t, n, x.col, cascade(t, x.col)))
				}
			}
			for _, x := range dt.idx {
				n := x.name
				if bt.index(n) != nil || exC(t, "index", n) || K["add_index"] {
					continue
				}
				if !after[t].idx[n] && !cascade(t, x.col) && !exC(t, "column", x.col) {
					V("cli-unexcluded-index-not-managed", fmt.Sprintf("index %s.%s is desired and not excluded but was not created", t, n))
				}
			}
		}
	}
	mu.Lock()
	defer mu.Unlock()
	w.ImplOnly(id, desc+" => plan: "+strings.ReplaceAll(strings.TrimSpace(plan.Stdout), "\n", " | "))
	w.Count(fmt.Sprintf("apply-exit:%d", apply.Exit))
	if strings.Contains(plan.Stdout, "CREATE TABLE `new_") {
		w.Count("plan:rebuild")
	}
	if fmt.Sprint(after) != fmt.Sprint(beforeDB) {
		w.NonTrivial(desc)
	}
	seen := map[string]bool{}
	for _, v := range viol {
		if !seen[v[0]+v[1]] {
			seen[v[0]+v[1]] = true
			w.Violation(id, v[0], desc+": "+v[1])
		}
	}
}

func names(s cState) []string {
	var l []string
	for _, t := range s {
		var cs, is []string
		for _, c := range t.cols {
			cs = append(cs, c[0]+":"+c[1][:1])
		}
		for _, i := range t.idx {
			is = append(is, i.name+"("+i.col+")")
		}
		l = append(l, t.name+"["+strings.Join(cs, ",")+";"+strings.Join(is, ",")+"]")
	}
	sort.Strings(l)
	return l
}

func runCLI(w *out.W, tier string) {
	w.Rule = "non-trivial = the apply changed the database file; keyed by (before, desired, patterns, skip)"
	if _, err := os.Stat(clirun.Bin()); err != nil {
		fmt.Fprintln(os.Stderr, "atlas binary not found:", clirun.Bin())
		os.Exit(1)
	}
	t1 := cTab{"t1", [][2]string{{"c1", "integer"}, {"c2", "text"}, {"c3", "integer"}}, "c1", []cIdx{{"i1", "c2"}, {"i2", "c3"}}}
	t2 := cTab{"t2", [][2]string{{"c1", "integer"}, {"c2", "text"}}, "", []cIdx{{"j1", "c2"}}}
	t3 := cTab{"t3", [][2]string{{"c1", "integer"}}, "", nil}
	t4 := cTab{"t4", [][2]string{{"c1", "integer"}}, "", []cIdx{{"k1", "c1"}}}
	before := cState{t1, t2, t3}
	mod := func(t cTab, f func(*cTab)) cTab {
		n := cTab{t.name, append([][2]string{}, t.cols...), t.pk, append([]cIdx{}, t.idx...)}
		f(&n)
		return n
	}
	desireds := []cState{
		{t1, t2, t3},     // nothing to do
		{t1, t2},         // drop t3
		{t1, t2, t3, t4}, // add t4
		{mod(t1, func(t *cTab) { t.cols = append(t.cols, [2]string{"c4", "integer"}) }), t2, t4},                                     // add column (ALTER), drop t3, add t4
		{mod(t1, func(t *cTab) { t.cols = t.cols[:2]; t.idx = t.idx[:1] }), t2, t3},                                                  // drop column c3 + index i2 (rebuild)
		{mod(t1, func(t *cTab) { t.cols[1][1] = "integer" }), t2, t3},                                                                // modify column c2 (rebuild)
		{mod(t1, func(t *cTab) { t.cols[1][1] = "integer"; t.cols = append(t.cols[:2], [2]string{"c4", "text"}); t.idx = t.idx[:1] }), t3, t4}, // modify c2, drop c3+i2, add c4, drop t2, add t4
		{mod(t1, func(t *cTab) { t.idx = []cIdx{{"i1", "c2"}, {"i3", "c3"}} }), mod(t2, func(t *cTab) { t.idx = nil }), t3},        // drop i2, add i3, drop j1 (no rebuild)
	}
	patLists := [][]string{
		nil, {"t3"}, {"t4"}, {"t[34]"}, {"t*"}, {"*[type=table]"}, {"t3[type=view]"}, {"t2", "t4"},
		{"t1.c3"}, {"t1.c3[type=column]"}, {"t1.c2"}, {"t1.c2[type=column]"}, {"t1.c4"}, {"*.c[34]"},
		{"t1.i2"}, {"t1.i*[type=index]"}, {"t1.i3"}, {"*.*[type=index]"}, {"t2.j1", "t3"}, {"t1.*"}, {"t1.c3", "t1.i2"},
	}
	skips := [][]string{
		{"drop_table"}, {"add_table"}, {"drop_column"}, {"add_column"}, {"drop_index"}, {"add_index"}, {"modify_table"},
		{"drop_table", "drop_column", "drop_index"}, {"drop_column", "drop_index"}, {"modify_column"}, {"add_table", "add_column", "add_index"},
		{"drop_schema", "rename_table", "add_view"},
	}
	var cases []cliCase
	for _, d := range desireds {
		for _, p := range patLists {
			cases = append(cases, cliCase{before, d, p, nil})
		}
		for _, k := range skips {
			cases = append(cases, cliCase{before, d, nil, k})
		}
	}
	// skip + exclude together, malformed pattern
	cases = append(cases, cliCase{before, desireds[6], []string{"t2"}, []string{"drop_column"}},
		cliCase{before, desireds[6], []string{"t1.c3"}, []string{"drop_table"}},
		cliCase{before, desireds[4], []string{"t1.["}, nil}, cliCase{before, desireds[4], []string{"t3.["}, nil})
	// ---- names that coincide across levels (round 3): the schema of a SQLite connection is "main"; the
	// database has a TABLE main with a COLUMN main and a column secret, a table secret, and an index named
	// like a column.  At the scope of the connection `main` is the table, `main.secret` the column secret of
	// table main (not the table secret), `main.*` the children of table main (not every table).
	nBase := len(cases)
	{
		tm := cTab{"main", [][2]string{{"id", "integer"}, {"main", "integer"}, {"secret", "text"}, {"c1", "integer"}}, "id", []cIdx{{"c1", "c1"}, {"i2", "secret"}}}
		ts := cTab{"secret", [][2]string{{"main", "integer"}, {"c1", "text"}}, "", []cIdx{{"j1", "main"}}}
		tt := cTab{"t1", [][2]string{{"c1", "integer"}, {"main", "text"}}, "", nil}
		t4 := cTab{"t4", [][2]string{{"c1", "integer"}, {"main", "integer"}}, "", nil}
		cbefore := cState{tm, ts, tt}
		cdesired := []cState{
			{tm, ts, tt}, // nothing to do
			{tm, tt},     // drop table secret
			{mod(tm, func(t *cTab) { t.cols = append(t.cols, [2]string{"c4", "integer"}) }), ts, tt, t4},                     // add column main.c4 (ALTER), add t4
			{mod(tm, func(t *cTab) { t.idx = []cIdx{{"i2", "secret"}, {"i3", "c1"}} }), mod(ts, func(t *cTab) { t.idx = nil }), tt}, // drop index c1, add i3, drop j1
			{ts, mod(tt, func(t *cTab) { t.cols = append(t.cols, [2]string{"secret", "text"}) })},                              // drop table main, add column t1.secret
			{mod(tm, func(t *cTab) { t.cols = t.cols[:3]; t.idx = t.idx[1:] }), ts, tt},                                          // drop column main.c1 + index c1 (rebuild)
		}
		cpats := [][]string{
			nil, {"main"}, {"secret"}, {"main.secret"}, {"main.*"}, {"main.*[type=index]"}, {"main.*[type=column]"}, {"main.main"},
			{"*.main"}, {"secret.main"}, {"m*"}, {"*"}, {"main[type=table]"}, {"main[type=schema]"}, {"main.c1"}, {"main.c1[type=index]"},
			{"main.c1[type=column]"}, {"*.c1"}, {"t1.main"}, {"main", "main.secret"}, {"secret.*"}, {"main.main.secret"}, {"main.secret", "secret"},
		}
		for _, d := range cdesired {
			for _, p := range cpats {
				cases = append(cases, cliCase{cbefore, d, p, nil})
			}
		}
		// with a skip policy (env file: exclude = [...] in the env block)
		cases = append(cases, cliCase{cbefore, cdesired[4], []string{"main.secret"}, []string{"drop_table"}},
			cliCase{cbefore, cdesired[1], []string{"main"}, []string{"drop_column"}},
			cliCase{cbefore, cdesired[5], []string{"secret"}, []string{"drop_index"}},
			// the excluded column is the primary key and another change rebuilds the table (found while building this family)
			cliCase{cbefore, cdesired[5], []string{"main.id"}, nil})
	}
	w.Set("coincide_cases", len(cases)-nBase)
	// ---- names that only a real glob tells apart (round 4, globonly.go): a LIKE / case-folding / prefix matcher in the
	// inspection hides users under 'user_*', logs under 'log_*', Audit under 'audit', aXb under 'a_b'
	nBase2 := len(cases)
	{
		one := func(n string) cTab { return cTab{n, [][2]string{{"id", "integer"}}, "", nil} }
		tu := cTab{"users", [][2]string{{"id", "integer"}, {"user_id", "integer"}, {"Name", "text"}}, "id", []cIdx{{"idx_a", "user_id"}, {"idxXa", "Name"}}}
		tus := cTab{"user_sessions", [][2]string{{"id", "integer"}, {"users", "integer"}}, "", nil}
		gbefore := cState{tu, tus, one("logs"), one("log_1"), one("Audit"), one("a%b"), one("a_b"), one("aXb")}
		addc := func(t cTab) cTab {
			return mod(t, func(t *cTab) { t.cols = append(t.cols, [2]string{"c9", "integer"}) })
		}
		gdesired := []cState{
			gbefore, // nothing to do
			{addc(tu), tus, addc(one("logs")), one("log_1"), addc(one("Audit")), one("a%b"), one("a_b"), addc(one("aXb"))},                       // add a column to users, logs, Audit, aXb
			{mod(tu, func(t *cTab) { t.idx = nil }), tus, one("log_1"), one("Audit"), one("a%b"), one("a_b"), one("t9")}, // drop logs and aXb, drop both indexes of users, add t9
		}
		gpats := [][]string{
			{"user_*"}, {"log_*"}, {"log?"}, {"audit"}, {"AUDIT"}, {"Audit"}, {"user?"}, {"USERS"}, {"a_b"}, {"a?b"}, {"a%b"}, {"%"}, {"*_*"},
			{"users.user_id"}, {"users.USER_ID"}, {"users.name"}, {"users.Name"}, {"users.idx_a"}, {"users.idx?a"}, {"USERS.*"}, {"user_*", "log_*"},
		}
		for _, d := range gdesired {
			for _, p := range gpats {
				cases = append(cases, cliCase{gbefore, d, p, nil})
			}
		}
	}
	w.Set("glob_only_cases", len(cases)-nBase2)
	w.Exhaust = true
	w.Set("exhaustive_bound", "8 desired states x (21 exclude lists + 12 skip sets) on one SQLite database (3 tables, indexes); 6 desired states x 23 exclude lists on a database whose tables are called main, secret, t1 (columns main, secret; an index named like a column); 3 desired states x 21 exclude lists on a database with tables users, user_sessions, logs, log_1, Audit, a%b, a_b, aXb (glob vs LIKE / case folding); real CLI")
	if tier == "thorough" {
		r := rng.FromEnv(0xC11)
		for i := 0; i < 1500; i++ {
			c := cliCase{before: before, desired: rng.Pick(r, desireds)}
			for k := r.Intn(3); k > 0; k-- {
				c.pats = append(c.pats, rng.Pick(r, patLists[1:])...)
			}
			if r.Bool() {
				c.skip = rng.Pick(r, skips)
			}
			cases = append(cases, c)
		}
	}
	var mu sync.Mutex
	var jobs []func()
	for i, c := range cases {
		i, c := i, c
		jobs = append(jobs, func() { runCLICase(w, &mu, fmt.Sprintf("c%d", i+1), c) })
	}
	clirun.Parallel(16, jobs)
}
