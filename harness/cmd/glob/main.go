// Command glob is the harness of property C19 (engine "glob"): exclusion
// patterns and skipped change kinds.  Modes:
//
//	match    filepath.Match itself (what schema.ExcludeRealm calls) vs the model of it
//	exclude  schema.ExcludeRealm / ExcludeSchema on generated realms x pattern lists
//	skip     SchemaDiff of the sqlite/mysql/postgres DefaultDiff with DiffSkipChanges(K), all K
//	reuse    sequences of SchemaDiff calls that share option values (DiffSkipChanges, DiffNormalized), 3 dialects
//	inspect  sqlite InspectSchema / InspectRealm with kept Exclude values, on a database with tables main, secret
//	policy   the cmdapi diff policy objects (project file diff { skip {} }) kept and reused over a sequence of diffs (CLI hook)
//	cli      the real atlas binary: schema inspect/apply --exclude, --env with diff.skip, on SQLite files
//	consumers  how an exclude list reaches schema inspect/diff/apply: flag values, occurrences, env block (tied to Excl/Consumers.v)
//	gen      writes coq/theories/gen/Gen_SkipKinds.v from the Go sources
//
// Every mode writes the model input (cases.txt), the observations of the real
// code (impl.txt) and evaluates the property oracle on those observations
// (oracle.txt), using an independent reference implementation of the glob
// semantics (refglob.go) that shares no code with path/filepath.
package main

import (
	"flag"
	"fmt"
	"os"

	"verifharness/internal/out"
)

func main() {
	mode := flag.String("mode", "match", "match|exclude|skip|reuse|inspect|policy|cli|consumers|gen")
	tier := flag.String("tier", "quick", "quick|thorough")
	outDir := flag.String("out", "", "output directory")
	flag.Parse()
	if *outDir == "" {
		fmt.Fprintln(os.Stderr, "missing -out")
		os.Exit(2)
	}
	if *mode == "gen" {
		if err := genSkipKinds(*outDir); err != nil {
			fmt.Fprintln(os.Stderr, "gen:", err)
			os.Exit(1)
		}
		if err := genExcludeSites(*outDir); err != nil {
			fmt.Fprintln(os.Stderr, "gen:", err)
			os.Exit(1)
		}
		if err := genChangeSites(*outDir); err != nil {
			fmt.Fprintln(os.Stderr, "gen:", err)
			os.Exit(1)
		}
		return
	}
	w := out.New(*outDir)
	defer w.Close()
	switch *mode {
	case "match":
		runMatch(w, *tier)
	case "exclude":
		runExclude(w, *tier)
	case "skip":
		runSkip(w, *tier)
	case "reuse":
		runReuse(w, *tier)
	case "inspect":
		runInspect(w, *tier)
	case "policy":
		runPolicy(w, *tier)
	case "cli":
		runCLI(w, *tier)
	case "consumers":
		runConsumers(w, *tier)
	case "excludex":
		runExcludeX(w, *tier)
	default:
		fmt.Fprintln(os.Stderr, "unknown mode")
		os.Exit(2)
	}
}

func hexs(s string) string {
	if s == "" {
		return "-"
	}
	return fmt.Sprintf("%x", s)
}
