package main

import (
	"fmt"
	"sort"
	"strings"
	"sync"

	"ariga.io/atlas/sql/mysql"
	"ariga.io/atlas/sql/postgres"
	"ariga.io/atlas/sql/schema"
	"ariga.io/atlas/sql/sqlite"

	"verifharness/internal/out"
	"verifharness/internal/rng"
)

// ---- reuse stage (round 3): option VALUES are kept by the caller and passed to many diffs.
//
// A case is a sequence of SchemaDiff calls on one pair of schemas.  The option values
// (schema.DiffNormalized(), schema.DiffSkipChanges(A...), schema.DiffSkipChanges(B...), ...) are
// created ONCE per case and dialect; every call of the sequence passes a sub-list of them (the
// same value in many calls, several times in one call, in both orders).  The slices handed to
// DiffSkipChanges have spare capacity holding sentinels, and the caller keeps them too.
//
// Observation (sqlite: tied to the model, mode "skipopts"; mysql/postgres: oracle only): the
// change set of every call.
// Oracle, on the Go observations only, per call:
//   - no kind named by the options of THAT call occurs at any level (skip-kind-present);
//   - the change set equals the one freshly made options with the same kinds give
//     (reuse-differs-from-fresh), which equals the unfiltered set minus exactly those kinds (skip-not-exact);
//   - after the sequence the caller's slices still hold what they held, sentinels included
//     (reuse-option-slice-rewritten).

type optSpec struct {
	norm  bool
	kinds []string // as given: order and duplicates are part of the case
}

func (o optSpec) text() string {
	if o.norm {
		return "N"
	}
	return fmt.Sprintf("S %d %s", len(o.kinds), strings.Join(o.kinds, " "))
}

type reuseCase struct {
	pool     []optSpec
	calls    [][]int // indexes into pool
	from, to dSchema
	light    bool // SchemaDiff only (the tied entry point); otherwise RealmDiff and TableDiff too
}

var ruN int

var sentinelA, sentinelB schema.Change = &schema.AddAttr{}, &schema.DropAttr{}

func differOf(dialect string) schema.Differ {
	switch dialect {
	case "sqlite":
		return sqlite.DefaultDiff
	case "mysql":
		return mysql.DefaultDiff
	}
	return postgres.DefaultDiff
}

func runReuseCase(w *out.W, c reuseCase) {
	ruN++
	id := fmt.Sprintf("u%d", ruN)
	var ct strings.Builder
	fmt.Fprintf(&ct, "%d", len(c.calls))
	for _, call := range c.calls {
		fmt.Fprintf(&ct, " %d", len(call))
		for _, i := range call {
			ct.WriteString(" " + c.pool[i].text())
		}
	}
	ct.WriteString(" " + c.from.text() + " " + c.to.text())
	// the three dialects have three distinct differ objects: run them side by side, flush in a fixed order
	dialects := []string{"sqlite", "mysql", "postgres"}
	recs := make([]*reuseRec, len(dialects))
	var wg sync.WaitGroup
	for di, dialect := range dialects {
		rec := &reuseRec{}
		recs[di] = rec
		wg.Add(1)
		go func(dialect string, rec *reuseRec) {
			defer wg.Done()
			runReuseDialect(c, dialect, rec)
		}(dialect, rec)
	}
	wg.Wait()
	for di, dialect := range dialects {
		rec := recs[di]
		for _, k := range rec.counts {
			w.Count(k)
		}
		for _, k := range rec.nontrivs {
			w.NonTrivial(k)
		}
		for _, v := range rec.viols {
			w.Violation(id, v[0], v[1])
		}
		if dialect == "sqlite" {
			w.Case(id, ct.String(), []string{rec.obs})
		} else {
			w.ImplOnly(id+"/"+dialect, rec.obs)
		}
	}
}

type reuseRec struct {
	counts, nontrivs []string
	viols            [][2]string
	obs              string
}

func (r *reuseRec) count(k string)         { r.counts = append(r.counts, k) }
func (r *reuseRec) nontriv(k string)       { r.nontrivs = append(r.nontrivs, k) }
func (r *reuseRec) viol(class, msg string) { r.viols = append(r.viols, [2]string{class, msg}) }

func runReuseDialect(c reuseCase, dialect string, rec *reuseRec) {
	{
		d := differOf(dialect)
		// ---- the caller's long-lived values
		var (
			vals    = make([]schema.DiffOption, len(c.pool))
			kept    = make([][]schema.Change, len(c.pool)) // the slices given to DiffSkipChanges, with their spare capacity
			keptWas = make([][]schema.Change, len(c.pool))
		)
		for i, o := range c.pool {
			if o.norm {
				vals[i] = schema.DiffNormalized()
				continue
			}
			s := make([]schema.Change, len(o.kinds), len(o.kinds)+2)
			for j, k := range o.kinds {
				s[j] = skipInst[k]
			}
			s[:cap(s)][len(o.kinds)], s[:cap(s)][len(o.kinds)+1] = sentinelA, sentinelB
			kept[i] = s
			keptWas[i] = append([]schema.Change{}, s[:cap(s)]...)
			vals[i] = schema.DiffSkipChanges(s...)
		}
		fresh := func(call []int) []schema.DiffOption {
			var l []schema.DiffOption
			for _, i := range call {
				if c.pool[i].norm {
					l = append(l, schema.DiffNormalized())
					continue
				}
				var s []schema.Change
				for _, k := range c.pool[i].kinds {
					s = append(s, skipInst[k])
				}
				l = append(l, schema.DiffSkipChanges(s...))
			}
			return l
		}
		// the three entry points of sqlx.Diff that build their own DiffOptions
		type entryT struct {
			name string
			run  func(opts []schema.DiffOption) (string, []cch)
		}
		show := func(cs []schema.Change, err error) (string, []cch) {
			if err != nil {
				return "err", nil
			}
			cc := canon(cs)
			return showC(cc), cc
		}
		entries := []entryT{
			{"SchemaDiff", func(opts []schema.DiffOption) (string, []cch) {
				return show(d.SchemaDiff(buildD(c.from, dialect), buildD(c.to, dialect), opts...))
			}},
			{"RealmDiff", func(opts []schema.DiffOption) (string, []cch) {
				return show(d.RealmDiff(schema.NewRealm(buildD(c.from, dialect)), schema.NewRealm(buildD(c.to, dialect)), opts...))
			}},
			{"TableDiff", func(opts []schema.DiffOption) (string, []cch) {
				f, t := buildD(c.from, dialect), buildD(c.to, dialect)
				if len(f.Tables) == 0 {
					return "none", nil
				}
				t2, ok := t.Table(f.Tables[0].Name)
				if !ok {
					return "none", nil
				}
				return show(d.TableDiff(f.Tables[0], t2, opts...))
			}},
		}
		var obs []string
		if c.light {
			entries = entries[:1]
		}
		for _, e := range entries {
			// (a) the unfiltered change set BEFORE the sequence (options: normalized only)
			pre, preC := e.run([]schema.DiffOption{schema.DiffNormalized()})
			if pre == "none" {
				continue
			}
			// (b) the sequence with the kept values: consecutive calls, nothing of the oracle in between
			got := make([]string, len(c.calls))
			gotC := make([][]cch, len(c.calls))
			for n, call := range c.calls {
				callOpts := make([]schema.DiffOption, 0, len(call)+1) // the variadic slice of this call; spare capacity on purpose
				for _, i := range call {
					callOpts = append(callOpts, vals[i])
				}
				got[n], gotC[n] = e.run(callOpts)
				rec.count(dialect + ":" + e.name)
			}
			// (c) the unfiltered change set AFTER the sequence: nothing of the options may have stayed behind in the differ
			if post, _ := e.run([]schema.DiffOption{schema.DiffNormalized()}); post != pre {
				rec.viol("reuse-state-leaks", fmt.Sprintf("%s [%s]: a diff without skip options gives %s after the sequence %v of diffs with options %v; before the sequence it gave %s",
					dialect, e.name, post, c.calls, c.pool, pre))
			}
			if e.name == "SchemaDiff" {
				obs = got
			}
			for n, call := range c.calls {
				K := map[string]bool{}
				var names []string
				for _, i := range call {
					for _, k := range c.pool[i].kinds {
						if !K[k] {
							names = append(names, k)
						}
						K[k] = true
					}
				}
				sort.Strings(names)
				where := fmt.Sprintf("%s [%s]: call %d of %d (options %s; all calls %v)", dialect, e.name, n+1, len(c.calls), showCall(c, call), c.calls)
				if want, _ := e.run(fresh(call)); got[n] != want {
					rec.viol("reuse-differs-from-fresh", fmt.Sprintf("%s: reused option values give %s, freshly made options with the same kinds %v give %s", where, got[n], names, want))
				}
				if got[n] == "err" || pre == "err" {
					if (got[n] == "err") != (pre == "err") {
						rec.viol("skip-error-differs", where+": error with skip options only or without only")
					}
					continue
				}
				if t, ok := occursKind(gotC[n], K); ok {
					rec.viol("skip-kind-present", fmt.Sprintf("%s: skipped kinds %v but the change set holds %s: %s", where, names, t, got[n]))
				}
				if ref := showC(refRemove(preC, K)); ref != got[n] {
					rec.viol("skip-not-exact", fmt.Sprintf("%s: skip %v: got %s, unfiltered minus skipped kinds is %s", where, names, got[n], ref))
				}
				if e.name == "SchemaDiff" && got[n] != pre {
					rec.count(dialect + ":filtered")
					rec.nontriv(dialect + pre + strings.Join(names, ","))
				}
			}
		}
		for i := range c.pool {
			if kept[i] == nil {
				continue
			}
			now := kept[i][:cap(kept[i])]
			for j := range now {
				if now[j] != keptWas[i][j] {
					rec.viol("reuse-option-slice-rewritten", fmt.Sprintf("%s: the slice given to DiffSkipChanges(%v...) was rewritten at position %d of its backing array (length %d) by the diffs %v",
						dialect, c.pool[i].kinds, j, len(c.pool[i].kinds), c.calls))
					break
				}
			}
		}
		rec.obs = strings.Join(obs, " || ")
	}
}

func showCall(c reuseCase, call []int) string {
	var l []string
	for _, i := range call {
		if c.pool[i].norm {
			l = append(l, "Normalized")
		} else {
			l = append(l, fmt.Sprintf("Skip#%d%v", i, c.pool[i].kinds))
		}
	}
	return strings.Join(l, ", ")
}

// the sequences every pair of option values (A = pool[1], B = pool[2]; pool[0] = DiffNormalized) goes through
var reuseSeq = [][]int{
	{0, 1, 2}, // A then B in one diff
	{0, 1},    // later: A alone must still skip exactly A's kinds
	{0, 2},    // and B alone exactly B's
	{0, 2, 1}, // the other order
	{0, 1},
	{0},          // no skip option: nothing may be skipped
	{1, 0, 1},    // the same value twice in one diff, the mode option in between
	{0, 2},       //
	{2, 1, 2, 0}, //
	{0, 1},
}

func runReuse(w *out.W, tier string) {
	w.Rule = "non-trivial = a call of the sequence whose options removed at least one change; keyed by (dialect, unfiltered change set, kinds)"
	gen, err := readSkipKinds()
	if err != nil {
		panic(err)
	}
	N := optSpec{norm: true}
	S := func(k ...string) optSpec { return optSpec{kinds: k} }
	nSets := 0
	for _, pr := range [][2]dSchema{{p0from, p0to}, {p0to, p0from}} {
		cs, err := sqlite.DefaultDiff.SchemaDiff(buildD(pr[0], "sqlite"), buildD(pr[1], "sqlite"), schema.DiffNormalized())
		if err != nil {
			panic(err)
		}
		occ := map[string]bool{}
		kindsIn(canon(cs), occ)
		var ks []string
		for _, k := range gen {
			if occ[k] {
				ks = append(ks, k)
			}
		}
		// option values: every occurring kind alone, and lists with several kinds, duplicates, the
		// destructive policy of the documentation, kinds that cannot occur, all policy kinds
		sets := [][]string{}
		for _, k := range ks {
			sets = append(sets, []string{k})
		}
		sets = append(sets,
			[]string{"DropSchema", "DropTable", "DropColumn", "DropIndex", "DropForeignKey"},
			[]string{"DropColumn", "DropColumn"},
			[]string{"AddColumn", "DropColumn", "AddColumn"},
			[]string{"DropIndex", "ModifyTable"},
			[]string{"AddTable", "DropTable"},
			[]string{"ModifyColumn", "ModifyIndex", "ModifyForeignKey"},
			[]string{"AddIndex", "AddForeignKey", "AddColumn", "AddTable"},
			[]string{"RenameTable", "AddView", "DropSchema"},
			append([]string{}, gen...),
		)
		nSets = len(sets)
		// single values
		for _, a := range sets {
			runReuseCase(w, reuseCase{[]optSpec{N, S(a...)}, [][]int{{0, 1}, {0}, {0, 1}, {1, 0, 1}, {0}, {1, 1, 0}}, pr[0], pr[1], false})
		}
		// all ordered pairs: overlapping (a shares a kind with b), disjoint, equal
		for i, a := range sets {
			for j, b := range sets {
				// all three entry points for equal and neighbouring values (and for every single value above and every
				// random case below); SchemaDiff, the tied one, for every ordered pair
				near := i-j <= 1 && j-i <= 1
				runReuseCase(w, reuseCase{[]optSpec{N, S(a...), S(b...)}, reuseSeq, pr[0], pr[1], !near})
			}
		}
	}
	w.Exhaust = true
	w.Set("exhaustive_bound", fmt.Sprintf("%d option values (every occurring policy kind alone, 9 lists with several kinds / duplicates / non-occurring kinds / all kinds): every value alone (6 calls) and every ordered pair of values through a sequence of %d diffs, on the rich pair of the skip stage in both directions, 3 dialects", nSets, len(reuseSeq)))
	// ---- seeded random: random pairs of schemas, 3 random option values, random sequences
	r := rng.FromEnv(0x2E05E)
	cnt := 400
	if tier == "thorough" {
		cnt = 15000
	}
	common := []string{"AddTable", "DropTable", "ModifyTable", "AddColumn", "DropColumn", "ModifyColumn", "AddIndex", "DropIndex", "ModifyIndex", "AddForeignKey", "DropForeignKey", "ModifyForeignKey", "RenameConstraint"}
	for i := 0; i < cnt; i++ {
		from, to := randPair(r)
		pool := []optSpec{N}
		for k := 0; k < 3; k++ {
			var ks []string
			for n := 1 + r.Intn(3); n > 0; n-- {
				if r.Chance(1, 5) {
					ks = append(ks, rng.Pick(r, gen))
				} else {
					ks = append(ks, rng.Pick(r, common))
				}
			}
			if r.Chance(1, 4) {
				ks = append(ks, ks[0])
			}
			pool = append(pool, S(ks...))
		}
		var calls [][]int
		for n := 4 + r.Intn(4); n > 0; n-- {
			call := []int{0}
			for k := r.Intn(4); k > 0; k-- {
				call = append(call, 1+r.Intn(3))
			}
			if r.Chance(1, 3) { // the mode option anywhere
				j := r.Intn(len(call))
				call[0], call[j] = call[j], call[0]
			}
			calls = append(calls, call)
		}
		runReuseCase(w, reuseCase{pool, calls, from, to, false})
	}
}
