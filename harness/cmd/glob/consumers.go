package main

import (
	"encoding/json"
	"fmt"
	"os"
	"path/filepath"
	"regexp"
	"sort"
	"strings"
	"sync"

	"verifharness/internal/clirun"
	"verifharness/internal/out"
)

// ---- consumers stage (round 5): how an exclude list reaches the commands that accept --exclude.
// Real `atlas` binary on SQLite files; every command x every route of the SAME list:
//   F1  --exclude p1,p2,...            (one flag value)
//   F2  --exclude p1 --exclude p2 ...  (one occurrence per pattern)
//   E   --env e, env block with exclude = [p1, p2, ...]
//   EF  --env e (env block with ANOTHER list) and --exclude p1,p2,...  (the flag hides the env list)
//   R0  no list at all
// Commands: schema inspect (state printed as JSON), schema diff (both states and the change set printed by a
// --format template over cmdlog.SchemaDiff{From, To, Changes}), schema apply --dry-run (planned statements).
// Tied to the model Excl/Consumers.v (pflag csv reader, maySetFlag, the two stateReaders, SchemaDiff).
// Oracle (Go observations only): the routes F1, F2, E of one list give the same observation; both states equal
// the reference filter (scope rule + reference glob) of the raw states with the list AS WRITTEN; the change set
// is the name-level difference of the two reference-filtered states.

type conCase struct {
	cmd    string   // I | D | A
	route  string   // R0 F1 F2 E EF Q
	flags  []string // values of the --exclude occurrences
	env    []string // exclude attribute of the env block (nil: no --env)
	useEnv bool
	list   []string // the list the user means (reference)
	from   cState
	to     cState
	group  string // cases of one group must agree
	hcl    bool   // the state that is not the --url database is given as an HCL file + --dev-url (normalised on the dev database)
}

func conSchema(s cState) dSchema {
	d := dSchema{name: "main"}
	for _, t := range s {
		dt := dTable{name: t.name}
		for _, c := range t.cols {
			ty := 2
			if c[1] == "text" {
				ty = 3
			}
			dt.cols = append(dt.cols, dCol{name: c[0], typ: ty, null: true})
		}
		for _, i := range t.idx {
			dt.idx = append(dt.idx, dIdx{name: i.name, parts: []dPart{{col: i.col}}})
		}
		d.tables = append(d.tables, dt)
	}
	return d
}

func conShowTab(name string, cols, idx []string) string {
	h := func(l []string) string {
		var o []string
		for _, x := range l {
			o = append(o, hexs(x))
		}
		return strings.Join(o, ",")
	}
	sort.Strings(idx)
	return fmt.Sprintf("T(%s){c=%s;i=%s}", hexs(name), h(cols), h(idx))
}

func conShowState(s cState) string {
	var ts []string
	for _, t := range s {
		var cs, is []string
		for _, c := range t.cols {
			cs = append(cs, c[0])
		}
		for _, i := range t.idx {
			is = append(is, i.name)
		}
		ts = append(ts, conShowTab(t.name, cs, is))
	}
	sort.Strings(ts)
	return strings.Join(ts, " ")
}

// reference: the state filtered by the list as written (scope rule of a schema-bound URL)
func conRefFilter(s cState, pats []string) (cState, bool) {
	chains, ok, mal, tooMany := refScopeChains("main", pats)
	if !ok || mal || tooMany {
		return nil, false
	}
	var o cState
	for _, t := range s {
		gone := false
		for _, ch := range chains {
			if len(ch) == 2 && ch[1].sel("table", t.name) {
				gone = true
			}
		}
		if gone {
			continue
		}
		n := cTab{name: t.name}
		for _, c := range t.cols {
			ex := false
			for _, ch := range chains {
				if len(ch) == 3 && ch[1].sel("table", t.name) && ch[2].sel("column", c[0]) {
					ex = true
				}
			}
			if !ex {
				n.cols = append(n.cols, c)
			}
		}
		for _, i := range t.idx {
			ex := false
			for _, ch := range chains {
				if len(ch) == 3 && ch[1].sel("table", t.name) && ch[2].sel("index", i.name) {
					ex = true
				}
			}
			if !ex {
				n.idx = append(n.idx, i)
			}
		}
		o = append(o, n)
	}
	return o, true
}

func conRefAtoms(f, t cState) string {
	var a []string
	for _, x := range f {
		y := t.tab(x.name)
		if y == nil {
			a = append(a, "-T("+hexs(x.name)+")")
			continue
		}
		for _, c := range x.cols {
			if y.col(c[0]) == nil {
				a = append(a, "-C("+hexs(x.name)+"."+hexs(c[0])+")")
			}
		}
		for _, c := range y.cols {
			if x.col(c[0]) == nil {
				a = append(a, "+C("+hexs(x.name)+"."+hexs(c[0])+")")
			}
		}
		for _, i := range x.idx {
			if y.index(i.name) == nil {
				a = append(a, "-I("+hexs(x.name)+"."+hexs(i.name)+")")
			}
		}
		for _, i := range y.idx {
			if x.index(i.name) == nil {
				a = append(a, "+I("+hexs(x.name)+"."+hexs(i.name)+")")
			}
		}
	}
	for _, y := range t {
		if f.tab(y.name) == nil {
			a = append(a, "+T("+hexs(y.name)+")")
		}
	}
	sort.Strings(a)
	if len(a) == 0 {
		return "-"
	}
	return strings.Join(a, ",")
}

const conDiffTemplate = `{{ range .From.Schemas }}{{ range .Tables }}F {{ printf "%x" .Name }} {{ range .Columns }}{{ printf "%x" .Name }},{{ end }} {{ range .Indexes }}{{ printf "%x" .Name }},{{ end }}
{{ end }}{{ end }}{{ range .To.Schemas }}{{ range .Tables }}T {{ printf "%x" .Name }} {{ range .Columns }}{{ printf "%x" .Name }},{{ end }} {{ range .Indexes }}{{ printf "%x" .Name }},{{ end }}
{{ end }}{{ end }}{{ range .Changes }}{{ $k := printf "%T" . }}{{ if eq $k "*schema.AddTable" }}C +T({{ printf "%x" .T.Name }})
{{ else if eq $k "*schema.DropTable" }}C -T({{ printf "%x" .T.Name }})
{{ else if eq $k "*schema.ModifyTable" }}{{ $t := printf "%x" .T.Name }}{{ range .Changes }}{{ $j := printf "%T" . }}{{ if eq $j "*schema.AddColumn" }}C +C({{ $t }}.{{ printf "%x" .C.Name }})
{{ else if eq $j "*schema.DropColumn" }}C -C({{ $t }}.{{ printf "%x" .C.Name }})
{{ else if eq $j "*schema.ModifyColumn" }}C ~C({{ $t }}.{{ printf "%x" .To.Name }})
{{ else if eq $j "*schema.AddIndex" }}C +I({{ $t }}.{{ printf "%x" .I.Name }})
{{ else if eq $j "*schema.DropIndex" }}C -I({{ $t }}.{{ printf "%x" .I.Name }})
{{ else if eq $j "*schema.ModifyIndex" }}C ~I({{ $t }}.{{ printf "%x" .To.Name }})
{{ else }}C ?({{ $j }})
{{ end }}{{ end }}{{ else }}C ?({{ $k }})
{{ end }}{{ end }}`

var (
	reConCreateT = regexp.MustCompile("^CREATE TABLE `([^`]+)`")
	reConDropT   = regexp.MustCompile("^DROP TABLE `([^`]+)`")
	reConAddC    = regexp.MustCompile("^ALTER TABLE `([^`]+)` ADD COLUMN `([^`]+)`")
	reConAddI    = regexp.MustCompile("^CREATE (?:UNIQUE )?INDEX `([^`]+)` ON `([^`]+)`")
	reConDropI   = regexp.MustCompile("^DROP INDEX `([^`]+)`")
)

func conHexList(s string) []string { // "6131,6232," -> names
	var o []string
	for _, h := range strings.Split(s, ",") {
		if h == "" {
			continue
		}
		var b []byte
		fmt.Sscanf(h, "%x", &b)
		o = append(o, string(b))
	}
	return o
}

// one CLI run; returns the observation line (same text as ocaml/glob/driver.ml mode consumers)
func conRun(c conCase) (obs string, stderr string) {
	dir, err := os.MkdirTemp("", "c19con")
	if err != nil {
		panic(err)
	}
	defer os.RemoveAll(dir)
	dbA, dbB := filepath.Join(dir, "a.sqlite"), filepath.Join(dir, "b.sqlite")
	if err := clirun.Exec(dbA, c.from.sql()...); err != nil {
		panic(err)
	}
	if err := clirun.Exec(dbB, c.to.sql()...); err != nil {
		panic(err)
	}
	os.WriteFile(filepath.Join(dir, "schema.hcl"), []byte(c.to.hcl()), 0o644)
	if c.useEnv {
		var ex []string
		for _, p := range c.env {
			ex = append(ex, fmt.Sprintf("%q", p))
		}
		extra := ""
		if c.cmd == "M" {
			extra = "  dev = \"sqlite://dev?mode=memory\"\n  migration {\n    dir = \"file://migs\"\n  }\n"
		}
		os.WriteFile(filepath.Join(dir, "atlas.hcl"), []byte(fmt.Sprintf(
			"env \"e\" {\n  url = %q\n  src = \"file://schema.hcl\"\n%s  exclude = [%s]\n}\n", "sqlite://"+dbA, extra, strings.Join(ex, ", "))), 0o644)
	}
	var args []string
	switch c.cmd {
	case "I":
		args = []string{"schema", "inspect", "--format", "{{ json . }}"}
		switch {
		case c.hcl: // inspect of an HCL file: stateReaderHCL, normalised on the dev database, then excluded
			args = append(args, "-u", "file://schema.hcl", "--dev-url", "sqlite://dev?mode=memory")
			if c.useEnv {
				args = append(args, "--env", "e")
			}
		case c.useEnv:
			args = append(args, "--env", "e")
		default:
			args = append(args, "-u", "sqlite://"+dbA)
		}
	case "D":
		to := "sqlite://" + dbB
		args = []string{"schema", "diff", "--from", "sqlite://" + dbA, "--format", conDiffTemplate}
		if c.hcl {
			to = "file://schema.hcl"
			args = append(args, "--dev-url", "sqlite://dev?mode=memory")
		}
		args = append(args, "--to", to)
		if c.useEnv {
			args = append(args, "--env", "e")
		}
	case "C":
		args = []string{"schema", "clean", "--auto-approve"}
		if c.useEnv {
			args = append(args, "--env", "e")
		} else {
			args = append(args, "-u", "sqlite://"+dbA)
		}
	case "M":
		os.MkdirAll(filepath.Join(dir, "migs"), 0o755)
		args = []string{"migrate", "diff", "m1"}
		if c.useEnv {
			args = append(args, "--env", "e")
		} else {
			args = append(args, "--dir", "file://migs", "--to", "file://schema.hcl", "--dev-url", "sqlite://dev?mode=memory")
		}
	case "A":
		args = []string{"schema", "apply", "--dry-run"}
		if c.useEnv {
			args = append(args, "--env", "e")
		} else {
			args = append(args, "-u", "sqlite://"+dbA, "--to", "file://schema.hcl")
		}
	}
	for _, f := range c.flags {
		args = append(args, "--exclude", f)
	}
	r := clirun.Run(dir, nil, args...)
	if r.Exit != 0 {
		return "err", strings.TrimSpace(r.Stderr)
	}
	switch c.cmd {
	case "I":
		var doc struct {
			Schemas []struct {
				Name   string
				Tables []struct {
					Name    string
					Columns []struct{ Name string }
					Indexes []struct{ Name string }
				}
			}
		}
		if err := json.Unmarshal([]byte(r.Stdout), &doc); err != nil {
			return "notjson", r.Stdout
		}
		var ts []string
		for _, s := range doc.Schemas {
			for _, t := range s.Tables {
				var cs, is []string
				for _, x := range t.Columns {
					cs = append(cs, x.Name)
				}
				for _, x := range t.Indexes {
					is = append(is, x.Name)
				}
				ts = append(ts, conShowTab(t.Name, cs, is))
			}
		}
		sort.Strings(ts)
		return "ok from=[" + strings.Join(ts, " ") + "]", ""
	case "D":
		var fs, ts, as []string
		for _, l := range strings.Split(r.Stdout, "\n") {
			p := strings.Split(l, " ")
			switch {
			case len(p) == 4 && (p[0] == "F" || p[0] == "T"):
				nm := conHexList(p[1])
				if len(nm) != 1 {
					return "badline", l
				}
				s := conShowTab(nm[0], conHexList(p[2]), conHexList(p[3]))
				if p[0] == "F" {
					fs = append(fs, s)
				} else {
					ts = append(ts, s)
				}
			case len(p) == 2 && p[0] == "C":
				as = append(as, p[1])
			case strings.TrimSpace(l) == "":
			default:
				return "badline", l
			}
		}
		sort.Strings(fs)
		sort.Strings(ts)
		sort.Strings(as)
		a := strings.Join(as, ",")
		if a == "" {
			a = "-"
		}
		return "ok from=[" + strings.Join(fs, " ") + "] to=[" + strings.Join(ts, " ") + "] ch=" + a, ""
	default:
		if c.cmd == "M" { // the planned statements are in the migration file
			r.Stdout = ""
			fs, _ := filepath.Glob(filepath.Join(dir, "migs", "*.sql"))
			for _, f := range fs {
				b, _ := os.ReadFile(f)
				r.Stdout += string(b) + "\n"
			}
		}
		var as []string
		idxTab := map[string]string{}
		for _, t := range c.from {
			for _, i := range t.idx {
				idxTab[i.name] = t.name
			}
		}
		for _, l := range strings.Split(r.Stdout, "\n") {
			switch {
			case reConCreateT.MatchString(l):
				as = append(as, "+T("+hexs(reConCreateT.FindStringSubmatch(l)[1])+")")
			case reConDropT.MatchString(l):
				as = append(as, "-T("+hexs(reConDropT.FindStringSubmatch(l)[1])+")")
			case reConAddC.MatchString(l):
				m := reConAddC.FindStringSubmatch(l)
				as = append(as, "+C("+hexs(m[1])+"."+hexs(m[2])+")")
			case reConAddI.MatchString(l):
				m := reConAddI.FindStringSubmatch(l)
				as = append(as, "+I("+hexs(m[2])+"."+hexs(m[1])+")")
			case reConDropI.MatchString(l):
				m := reConDropI.FindStringSubmatch(l)
				as = append(as, "-I("+hexs(idxTab[m[1]])+"."+hexs(m[1])+")")
			case strings.HasPrefix(l, "ALTER ") || strings.HasPrefix(l, "INSERT "):
				as = append(as, "?("+hexs(l)+")")
			}
		}
		// an AddTable carries its indexes: CREATE INDEX on a table created by the same plan is part of +T
		created := map[string]bool{}
		for _, x := range as {
			if strings.HasPrefix(x, "+T(") {
				created[strings.TrimSuffix(strings.TrimPrefix(x, "+T("), ")")] = true
			}
		}
		var keep []string
		for _, x := range as {
			if strings.HasPrefix(x, "+I(") && created[strings.SplitN(strings.TrimPrefix(x, "+I("), ".", 2)[0]] {
				continue
			}
			keep = append(keep, x)
		}
		as = keep
		sort.Strings(as)
		a := strings.Join(as, ",")
		if a == "" {
			a = "-"
		}
		return "ok ch=" + a, ""
	}
}

func conCaseLine(c conCase) string {
	var b strings.Builder
	fmt.Fprintf(&b, "%s %d", c.cmd, len(c.flags))
	for _, f := range c.flags {
		b.WriteString(" " + hexs(f))
	}
	if !c.useEnv {
		b.WriteString(" ~")
	} else {
		fmt.Fprintf(&b, " E %d", len(c.env))
		for _, p := range c.env {
			b.WriteString(" " + hexs(p))
		}
	}
	b.WriteString(" " + conSchema(c.from).text() + " " + conSchema(c.to).text())
	return b.String()
}

func runConsumers(w *out.W, tier string) {
	tab := func(n string, cols []string, idx ...cIdx) cTab {
		t := cTab{name: n, idx: idx}
		for _, c := range cols {
			t.cols = append(t.cols, [2]string{c, "integer"})
		}
		return t
	}
	A := cState{
		tab("t1", []string{"c1", "c2", "c3"}, cIdx{"i1", "c2"}),
		tab("t2", []string{"c1", "c2"}, cIdx{"j1", "c2"}),
		tab("t3", []string{"c1"}),
		tab("users", []string{"id", "name"}),
	}
	B := cState{
		tab("t1", []string{"c1", "c2", "c3", "c4"}, cIdx{"i1", "c2"}),
		tab("t2", []string{"c1", "c2"}, cIdx{"j2", "c1"}),
		tab("t4", []string{"c1"}),
		tab("users", []string{"id", "name", "email"}),
	}
	A2 := append(append(cState{}, A...), tab("a,b", []string{"c1"}), tab("a", []string{"c1"}))
	lists := [][]string{
		{"t9", "t3"},                         // only the SECOND pattern matches anything
		{"t3", "t4"},                         // each table by exactly one pattern
		{"t1.c4", "t2.j*[type=index]"},       // children; second pattern with a selector
		{"x*", "nope", "t3", "users"},        // third and fourth
		{"t4", "t3", "t1", "t2", "users"},    // everything: synced
		{"t[34]", "*.email"},                 //
		{"users.email", "t1.c4", "t4"},       //
		{"nope", "t2.j1"},                    //
		{"t3"},                               // one pattern (control)
		{"t4", "t3"},                         // the order swapped (first one matches only the desired state)
		{"*.c4[type=column]", "t?.j2", "t3"}, //
		{"t9", "*"},                          // the literal * of the mode shortcut (sqlx.ModeInspectSchema), second
	}
	if tier == "thorough" {
		lists = append(lists, []string{"a*", "b*", "c*", "t3"}, []string{"t1.*[type=index]", "t2.*[type=index]", "users"},
			[]string{"t3", "t3", "t4"}, []string{"*.c4", "*.email", "*.j?"})
	}
	other := []string{"users", "t1"} // the env list of the EF route: must have NO effect
	var cases []conCase
	for _, cmd := range []string{"I", "D", "A"} {
		cases = append(cases, conCase{cmd: cmd, route: "R0", from: A, to: B, group: cmd + "/none"})
		cases = append(cases, conCase{cmd: cmd, route: "R0e", useEnv: true, from: A, to: B, group: cmd + "/none"}) // env block with exclude = []
		for li, l := range lists {
			g := fmt.Sprintf("%s/L%d", cmd, li)
			j := strings.Join(l, ",")
			cases = append(cases,
				conCase{cmd: cmd, route: "F1", flags: []string{j}, list: l, from: A, to: B, group: g},
				conCase{cmd: cmd, route: "F2", flags: l, list: l, from: A, to: B, group: g},
				conCase{cmd: cmd, route: "E", env: l, useEnv: true, list: l, from: A, to: B, group: g},
				conCase{cmd: cmd, route: "EF", flags: []string{j}, env: other, useEnv: true, list: l, from: A, to: B, group: g},
			)
			if len(l) > 2 { // mixed: two occurrences, the first with several values
				cases = append(cases, conCase{cmd: cmd, route: "F3", flags: []string{strings.Join(l[:2], ","), strings.Join(l[2:], ",")}, list: l, from: A, to: B, group: g})
			}
		}
		// the other state reader: an HCL file normalised on a dev database (stateReaderHCL), routes F1 and E
		if cmd != "A" {
			f := A
			if cmd == "I" {
				f = B // the file IS the inspected state
			}
			cases = append(cases, conCase{cmd: cmd, route: "R0", hcl: true, from: f, to: B, group: cmd + "/hcl-none"})
			for li, l := range lists {
				g := fmt.Sprintf("%s/hcl-L%d", cmd, li)
				cases = append(cases,
					conCase{cmd: cmd, route: "F1", hcl: true, flags: []string{strings.Join(l, ",")}, list: l, from: f, to: B, group: g},
					conCase{cmd: cmd, route: "E", hcl: true, env: l, useEnv: true, list: l, from: f, to: B, group: g})
			}
		}
		// values that the csv reader of pflag does not copy
		cases = append(cases,
			conCase{cmd: cmd, route: "Q", env: []string{"a,b"}, useEnv: true, list: []string{"a,b"}, from: A2, to: B, group: cmd + "/Qenv-comma"},
			conCase{cmd: cmd, route: "Q", flags: []string{`"a,b"`}, list: []string{"a,b"}, from: A2, to: B, group: cmd + "/Qflag-quoted"},
			conCase{cmd: cmd, route: "Q", env: []string{"t3", "a,b"}, useEnv: true, list: []string{"t3", "a,b"}, from: A2, to: B, group: cmd + "/Qenv-comma2"},
			conCase{cmd: cmd, route: "Q", env: []string{`a"b`, "t3"}, useEnv: true, list: nil, from: A, to: B, group: cmd + "/Qenv-quote"},
			conCase{cmd: cmd, route: "Q", env: []string{"", "t3"}, useEnv: true, list: []string{"t3"}, from: A, to: B, group: cmd + "/Qenv-empty-first"},
			conCase{cmd: cmd, route: "Q", env: []string{""}, useEnv: true, list: nil, from: A, to: B, group: cmd + "/Qenv-empty"},
			conCase{cmd: cmd, route: "Q", flags: []string{"t3,"}, list: []string{"t3"}, from: A, to: B, group: cmd + "/Qflag-trailing"},
		)
	}
	// the two commands that take --env but have no exclude flag: the env list is never read
	for _, cmd := range []string{"C", "M"} {
		f, t := A, cState{}
		if cmd == "M" {
			f, t = cState{}, B
		}
		cases = append(cases,
			conCase{cmd: cmd, route: "R0", from: f, to: t, group: cmd + "/none"},
			conCase{cmd: cmd, route: "R0e", useEnv: true, from: f, to: t, group: cmd + "/none"},
			conCase{cmd: cmd, route: "X", flags: []string{"t3"}, from: f, to: t, group: cmd + "/flag"}, // unknown flag: an error
		)
		ls := [][]string{{"t9", "t3"}, {"t4", "t3", "users"}, {"t3"}, {"*"}}
		if cmd == "M" {
			ls = [][]string{{"t9", "t4"}, {"t3", "t4", "users"}, {"t4"}, {"*"}}
		}
		for li, l := range ls {
			cases = append(cases, conCase{cmd: cmd, route: "E", env: l, useEnv: true, list: l, from: f, to: t, group: fmt.Sprintf("%s/L%d", cmd, li)})
		}
	}
	w.Rule = "non-trivial = the list changes the observation of the command (differs from the run without any list); keyed by (command, list)"
	w.Exhaust = true
	w.Set("exhaustive_bound", fmt.Sprintf("3 commands (schema inspect, schema diff, schema apply --dry-run) x %d exclude lists (2-5 patterns, the matching pattern never only the first) x routes F1 (one flag value), F2 (one occurrence per pattern), F3 (two occurrences), E (env block), EF (env block with another list + flag) + no list + 7 values the csv reader of pflag changes; real CLI on SQLite", len(lists)))
	type res struct{ obs, stderr string }
	results := make([]res, len(cases))
	var jobs []func()
	for i := range cases {
		i := i
		jobs = append(jobs, func() { o, e := conRun(cases[i]); results[i] = res{o, e} })
	}
	clirun.Parallel(12, jobs)
	var mu sync.Mutex
	_ = mu
	none := map[string]string{}
	for i, c := range cases {
		if c.route == "R0" {
			none[fmt.Sprint(c.cmd, c.hcl, len(c.from))] = results[i].obs
		}
	}
	first := map[string]int{}
	for i, c := range cases {
		id := fmt.Sprintf("u%d", i+1)
		obs := results[i].obs
		w.Case(id, conCaseLine(c), []string{obs})
		w.Count("consumers:" + c.cmd + ":" + c.route)
		desc := fmt.Sprintf("cmd=%s%s route=%s flags=%q env=%q(use=%v) list=%q", map[bool]string{false: "", true: "[other state = HCL file + --dev-url] "}[c.hcl], map[string]string{"I": "schema inspect", "D": "schema diff", "A": "schema apply --dry-run", "C": "schema clean --auto-approve", "M": "migrate diff"}[c.cmd], c.route, c.flags, c.env, c.useEnv, c.list)
		if obs != none[fmt.Sprint(c.cmd, c.hcl, len(c.from))] {
			w.NonTrivial(c.group)
		}
		// (a) the routes of one list agree
		if j, ok := first[c.group]; ok {
			if results[j].obs != obs {
				w.Violation(id, "consumers-route-differs", fmt.Sprintf("%s: observation %q differs from the one of route %s of the same list (u%d): %q", desc, obs, cases[j].route, j+1, results[j].obs))
			}
		} else {
			first[c.group] = i
		}
		if strings.HasSuffix(c.group, "/Qenv-quote") || c.route == "X" {
			continue // an error is a justified answer (the text is no csv line); nothing to check but the tie
		}
		// (b) the reference with the list as written
		rf, ok1 := conRefFilter(c.from, c.list)
		rt, ok2 := conRefFilter(c.to, c.list)
		if !ok1 || !ok2 {
			continue
		}
		if obs == "err" || !strings.HasPrefix(obs, "ok ") {
			w.Violation(id, "consumers-error", desc+": command failed: "+results[i].stderr)
			continue
		}
		var want string
		switch c.cmd {
		case "I":
			want = "ok from=[" + conShowState(rf) + "]"
		case "D":
			want = "ok from=[" + conShowState(rf) + "] to=[" + conShowState(rt) + "] ch=" + conRefAtoms(rf, rt)
		default:
			want = "ok ch=" + conRefAtoms(rf, rt)
		}
		if obs != want {
			cls := "consumers-state-or-plan-wrong"
			if c.cmd == "C" && c.route == "E" {
				cls = "consumers-clean-drops-excluded"
			} else if c.cmd == "M" && c.route == "E" {
				cls = "consumers-migrate-diff-plans-excluded"
			} else if c.route == "E" || (c.route == "Q" && c.useEnv) {
				cls = "consumers-env-list-not-applied"
				for _, p := range c.env {
					if strings.Contains(p, ",") {
						cls = "consumers-env-pattern-resplit"
					}
				}
			}
			w.Violation(id, cls, fmt.Sprintf("%s: observed %q, the list as written gives %q", desc, obs, want))
		}
	}
}
