package main

import (
	"fmt"
	"strings"

	"ariga.io/atlas/sql/schema"

	"verifharness/internal/out"
	"verifharness/internal/rng"
)

// ---- the generator's own description of a realm (source of both the real
// schema graph and the model's case text)
type mIdx struct {
	name  string
	parts []string // column name, or "" for an expression part
}
type mFk struct {
	sym  string
	cols []string
}
type mTable struct {
	name   string
	cols   []string
	pk     []string // nil = no primary key
	idx    []mIdx
	fks    []mFk
	checks []string
}
type mSchema struct {
	name   string
	tables []mTable
}

func (t mTable) text() string {
	var b strings.Builder
	fmt.Fprintf(&b, "%s 0 0 %d", hexs(t.name), len(t.cols))
	for _, c := range t.cols {
		fmt.Fprintf(&b, " %s 2 %s 0 ~ ~ ~", hexs(c), hexs("int"))
	}
	part := func(i int, p string) {
		if p == "" {
			fmt.Fprintf(&b, " %d 0 ~ %s", i, hexs("(x)"))
		} else {
			fmt.Fprintf(&b, " %d 0 %s ~", i, hexs(p))
		}
	}
	if t.pk == nil {
		b.WriteString(" ~")
	} else {
		fmt.Fprintf(&b, " P - 0 %d", len(t.pk))
		for i, p := range t.pk {
			part(i, p)
		}
		b.WriteString(" ~ ~ ~")
	}
	fmt.Fprintf(&b, " %d", len(t.idx))
	for _, ix := range t.idx {
		fmt.Fprintf(&b, " %s 0 %d", hexs(ix.name), len(ix.parts))
		for i, p := range ix.parts {
			part(i, p)
		}
		b.WriteString(" ~ ~ ~")
	}
	fmt.Fprintf(&b, " %d", len(t.fks))
	for _, f := range t.fks {
		fmt.Fprintf(&b, " %s %d", hexs(f.sym), len(f.cols))
		for _, c := range f.cols {
			b.WriteString(" " + hexs(c))
		}
		fmt.Fprintf(&b, " %s %d", hexs(t.name), len(f.cols))
		for _, c := range f.cols {
			b.WriteString(" " + hexs(c))
		}
		b.WriteString(" - -")
	}
	fmt.Fprintf(&b, " %d", len(t.checks))
	for _, k := range t.checks {
		fmt.Fprintf(&b, " %s %s", hexs(k), hexs("x>0"))
	}
	return b.String()
}

func realmText(r []mSchema) string {
	var b strings.Builder
	fmt.Fprintf(&b, "%d", len(r))
	for _, s := range r {
		fmt.Fprintf(&b, " %s %d", hexs(s.name), len(s.tables))
		for _, t := range s.tables {
			b.WriteString(" " + t.text())
		}
	}
	return b.String()
}

// build the real schema graph.  linkI/linkF: whether columns get back-pointers to the
// indexes / foreign keys that use them (Index.AddColumns / ForeignKey.AddColumns do;
// sqlite's inspection appends index parts without linking).
func build(r []mSchema, linkI, linkF bool) *schema.Realm {
	realm := &schema.Realm{}
	for _, ms := range r {
		s := schema.New(ms.name)
		for _, mt := range ms.tables {
			t := schema.NewTable(mt.name)
			cols := map[string]*schema.Column{}
			for _, c := range mt.cols {
				col := schema.NewIntColumn(c, "int")
				cols[c] = col
				t.AddColumns(col)
			}
			mk := func(name string, parts []string, link bool) *schema.Index {
				ix := schema.NewIndex(name)
				for _, p := range parts {
					switch {
					case p == "":
						ix.AddExprs(&schema.RawExpr{X: "(x)"})
					case link:
						ix.AddColumns(cols[p])
					default:
						ix.Parts = append(ix.Parts, &schema.IndexPart{SeqNo: len(ix.Parts), C: cols[p]})
					}
				}
				return ix
			}
			if mt.pk != nil {
				pk := mk("", mt.pk, linkI)
				pk.Table = t
				t.PrimaryKey = pk
			}
			for _, ix := range mt.idx {
				t.AddIndexes(mk(ix.name, ix.parts, linkI))
			}
			for _, mf := range mt.fks {
				fk := schema.NewForeignKey(mf.sym).SetRefTable(t)
				for _, c := range mf.cols {
					if linkF {
						fk.AddColumns(cols[c])
					} else {
						fk.Columns = append(fk.Columns, cols[c])
					}
					fk.RefColumns = append(fk.RefColumns, cols[c])
				}
				t.AddForeignKeys(fk)
			}
			t.AddAttrs(&schema.Comment{Text: "not a check"})
			for _, k := range mt.checks {
				t.AddChecks(schema.NewCheck().SetName(k).SetExpr("x>0"))
			}
			s.AddTables(t)
		}
		realm.AddSchemas(s)
	}
	return realm
}

func showParts(ps []*schema.IndexPart) string {
	var l []string
	for _, p := range ps {
		if p.C != nil {
			l = append(l, hexs(p.C.Name))
		} else {
			l = append(l, "~")
		}
	}
	return strings.Join(l, ",")
}

// canonical text of a realm (same as ocaml/glob/driver.ml: show_realm)
func showRealm(r *schema.Realm) string {
	var ss []string
	for _, s := range r.Schemas {
		var ts []string
		for _, t := range s.Tables {
			var cs, is, fs, ks []string
			for _, c := range t.Columns {
				cs = append(cs, hexs(c.Name))
			}
			pk := "~"
			if t.PrimaryKey != nil {
				pk = "(" + showParts(t.PrimaryKey.Parts) + ")"
			}
			for _, i := range t.Indexes {
				is = append(is, hexs(i.Name)+"("+showParts(i.Parts)+")")
			}
			for _, f := range t.ForeignKeys {
				var c []string
				for _, x := range f.Columns {
					c = append(c, hexs(x.Name))
				}
				fs = append(fs, hexs(f.Symbol)+"("+strings.Join(c, ",")+")")
			}
			for _, a := range t.Attrs {
				if k, ok := a.(*schema.Check); ok {
					ks = append(ks, hexs(k.Name))
				}
			}
			ts = append(ts, fmt.Sprintf("T(%s){c=%s;pk=%s;i=%s;f=%s;k=%s}", hexs(t.Name), strings.Join(cs, ","), pk,
				strings.Join(is, ","), strings.Join(fs, ","), strings.Join(ks, ",")))
		}
		ss = append(ss, fmt.Sprintf("S(%s)[%s]", hexs(s.Name), strings.Join(ts, " ")))
	}
	return strings.Join(ss, " ")
}

func errEnum(err error) string {
	switch {
	case err == nil:
		return ""
	case strings.Contains(err.Error(), "syntax error in pattern"):
		return "badpattern"
	case strings.Contains(err.Error(), "too many parts"):
		return "toomany"
	default:
		return "split" // csv parse errors, "unexpected pattern", "empty pattern"
	}
}

// ---- reference semantics of an exclusion pattern, independent of exclude_oss.go
// refSplit: fields separated by '.', a field may be double-quoted ("" = a quote).
func refSplit(p string) ([]string, bool) {
	if p == "" {
		return nil, false
	}
	var fields []string
	i := 0
	for {
		var f strings.Builder
		if i < len(p) && p[i] == '"' {
			i++
			closed := false
			for i < len(p) {
				if p[i] == '"' {
					if i+1 < len(p) && p[i+1] == '"' {
						f.WriteByte('"')
						i += 2
						continue
					}
					i++
					closed = true
					break
				}
				f.WriteByte(p[i])
				i++
			}
			if !closed || (i < len(p) && p[i] != '.') {
				return nil, false
			}
		} else {
			for i < len(p) && p[i] != '.' {
				if p[i] == '"' {
					return nil, false
				}
				f.WriteByte(p[i])
				i++
			}
		}
		fields = append(fields, f.String())
		if i >= len(p) {
			return fields, true
		}
		i++ // the dot
	}
}

// refSelector splits "glob[type=a|b]" into the glob and the selected types (nil = all).
func refSelector(g string) (string, []string) {
	if !strings.HasSuffix(g, "]") {
		return g, nil
	}
	k := strings.LastIndex(g, "[type=")
	if k < 0 {
		return g, nil
	}
	body := g[k+len("[type=") : len(g)-1]
	if body == "" {
		return g, nil
	}
	for _, c := range body {
		if !(c >= 'a' && c <= 'z' || c == '|' || c == '_') {
			return g, nil
		}
	}
	return g[:k], strings.Split(body, "|")
}

type refGlobT struct {
	glob  string
	types []string
	wf    bool
	exact bool // schema scope: the element stands for the schema itself (name equality, no glob, no selector)
}

func (g refGlobT) admits(typ string) bool {
	if g.types == nil {
		return true
	}
	for _, t := range g.types {
		if t == typ {
			return true
		}
	}
	return false
}
func (g refGlobT) sel(typ, name string) bool {
	if g.exact {
		return typ == "schema" && name == g.glob
	}
	if !g.admits(typ) || !g.wf {
		return false
	}
	_, _, m := refGlob(g.glob, name)
	return m
}

type refChain []refGlobT

func refChains(pats []string) (chains []refChain, splitOK bool, anyMalformed bool) {
	splitOK = true
	for _, p := range pats {
		fs, ok := refSplit(p)
		if !ok {
			return nil, false, false
		}
		var ch refChain
		for _, f := range fs {
			g, ts := refSelector(f)
			_, wf, _ := refGlob(g, "")
			if !wf {
				anyMalformed = true
			}
			ch = append(ch, refGlobT{glob: g, types: ts, wf: wf})
		}
		chains = append(chains, ch)
	}
	return
}

// refScopeChains is the documented scope rule (sql/schema/inspect.go, InspectOptions.Exclude): at
// schema scope the FIRST component of a pattern names a table ("t", "t.c", "*.c"), whatever the
// schema is called, and only resources of that schema are concerned.  The chains are built from
// the patterns as given (never from a "<schema>.<pattern>" string): the schema element is an
// exact-name element put in front.  tooMany: a pattern with more components than the scope has levels.
func refScopeChains(schemaName string, pats []string) (chains []refChain, splitOK, anyMalformed, tooMany bool) {
	rel, ok, mal := refChains(pats)
	if !ok {
		return nil, false, false, false
	}
	for _, ch := range rel {
		if len(ch) > 2 {
			tooMany = true
		}
		chains = append(chains, append(refChain{{glob: schemaName, wf: true, exact: true}}, ch...))
	}
	return chains, true, mal, tooMany
}

// ---- one case
type exCase struct {
	op           string // "R" or "S<k>"
	linkI, linkF bool
	pats         []string
	realm        []mSchema
}

var exN int

func runExCase(w *out.W, c exCase) {
	exN++
	id := fmt.Sprintf("x%d", exN)
	var ct strings.Builder
	b2 := func(b bool) string {
		if b {
			return "1"
		}
		return "0"
	}
	fmt.Fprintf(&ct, "%s %s %s %d", c.op, b2(c.linkI), b2(c.linkF), len(c.pats))
	for _, p := range c.pats {
		ct.WriteString(" " + hexs(p))
	}
	ct.WriteString(" " + realmText(c.realm))
	r := build(c.realm, c.linkI, c.linkF)
	before := showRealm(r)
	// the caller's pattern slice is a value the caller keeps and passes again (InspectOptions.Exclude of a
	// long-lived service): it has spare capacity holding sentinels, so a callee that appends to it, sorts it
	// or qualifies it in place is seen
	given := make([]string, len(c.pats), len(c.pats)+2)
	copy(given, c.pats)
	given[:cap(given)][len(c.pats)], given[:cap(given)][len(c.pats)+1] = "sentinel.a", "sentinel.b"
	wantBacking := strings.Join(append(append([]string{}, c.pats...), "sentinel.a", "sentinel.b"), "\x00")
	call := func(r *schema.Realm) error {
		if c.op == "R" {
			_, err := schema.ExcludeRealm(r, given)
			return err
		}
		var k int
		fmt.Sscanf(c.op, "S%d", &k)
		_, err := schema.ExcludeSchema(r.Schemas[k], given)
		return err
	}
	err := call(r)
	obs := "ok " + showRealm(r)
	if err != nil {
		obs = "err=" + errEnum(err)
	}
	w.Case(id, ct.String(), []string{obs})
	if err != nil {
		w.Count("result:" + errEnum(err))
	} else if showRealm(r) != before {
		w.Count("result:ok-changed")
		w.NonTrivial(strings.Join(c.pats, "\x00") + "\x01" + before)
	} else {
		w.Count("result:ok-unchanged")
	}
	// ------------------------------------------------------------ oracle
	// (a) the pattern slice is an input: unchanged after the call, and a second realm filtered with the
	// very same slice value gives the same result; filtering the filtered realm again changes nothing
	if got := strings.Join(given[:cap(given)], "\x00"); got != wantBacking || len(given) != len(c.pats) {
		w.Violation(id, "exclude-patterns-rewritten", fmt.Sprintf("%s rewrote the caller's pattern slice: %q (with spare capacity) became %q", c.op, strings.Split(wantBacking, "\x00"), given[:cap(given)]))
	}
	{
		r2 := build(c.realm, c.linkI, c.linkF)
		err2 := call(r2)
		if errEnum(err2) != errEnum(err) || err == nil && showRealm(r2) != showRealm(r) {
			w.Violation(id, "exclude-reuse-differs", fmt.Sprintf("%s with the same pattern slice %q on an equal realm: first call %s, second call %s %v", c.op, c.pats, obs, showRealm(r2), err2))
		}
		if err == nil {
			first := showRealm(r)
			if err3 := call(r); err3 != nil || showRealm(r) != first {
				w.Violation(id, "exclude-not-idempotent", fmt.Sprintf("%s with %q applied to its own result: %s became %s %v", c.op, c.pats, first, showRealm(r), err3))
			}
			w.Count("reuse:same-slice-second-realm+idempotence")
		}
	}
	if len(c.pats) == 0 {
		if err != nil || showRealm(r) != before {
			w.Violation(id, "exclude-no-pattern-changes", "no pattern given but the realm changed or an error was returned")
		}
		return
	}
	// (b) which resources are excluded: the reference chains.  Realm scope: pattern components are
	// schema.table.child by position.  Schema scope: table.child, for the resources of THAT schema only
	// (refScopeChains; never derived from a "<schema>.<pattern>" string).
	var (
		chains                         []refChain
		splitOK, anyMalformed, tooMany bool
		pats                           = c.pats
	)
	if c.op == "R" {
		chains, splitOK, anyMalformed = refChains(c.pats)
		for _, ch := range chains {
			if len(ch) > 3 {
				tooMany = true
			}
		}
	} else {
		var k int
		fmt.Sscanf(c.op, "S%d", &k)
		chains, splitOK, anyMalformed, tooMany = refScopeChains(c.realm[k].name, c.pats)
		pats = append([]string{"(scope of schema " + c.realm[k].name + ")"}, c.pats...)
	}
	if err != nil {
		switch {
		case !splitOK, tooMany && len(c.realm) > 0, anyMalformed:
			w.Count("oracle:error-justified")
		default:
			w.Violation(id, "exclude-error-unexpected", fmt.Sprintf("patterns %q are well formed but %s returned %v", pats, c.op, err))
		}
		return
	}
	if !splitOK {
		w.Violation(id, "exclude-bad-quoting-accepted", fmt.Sprintf("patterns %q cannot be split but no error was returned", pats))
		return
	}
	// expected exclusion per resource, from the reference semantics only
	exS := func(s string) bool {
		for _, ch := range chains {
			if len(ch) == 1 && ch[0].sel("schema", s) {
				return true
			}
		}
		return false
	}
	exT := func(s, t string) bool {
		for _, ch := range chains {
			if len(ch) == 2 && ch[0].sel("schema", s) && ch[1].sel("table", t) {
				return true
			}
		}
		return false
	}
	exC := func(s, t, typ, n string) bool {
		for _, ch := range chains {
			if len(ch) == 3 && ch[0].sel("schema", s) && ch[1].sel("table", t) && ch[2].sel(typ, n) {
				return true
			}
		}
		return false
	}
	// cascade: a chain that admits typ and excludes (as a column) a column the index/fk uses
	cascade := func(s, t, typ string, cols []string) bool {
		for _, ch := range chains {
			if len(ch) == 3 && ch[0].sel("schema", s) && ch[1].sel("table", t) && ch[2].admits(typ) {
				for _, cn := range cols {
					if cn != "" && ch[2].sel("column", cn) {
						return true
					}
				}
			}
		}
		return false
	}
	got := map[string]bool{}
	for _, s := range r.Schemas {
		got["S/"+s.Name] = true
		for _, t := range s.Tables {
			p := s.Name + "/" + t.Name
			got["T/"+p] = true
			for _, x := range t.Columns {
				got["column/"+p+"/"+x.Name] = true
			}
			for _, x := range t.Indexes {
				got["index/"+p+"/"+x.Name] = true
			}
			for _, x := range t.ForeignKeys {
				got["fk/"+p+"/"+x.Symbol] = true
			}
			for _, a := range t.Attrs {
				if k, ok := a.(*schema.Check); ok {
					got["check/"+p+"/"+k.Name] = true
				}
			}
		}
	}
	report := func(key string, want bool, dependsOn []string, typ, s, t string) {
		if got[key] == want {
			return
		}
		switch {
		case want && (typ == "index" || typ == "fk") && cascade(s, t, typ, dependsOn):
			w.Violation(id, "exclude-cascade-dependent", fmt.Sprintf("%s matches no pattern of %q but is absent: a column it uses was excluded by a pattern that also admits type %s", key, pats, typ))
		case want && anyMalformed:
			w.Violation(id, "exclude-bad-pattern-swallowed", fmt.Sprintf("%s matches no pattern of %q but is absent and no error was returned: a malformed pattern was reached and its error overwritten in excludeT", key, pats))
		case want:
			w.Violation(id, "exclude-absent-unmatched", fmt.Sprintf("%s matches no pattern of %q but is absent from the result", key, pats))
		default:
			w.Violation(id, "exclude-present-matched", fmt.Sprintf("%s matches a pattern of %q but is still present", key, pats))
		}
	}
	for _, s := range c.realm {
		sGone := exS(s.name)
		report("S/"+s.name, !sGone, nil, "schema", s.name, "")
		for _, t := range s.tables {
			tGone := sGone || exT(s.name, t.name)
			p := s.name + "/" + t.name
			report("T/"+p, !tGone, nil, "table", s.name, t.name)
			for _, x := range t.cols {
				report("column/"+p+"/"+x, !(tGone || exC(s.name, t.name, "column", x)), nil, "column", s.name, t.name)
			}
			for _, x := range t.idx {
				report("index/"+p+"/"+x.name, !(tGone || exC(s.name, t.name, "index", x.name)), x.parts, "index", s.name, t.name)
			}
			for _, x := range t.fks {
				report("fk/"+p+"/"+x.sym, !(tGone || exC(s.name, t.name, "fk", x.sym)), x.cols, "fk", s.name, t.name)
			}
			for _, x := range t.checks {
				report("check/"+p+"/"+x, !(tGone || exC(s.name, t.name, "check", x)), nil, "check", s.name, t.name)
			}
		}
	}
	// everything that survives is structurally unchanged (index parts, pk, fk columns, order)
	orig := build(c.realm, c.linkI, c.linkF)
	for _, s := range r.Schemas {
		os, _ := orig.Schema(s.Name)
		for _, t := range s.Tables {
			ot, _ := os.Table(t.Name)
			if pk, opk := t.PrimaryKey, ot.PrimaryKey; (pk == nil) != (opk == nil) || pk != nil && showParts(pk.Parts) != showParts(opk.Parts) {
				w.Violation(id, "exclude-survivor-changed", "primary key of "+t.Name+" changed")
			}
			for _, x := range t.Indexes {
				if ox, ok := ot.Index(x.Name); !ok || showParts(ox.Parts) != showParts(x.Parts) {
					w.Violation(id, "exclude-survivor-changed", "index "+x.Name+" changed")
				}
			}
		}
	}
}

var r0 = []mSchema{
	{"s1", []mTable{
		{"t1", []string{"c1", "c2"}, []string{"c1"}, []mIdx{{"i1", []string{"c1"}}, {"i2", []string{"c2", ""}}},
			[]mFk{{"f1", []string{"c1"}}, {"f2", []string{"c2"}}}, []string{"k1", "k2"}},
		{"t2", []string{"c1"}, nil, nil, nil, nil},
	}},
	{"s2", []mTable{{"t1", []string{"c1"}, nil, []mIdx{{"i1", []string{"c1"}}}, nil, nil}}},
}

// rC: every name is used at every level ("main" is a schema, a table, a column, an index, a foreign key
// and a check; so are "secret" and "t1"), tables of the same name live in different schemas.
var rC = []mSchema{
	{"main", []mTable{
		{"main", []string{"main", "secret", "t1"}, []string{"main"},
			[]mIdx{{"secret", []string{"secret"}}, {"t1", []string{"main"}}, {"main", []string{"t1", ""}}},
			[]mFk{{"main", []string{"main"}}, {"secret", []string{"secret"}}}, []string{"main", "secret", "t1"}},
		{"secret", []string{"main", "c1"}, nil, []mIdx{{"c1", []string{"main"}}, {"secret", []string{"c1"}}}, nil, []string{"secret"}},
		{"t1", []string{"t1", "secret"}, nil, []mIdx{{"main", []string{"t1"}}}, []mFk{{"t1", []string{"t1"}}}, nil},
	}},
	{"secret", []mTable{
		{"main", []string{"secret", "main"}, nil, []mIdx{{"secret", []string{"main"}}}, nil, nil},
		{"secret", []string{"secret"}, nil, nil, nil, []string{"secret"}},
	}},
	{"t1", []mTable{{"t1", []string{"t1", "main"}, []string{"t1"}, []mIdx{{"t1", []string{"t1"}}}, []mFk{{"main", []string{"main"}}}, []string{"t1"}}}},
}

func runExclude(w *out.W, tier string) {
	w.Rule = "non-trivial = ExcludeRealm returned no error and changed the realm; keyed by (patterns, realm)"
	// ---- exhaustive single patterns on the fixed realm r0
	selOwn := func(t string) []string { return []string{"", "[type=" + t + "]", "[type=view]"} }
	l2sel := []string{"", "[type=schema]", "[type=table]", "[type=column]", "[type=index]", "[type=fk]", "[type=check]",
		"[type=column|index]", "[type=fk|check|x]", "[type=view]", "[type=]", "[type=trigger]"}
	a0 := []string{"*", "s1", "s?", "x", "["}
	a1 := []string{"*", "t1", "t[12]", "x", "["}
	a2 := []string{"*", "c1", "?1", "i*", "[", "x", "[a-", "[cf]1", "k[^1]"}
	var p0, p1, p2 []string
	for _, a := range a0 {
		for _, s := range selOwn("schema") {
			p0 = append(p0, a+s)
		}
	}
	for _, a := range a1 {
		for _, s := range selOwn("table") {
			p1 = append(p1, a+s)
		}
	}
	for _, a := range a2 {
		for _, s := range l2sel {
			p2 = append(p2, a+s)
		}
	}
	for _, x := range p0 {
		runExCase(w, exCase{"R", true, true, []string{x}, r0})
		for _, y := range p1 {
			runExCase(w, exCase{"R", true, true, []string{x + "." + y}, r0})
			for _, z := range p2 {
				runExCase(w, exCase{"R", true, true, []string{x + "." + y + "." + z}, r0})
				if (strings.HasPrefix(z, "c1") || strings.HasPrefix(z, "*")) && strings.HasPrefix(y, "t1") && strings.HasPrefix(x, "s1") {
					runExCase(w, exCase{"R", false, true, []string{x + "." + y + "." + z}, r0})
					runExCase(w, exCase{"R", false, false, []string{x + "." + y + "." + z}, r0})
				}
			}
		}
	}
	// ---- pattern sequences (mutation order, continue Filter, error order)
	seq := []string{"s1.t1.c1[type=column]", "s1.t1.c1", "s1.t1.i1", "s1.t1.*[type=index]", "s1.t1", "s1", "*.*.c*", "s1.t1.[",
		"s1.t1.c1.x", "*.t2", "s2.*.*[type=index|column]", "[.t1"}
	for _, a := range seq {
		for _, b := range seq {
			runExCase(w, exCase{"R", true, true, []string{a, b}, r0})
			if tier == "thorough" {
				for _, c := range seq {
					runExCase(w, exCase{"R", true, true, []string{a, b, c}, r0})
				}
			}
		}
	}
	// ---- quoting, empty, too many parts, no schemas, ExcludeSchema
	for _, p := range []string{"", ".", "s1.", ".t1", "s1..c1", `"s1".t1`, `"s1"."t1"."c1"`, `"s1`, `s"1.t1`, `"s1"x.t1`, `"s""1".t1`, `"s1.t1"`,
		"a.b.c.d", "*.*.*.*", "s1.t1.c1.", "s1 .t1", " s1.t1", "s1.t1.c1[type=column][type=column]", "s1.t1.[type=column]", "s1.t1.c1[type=Column]",
		"s1.t1.c1[type=column|]", "s1.t1.c1[type=|column]", "s1[type=schema|table].t1[type=table]", "s1.t1.\\c1", "s1.t1.c\\", "s1.t1.[c]1", "s1.t1.[^c]1"} {
		runExCase(w, exCase{"R", true, true, []string{p}, r0})
		runExCase(w, exCase{"R", true, true, []string{p}, nil})
		runExCase(w, exCase{"R", true, true, []string{"s2", p}, r0})
	}
	for _, p := range append([]string{"t1", "t1.c1", "*.*[type=index]", "t1.c1.x", "t?", "[", "t1.["}, p1...) {
		runExCase(w, exCase{"S0", true, true, []string{p}, r0})
		runExCase(w, exCase{"S1", true, true, []string{p, "t1.i1"}, r0})
	}
	runExCase(w, exCase{"R", true, true, nil, r0})
	runExCase(w, exCase{"S0", true, true, nil, r0})
	// ---- names that coincide across levels (round 3): realm rC has a schema, a table, a column, an index, a
	// foreign key and a check that are all called "main" (SQLite binds every connection to schema "main"),
	// the same for "secret" and "t1".  Every 1-, 2- and 3-component pattern over the atoms below, with the
	// selectors that can tell the levels apart, at realm scope; every 1- and 2-component pattern (and a
	// 3-component sample: too many parts) at the scope of each schema.
	cA := []string{"main", "secret", "t1", "*", "m*"}
	var c0, c1, c2 []string
	for _, a := range cA {
		for _, sl := range []string{"", "[type=schema]", "[type=table]"} {
			c0 = append(c0, a+sl)
		}
		for _, sl := range []string{"", "[type=table]", "[type=column]"} {
			c1 = append(c1, a+sl)
		}
		for _, sl := range []string{"", "[type=column]", "[type=index]", "[type=fk]", "[type=check]", "[type=column|index]", "[type=table]"} {
			c2 = append(c2, a+sl)
		}
	}
	nCoin := 0
	coin := func(c exCase) { nCoin++; runExCase(w, c) }
	for _, x := range c0 {
		coin(exCase{"R", true, true, []string{x}, rC})
		for _, y := range c1 {
			coin(exCase{"R", true, true, []string{x + "." + y}, rC})
			for _, z := range c2 {
				coin(exCase{"R", true, true, []string{x + "." + y + "." + z}, rC})
			}
		}
	}
	for k := range rC {
		op := fmt.Sprintf("S%d", k)
		for _, y := range append(c0, c1...) { // at schema scope the first component is a table: table selectors and (never matching) schema/column ones
			coin(exCase{op, true, true, []string{y}, rC})
			for _, z := range c2 {
				coin(exCase{op, true, true, []string{y + "." + z}, rC})
			}
		}
		for _, p := range []string{"main.main.main", "main.secret.t1", "*.*.*"} {
			coin(exCase{op, true, true, []string{p}, rC})
		}
		// the forms the documentation lists, as a list and unlinked (the inspected state of SQLite)
		coin(exCase{op, false, true, []string{"main", "main.secret"}, rC})
		coin(exCase{op, false, true, []string{"main.*[type=index]", "secret"}, rC})
		coin(exCase{op, false, false, []string{"main.*", "*.main"}, rC})
	}
	w.Set("coincide_cases", nCoin)
	// ---- names that only a real glob tells apart (round 4, globonly.go): underscore positions, letter case,
	// literal % _ [ ] \ * in names, '?' next to '_' in patterns; schemas main / Main / maXn
	nGlob := 0
	rG := globOnlyRealm()
	gl := func(c exCase) { nGlob++; runExCase(w, c) }
	for _, p := range globOnlyTablePats {
		gl(exCase{"R", true, true, []string{"main." + p}, rG})
		gl(exCase{"R", true, true, []string{"*." + p}, rG})
		gl(exCase{"R", true, true, []string{"m*." + p + "[type=table]"}, rG})
		gl(exCase{"S0", true, true, []string{p}, rG})
		gl(exCase{"S2", true, true, []string{p}, rG})
	}
	for _, p := range append([]string{"fk_u", "fk?u", "FK*", "ck_1", "ck?1", "ck", "CK*", "c?", "*_*[type=fk|check]"}, globOnlyChildPats...) {
		gl(exCase{"R", true, true, []string{"main.users." + p}, rG})
		gl(exCase{"R", false, false, []string{"main.users." + p}, rG})
		gl(exCase{"R", true, true, []string{"*.*." + p}, rG})
		gl(exCase{"S0", true, true, []string{"users." + p}, rG})
		gl(exCase{"S0", false, true, []string{"user?." + p, "USERS." + p}, rG})
	}
	for _, p := range globOnlySchemaPats {
		gl(exCase{"R", true, true, []string{p}, rG})
		gl(exCase{"R", true, true, []string{p + ".users"}, rG})
		gl(exCase{"R", true, true, []string{p + ".*.id"}, rG})
		gl(exCase{"R", true, true, []string{p + ".user_*", "maXn"}, rG})
	}
	w.Set("glob_only_cases", nGlob)
	w.Exhaust = true
	w.Set("exhaustive_bound", "every pattern schema-atom[sel].table-atom[sel].child-atom[sel] over 5x3, 5x3, 9x12 atoms/selectors on a fixed realm (2 schemas, 3 tables, columns/pk/indexes/fks/checks); all ordered pairs (thorough: triples) of 12 patterns; realm with equal names across levels (main/secret/t1 as schema, table, column, index, fk, check): every pattern over 5 atoms x {3,3,7} selectors with 1-3 components at realm scope and 1-2 components at the scope of each of its 3 schemas; realm with names that only a glob tells apart (users/user_sessions/userXsessions, logs/log_1, Audit, a%b a_b aXb a*b t[1] a\\b; schemas main/Main/maXn): every listed table, child and schema pattern at realm and schema scope")
	// ---- seeded random realms x pattern lists
	r := rng.FromEnv(0xE1C)
	sn := []string{"s", "s1", "main", "ab", "a-b"}
	tn := []string{"t", "t1", "u", "users", "t]"}
	cn := []string{"c", "c1", "id", "x", "c-2"}
	in := []string{"i", "i1", "idx_c", "c1"}
	fn := []string{"f", "f1", "c"}
	kn := []string{"k", "k1", "x"}
	pick := func(l []string, n int) []string { // n distinct
		var res []string
		used := map[string]bool{}
		for len(res) < n && len(res) < len(l) {
			x := rng.Pick(r, l)
			if !used[x] {
				used[x] = true
				res = append(res, x)
			}
		}
		return res
	}
	globAtoms := []string{"*", "?", "[a-z]", "[^c]", "[", "\\", "s", "t", "c", "i", "1", "x", "u", "k", "f", "-", "]", "main", "users", "id", "*"}
	sels := []string{"", "", "", "[type=schema]", "[type=table]", "[type=column]", "[type=index]", "[type=fk]", "[type=check]", "[type=column|index]", "[type=table|view]", "[type=index|fk|check]"}
	cnt := 6000
	if tier == "thorough" {
		cnt = 150000
	}
	for i := 0; i < cnt; i++ {
		var realm []mSchema
		for _, s := range pick(sn, 1+r.Intn(2)) {
			ms := mSchema{name: s}
			for _, t := range pick(tn, r.Intn(4)) {
				mt := mTable{name: t, cols: pick(cn, 1+r.Intn(3))}
				if r.Bool() {
					mt.pk = []string{mt.cols[0]}
				}
				for _, x := range pick(in, r.Intn(3)) {
					ix := mIdx{name: x}
					for k := 1 + r.Intn(2); k > 0; k-- {
						if r.Chance(1, 5) {
							ix.parts = append(ix.parts, "")
						} else {
							ix.parts = append(ix.parts, rng.Pick(r, mt.cols))
						}
					}
					mt.idx = append(mt.idx, ix)
				}
				for _, x := range pick(fn, r.Intn(3)) {
					mt.fks = append(mt.fks, mFk{x, pick(mt.cols, 1+r.Intn(2))})
				}
				mt.checks = pick(kn, r.Intn(3))
				ms.tables = append(ms.tables, mt)
			}
			realm = append(realm, ms)
		}
		var pats []string
		for k := 1 + r.Intn(3); k > 0; k-- {
			var parts []string
			for d := 1 + r.Intn(3) + r.Intn(8)/7; d > 0; d-- {
				var g strings.Builder
				if r.Chance(1, 3) {
					g.WriteString("*")
				} else {
					for a := 1 + r.Intn(3); a > 0; a-- {
						g.WriteString(rng.Pick(r, globAtoms))
					}
				}
				g.WriteString(rng.Pick(r, sels))
				parts = append(parts, g.String())
			}
			pats = append(pats, strings.Join(parts, "."))
		}
		op := "R"
		if r.Chance(1, 6) {
			op = fmt.Sprintf("S%d", r.Intn(len(realm)))
		}
		runExCase(w, exCase{op, r.Chance(4, 5), r.Chance(4, 5), pats, realm})
	}
}
