package main

import (
	"fmt"
	"strings"

	"ariga.io/atlas/sql/schema"

	"verifharness/internal/out"
	"verifharness/internal/rng"
)

// ---- excludex stage (round 5): schema.ExcludeRealm / ExcludeSchema on realms that hold EVERY resource kind
// exclude_oss.go handles in the OSS build: tables (+ triggers), views (columns, triggers), functions,
// procedures, schema objects and realm objects (SpecTypeNamer: enum; and objects without a spec name).
// Tied to the model Excl/ExcludeX.v.  Oracle: the reference chain semantics (refglob.go, refChains) for the
// new kinds -- a resource is present iff no chain of matching LENGTH selects it.

type xObj struct {
	typ, name string // typ "" = not a SpecTypeNamer
	id        int
}
type xView struct {
	name  string
	cols  []string
	trigs []string
}
type xSchema struct {
	m      mSchema
	trigs  [][]string // per table
	views  []xView
	funcs  []string
	procs  []string
	objs   []xObj
}
type xRealm struct {
	objs    []xObj
	schemas []xSchema
}

func hexList(l []string) string {
	var b strings.Builder
	fmt.Fprintf(&b, "%d", len(l))
	for _, x := range l {
		b.WriteString(" " + hexs(x))
	}
	return b.String()
}
func objsText(l []xObj) string {
	var b strings.Builder
	fmt.Fprintf(&b, "%d", len(l))
	for _, o := range l {
		if o.typ == "" {
			fmt.Fprintf(&b, " ~ %d", o.id)
		} else {
			fmt.Fprintf(&b, " N %s %s %d", hexs(o.typ), hexs(o.name), o.id)
		}
	}
	return b.String()
}
func (r xRealm) text() string {
	var b strings.Builder
	b.WriteString(objsText(r.objs))
	fmt.Fprintf(&b, " %d", len(r.schemas))
	for _, s := range r.schemas {
		fmt.Fprintf(&b, " %s %d", hexs(s.m.name), len(s.m.tables))
		for i, t := range s.m.tables {
			b.WriteString(" " + t.text() + " " + hexList(s.trigs[i]))
		}
		fmt.Fprintf(&b, " %d", len(s.views))
		for _, v := range s.views {
			b.WriteString(" " + hexs(v.name) + " " + hexList(v.cols) + " " + hexList(v.trigs))
		}
		b.WriteString(" " + hexList(s.funcs) + " " + hexList(s.procs) + " " + objsText(s.objs))
	}
	return b.String()
}

type xBuilt struct {
	r   *schema.Realm
	ids map[schema.Object]int
}

func buildX(x xRealm, li, lf bool) xBuilt {
	var ms []mSchema
	for _, s := range x.schemas {
		ms = append(ms, s.m)
	}
	r := build(ms, li, lf)
	ids := map[schema.Object]int{}
	mk := func(o xObj) schema.Object {
		var v schema.Object
		if o.typ == "" {
			v = &schema.Index{Name: o.name}
		} else {
			v = &schema.EnumType{T: o.name}
		}
		ids[v] = o.id
		return v
	}
	for _, o := range x.objs {
		r.Objects = append(r.Objects, mk(o))
	}
	for i, xs := range x.schemas {
		s := r.Schemas[i]
		for j, t := range s.Tables {
			for _, n := range xs.trigs[j] {
				t.Triggers = append(t.Triggers, &schema.Trigger{Name: n, Table: t})
			}
		}
		for _, xv := range xs.views {
			v := schema.NewView(xv.name, "select 1")
			for _, c := range xv.cols {
				v.Columns = append(v.Columns, schema.NewIntColumn(c, "int"))
			}
			for _, n := range xv.trigs {
				v.Triggers = append(v.Triggers, &schema.Trigger{Name: n, View: v})
			}
			s.AddViews(v)
		}
		for _, f := range xs.funcs {
			s.AddFuncs(&schema.Func{Name: f})
		}
		for _, p := range xs.procs {
			s.AddProcs(&schema.Proc{Name: p})
		}
		for _, o := range xs.objs {
			s.Objects = append(s.Objects, mk(o))
		}
	}
	return xBuilt{r, ids}
}

func showObjs(l []schema.Object, ids map[schema.Object]int) string {
	var o []string
	for _, x := range l {
		if n, ok := x.(schema.SpecTypeNamer); ok {
			o = append(o, fmt.Sprintf("%s:%s#%d", hexs(n.SpecType()), hexs(n.SpecName()), ids[x]))
		} else {
			o = append(o, fmt.Sprintf("~#%d", ids[x]))
		}
	}
	return strings.Join(o, ",")
}

// canonical text (same as ocaml/glob/driver.ml show_xrealm): the table part is showRealm's
func showXRealm(b xBuilt) string {
	var ss []string
	h := func(l []string) string {
		var o []string
		for _, x := range l {
			o = append(o, hexs(x))
		}
		return strings.Join(o, ",")
	}
	for _, s := range b.r.Schemas {
		var ts, vs, fs, ps []string
		one := &schema.Realm{Schemas: []*schema.Schema{{Name: "x", Tables: s.Tables}}}
		tt := showRealm(one) // S(78)[T(..) T(..)]
		tt = strings.TrimSuffix(strings.TrimPrefix(tt, "S(78)["), "]")
		for _, t := range s.Tables {
			var g []string
			for _, x := range t.Triggers {
				g = append(g, x.Name)
			}
			ts = append(ts, hexs(t.Name)+":"+h(g))
		}
		for _, v := range s.Views {
			var c, g []string
			for _, x := range v.Columns {
				c = append(c, x.Name)
			}
			for _, x := range v.Triggers {
				g = append(g, x.Name)
			}
			vs = append(vs, fmt.Sprintf("V(%s){c=%s;g=%s}", hexs(v.Name), h(c), h(g)))
		}
		for _, f := range s.Funcs {
			fs = append(fs, f.Name)
		}
		for _, p := range s.Procs {
			ps = append(ps, p.Name)
		}
		ss = append(ss, fmt.Sprintf("S(%s)[%s|g=%s|%s|F=%s|P=%s|O=%s]", hexs(s.Name), tt, strings.Join(ts, ";"), strings.Join(vs, " "), h(fs), h(ps), showObjs(s.Objects, b.ids)))
	}
	return "O=" + showObjs(b.r.Objects, b.ids) + " " + strings.Join(ss, " ")
}

type xCase struct {
	op     string // R | S<k>
	li, lf bool
	pats   []string
	realm  xRealm
}

var xSeq int

func runXCase(w *out.W, c xCase) {
	xSeq++
	id := fmt.Sprintf("y%d", xSeq)
	b := buildX(c.realm, c.li, c.lf)
	line := fmt.Sprintf("%s %s %s %s %s", c.op, b2s(c.li), b2s(c.lf), hexList(c.pats), c.realm.text())
	pats := append([]string(nil), c.pats...)
	var err error
	scope := ""
	if c.op == "R" {
		_, err = schema.ExcludeRealm(b.r, pats)
	} else {
		var k int
		fmt.Sscanf(c.op, "S%d", &k)
		scope = b.r.Schemas[k].Name
		_, err = schema.ExcludeSchema(b.r.Schemas[k], pats)
	}
	w.Count("excludex:" + c.op[:1])
	if err != nil {
		w.Case(id, line, []string{"err=" + errEnum(err)})
	} else {
		w.Case(id, line, []string{"ok " + showXRealm(b)})
	}
	// ---- oracle for the new kinds
	var chains []refChain
	var ok, mal, tooMany bool
	if c.op == "R" {
		chains, ok, mal = refChains(c.pats)
		for _, ch := range chains {
			if len(ch) > 3 {
				tooMany = true
			}
		}
	} else {
		chains, ok, mal, tooMany = refScopeChains(scope, c.pats)
	}
	desc := fmt.Sprintf("op=%s patterns=%q", c.op, c.pats)
	if !ok || mal || tooMany {
		return
	}
	if err != nil {
		w.Violation(id, "excludex-error-unexpected", desc+": "+err.Error())
		return
	}
	sel := func(n int, f func(ch refChain) bool) bool {
		for _, ch := range chains {
			if len(ch) == n && f(ch) {
				return true
			}
		}
		return false
	}
	chk := func(key string, present, want bool, class string) {
		if present != want {
			w.NonTrivial(desc)
			if want {
				w.Violation(id, class+"-absent-unmatched", fmt.Sprintf("%s: %s is selected by no pattern but is gone", desc, key))
			} else {
				w.Violation(id, class+"-present-matched", fmt.Sprintf("%s: %s is selected by a pattern but is still there", desc, key))
			}
		}
	}
	hasObj := func(l []schema.Object, idn int) bool {
		for _, o := range l {
			if b.ids[o] == idn {
				return true
			}
		}
		return false
	}
	changed := false
	for _, o := range c.realm.objs {
		want := !(o.typ != "" && sel(1, func(ch refChain) bool { return ch[0].sel(o.typ, o.name) }))
		chk(fmt.Sprintf("realm object %s %q", o.typ, o.name), hasObj(b.r.Objects, o.id), want, "excludex-object")
		changed = changed || !want
	}
	for _, xs := range c.realm.schemas {
		sn := xs.m.name
		var s *schema.Schema
		for _, x := range b.r.Schemas {
			if x.Name == sn {
				s = x
			}
		}
		if sel(1, func(ch refChain) bool { return ch[0].sel("schema", sn) }) {
			continue // whole schema: the exclude stage checks it
		}
		if s == nil {
			continue
		}
		inS := func(ch refChain) bool { return ch[0].sel("schema", sn) }
		for _, xv := range xs.views {
			var v *schema.View
			for _, x := range s.Views {
				if x.Name == xv.name {
					v = x
				}
			}
			gone := sel(2, func(ch refChain) bool { return inS(ch) && ch[1].sel("view", xv.name) })
			chk("view "+sn+"."+xv.name, v != nil, !gone, "excludex-view")
			changed = changed || gone
			if gone || v == nil {
				continue
			}
			for _, cn := range xv.cols {
				has := false
				for _, x := range v.Columns {
					has = has || x.Name == cn
				}
				g := sel(3, func(ch refChain) bool { return inS(ch) && ch[1].sel("view", xv.name) && ch[2].sel("column", cn) })
				chk("view column "+sn+"."+xv.name+"."+cn, has, !g, "excludex-view-column")
				changed = changed || g
			}
			for _, tn := range xv.trigs {
				has := false
				for _, x := range v.Triggers {
					has = has || x.Name == tn
				}
				g := sel(3, func(ch refChain) bool { return inS(ch) && ch[1].sel("view", xv.name) && ch[2].sel("trigger", tn) })
				chk("view trigger "+sn+"."+xv.name+"."+tn, has, !g, "excludex-view-trigger")
				changed = changed || g
			}
		}
		for i, mt := range xs.m.tables {
			var t *schema.Table
			for _, x := range s.Tables {
				if x.Name == mt.name {
					t = x
				}
			}
			if t == nil {
				continue
			}
			for _, tn := range xs.trigs[i] {
				has := false
				for _, x := range t.Triggers {
					has = has || x.Name == tn
				}
				g := sel(3, func(ch refChain) bool { return inS(ch) && ch[1].sel("table", mt.name) && ch[2].sel("trigger", tn) })
				chk("table trigger "+sn+"."+mt.name+"."+tn, has, !g, "excludex-table-trigger")
				changed = changed || g
			}
		}
		for _, fn := range xs.funcs {
			has := false
			for _, x := range s.Funcs {
				has = has || x.Name == fn
			}
			g := sel(2, func(ch refChain) bool { return inS(ch) && ch[1].sel("function", fn) })
			cls := "excludex-func"
			if !g && !has && sel(3, func(ch refChain) bool { return inS(ch) && ch[1].sel("function", fn) }) {
				cls = "excludex-func-by-child-pattern"
			}
			chk("function "+sn+"."+fn, has, !g, cls)
			changed = changed || g
		}
		for _, pn := range xs.procs {
			has := false
			for _, x := range s.Procs {
				has = has || x.Name == pn
			}
			g := sel(2, func(ch refChain) bool { return inS(ch) && ch[1].sel("procedure", pn) })
			cls := "excludex-proc"
			if !g && !has && sel(3, func(ch refChain) bool { return inS(ch) && ch[1].sel("procedure", pn) }) {
				cls = "excludex-proc-by-child-pattern"
			}
			chk("procedure "+sn+"."+pn, has, !g, cls)
			changed = changed || g
		}
		for _, o := range xs.objs {
			g := o.typ != "" && sel(2, func(ch refChain) bool { return inS(ch) && ch[1].sel(o.typ, o.name) })
			chk(fmt.Sprintf("schema object %s %s.%s", o.typ, sn, o.name), hasObj(s.Objects, o.id), !g, "excludex-schema-object")
			changed = changed || g
		}
	}
	if changed {
		w.NonTrivial(desc)
	}
}

func b2s(b bool) string {
	if b {
		return "1"
	}
	return "0"
}

func runExcludeX(w *out.W, tier string) {
	tb := func(n string, cols []string, idx ...mIdx) mTable { return mTable{name: n, cols: cols, idx: idx} }
	rX := xRealm{
		objs: []xObj{{"enum", "e1", 1}, {"enum", "main", 2}, {"", "i0", 3}, {"enum", "users", 4}},
		schemas: []xSchema{
			{m: mSchema{name: "main", tables: []mTable{tb("users", []string{"id", "name"}, mIdx{"i1", []string{"name"}}), tb("t1", []string{"c1"})}},
				trigs: [][]string{{"trg1", "users"}, {"t1"}},
				views: []xView{{"v1", []string{"id", "name"}, []string{"trg1"}}, {"users_v", []string{"c1"}, nil}, {"users", []string{"id"}, []string{"name"}}},
				funcs: []string{"f1", "users", "main"}, procs: []string{"p1", "users"},
				objs:  []xObj{{"enum", "status", 5}, {"enum", "users", 6}, {"", "i9", 7}}},
			{m: mSchema{name: "s2", tables: []mTable{tb("users", []string{"c1"})}},
				trigs: [][]string{nil},
				views: []xView{{"v1", []string{"c1"}, nil}},
				funcs: []string{"f1"}, procs: nil,
				objs:  []xObj{{"enum", "status", 8}}},
		},
	}
	w.Rule = "non-trivial = the pattern list removes at least one view / view column / trigger / function / procedure / object (reference decision); keyed by (op, patterns)"
	sel := func(a string, s string) string {
		if s == "-" {
			return a
		}
		return a + "[type=" + s + "]"
	}
	a0 := []string{"main", "s2", "*", "m*"}
	s0 := []string{"-", "schema", "table"}
	a1 := []string{"users", "v1", "f1", "p1", "status", "*", "u*"}
	s1 := []string{"-", "table", "view", "function", "procedure", "enum", "table|view", "column"}
	a2 := []string{"id", "name", "trg1", "users", "*", "i1"}
	s2 := []string{"-", "column", "trigger", "index", "column|trigger", "view"}
	n := 0
	for _, a := range []string{"main", "e1", "*", "users", "i0"} {
		for _, s := range []string{"-", "schema", "enum", "table", "schema|enum"} {
			runXCase(w, xCase{"R", true, true, []string{sel(a, s)}, rX})
			n++
		}
	}
	var two, three []string
	for _, a := range a1 {
		for _, s := range s1 {
			two = append(two, sel(a, s))
		}
	}
	for _, t := range two {
		for _, a := range a2 {
			for _, s := range s2 {
				three = append(three, t+"."+sel(a, s))
			}
		}
	}
	for _, a := range a0 {
		for _, s := range s0 {
			for _, t := range two {
				runXCase(w, xCase{"R", true, true, []string{sel(a, s) + "." + t}, rX})
				n++
			}
		}
	}
	for k := range rX.schemas { // schema scope: the first component names a table / view / function / ...
		for _, t := range two {
			runXCase(w, xCase{fmt.Sprintf("S%d", k), true, true, []string{t}, rX})
			n++
		}
		for _, t := range three {
			runXCase(w, xCase{fmt.Sprintf("S%d", k), false, true, []string{t}, rX})
			n++
		}
	}
	for _, t := range three { // realm scope, schema component main and *
		runXCase(w, xCase{"R", true, true, []string{"main." + t}, rX})
		n++
	}
	if tier == "thorough" {
		for _, t := range three {
			runXCase(w, xCase{"R", true, true, []string{"*." + t}, rX})
			runXCase(w, xCase{"R", true, true, []string{"m*[type=schema]." + t}, rX})
			n += 2
		}
	}
	w.Exhaust = true
	w.Set("exhaustive_bound", fmt.Sprintf("%d single patterns: every a0[s0].a1[s1] and main.a1[s1].a2[s2] / a1[s1].a2[s2] at the scope of each schema over atoms {users,v1,f1,p1,status,*,u*} x selectors {-,table,view,function,procedure,enum,table|view,column} x {id,name,trg1,users,*,i1} x {-,column,trigger,index,column|trigger,view}, realm with tables+triggers, views, functions, procedures, schema and realm objects sharing names", n))
	// lists of 2-3 patterns (sequential application)
	r := rng.FromEnv(0xC19A)
	pool := append(append([]string{"main", "e1[type=enum]", "*[type=enum]", "s2"}, two...), three[:0]...)
	cnt := 3000
	if tier == "thorough" {
		cnt = 30000
	}
	for i := 0; i < cnt; i++ {
		var ps []string
		for k := 1 + r.Intn(3); k > 0; k-- {
			switch r.Intn(3) {
			case 0:
				ps = append(ps, rng.Pick(r, pool))
			case 1:
				ps = append(ps, rng.Pick(r, a0)+"."+rng.Pick(r, two))
			default:
				ps = append(ps, rng.Pick(r, a0)+"."+rng.Pick(r, three))
			}
		}
		runXCase(w, xCase{"R", r.Bool(), true, ps, rX})
	}
}
