package main

import (
	"context"
	"database/sql"
	"fmt"
	"os"
	"path/filepath"
	"sort"
	"strings"

	"ariga.io/atlas/sql/schema"
	"ariga.io/atlas/sql/sqlite"

	_ "github.com/mattn/go-sqlite3"

	"verifharness/internal/out"
)

// ---- inspect stage (round 3, oracle only): the SQLite driver's InspectSchema / InspectRealm with
// InspectOptions.Exclude / InspectRealmOption.Exclude values that the caller KEEPS and passes to a
// sequence of inspections (schema scope, realm scope, schema scope, ... with the very same slice), on a
// database whose tables are called like its schema ("main") and like each other's columns.
//
// Oracle per inspection: a table / column / index is in the result iff the reference chains of the scope
// (refScopeChains for InspectSchema: first component = table; refChains for InspectRealm: first
// component = schema) do not select it; the result equals the one of freshly made options; after the
// sequence the caller's slice (with its spare capacity) is what it was.

func showInspected(ss []*schema.Schema) string {
	var l []string
	for _, s := range ss {
		var ts []string
		for _, t := range s.Tables {
			var cs, is, fs []string
			for _, c := range t.Columns {
				cs = append(cs, c.Name)
			}
			for _, i := range t.Indexes {
				is = append(is, i.Name)
			}
			for _, f := range t.ForeignKeys {
				fs = append(fs, f.Symbol)
			}
			sort.Strings(is)
			ts = append(ts, fmt.Sprintf("%s(%s;%s;%s)", t.Name, strings.Join(cs, ","), strings.Join(is, ","), strings.Join(fs, ",")))
		}
		l = append(l, s.Name+"["+strings.Join(ts, " ")+"]")
	}
	return strings.Join(l, " ")
}

// inspectDB runs every exclude list through the sequence of inspections on a fresh SQLite database holding tabs.
func inspectDB(w *out.W, prefix string, tabs cState, lists [][]string) {
	dir, err := os.MkdirTemp("", "c19insp")
	if err != nil {
		panic(err)
	}
	defer os.RemoveAll(dir)
	db, err := sql.Open("sqlite3", "file:"+filepath.Join(dir, "db.sqlite"))
	if err != nil {
		panic(err)
	}
	defer db.Close()
	for _, st := range tabs.sql() {
		if _, err := db.Exec(st); err != nil {
			panic(err)
		}
	}
	drv, err := sqlite.Open(db)
	if err != nil {
		panic(err)
	}
	ctx := context.Background()
	full, err := drv.InspectRealm(ctx, nil)
	if err != nil {
		panic(err)
	}
	fullShow := showInspected(full.Schemas)

	n := 0
	for _, pats := range lists {
		n++
		id := fmt.Sprintf("%s%d", prefix, n)
		// the caller's value: one slice, kept, with spare capacity
		given := make([]string, len(pats), len(pats)+2)
		copy(given, pats)
		given[:cap(given)][len(pats)], given[:cap(given)][len(pats)+1] = "sentinel.a", "sentinel.b"
		wantBacking := strings.Join(append(append([]string{}, pats...), "sentinel.a", "sentinel.b"), "\x00")
		sopts := &schema.InspectOptions{Exclude: given}
		ropts := &schema.InspectRealmOption{Exclude: given}
		type step struct {
			scope string // "S" InspectSchema(""), "Sm" InspectSchema("main"), "R" InspectRealm
			fresh bool
		}
		seq := []step{{"S", false}, {"R", false}, {"Sm", false}, {"R", false}, {"S", false}, {"S", true}, {"R", true}}
		first := map[string]string{}
		var obs []string
		for k, st := range seq {
			so, ro := sopts, ropts
			if st.fresh {
				so = &schema.InspectOptions{Exclude: append([]string{}, pats...)}
				ro = &schema.InspectRealmOption{Exclude: append([]string{}, pats...)}
			}
			var (
				got string
				err error
			)
			switch st.scope {
			case "R":
				var r *schema.Realm
				if r, err = drv.InspectRealm(ctx, ro); err == nil {
					got = showInspected(r.Schemas)
				}
			default:
				name := ""
				if st.scope == "Sm" {
					name = "main"
				}
				var s *schema.Schema
				if s, err = drv.InspectSchema(ctx, name, so); err == nil {
					got = showInspected([]*schema.Schema{s})
				}
			}
			if err != nil {
				got = "err=" + errEnum(err)
			}
			obs = append(obs, st.scope+":"+got)
			w.Count("inspect:" + st.scope[:1])
			scope := st.scope[:1]
			where := fmt.Sprintf("inspection %d of %d (%s, Exclude=%q, same options value: %v)", k+1, len(seq), map[string]string{"S": "InspectSchema", "R": "InspectRealm"}[scope], pats, !st.fresh)
			if prev, ok := first[scope]; ok && prev != got {
				cls := "inspect-reuse-differs"
				if st.fresh {
					cls = "inspect-reuse-differs-from-fresh"
				}
				w.Violation(id, cls, fmt.Sprintf("%s: result %s, the first inspection of this scope gave %s", where, got, prev))
			} else if !ok {
				first[scope] = got
			}
			// ---- which resources may be present: the reference of the scope
			var (
				chains                         []refChain
				splitOK, anyMalformed, tooMany bool
			)
			if scope == "R" {
				chains, splitOK, anyMalformed = refChains(pats)
				for _, ch := range chains {
					if len(ch) > 3 {
						tooMany = true
					}
				}
			} else {
				chains, splitOK, anyMalformed, tooMany = refScopeChains("main", pats)
			}
			if len(pats) == 0 {
				splitOK = true
			}
			if err != nil {
				if splitOK && !anyMalformed && !tooMany {
					w.Violation(id, "inspect-error-unexpected", fmt.Sprintf("%s: patterns are well formed but the inspection failed: %v", where, err))
				}
				continue
			}
			if !splitOK {
				w.Violation(id, "exclude-bad-quoting-accepted", fmt.Sprintf("%s: patterns cannot be split but no error was returned", where))
				continue
			}
			sel := func(names []string, typ string) bool {
				for _, ch := range chains {
					if len(ch) != len(names) {
						continue
					}
					ok := true
					for i := range ch {
						ty := []string{"schema", "table", typ}[i]
						if !ch[i].sel(ty, names[i]) {
							ok = false
						}
					}
					if ok {
						return true
					}
				}
				return false
			}
			var want []string
			if !sel([]string{"main"}, "") {
				var ts []string
				for _, t := range tabs {
					if sel([]string{"main", t.name}, "") {
						continue
					}
					var cs, is []string
					for _, c := range t.cols {
						if !sel([]string{"main", t.name, c[0]}, "column") {
							cs = append(cs, c[0])
						}
					}
					for _, i := range t.idx {
						if !sel([]string{"main", t.name, i.name}, "index") {
							is = append(is, i.name)
						}
					}
					sort.Strings(is)
					ts = append(ts, fmt.Sprintf("%s(%s;%s;)", t.name, strings.Join(cs, ","), strings.Join(is, ",")))
				}
				want = append(want, "main["+strings.Join(ts, " ")+"]")
			}
			if w0 := strings.Join(want, " "); w0 != got {
				w.Violation(id, "inspect-exclude-wrong", fmt.Sprintf("%s: the result is %s, the documented meaning of the patterns at this scope gives %s", where, got, w0))
			}
			if got != fullShow {
				w.NonTrivial(scope + strings.Join(pats, "\x00"))
			}
		}
		if now := strings.Join(given[:cap(given)], "\x00"); now != wantBacking || len(sopts.Exclude) != len(pats) || len(ropts.Exclude) != len(pats) {
			w.Violation(id, "exclude-patterns-rewritten", fmt.Sprintf("the inspections rewrote the caller's Exclude slice: %q (with spare capacity) became %q", strings.Split(wantBacking, "\x00"), given[:cap(given)]))
		}
		w.ImplOnly(id, fmt.Sprintf("%q => %s", pats, strings.Join(obs, " | ")))
	}
}

func runInspect(w *out.W, tier string) {
	w.Rule = "non-trivial = an inspection whose exclude list removed at least one resource; keyed by (scope, patterns)"
	tabs := cState{
		{"main", [][2]string{{"id", "integer"}, {"main", "integer"}, {"secret", "text"}, {"c1", "integer"}}, "id", []cIdx{{"c1", "c1"}, {"i2", "secret"}}},
		{"secret", [][2]string{{"main", "integer"}, {"c1", "text"}}, "", []cIdx{{"j1", "main"}}},
		{"t1", [][2]string{{"c1", "integer"}, {"main", "text"}}, "", nil},
	}
	// pattern lists: every 1- and 2-component pattern over the coinciding names, with the selectors that tell
	// the levels apart; 3 components (realm scope: schema.table.child; schema scope: too many); lists of two
	atoms := []string{"main", "secret", "t1", "c1", "*", "m*"}
	var one, two []string
	for _, a := range atoms {
		for _, sl := range []string{"", "[type=table]", "[type=schema]", "[type=column]"} {
			one = append(one, a+sl)
		}
		for _, sl := range []string{"", "[type=column]", "[type=index]", "[type=table]"} {
			two = append(two, a+sl)
		}
	}
	var lists [][]string
	lists = append(lists, nil)
	for _, x := range one {
		lists = append(lists, []string{x})
		for _, y := range two {
			lists = append(lists, []string{x + "." + y})
		}
	}
	for _, x := range []string{"main", "*", "secret"} {
		for _, y := range []string{"main", "secret", "*", "t1[type=table]"} {
			for _, z := range two {
				lists = append(lists, []string{x + "." + y + "." + z})
			}
		}
	}
	lists = append(lists, []string{"main", "main.secret"}, []string{"main.secret", "main"}, []string{"main.*[type=index]", "secret"},
		[]string{"main.main", "main.main.main"}, []string{"secret.*", "*.secret"}, []string{"main.[", "t1"}, []string{"t1", "main.["}, []string{"a.b.c.d"}, []string{`"main".secret`})

	inspectDB(w, "n", tabs, lists)
	gtabs, glists := globOnlyFamily()
	inspectDB(w, "g", gtabs, glists)
	w.Set("glob_only_lists", len(glists))
	w.Exhaust = true
	w.Set("exhaustive_bound", fmt.Sprintf("%d exclude lists (every 1- and 2-component pattern over {main,secret,t1,c1,*,m*} x 4 selectors per level, 3-component samples, lists of two, malformed) x 7 inspections (InspectSchema / InspectRealm alternating with one kept options value, then fresh options) on one SQLite database with tables main, secret, t1", len(lists)))
}
