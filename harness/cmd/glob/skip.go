package main

import (
	"fmt"
	"reflect"
	"sort"
	"strings"

	"ariga.io/atlas/sql/mysql"
	"ariga.io/atlas/sql/postgres"
	"ariga.io/atlas/sql/schema"
	"ariga.io/atlas/sql/sqlite"

	"verifharness/internal/out"
	"verifharness/internal/rng"
)

// ---- the generator's description of a schema for the differ (domain of Diff/Schema.v)
type dCol struct {
	name string
	typ  int // 2 = integer, 3 = text
	null bool
}
type dPart struct {
	col  string
	desc bool
}
type dIdx struct {
	name   string
	unique bool
	parts  []dPart
}
type dFk struct {
	sym      string
	cols     []string
	refTable string
	refCols  []string
	onDelete string
}
type dCheck struct{ name, expr string }
type dTable struct {
	name   string
	cols   []dCol
	pk     *dIdx
	idx    []dIdx
	fks    []dFk
	checks []dCheck
}
type dSchema struct {
	name   string
	tables []dTable
}

func (ix dIdx) text() string {
	var b strings.Builder
	u := "0"
	if ix.unique {
		u = "1"
	}
	fmt.Fprintf(&b, "%s %s %d", hexs(ix.name), u, len(ix.parts))
	for i, p := range ix.parts {
		d := "0"
		if p.desc {
			d = "1"
		}
		fmt.Fprintf(&b, " %d %s %s ~", i, d, hexs(p.col))
	}
	b.WriteString(" ~ ~ ~")
	return b.String()
}

func (s dSchema) text() string {
	var b strings.Builder
	fmt.Fprintf(&b, "%s %d", hexs(s.name), len(s.tables))
	for _, t := range s.tables {
		fmt.Fprintf(&b, " %s 0 0 %d", hexs(t.name), len(t.cols))
		for _, c := range t.cols {
			n := "0"
			if c.null {
				n = "1"
			}
			ty := "integer"
			if c.typ == 3 {
				ty = "text"
			}
			fmt.Fprintf(&b, " %s %d %s %s ~ ~ ~", hexs(c.name), c.typ, hexs(ty), n)
		}
		if t.pk == nil {
			b.WriteString(" ~")
		} else {
			b.WriteString(" P " + t.pk.text())
		}
		fmt.Fprintf(&b, " %d", len(t.idx))
		for _, ix := range t.idx {
			b.WriteString(" " + ix.text())
		}
		fmt.Fprintf(&b, " %d", len(t.fks))
		for _, f := range t.fks {
			fmt.Fprintf(&b, " %s %d", hexs(f.sym), len(f.cols))
			for _, c := range f.cols {
				b.WriteString(" " + hexs(c))
			}
			fmt.Fprintf(&b, " %s %d", hexs(f.refTable), len(f.refCols))
			for _, c := range f.refCols {
				b.WriteString(" " + hexs(c))
			}
			fmt.Fprintf(&b, " - %s", hexs(f.onDelete))
		}
		fmt.Fprintf(&b, " %d", len(t.checks))
		for _, k := range t.checks {
			fmt.Fprintf(&b, " %s %s", hexs(k.name), hexs(k.expr))
		}
	}
	return b.String()
}

func buildD(ds dSchema, dialect string) *schema.Schema {
	s := schema.New(ds.name)
	tabs := map[string]*schema.Table{}
	for _, dt := range ds.tables {
		t := schema.NewTable(dt.name)
		tabs[dt.name] = t
		for _, c := range dt.cols {
			col := schema.NewColumn(c.name).SetNull(c.null)
			switch {
			case c.typ == 2 && dialect == "sqlite":
				col.SetType(&schema.IntegerType{T: "integer"})
				col.Type.Raw = "integer"
			case c.typ == 2:
				col.SetType(&schema.IntegerType{T: "bigint"})
				col.Type.Raw = "bigint"
			default:
				col.SetType(&schema.StringType{T: "text"})
				col.Type.Raw = "text"
			}
			t.AddColumns(col)
		}
		s.AddTables(t)
	}
	for _, dt := range ds.tables {
		t := tabs[dt.name]
		mk := func(ix dIdx) *schema.Index {
			i := schema.NewIndex(ix.name).SetUnique(ix.unique)
			for k, p := range ix.parts {
				c, _ := t.Column(p.col)
				i.AddParts(&schema.IndexPart{C: c, Desc: p.desc})
				i.Parts[k].SeqNo = k
			}
			return i
		}
		if dt.pk != nil {
			t.SetPrimaryKey(mk(*dt.pk))
		}
		for _, ix := range dt.idx {
			t.AddIndexes(mk(ix))
		}
		for _, f := range dt.fks {
			fk := schema.NewForeignKey(f.sym).SetTable(t).SetOnDelete(schema.ReferenceOption(f.onDelete))
			for _, c := range f.cols {
				col, _ := t.Column(c)
				fk.AddColumns(col)
			}
			rt := tabs[f.refTable]
			if rt == nil {
				rt = schema.NewTable(f.refTable)
				for _, c := range f.refCols {
					rt.AddColumns(schema.NewIntColumn(c, "integer"))
				}
			}
			fk.SetRefTable(rt)
			for _, c := range f.refCols {
				col, ok := rt.Column(c)
				if !ok {
					col = schema.NewIntColumn(c, "integer")
				}
				fk.AddRefColumns(col)
			}
			t.AddForeignKeys(fk)
		}
		for _, k := range dt.checks {
			t.AddChecks(schema.NewCheck().SetName(k.name).SetExpr(k.expr))
		}
	}
	return s
}

// ---- canonical text of a change set (same as ocaml/diff/driver.ml: show_schange)
type cch struct {
	kind string // Go type name
	text string
	subs []cch
}

func canon(cs []schema.Change) []cch {
	var res []cch
	for _, c := range cs {
		k := reflect.TypeOf(c).Elem().Name()
		x := cch{kind: k}
		switch c := c.(type) {
		case *schema.AddTable:
			x.text = "+T(" + c.T.Name + ")"
		case *schema.DropTable:
			x.text = "-T(" + c.T.Name + ")"
		case *schema.ModifyTable:
			x.text = "~T(" + c.T.Name + ")"
			x.subs = canon(c.Changes)
		case *schema.AddColumn:
			x.text = "+C(" + c.C.Name + ")"
		case *schema.DropColumn:
			x.text = "-C(" + c.C.Name + ")"
		case *schema.ModifyColumn:
			x.text = fmt.Sprintf("~C(%s:%d)", c.From.Name, c.Change)
		case *schema.AddIndex:
			x.text = "+I(" + c.I.Name + ")"
		case *schema.DropIndex:
			x.text = "-I(" + c.I.Name + ")"
		case *schema.ModifyIndex:
			x.text = fmt.Sprintf("~I(%s:%d)", c.From.Name, c.Change)
		case *schema.AddPrimaryKey:
			x.text = "+PK"
		case *schema.DropPrimaryKey:
			x.text = "-PK"
		case *schema.ModifyPrimaryKey:
			x.text = fmt.Sprintf("~PK(%d)", c.Change)
		case *schema.RenameConstraint:
			x.text = "RC(" + c.From.(*schema.Index).Name + ">" + c.To.(*schema.Index).Name + ")"
		case *schema.AddForeignKey:
			x.text = "+FK(" + c.F.Symbol + ")"
		case *schema.DropForeignKey:
			x.text = "-FK(" + c.F.Symbol + ")"
		case *schema.ModifyForeignKey:
			x.text = fmt.Sprintf("~FK(%s:%d)", c.From.Symbol, c.Change)
		case *schema.AddCheck:
			x.text = "+CK(" + c.C.Name + ":" + hexs(c.C.Expr) + ")"
		case *schema.DropCheck:
			x.text = "-CK(" + c.C.Name + ":" + hexs(c.C.Expr) + ")"
		case *schema.ModifyCheck:
			x.text = "~CK(" + c.From.Name + ":" + hexs(c.From.Expr) + ">" + c.To.Name + ":" + hexs(c.To.Expr) + ")"
		case *schema.AddSchema:
			x.text = "+S(" + c.S.Name + ")"
		case *schema.DropSchema:
			x.text = "-S(" + c.S.Name + ")"
		case *schema.ModifySchema:
			x.text = "~S(" + c.S.Name + ")"
			x.subs = canon(c.Changes)
		default:
			x.text = "?" + k
		}
		res = append(res, x)
	}
	return res
}

func showC(cs []cch) string {
	if len(cs) == 0 {
		return "[]"
	}
	var l []string
	for _, c := range cs {
		s := c.text
		if c.kind == "ModifyTable" || c.kind == "ModifySchema" {
			var sub []string
			for _, x := range c.subs {
				sub = append(sub, x.text)
			}
			s += "{" + strings.Join(sub, ",") + "}"
		}
		l = append(l, s)
	}
	return strings.Join(l, ";")
}

// the reference: the unfiltered change set minus exactly the kinds of K, at every nesting level
func refRemove(cs []cch, K map[string]bool) []cch {
	var res []cch
	for _, c := range cs {
		if K[c.kind] {
			continue
		}
		if c.kind == "ModifyTable" || c.kind == "ModifySchema" {
			sub := refRemove(c.subs, K)
			if len(sub) == 0 {
				continue
			}
			c.subs = sub
		}
		res = append(res, c)
	}
	return res
}

func occursKind(cs []cch, K map[string]bool) (string, bool) {
	for _, c := range cs {
		if K[c.kind] {
			return c.text, true
		}
		if t, ok := occursKind(c.subs, K); ok {
			return c.text + "/" + t, true
		}
	}
	return "", false
}

func kindsIn(cs []cch, acc map[string]bool) {
	for _, c := range cs {
		acc[c.kind] = true
		kindsIn(c.subs, acc)
	}
}

// every kind the policy can name (cmdapi.SkipChanges / Diff.Options), as instances for DiffSkipChanges
var skipInst = map[string]schema.Change{
	"AddSchema": &schema.AddSchema{}, "DropSchema": &schema.DropSchema{}, "ModifySchema": &schema.ModifySchema{},
	"AddView": &schema.AddView{}, "DropView": &schema.DropView{}, "ModifyView": &schema.ModifyView{}, "RenameView": &schema.RenameView{},
	"AddFunc": &schema.AddFunc{}, "DropFunc": &schema.DropFunc{}, "ModifyFunc": &schema.ModifyFunc{}, "RenameFunc": &schema.RenameFunc{},
	"AddProc": &schema.AddProc{}, "DropProc": &schema.DropProc{}, "ModifyProc": &schema.ModifyProc{}, "RenameProc": &schema.RenameProc{},
	"AddTrigger": &schema.AddTrigger{}, "DropTrigger": &schema.DropTrigger{}, "ModifyTrigger": &schema.ModifyTrigger{}, "RenameTrigger": &schema.RenameTrigger{},
	"AddTable": &schema.AddTable{}, "DropTable": &schema.DropTable{}, "ModifyTable": &schema.ModifyTable{}, "RenameTable": &schema.RenameTable{},
	"AddColumn": &schema.AddColumn{}, "DropColumn": &schema.DropColumn{}, "ModifyColumn": &schema.ModifyColumn{},
	"AddIndex": &schema.AddIndex{}, "DropIndex": &schema.DropIndex{}, "ModifyIndex": &schema.ModifyIndex{},
	"AddForeignKey": &schema.AddForeignKey{}, "DropForeignKey": &schema.DropForeignKey{}, "ModifyForeignKey": &schema.ModifyForeignKey{},
	"RenameConstraint": &schema.RenameConstraint{},
}

var skN int

func runSkipCase(w *out.W, from, to dSchema, K []string) {
	skN++
	id := fmt.Sprintf("k%d", skN)
	sort.Strings(K)
	Kset := map[string]bool{}
	var inst []schema.Change
	for _, k := range K {
		Kset[k] = true
		inst = append(inst, skipInst[k])
	}
	for _, dialect := range []string{"sqlite", "mysql", "postgres"} {
		var d schema.Differ
		switch dialect {
		case "sqlite":
			d = sqlite.DefaultDiff
		case "mysql":
			d = mysql.DefaultDiff
		default:
			d = postgres.DefaultDiff
		}
		run := func(opts ...schema.DiffOption) ([]cch, error) {
			cs, err := d.SchemaDiff(buildD(from, dialect), buildD(to, dialect), append([]schema.DiffOption{schema.DiffNormalized()}, opts...)...)
			return canon(cs), err
		}
		all, err0 := run()
		got, err := run(schema.DiffSkipChanges(inst...))
		if dialect == "sqlite" {
			obs := "err"
			if err == nil {
				obs = showC(got)
			}
			w.Case(id, fmt.Sprintf("%d %s %s %s", len(K), strings.Join(append([]string{}, K...), " "), from.text(), to.text()), []string{obs})
		} else {
			w.ImplOnly(id+"/"+dialect, showC(got))
		}
		w.Count(dialect + ":cases")
		// ---- oracle (on the Go observations only)
		if (err0 != nil) != (err != nil) {
			w.Violation(id, "skip-error-differs", fmt.Sprintf("%s: error with skip %v: %v, without: %v", dialect, K, err, err0))
			continue
		}
		if err != nil {
			w.Count(dialect + ":error")
			continue
		}
		if t, ok := occursKind(got, Kset); ok {
			w.Violation(id, "skip-kind-present", fmt.Sprintf("%s: skipped kinds %v but the change set holds %s: %s", dialect, K, t, showC(got)))
		}
		want := refRemove(all, Kset)
		if showC(want) != showC(got) {
			w.Violation(id, "skip-not-exact", fmt.Sprintf("%s: skip %v: got %s, unfiltered minus skipped kinds is %s", dialect, K, showC(got), showC(want)))
		}
		if showC(got) != showC(all) {
			w.NonTrivial(dialect + showC(all) + strings.Join(K, ","))
			w.Count(dialect + ":filtered")
		}
	}
}

var p0from = dSchema{"main", []dTable{
	{name: "t1", cols: []dCol{{"c1", 2, false}, {"c2", 2, false}, {"c3", 3, true}, {"c5", 2, true}},
		pk:     &dIdx{"", false, []dPart{{"c1", false}}},
		idx:    []dIdx{{"i1", false, []dPart{{"c1", false}}}, {"i2", true, []dPart{{"c2", false}}}, {"i4", false, []dPart{{"c5", false}}}},
		fks:    []dFk{{"f1", []string{"c2"}, "t2", []string{"c1"}, ""}, {"f3", []string{"c5"}, "t2", []string{"c1"}, ""}},
		checks: []dCheck{{"k1", "c1 > 0"}, {"k3", "c2 > 0"}}},
	{name: "t2", cols: []dCol{{"c1", 2, false}}, pk: &dIdx{"", false, []dPart{{"c1", false}}}},
	{name: "t3", cols: []dCol{{"c1", 2, false}}},
	{name: "t5", cols: []dCol{{"c1", 2, false}, {"c2", 2, false}}, idx: []dIdx{{"j1", false, []dPart{{"c1", false}}}}},
}}
var p0to = dSchema{"main", []dTable{
	{name: "t1", cols: []dCol{{"c1", 2, false}, {"c2", 3, false}, {"c4", 2, true}, {"c5", 2, true}},
		pk:     &dIdx{"", false, []dPart{{"c1", false}, {"c2", false}}},
		idx:    []dIdx{{"i1", false, []dPart{{"c2", false}}}, {"i3", false, []dPart{{"c4", true}}}, {"i4", false, []dPart{{"c5", false}}}},
		fks:    []dFk{{"f1", []string{"c2"}, "t2", []string{"c1"}, "CASCADE"}, {"f2", []string{"c4"}, "t2", []string{"c1"}, ""}},
		checks: []dCheck{{"k1", "c1 > 1"}, {"k2", "c4 > 0"}}},
	{name: "t2", cols: []dCol{{"c1", 2, false}}, pk: &dIdx{"", false, []dPart{{"c1", false}}}},
	{name: "t4", cols: []dCol{{"c1", 2, false}}},
	{name: "t5", cols: []dCol{{"c1", 2, false}}, idx: []dIdx{}}, // only drops: column c2 and index j1
}}

func randTable(r *rng.R, name string) dTable {
	names := []string{"a", "b", "c", "d"}
	t := dTable{name: name}
	for _, c := range names {
		if r.Chance(2, 3) || len(t.cols) == 0 && c == "d" {
			t.cols = append(t.cols, dCol{c, 2 + r.Intn(2), r.Bool()})
		}
	}
	col := func() string { return t.cols[r.Intn(len(t.cols))].name }
	if r.Chance(2, 3) {
		pk := &dIdx{name: ""} // named PKs: Diff/DiffSqlite.v (read-only here) models SupportChange(RenameConstraint) = true, sqlite says false
		pk.parts = append(pk.parts, dPart{t.cols[0].name, false})
		if r.Chance(1, 4) && len(t.cols) > 1 {
			pk.parts = append(pk.parts, dPart{t.cols[1].name, false})
		}
		t.pk = pk
	}
	for _, n := range []string{"i1", "i2", "i3"} {
		if r.Chance(1, 2) {
			ix := dIdx{n, r.Chance(1, 3), []dPart{{col(), r.Chance(1, 4)}}}
			t.idx = append(t.idx, ix)
		}
	}
	for _, n := range []string{"f1", "f2"} {
		if r.Chance(1, 2) {
			t.fks = append(t.fks, dFk{n, []string{col()}, rng.Pick(r, []string{"p", "q"}), []string{"id"}, rng.Pick(r, []string{"", "CASCADE", "SET NULL"})})
		}
	}
	for _, n := range []string{"k1", "k2"} {
		if r.Chance(1, 3) {
			t.checks = append(t.checks, dCheck{n, rng.Pick(r, []string{"a > 0", "b > 0", "(a > 0)"})})
		}
	}
	return t
}

// a random pair of schemas "main" over tables t1..t3
func randPair(r *rng.R) (from, to dSchema) {
	from.name, to.name = "main", "main"
	for _, tn := range []string{"t1", "t2", "t3"} {
		if r.Chance(3, 4) {
			from.tables = append(from.tables, randTable(r, tn))
		}
		if r.Chance(3, 4) {
			to.tables = append(to.tables, randTable(r, tn))
		}
	}
	return
}

func runSkip(w *out.W, tier string) {
	w.Rule = "non-trivial = the skip list removed at least one change from the unfiltered change set; keyed by (dialect, unfiltered change set, K)"
	gen, err := readSkipKinds()
	if err != nil {
		panic(err)
	}
	for _, k := range gen {
		if skipInst[k] == nil {
			panic("kind " + k + " of Diff.Options() is unknown to the harness")
		}
	}
	// ---- all subsets of the kinds that occur in a rich pair (both directions)
	for _, pr := range [][2]dSchema{{p0from, p0to}, {p0to, p0from}} {
		cs, err := sqlite.DefaultDiff.SchemaDiff(buildD(pr[0], "sqlite"), buildD(pr[1], "sqlite"), schema.DiffNormalized())
		if err != nil {
			panic(err)
		}
		occ := map[string]bool{}
		kindsIn(canon(cs), occ)
		var ks []string
		for _, k := range gen {
			if occ[k] {
				ks = append(ks, k)
			}
		}
		w.Set("occurring_skippable_kinds", ks)
		for m := 0; m < 1<<len(ks); m++ {
			var K []string
			for i, k := range ks {
				if m&(1<<i) != 0 {
					K = append(K, k)
				}
			}
			runSkipCase(w, pr[0], pr[1], K)
		}
		// every policy kind alone (those that cannot occur must be no-ops)
		for _, k := range gen {
			runSkipCase(w, pr[0], pr[1], []string{k})
		}
		runSkipCase(w, pr[0], pr[1], gen)
	}
	w.Exhaust = true
	w.Set("exhaustive_bound", "all subsets of the skippable kinds occurring in a pair of schemas whose diff holds every table-level kind, both directions; every policy kind alone; all kinds together")
	// ---- seeded random pairs x random K
	r := rng.FromEnv(0x5C19)
	cnt := 1500
	if tier == "thorough" {
		cnt = 40000
	}
	for i := 0; i < cnt; i++ {
		from, to := randPair(r)
		var K []string
		used := map[string]bool{}
		for k := r.Intn(5); k > 0; k-- {
			x := rng.Pick(r, gen)
			if r.Chance(3, 4) {
				x = rng.Pick(r, []string{"AddTable", "DropTable", "ModifyTable", "AddColumn", "DropColumn", "ModifyColumn", "AddIndex", "DropIndex", "ModifyIndex", "AddForeignKey", "DropForeignKey", "ModifyForeignKey", "RenameConstraint"})
			}
			if !used[x] {
				used[x] = true
				K = append(K, x)
			}
		}
		runSkipCase(w, from, to, K)
	}
}
