package main

import (
	"fmt"
	"path/filepath"
	"strings"

	"verifharness/internal/out"
	"verifharness/internal/rng"
)

func obsMatch(p, n string) string {
	m, err := filepath.Match(p, n)
	switch {
	case err == filepath.ErrBadPattern:
		return "r=bad"
	case err != nil:
		return "r=err"
	case m:
		return "r=true"
	default:
		return "r=false"
	}
}

func allStrings(alpha []string, maxLen int) []string {
	res := []string{""}
	prev := []string{""}
	for l := 1; l <= maxLen; l++ {
		var cur []string
		for _, p := range prev {
			for _, a := range alpha {
				cur = append(cur, p+a)
			}
		}
		res = append(res, cur...)
		prev = cur
	}
	return res
}

// runMatch: filepath.Match on (pattern, name) pairs.
func runMatch(w *out.W, tier string) {
	w.Rule = "non-trivial = the pattern holds a meta character (* ? [ \\) and the result is not the one of the empty pattern; keyed by (pattern,name)"
	n := 0
	one := func(p, name string) {
		n++
		id := fmt.Sprintf("m%d", n)
		o := obsMatch(p, name)
		w.Case(id, hexs(p)+" "+hexs(name), []string{o})
		w.Count(o)
		if strings.ContainsAny(p, "*?[\\") {
			w.NonTrivial(p + "\x00" + name)
		}
		// ---- oracle: the documented glob semantics (refglob.go)
		app, wf, m := refGlob(p, name)
		if !app {
			w.Count("oracle:not-utf8")
			return
		}
		ascii := true
		for i := 0; i < len(name); i++ {
			if name[i] >= 0x80 {
				ascii = false
			}
		}
		plain := ascii && !strings.Contains(name, "/")
		switch {
		case wf && o == "r=bad":
			w.Violation(id, "match-bad-on-wellformed", fmt.Sprintf("Match(%q,%q) = ErrBadPattern but the pattern is well formed", p, name))
		case wf && (o == "r=true") != m:
			cls := "match-differs-plain-name"
			if !ascii {
				cls = "stdlib-match-multibyte-name"
			} else if !plain {
				cls = "stdlib-match-separator-name"
			}
			w.Violation(id, cls, fmt.Sprintf("Match(%q,%q) = %s but the documented semantics gives %v", p, name, o, m))
		case !wf && o == "r=true":
			w.Violation(id, "match-true-on-malformed", fmt.Sprintf("Match(%q,%q) = true for a malformed pattern", p, name))
		case !wf && o == "r=false":
			w.Count("oracle:malformed-not-reached")
		}
	}
	// corpus: the quirks the proofs talk about
	for _, c := range [][2]string{{"*?*?x", "€x"}, {"*??x", "€x"}, {"a*[", "b"}, {"a[", "b"}, {"*?*\xac", "\xe2\x82\xac"},
		{"[", "c"}, {"[]a]", "]"}, {"[^]a]", "b"}, {"[a-]", "a"}, {"\\", "a"}, {"[\\]a]", "]"}, {"[/]", "/"}, {"?", "/"},
		{"*", "a/b"}, {"a*", "a/b"}, {"*[^x]*c", "a/c"}, {"[a-c]*", "bxx"}, {"[^a-c]?", "dz"}, {"\\*", "*"}, {"[\\-]", "-"},
		{"[é-ü]", "ï"}, {"?", "\xff"}, {"[\xff]", "a"}, {"[a", "a"}, {"a\\", "a"}, {"[--0]", "."}, {"[a-\\]]", "]"}} {
		one(c[0], c[1])
	}
	// exhaustive small domain
	palpha := []string{"a", "b", "*", "?", "[", "]", "-", "\\", "^"}
	nalpha := []string{"a", "b", "-", "]"}
	pl, nl := 4, 3
	if tier == "thorough" {
		pl, nl = 5, 3
	}
	names := allStrings(nalpha, nl)
	for _, p := range allStrings(palpha, pl) {
		for _, name := range names {
			one(p, name)
		}
	}
	w.Exhaust = true
	w.Set("exhaustive_bound", fmt.Sprintf("all patterns of <=%d symbols over {a,b,*,?,[,],-,\\,^} x all names of <=%d over {a,b,-,]}", pl, nl))
	// seeded random: longer patterns, classes with ranges, separators, multi-byte runes
	r := rng.FromEnv(0xC19)
	pat := []string{"a", "b", "c", "x", "*", "*", "?", "[", "]", "-", "\\", "^", "/", "[a-c]", "[^b]", "[ab]", "é", "€", ".", "_", "\xff"}
	nam := []string{"a", "b", "c", "x", "-", "]", "/", "é", "€", ".", "_", "^", "[", "\xff", "\x82"}
	cnt := 20000
	if tier == "thorough" {
		cnt = 400000
	}
	for i := 0; i < cnt; i++ {
		var p, name strings.Builder
		for k := r.Intn(9); k > 0; k-- {
			p.WriteString(rng.Pick(r, pat))
		}
		for k := r.Intn(7); k > 0; k-- {
			if r.Chance(3, 4) {
				name.WriteString(rng.Pick(r, nam[:6]))
			} else {
				name.WriteString(rng.Pick(r, nam))
			}
		}
		one(p.String(), name.String())
	}
}
