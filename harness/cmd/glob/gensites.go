package main

import (
	"bytes"
	"fmt"
	"go/ast"
	"go/parser"
	"go/printer"
	"go/token"
	"os"
	"path/filepath"
	"sort"
	"strings"
)

// Census of the consumers of the exclude option (round 5), written to coq/theories/gen/Gen_ExcludeSites.v by
// `h_glob -mode gen`: (1) every function that calls addFlagExclude; (2) every composite literal of
// stateReaderConfig in cmd/atlas/internal/cmdapi with the text of its `exclude:` value ("-" = no such key);
// (3) every selector expression X.Exclude in the non-test Go files of the OSS build of
// cmd/atlas/internal/{cmdapi,cmdext} and sql/{sqlite,mysql,postgres,migrate,internal/sqlx} with its role.

var excludeSiteDirs = []string{
	"cmd/atlas/internal/cmdapi", "cmd/atlas/internal/cmdext",
	"sql/sqlite", "sql/mysql", "sql/postgres", "sql/migrate", "sql/internal/sqlx",
}

func exprText(fset *token.FileSet, e ast.Expr) string {
	var b bytes.Buffer
	printer.Fprint(&b, fset, e)
	return b.String()
}

func isEntOnly(src []byte) bool {
	for _, l := range strings.SplitN(string(src), "package ", 2)[:1] {
		for _, ln := range strings.Split(l, "\n") {
			if strings.HasPrefix(ln, "//go:build ") && strings.Contains(ln, "ent") && !strings.Contains(ln, "!ent") {
				return true
			}
		}
	}
	return false
}

type exSite struct{ file, fn, role string }

func genExcludeSites(dir string) error {
	var flagFuncs []string
	var readers [][2]string // func, exclude value text
	var sites []exSite
	for _, d := range excludeSiteDirs {
		files, _ := filepath.Glob(filepath.Join(repoDir(), d, "*.go"))
		sort.Strings(files)
		for _, f := range files {
			if strings.HasSuffix(f, "_test.go") || strings.HasPrefix(filepath.Base(f), "verif_") {
				continue
			}
			src, err := os.ReadFile(f)
			if err != nil {
				return err
			}
			if isEntOnly(src) {
				continue
			}
			fset := token.NewFileSet()
			pf, err := parser.ParseFile(fset, f, src, 0)
			if err != nil {
				return err
			}
			rel := d + "/" + filepath.Base(f)
			for _, decl := range pf.Decls {
				fd, ok := decl.(*ast.FuncDecl)
				if !ok || fd.Body == nil {
					continue
				}
				var last ast.Stmt
				if n := len(fd.Body.List); n > 0 {
					last = fd.Body.List[n-1]
				}
				// parents
				var stack []ast.Node
				ast.Inspect(fd.Body, func(n ast.Node) bool {
					if n == nil {
						stack = stack[:len(stack)-1]
						return true
					}
					switch x := n.(type) {
					case *ast.CallExpr:
						if id, ok := x.Fun.(*ast.Ident); ok && id.Name == "addFlagExclude" {
							flagFuncs = append(flagFuncs, fd.Name.Name)
						}
					case *ast.CompositeLit:
						if id, ok := x.Type.(*ast.Ident); ok && id.Name == "stateReaderConfig" && d == "cmd/atlas/internal/cmdapi" {
							v := "-"
							for _, e := range x.Elts {
								if kv, ok := e.(*ast.KeyValueExpr); ok {
									if k, ok := kv.Key.(*ast.Ident); ok && k.Name == "exclude" {
										v = exprText(fset, kv.Value)
									}
								}
							}
							readers = append(readers, [2]string{fd.Name.Name, v})
						}
					case *ast.SelectorExpr:
						if x.Sel.Name == "Exclude" || x.Sel.Name == "exclude" {
							role := "other"
							if len(stack) > 0 {
								switch p := stack[len(stack)-1].(type) {
								case *ast.KeyValueExpr:
									if k, ok := p.Key.(*ast.Ident); ok && (k.Name == "Exclude" || k.Name == "exclude") && p.Value == ast.Expr(x) {
										role = "forward"
									}
								case *ast.ReturnStmt:
									role = "accessor-return"
								case *ast.AssignStmt:
									if len(p.Lhs) == 1 && p.Lhs[0] == ast.Expr(x) {
										role = "assign"
									}
								case *ast.UnaryExpr: // &flags.exclude as the target of addFlagExclude
									if len(stack) > 1 {
										if c, ok := stack[len(stack)-2].(*ast.CallExpr); ok && exprText(fset, c.Fun) == "addFlagExclude" {
											role = "flag-target"
										}
									}
								case *ast.CallExpr:
									fn := exprText(fset, p.Fun)
									switch {
									case p.Fun == ast.Expr(x):
										role = "method-call" // a method that happens to be called exclude (postgres EXCLUDE constraints): not the option
									case (fn == "schema.ExcludeRealm" || fn == "schema.ExcludeSchema") && len(p.Args) == 2 && p.Args[1] == ast.Expr(x):
										role = "post-filter"
										if len(stack) > 1 {
											if rs, ok := stack[len(stack)-2].(*ast.ReturnStmt); ok && ast.Stmt(rs) == last && len(rs.Results) == 1 {
												role = "post-filter-final-return"
											}
										}
									case fn == "modeSchemaOrAll":
										role = "mode-shortcut"
									case fn == "addFlagExclude":
										role = "flag-target"
									case fn == "len":
										role = "len"
									case fn == "strings.Join" || fn == "joinCSV":
										role = "join"
									}
								}
							}
							sites = append(sites, exSite{rel, fd.Name.Name, role})
						}
					}
					stack = append(stack, n)
					return true
				})
			}
		}
	}
	if len(flagFuncs) == 0 || len(readers) == 0 || len(sites) == 0 {
		return fmt.Errorf("exclude census found nothing (flag=%d readers=%d sites=%d)", len(flagFuncs), len(readers), len(sites))
	}
	q := func(s string) string { return `"` + strings.ReplaceAll(s, `"`, `""`) + `"` }
	var a, b, c []string
	for _, f := range flagFuncs {
		a = append(a, q(f))
	}
	for _, r := range readers {
		b = append(b, "("+q(r[0])+", "+q(r[1])+")")
	}
	for _, s := range sites {
		c = append(c, "("+q(s.file)+", "+q(s.fn)+", "+q(s.role)+")")
	}
	content := "(* GENERATED by `h_glob -mode gen` (harness/cmd/glob/gensites.go) from the Go sources of $VERIF_REPO\n" +
		"   (non-test files of the OSS build of " + strings.Join(excludeSiteDirs, ", ") + ").  Do not edit. *)\n" +
		"From Coq Require Import List String.\nImport ListNotations.\nOpen Scope string_scope.\n\n" +
		"(* functions that call addFlagExclude, in source order *)\n" +
		"Definition gen_exclude_flag_funcs : list string :=\n  [" + strings.Join(a, "; ") + "].\n\n" +
		"(* every composite literal stateReaderConfig{...} of cmdapi: (enclosing function, text of its exclude: value or \"-\") *)\n" +
		"Definition gen_state_readers : list (string * string) :=\n  [" + strings.Join(b, ";\n   ") + "].\n\n" +
		"(* every selector expression X.Exclude: (file, enclosing function, role) *)\n" +
		"Definition gen_exclude_sites : list (string * string * string) :=\n  [" + strings.Join(c, ";\n   ") + "].\n"
	path := filepath.Join(dir, "Gen_ExcludeSites.v")
	if old, err := os.ReadFile(path); err == nil && string(old) == content {
		return nil
	}
	return os.WriteFile(path, []byte(content), 0o644)
}
