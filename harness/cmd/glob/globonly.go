package main

// ---- names that only a real glob tells apart (round 4).
//
// The exclude semantics is filepath.Match on the exact names.  An implementation that answers table-level
// patterns with SQL LIKE ('*' -> '%', '?' -> '_': then '_' and '%' in a pattern are wildcards and the match is
// case-insensitive), with a regular expression, a prefix test or a case-folded comparison agrees with it on
// names like t1, t2, users -- and differs on the names below:
//   - pairs that differ exactly at an underscore position: users / user_sessions / userXsessions, logs / log_1 / logX1,
//     a_b / aXb, columns user_id / userXid, indexes idx_a / idxXa;
//   - a name in another letter case than the pattern: table Audit, column Name (patterns audit, AUDIT, name, USERS, ...);
//   - names holding %, _, [, ], \, * literally: a%b, a_b, a*b, t[1], a\b (and their neighbours aXb, axyb, t1);
//   - patterns with '?' next to the same pattern with '_'.
// Used by the exclude stage (pure ExcludeRealm/ExcludeSchema, tied to the model), the inspect stage (real SQLite
// driver) and the cli stage (real binary); the oracle is the scope rule with the reference glob matcher.

// the tables of the SQLite database / of schema "main" of the pure realm
func globOnlyTables() cState {
	one := func(n string) cTab { return cTab{n, [][2]string{{"id", "integer"}}, "", nil} }
	return cState{
		{"users", [][2]string{{"id", "integer"}, {"user_id", "integer"}, {"userXid", "integer"}, {"Name", "text"}}, "id",
			[]cIdx{{"idx_a", "user_id"}, {"idxXa", "userXid"}}},
		{"user_sessions", [][2]string{{"id", "integer"}, {"users", "integer"}}, "", nil},
		one("userXsessions"),
		one("logs"), one("log_1"), one("logX1"),
		one("Audit"),
		one("a%b"), one("a_b"), one("aXb"), one("a*b"), one("axyb"),
		one("t[1]"), one("t1"),
		one(`a\b`),
	}
}

// table-level patterns
var globOnlyTablePats = []string{
	"user_*", "user?*", "users", "user_", "user?", "user_sessions", "user?sessions", "user*", "User*", "USERS", "Users",
	"log_*", "log?", "log_?", "logs", "LOGS", "log_1", "log?1",
	"audit", "AUDIT", "Audit", "[Aa]udit", "?udit", "a*",
	"a%b", "a_b", "a?b", "a*b", `a\*b`, "a[*]b", `a\%b`, "%", "_", "a%", "%b", "a__b", "a??b",
	"t[1]", `t\[1\]`, "t[[]1]", "t?1?", "t1",
	`a\\b`, `a\b`, `a[\\]b`,
	"*_*", "*%*", "*[*]*", `*\**`, "????", "*s", "[a-l]*", "[^a-l]*", "*X*", "*x*",
}

// child-level patterns (columns and indexes of table users)
var globOnlyChildPats = []string{
	"user_id", "user?id", "user_*", "USER_ID", "name", "Name", "NAME", "?ame", "id", "ID", "i?", "i_",
	"idx_a", "idx?a", "idx_*", "IDX*", "idx*", "*_*", "*X*", "*[type=index]", "*_*[type=column]", "idx_a[type=column]",
}

// whole-schema patterns at realm scope
var globOnlySchemaPats = []string{
	"main", "m*", "*", "M*", "MAIN", "Main", "ma_n", "mai?", "ma?n", "main[type=schema]", "main[type=table]", "????", "[m]ain", "%", "ma%",
}

// globOnlyFamily: the database and the exclude lists of the inspect stage.  Every list is used at both scopes
// (InspectSchema: first component = table; InspectRealm: first component = schema).
func globOnlyFamily() (cState, [][]string) {
	var lists [][]string
	for _, p := range globOnlyTablePats {
		lists = append(lists, []string{p}, []string{"main." + p}, []string{p + "[type=table]"}, []string{"*." + p})
	}
	for _, p := range globOnlyChildPats {
		lists = append(lists, []string{"users." + p}, []string{"main.users." + p}, []string{"*." + p}, []string{"USERS." + p}, []string{"user?." + p})
	}
	for _, p := range globOnlySchemaPats {
		lists = append(lists, []string{p}, []string{p + ".users"}, []string{p + ".user_*"}, []string{p + ".*"})
	}
	lists = append(lists, []string{"user_*", "log_*"}, []string{"audit", "a_b"}, []string{"main.user_*", "main.audit"},
		[]string{"users.user_id", "log?"}, []string{"MAIN", "users"})
	return globOnlyTables(), lists
}

// the pure realm of the exclude stage: schema main with the tables above, and schemas that differ from "main" in
// case / at one position only
func globOnlyRealm() []mSchema {
	var ts []mTable
	for _, t := range globOnlyTables() {
		mt := mTable{name: t.name}
		for _, c := range t.cols {
			mt.cols = append(mt.cols, c[0])
		}
		if t.pk != "" {
			mt.pk = []string{t.pk}
		}
		for _, i := range t.idx {
			mt.idx = append(mt.idx, mIdx{i.name, []string{i.col}})
		}
		ts = append(ts, mt)
	}
	ts[0].fks = []mFk{{"fk_u", []string{"user_id"}}, {"fkXu", []string{"userXid"}}}
	ts[0].checks = []string{"ck_1", "ckX1", "Ck"}
	return []mSchema{
		{"main", ts},
		{"Main", []mTable{{"users", []string{"id"}, nil, nil, nil, nil}}},
		{"maXn", []mTable{{"users", []string{"id"}, nil, nil, nil, nil}, {"Users", []string{"id"}, nil, nil, nil, nil}}},
	}
}
