package main

import "unicode/utf8"

// Reference semantics of a glob pattern, written from the documentation of
// path/filepath.Match (the grammar in its doc comment), not from its code:
//
//	pattern: { term }
//	term:    '*' | '?' | '[' [ '^' ] { character-range } ']' | c | '\\' c
//	character-range: c | '\\' c | lo '-' hi        (c != '\\', '-', ']')
//
// '*' matches any sequence of non-'/' characters, '?' any single non-'/'
// character, a class one character in (or, with '^', not in) its ranges, c itself.
// Characters are runes; the reference is only applied to valid UTF-8.
type term struct {
	kind byte // '*', '?', 'c', '['
	c    rune
	neg  bool
	rs   [][2]rune
}

// refParse returns the terms, or ok=false when the pattern is malformed.
func refParse(p string) (ts []term, ok bool) {
	rs := []rune(p)
	i := 0
	char := func() (rune, bool) { // one (possibly escaped) class character
		if i >= len(rs) || rs[i] == '-' || rs[i] == ']' {
			return 0, false
		}
		if rs[i] == '\\' {
			i++
			if i >= len(rs) {
				return 0, false
			}
		}
		c := rs[i]
		i++
		return c, true
	}
	for i < len(rs) {
		switch rs[i] {
		case '*':
			ts = append(ts, term{kind: '*'})
			i++
		case '?':
			ts = append(ts, term{kind: '?'})
			i++
		case '\\':
			if i+1 >= len(rs) {
				return nil, false
			}
			ts = append(ts, term{kind: 'c', c: rs[i+1]})
			i += 2
		case '[':
			i++
			t := term{kind: '['}
			if i < len(rs) && rs[i] == '^' {
				t.neg = true
				i++
			}
			for {
				if i < len(rs) && rs[i] == ']' && len(t.rs) > 0 {
					i++
					break
				}
				lo, ok := char()
				if !ok {
					return nil, false
				}
				hi := lo
				if i < len(rs) && rs[i] == '-' {
					i++
					if hi, ok = char(); !ok {
						return nil, false
					}
				}
				t.rs = append(t.rs, [2]rune{lo, hi})
				if i >= len(rs) {
					return nil, false // unterminated class
				}
			}
			ts = append(ts, t)
		default:
			ts = append(ts, term{kind: 'c', c: rs[i]})
			i++
		}
	}
	return ts, true
}

func refMatchTerms(ts []term, name []rune) bool {
	if len(ts) == 0 {
		return len(name) == 0
	}
	t := ts[0]
	switch t.kind {
	case '*':
		for k := 0; ; k++ {
			if refMatchTerms(ts[1:], name[k:]) {
				return true
			}
			if k >= len(name) || name[k] == '/' {
				return false
			}
		}
	case '?':
		return len(name) > 0 && name[0] != '/' && refMatchTerms(ts[1:], name[1:])
	case 'c':
		return len(name) > 0 && name[0] == t.c && refMatchTerms(ts[1:], name[1:])
	default:
		if len(name) == 0 {
			return false
		}
		in := false
		for _, r := range t.rs {
			if r[0] <= name[0] && name[0] <= r[1] {
				in = true
			}
		}
		return in != t.neg && refMatchTerms(ts[1:], name[1:])
	}
}

// refGlob: wellFormed, and (when well formed) whether the pattern matches the name.
// applicable=false when either string is not valid UTF-8 (no reference verdict).
func refGlob(pattern, name string) (applicable, wellFormed, matches bool) {
	if !utf8.ValidString(pattern) || !utf8.ValidString(name) {
		return false, false, false
	}
	ts, ok := refParse(pattern)
	if !ok {
		return true, false, false
	}
	return true, true, refMatchTerms(ts, []rune(name))
}
