package main

import (
	"fmt"
	"os"
	"path/filepath"
	"sort"
	"strings"
	"sync"

	"verifharness/internal/clirun"
	"verifharness/internal/out"
)

// ---- policy stage (round 3, oracle only): the diff policy objects of cmdapi (project file: diff { skip { ... } }
// at project level and per env; Diff.Extend shares the project's SkipChanges object with every env that has no
// skip block of its own) are loaded once and the option values they yield (diffOptions(cmd, env), i.e.
// Diff.Options() + DiffNormalized) are kept and passed to a sequence of SchemaDiff calls: hidden command
// `atlas verif-diffopts` (hook cmd/atlas/internal/cmdapi/verif_diffopts.go, build tag verif).
//
// Oracle per step: the change set holds no kind that the policies of the step's environments skip, at any level,
// and equals the unfiltered change set (step "-") minus exactly those kinds; "env!" (options computed again from
// the kept Env) gives what the first computation gave.

type polEnv struct {
	name  string
	place string   // "own": diff{skip{}} in the env; "global": no diff block (inherits the project's); "extend": a diff block without skip; "none": project has no policy and neither has the env
	skip  []string // spec tags, e.g. drop_table
}

var tagKind = map[string]string{
	"add_table": "AddTable", "drop_table": "DropTable", "modify_table": "ModifyTable",
	"add_column": "AddColumn", "drop_column": "DropColumn", "modify_column": "ModifyColumn",
	"add_index": "AddIndex", "drop_index": "DropIndex", "modify_index": "ModifyIndex",
	"add_foreign_key": "AddForeignKey", "drop_foreign_key": "DropForeignKey", "modify_foreign_key": "ModifyForeignKey",
	"drop_schema": "DropSchema", "rename_table": "RenameTable", "add_view": "AddView",
}

// parse the canonical text of the hook: Kind:name{Kind:name,...};Kind:name
func parsePol(s string) []cch {
	if s == "[]" || s == "" {
		return nil
	}
	var res []cch
	depth, start := 0, 0
	var parts []string
	for i, r := range s {
		switch r {
		case '{':
			depth++
		case '}':
			depth--
		case ';':
			if depth == 0 {
				parts = append(parts, s[start:i])
				start = i + 1
			}
		}
	}
	parts = append(parts, s[start:])
	for _, p := range parts {
		c := cch{}
		head, body := p, ""
		if i := strings.Index(p, "{"); i >= 0 {
			head, body = p[:i], strings.TrimSuffix(p[i+1:], "}")
		}
		c.kind = strings.SplitN(head, ":", 2)[0]
		c.text = head
		if body != "" {
			for _, b := range strings.Split(body, ",") {
				c.subs = append(c.subs, cch{kind: strings.SplitN(b, ":", 2)[0], text: b})
			}
		}
		res = append(res, c)
	}
	return res
}

func polHCL(s cState, intType string) string {
	h := s.hcl()
	return strings.ReplaceAll(h, "type = integer", "type = "+intType)
}

type polCase struct {
	global   []string // project-level skip tags (nil: no project-level diff block)
	envs     []polEnv
	seq      []string
	from, to cState
}

func runPolicyCase(w *out.W, mu *sync.Mutex, id string, c polCase) {
	dir, err := os.MkdirTemp("", "c19pol")
	if err != nil {
		panic(err)
	}
	defer os.RemoveAll(dir)
	skipBlock := func(tags []string, ind string) string {
		var l []string
		for _, t := range tags {
			l = append(l, ind+"    "+t+" = true")
		}
		return ind + "diff {\n" + ind + "  skip {\n" + strings.Join(l, "\n") + "\n" + ind + "  }\n" + ind + "}\n"
	}
	var b strings.Builder
	if c.global != nil {
		b.WriteString(skipBlock(c.global, ""))
	}
	eff := map[string][]string{}
	for _, e := range c.envs {
		fmt.Fprintf(&b, "env %q {\n  url = \"sqlite://unused.db\"\n", e.name)
		switch e.place {
		case "own":
			b.WriteString(skipBlock(e.skip, "  "))
			eff[e.name] = e.skip
		case "extend":
			b.WriteString("  diff {\n    concurrent_index {\n      create = true\n    }\n  }\n")
			eff[e.name] = c.global
		default:
			eff[e.name] = c.global
		}
		b.WriteString("}\n")
	}
	os.WriteFile(filepath.Join(dir, "atlas.hcl"), []byte(b.String()), 0o644)
	var viol [][2]string
	var desc []string
	nontriv := false
	for _, dialect := range []string{"sqlite", "mysql", "postgres"} {
		it := "int"
		os.WriteFile(filepath.Join(dir, "from.hcl"), []byte(polHCL(c.from, it)), 0o644)
		os.WriteFile(filepath.Join(dir, "to.hcl"), []byte(polHCL(c.to, it)), 0o644)
		r := clirun.Run(dir, nil, "verif-diffopts", "-c", "file://atlas.hcl", "--dialect", dialect, "--from", "from.hcl", "--to", "to.hcl", "--seq", "-;"+strings.Join(c.seq, ";")+";-")
		lines := strings.Split(strings.TrimSpace(r.Stdout), "\n")
		if r.Exit != 0 || len(lines) != len(c.seq)+2 {
			viol = append(viol, [2]string{"policy-hook-failed", fmt.Sprintf("%s: exit %d, %d lines for %d steps: %s", dialect, r.Exit, len(lines), len(c.seq)+2, strings.TrimSpace(r.Stderr))})
			continue
		}
		// the unfiltered change set before and after the sequence: nothing of the policies stays in the differ
		if last := lines[len(lines)-1]; last != lines[0] {
			viol = append(viol, [2]string{"policy-state-leaks", fmt.Sprintf("%s: a diff without policy gives %s after the sequence %v; before it gave %s", dialect, last, c.seq, lines[0])})
		}
		lines = lines[:len(lines)-1]
		all := parsePol(lines[0])
		first := map[string]string{}
		for i, step := range c.seq {
			got := parsePol(lines[i+1])
			K := map[string]bool{}
			var names []string
			for _, n := range strings.Split(step, "+") {
				n = strings.TrimSuffix(n, "!")
				for _, t := range eff[n] {
					if k := tagKind[t]; k != "" && !K[k] {
						K[k] = true
						names = append(names, k)
					}
				}
			}
			sort.Strings(names)
			where := fmt.Sprintf("%s: step %d %q of %v (skipped kinds %v)", dialect, i+1, step, c.seq, names)
			if lines[i+1] == "err" || lines[0] == "err" {
				if lines[i+1] != lines[0] {
					viol = append(viol, [2]string{"skip-error-differs", where + ": error with the policy only or without only"})
				}
				continue
			}
			if t, ok := occursKind(got, K); ok {
				viol = append(viol, [2]string{"policy-skip-kind-present", fmt.Sprintf("%s: the change set holds %s: %s", where, t, lines[i+1])})
			}
			if ref := showC(refRemove(all, K)); ref != showC(got) {
				viol = append(viol, [2]string{"policy-skip-not-exact", fmt.Sprintf("%s: got %s, the unfiltered change set minus the skipped kinds is %s", where, showC(got), ref)})
			}
			key := strings.ReplaceAll(step, "!", "")
			if prev, ok := first[key]; ok && prev != lines[i+1] {
				viol = append(viol, [2]string{"policy-reuse-differs", fmt.Sprintf("%s: got %s, the first step with these environments gave %s", where, lines[i+1], prev)})
			} else if !ok {
				first[key] = lines[i+1]
			}
			if lines[i+1] != lines[0] {
				nontriv = true
			}
		}
		desc = append(desc, dialect+": "+strings.Join(lines, " | "))
	}
	mu.Lock()
	defer mu.Unlock()
	w.ImplOnly(id, fmt.Sprintf("global=%v envs=%v seq=%v => %s", c.global, c.envs, c.seq, strings.Join(desc, " || ")))
	w.Count("policy:cases")
	if nontriv {
		w.NonTrivial(fmt.Sprint(c.global, c.envs, c.seq, names(c.from), names(c.to)))
	}
	seen := map[string]bool{}
	for _, v := range viol {
		if !seen[v[0]+v[1]] {
			seen[v[0]+v[1]] = true
			w.Violation(id, v[0], fmt.Sprintf("global=%v envs=%v: %s", c.global, c.envs, v[1]))
		}
	}
}

func runPolicy(w *out.W, tier string) {
	w.Rule = "non-trivial = a step whose policy removed at least one change; keyed by (project policy, envs, sequence, schemas)"
	if _, err := os.Stat(clirun.Bin()); err != nil {
		fmt.Fprintln(os.Stderr, "atlas binary not found:", clirun.Bin())
		os.Exit(1)
	}
	// the hook is an add-only file of the atlas tree (notes/hooks/verif_diffopts.go -> cmd/atlas/internal/cmdapi/);
	// a binary built from a tree that does not have it yet cannot run this stage: said loudly, no case counted
	if r := clirun.Run(os.TempDir(), nil, "verif-diffopts", "--help"); r.Exit != 0 {
		w.Set("policy_hook", "MISSING in "+clirun.Bin()+": stage not run (cmd/atlas/internal/cmdapi/verif_diffopts.go is not in the tree the CLI was built from)")
		fmt.Fprintln(os.Stderr, "policy stage: hook command verif-diffopts missing in", clirun.Bin(), "- stage skipped")
		// one placeholder record: lib/verif.py reads stats.samples of every stage (null crashes it)
		w.ImplOnly("p0", "policy stage NOT RUN: hook command verif-diffopts missing in the CLI under test")
		w.Count("policy:skipped-hook-missing")
		return
	}
	w.Set("policy_hook", "present")
	t1 := cTab{"t1", [][2]string{{"c1", "integer"}, {"c2", "text"}, {"c3", "integer"}}, "c1", []cIdx{{"i1", "c2"}, {"i2", "c3"}}}
	t2 := cTab{"t2", [][2]string{{"c1", "integer"}, {"c2", "text"}}, "", []cIdx{{"j1", "c2"}}}
	t3 := cTab{"t3", [][2]string{{"c1", "integer"}}, "", nil}
	t4 := cTab{"t4", [][2]string{{"c1", "integer"}}, "", []cIdx{{"k1", "c1"}}}
	mod := func(t cTab, f func(*cTab)) cTab {
		n := cTab{t.name, append([][2]string{}, t.cols...), t.pk, append([]cIdx{}, t.idx...)}
		f(&n)
		return n
	}
	from := cState{t1, t2, t3}
	// drop t3, add t4, t1: modify c2, drop c3 + i2, add c4 + i3(c4); t2: drop j1
	to := cState{mod(t1, func(t *cTab) {
		t.cols[1][1] = "integer"
		t.cols = append(t.cols[:2], [2]string{"c4", "text"})
		t.idx = []cIdx{{"i1", "c2"}, {"i3", "c4"}}
	}), mod(t2, func(t *cTab) { t.idx = nil }), t4}
	sets := [][]string{
		{"drop_table"}, {"drop_column"}, {"drop_index"}, {"add_table"}, {"add_column"}, {"add_index"}, {"modify_column"}, {"modify_table"},
		{"drop_schema", "drop_table", "drop_column", "drop_index", "drop_foreign_key"}, {"add_column", "drop_column"}, {"rename_table", "add_view"},
	}
	// a: own skip block; b: no diff block (shares the project's policy object); c: diff block without skip (Extend);
	// steps: each env alone, overlapping/disjoint combinations in both orders, the same values twice, options computed again
	seq := []string{"a", "a+b", "b", "a", "b+a", "c", "a!", "a+a", "b!", "c+a", "b", "a"}
	var cases []polCase
	for _, ga := range sets {
		for _, ea := range sets {
			cases = append(cases, polCase{ga, []polEnv{{"a", "own", ea}, {"b", "global", nil}, {"c", "extend", nil}}, seq, from, to})
		}
	}
	// no project-level policy: b and c have none at all
	for _, ea := range sets {
		cases = append(cases, polCase{nil, []polEnv{{"a", "own", ea}, {"b", "none", nil}, {"c", "extend", nil}}, seq, from, to},
			polCase{nil, []polEnv{{"a", "own", ea}, {"b", "none", nil}, {"c", "extend", nil}}, seq, to, from})
	}
	w.Exhaust = true
	w.Set("exhaustive_bound", fmt.Sprintf("%d skip sets at project level x %d in env a (env b shares the project's policy object, env c extends it), a sequence of %d diffs per case and dialect that reuses the kept option values; 3 dialects; real CLI binary with the verif hook", len(sets), len(sets), len(seq)))
	var mu sync.Mutex
	var jobs []func()
	for i, c := range cases {
		i, c := i, c
		jobs = append(jobs, func() { runPolicyCase(w, &mu, fmt.Sprintf("p%d", i+1), c) })
	}
	clirun.Parallel(16, jobs)
}
