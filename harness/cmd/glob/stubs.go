package main

import "verifharness/internal/out"

func runExclude(w *out.W, tier string) {}
func runSkip(w *out.W, tier string)    {}
func genSkipKinds(dir string) error    { return nil }
