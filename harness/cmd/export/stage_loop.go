package main

// Stage "loop": the property oracle on the real engine, in process.

import (
	"fmt"
	"strings"
	"sync"

	"ariga.io/atlas/sql/schema"

	"verifharness/internal/out"
	"verifharness/internal/rng"
)

type loopCase struct {
	id        string
	how       string // hand | atlas
	ast       *hSchema
	script    string
	res       *loopResult
	truth     []viol
	prepErr   error
	styleSeed uint64
	history   string // what happens between creation and inspection (engine.go: histories)
	internal  []string
	cause     map[string]string
	noAttr    bool
	// dangling references (dangling.go)
	dang *dangling
	full *hSchema // the schema with an intact parent
	pre  *hSchema // what is created before post runs (nil: ast)
	post []string
}

func (c *loopCase) run() {
	db0 := freshDB()
	defer db0.Close()
	c.res = &loopResult{}
	switch c.how {
	case "hand":
		if c.res.createErr = execScript(db0, c.script); c.res.createErr != nil {
			return
		}
	case "atlas":
		src := c.ast
		if c.pre != nil {
			src = c.pre
		}
		s, err := astToSchema(src)
		if err != nil {
			c.prepErr = err
			c.res.createErr = err
			return
		}
		if c.res.createErr = applySchema(db0, s); c.res.createErr != nil {
			return
		}
	}
	for _, p := range c.post {
		if _, err := db0.Exec(p); err != nil {
			c.res.createErr = fmt.Errorf("history %q: %w", p, err)
			return
		}
	}
	// history: export before, let the engine do its bookkeeping, export after
	var hclBefore []byte
	var sqlBefore string
	if c.history != "" && c.history != "fresh" {
		if s0, drv, err := inspectDB(db0); err == nil {
			hclBefore, _ = hclExport(s0)
			s0b, _, _ := inspectDB(db0)
			sqlBefore, _, _ = sqlExport(drv, s0b, "")
		}
		c.internal = applyHistory(db0, c.history)
	}
	loopOnDB(db0, c.res)
	if hclBefore != nil && c.res.inspectErr == nil {
		if c.res.hclMarshalErr == nil && string(hclBefore) != string(c.res.hcl) {
			c.res.historyMsg = "HCL export differs before / after " + c.history
		} else if c.res.sqlPlanErr == nil && sqlBefore != "" && sqlBefore != c.res.sql {
			c.res.historyMsg = "SQL export differs before / after " + c.history
		}
	}
	if c.res.inspectErr == nil && c.ast != nil {
		var s0 *schema.Schema
		s0, _, err := inspectDB(db0)
		if err == nil {
			c.truth = truthCheck(c.ast, s0, c.how)
		}
	}
	if c.ast != nil && !c.noAttr {
		seen := map[string]bool{}
		var syms []string
		for _, v := range append(c.res.verdict(), c.truth...) {
			if !seen[v.class] {
				seen[v.class] = true
				syms = append(syms, v.class)
			}
		}
		if len(syms) > 0 {
			c.cause = c.attribute(syms)
		}
	}
}

func short(s string, n int) string {
	s = strings.ReplaceAll(strings.ReplaceAll(s, "\n", "\\n"), "\t", "\\t")
	if len(s) > n {
		return s[:n] + "…"
	}
	return s
}

func runCases(w *out.W, cases []*loopCase) {
	var wg sync.WaitGroup
	sem := make(chan struct{}, 12)
	for _, c := range cases {
		wg.Add(1)
		sem <- struct{}{}
		go func(c *loopCase) {
			defer wg.Done()
			defer func() { <-sem }()
			c.run()
		}(c)
	}
	wg.Wait()
	nUnbound := 0
	for _, c := range cases {
		tags := ""
		if c.ast != nil {
			tags = c.ast.tags()
			for k := range c.ast.Tags {
				w.Count("tag:" + k)
			}
		}
		w.Count("how:" + c.how)
		w.Count("history:" + c.history)
		for _, n := range c.internal {
			w.Count("engine-table:" + n)
		}
		if c.res.createErr != nil {
			w.Count("engine-reject")
			if c.dang != nil {
				w.Count("dangling-reject:" + errStr(c.res.createErr))
			}
			w.ImplOnly(c.id, "engine-reject "+short(c.fullScript(), 200)+" :: "+errStr(c.res.createErr))
			continue
		}
		vs := append(c.res.verdict(), c.truth...)
		if c.res.inspectErr == nil && c.res.rawErr == nil && c.res.sqlPlanErr == nil {
			cl, ob := dumpTie(c.res.rawTables, c.res.created)
			w.Case(c.id, cl, []string{ob})
		} else {
			w.ImplOnly(c.id, fmt.Sprintf("%s tables=%d viol=%d %s", c.how, c.res.nTables, len(vs), short(c.script, 300)))
		}
		if c.res.scriptCase != "" {
			w.Case(c.id+"s", c.res.scriptCase, []string{c.res.scriptObs})
			if strings.HasSuffix(c.res.scriptObs, "exec=clash") {
				w.Count("script:clash")
			}
		}
		if c.res.unboundCase != "" && nUnbound < 40 {
			nUnbound++
			w.Case(c.id+"u", c.res.unboundCase, []string{c.res.unboundObs})
		}
		w.NonTrivial(c.how + "|" + c.history + "|" + tags)
		seen := map[string]bool{}
		var syms []string
		for _, v := range vs {
			if !seen[v.class] {
				seen[v.class] = true
				syms = append(syms, v.class)
			}
		}
		cause := c.cause
		seen = map[string]bool{}
		for _, v := range vs {
			if seen[v.class] {
				continue
			}
			seen[v.class] = true
			cz := cause[v.class]
			if cz == "" {
				cz = "corpus"
			}
			w.Count("viol:" + cz + "/" + v.class)
			w.Violation(c.id, cz, fmt.Sprintf("symptom=%s how=%s history=%s %s ;; sql=%s", v.class, c.how, c.history, short(v.msg, 500), short(c.fullScript(), 700)))
		}
	}
}

func runLoop(w *out.W, tier string) {
	w.Rule = "a case is non-trivial when SQLite accepted the schema (>= 1 table created); distinct by (creation path, feature-tag set)"
	n := 300
	if tier == "thorough" {
		n = 5000
	}
	var cases []*loopCase
	// fixed corpus of statement shapes first
	for i, sc := range corpusScripts {
		cases = append(cases, &loopCase{id: fmt.Sprintf("corpus%03d", i), how: "hand", script: sc})
	}
	seed := uint64(rng.Seed())
	for i := 0; i < n; i++ {
		r := rng.New(seed*0x9E3779B97F4A7C15 ^ uint64(i)*0xD1B54A32D192ED03 ^ 0xC03)
		o := genOpts{nameLevel: i % 4}
		how := "hand"
		if i%3 == 2 {
			how = "atlas"
			o.atlasSafe = true
			if o.nameLevel > 2 {
				o.nameLevel = 2
			}
		} else {
			o.wild = i%6 == 3
		}
		hist := histories[(i/2)%len(histories)]
		a := genSchemaAST(r, o)
		if hist == "autoinc-rows-analyze" {
			for try := 0; try < 40 && !a.Tags["autoinc"]; try++ {
				a = genSchemaAST(r, o)
			}
		}
		c := &loopCase{id: fmt.Sprintf("g%05d", i), how: how, ast: a, history: hist}
		c.styleSeed = r.U64()
		st := newStyle(rng.New(c.styleSeed), a)
		c.script = strings.Join(st.script(a), ";\n") + ";"
		if how == "atlas" {
			// the style tags do not apply to the planner's own text
			for k := range a.Tags {
				if strings.HasPrefix(k, "style-") || strings.HasPrefix(k, "ident-") {
					delete(a.Tags, k)
				}
			}
		}
		cases = append(cases, c)
	}
	// dangling references: {parent dropped, parent never existed, referenced column dropped} x {named, unnamed} x {1, 2 children}
	nd := 3
	if tier == "thorough" {
		nd = 25
	}
	for v := 0; v < nd; v++ {
		for gi, d := range danglingGrid() {
			r := rng.New(seed*0x9E3779B97F4A7C15 ^ uint64(v*100+gi)*0xD1B54A32D192ED03 ^ 0xDA)
			how := "hand"
			if (v+gi)%3 == 2 {
				how = "atlas"
			}
			cases = append(cases, newDanglingCase(fmt.Sprintf("d%02d_%02d", v, gi), how, r, d, v))
		}
	}
	runCases(w, cases)
}
