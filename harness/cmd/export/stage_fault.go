package main

// Stage "fault": a disturbed inspection must fail, not export less.
//
// `schema inspect` reads the catalogue with a sequence of statements (schemas, tables + CREATE text,
// pragma_table_xinfo, index list, index info per index, foreign keys).  For every database of the
// stage and every statement of the undisturbed inspection, the inspection is repeated with exactly
// that statement failing ("database is locked").  Contract: the inspection reports an error (the
// CLI exits non-zero) - or its exports are byte-identical to the undisturbed ones.  A fallback that
// swallows the error exports a database that silently lacks columns, indexes or keys.
//
//   in process: an ExecQuerier around the *sql.DB handed to sqlite.Open fails the k-th statement;
//               observation (tied to the model of Sqlite/ExportFault.v): number of reads, outcome per k
//   CLI       : $ATLAS_BIN with the URL scheme sqlitefault:// (cmd/atlas/verif_sqlfault.go),
//               VERIF_SQL_LOG for the statement list, VERIF_SQL_FAULT='.@k' for the k-th statement;
//               HCL (default output), {{ sql . }} and {{ json . }}.

import (
	"context"
	"database/sql"
	"errors"
	"fmt"
	"os"
	"path/filepath"
	"strings"
	"sync"

	"ariga.io/atlas/sql/sqlite"

	"verifharness/internal/clirun"
	"verifharness/internal/out"
	"verifharness/internal/rng"
)

// faultScripts: generated columns (VIRTUAL and STORED, unindexed), partial / expression indexes,
// foreign keys, AUTOINCREMENT, WITHOUT ROWID, STRICT, inline UNIQUE (autoindex), composite keys.
var faultScripts = []string{
	"CREATE TABLE t (a int, v int GENERATED ALWAYS AS (a * 2) VIRTUAL, s int AS (a + 1) STORED, b text);",
	"CREATE TABLE t (a int, b int, c text); CREATE INDEX ip ON t (a) WHERE b > 0; CREATE INDEX ie ON t ((a + b), c DESC); CREATE UNIQUE INDEX iu ON t (c);",
	"CREATE TABLE p (id integer PRIMARY KEY, code text NOT NULL UNIQUE); CREATE TABLE c (n int, pid int, pc text, CONSTRAINT fk_a FOREIGN KEY (pid) REFERENCES p (id) ON DELETE CASCADE, FOREIGN KEY (pc) REFERENCES p (code)); CREATE INDEX ic ON c (pid);",
	"CREATE TABLE t (id integer PRIMARY KEY AUTOINCREMENT, a int NOT NULL DEFAULT 5, g int AS (a + id) VIRTUAL, CONSTRAINT ck CHECK (a > 0)); INSERT INTO t (a) VALUES (1);",
	"CREATE TABLE w (a int, b text, v text AS (b || 'x') STORED, PRIMARY KEY (b, a)) WITHOUT ROWID; CREATE TABLE s (a int, b text) STRICT; CREATE INDEX iw ON w (v) WHERE a IS NOT NULL;",
	"CREATE TABLE n (id integer PRIMARY KEY, up int REFERENCES n (id), u int UNIQUE, v int GENERATED ALWAYS AS (u + 1) VIRTUAL); CREATE TABLE m (x int, CONSTRAINT fk_n FOREIGN KEY (x) REFERENCES n (id)); CREATE INDEX im ON m (x DESC) WHERE x > 1;",
}

// faultEQ hands the statements to the database and fails the failAt-th one (1-based; 0 = none).
type faultEQ struct {
	db     *sql.DB
	mu     sync.Mutex
	n      int
	failAt int
	log    []string
	// lock mode: instead of an injected error, a second connection holds the database exclusively
	// from the failAt-th statement until the next one (what "database is locked" is in reality:
	// go-sqlite3 reports it from rows.Next(), not from QueryContext)
	locker *sql.DB
	locked bool
}

func (f *faultEQ) unlock() {
	if f.locked {
		f.locker.Exec("ROLLBACK")
		f.locked = false
	}
}

var errLocked = errors.New("database is locked")

func (f *faultEQ) hit(q string) bool {
	f.mu.Lock()
	defer f.mu.Unlock()
	f.n++
	f.log = append(f.log, strings.Join(strings.Fields(q), " "))
	if f.locker != nil {
		f.unlock()
		if f.n == f.failAt {
			if _, err := f.locker.Exec("BEGIN EXCLUSIVE"); err == nil {
				f.locked = true
			}
		}
		return false
	}
	return f.n == f.failAt
}

func (f *faultEQ) QueryContext(ctx context.Context, q string, args ...any) (*sql.Rows, error) {
	if f.hit(q) {
		return nil, errLocked
	}
	return f.db.QueryContext(ctx, q, args...)
}

func (f *faultEQ) ExecContext(ctx context.Context, q string, args ...any) (sql.Result, error) {
	if f.hit(q) {
		return nil, errLocked
	}
	return f.db.ExecContext(ctx, q, args...)
}

// inspectFaulty = InspectSchema through the wrapper + both exports.
func inspectFaulty(db *sql.DB, failAt int) (hcl, sqlText string, reads int, log []string, err error) {
	return inspectFaultyL(db, nil, failAt)
}

func inspectFaultyL(db, locker *sql.DB, failAt int) (hcl, sqlText string, reads int, log []string, err error) {
	eq := &faultEQ{db: db, failAt: failAt, locker: locker}
	defer eq.unlock()
	drv, err := sqlite.Open(eq)
	if err != nil {
		return "", "", eq.n, eq.log, err
	}
	s, err := drv.InspectSchema(context.Background(), "main", nil)
	if err != nil {
		return "", "", eq.n, eq.log, err
	}
	h, herr := hclExport(s)
	if herr != nil {
		h = []byte("marshal error: " + herr.Error())
	}
	q, _, qerr := sqlExport(drv, s, "")
	if qerr != nil {
		q = "plan error: " + qerr.Error()
	}
	return string(h), q, eq.n, eq.log, nil
}

type faultCase struct {
	id, script string
	post       []string
	createErr  error
	baseErr    error
	reads      int
	idxCounts  []int // per inspected table: number of index-info statements
	kinds      []string
	outcomes   []string // per k: err | same | DIFF
	lockOut    []string // the same with a real lock held during the k-th statement
	diffs      []viol
}

func stmtKind(q string) string {
	switch {
	case strings.Contains(q, "pragma_database_list"), strings.Contains(q, "database_list"):
		return "schemas"
	case strings.Contains(q, "pragma_table_list"):
		return "tables"
	case strings.Contains(q, "pragma_table_xinfo"), strings.Contains(q, "pragma_table_info"):
		return "columns"
	case strings.Contains(q, "pragma_index_list"):
		return "indexes"
	case strings.Contains(q, "pragma_index_xinfo"), strings.Contains(q, "pragma_index_info"):
		return "index-info"
	case strings.Contains(q, "pragma_foreign_key_list"):
		return "fks"
	}
	return "other"
}

func (c *faultCase) run() {
	db := freshDB()
	defer db.Close()
	if c.createErr = execScript(db, c.script); c.createErr != nil {
		return
	}
	for _, p := range c.post {
		if _, err := db.Exec(p); err != nil {
			c.createErr = err
			return
		}
	}
	h0, q0, n, log, err := inspectFaulty(db, 0)
	if err != nil {
		c.baseErr = err
		return
	}
	c.reads = n
	// shape of the statement sequence: per table the number of index-info statements
	cur := -1
	for _, q := range log {
		k := stmtKind(q)
		c.kinds = append(c.kinds, k)
		switch k {
		case "columns":
			c.idxCounts = append(c.idxCounts, 0)
			cur = len(c.idxCounts) - 1
		case "index-info":
			if cur >= 0 {
				c.idxCounts[cur]++
			}
		}
	}
	for k := 1; k <= n; k++ {
		h, q, _, _, err := inspectFaulty(db, k)
		switch {
		case err != nil:
			c.outcomes = append(c.outcomes, "err")
		case h == h0 && q == q0:
			c.outcomes = append(c.outcomes, "same")
		default:
			c.outcomes = append(c.outcomes, "DIFF")
			what := "HCL"
			a, b := h0, h
			if h == h0 {
				what, a, b = "SQL", q0, q
			}
			c.diffs = append(c.diffs, viol{"fault-export-differs", fmt.Sprintf("statement %d of %d (%s: %s) fails with %q: InspectSchema returns no error and the %s export differs: %s", k, n, c.kinds[k-1], short(log[k-1], 120), errLocked, what, short(firstLineDiff(a, b), 260))})
		}
	}
}

// runLocked: the same databases as files; during the k-th statement another connection holds
// the database exclusively (busy_timeout 0).
func (c *faultCase) runLocked(dir string) {
	if c.createErr != nil || c.baseErr != nil {
		return
	}
	os.MkdirAll(dir, 0o755)
	p := filepath.Join(dir, "db0")
	open := func() *sql.DB {
		db, err := sql.Open("sqlite3", "file:"+p+"?_busy_timeout=0&_fk=1")
		if err != nil {
			panic(err)
		}
		db.SetMaxOpenConns(1)
		return db
	}
	db := open()
	defer db.Close()
	if err := execScript(db, c.script); err != nil {
		return
	}
	for _, s := range c.post {
		db.Exec(s)
	}
	locker := open()
	defer locker.Close()
	locker.Exec("SELECT 1")
	h0, q0, n, log, err := inspectFaultyL(db, locker, 0)
	if err != nil {
		return
	}
	for k := 1; k <= n; k++ {
		// a fresh handle per run: an inspection that fails half-way may leave a result set open
		// (addFKs returns without closing its rows), which would pin the only connection
		dbk := open()
		h, q, _, _, err := inspectFaultyL(dbk, locker, k)
		go dbk.Close()
		switch {
		case err != nil:
			c.lockOut = append(c.lockOut, "err")
		case h == h0 && q == q0:
			c.lockOut = append(c.lockOut, "same")
		default:
			c.lockOut = append(c.lockOut, "DIFF")
			what, a, b := "HCL", h0, h
			if h == h0 {
				what, a, b = "SQL", q0, q
			}
			c.diffs = append(c.diffs, viol{"lock-export-differs", fmt.Sprintf("another connection holds the database (BEGIN EXCLUSIVE) during statement %d of %d (%s: %s): InspectSchema returns no error and the %s export differs: %s", k, n, stmtKind(log[k-1]), short(log[k-1], 100), what, short(firstLineDiff(a, b), 260))})
		}
	}
}

func firstLineDiff(a, b string) string {
	la, lb := strings.Split(a, "\n"), strings.Split(b, "\n")
	for i := 0; i < len(la) || i < len(lb); i++ {
		x, y := "", ""
		if i < len(la) {
			x = la[i]
		}
		if i < len(lb) {
			y = lb[i]
		}
		if x != y {
			return fmt.Sprintf("line %d: undisturbed %q, disturbed %q (%d vs %d lines)", i+1, strings.TrimSpace(x), strings.TrimSpace(y), len(la), len(lb))
		}
	}
	return "equal"
}

// ---- CLI

type cliFault struct {
	id, script  string
	post        []string
	format      string // "" = HCL, else the template
	createErr   error
	baseErr     string
	stmts       []string
	nErr, nSame int
	diffs       []viol
}

func readLog(p string) (l []string) {
	b, _ := os.ReadFile(p)
	for _, s := range strings.Split(string(b), "\n") {
		if strings.TrimSpace(s) != "" {
			l = append(l, s)
		}
	}
	return l
}

func (c *cliFault) run(dir string) {
	os.MkdirAll(dir, 0o755)
	db := fileDB(filepath.Join(dir, "db0"))
	c.createErr = execScript(db, c.script)
	for _, p := range c.post {
		if c.createErr == nil {
			_, c.createErr = db.Exec(p)
		}
	}
	db.Close()
	if c.createErr != nil {
		return
	}
	args := []string{"schema", "inspect", "--url", "sqlitefault://db0"}
	if c.format != "" {
		args = append(args, "--format", c.format)
	}
	logf := filepath.Join(dir, "base.log")
	base := clirun.Run(dir, []string{"VERIF_SQL_LOG=" + logf}, args...)
	if base.Exit != 0 {
		c.baseErr = base.Stderr
		return
	}
	c.stmts = readLog(logf)
	// the same through the plain scheme: the hook itself must not change the output
	plain := clirun.Run(dir, nil, append([]string{"schema", "inspect", "--url", "sqlite://db0"}, args[4:]...)...)
	if plain.Exit != 0 || plain.Stdout != base.Stdout {
		c.diffs = append(c.diffs, viol{"fault-hook-differs", "sqlitefault:// without a fault prints something else than sqlite://"})
	}
	out := make([]clirun.Result, len(c.stmts)+1)
	var wg sync.WaitGroup
	sem := make(chan struct{}, 6)
	for k := 1; k <= len(c.stmts); k++ {
		wg.Add(1)
		sem <- struct{}{}
		go func(k int) {
			defer wg.Done()
			defer func() { <-sem }()
			out[k] = clirun.Run(dir, []string{fmt.Sprintf("VERIF_SQL_FAULT=.@%d", k)}, args...)
		}(k)
	}
	wg.Wait()
	for k := 1; k <= len(c.stmts); k++ {
		r := out[k]
		switch {
		case r.Exit != 0:
			c.nErr++
		case r.Stdout == base.Stdout:
			c.nSame++
		default:
			c.diffs = append(c.diffs, viol{"fault-export-differs", fmt.Sprintf("statement %d of %d (%s) fails with \"database is locked\": `atlas %s` exits 0 and prints a different export: %s", k, len(c.stmts), short(strings.TrimSpace(c.stmts[k-1][4:]), 120), strings.Join(args, " "), short(firstLineDiff(base.Stdout, r.Stdout), 260))})
		}
	}
}

func runFault(w *out.W, tier string) {
	w.Rule = "a case is non-trivial when the undisturbed inspection succeeds and issues >= 3 statements; distinct by the sequence of statement kinds"
	ngen, ncli := 12, 0
	if tier == "thorough" {
		ngen, ncli = 200, 12
	}
	var cases []*faultCase
	for i, sc := range faultScripts {
		cases = append(cases, &faultCase{id: fmt.Sprintf("f%02d", i), script: sc})
	}
	seed := uint64(rng.Seed())
	var gens []*loopCase
	for i := 0; i < ngen; i++ {
		r := rng.New(seed*0x9E3779B97F4A7C15 ^ uint64(i)*0xD1B54A32D192ED03 ^ 0xFA)
		a := genSchemaAST(r, genOpts{nameLevel: i % 3, atlasSafe: true})
		st := newStyle(rng.New(r.U64()), a)
		sc := strings.Join(st.script(a), ";\n") + ";"
		cases = append(cases, &faultCase{id: fmt.Sprintf("fg%04d", i), script: sc})
		gens = append(gens, &loopCase{script: sc})
	}
	// a database with a dangling key: the stub must not hide a failing read either
	for gi, d := range danglingGrid() {
		if gi%4 != 0 {
			continue
		}
		r := rng.New(seed*0x9E3779B97F4A7C15 ^ uint64(gi)*0xD1B54A32D192ED03 ^ 0xFAD)
		lc := newDanglingCase(fmt.Sprintf("fd%02d", gi), "hand", r, d, 0)
		cases = append(cases, &faultCase{id: lc.id, script: lc.script, post: lc.post})
	}
	base, err := os.MkdirTemp("", "c03fault")
	if err != nil {
		panic(err)
	}
	defer os.RemoveAll(base)
	var wg sync.WaitGroup
	sem := make(chan struct{}, 12)
	for i, c := range cases {
		wg.Add(1)
		sem <- struct{}{}
		go func(i int, c *faultCase) {
			defer wg.Done()
			defer func() { <-sem }()
			c.run()
			c.runLocked(filepath.Join(base, fmt.Sprintf("l%d", i)))
		}(i, c)
	}
	wg.Wait()
	for _, c := range cases {
		if c.createErr != nil {
			w.Count("engine-reject")
			w.ImplOnly(c.id, "engine-reject "+short(c.script, 200))
			continue
		}
		if c.baseErr != nil {
			// the undisturbed inspection fails (a known defect of the recovery): nothing to disturb
			w.Count("undisturbed-inspect-error")
			w.ImplOnly(c.id, "inspect-error "+errStr(c.baseErr))
			continue
		}
		var ic []string
		for _, n := range c.idxCounts {
			ic = append(ic, fmt.Sprint(n))
		}
		extra := c.reads - 2 - 3*len(c.idxCounts)
		for _, n := range c.idxCounts {
			extra -= n
		}
		// case: the shape of the catalogue (index-info statements per table); observation: number of
		// statements and the outcome of failing each
		w.Case(c.id, "faults "+strings.Join(ic, ","), []string{fmt.Sprintf("reads=%d outcomes=%s", c.reads, strings.Join(c.outcomes, ","))})
		if extra != 0 {
			w.Count("unexpected-statement-count")
		}
		if c.reads >= 3 {
			w.NonTrivial(strings.Join(c.kinds, ","))
		}
		for _, k := range c.kinds {
			w.Count("stmt:" + k)
		}
		for _, o := range c.outcomes {
			w.Count("outcome:" + o)
		}
		for _, o := range c.lockOut {
			w.Count("lock-outcome:" + o)
		}
		seen := map[string]bool{}
		for _, v := range c.diffs {
			if seen[v.msg] {
				continue
			}
			seen[v.msg] = true
			// since fix C03-rows-err a locked inspection is held to the same contract as an injected
			// fault: an error, or the undisturbed export
			w.Violation(c.id, "fault", fmt.Sprintf("symptom=%s how=inproc %s ;; sql=%s", v.class, v.msg, short(c.script, 500)))
		}
	}
	// ---- CLI: the fixed databases (+ generated ones in the thorough tier), HCL and SQL
	var cl []*cliFault
	for i, sc := range faultScripts {
		for fi, f := range []string{"", "{{ sql . }}", "{{ json . }}"} {
			cl = append(cl, &cliFault{id: fmt.Sprintf("cf%02d_%d", i, fi), script: sc, format: f})
		}
	}
	for i := 0; i < ncli && i < len(gens); i++ {
		for fi, f := range []string{"", "{{ sql . }}", "{{ json . }}"} {
			cl = append(cl, &cliFault{id: fmt.Sprintf("cfg%03d_%d", i, fi), script: gens[i].script, format: f})
		}
	}
	sem2 := make(chan struct{}, 3)
	for i, c := range cl {
		wg.Add(1)
		sem2 <- struct{}{}
		go func(i int, c *cliFault) {
			defer wg.Done()
			defer func() { <-sem2 }()
			c.run(filepath.Join(base, fmt.Sprintf("k%d", i)))
		}(i, c)
	}
	wg.Wait()
	for _, c := range cl {
		if c.createErr != nil {
			w.Count("engine-reject")
			w.ImplOnly(c.id, "engine-reject "+short(c.script, 200))
			continue
		}
		if c.baseErr != "" {
			w.Count("undisturbed-inspect-error")
			w.ImplOnly(c.id, "cli inspect-error "+short(c.baseErr, 200))
			continue
		}
		w.ImplOnly(c.id, fmt.Sprintf("cli statements=%d err=%d same=%d diff=%d", len(c.stmts), c.nErr, c.nSame, len(c.diffs)))
		w.NonTrivial("cli|" + c.format + "|" + fmt.Sprint(len(c.stmts)))
		w.Dist["cli-statements"] += len(c.stmts)
		w.Dist["cli-outcome:err"] += c.nErr
		w.Dist["cli-outcome:same"] += c.nSame
		for _, v := range c.diffs {
			w.Violation(c.id, "fault", fmt.Sprintf("symptom=cli-%s how=cli %s ;; sql=%s", v.class, v.msg, short(c.script, 500)))
		}
	}
}
