package main

// Rendering of the schema AST: (a) CREATE statements as users write them,
// (b) a schema.Schema for Atlas' own planner.

import (
	"strings"

	"ariga.io/atlas/sql/schema"
	"ariga.io/atlas/sql/sqlite"

	"verifharness/internal/rng"
)

type style struct {
	r        *rng.R
	seed     uint64 // per-identifier choices are a function of (seed, name): independent of rendering order
	rk, rc   *rng.R // separate streams for spacing and comments
	quote    int    // 0 per-identifier random, 1 "dq", 2 `bt`, 3 [br], 4 bare when possible else dq
	kw       int    // 0 UPPER, 1 lower, 2 Mixed
	nl       bool   // newline + indent between definitions
	tight    bool   // CHECK(, REFERENCES t(
	comments int    // 0 none, 1 block comments, 2 line comments
	wide     bool   // double spaces / tabs between tokens
	s        *hSchema
	// repairs (see repair.go)
	noBracket  bool // [x] -> "x"
	whereUpper bool // the keyword WHERE is always upper case
}

func newStyle(r *rng.R, s *hSchema) *style {
	st := &style{r: r, s: s, quote: r.Intn(5), kw: 0, nl: r.Chance(1, 3), tight: r.Chance(1, 3), wide: r.Chance(1, 6)}
	st.seed = r.U64()
	st.rk, st.rc = rng.New(st.seed^1), rng.New(st.seed^2)
	if r.Chance(1, 3) {
		st.kw = 1 + r.Intn(2)
	}
	if r.Chance(1, 5) {
		st.comments = 1 + r.Intn(2)
	}
	s.tag([]string{"style-q-mixed", "style-q-dq", "style-q-bt", "style-q-br", "style-q-bare"}[st.quote])
	if st.kw != 0 {
		s.tag("style-kw-notupper")
	}
	if st.nl {
		s.tag("style-newlines")
	}
	if st.tight {
		s.tag("style-tight")
	}
	if st.comments != 0 {
		s.tag("style-comments")
	}
	if st.wide {
		s.tag("style-wide")
	}
	return st
}

func (st *style) k(words string) string {
	sp := " "
	if st.wide {
		sp = rng.Pick(st.rk, []string{"  ", "\t", " \t "})
	}
	ws := strings.Fields(words)
	for i, w := range ws {
		if st.whereUpper && w == "WHERE" {
			continue
		}
		switch st.kw {
		case 1:
			ws[i] = strings.ToLower(w)
		case 2:
			ws[i] = w[:1] + strings.ToLower(w[1:])
		}
	}
	return strings.Join(ws, sp)
}

func (st *style) id(name string) string {
	q := st.quote
	if q == 0 {
		h := st.seed
		for _, c := range []byte(name) {
			h = (h ^ uint64(c)) * 0x100000001B3
		}
		q = 1 + int((h>>20)%4)
	}
	if q == 4 {
		if isPlainIdent(name) {
			st.s.tag("ident-bare")
			return name
		}
		q = 1
	}
	if q == 3 && (strings.ContainsAny(name, "]") || st.noBracket) {
		q = 1
	}
	switch q {
	case 2:
		st.s.tag("ident-backtick")
		return "`" + strings.ReplaceAll(name, "`", "``") + "`"
	case 3:
		st.s.tag("ident-bracket")
		return "[" + name + "]"
	}
	st.s.tag("ident-dq")
	return `"` + strings.ReplaceAll(name, `"`, `""`) + `"`
}

func (st *style) paren() string {
	if st.tight {
		return "("
	}
	return " ("
}

func (st *style) ids(names []string) string {
	var l []string
	for _, n := range names {
		l = append(l, st.id(n))
	}
	return strings.Join(l, st.comma())
}

func (st *style) comma() string {
	if st.tight {
		return ","
	}
	return ", "
}

func (st *style) fkTail(f *hFK) string {
	s := st.k("REFERENCES") + " " + st.id(f.RefTable) + st.paren() + st.ids(f.RefCols) + ")"
	if f.OnUpd != "" {
		s += " " + st.k("ON UPDATE "+f.OnUpd)
	}
	if f.OnDel != "" {
		s += " " + st.k("ON DELETE "+f.OnDel)
	}
	return s
}

func (st *style) check(c *hCheck) string {
	s := ""
	if c.Name != "" {
		s = st.k("CONSTRAINT") + " " + st.id(c.Name) + " "
	}
	return s + st.k("CHECK") + st.paren() + c.Expr + ")"
}

func (st *style) parts(ps []hPart) string {
	var l []string
	for _, p := range ps {
		x := ""
		if p.Col != "" {
			x = st.id(p.Col)
		} else {
			x = "(" + p.Expr + ")"
		}
		if p.Collate != "" {
			x += " " + st.k("COLLATE") + " " + p.Collate
		}
		if p.Desc {
			x += " " + st.k("DESC")
		}
		l = append(l, x)
	}
	return strings.Join(l, st.comma())
}

func (st *style) column(c *hCol) string {
	s := st.id(c.Name) + " " + c.Type
	if c.PKInline {
		s += " " + st.k("PRIMARY KEY")
		if c.PKDesc {
			s += " " + st.k("DESC")
		}
		if c.AutoInc {
			s += " " + st.k("AUTOINCREMENT")
		}
	}
	if c.NotNull {
		s += " " + st.k("NOT NULL")
	}
	if c.Default != "" {
		s += " " + st.k("DEFAULT") + " " + c.Default
	}
	if c.Collate != "" {
		s += " " + st.k("COLLATE") + " " + c.Collate
	}
	if c.Unique {
		s += " " + st.k("UNIQUE")
	}
	if c.Check != nil {
		s += " " + st.check(c.Check)
	}
	if c.Ref != nil {
		if c.Ref.Name != "" {
			s += " " + st.k("CONSTRAINT") + " " + st.id(c.Ref.Name)
		}
		s += " " + st.fkTail(c.Ref)
	}
	if c.Gen != "" {
		if c.GenLong {
			s += " " + st.k("GENERATED ALWAYS")
		}
		s += " " + st.k("AS") + st.paren() + c.Gen + ")"
		if c.GenKind != "" {
			s += " " + st.k(c.GenKind)
		}
	}
	return s
}

func (st *style) comment() string {
	switch st.comments {
	case 1:
		return rng.Pick(st.rc, []string{" /* note */", " /* a, b */", " /* (x) */", ""})
	case 2:
		return rng.Pick(st.rc, []string{" -- note\n", " -- a, b\n", ""})
	}
	return ""
}

// createTable renders one CREATE TABLE statement (no trailing semicolon).
func (st *style) createTable(t *hTable) string {
	var defs []string
	for i := range t.Cols {
		defs = append(defs, st.column(&t.Cols[i])+st.comment())
	}
	if len(t.PK) > 0 {
		defs = append(defs, st.k("PRIMARY KEY")+st.paren()+st.parts(t.PK)+")")
	}
	for _, u := range t.Uniques {
		defs = append(defs, st.k("UNIQUE")+st.paren()+st.ids(u)+")")
	}
	for i := range t.FKs {
		f := &t.FKs[i]
		s := ""
		if f.Name != "" {
			s = st.k("CONSTRAINT") + " " + st.id(f.Name) + " "
		}
		defs = append(defs, s+st.k("FOREIGN KEY")+st.paren()+st.ids(f.Cols)+") "+st.fkTail(f))
	}
	for i := range t.Checks {
		defs = append(defs, st.check(&t.Checks[i]))
	}
	sep := st.comma()
	open, close := st.paren(), ")"
	if st.nl {
		sep = ",\n  "
		open, close = " (\n  ", "\n)"
	}
	s := st.k("CREATE TABLE") + " " + st.id(t.Name) + open + strings.Join(defs, sep) + close
	var opts []string
	if t.WithoutRowid {
		opts = append(opts, st.k("WITHOUT ROWID"))
	}
	if t.Strict {
		opts = append(opts, st.k("STRICT"))
	}
	if len(opts) > 0 {
		s += " " + strings.Join(opts, st.comma())
	}
	return s
}

func (st *style) createIndex(t *hTable, ix *hIndex) string {
	s := st.k("CREATE")
	if ix.Unique {
		s += " " + st.k("UNIQUE")
	}
	s += " " + st.k("INDEX") + " " + st.id(ix.Name) + " " + st.k("ON") + " " + st.id(t.Name) + st.paren() + st.parts(ix.Parts) + ")"
	if ix.Where != "" {
		s += " " + st.k("WHERE") + " " + ix.Where
	}
	return s
}

// script renders the whole schema; tables in an order that SQLite accepts in
// any case (foreign keys are not checked at CREATE time).
func (st *style) script(s *hSchema) []string {
	var out []string
	for i := range s.Tables {
		out = append(out, st.createTable(&s.Tables[i]))
	}
	for i := range s.Tables {
		for j := range s.Tables[i].Indexes {
			out = append(out, st.createIndex(&s.Tables[i], &s.Tables[i].Indexes[j]))
		}
	}
	return out
}

// ---- AST -> schema.Schema (what a user of the Go API / HCL would declare)

func astDefault(d string) schema.Expr {
	if d == "" {
		return nil
	}
	c := d[0]
	if c == '\'' || c == '"' || c >= '0' && c <= '9' || c == '-' || c == '+' || strings.EqualFold(d, "true") || strings.EqualFold(d, "false") || strings.HasPrefix(strings.ToLower(d), "x'") {
		return &schema.Literal{V: d}
	}
	return &schema.RawExpr{X: d}
}

func astToSchema(a *hSchema) (*schema.Schema, error) {
	s := schema.New("main")
	for i := range a.Tables {
		ht := &a.Tables[i]
		t := schema.NewTable(ht.Name).SetSchema(s)
		for j := range ht.Cols {
			hc := &ht.Cols[j]
			typ, err := sqlite.ParseType(hc.Type)
			if err != nil {
				return nil, err
			}
			c := schema.NewColumn(hc.Name).SetType(typ).SetNull(!hc.NotNull)
			c.Type.Raw = hc.Type
			if d := astDefault(hc.Default); d != nil {
				c.SetDefault(d)
			}
			if hc.AutoInc {
				c.AddAttrs(&sqlite.AutoIncrement{})
			}
			if hc.Gen != "" {
				c.SetGeneratedExpr(&schema.GeneratedExpr{Expr: hc.Gen, Type: hc.GenKind})
			}
			t.AddColumns(c)
		}
		col := func(n string) *schema.Column { c, _ := t.Column(n); return c }
		var pk []*schema.Column
		for j := range ht.Cols {
			if ht.Cols[j].PKInline {
				pk = append(pk, col(ht.Cols[j].Name))
			}
		}
		for _, p := range ht.PK {
			pk = append(pk, col(p.Col))
		}
		if len(pk) > 0 {
			t.SetPrimaryKey(schema.NewPrimaryKey(pk...))
		}
		for j := range ht.Cols {
			if ht.Cols[j].Unique {
				t.AddIndexes(schema.NewUniqueIndex(ht.Name + "_" + ht.Cols[j].Name).AddColumns(col(ht.Cols[j].Name)))
			}
			if k := ht.Cols[j].Check; k != nil {
				t.AddChecks(&schema.Check{Name: k.Name, Expr: k.Expr})
			}
		}
		for _, u := range ht.Uniques {
			ix := schema.NewUniqueIndex(ht.Name + "_" + strings.Join(u, "_"))
			for _, n := range u {
				ix.AddColumns(col(n))
			}
			t.AddIndexes(ix)
		}
		for _, k := range ht.Checks {
			t.AddChecks(&schema.Check{Name: k.Name, Expr: k.Expr})
		}
		for j := range ht.Indexes {
			hi := &ht.Indexes[j]
			ix := schema.NewIndex(hi.Name).SetUnique(hi.Unique)
			for _, p := range hi.Parts {
				var part *schema.IndexPart
				if p.Col != "" {
					part = schema.NewColumnPart(col(p.Col))
				} else {
					part = schema.NewExprPart(&schema.RawExpr{X: "(" + p.Expr + ")"})
				}
				part.Desc = p.Desc
				ix.AddParts(part)
			}
			if hi.Where != "" {
				ix.AddAttrs(&sqlite.IndexPredicate{P: hi.Where})
			}
			t.AddIndexes(ix)
		}
		if ht.WithoutRowid {
			t.AddAttrs(&sqlite.WithoutRowID{})
		}
		if ht.Strict {
			t.AddAttrs(&sqlite.Strict{})
		}
		s.AddTables(t)
	}
	for i := range a.Tables {
		ht := &a.Tables[i]
		t, _ := s.Table(ht.Name)
		add := func(f *hFK) {
			rt, _ := s.Table(f.RefTable)
			fk := schema.NewForeignKey(f.Name).SetTable(t).SetRefTable(rt)
			for _, n := range f.Cols {
				c, _ := t.Column(n)
				fk.AddColumns(c)
			}
			for _, n := range f.RefCols {
				c, _ := rt.Column(n)
				fk.AddRefColumns(c)
			}
			if f.OnDel != "" {
				fk.SetOnDelete(schema.ReferenceOption(f.OnDel))
			}
			if f.OnUpd != "" {
				fk.SetOnUpdate(schema.ReferenceOption(f.OnUpd))
			}
			t.AddForeignKeys(fk)
		}
		for j := range ht.Cols {
			if ht.Cols[j].Ref != nil {
				add(ht.Cols[j].Ref)
			}
		}
		for j := range ht.FKs {
			add(&ht.FKs[j])
		}
	}
	return s, nil
}
